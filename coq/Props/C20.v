(* C20 -- plotting draws exactly the boundary of the shape.  Statements only; definitions in
   Model/Plot.v (the model of plot.py's path builders and patch loop, and `decode`, the
   specification side: matplotlib's path-code semantics MOVETO/LINETO/CURVE3/CURVE4/CLOSEPOLY),
   proofs in Lemmas/Plot.v.  matplotlib's rendering beyond the Path arrays, colours, and the
   1e-6 rounding of outline vertices are not modelled. *)
From Coq Require Import List ZArith QArith.
From SV Require Import Spec.Spec Model.Plot Lemmas.Plot.

(* every outline retraces its boundary curve segment by segment (line, quadratic and cubic
   pieces alike), closed, in order *)
Theorem C20_outline_retraces : forall j, plot_ok j -> decode (path_jordan j) = Some [j].
Proof. exact decode_path_jordan. Qed.
Print Assumptions C20_outline_retraces.
(* one filled path per component with one closed subpath per boundary curve *)
Theorem C20_fill_retraces : forall c, (forall j, In j (comp_jordans c) -> plot_ok j) ->
  decode (path_comp c) = Some (comp_jordans c).
Proof. exact decode_path_comp. Qed.
Print Assumptions C20_fill_retraces.

(* patch structure: one region patch per component, one outline per boundary curve, in order;
   bounded components filled, unbounded ones a hole in a filled background *)
Theorem C20_regions : forall s, shape_plot_ok s ->
  map decode (region_paths (plot_shape s)) = map (fun c => Some (comp_jordans c)) (comps s).
Proof. exact decode_regions. Qed.
Theorem C20_outlines : forall s, shape_plot_ok s ->
  map (fun bp => (fst bp, decode (snd bp))) (outline_patches (plot_shape s)) =
  map (fun j => (jordan_pos j, Some [j])) (jordans s).
Proof. exact decode_outlines. Qed.
Theorem C20_fill_iff_bounded : forall c p, In (Fill p) (plot_comp c) <-> (0 < comp_area c)%Q /\ p = path_comp c.
Proof. exact plot_comp_fill_iff. Qed.
Theorem C20_hole_iff_unbounded : forall c p, In (Hole p) (plot_comp c) <-> ~ (0 < comp_area c)%Q /\ p = path_comp c.
Proof. exact plot_comp_hole_iff. Qed.
Theorem C20_empty_whole : plot_shape SEmpty = [] /\ plot_shape SWhole = [Background].
Proof. split; [exact plot_shape_empty | exact plot_shape_whole]. Qed.
Print Assumptions C20_regions.
Print Assumptions C20_outlines.

(* the specification bites: without the CLOSEPOLY entry nothing decodes, and a dropped segment
   is seen unless it is a final straight piece (which CLOSEPOLY redraws) *)
Theorem C20_closepoly_needed : forall j, decode (removelast (path_jordan j)) = None.
Proof. exact decode_without_closepoly. Qed.
Theorem C20_segment_needed : forall l1 s l2, plot_ok (l1 ++ s :: l2) -> l2 <> [] \/ length s <> 2%nat ->
  decode (path_jordan_drop l1 s l2) <> Some [l1 ++ s :: l2].
Proof. exact decode_drop_segment. Qed.
Print Assumptions C20_segment_needed.

(* the repaired defect (F3), as a counterfactual about the old path builder *)
Example C20_old_code_refuted :
  path_codes (path_jordan_old mixed_witness) = [1;2;3;3;79]%Z /\
  decode (path_jordan_old mixed_witness) <> Some [mixed_witness] /\
  path_codes (path_jordan mixed_witness) = [1;4;4;4;2;3;3;79]%Z /\
  decode (path_jordan mixed_witness) = Some [mixed_witness].
Proof.
  split; [exact old_codes|]. split; [exact old_path_wrong|]. split; [exact new_codes | exact new_path_right].
Qed.
Example C20_nonvacuous : plot_ok unit_square /\ plot_ok mixed_witness.
Proof. split; [exact unit_square_ok | exact mixed_witness_ok]. Qed.
