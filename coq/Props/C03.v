(* C03 -- `B in A` for curves and shapes means subset.  Statements only; proofs in
   Lemmas/Logic.v, Lemmas/Construct.v.
   Proved (all inputs): the Empty/Whole rows, and the composition rules as the model computes
   them: a Connected container contains X iff all its boundaries' simple shapes do; a Disjoint
   container contains a connected X iff some component does, a Disjoint X iff it contains every
   component of X; and SOUNDNESS of the curve-in-shape test for polygons in general position
   (C03_curve_in_shape_sound) and its COMPLETENESS (C03_curve_in_shape_complete): in general
   position `J in A` decides "every point of J is a point of A" (C03_curve_in_shape_iff).
   REGION level, for two strictly convex counter-clockwise polygons (Lemmas/SubsetConvex.v, on
   top of Lemmas/Convex.v): the regions are the half-plane intersections (C03_convex_region_closed, _open, _out),
   `B in A` = True implies closed B inside closed A and open B inside open A
   (C03_convex_in_sound, hypothesis: the tolerance test is exact at the vertices of B -- decidable);
   `B in A` = False implies a boundary point of B outside A (C03_convex_in_false), and
   `B in A` = True IFF closed B is inside closed A (C03_convex_in_iff) under two decidable
   hypotheses: tolerance exactness at the finitely many tested points, and area A >= area B
   (only the library's "B has more area than A" short-cut needs it: monotonicity of the area under
   inclusion is proved when B is a triangle -- C03_convex_in_iff_triangle has no area hypothesis).
   NOT proved (partial): the same for non-convex simple polygons and for holes (that needs the
   Jordan curve theorem for polygons) -- oracle on every run (exact subset decision by slab
   sampling).
   Two defects in exactly that part were found and repaired (known_findings.json: F10, F11). *)
From Coq Require Import List.
From SV Require Import Spec.Spec Lemmas.Logic Lemmas.Lines Lemmas.Subset Lemmas.SubsetComplete Lemmas.Convex Lemmas.SubsetConvex.
Open Scope Q_scope.

Theorem C03_whole_contains_all : forall b, contains_shape SWhole b = Ok true.
Proof. exact contains_whole_l. Qed.
Theorem C03_empty_in_all : forall a, contains_shape a SEmpty = Ok true.
Proof. exact contains_empty_r. Qed.
Theorem C03_empty_contains_only_empty : forall b, b <> SEmpty -> contains_shape SEmpty b = Ok false.
Proof. exact contains_empty_l. Qed.
Theorem C03_whole_only_in_whole : forall a, a <> SWhole -> a <> SEmpty -> contains_shape a SWhole = Ok false.
Proof. exact contains_whole_r. Qed.
Print Assumptions C03_whole_only_in_whole.

Theorem C03_connected_container : forall js o,
  contains_shape (SC (CC js)) (SC o) = Ok true <->
  (forall j, In j js -> contains_shape (SC (CS j)) (SC o) = Ok true).
Proof. exact contains_CC_SC_true. Qed.
Theorem C03_disjoint_container : forall cs o,
  contains_shape (SD cs) (SC o) = Ok true -> exists c, In c cs /\ contains_shape (SC c) (SC o) = Ok true.
Proof. exact contains_SD_SC_true. Qed.
Theorem C03_disjoint_content : forall cs os,
  contains_shape (SD cs) (SD os) = Ok true <->
  (forall o, In o os -> contains_shape (SD cs) (SC o) = Ok true).
Proof. exact contains_SD_SD_true. Qed.
Print Assumptions C03_disjoint_content.

(* SOUNDNESS of curve-in-shape for polygons (the heart of `B in A`): if the library says the curve
   is contained, then every point of the curve is inside or on the boundary of the shape -- for
   straight closed boundaries in general position (every common point of a segment of J and an edge
   of A is a transversal crossing), wherever the tolerance tests answer the exact question at the
   points the code samples and the shape has no undefined winding numbers there.  The proof uses
   the completeness of the crossing finder (C14) and the local constancy of the winding number
   (C02_region_locally_constant): between consecutive crossing parameters the curve cannot change
   region, so the sampled midpoints speak for the whole piece.  Holds for both boundary flags. *)
Theorem C03_curve_in_shape_sound : forall self j b,
  simple_has_jordan self j b = Ok true ->
  all_lines self = true -> closed_chain self = true -> all_lines j = true ->
  general_position j self ->
  (forall p, sampled self j p -> tol_exact self p) ->
  (forall p, sampled self j p -> region_simple self p <> RUndef) ->
  forall s t, In s j -> 0 <= t -> t <= 1 ->
  region_simple self (eval s t) = RIn \/ region_simple self (eval s t) = RBdry.
Proof. exact simple_has_jordan_sound. Qed.
Print Assumptions C03_curve_in_shape_sound.
(* without any assumption on undefined winding numbers: no point of the curve is outside *)
Theorem C03_curve_in_shape_not_out : forall self j b,
  simple_has_jordan self j b = Ok true ->
  all_lines self = true -> closed_chain self = true -> all_lines j = true ->
  general_position j self ->
  (forall p, sampled self j p -> tol_exact self p) ->
  forall s t, In s j -> 0 <= t -> t <= 1 -> region_simple self (eval s t) <> ROut.
Proof. exact simple_has_jordan_not_out. Qed.
Print Assumptions C03_curve_in_shape_not_out.
(* COMPLETENESS of the closed curve-in-shape test (boundary flag true), with no general-position
   hypothesis: if every point of J is inside or on the boundary, the library answers True -- it
   never raises and never answers False on a contained curve. *)
Theorem C03_curve_in_shape_complete : forall self j,
  all_lines self = true -> closed_chain self = true -> all_lines j = true ->
  (forall p, curve_pt j p -> tol_exact self p) ->
  (forall s t, In s j -> 0 <= t -> t <= 1 ->
     region_simple self (eval s t) = RIn \/ region_simple self (eval s t) = RBdry) ->
  simple_has_jordan self j true = Ok true.
Proof. exact simple_has_jordan_complete. Qed.
(* hence, in general position, `J in A` for a simple polygonal A DECIDES "every point of J is a
   point of (closed) A" *)
Theorem C03_curve_in_shape_iff : forall self j,
  all_lines self = true -> closed_chain self = true -> all_lines j = true ->
  general_position j self ->
  (forall p, curve_pt j p -> tol_exact self p) ->
  (forall p, curve_pt j p -> region_simple self p <> RUndef) ->
  (simple_has_jordan self j true = Ok true <->
   forall s t, In s j -> 0 <= t -> t <= 1 ->
     region_simple self (eval s t) = RIn \/ region_simple self (eval s t) = RBdry).
Proof. exact simple_has_jordan_iff. Qed.
Print Assumptions C03_curve_in_shape_complete.
Print Assumptions C03_curve_in_shape_iff.
Example C03_iff_nonvacuous : simple_has_jordan big small true = Ok true.
Proof. exact small_in_big_complete. Qed.

(* non-vacuity: all hypotheses are decidable for concrete data (Subset.simple_has_jordan_sound_checked);
   a square inside a square, a diamond touching the four edges with its vertices, and a triangle
   cut in the middle of an edge by the reflex vertex of an L-shaped hexagon all meet them *)
Example C03_sound_nonvacuous_square : forall s t, In s small -> 0 <= t -> t <= 1 ->
  region_simple big (eval s t) = RIn \/ region_simple big (eval s t) = RBdry.
Proof. exact small_in_big. Qed.
Example C03_sound_nonvacuous_touching : forall s t, In s diamond -> 0 <= t -> t <= 1 ->
  region_simple big (eval s t) = RIn \/ region_simple big (eval s t) = RBdry.
Proof. exact diamond_in_big. Qed.
Example C03_sound_nonvacuous_cut : forall s t, In s tri -> 0 <= t -> t <= 1 ->
  region_simple Lhex (eval s t) = RIn \/ region_simple Lhex (eval s t) = RBdry.
Proof. exact tri_in_Lhex. Qed.
(* lifted to any shape: if contains_jordan answers True for a Simple/Connected/Disjoint polygonal
   shape, every point of the curve is inside-or-on every boundary the answer depended on *)
Theorem C03_contains_curve_sound : forall S j b,
  contains_jordan S j b = Ok true -> all_lines j = true ->
  (forall self, In self (jordans S) -> good_pair self j) ->
  (forall cs, S = SD cs -> forall c p, In c cs -> curve_pt j p -> region_comp c p <> RUndef) ->
  forall p, curve_pt j p -> region S p = RIn \/ region S p = RBdry.
Proof. exact contains_jordan_sound. Qed.
Print Assumptions C03_contains_curve_sound.

(* ---- region level, strictly convex counter-clockwise polygons ---- *)
(* the region of the specification is the intersection of the half-planes of the edges *)
Theorem C03_convex_region_closed : forall vs p, convex_ccw_b vs = true ->
  (in_closed (poly_of vs) p <-> forall e, In e (edges_of vs) -> 0 <= orient (fst e) (snd e) p).
Proof. exact convex_closed_iff. Qed.
Theorem C03_convex_region_open : forall vs p, convex_ccw_b vs = true ->
  (region_simple (poly_of vs) p = RIn <-> forall e, In e (edges_of vs) -> 0 < orient (fst e) (snd e) p).
Proof. exact convex_open_iff. Qed.
Theorem C03_convex_region_out : forall vs p, convex_ccw_b vs = true ->
  (region_simple (poly_of vs) p = ROut <-> exists e, In e (edges_of vs) /\ orient (fst e) (snd e) p < 0).
Proof. exact convex_out_iff. Qed.
(* `B in A` always returns *)
Theorem C03_convex_in_total : forall va vb, convex_ccw_b va = true -> convex_ccw_b vb = true ->
  exists r, simple_has_simple (poly_of va) (poly_of vb) = Ok r.
Proof. exact convex_in_total. Qed.
(* True is right: every point of closed B is a point of closed A, every interior point an interior point *)
Theorem C03_convex_in_sound : forall va vb, convex_ccw_b va = true -> convex_ccw_b vb = true ->
  (forall w, In w vb -> tol_exact (poly_of va) w) ->
  simple_has_simple (poly_of va) (poly_of vb) = Ok true ->
  forall p, (in_closed (poly_of vb) p -> in_closed (poly_of va) p) /\
            (region_simple (poly_of vb) p = RIn -> region_simple (poly_of va) p = RIn).
Proof.
  intros va vb Ca Cb T H p. split;
    [exact (convex_in_sound va vb Ca Cb T H p) | exact (convex_in_sound_open va vb Ca Cb T H p)].
Qed.
(* False is right: some boundary point of B is outside A *)
Theorem C03_convex_in_false : forall va vb, convex_ccw_b va = true -> convex_ccw_b vb = true ->
  tol_tested (poly_of va) (poly_of vb) ->
  Qlt_bool (jordan_area (poly_of va)) (jordan_area (poly_of vb)) = false ->
  simple_has_simple (poly_of va) (poly_of vb) = Ok false ->
  exists p, on_boundary (poly_of vb) p = true /\ region_simple (poly_of va) p = ROut.
Proof. exact convex_in_false. Qed.
(* hence `B in A` DECIDES the subset relation of the regions *)
Theorem C03_convex_in_iff : forall va vb, convex_ccw_b va = true -> convex_ccw_b vb = true ->
  tol_tested (poly_of va) (poly_of vb) ->
  Qlt_bool (jordan_area (poly_of va)) (jordan_area (poly_of vb)) = false ->
  (simple_has_simple (poly_of va) (poly_of vb) = Ok true <->
   forall p, in_closed (poly_of vb) p -> in_closed (poly_of va) p).
Proof. exact convex_in_iff_area. Qed.
Theorem C03_convex_in_iff_triangle : forall va a b c, convex_ccw_b va = true ->
  convex_ccw_b [a; b; c] = true -> tol_tested (poly_of va) (poly_of [a; b; c]) ->
  (simple_has_simple (poly_of va) (poly_of [a; b; c]) = Ok true <->
   forall p, in_closed (poly_of [a; b; c]) p -> in_closed (poly_of va) p).
Proof. exact convex_in_iff_triangle. Qed.
(* the tolerance hypothesis is a boolean *)
Theorem C03_tol_tested_decidable : forall self j, tol_tested_b self j = true -> tol_tested self j.
Proof. exact tol_tested_b_ok. Qed.
Print Assumptions C03_convex_in_sound.
Print Assumptions C03_convex_in_false.
Print Assumptions C03_convex_in_iff.
Print Assumptions C03_convex_in_iff_triangle.
(* non-vacuity: a triangle inside a pentagon (all hypotheses by evaluation, answer True), and a
   triangle that sticks out of it (answer False, witness vertex outside) *)
Example C03_convex_nonvacuous :
  convex_ccw_b ex_pentagon = true /\ convex_ccw_b ex_in = true /\
  tol_tested_b (poly_of ex_pentagon) (poly_of ex_in) = true /\
  Qlt_bool (jordan_area (poly_of ex_pentagon)) (jordan_area (poly_of ex_in)) = false /\
  simple_has_simple (poly_of ex_pentagon) (poly_of ex_in) = Ok true.
Proof. exact ex_in_hyps. Qed.
Example C03_convex_nonvacuous_false :
  exists p, on_boundary (poly_of ex_cross) p = true /\ region_simple (poly_of ex_pentagon) p = ROut.
Proof. exact ex_cross_witness. Qed.

(* the witnesses of the two repaired defects now answer correctly in the model *)
Example C03_nonvacuous_F11 :
  let L := [[(0,0);(4,0)];[(4,0);(4,4)];[(4,4);(2,4)];[(2,4);(2,2)];[(2,2);(0,2)];[(0,2);(0,0)]] in
  let J := [[(0,0);(4,4)];[(4,4);(2,4)];[(2,4);(0,2)];[(0,2);(0,0)]] in
  contains_jordan (SC (CS L)) J true = Ok false.
Proof. vm_compute. reflexivity. Qed.
Example C03_nonvacuous_F10 :
  let nL := [[(0,0);(0,2)];[(0,2);(2,2)];[(2,2);(2,4)];[(2,4);(4,4)];[(4,4);(4,0)];[(4,0);(0,0)]] in
  let nsq := [[(1#2,5#2);(1#2,7#2)];[(1#2,7#2);(3#2,7#2)];[(3#2,7#2);(3#2,5#2)];[(3#2,5#2);(1#2,5#2)]] in
  contains_shape (SC (CS nsq)) (SC (CS nL)) = Ok false /\ contains_shape (SC (CS nL)) (SC (CS nsq)) = Ok false.
Proof. vm_compute. split; reflexivity. Qed.
(* second half of the F10 repair (c1b252d): unbounded shapes whose holes only touch are not nested *)
Example C03_nonvacuous_F22 :
  let nX := [[(0,0);(0,1)];[(0,1);(1,1)];[(1,1);(1,0)];[(1,0);(0,0)]] in
  let nY := [[(1,1);(1,3)];[(1,3);(3,3)];[(3,3);(3,1)];[(3,1);(1,1)]] in
  contains_shape (SC (CS nX)) (SC (CS nY)) = Ok false /\ contains_shape (SC (CS nY)) (SC (CS nX)) = Ok false.
Proof. vm_compute. split; reflexivity. Qed.
