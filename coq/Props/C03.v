(* C03 -- `B in A` for curves and shapes means subset.  Statements only; proofs in
   Lemmas/Logic.v, Lemmas/Construct.v.
   Proved (all inputs): the Empty/Whole rows, and the composition rules as the model computes
   them: a Connected container contains X iff all its boundaries' simple shapes do; a Disjoint
   container contains a connected X iff some component does, a Disjoint X iff it contains every
   component of X.  NOT proved (partial): that the simple-in-simple test (area/orientation case
   analysis + curve-in-shape sampling at vertices and at the midpoints of all pieces between
   crossings) decides subset -- oracle on every run (exact subset decision by slab sampling).
   Two defects in exactly that part were found and repaired (known_findings.json: F10, F11). *)
From Coq Require Import List.
From SV Require Import Spec.Spec Lemmas.Logic.

Theorem C03_whole_contains_all : forall b, contains_shape SWhole b = Ok true.
Proof. exact contains_whole_l. Qed.
Theorem C03_empty_in_all : forall a, contains_shape a SEmpty = Ok true.
Proof. exact contains_empty_r. Qed.
Theorem C03_empty_contains_only_empty : forall b, b <> SEmpty -> contains_shape SEmpty b = Ok false.
Proof. exact contains_empty_l. Qed.
Theorem C03_whole_only_in_whole : forall a, a <> SWhole -> a <> SEmpty -> contains_shape a SWhole = Ok false.
Proof. exact contains_whole_r. Qed.
Print Assumptions C03_whole_only_in_whole.

Theorem C03_connected_container : forall js o,
  contains_shape (SC (CC js)) (SC o) = Ok true <->
  (forall j, In j js -> contains_shape (SC (CS j)) (SC o) = Ok true).
Proof. exact contains_CC_SC_true. Qed.
Theorem C03_disjoint_container : forall cs o,
  contains_shape (SD cs) (SC o) = Ok true -> exists c, In c cs /\ contains_shape (SC c) (SC o) = Ok true.
Proof. exact contains_SD_SC_true. Qed.
Theorem C03_disjoint_content : forall cs os,
  contains_shape (SD cs) (SD os) = Ok true <->
  (forall o, In o os -> contains_shape (SD cs) (SC o) = Ok true).
Proof. exact contains_SD_SD_true. Qed.
Print Assumptions C03_disjoint_content.

(* the witnesses of the two repaired defects now answer correctly in the model *)
Example C03_nonvacuous_F11 :
  let L := [[(0,0);(4,0)];[(4,0);(4,4)];[(4,4);(2,4)];[(2,4);(2,2)];[(2,2);(0,2)];[(0,2);(0,0)]] in
  let J := [[(0,0);(4,4)];[(4,4);(2,4)];[(2,4);(0,2)];[(0,2);(0,0)]] in
  contains_jordan (SC (CS L)) J true = Ok false.
Proof. vm_compute. reflexivity. Qed.
Example C03_nonvacuous_F10 :
  let nL := [[(0,0);(0,2)];[(0,2);(2,2)];[(2,2);(2,4)];[(2,4);(4,4)];[(4,4);(4,0)];[(4,0);(0,0)]] in
  let nsq := [[(1#2,5#2);(1#2,7#2)];[(1#2,7#2);(3#2,7#2)];[(3#2,7#2);(3#2,5#2)];[(3#2,5#2);(1#2,5#2)]] in
  contains_shape (SC (CS nsq)) (SC (CS nL)) = Ok false /\ contains_shape (SC (CS nL)) (SC (CS nsq)) = Ok false.
Proof. vm_compute. split; reflexivity. Qed.
