(* C01 -- boolean operators compute the set-theoretic result, point by point; nested
   expressions; the operator always returns.  Statements only; proofs in Lemmas/Logic.v and
   Lemmas/Fuel.v.
   Full statement (C01_full): for all environments of well-formed shapes, all expressions e
   over | & - ^ ~ + * neg, every point p off the operands' boundaries:
      eval_expr env e = Ok (_, R) -> contains_point R p = sem (fun n => contains_point env_n p) e.
   Proved: (1) C01_expressions -- the statement for ALL expressions follows from the one-step
   soundness of | , & and ~ (the derived operators - ^ + * neg and the write-back of re-split
   operands are handled by the proof); (2) C01_never_hangs -- no operator expression can run out
   of fuel: the three unbounded loops of the code (pursue_path, DivideConnecteds, clean) terminate
   on ALL inputs; (3) the Empty/Whole cases and the complement (Props/C06.v, C05.v).
   NOT proved (C01_partial): the one-step soundness of | and & when FollowPath recombines the
   boundaries -- the geometric heart (a Jordan-curve-type argument) -- stays the explicit premise
   of C01_expressions and is checked on every run by the oracle (membership at one point of
   every cell of the edge arrangement of the operands, exact). *)
From Coq Require Import List Bool.
From SV Require Import Spec.Spec Lemmas.Logic Lemmas.Fuel.

Definition C01_full : Prop :=
  forall (p : point) (ok : shape -> Prop) e env env' r,
    Forall ok env -> eval_expr env e = Ok (env', r) ->
    contains_point r p true = sem (fun n => contains_point (nth n env SEmpty) p true) e.

Theorem C01_expressions : forall (den : shape -> bool) (ok : shape -> Prop),
  (forall a b a' b' r, op_or a b = Ok (a', b', r) -> ok a -> ok b ->
     ok a' /\ ok b' /\ ok r /\ den a' = den a /\ den b' = den b /\ den r = den a || den b) ->
  (forall a b a' b' r, op_and a b = Ok (a', b', r) -> ok a -> ok b ->
     ok a' /\ ok b' /\ ok r /\ den a' = den a /\ den b' = den b /\ den r = den a && den b) ->
  (forall a r, op_not a = Ok r -> ok a -> ok r /\ den r = negb (den a)) ->
  forall e env env' r, Forall ok env -> eval_expr env e = Ok (env', r) ->
  ok r /\ Forall ok env' /\ length env' = length env /\
  (forall n, den (nth n env' SEmpty) = den (nth n env SEmpty)) /\
  den r = sem (fun n => den (nth n env SEmpty)) e.
Proof. exact eval_expr_sound. Qed.
Print Assumptions C01_expressions.

Theorem C01_never_hangs : forall e env, eval_expr env e <> NoFuel.
Proof. exact eval_expr_no_fuel. Qed.
Print Assumptions C01_never_hangs.
Theorem C01_pursue_path_terminates : forall js ij is_,
  pursue_path (S (total_segments js)) ij is_ js [] <> NoFuel.
Proof. exact pursue_path_fuel. Qed.
Theorem C01_regrouping_terminates : forall js, shape_from_jordans js <> NoFuel.
Proof. exact shape_from_jordans_fuel. Qed.
Print Assumptions C01_pursue_path_terminates.

(* non-vacuity: two overlapping squares, A ^ B, evaluated by the model *)
Example C01_nonvacuous : exists env' r,
  eval_expr [sqA; sqB] (EXor (EVar 0) (EVar 1)) = Ok (env', r) /\
  contains_point r (1#2, 1#2) true = true /\ contains_point r (3#2, 3#2) true = false.
Proof. exact xor_example. Qed.
