(* C01 -- boolean operators compute the set-theoretic result, point by point; nested
   expressions; the operator always returns.  Statements only; proofs in Lemmas/Logic.v and
   Lemmas/Fuel.v.
   Full statement (C01_full): for all environments of well-formed shapes, all expressions e
   over | & - ^ ~ + * neg, every point p off the operands' boundaries:
      eval_expr env e = Ok (_, R) -> contains_point R p = sem (fun n => contains_point env_n p) e.
   Proved: (1) C01_expressions -- the statement for ALL expressions follows from the one-step
   soundness of | , & and ~ (the derived operators - ^ + * neg and the write-back of re-split
   operands are handled by the proof); (2) C01_never_hangs -- no operator expression can run out
   of fuel: the three unbounded loops of the code (pursue_path, DivideConnecteds, clean) terminate
   on ALL inputs; (3) the Empty/Whole cases and the complement (Props/C06.v, C05.v).
   NOT proved (C01_partial): the one-step soundness of | and & when FollowPath recombines the
   boundaries -- the geometric heart (a Jordan-curve-type argument) -- stays the explicit premise
   of C01_expressions and is checked on every run by the oracle (membership at one point of
   every cell of the edge arrangement of the operands, exact).
   (4) C01_result_on_operand_boundaries / C01_cellwise: for every expression over | & - ^ ~ + *
   neg, the boundary of the result lies on the boundaries of the given shapes, hence the result
   region is CONSTANT ON EVERY CELL of the arrangement of those boundaries (two points joined
   by a polyline that avoids all of them get the same answer) -- provided the joins made by the
   path following are exact (ejoins, decidable per instance: ejoins_b).  This is the theorem
   that makes the oracle's "one sample point per cell" a COMPLETE judgement for polygons.
   (5) C01_union_sound / C01_intersection_sound / C01_difference_sound: ONE-STEP SOUNDNESS of |, & and - for two simple
   counter-clockwise polygons whose boundaries cross (the recombination branch): the winding
   numbers of the result curves add up to the indicator of the union (intersection) at every
   point p whose vertical line avoids the vertices, and -- by (4) -- on the whole cell of p.
   Proof: a one-dimensional argument along the vertical ray (crossings of dA outside B plus
   crossings of dB outside A count the boundary of A u B; Lemmas/RaySum.v), completeness of the
   mutual splitting, piece selection = winding number of the other operand at the midpoint, and
   conservation of pieces by the path following (Lemmas/UnionSound.v).  Hypotheses: the
   operands are simple (winding number 0 or 1 off the boundary: simple01, proved for rectangles),
   general position, and four tolerance / exact-join conditions, each DECIDABLE per instance
   (sound_hyps_b).  What remains of C01_partial: operands with holes / several components in
   this branch, and simple01 for arbitrary simple polygons (the Jordan curve theorem).
   (6) C01_convex_simple / C01_*_sound_convex: simple01 is PROVED for every strictly convex
   counter-clockwise polygon (decidable predicate convex_ccw_b = every ordered vertex triple is a
   counter-clockwise triangle, equivalent to the edge-wise "every other vertex strictly left of
   every edge"; Lemmas/Convex.v: ear induction, the barycentric identity, local constancy of the
   winding number across the diagonal) -- so for convex operands (triangles included) EVERY
   hypothesis of the one-step soundness theorems of |, & and - is a boolean the check evaluates. *)
From Coq Require Import List Bool.
From SV Require Import Spec.Spec Lemmas.Logic Lemmas.Fuel Lemmas.Construct Lemmas.Measure Lemmas.Cells Lemmas.CellsAll Lemmas.Winding Lemmas.RaySum Lemmas.UnionSound Lemmas.DiffSound Lemmas.Convex.
Import ListNotations.
Open Scope Q_scope.

Definition C01_full : Prop :=
  forall (p : point) (ok : shape -> Prop) e env env' r,
    Forall ok env -> eval_expr env e = Ok (env', r) ->
    contains_point r p true = sem (fun n => contains_point (nth n env SEmpty) p true) e.

Theorem C01_expressions : forall (den : shape -> bool) (ok : shape -> Prop),
  (forall a b a' b' r, op_or a b = Ok (a', b', r) -> ok a -> ok b ->
     ok a' /\ ok b' /\ ok r /\ den a' = den a /\ den b' = den b /\ den r = den a || den b) ->
  (forall a b a' b' r, op_and a b = Ok (a', b', r) -> ok a -> ok b ->
     ok a' /\ ok b' /\ ok r /\ den a' = den a /\ den b' = den b /\ den r = den a && den b) ->
  (forall a r, op_not a = Ok r -> ok a -> ok r /\ den r = negb (den a)) ->
  forall e env env' r, Forall ok env -> eval_expr env e = Ok (env', r) ->
  ok r /\ Forall ok env' /\ length env' = length env /\
  (forall n, den (nth n env' SEmpty) = den (nth n env SEmpty)) /\
  den r = sem (fun n => den (nth n env SEmpty)) e.
Proof. exact eval_expr_sound. Qed.
Print Assumptions C01_expressions.

Theorem C01_never_hangs : forall e env, eval_expr env e <> NoFuel.
Proof. exact eval_expr_no_fuel. Qed.
Print Assumptions C01_never_hangs.
Theorem C01_pursue_path_terminates : forall js ij is_,
  pursue_path (S (total_segments js)) ij is_ js [] <> NoFuel.
Proof. exact pursue_path_fuel. Qed.
Theorem C01_regrouping_terminates : forall js, shape_from_jordans js <> NoFuel.
Proof. exact shape_from_jordans_fuel. Qed.
Print Assumptions C01_pursue_path_terminates.

(* non-vacuity: two overlapping squares, A ^ B, evaluated by the model *)
Example C01_nonvacuous : exists env' r,
  eval_expr [sqA; sqB] (EXor (EVar 0) (EVar 1)) = Ok (env', r) /\
  contains_point r (1#2, 1#2) true = true /\ contains_point r (3#2, 3#2) true = false.
Proof. exact xor_example. Qed.

(* the boundary of the value of any expression lies on the boundaries of the shapes given *)
Theorem C01_result_on_operand_boundaries : forall e env env' s,
  eval_expr env e = Ok (env', s) -> ejoins env e ->
  (forall x, In x env -> shape_lines x = true /\ good (jordans x)) ->
  (shape_lines s = true /\ good (jordans s) /\ forall p, on_bdry_shape s p -> on_bdry_env env p) /\
  (forall y, In y env' -> shape_lines y = true /\ good (jordans y) /\
   forall p, on_bdry_shape y p -> on_bdry_env env p).
Proof. exact eval_expr_boundary_sub. Qed.
(* ... hence its region is constant along every straight segment (and every polyline) that
   avoids those boundaries: the result is a union of cells of the arrangement *)
Theorem C01_cellwise : forall e env env' s p q,
  eval_expr env e = Ok (env', s) -> ejoins env e ->
  (forall x, In x env -> shape_lines x = true /\ good (jordans x)) ->
  (forall x, In x env -> clear1 x p q) ->
  region s p = region s q.
Proof. exact eval_expr_cellwise. Qed.
(* one operator, with the premise spelled out on the re-split operands it returns *)
Theorem C01_or_cellwise : forall a b a' b' s p q, op_or a b = Ok (a', b', s) ->
  shape_lines a = true -> shape_lines b = true ->
  good (jordans a) -> good (jordans b) -> exact_joins a' b' ->
  seg_clear a b p q -> region s p = region s q.
Proof. exact op_or_cellwise. Qed.
(* the premise is decidable per instance *)
Theorem C01_exact_joins_decidable : forall e env, ejoins_b env e = true -> ejoins env e.
Proof. exact ejoins_b_sound. Qed.
Print Assumptions C01_result_on_operand_boundaries.
Print Assumptions C01_cellwise.
Print Assumptions C01_exact_joins_decidable.
Example C01_cellwise_nonvacuous :
  exists env' s, eval_expr [exA; exB] ex_e2 = Ok (env', s) /\ ejoins [exA; exB] ex_e2 /\
    region s (1 # 2, 1 # 2) = RIn /\ region s (1 # 2, 1 # 2) = region s (1 # 2, 3 # 2).
Proof. exact ex_cells_nested. Qed.

(* ONE-STEP SOUNDNESS of | and & (two simple counter-clockwise polygons, recombination branch) *)
Theorem C01_union_sound : forall ja jb a' b' p,
  all_lines ja = true -> all_lines jb = true -> closed_chain ja = true -> closed_chain jb = true ->
  jordan_pos ja = true -> jordan_pos jb = true -> simple01 ja -> simple01 jb ->
  Subset.general_position ja jb -> tolerance_free ja jb ->
  mids_tol_exact a' b' -> mids_tol_exact b' a' ->
  line_avoids_vertices a' b' (px p) -> no_common ja jb (px p) ->
  forall s, op_or (SC (CS ja)) (SC (CS jb)) = Ok (a', b', s) ->
  contains_shape (SC (CS ja)) (SC (CS jb)) = Ok false ->
  contains_shape (SC (CS jb)) (SC (CS ja)) = Ok false ->
  faithful_follow (jordans a' ++ jordans b') (midpoints_shapes a' b' true false) ->
  Zsum (map (fun j => wn_lines j p) (jordans s))
  = (if (wn_lines ja p =? 0)%Z && (wn_lines jb p =? 0)%Z then 0 else 1)%Z.
Proof. exact op_or_union_sound. Qed.
Theorem C01_intersection_sound : forall ja jb a' b' p,
  all_lines ja = true -> all_lines jb = true -> closed_chain ja = true -> closed_chain jb = true ->
  jordan_pos ja = true -> jordan_pos jb = true -> simple01 ja -> simple01 jb ->
  Subset.general_position ja jb -> tolerance_free ja jb ->
  mids_tol_exact a' b' -> mids_tol_exact b' a' ->
  line_avoids_vertices a' b' (px p) -> no_common ja jb (px p) ->
  forall s, op_and (SC (CS ja)) (SC (CS jb)) = Ok (a', b', s) ->
  contains_shape (SC (CS ja)) (SC (CS jb)) = Ok false ->
  contains_shape (SC (CS jb)) (SC (CS ja)) = Ok false ->
  faithful_follow (jordans a' ++ jordans b') (midpoints_shapes a' b' false true) ->
  Zsum (map (fun j => wn_lines j p) (jordans s))
  = (if (wn_lines ja p =? 1)%Z && (wn_lines jb p =? 1)%Z then 1 else 0)%Z.
Proof. exact op_and_inter_sound. Qed.
(* ... and of the difference A - B = A & ~B (the recombination runs on dA and the reversed dB) *)
Theorem C01_difference_sound : forall ja jb a' p,
  all_lines ja = true -> all_lines jb = true -> closed_chain ja = true -> closed_chain jb = true ->
  jordan_pos ja = true -> jordan_pos jb = true -> simple01 ja -> simple01 jb ->
  Subset.general_position ja (invert jb) -> tolerance_free ja (invert jb) ->
  let b' := sub_operand_b ja jb in
  mids_tol_exact a' b' -> mids_tol_exact b' a' ->
  line_avoids_vertices a' b' (px p) -> no_common ja jb (px p) ->
  forall s, op_sub (SC (CS ja)) (SC (CS jb)) = Ok (a', s) ->
  contains_shape (SC (CS ja)) (SC (CS (invert jb))) = Ok false ->
  contains_shape (SC (CS (invert jb))) (SC (CS ja)) = Ok false ->
  faithful_follow (jordans a' ++ jordans b') (midpoints_shapes a' b' false true) ->
  Zsum (map (fun j => wn_lines j p) (jordans s))
  = (if (wn_lines ja p =? 1)%Z && (wn_lines jb p =? 0)%Z then 1 else 0)%Z.
Proof. exact op_sub_diff_sound. Qed.
Print Assumptions C01_difference_sound.
(* all hypotheses except simple01 decided by evaluation *)
Theorem C01_union_sound_checked : forall ja jb a' b' new p,
  simple01 ja -> simple01 jb -> sound_hyps_b ja jb true false p = true ->
  recombine (SC (CS ja)) (SC (CS jb)) true false = Ok (a', b', new) ->
  Zsum (map (fun j => wn_lines j p) new)
  = (if (wn_lines ja p =? 0)%Z && (wn_lines jb p =? 0)%Z then 0 else 1)%Z.
Proof. exact recombine_union_checked. Qed.
(* the one-dimensional core: crossings of dA outside B plus crossings of dB outside A count the
   boundary of the union (and inside / inside the boundary of the intersection) *)
Theorem C01_ray_sum_union : forall ja jb p,
  no_vertex_on ja (px p) -> no_vertex_on jb (px p) -> no_common ja jb (px p) ->
  wn01_off ja (px p) -> wn01_off jb (px p) ->
  (Zsum (map (fun s => cr (first_pt s) (last_pt s) p * b2z (wn_lines jb (hit (px p) s) =? 0)) ja)
   + Zsum (map (fun t => cr (first_pt t) (last_pt t) p * b2z (wn_lines ja (hit (px p) t) =? 0)) jb)
   = (if (wn_lines ja p =? 0) && (wn_lines jb p =? 0) then 0 else 1))%Z.
Proof. exact ray_sum_lines_union. Qed.
Print Assumptions C01_union_sound.
Print Assumptions C01_intersection_sound.
Print Assumptions C01_union_sound_checked.
Print Assumptions C01_ray_sum_union.
(* non-vacuity: two overlapping squares meet every hypothesis (simple01 proved, the rest by
   evaluation), and the region of exA | exB is In, In, In, Out at four points of four cells *)
Example C01_union_nonvacuous :
  exists a' b' s, op_or exA exB = Ok (a', b', s) /\
    region s p_A = RIn /\ region s p_AB = RIn /\ region s p_B = RIn /\ region s p_out = ROut.
Proof. exact ex_op_or_region. Qed.

(* ---- convex operands: no undecidable hypothesis left ---- *)
Theorem C01_convex_simple : forall vs, convex_ccw_b vs = true -> simple01 (poly_of vs).
Proof. exact convex_simple01. Qed.
Print Assumptions C01_convex_simple.
(* the predicate is the textbook one, and poly_of is the library's from_vertices *)
Theorem C01_convex_predicate : forall vs, convex_edges_b vs = true <-> convex_ccw_b vs = true.
Proof. exact convex_edges_iff. Qed.
Theorem C01_convex_polygon_is_from_vertices : forall vs, vs <> [] -> from_vertices vs = Ok (poly_of vs).
Proof. exact poly_of_from_vertices. Qed.
Theorem C01_triangle_simple : forall a b c, 0 < orient a b c -> simple01 (triangle a b c).
Proof. exact triangle_simple01. Qed.

Theorem C01_union_sound_convex : forall va vb a' b' new p,
  convex_ccw_b va = true -> convex_ccw_b vb = true ->
  sound_hyps_b (poly_of va) (poly_of vb) true false p = true ->
  recombine (SC (CS (poly_of va))) (SC (CS (poly_of vb))) true false = Ok (a', b', new) ->
  Zsum (map (fun j => wn_lines j p) new)
  = (if (wn_lines (poly_of va) p =? 0)%Z && (wn_lines (poly_of vb) p =? 0)%Z then 0 else 1)%Z.
Proof. exact convex_union_checked. Qed.
Theorem C01_intersection_sound_convex : forall va vb a' b' new p,
  convex_ccw_b va = true -> convex_ccw_b vb = true ->
  sound_hyps_b (poly_of va) (poly_of vb) false true p = true ->
  recombine (SC (CS (poly_of va))) (SC (CS (poly_of vb))) false true = Ok (a', b', new) ->
  Zsum (map (fun j => wn_lines j p) new)
  = (if (wn_lines (poly_of va) p =? 1)%Z && (wn_lines (poly_of vb) p =? 1)%Z then 1 else 0)%Z.
Proof. exact convex_inter_checked. Qed.
Theorem C01_difference_sound_convex : forall va vb a' b' new p,
  convex_ccw_b va = true -> convex_ccw_b vb = true ->
  diff_hyps_b (poly_of va) (poly_of vb) p = true ->
  recombine (SC (CS (poly_of va))) (SC (CS (invert (poly_of vb)))) false true = Ok (a', b', new) ->
  Zsum (map (fun j => wn_lines j p) new)
  = (if (wn_lines (poly_of va) p =? 1)%Z && (wn_lines (poly_of vb) p =? 0)%Z then 1 else 0)%Z.
Proof. exact convex_diff_checked. Qed.
Print Assumptions C01_union_sound_convex.
Print Assumptions C01_intersection_sound_convex.
Print Assumptions C01_difference_sound_convex.
(* non-vacuity: two overlapping triangles meet every (boolean) hypothesis at four points of four cells *)
Example C01_convex_nonvacuous :
  convex_ccw_b ex_ta = true /\ convex_ccw_b ex_tb = true /\
  forall q, In q [t_A; t_AB; t_B; t_out] ->
    sound_hyps_b (poly_of ex_ta) (poly_of ex_tb) true false q = true /\
    sound_hyps_b (poly_of ex_ta) (poly_of ex_tb) false true q = true /\
    diff_hyps_b (poly_of ex_ta) (poly_of ex_tb) q = true.
Proof. split; [vm_compute; reflexivity|]. split; [vm_compute; reflexivity|]. exact ex_tri_hyps. Qed.
