(* C08 -- operators and queries leave operands unchanged; results share no state.
   Statements only; model in Model/Heap.v (MH: identity of control points, in-place mutation,
   curves as lists of point locations, results allocated fresh, operands re-split in place),
   proofs in Lemmas/HeapFacts.v.  reachable st := st is the state after some history of
   constructors (with segments of >= 2 points), copies, complements, operators | & - ^,
   move/scale/rotate, containment queries and float().  denot is the abstraction function to
   the value model.  All statements hold for EVERY reachable state, i.e. every history. *)
From Coq Require Import List.
From SV Require Import Spec.Spec Model.Heap Lemmas.HeapFacts.

(* moving / scaling / rotating any variable leaves every other variable exactly as it was *)
Theorem C08_move_frame : forall st, reachable st -> forall x v st',
  step st (OMove x v) = Ok st' ->
  forall y, y <> x -> denot (fst st') (var st' y) = denot (fst st) (var st y).
Proof. exact reachable_move_frame. Qed.
Theorem C08_scale_frame : forall st, reachable st -> forall x sx sy st',
  step st (OScale x sx sy) = Ok st' ->
  forall y, y <> x -> denot (fst st') (var st' y) = denot (fst st) (var st y).
Proof. exact reachable_scale_frame. Qed.
Theorem C08_rotate_frame : forall st, reachable st -> forall x c s st',
  step st (ORotate x c s) = Ok st' ->
  forall y, y <> x -> denot (fst st') (var st' y) = denot (fst st) (var st y).
Proof. exact reachable_rotate_frame. Qed.
Print Assumptions C08_move_frame.
Print Assumptions C08_rotate_frame.

(* value-producing operations (constructors, copy, ~, operators, queries, float) keep every
   existing variable's identity, and the exact geometry of every variable they do not re-split
   (operators re-split only their own operands; `-` only its first) *)
Theorem C08_value_ops_frame : forall st, reachable st -> forall o st',
  op_ok o -> value_op o -> step st o = Ok st' ->
  forall w, w < length (snd st) -> ~ touched o w ->
  var st' w = var st w /\ denot (fst st') (var st' w) = denot (fst st) (var st w).
Proof. exact reachable_value_frame. Qed.
Print Assumptions C08_value_ops_frame.

(* different variables never share a curve or a point object; the executable well-formedness
   check of the identity structure holds in every reachable state *)
Theorem C08_separated : forall st, reachable st -> vars_separated st.
Proof. exact reachable_separated. Qed.
Theorem C08_heap_wf : forall st, reachable st -> heap_wf (fst st) = true.
Proof. exact reachable_heap_wf. Qed.
Print Assumptions C08_separated.

(* the operands of an operator are only re-split: same objects, more segments, still closed *)
Theorem C08_operands_resplit_only : forall st b x y st', HInv st -> step st (OBin b x y) = Ok st' ->
  HInv st' /\ (forall w, w < length (snd st) -> var st' w = var st w) /\
  (forall c, length (segsof (fst st) c) <= length (segsof (fst st') c)) /\
  (forall w, Construct.good (jordans (denot (fst st') (var st' w)))).
Proof. exact bin_operands. Qed.
Print Assumptions C08_operands_resplit_only.

Example C08_nonvacuous : exists st, reachable st /\ length (snd st) = 3 /\ length (hcurves (fst st)) = 3.
Proof. exact reachable_nonvacuous. Qed.
