(* C07 -- == is region equality and an equivalence relation.  Statements only; proofs in
   Lemmas/Tolerance.v, Lemmas/Fuel.v.  The model contains all four __eq__ (curve: sample
   containment, clean, rotation search; Simple: float areas then curves; Connected: total area
   within 1e-6, then greedy matching of the sub-shapes; Disjoint: greedy matching).
   Proved (polygons): == returns a bool (never raises, never loops) on well-formed input;
   shapes of different kinds compare unequal; a cleaned polygon with edges longer than the
   tolerance is == to itself.  ConnectedShape.__eq__ compared total area only (defect F8,
   repaired: the model follows the repaired code, C07_connected_regression).  NOT proved -- and
   false of the code: with bit-identical float areas and the 1e-9 point tolerance == is not
   transitive and depends on the float encoding (known finding F9).  Representation independence (start vertex, inserted
   collinear vertices, component order), symmetry and "== iff same region" are checked by the
   oracle on pools of variants (partial). *)
From Coq Require Import List.
From SV Require Import Spec.Spec Lemmas.Tolerance Lemmas.Fuel Lemmas.Safe Lemmas.EqSound Lemmas.EqSoundShape.
Open Scope Q_scope.
Open Scope Q_scope.

Theorem C07_kinds : forall a b, shape_eq a b = Ok true -> same_kind a b.
Proof. exact shape_eq_same_kind. Qed.
Print Assumptions C07_kinds.

(* comparing always returns a bool: on every well-formed polygonal shape of every kind *)
Theorem C07_total : forall a b, shape_ok a -> shape_ok b -> exists r, shape_eq a b = Ok r.
Proof. exact shape_eq_total. Qed.
Theorem C07_total_curves : forall a b, all_lines a = true -> all_lines b = true ->
  closed_chain a = true -> closed_chain b = true -> wf_cyc a -> wf_cyc b -> a <> [] \/ b <> [] ->
  exists r, jordan_eq a b = Ok r.
Proof. exact jordan_eq_total. Qed.
Theorem C07_never_loops : forall a b, shape_eq a b <> NoFuel.
Proof. exact shape_eq_fuel. Qed.
Print Assumptions C07_total.
Print Assumptions C07_never_loops.

(* reflexive on cleaned polygons whose edges are longer than the tolerance *)
Theorem C07_reflexive : forall j, all_lines j = true -> j <> [] ->
  (forall s, In s j -> tol6 < norm2 (psub (last_pt s) (first_pt s))) ->
  clean j = Ok j -> jordan_eq j j = Ok true.
Proof. exact jordan_eq_refl. Qed.
Print Assumptions C07_reflexive.

(* the tolerance comparisons underneath == are symmetric *)
Theorem C07_point_eq_symmetric : forall p q, pt_eq p q = pt_eq q p.
Proof. exact pt_eq_sym. Qed.
Theorem C07_segment_eq_symmetric : forall a b, seg_eq a b = seg_eq b a.
Proof. exact seg_eq_sym. Qed.
(* independent of the start vertex: a cleaned polygon with pairwise different edges is == to
   every rotation of its vertex list, in both directions *)
Theorem C07_start_vertex : forall j k, all_lines j = true -> j <> [] ->
  (forall s, In s j -> tol6 < norm2 (psub (last_pt s) (first_pt s))) ->
  clean j = Ok j -> seg_distinct j ->
  jordan_eq j (rotl k j) = Ok true /\ jordan_eq (rotl k j) j = Ok true.
Proof. exact jordan_eq_rotl. Qed.
Print Assumptions C07_start_vertex.

(* regression for the repaired defect F8: two hollow squares at different places are not == *)
(* SOUNDNESS: on polygonal curves `a == b` implies the same winding number about every point,
   the same area, the same boundary point set and the same region -- provided control points of
   the two curves that are equal within the 1e-9 of Point2D.__eq__ are equal (exact_pts: e.g.
   data on a lattice coarser than 1e-9). *)
Theorem C07_sound_winding : forall a b, all_lines a = true -> all_lines b = true ->
  jordan_eq a b = Ok true -> exact_pts a b -> forall p, wn_lines a p = wn_lines b p.
Proof. exact jordan_eq_sound. Qed.
Theorem C07_sound_area : forall a b, all_lines a = true -> all_lines b = true ->
  jordan_eq a b = Ok true -> exact_pts a b -> jordan_area a == jordan_area b.
Proof. exact jordan_eq_sound_area. Qed.
Theorem C07_sound_region : forall a b, all_lines a = true -> all_lines b = true ->
  closed_chain a = true -> closed_chain b = true ->
  jordan_eq a b = Ok true -> exact_pts a b -> forall p, region_simple a p = region_simple b p.
Proof. exact jordan_eq_sound_region. Qed.
(* ... and for shapes of EVERY kind (Simple, Connected with holes in any order, Disjoint with
   components in any order, Empty, Whole): S == T implies region S = region T at every point *)
Theorem C07_sound_shapes : forall a b,
  shape_eq a b = Ok true ->
  (forall j, In j (jordans a) -> all_lines j = true /\ closed_chain j = true) ->
  (forall j, In j (jordans b) -> all_lines j = true /\ closed_chain j = true) ->
  (forall ja jb, In ja (jordans a) -> In jb (jordans b) -> exact_pts ja jb) ->
  forall p, region a p = region b p.
Proof. exact shape_eq_sound. Qed.
Print Assumptions C07_sound_shapes.
(* SYMMETRY under exactness needs two more hypotheses: edges of b longer than 1e-6 and no two
   equal segments in the cleaned b ... *)
Theorem C07_symmetric_exact : forall a b, all_lines a = true -> all_lines b = true ->
  jordan_eq a b = Ok true -> exact_pts a b ->
  (forall s, In s b -> tol6 < norm2 (psub (last_pt s) (first_pt s))) ->
  (forall oc, clean b = Ok oc -> Safe.seg_distinct oc) ->
  jordan_eq b a = Ok true.
Proof. exact jordan_eq_sym_exact. Qed.
(* ... and the second one cannot be dropped: a closed walk that uses one edge twice (not a Jordan
   curve) is == to its rotation in one direction only (index_where takes the FIRST match) *)
Example C07_symmetry_refuted_on_repeated_edges :
  all_lines walk2 = true /\ closed_chain walk2 = true /\ clean walk2 = Ok walk2 /\
  jordan_eq walk2 (rotl 1 walk2) = Ok true /\ jordan_eq (rotl 1 walk2) walk2 = Ok false.
Proof. exact eq_not_symmetric. Qed.
Print Assumptions C07_sound_winding.
Print Assumptions C07_sound_region.
Print Assumptions C07_symmetric_exact.
Example C07_sound_nonvacuous : jordan_eq sqA sqB = Ok true /\ exact_pts sqA sqB.
Proof. destruct sq_hyps as (_ & _ & _ & _ & H1 & H2 & _). split; assumption. Qed.

Example C07_connected_regression :
  let hollow x := SC (CC [[[(x,0);(x+4,0)];[(x+4,0);(x+4,4)];[(x+4,4);(x,4)];[(x,4);(x,0)]];
                          [[(x+1,1);(x+1,3)];[(x+1,3);(x+3,3)];[(x+3,3);(x+3,1)];[(x+3,1);(x+1,1)]]]) in
  shape_eq (hollow 0) (hollow 10) = Ok false /\ shape_eq (hollow 10) (hollow 10) = Ok true
  /\ region (hollow 0) (1#2,1#2) = RIn /\ region (hollow 10) (1#2,1#2) = ROut.
Proof. vm_compute. repeat split; reflexivity. Qed.
Example C07_nonvacuous : jordan_eq Winding.sq Winding.sq = Ok true.
Proof. exact sq_eq_refl. Qed.
