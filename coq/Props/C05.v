(* C05 -- operator results are measure-consistent (inclusion-exclusion).  Statements only;
   proofs in Lemmas/Measure.v.  Range: polygonal shapes of all kinds, rational data, every moment
   x^p y^q with p+q <= 14 (the property names order <= 2).
   Proved: m(~A) = -m(A); splitting changes no moment; every boundary piece is selected by
   exactly one of | and & when its midpoint is off the other boundary; path following conserves
   the selected pieces when consecutive pieces join exactly; and from these
       m(A|B) + m(A&B) = m(A) + m(B)
   under the COMPUTABLE premise general_branch_faithful_b a b = true (midpoints off the other
   boundary, the followed paths use every selected piece exactly once and join exactly), which
   the check evaluates on every generated case through the extracted model, so each tested case
   is either covered by the theorem or reported.  That the premise holds for all operands in
   general position is the geometric half and is not proved (C05_partial). *)
From Coq Require Import List.
From SV Require Import Spec.Spec Lemmas.Measure Lemmas.QuadCurved Lemmas.SplitCurved.
Open Scope Q_scope.

Theorem C05_complement : forall s s' a b, shape_lines s = true -> (a + b <= 14)%nat ->
  op_not s = Ok s' -> moment s' a b == - moment s a b.
Proof. exact moment_not. Qed.
Print Assumptions C05_complement.
Theorem C05_whole_counts_zero : forall a b, moment SWhole a b == 0 /\ moment SEmpty a b == 0.
Proof. intros; split; [apply moment_whole | apply moment_empty]. Qed.

Theorem C05_split_keeps_moments : forall j idx nodes j' ex ey, all_lines j = true ->
  (ex + ey + 4 <= 19)%nat -> Jordan.split j idx nodes = Ok j' ->
  jordan_vertical j' ex ey == jordan_vertical j ex ey.
Proof. exact split_moment. Qed.
Print Assumptions C05_split_keeps_moments.
(* ... and curved ones (degree <= 6; cubic boundaries: every integral with ex + ey <= 3, i.e. the
   moments of order <= 2) -- with the unrepaired node count this failed on cubics (F29,
   Props/C15.v C15_old_rule_refuted), which is what broke the identities for curved operands *)
Theorem C05_split_keeps_moments_curved : forall j idx nodes j' ex ey,
  (forall s, In s j -> (1 <= degree s <= 6)%nat /\ (vertical_nodes (degree s) ex ey <= 19)%nat) ->
  Jordan.split j idx nodes = Ok j' -> jordan_vertical j' ex ey == jordan_vertical j ex ey.
Proof. exact split_moment_curved. Qed.
Theorem C05_split_keeps_moments_cubic : forall j idx nodes j' ex ey,
  (forall s, In s j -> (1 <= degree s <= 3)%nat) -> (ex + ey <= 3)%nat ->
  Jordan.split j idx nodes = Ok j' -> jordan_vertical j' ex ey == jordan_vertical j ex ey.
Proof. exact split_moment_cubic. Qed.
Print Assumptions C05_split_keeps_moments_curved.

Theorem C05_operands_keep_moments : forall a b closed inside a' b' new,
  shape_lines a = true -> shape_lines b = true -> recombine a b closed inside = Ok (a', b', new) ->
  shape_lines a' = true /\ shape_lines b' = true /\
  follow_path (jordans a' ++ jordans b') (midpoints_shapes a' b' closed inside) = Ok new /\
  (forall p q, (p + q <= 14)%nat -> moment a' p q == moment a p q /\ moment b' p q == moment b p q).
Proof. exact recombine_operands. Qed.

Theorem C05_selection_partition : forall a b i k, valid_piece (jordans a) i k ->
  contains_point b (piece_mid (jordans a) i k) true = contains_point b (piece_mid (jordans a) i k) false ->
  In (i, k) (midpoints_one_shape a b true false) /\ ~ In (i, k) (midpoints_one_shape a b false true) \/
  ~ In (i, k) (midpoints_one_shape a b true false) /\ In (i, k) (midpoints_one_shape a b false true).
Proof. exact selection_partition. Qed.
Print Assumptions C05_selection_partition.

Theorem C05_inclusion_exclusion_partial : forall a b a1 b1 u a2 b2 i p q,
  shape_lines a = true -> shape_lines b = true -> (p + q <= 14)%nat ->
  op_or a b = Ok (a1, b1, u) -> op_and a b = Ok (a2, b2, i) ->
  general_branch_faithful_b a b = true ->
  moment u p q + moment i p q == moment a p q + moment b p q.
Proof. exact or_and_moments_checked. Qed.
Print Assumptions C05_inclusion_exclusion_partial.

Example C05_nonvacuous : forall p q, (p + q <= 14)%nat -> exists a1 b1 u a2 b2 i,
  op_or exA exB = Ok (a1, b1, u) /\ op_and exA exB = Ok (a2, b2, i) /\
  moment u p q + moment i p q == moment exA p q + moment exB p q.
Proof. exact ex_or_and_moments. Qed.
