(* C15 -- splitting and cleaning a curve never change the curve.  Statements only; proofs in
   Lemmas/SplitClean.v.  Range: closed curves made of STRAIGHT segments, all rational data, all
   lists of (segment index, parameter) pairs, repeated and nearly equal ones included (split is
   total on valid requests: C15_split_total; F15/F15c repaired).
   CURVED segments of degree <= 6 (Lemmas/SplitCurved.v): the two pieces of a cut retrace their
   part of the segment, positions and velocities (C15_curved_retrace), cleaning a piece (exact
   degree reduction) retraces it too (C15_curved_clean_retrace), and hence ANY split of a closed
   curve keeps its area and every boundary integral x^a y^b dy the library computes exactly
   (C15_curved_split_area, C15_curved_split_integrals) -- no hypothesis on the rounding (Qred) or the
   degree reduction that the split applies to the pieces.  With the node count of the unrepaired
   code the computed first moment of a cubic changed when the curve was cut (or merely cleaned):
   C15_old_rule_refuted (F29).  The winding number / point set of curved pieces and the
   least-squares degree reduction of pynurbs on inexact data stay with the oracle. *)
From Coq Require Import List Sorted.
From SV Require Import Spec.Spec Lemmas.Lines Lemmas.SplitClean Lemmas.SplitTotal Lemmas.QuadCurved Lemmas.SplitCurved.
Open Scope Q_scope.

(* each piece retraces its part of the original segment:
   piece_i(x) = segment(t_i + x (t_{i+1} - t_i)) with t_0 = 0, t_last = 1 *)
Theorem C15_retrace : forall a b ts, (forall t, In t ts -> ~ t == 1) ->
  Forall2 (fun s uv => forall x, peq (eval s x) (eval [a; b] (fst uv + x * (snd uv - fst uv))))
          (split_many ts [a; b]) (pairs_of (0 :: ts ++ [1])).
Proof. exact split_many_retrace. Qed.
Print Assumptions C15_retrace.

(* consecutive pieces share one junction that lies on the segment at the split parameter *)
Theorem C15_junctions : forall a b ts, StronglySorted Qlt ts -> (forall t, In t ts -> 0 < t /\ t < 1) ->
  Forall2 (fun s e => length s = 2%nat /\ peq (first_pt s) (fst e) /\ peq (last_pt s) (snd e))
          (split_many ts [a; b]) (pairs_of (map (pt_at a b) (0 :: ts ++ [1]))).
Proof. exact split_many_line. Qed.
Print Assumptions C15_junctions.

(* no zero-length piece *)
Theorem C15_no_zero_piece : forall a b ts, StronglySorted Qlt ts -> (forall t, In t ts -> 0 < t /\ t < 1) ->
  ~ peq a b -> forall s, In s (split_many ts [a; b]) -> ~ peq (first_pt s) (last_pt s).
Proof. exact split_many_nondegenerate. Qed.
Print Assumptions C15_no_zero_piece.

(* the parameters actually used are requested ones, none within 1e-6 of 0 or 1 (and none within
   1e-6 of another used one: C15_used_nodes_apart) *)
Theorem C15_ignored_nodes : forall idx nodes i t,
  In t (split_nodes idx nodes i) -> In (i, t) (combine idx nodes) /\ near01 t = false.
Proof. exact split_nodes_In. Qed.
Theorem C15_used_nodes_apart : forall idx nodes i,
  StronglySorted (fun a b => tol6 <= b - a) (split_nodes idx nodes i).
Proof. exact split_nodes_apart. Qed.
(* totality: every request with indexes in range and parameters in [0,1] is served -- repeated,
   nearly equal and near-0/1 parameters included *)
Theorem C15_split_total : forall j idx nodes,
  forallb (fun i => (i <? length j)%nat) idx = true ->
  forallb (fun u => negb (out01 u)) nodes = true ->
  length idx = length nodes ->
  exists j', Jordan.split j idx nodes = Ok j'.
Proof. exact split_total. Qed.
Print Assumptions C15_used_nodes_apart.
Print Assumptions C15_split_total.

(* curve level: enclosed area, winding number about every point (hence orientation and point
   set of the region), straightness and closedness are unchanged by ANY split that returns *)
Theorem C15_split_area : forall j idx nodes j', all_lines j = true ->
  Jordan.split j idx nodes = Ok j' -> jordan_area j' == jordan_area j.
Proof. exact split_area. Qed.
Theorem C15_split_wn : forall j idx nodes j', all_lines j = true ->
  Jordan.split j idx nodes = Ok j' -> forall p, wn_lines j' p = wn_lines j p.
Proof. exact split_wn. Qed.
Theorem C15_split_closed : forall j idx nodes j', all_lines j = true ->
  Jordan.split j idx nodes = Ok j' -> closed_chain j = true -> closed_chain j' = true /\ all_lines j' = true.
Proof. intros; split; [eapply split_closed | eapply split_all_lines]; eauto. Qed.
Print Assumptions C15_split_area.
Print Assumptions C15_split_wn.
Print Assumptions C15_split_closed.

(* clean: idempotent, leaves no removable vertex, keeps area / winding number / closedness *)
Theorem C15_clean_idempotent : forall j j', all_lines j = true -> clean j = Ok j' -> clean j' = Ok j'.
Proof. exact clean_idempotent. Qed.
Theorem C15_clean_complete : forall j j', all_lines j = true -> clean j = Ok j' ->
  forall k, (k < length j')%nat -> unite (nth k j' []) (nth ((k + 1) mod length j') j' []) = UNo.
Proof. exact clean_no_redundant. Qed.
Theorem C15_clean_area : forall j j', all_lines j = true -> clean j = Ok j' -> jordan_area j' == jordan_area j.
Proof. exact clean_area. Qed.
Theorem C15_clean_wn : forall j j', all_lines j = true -> clean j = Ok j' ->
  forall p, wn_lines j' p = wn_lines j p.
Proof. exact clean_wn. Qed.
Print Assumptions C15_clean_idempotent.
Print Assumptions C15_clean_complete.
Print Assumptions C15_clean_wn.

(* split followed by clean gives back the original segmentation: concrete instances *)
Example C15_nonvacuous :
  let sq := [[(0,0);(2,0)];[(2,0);(2,2)];[(2,2);(0,2)];[(0,2);(0,0)]] in
  (do j' <- Jordan.split sq [0%nat; 2%nat; 2%nat] [1#2; 1#3; 3#4]; clean j') = Ok sq.
Proof. vm_compute. reflexivity. Qed.
(* F15 / F15c repaired: repeated and nearly equal parameters of one segment are merged *)
Example C15_equal_nodes_merged :
  let sq := [[(0,0);(2,0)];[(2,0);(2,2)];[(2,2);(0,2)];[(0,2);(0,0)]] in
  Jordan.split sq [0%nat; 0%nat; 0%nat] [1#2; 1#2; 50000000000000001#100000000000000000] =
  Jordan.split sq [0%nat] [1#2].
Proof. vm_compute. reflexivity. Qed.

(* ---- curved segments (degree <= 6) ---- *)
Theorem C15_curved_retrace : forall s u, (2 <= length s <= 7)%nat ->
  retraces (fst (split_at u s)) s 0 u /\ retraces (snd (split_at u s)) s u 1.
Proof. exact split_at_retraces. Qed.
Theorem C15_curved_clean_retrace : forall s, (2 <= length s <= 7)%nat ->
  retraces (seg_clean s) s 0 1 /\ (2 <= length (seg_clean s) <= length s)%nat.
Proof. exact seg_clean_retraces. Qed.
Theorem C15_curved_split_area : forall j idx nodes j',
  (forall s, In s j -> (1 <= degree s <= 6)%nat) ->
  Jordan.split j idx nodes = Ok j' -> jordan_area j' == jordan_area j.
Proof. exact split_area_curved. Qed.
Theorem C15_curved_split_integrals : forall j idx nodes j' ex ey,
  (forall s, In s j -> (1 <= degree s <= 6)%nat /\ (vertical_nodes (degree s) ex ey <= 19)%nat) ->
  Jordan.split j idx nodes = Ok j' -> jordan_vertical j' ex ey == jordan_vertical j ex ey.
Proof. exact split_moment_curved. Qed.
Print Assumptions C15_curved_retrace.
Print Assumptions C15_curved_clean_retrace.
Print Assumptions C15_curved_split_area.
Print Assumptions C15_curved_split_integrals.
(* non-vacuity: the cap under y = 1 - x^2 cut at 1/3 of its arc: three segments, area 4/3 as before *)
Example C15_curved_nonvacuous :
  Jordan.split cap [1%nat] [1 # 3] = Ok cap_cut /\ length cap_cut = 3%nat /\
  jordan_area cap_cut = 4 # 3 /\ jordan_area cap = 4 # 3.
Proof.
  split; [exact cap_split_value|].
  destruct cap_split_numbers as (H1 & H2 & H3 & _). repeat split; assumption.
Qed.
(* the unrepaired node count (F29): cutting a cubic at 1/2 changed its computed first moment *)
Example C15_old_rule_refuted :
  exists j', Jordan.split cubic_loop [0%nat] [1 # 2] = Ok j' /\
    ~ jordan_vertical_old j' 2 0 == jordan_vertical_old cubic_loop 2 0 /\
    jordan_vertical j' 2 0 = jordan_vertical cubic_loop 2 0.
Proof.
  destruct old_rule_split_changes_cubic_moment as (j' & E & _ & _ & N & A & B & _).
  exists j'. split; [exact E|]. split; [exact N|]. rewrite A, B. reflexivity.
Qed.
