(* C16 -- primitive factories build the documented positive shapes or raise ValueError.
   Statements only; model in Model/Prim.v, proofs in Lemmas/Prim.v.  Arguments are modelled by
   the abstract type pyarg (number, numeric string, other string, None, bool, list); the circle
   is parameterised by the rational h = tan(angle/2) with the EXACT rotation
   (c,s) = ((1-h^2)/(1+h^2), 2h/(1+h^2)); float cos/sin/tan of the code are idealised, and the
   convergence of the circle area to pi r^2 is a statement about reals that is not formalised
   (oracle: area within the band).  ndivangle >= 4 corresponds to 0 < h <= 1. *)
From Coq Require Import List.
From SV Require Import Spec.Spec Model.Prim Lemmas.Prim.
Open Scope Q_scope.

Theorem C16_square : forall side center, 0 < side ->
  let j := square_jordan side center in
  prim_square (PNum side) center = Ok (SC (CS j)) /\
  vertices j = square_vertices side center /\ length j = 4%nat /\
  all_lines j = true /\ closed_chain j = true /\
  jordan_area j == side * side /\ jordan_pos j = true /\
  region_simple j center = RIn /\
  (forall p, px center + side < px p -> region_simple j p = ROut).
Proof. exact square_spec. Qed.
Print Assumptions C16_square.
Theorem C16_triangle : forall side center, 0 < side ->
  let j := triangle_jordan side center in
  prim_triangle (PNum side) center = Ok (SC (CS j)) /\
  vertices j = triangle_vertices side center /\ length j = 3%nat /\
  all_lines j = true /\ closed_chain j = true /\
  jordan_area j == side * side / 2 /\ jordan_pos j = true /\
  region_simple j (padd center (side / 4, side / 4)) = RIn /\
  (forall p, px center + side < px p -> region_simple j p = ROut).
Proof. exact triangle_spec. Qed.
Theorem C16_regular4 : forall r center, 0 < r ->
  let j := regular4_jordan r center in
  prim_regular4 (PNum r) center = Ok (SC (CS j)) /\
  vertices j = regular4_vertices r center /\ length j = 4%nat /\
  all_lines j = true /\ closed_chain j = true /\
  jordan_area j == 2 * r * r /\ jordan_pos j = true /\
  region_simple j center = RIn /\ (forall p, px center + r < px p -> region_simple j p = ROut).
Proof. exact regular4_spec. Qed.
Print Assumptions C16_regular4.

(* polygon keeps exactly the given vertices in the given order; a counter-clockwise list
   denotes the interior and a clockwise list the exterior *)
Theorem C16_polygon : forall vs, vs <> [] -> exists j,
  prim_polygon vs = Ok (SC (CS j)) /\ vertices j = vs /\ length j = length vs /\
  all_lines j = true /\ closed_chain j = true /\ jordan_pos j = Qlt_bool 0 (shoelace2 j).
Proof. exact prim_polygon_spec. Qed.
Theorem C16_polygon_orientation : forall vs p, vs <> [] -> left_of (poly_jordan vs) p ->
  region_simple (poly_jordan vs) p = (if jordan_pos (poly_jordan vs) then ROut else RIn).
Proof. exact prim_polygon_far. Qed.
Print Assumptions C16_polygon_orientation.

(* validation: a shape iff the size is a positive number (or True), otherwise ValueError only *)
Theorem C16_square_validation : forall a center,
  (forall q, valid_size a = Some q -> prim_square a center = Ok (SC (CS (square_jordan q center)))) /\
  (valid_size a = None -> prim_square a center = Err EValue) /\
  ((exists sh, prim_square a center = Ok sh) <-> valid_size a <> None) /\
  (forall k, prim_square a center = Err k -> k = EValue) /\ prim_square a center <> NoFuel.
Proof. exact prim_square_validation. Qed.
Theorem C16_triangle_validation : forall a center,
  (forall q, valid_size a = Some q -> prim_triangle a center = Ok (SC (CS (triangle_jordan q center)))) /\
  (valid_size a = None -> prim_triangle a center = Err EValue) /\
  ((exists sh, prim_triangle a center = Ok sh) <-> valid_size a <> None) /\
  (forall k, prim_triangle a center = Err k -> k = EValue) /\ prim_triangle a center <> NoFuel.
Proof. exact prim_triangle_validation. Qed.
Theorem C16_circle_validation : forall n r h center,
  (bad_args 4 n r -> prim_circle n r h center = Err EValue) /\
  ((4 <= n)%nat -> 0 < r -> prim_circle n r h center =
     Ok (SC (CS (map (map (move_pt center)) (set_segments (circle_segs n r h)))))) /\
  (prim_circle n r h center = Err EValue <-> bad_args 4 n r) /\
  (forall k, prim_circle n r h center = Err k -> k = EValue) /\ prim_circle n r h center <> NoFuel.
Proof. exact prim_circle_validation. Qed.
Print Assumptions C16_circle_validation.

(* the circle lies within the quadratic-approximation band around radius r *)
Theorem C16_circle_band : forall n r h center k t, (k < n)%nat -> (S k < n)%nat \/ closes n r h ->
  0 <= t -> t <= 1 ->
  let d2 := norm2 (psub (eval (nth k (circle_jordan n r h center) []) t) center) in
  r * r <= d2 <= r * r * band_hi h.
Proof. exact prim_circle_band. Qed.
Theorem C16_band_width : forall h, 0 <= h -> h <= 1 -> band_hi h <= 9 # 8.
Proof. exact band_hi_le. Qed.
Print Assumptions C16_circle_band.
Theorem C16_circle4 : forall r center, 0 < r ->
  let j := circle_jordan 4 r 1 center in
  prim_circle 4 r 1 center = Ok (SC (CS j)) /\ length j = 4%nat /\
  jordan_area j == (10 # 3) * (r * r) /\ jordan_pos j = true.
Proof. exact prim_circle4. Qed.
(* regular polygons are counter-clockwise for every rotation angle in (0, pi) *)
Theorem C16_regular_ccw : forall n r c s center, c * c + s * s == 1 -> 0 < s -> 0 < r -> (3 <= n)%nat ->
  0 < shoelace2 (regular_jordan n r c s center) /\ jordan_pos (regular_jordan n r c s center) = true.
Proof. exact regular_ccw. Qed.
Print Assumptions C16_regular_ccw.

Example C16_nonvacuous :
  valid_size (PNumStr 3) = None /\ valid_size PNone = None /\ valid_size (PNum (-1)) = None /\
  valid_size (PBool true) = Some 1.
Proof. vm_compute. repeat split; reflexivity. Qed.
