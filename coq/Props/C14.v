(* C14 -- curve intersection reports exactly the crossings, with the documented encoding.
   Statements only; proofs in Lemmas/Lines.v.  Range: closed curves made of straight
   segments, all rational coordinates.  Curved crossings (Newton) and the parity of the
   number of transversal crossings (a Jordan-curve fact) are covered by the oracle only. *)
From SV Require Import Model.Jordan Lemmas.Lines Lemmas.Safe.
Open Scope Q_scope.

(* 0 <= a < len(A.segments), 0 <= b < len(B.segments) *)
Theorem C14_range : forall ja jb eb ep rows, intersection ja jb eb ep = Ok rows ->
  forall a b o, In (a, b, o) rows -> (a < length ja)%nat /\ (b < length jb)%nat.
Proof. exact intersection_range. Qed.
Print Assumptions C14_range.

(* 0 <= u,v <= 1 and A.segments[a](u) == B.segments[b](v), exactly *)
Theorem C14_sound : forall ja jb eb ep rows, intersection ja jb eb ep = Ok rows ->
  forall a b u v, In (a, b, Some (u, v)) rows ->
  0 <= u <= 1 /\ 0 <= v <= 1 /\ peq (eval (nth a ja []) u) (eval (nth b jb []) v).
Proof. exact intersection_params. Qed.
Print Assumptions C14_sound.

(* every common point of two non-parallel, not (tolerance-)equal straight segments appears *)
Theorem C14_complete : forall ja jb rows a b a0 a1 b0 b1,
  intersection ja jb true true = Ok rows ->
  (a < length ja)%nat -> (b < length jb)%nat ->
  nth a ja [] = [a0; a1] -> nth b jb [] = [b0; b1] ->
  seg_eq [a0; a1] [b0; b1] = false ->
  ~ cross (psub a1 a0) (psub b1 b0) == 0 ->
  forall u v, 0 <= u <= 1 -> 0 <= v <= 1 ->
  (peq (pt_at a0 a1 u) (pt_at b0 b1 v) <->
   exists u' v', In (a, b, Some (u', v')) rows /\ u' == u /\ v' == v).
Proof. exact intersection_exact. Qed.
Print Assumptions C14_complete.

(* (None, None) marks (tolerance-)identical segments only *)
Theorem C14_none_is_equal : forall ja jb eb ep rows, intersection ja jb eb ep = Ok rows ->
  forall a b, In (a, b, None) rows -> seg_eq (nth a ja []) (nth b jb []) = true.
Proof. exact intersection_row_equal. Qed.
Print Assumptions C14_none_is_equal.

(* swapping the operands swaps the roles of (a,u) and (b,v), segment by segment *)
Theorem C14_swap : forall sa sb,
  lines sb sa = option_map (fun uv => (snd uv, fst uv)) (lines sa sb).
Proof. exact lines_swap_gen. Qed.
Print Assumptions C14_swap.

(* ... and for the whole matrix: B.intersection(A) is A.intersection(B) with (a,u) and (b,v) swapped *)
Theorem C14_swap_matrix : forall ja jb eb ep rows rows',
  intersection jb ja eb ep = Ok rows' -> intersection ja jb eb ep = Ok rows ->
  forall a b u v, In (a, b, Some (u, v)) rows <-> In (b, a, Some (v, u)) rows'.
Proof. exact intersection_swap_some. Qed.
Theorem C14_swap_equal_rows : forall ja jb eb ep rows rows',
  intersection jb ja eb ep = Ok rows' -> intersection ja jb eb ep = Ok rows ->
  forall a b, In (a, b, None) rows <-> In (b, a, None) rows'.
Proof. exact intersection_swap_none. Qed.
Theorem C14_swap_outcome : forall ja jb eb ep,
  (exists rows, intersection ja jb eb ep = Ok rows) <-> (exists rows', intersection jb ja eb ep = Ok rows').
Proof. exact intersection_outcome_swap. Qed.
Print Assumptions C14_swap_matrix.

(* the flags filter exactly the documented entries *)
Theorem C14_flags : forall ja jb eb ep rows rows',
  intersection ja jb eb ep = Ok rows -> intersection ja jb true true = Ok rows' ->
  forall x, In x rows <-> In x rows' /\ keep eb ep x = true.
Proof. exact intersection_flags. Qed.
Theorem C14_no_equal_rows : forall ja jb ep rows, intersection ja jb false ep = Ok rows ->
  forall a b o, In (a, b, o) rows -> o <> None.
Proof. exact intersection_no_equal. Qed.
Theorem C14_no_end_points : forall ja jb eb rows, intersection ja jb eb false = Ok rows ->
  forall a b u v, In (a, b, Some (u, v)) rows -> inside01 u || inside01 v = true.
Proof. exact intersection_no_end_points. Qed.
Print Assumptions C14_flags.

(* never raises on polygons *)
Theorem C14_total : forall ja jb eb ep,
  (forall s, In s ja -> length s = 2%nat) -> (forall s, In s jb -> length s = 2%nat) ->
  exists rows, intersection ja jb eb ep = Ok rows.
Proof. exact intersection_total. Qed.
Print Assumptions C14_total.

Example C14_nonvacuous :
  let ja := [[(0,0);(2,0)];[(2,0);(2,2)];[(2,2);(0,2)];[(0,2);(0,0)]] in
  let jb := [[(1,1);(3,1)];[(3,1);(3,3)];[(3,3);(1,3)];[(1,3);(1,1)]] in
  intersection ja jb true true = Ok [(1%nat, 0%nat, Some (1#2, 1#2)); (2%nat, 3%nat, Some (1#2, 1#2))].
Proof. vm_compute. reflexivity. Qed.
