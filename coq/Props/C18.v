(* C18 -- segment calculus is exact.  Statements only; proofs in Lemmas/BezierFacts.v.
   Range: Bezier segments with 2..7 control points (degree 1..6), ALL rational control
   points, ALL rational parameters.  peq is coordinate-wise == on Q. *)
From SV Require Import Model.Curve Lemmas.BezierFacts Lemmas.Safe.
Open Scope Q_scope.

(* segment(t) is the Bernstein sum of the docs *)
Theorem C18_eval : forall s t, (2 <= length s <= 7)%nat -> peq (eval s t) (bernstein s t).
Proof. exact eval_bernstein_le6. Qed.
Print Assumptions C18_eval.

(* Math.comb (product, then floor divisions) is the binomial coefficient, every n *)
Theorem C18_comb : forall n i, (i <= n)%nat -> comb n i = binom n i.
Proof. exact comb_binom. Qed.
Print Assumptions C18_comb.

(* end points *)
Theorem C18_eval_0 : forall s, (2 <= length s <= 7)%nat -> peq (eval s 0) (first_pt s).
Proof. exact eval_0_le6. Qed.
Theorem C18_eval_1 : forall s, (2 <= length s <= 7)%nat -> peq (eval s 1) (last_pt s).
Proof. exact eval_1_le6. Qed.
Print Assumptions C18_eval_1.

(* derivate is the formal derivative of the same polynomial (dcoef: coefficients high first) *)
Theorem C18_derivate : forall s t, (2 <= length s <= 7)%nat ->
  peq (eval (derivate s) t) (horner t (dcoef (canon s))).
Proof. exact eval_derivate_le6. Qed.
Print Assumptions C18_derivate.

(* split pieces retrace: piece(x) = segment(t_j + x (t_{j+1} - t_j)) *)
Theorem C18_split_left : forall s u x, (2 <= length s <= 7)%nat ->
  peq (eval (fst (split_at u s)) x) (eval s (u * x)).
Proof. exact split_left_le6. Qed.
Theorem C18_split_right : forall s u x, (2 <= length s <= 7)%nat ->
  peq (eval (snd (split_at u s)) x) (eval s (u + (1 - u) * x)).
Proof. exact split_right_le6. Qed.
Print Assumptions C18_split_right.

(* box() contains segment(t) for t in [0,1] (no tolerance margin needed) *)
Theorem C18_box : forall s t, (2 <= length s <= 7)%nat -> 0 <= t -> t <= 1 ->
  in_box (seg_box s) (eval s t).
Proof. exact box_hull_le6. Qed.
Print Assumptions C18_box.
(* ... and for every degree, for the de Casteljau evaluation *)
Theorem C18_box_any_degree : forall t s, 0 <= t -> t <= 1 -> s <> [] -> in_box (seg_box s) (dc_eval t s).
Proof. exact dc_eval_in_box. Qed.
Print Assumptions C18_box_any_degree.

(* a point that is `in` the segment is within the tolerance of some segment(u), u in [0,1]
   -- whatever the projection iteration does *)
Theorem C18_on_seg_sound : forall s p, on_seg s p = true ->
  exists u, 0 <= u /\ u <= 1 /\ dist2 s p u < tol6sq.
Proof. exact on_seg_sound. Qed.
Print Assumptions C18_on_seg_sound.

(* segment(t) in segment, for straight segments longer than the tolerance *)
Theorem C18_on_seg_complete_line : forall a b t, tol6 < norm2 (psub b a) -> 0 <= t -> t <= 1 ->
  on_seg [a; b] (eval [a; b] t) = true.
Proof. exact on_seg_eval. Qed.
Print Assumptions C18_on_seg_complete_line.

(* partial: completeness of `in` (segment(t) in segment) is proved for straight segments in
   Props/C02.v (on_seg_exact_line); for curved regular segments it rests on the Newton iteration
   and is covered by the oracle only.  "winding contribution = angle subtended" is stated in
   terms of arctan2 and is covered by the oracle only. *)
Example C18_nonvacuous :
  let s := [(0,0);(1,2);(3,1);(4#3,5)] in
  (2 <= length s <= 7)%nat /\ Qred (px (eval s (1#3))) = 94#81 /\ Qred (py (eval s (1#3))) = 35#27
  /\ on_seg [(0,0);(4,2)] (2,1) = true.
Proof. vm_compute. repeat split; congruence || (intro; discriminate) || auto. Qed.
