(* C12 -- results do not depend on position, orientation or unit of length.  Statements only;
   proofs in Lemmas/Equivariance.v, Lemmas/Constancy.v, Lemmas/Affine.v.  What is proved: the
   exact quantities every operator is built from commute with the maps (crossing parameters under
   EVERY invertible affine map, Bezier evaluation, the region classification of the specification
   under EVERY orientation-preserving affine map -- translations, rotations, scalings, shears --,
   areas by the determinant, moments by the documented powers), and the absolute tolerances are
   exactly the scale dependence (pt_eq under scaling compares with tol/k).  The vertical-ray count
   is not rotation invariant edge by edge (C12_ray_not_rotation_invariant); its sum over a closed
   chain is.
   THE OPERATOR PIPELINE AS A WHOLE is translation-equivariant (Lemmas/Translate.v, a logical
   relation "the right one is the left one moved by v, up to == on coordinates" carried through
   every function of the model, ~120 lemmas): for polygonal shapes whose curves are non-empty
   closed chains (both decidable, both necessary -- machine-checked counterexamples for an open
   chain and for an empty curve), T(A) op T(B) is T(A op B) for | & - ^ ~ and copy, as DATA (same
   kinds, same curves in the same order, coordinates moved), T(p) in T(A) = p in A, T(B) in T(A)
   = B in A, T(A) == T(B) = (A == B), error outcomes included.  (The model does not round
   coordinates; the library's Point2D does above denominators of 1e9 -- the check sets those
   runs aside, harness/props/c12.py.)  Rotations and scalings of the whole pipeline remain with
   correspondence/oracle on transformed cases: scalings change what the absolute tolerances see
   (C12_refuted_tolerance), rotations change the vertical-ray bookkeeping edge by edge. *)
From Coq Require Import List.
From SV Require Import Spec.Spec Lemmas.Quadrature Lemmas.Equivariance Lemmas.Affine Lemmas.Translate.
Open Scope Q_scope.

Theorem C12_crossing_parameters : forall m11 m12 m21 m22 v f, aff_map m11 m12 m21 m22 v f ->
  forall a0 a1 b0 b1, ~ adet m11 m12 m21 m22 == 0 ->
  lines (map f [a0; a1]) (map f [b0; b1]) = lines [a0; a1] [b0; b1].
Proof. exact lines_aff_map. Qed.
Print Assumptions C12_crossing_parameters.
Theorem C12_crossing_parameters_rotation : forall c s a0 a1 b0 b1, c * c + s * s == 1 ->
  lines (map (rot_pt c s) [a0; a1]) (map (rot_pt c s) [b0; b1]) = lines [a0; a1] [b0; b1].
Proof. exact lines_rot_pt. Qed.

Theorem C12_evaluation : forall m11 m12 m21 m22 v f, aff_map m11 m12 m21 m22 v f ->
  forall s t, (2 <= length s <= 7)%nat -> peq (eval (map f s) t) (f (eval s t)).
Proof. exact eval_aff_map. Qed.
Print Assumptions C12_evaluation.

(* T(p) in T(A) iff p in A, at the level of the region specification, all shape kinds *)
Theorem C12_region : forall sx sy v f, 0 < sx -> 0 < sy -> diag_map sx sy v f ->
  forall s p, chains_ok (jordans s) -> region (map_points f s) (f p) = region s p.
Proof. exact region_diag. Qed.
Print Assumptions C12_region.

(* ... and under EVERY orientation-preserving affine map, in particular every rotation: the region
   classification of the specification does not depend on position, orientation or unit of length
   (proof: every matrix of positive determinant is a product of shears, positive scalings and quarter
   turns; the quarter turn is handled by a telescoping identity over the closed chain) *)
Theorem C12_region_affine : forall m11 m12 m21 m22 v f s p, aff_map m11 m12 m21 m22 v f ->
  0 < adet m11 m12 m21 m22 -> chains_ok (jordans s) -> region (map_points f s) (f p) = region s p.
Proof. exact region_affine. Qed.
Theorem C12_region_rotation : forall c s sh p, c * c + s * s == 1 -> chains_ok (jordans sh) ->
  region (map_points (rot_pt c s) sh) (rot_pt c s p) = region sh p.
Proof. exact region_rot_pt. Qed.
Print Assumptions C12_region_affine.
(* a reflection (det < 0) exchanges In and Out of a curve unless its direction is reversed too *)
Theorem C12_region_reflection : forall m11 m12 m21 m22 v f j p, aff_map m11 m12 m21 m22 v f ->
  adet m11 m12 m21 m22 < 0 -> nonempty_segs j -> closed_chain j = true -> ~ shoelace2 j == 0 ->
  region_simple (reverse (map (map f) j)) (f p) = region_simple j p.
Proof. exact region_simple_reflect. Qed.
Print Assumptions C12_region_reflection.

(* areas scale by the determinant (the square of the factor for a similarity) *)
Theorem C12_area : forall m11 m12 m21 m22 v f, aff_map m11 m12 m21 m22 v f ->
  forall s, shape_lines s = true -> (forall j, In j (jordans s) -> closed_chain j = true) ->
  shape_area (map_points f s) == adet m11 m12 m21 m22 * shape_area s.
Proof. exact shape_area_aff_map. Qed.
Print Assumptions C12_area.

(* the tolerances are the scale dependence *)
Theorem C12_tolerance_scaling : forall k p q, 0 < k ->
  pt_eq (pscale k p) (pscale k q) =
  negb (Qlt_bool (tol9 / k) (Qabs' (px p - px q))) && negb (Qlt_bool (tol9 / k) (Qabs' (py p - py q))).
Proof. exact pt_eq_pscale. Qed.
Theorem C12_tolerance_translation : forall v p q, pt_eq (padd p v) (padd q v) = pt_eq p q.
Proof. exact pt_eq_translate. Qed.
Print Assumptions C12_tolerance_scaling.

(* ---- the whole pipeline under translations ---- *)
Theorem C12_translate_or : forall v a b,
  shape_lines a = true -> shape_chains a = true -> shape_lines b = true -> shape_chains b = true ->
  res_rel (op3_moved v) (op_or a b) (op_or (move_shape v a) (move_shape v b)).
Proof. exact op_or_translate. Qed.
Theorem C12_translate_and : forall v a b,
  shape_lines a = true -> shape_chains a = true -> shape_lines b = true -> shape_chains b = true ->
  res_rel (op3_moved v) (op_and a b) (op_and (move_shape v a) (move_shape v b)).
Proof. exact op_and_translate. Qed.
Theorem C12_translate_sub : forall v a b,
  shape_lines a = true -> shape_chains a = true -> shape_lines b = true -> shape_chains b = true ->
  res_rel (op2_moved v) (op_sub a b) (op_sub (move_shape v a) (move_shape v b)).
Proof. exact op_sub_translate. Qed.
Theorem C12_translate_xor : forall v a b,
  shape_lines a = true -> shape_chains a = true -> shape_lines b = true -> shape_chains b = true ->
  res_rel (op3_moved v) (op_xor a b) (op_xor (move_shape v a) (move_shape v b)).
Proof. exact op_xor_translate. Qed.
Theorem C12_translate_not : forall v a, shape_lines a = true -> shape_chains a = true ->
  res_rel (shape_moved v) (op_not a) (op_not (move_shape v a)).
Proof. exact op_not_translate. Qed.
Theorem C12_translate_point : forall v a, shape_lines a = true -> shape_chains a = true ->
  forall p closed, contains_point (move_shape v a) (padd p v) closed = contains_point a p closed.
Proof. exact contains_point_translate. Qed.
Theorem C12_translate_contains : forall v a b,
  shape_lines a = true -> shape_chains a = true -> shape_lines b = true -> shape_chains b = true ->
  contains_shape (move_shape v a) (move_shape v b) = contains_shape a b.
Proof. exact contains_shape_translate. Qed.
Theorem C12_translate_eq : forall v a b,
  shape_lines a = true -> shape_chains a = true -> shape_lines b = true -> shape_chains b = true ->
  shape_eq (move_shape v a) (move_shape v b) = shape_eq a b.
Proof. exact shape_eq_translate. Qed.
(* ... also for the model's own in-place move *)
Theorem C12_translate_or_move : forall v a b,
  shape_lines a = true -> shape_chains a = true -> shape_lines b = true -> shape_chains b = true ->
  res_rel (op3_moved v) (op_or a b) (op_or (map_points (move_pt v) a) (map_points (move_pt v) b)).
Proof. exact op_or_translate_move_pt. Qed.
Print Assumptions C12_translate_or.
Print Assumptions C12_translate_and.
Print Assumptions C12_translate_sub.
Print Assumptions C12_translate_xor.
Print Assumptions C12_translate_not.
Print Assumptions C12_translate_point.
Print Assumptions C12_translate_contains.
Print Assumptions C12_translate_eq.
(* both hypotheses are needed *)
Example C12_translate_needs_closed :
  let s := SC (CS [[(0, 0); (0, 1)]]) in
  contains_point s (5, 5) true = true /\
  contains_point (move_shape (1, 0) s) (padd (5, 5) (1, 0)) true = false.
Proof. exact open_chain_not_translation_invariant. Qed.
(* non-vacuity: two overlapping squares moved by (7/3, -5/2): an 8-segment union on both sides *)
Example C12_translate_nonvacuous :
  op_or exA exB = ex_lhs /\ op_or (move_shape exv exA) (move_shape exv exB) = ex_rhs /\
  (exists r, ex_lhs = Ok r /\ length (concat (jordans (snd r))) = 8%nat) /\
  res_rel (op3_moved exv) ex_lhs ex_rhs.
Proof. exact op_or_translate_nonvacuous. Qed.

Example C12_refuted_tolerance :
  pt_eq (0, 0) (tol9, 0) = true /\ pt_eq (pscale 2 (0, 0)) (pscale 2 (tol9, 0)) = false.
Proof. exact pt_eq_not_scale_invariant. Qed.
Example C12_ray_not_rotation_invariant :
  cr (0, 1) (2, 1) (1, 0) = (-1)%Z /\ cr (rotate 0 1 (0, 1)) (rotate 0 1 (2, 1)) (rotate 0 1 (1, 0)) = 0%Z.
Proof. exact cr_not_rotation_invariant. Qed.
Example C12_nonvacuous : chains_ok (jordans Lshape).
Proof. exact Lshape_chains_ok. Qed.
