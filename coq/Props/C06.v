(* C06 -- results are canonical, well-formed shapes.  Statements only; proofs in
   Lemmas/Construct.v.  good js := every segment has >= 2 control points and every curve is a
   closed chain; shape_wf s := a Connected has >= 2 curves, a Disjoint >= 2 components (each a
   well-formed Simple/Connected).  Proved for ALL operands with good boundaries and all five
   operators.  NOT proved (oracle only, partial): components pairwise disjoint / boundaries
   free of self-crossings, and the singleton laws S|~S = Whole etc. for general S (they rest on
   the geometric recombination premise of C01). *)
From Coq Require Import List Permutation Lia.
From SV Require Import Spec.Spec Lemmas.Construct Lemmas.NoZero.
Open Scope Q_scope.

Theorem C06_or_wellformed : forall a b a' b' s, op_or a b = Ok (a', b', s) ->
  good (jordans a) -> good (jordans b) -> shape_wf s /\ good (jordans s).
Proof. exact op_or_good. Qed.
Theorem C06_and_wellformed : forall a b a' b' s, op_and a b = Ok (a', b', s) ->
  good (jordans a) -> good (jordans b) -> shape_wf s /\ good (jordans s).
Proof. exact op_and_good. Qed.
Theorem C06_sub_wellformed : forall a b a' s, op_sub a b = Ok (a', s) ->
  good (jordans a) -> good (jordans b) -> shape_wf s /\ good (jordans s).
Proof. exact op_sub_good. Qed.
Theorem C06_xor_wellformed : forall a b a' b' s, op_xor a b = Ok (a', b', s) ->
  good (jordans a) -> good (jordans b) ->
  shape_wf s /\ good (jordans s) /\ good (jordans a') /\ good (jordans b').
Proof. exact op_xor_good. Qed.
Theorem C06_not_wellformed : forall s s', op_not s = Ok s' -> good (jordans s) ->
  shape_wf s' /\ good (jordans s').
Proof. exact op_not_good. Qed.
Print Assumptions C06_or_wellformed.
Print Assumptions C06_xor_wellformed.

(* NO ZERO-LENGTH PIECE.  Splitting never creates one (all requests), the re-split operands of
   every operator and every complement have none, and the RESULT has none provided the pieces
   of the re-split operands are longer than the 1e-9 of Point2D.__eq__ (ssep): the path
   following re-points the end of every piece to the start of the next one whenever the two
   are equal within 1e-9 (follow_path_repointed), so a piece shorter than that can collapse. *)
Theorem C06_split_no_zero_piece : forall j idx nodes j',
  all_lines j = true -> Jordan.split j idx nodes = Ok j' -> nondeg j -> nondeg j'.
Proof. exact split_nondeg. Qed.
Theorem C06_or_operands_no_zero_piece : forall a b a' b' s, op_or a b = Ok (a', b', s) ->
  shape_lines a = true -> shape_lines b = true -> snondeg a -> snondeg b ->
  (shape_lines a' = true /\ snondeg a') /\ (shape_lines b' = true /\ snondeg b').
Proof. exact op_or_operands_nondeg. Qed.
Theorem C06_or_result_no_zero_piece : forall a b a' b' s, op_or a b = Ok (a', b', s) ->
  shape_lines a = true -> shape_lines b = true -> snondeg a -> snondeg b ->
  ssep a' -> ssep b' -> shape_lines s = true /\ snondeg s.
Proof. exact op_or_result_nondeg. Qed.
Theorem C06_and_result_no_zero_piece : forall a b a' b' s, op_and a b = Ok (a', b', s) ->
  shape_lines a = true -> shape_lines b = true -> snondeg a -> snondeg b ->
  ssep a' -> ssep b' -> shape_lines s = true /\ snondeg s.
Proof. exact op_and_result_nondeg. Qed.
Theorem C06_not_no_zero_piece : forall s s', op_not s = Ok s' ->
  shape_lines s = true -> snondeg s -> shape_lines s' = true /\ snondeg s'.
Proof. exact op_not_nondeg. Qed.
(* the separation hypothesis cannot be dropped: with an edge of length 5e-10 in an operand that
   shares a vertex with the other one, A | B contains the segment [(0,2);(0,2)] -- theorem
   nondeg_not_preserved_unconditionally in Lemmas/NoZeroCex.v (compiled and closed under the global
   context like everything else, but NOT imported here: its proof is one two-minute vm_compute that
   the independent checker coqchk, which has no virtual machine, cannot replay within 40 minutes).
   Found by the proof attempt, replayed on the library (same result object); the input is in the
   class of the known finding F16 (shared vertex) with a feature below the library's tolerances. *)
Print Assumptions C06_split_no_zero_piece.
Print Assumptions C06_or_result_no_zero_piece.

(* kind table of the complement: ~Simple is Simple, ~Connected is Disjoint of simples, ... *)
Theorem C06_not_kind : forall s s', shape_wf s -> op_not s = Ok s' ->
  match s with
  | SEmpty => s' = SWhole
  | SWhole => s' = SEmpty
  | SC (CS j) => s' = SC (CS (invert j))
  | SC (CC js) => exists cs, s' = SD cs /\ length cs = length js /\
                    forall c, In c cs -> exists j, In j js /\ c = CS (invert j)
  | SD _ => s' <> SEmpty /\ s' <> SWhole
  end.
Proof. exact op_not_kind. Qed.
Print Assumptions C06_not_kind.

(* regrouping keeps exactly the given curves and never yields a singleton *)
Theorem C06_regroup : forall js s, shape_from_jordans js = Ok s ->
  s <> SEmpty /\ s <> SWhole /\ shape_wf s /\ Permutation (jordans s) js.
Proof. exact shape_from_jordans_spec. Qed.
Print Assumptions C06_regroup.

(* Empty / Whole rows of the operator tables *)
Theorem C06_singleton_rows : forall b,
  op_or SWhole b = Ok (SWhole, b, SWhole) /\ op_and SEmpty b = Ok (SEmpty, b, SEmpty) /\
  op_sub SEmpty b = Ok (SEmpty, SEmpty) /\ op_not SEmpty = Ok SWhole /\ op_not SWhole = Ok SEmpty.
Proof.
  intro b. split; [apply op_or_whole_l|]. split; [apply op_and_empty_l|].
  split; [apply op_sub_empty_l|]. split; reflexivity.
Qed.

Example C06_nonvacuous :
  let sq := SC (CS [[(0,0);(2,0)];[(2,0);(2,2)];[(2,2);(0,2)];[(0,2);(0,0)]]) in
  good (jordans sq) /\ exists a b s, op_or sq sq = Ok (a, b, s).
Proof.
  split.
  - split.
    + intros j s Hj Hs. cbn in Hj. destruct Hj as [<-|[]].
      cbn in Hs. repeat (destruct Hs as [<-|Hs]; [cbn; lia|]). destruct Hs.
    + repeat constructor.
  - vm_compute. eauto.
Qed.
