(* C06 -- results are canonical, well-formed shapes.  Statements only; proofs in
   Lemmas/Construct.v.  good js := every segment has >= 2 control points and every curve is a
   closed chain; shape_wf s := a Connected has >= 2 curves, a Disjoint >= 2 components (each a
   well-formed Simple/Connected).  Proved for ALL operands with good boundaries and all five
   operators.  NOT proved (oracle only, partial): components pairwise disjoint / boundaries
   free of self-crossings, and the singleton laws S|~S = Whole etc. for general S (they rest on
   the geometric recombination premise of C01). *)
From Coq Require Import List Permutation Lia.
From SV Require Import Spec.Spec Lemmas.Construct.
Open Scope Q_scope.

Theorem C06_or_wellformed : forall a b a' b' s, op_or a b = Ok (a', b', s) ->
  good (jordans a) -> good (jordans b) -> shape_wf s /\ good (jordans s).
Proof. exact op_or_good. Qed.
Theorem C06_and_wellformed : forall a b a' b' s, op_and a b = Ok (a', b', s) ->
  good (jordans a) -> good (jordans b) -> shape_wf s /\ good (jordans s).
Proof. exact op_and_good. Qed.
Theorem C06_sub_wellformed : forall a b a' s, op_sub a b = Ok (a', s) ->
  good (jordans a) -> good (jordans b) -> shape_wf s /\ good (jordans s).
Proof. exact op_sub_good. Qed.
Theorem C06_xor_wellformed : forall a b a' b' s, op_xor a b = Ok (a', b', s) ->
  good (jordans a) -> good (jordans b) ->
  shape_wf s /\ good (jordans s) /\ good (jordans a') /\ good (jordans b').
Proof. exact op_xor_good. Qed.
Theorem C06_not_wellformed : forall s s', op_not s = Ok s' -> good (jordans s) ->
  shape_wf s' /\ good (jordans s').
Proof. exact op_not_good. Qed.
Print Assumptions C06_or_wellformed.
Print Assumptions C06_xor_wellformed.

(* kind table of the complement: ~Simple is Simple, ~Connected is Disjoint of simples, ... *)
Theorem C06_not_kind : forall s s', shape_wf s -> op_not s = Ok s' ->
  match s with
  | SEmpty => s' = SWhole
  | SWhole => s' = SEmpty
  | SC (CS j) => s' = SC (CS (invert j))
  | SC (CC js) => exists cs, s' = SD cs /\ length cs = length js /\
                    forall c, In c cs -> exists j, In j js /\ c = CS (invert j)
  | SD _ => s' <> SEmpty /\ s' <> SWhole
  end.
Proof. exact op_not_kind. Qed.
Print Assumptions C06_not_kind.

(* regrouping keeps exactly the given curves and never yields a singleton *)
Theorem C06_regroup : forall js s, shape_from_jordans js = Ok s ->
  s <> SEmpty /\ s <> SWhole /\ shape_wf s /\ Permutation (jordans s) js.
Proof. exact shape_from_jordans_spec. Qed.
Print Assumptions C06_regroup.

(* Empty / Whole rows of the operator tables *)
Theorem C06_singleton_rows : forall b,
  op_or SWhole b = Ok (SWhole, b, SWhole) /\ op_and SEmpty b = Ok (SEmpty, b, SEmpty) /\
  op_sub SEmpty b = Ok (SEmpty, SEmpty) /\ op_not SEmpty = Ok SWhole /\ op_not SWhole = Ok SEmpty.
Proof.
  intro b. split; [apply op_or_whole_l|]. split; [apply op_and_empty_l|].
  split; [apply op_sub_empty_l|]. split; reflexivity.
Qed.

Example C06_nonvacuous :
  let sq := SC (CS [[(0,0);(2,0)];[(2,0);(2,2)];[(2,2);(0,2)];[(0,2);(0,0)]]) in
  good (jordans sq) /\ exists a b s, op_or sq sq = Ok (a, b, s).
Proof.
  split.
  - split.
    + intros j s Hj Hs. cbn in Hj. destruct Hj as [<-|[]].
      cbn in Hs. repeat (destruct Hs as [<-|Hs]; [cbn; lia|]). destruct Hs.
    + repeat constructor.
  - vm_compute. eauto.
Qed.
