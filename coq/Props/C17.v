(* C17 -- Jordan-curve constructors agree with each other and reject open chains.
   Statements only; proofs in Lemmas/Construct.v.  from_full_curve goes through pynurbs'
   knot-vector splitting and is covered by correspondence only (partial). *)
From Coq Require Import List.
From SV Require Import Spec.Spec Lemmas.BezierFacts Lemmas.Construct.
Open Scope Q_scope.

(* from_vertices never raises; it is from_ctrlpoints / from_segments of its edges; the vertices
   are listed once each, in order; the curve is closed; every vertex is in the box; the sign of
   float(curve) (orientation) is the sign of the shoelace sum *)
Theorem C17_constructors_agree : forall vs j, vs <> [] -> from_vertices vs = Ok j ->
  from_segments j = Ok j /\ from_ctrlpoints j = Ok j /\
  vertices j = vs /\ length j = length vs /\
  closed_chain j = true /\
  (forall v, In v vs -> in_box (jordan_box j) v) /\
  jordan_pos j = Qlt_bool 0 (shoelace2 j).
Proof. exact constructors_agree. Qed.
Print Assumptions C17_constructors_agree.
Theorem C17_from_vertices_total : forall vs, exists j, from_vertices vs = Ok j.
Proof. exact from_vertices_never_raises. Qed.

(* a chain is rejected exactly when some consecutive end/start points (closing pair included)
   differ by more than 1e-9, and only ever with an assertion *)
Theorem C17_rejects_open_chains : forall js : list seg,
  from_segments js = Err EAssert <->
  js <> [] /\ exists i, (i < length js)%nat /\
     pt_eq (last_pt (nth i js [])) (first_pt (nth ((i + 1) mod length js) js [])) = false.
Proof. exact from_segments_err_iff. Qed.
Theorem C17_outcomes : forall js, (exists j, from_segments js = Ok j) \/ from_segments js = Err EAssert.
Proof. exact from_segments_outcome. Qed.
Print Assumptions C17_rejects_open_chains.

(* whatever is accepted is a closed chain (any degree) *)
Theorem C17_accepted_is_closed : forall js j, from_segments js = Ok j ->
  (forall s, In s js -> (2 <= length s)%nat) -> closed_chain j = true.
Proof. exact from_segments_closed. Qed.
Print Assumptions C17_accepted_is_closed.

(* box() encloses every point of the curve (degree <= 6) *)
Theorem C17_box_encloses : forall j s t, In s j -> (2 <= length s <= 7)%nat ->
  0 <= t -> t <= 1 -> in_box (jordan_box j) (eval s t).
Proof. exact jordan_box_encloses. Qed.
Print Assumptions C17_box_encloses.

Example C17_nonvacuous :
  from_vertices [(0,0);(4,0);(0,3)] = Ok [[(0,0);(4,0)];[(4,0);(0,3)];[(0,3);(0,0)]]
  /\ from_ctrlpoints [[(0,0);(4,0)];[(4,0);(4,3);(0,3)];[(0,3);(1,1)]] = Err EAssert.
Proof. vm_compute. split; reflexivity. Qed.
