(* C02 -- point membership is geometric truth, with the documented boundary rule.
   Statements only; proofs in Lemmas/Winding.v, Lemmas/C02Glue.v (and Lemmas/Quadrature.v for
   the orientation).  Specification (Spec/Spec.v): region S p is In/Out/Bdry/Undef from the EXACT
   on-edge test and the signed crossing number of the upward vertical ray, orientation from the
   shoelace sum; spec_contains r b ans says: In -> true, Out -> false, Bdry -> boundary flag,
   Undef (self-crossing input) -> nothing claimed.
   Proved: for every shape of every kind with straight closed boundaries, every point p and
   flag b at which the library's 1e-6 tolerance test answers the exact question on every edge
   (tol_exact: p exactly on the edge or not within the tolerance -- a premise, discharged for
   exact on-edge points of long edges in Lemmas/Tolerance.v when present).  Curved boundaries:
   the code replaces arcs by chords at the control-point count (known finding F12) -- oracle
   only.  The arctan2 angle sum of the code is idealised as the crossing number (trusted).
   For strictly convex counter-clockwise polygons the specification itself is tied to the
   elementary definition of the region (C02_convex_*: winding number 1 iff strictly left of every
   edge, 0 iff strictly right of some edge, otherwise on the boundary) -- a check of Spec against
   geometry that does not go through winding numbers (Lemmas/Convex.v). *)
From Coq Require Import List.
From SV Require Import Spec.Spec Lemmas.Winding Lemmas.C02Glue Lemmas.Safe Lemmas.Constancy Lemmas.Convex.
Open Scope Q_scope.

Theorem C02_polygon : forall S p b,
  shape_lines S = true ->
  (forall j, In j (jordans S) -> closed_chain j = true) ->
  (forall j, In j (jordans S) -> tol_exact j p) ->
  spec_contains (region S p) b (contains_point S p b).
Proof. exact contains_point_polygon. Qed.
Print Assumptions C02_polygon.

(* the tolerance premise discharged: every edge longer than the tolerance, and p exactly on an
   edge or at least the tolerance away from its line (a quantifier-free, computable condition) *)
Theorem C02_polygon_safe : forall S p b,
  shape_lines S = true ->
  (forall j, In j (jordans S) -> closed_chain j = true) ->
  (forall j, In j (jordans S) -> safe_point_q j p) ->
  spec_contains (region S p) b (contains_point S p b).
Proof. exact contains_point_safe_q. Qed.
Print Assumptions C02_polygon_safe.

(* the winding number of the specification is locally constant: it does not change when the
   point moves along ANY straight segment that does not meet the closed curve; so the region
   classification is constant on every connected piece of the complement of the boundary *)
Theorem C02_wn_locally_constant : forall j p q, closed_chain j = true -> seg_off j p q ->
  wn_lines j p = wn_lines j q.
Proof. exact wn_lines_move. Qed.
Theorem C02_region_locally_constant : forall j p q, closed_chain j = true -> seg_off j p q ->
  region_simple j p = region_simple j q.
Proof. exact region_simple_move. Qed.
Print Assumptions C02_region_locally_constant.

(* Empty contains no point and Whole contains every point *)
Theorem C02_empty_whole : forall p b, contains_point SEmpty p b = false /\ contains_point SWhole p b = true.
Proof. intros; split; reflexivity. Qed.

(* the winding number of the specification is not "the algorithm restated": *)
Theorem C02_wn_triangle_inside : forall a b c p,
  0 < orient a b p -> 0 < orient b c p -> 0 < orient c a p -> wn_lines (triangle a b c) p = 1%Z.
Proof. exact triangle_inside. Qed.
Theorem C02_wn_triangle_outside : forall a b c p, 0 < orient a b c ->
  orient a b p < 0 \/ orient b c p < 0 \/ orient c a p < 0 -> wn_lines (triangle a b c) p = 0%Z.
Proof. exact triangle_outside. Qed.
Print Assumptions C02_wn_triangle_outside.
Theorem C02_wn_reverse : forall j p, all_lines j = true ->
  wn_lines (rev (map (@rev point) j)) p = (- wn_lines j p)%Z.
Proof. exact wn_lines_rev. Qed.
Theorem C02_wn_start_vertex : forall k j p, wn_lines (rotl k j) p = wn_lines j p.
Proof. exact wn_lines_rotl. Qed.
Theorem C02_wn_inserted_vertex : forall j1 j2 a b t p, 0 < t -> t < 1 ->
  let m := (px a + t * (px b - px a), py a + t * (py b - py a)) in
  wn_lines (j1 ++ [a; m] :: [m; b] :: j2) p = wn_lines (j1 ++ [a; b] :: j2) p.
Proof. exact wn_lines_split_seg. Qed.
Print Assumptions C02_wn_inserted_vertex.

(* strictly convex counter-clockwise polygons: the winding number IS the half-plane definition *)
Theorem C02_convex_inside : forall vs q, convex_ccw_b vs = true ->
  (forall e, In e (edges_of vs) -> 0 < orient (fst e) (snd e) q) -> wn_lines (poly_of vs) q = 1%Z.
Proof. exact convex_inside. Qed.
Theorem C02_convex_outside : forall vs q, convex_ccw_b vs = true ->
  (exists e, In e (edges_of vs) /\ orient (fst e) (snd e) q < 0) -> wn_lines (poly_of vs) q = 0%Z.
Proof. exact convex_outside. Qed.
Theorem C02_convex_boundary : forall vs q, convex_ccw_b vs = true ->
  (forall e, In e (edges_of vs) -> 0 <= orient (fst e) (snd e) q) ->
  (exists e, In e (edges_of vs) /\ orient (fst e) (snd e) q == 0) -> on_boundary (poly_of vs) q = true.
Proof. exact convex_boundary. Qed.
Print Assumptions C02_convex_inside.
Print Assumptions C02_convex_outside.
Print Assumptions C02_convex_boundary.

(* non-vacuity: the 4x4 square, an interior, a boundary and an exterior point *)
Example C02_nonvacuous : forall p b, In p [p_in; p_bd; p_out] ->
  spec_contains (region (SC (CS sq)) p) b (contains_point (SC (CS sq)) p b).
Proof. exact sq_spec_instance. Qed.
(* the chord approximation of curved segments: model and code agree and both are wrong (F12).
   Convex quadratic arc (1,0),(1,1),(0,1) closed by two straight edges through the origin.
   The point (9/10, 4/10) lies between the code's chord (1,0)-(3/4,3/4) and the arc: it is inside
   the polygon inscribed in the region through the arc points at t = 0, 1/4, 1/2, 1 (hence inside
   the true region), yet contains_point answers false. *)
Example C02_refuted_curved :
  let j := [[(1,0);(1,1);(0,1)]; [(0,1);(0,0)]; [(0,0);(1,0)]] in
  let inscribed := [[(1,0);(15#16,7#16)]; [(15#16,7#16);(3#4,3#4)]; [(3#4,3#4);(0,1)]; [(0,1);(0,0)]; [(0,0);(1,0)]] in
  contains_point (SC (CS j)) (9#10, 4#10) true = false
  /\ peq (eval [(1,0);(1,1);(0,1)] (1#4)) (15#16, 7#16)
  /\ region_simple inscribed (9#10, 4#10) = RIn.
Proof. vm_compute. repeat split; reflexivity. Qed.
