(* C10 -- answers depend only on the current geometry, not on earlier calls.
   Statements only; model in Model/Heap.v (the cached signed length of a curve is modelled by a
   ghost snapshot of the geometry it was computed from; containment reads the orientation from
   the CACHE, as the code does), proofs in Lemmas/HeapFacts.v.
   Determinism: the model is a function, so equal inputs give equal results; process-level
   determinism of the code (hash seeds, module memo tables) is checked by the harness. *)
From Coq Require Import List.
From SV Require Import Spec.Spec Model.Heap Lemmas.HeapFacts.

(* cache coherence (cached snapshot = a translate of the live geometry) and the identity
   structure are invariants of every operation, hence hold after every history *)
Theorem C10_invariant : forall st o st', HInv st -> op_ok o -> step st o = Ok st' -> HInv st'.
Proof. exact step_HInv. Qed.
Print Assumptions C10_invariant.

(* so a containment query on the live object, whatever was called before, answers exactly as
   the value model does on the current geometry (= a freshly built copy) *)
Theorem C10_contains_live : forall st, reachable st -> forall x p b,
  shape_lines (denot (fst st) (var st x)) = true ->
  snd (h_contains_point (fst st) (var st x) p b) = contains_point (denot (fst st) (var st x)) p b.
Proof. exact reachable_contains_live. Qed.
Print Assumptions C10_contains_live.
Theorem C10_contains_live_inv : forall h x p b, Inv h -> cache_coherent h ->
  shape_lines (denot h x) = true ->
  snd (h_contains_point h x p b) = contains_point (denot h x) p b.
Proof. exact h_contains_point_live. Qed.

(* asking a question changes no geometry *)
Theorem C10_queries_change_nothing : forall st, reachable st -> forall o st',
  op_ok o -> value_op o -> step st o = Ok st' ->
  forall w, w < length (snd st) -> ~ touched o w ->
  var st' w = var st w /\ denot (fst st') (var st' w) = denot (fst st) (var st w).
Proof. exact reachable_value_frame. Qed.

(* the unrepaired code (scale keeps the cache): the invariant fails and an answer is wrong *)
Example C10_refuted_stale_cache :
  let h := stale_heap in let p := (5%Q, 5%Q) in
  heap_wf h = true /\
  option_map jordan_pos (cacheof h 0) = Some true /\ jordan_pos (geom h 0) = false /\
  h_curve_has_point h 0 p false = false /\ simple_has_point (geom h 0) p false = true.
Proof.
  pose proof stale_scale_refuted as H. cbv zeta in H.
  destruct H as (H1 & _ & H3 & H4 & H5 & H6). cbv zeta. repeat split; assumption.
Qed.
Example C10_refuted_not_coherent : ~ cache_coherent stale_heap.
Proof. exact stale_scale_incoherent. Qed.
Example C10_nonvacuous : exists st, reachable st /\ length (snd st) = 3 /\ length (hcurves (fst st)) = 3.
Proof. exact reachable_nonvacuous. Qed.
