(* C13 -- rational in, exact rational out.  Statements only; proofs in Lemmas/LimitDen.v
   (the model of CPython's Fraction.limit_denominator used by Point2D) and, for the exactness
   of derived quantities, Props/C14.v (crossing parameters), C15.v (split), C04.v (moments).
   What is NOT expressible in the model: a Fraction whose numerator is a float (the repaired
   defect F1) -- that part of the property is a correspondence check (types of every number). *)
From SV Require Import Model.Num Lemmas.LimitDen.
Open Scope Z_scope.

(* coordinates whose exact denominator is at most the cap are stored unchanged *)
Theorem C13_small_unchanged : forall q, Zpos (Qden (Qred q)) <= cap9 -> norm_coord q = Some (Qred q).
Proof. exact norm_coord_small. Qed.
Print Assumptions C13_small_unchanged.

(* every rational coordinate is stored as a well-formed fraction in lowest terms with
   denominator at most 10^9 (never fails, for all inputs) *)
Theorem C13_wellformed : forall q, exists n d,
  norm_coord q = Some (Qred (n # d)) /\ Zpos d <= cap9 /\ Z.gcd n (Zpos d) = 1.
Proof. exact norm_coord_total. Qed.
Print Assumptions C13_wellformed.

(* limit_denominator: total on normalised input, bounded, lowest terms, identity below the cap *)
Theorem C13_limit_den : forall N num den, 1 <= N -> 0 < den -> Z.gcd num den = 1 ->
  exists n' d', limit_den N num den = Some (n', d') /\ 0 < d' <= N /\ Z.gcd n' d' = 1 /\
                (den <= N -> n' = num /\ d' = den).
Proof. exact limit_den_spec. Qed.
Print Assumptions C13_limit_den.

(* Python versions: the closing test of 3.12 and the one of <= 3.11 give the same fraction *)
Theorem C13_py311_py312_agree : forall N num den, 1 <= N -> 0 < den ->
  limit_den N num den = limit_den311 N num den.
Proof. exact limit_den_eq_311. Qed.
Print Assumptions C13_py311_py312_agree.

Example C13_nonvacuous :
  limit_den 1000000000 883567286527 1800356236451 = Some (477435269, 972821852)
  /\ limit_den 10 31415926 10000000 = Some (22, 7).
Proof. split; vm_compute; reflexivity. Qed.
