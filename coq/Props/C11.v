(* C11 -- a call that raises or is interrupted leaves its operands intact.  Statements only;
   model in Model/Heap.v + Model/Crash.v (every non-mutating operation as the list of its atomic
   WRITE steps on the heap: one segment-tuple assignment per JordanCurve.__split_segment, cache
   fills, allocation of fresh objects; prefix_w k = the writes that have happened when an
   exception or interrupt surfaces after k of them), proofs in Lemmas/CrashFacts.v.
   crash_safe_at h h' := the identity structure is intact and EVERY pre-existing curve has the
   same winding number about every point, the same area, the same point set (on_boundary), is
   still closed and as straight as before.  Interrupts between bytecodes inside one atomic
   step are not modelled (the property is stated at internal call boundaries). *)
From Coq Require Import List.
From SV Require Import Spec.Spec Model.Heap Model.Crash Lemmas.HeapFacts Lemmas.CrashFacts.

(* operators | & - ^ : whatever prefix of the writes happened, nothing pre-existing changed *)
Theorem C11_operators : forall o h x y ws, call_ok o h x y -> binop_trace o h x y = Ok ws ->
  forall k, crash_safe_at h (prefix_w k ws h).
Proof. exact binop_crash_safe. Qed.
Print Assumptions C11_operators.
(* ... also when the operator itself fails half way (internal assertion, numerical failure):
   binop_ptrace is the list of writes performed until the error *)
Theorem C11_operators_failing : forall o h x y, call_ok o h x y ->
  forall k, crash_safe_at h (prefix_w k (fst (binop_ptrace o h x y)) h).
Proof. exact binop_crash_safe_partial. Qed.
Print Assumptions C11_operators_failing.
(* the operands denote exactly the region they denoted before, boundary points included *)
Theorem C11_operands_region : forall o h x y ws k c p, call_ok o h x y -> binop_trace o h x y = Ok ws ->
  In c (hcurves_of x ++ hcurves_of y) ->
  region_simple (geom (prefix_w k ws h) c) p = region_simple (geom h c) p.
Proof. exact binop_crash_region. Qed.
Print Assumptions C11_operands_region.
(* the trace is the operator: running all of it gives the heap the operator ends in *)
Theorem C11_trace_is_the_operator : forall o h x y h' z, h_binop o h x y = Ok (h', z) ->
  exists ws, binop_trace o h x y = Ok ws /\ run_w ws h = h'.
Proof. exact binop_trace_run. Qed.

(* complement, copy, containment queries / comparisons / integrals (cache fills only) *)
Theorem C11_complement : forall h x ws, Inv h -> not_trace h x = Ok ws -> forall k, crash_safe_at h (prefix_w k ws h).
Proof. exact not_crash_safe. Qed.
Theorem C11_copy : forall h x ws, Inv h -> copy_trace h x = Ok ws -> forall k, crash_safe_at h (prefix_w k ws h).
Proof. exact copy_crash_safe. Qed.
Theorem C11_queries : forall h x, Inv h -> forall k, crash_safe_at h (prefix_w k (contains_trace x) h).
Proof. exact contains_crash_safe. Qed.
Print Assumptions C11_queries.

(* an in-place transformation that rejects its arguments performs no write at all *)
Theorem C11_move_rejects : forall a b h x k, num_of a = Err k \/ num_of b = Err k ->
  t_move_steps a b h x = [] /\ exists k', t_move a b h x = Err k'.
Proof. exact t_move_rejects. Qed.
Theorem C11_scale_rejects : forall a b h x k, num_of_float a = Err k \/ num_of_float b = Err k ->
  t_scale_steps a b h x = [] /\ exists k', t_scale a b h x = Err k'.
Proof. exact t_scale_rejects. Qed.
Theorem C11_rotate_rejects : forall c s h x k, num_of_float c = Err k \/ num_of_float s = Err k ->
  t_rotate_steps c s h x = [] /\ exists k', t_rotate c s h x = Err k'.
Proof. exact t_rotate_rejects. Qed.
Print Assumptions C11_scale_rejects.

(* the repaired defect F5 as a counterfactual: the old scale accepted "3" at validation and
   raised after writing x of the first vertex *)
Example C11_old_scale_refuted :
  let '(h, x) := h_new hempty (SC (CS sq11)) in
  t_scale_unrepaired (PNum 2) (PNumStr 3) h x = ([CX 0 2], Err EType) /\
  geom (run_c [CX 0 2] h) 0 <> geom h 0 /\
  t_scale (PNum 2) (PNumStr 3) h x = Err EType /\ t_scale_steps (PNum 2) (PNumStr 3) h x = [].
Proof.
  pose proof unrepaired_scale_refuted as H. destruct (h_new hempty (SC (CS sq11))) as [h x].
  destruct H as (H1 & _ & H3 & H4 & H5 & _). repeat split; assumption.
Qed.
Example C11_nonvacuous : let '(h, x, y) := ex_state in call_ok BOr h x y /\ call_ok BXor h x y.
Proof. exact call_ok_nonvacuous. Qed.
