(* C09 -- move / rotate / scale transform the region exactly as the affine map does.
   Statements only; proofs in Lemmas/HeapFacts.v (object level: each distinct point object is
   transformed exactly once, all boundary curves of composite shapes are visited, the same
   object is returned = the variable keeps its identity) and Lemmas/Equivariance.v (value level:
   region, area and moments of the mapped shape).  Rotation is modelled by an exact rational
   point (c,s) of the unit circle; float cos/sin of the code are idealised.  Negative scale
   factors are outside the property. *)
From Coq Require Import List.
From SV Require Import Spec.Spec Model.Heap Lemmas.HeapFacts Lemmas.Equivariance Lemmas.Affine.
Open Scope Q_scope.

(* object level, every history: the transformed variable denotes the image under the map of
   what it denoted before (every control point moved exactly once), it is the same variable,
   and nothing else changes *)
Theorem C09_move_exact : forall st x v st', HInv st -> step st (OMove x v) = Ok st' ->
  snd st' = snd st /\
  (forall y, y <> x -> denot (fst st') (var st' y) = denot (fst st) (var st y)) /\
  denot (fst st') (var st' x) = map_points (move_pt v) (denot (fst st) (var st x)).
Proof. exact move_frame. Qed.
Theorem C09_scale_exact : forall st x sx sy st', HInv st -> step st (OScale x sx sy) = Ok st' ->
  snd st' = snd st /\
  (forall y, y <> x -> denot (fst st') (var st' y) = denot (fst st) (var st y)) /\
  denot (fst st') (var st' x) = map_points (scale_pt sx sy) (denot (fst st) (var st x)).
Proof. exact scale_frame. Qed.
Theorem C09_rotate_exact : forall st x c s st', HInv st -> step st (ORotate x c s) = Ok st' ->
  snd st' = snd st /\
  (forall y, y <> x -> denot (fst st') (var st' y) = denot (fst st) (var st y)) /\
  denot (fst st') (var st' x) = map_points (rot_pt c s) (denot (fst st) (var st x)).
Proof. exact rotate_frame. Qed.
Print Assumptions C09_move_exact.
Print Assumptions C09_rotate_exact.
Theorem C09_each_point_once : forall f h c, locs_lt h c ->
  geom (map_curve_pts f h c) c = map (map f) (geom h c).
Proof. exact map_curve_pts_geom_self. Qed.
Print Assumptions C09_each_point_once.

(* value level: T(p) in T(S) iff p in S (translations, positive scalings; all shape kinds) *)
Theorem C09_region_move : forall v sh p, chains_ok (jordans sh) ->
  region (map_points (move_pt v) sh) (move_pt v p) = region sh p.
Proof. exact region_move_pt. Qed.
Theorem C09_region_scale : forall sx sy sh p, 0 < sx -> 0 < sy -> chains_ok (jordans sh) ->
  region (map_points (scale_pt sx sy) sh) (scale_pt sx sy p) = region sh p.
Proof. exact region_scale_pt. Qed.
Print Assumptions C09_region_scale.
Theorem C09_region_rotate : forall c s sh p, c * c + s * s == 1 -> chains_ok (jordans sh) ->
  region (map_points (rot_pt c s) sh) (rot_pt c s p) = region sh p.
Proof. exact region_rot_pt. Qed.
(* point reflections and any pair of non-zero factors of equal sign *)
Theorem C09_region_scale_signed : forall sx sy sh p, 0 < sx * sy -> chains_ok (jordans sh) ->
  region (map_points (scale_pt sx sy) sh) (scale_pt sx sy p) = region sh p.
Proof. exact region_scale_pt'. Qed.
Print Assumptions C09_region_rotate.
(* area is |det T| times the old one; moments transform accordingly *)
Theorem C09_area : forall m11 m12 m21 m22 v f, aff_map m11 m12 m21 m22 v f ->
  forall s, shape_lines s = true -> (forall j, In j (jordans s) -> closed_chain j = true) ->
  shape_area (map_points f s) == adet m11 m12 m21 m22 * shape_area s.
Proof. exact shape_area_aff_map. Qed.
Theorem C09_moments_scale : forall sx sy Sh a b, shape_lines Sh = true -> (a + b <= 14)%nat ->
  moment (map_points (scale_pt sx sy) Sh) a b == Qpow sx (S a) * Qpow sy (S b) * moment Sh a b.
Proof. exact moment_scale_pt. Qed.
Theorem C09_moments_move : forall v sh, shape_lines sh = true ->
  (forall j, In j (jordans sh) -> closed_chain j = true) ->
  moment (map_points (move_pt v) sh) 0 0 == moment sh 0 0 /\
  moment (map_points (move_pt v) sh) 1 0 == moment sh 1 0 + px v * moment sh 0 0 /\
  moment (map_points (move_pt v) sh) 0 1 == moment sh 0 1 + py v * moment sh 0 0.
Proof. exact moment_move_pt. Qed.
Print Assumptions C09_area.
Print Assumptions C09_moments_scale.
(* rational inputs stay exact; the inverse transformation restores the original exactly *)
Theorem C09_move_inverse : forall v s, shape_normal s ->
  map_points (move_pt (popp v)) (map_points (move_pt v) s) = s.
Proof. exact move_shape_inverse. Qed.
Theorem C09_scale_inverse : forall sx sy s, ~ sx == 0 -> ~ sy == 0 -> shape_normal s ->
  map_points (scale_pt (/ sx) (/ sy)) (map_points (scale_pt sx sy) s) = s.
Proof. exact scale_shape_inverse. Qed.
Theorem C09_rotate_inverse : forall c s sh, c * c + s * s == 1 -> shape_normal sh ->
  map_points (rot_pt c (- s)) (map_points (rot_pt c s) sh) = sh.
Proof. exact rotate_shape_inverse. Qed.
Print Assumptions C09_rotate_inverse.

Example C09_nonvacuous : chains_ok (jordans Quadrature.Lshape) /\ shape_normal Quadrature.Lshape.
Proof. split; [exact Lshape_chains_ok | exact Lshape_normal]. Qed.
