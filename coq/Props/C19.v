(* C19 -- directly constructed composite shapes: order independence, collapse rules.
   Statements only; proofs in Lemmas/Logic.v.  "== to the operator result" goes through the
   library's == (C07) and the operators (C01) and is covered by correspondence/oracle (partial). *)
From Coq Require Import List Permutation.
From SV Require Import Spec.Spec Lemmas.Logic.
Open Scope Q_scope.

(* containment answers, region, area and all moments do not depend on the order of the list *)
Theorem C19_disjoint_order_point : forall cs cs' p b, Permutation cs cs' ->
  contains_point (SD cs) p b = contains_point (SD cs') p b.
Proof. exact contains_point_SD_perm. Qed.
Theorem C19_connected_order_point : forall js js' p b, Permutation js js' ->
  contains_point (SC (CC js)) p b = contains_point (SC (CC js')) p b.
Proof. exact contains_point_CC_perm. Qed.
Theorem C19_order_region : forall cs cs' p, Permutation cs cs' -> region (SD cs) p = region (SD cs') p.
Proof. exact region_SD_perm. Qed.
Theorem C19_order_moments : forall s s' a b, Permutation (jordans s) (jordans s') -> moment s a b = moment s' a b.
Proof. exact moment_jordans_perm. Qed.
Theorem C19_order_area : forall s s', Permutation (jordans s) (jordans s') -> shape_area s = shape_area s'.
Proof. exact shape_area_jordans_perm. Qed.
Print Assumptions C19_disjoint_order_point.
Print Assumptions C19_order_moments.

(* the constructors sort (a permutation); with pairwise distinct sort keys the stored order
   itself is independent of the given order *)
Theorem C19_sort_is_permutation : forall (A : Type) (le : A -> A -> bool) l, Permutation (sort_by le l) l.
Proof. intros; apply sort_by_perm. Qed.
Theorem C19_disjoint_canonical : forall cs cs',
  (forall x y, In x cs -> In y cs -> comp_area x == comp_area y -> x = y) ->
  Permutation cs cs' -> disjoint_of cs = disjoint_of cs'.
Proof. exact disjoint_of_canonical. Qed.
Theorem C19_connected_canonical : forall js js',
  (forall x y, In x js -> In y js -> jordan_area x == jordan_area y -> x = y) ->
  Permutation js js' -> CC (sort_by area_ge js) = CC (sort_by area_ge js').
Proof. exact CC_sorted_canonical. Qed.
Print Assumptions C19_disjoint_canonical.

(* DisjointShape of one shape is that shape, of none is Empty; it denotes the union *)
Theorem C19_collapse : (forall c, disjoint_of [c] = SC c) /\ disjoint_of [] = SEmpty.
Proof. split; [exact disjoint_of_one | exact disjoint_of_nil]. Qed.
Theorem C19_disjoint_is_union : forall cs p b,
  contains_point (disjoint_of cs) p b = existsb (fun c => comp_has_point c p b) cs.
Proof. exact contains_point_disjoint_of. Qed.
Print Assumptions C19_disjoint_is_union.

Example C19_nonvacuous :
  let a := CS [[(0,0);(1,0)];[(1,0);(1,1)];[(1,1);(0,1)];[(0,1);(0,0)]] in
  let b := CS [[(5,5);(7,5)];[(7,5);(7,7)];[(7,7);(5,7)];[(5,7);(5,5)]] in
  disjoint_of [a; b] = disjoint_of [b; a] /\ contains_point (disjoint_of [a; b]) (6,6) true = true.
Proof. vm_compute. split; reflexivity. Qed.
