(* C04 -- area and polynomial moments equal the true integrals.  Statements only;
   proofs in Lemmas/Quadrature.v.
   Full statement: for every bounded shape S and exponents a,b: polynomial(S,a,b) =
   integral of x^a y^b over the region.  Proved here: for every shape of every kind whose
   boundary segments are straight, every rational vertex list, and every a+b <= 14, the
   model's quadrature value equals moment_spec, the signed sum over the edges of the exact
   (formal) integral over the trapezoid between the edge and the y-axis
   int_0^1 X(t)^(a+1)/(a+1) Y(t)^b Y'(t) dt -- sign, divisor, exponent shift and node count
   are specified there, not copied from the quadrature.  The bound 14 is the 19-node table of
   the sweep nc_sweep (the code uses a+b+5 nodes).
   Curved boundaries (Lemmas/QuadCurved.v): the coordinates of a Bezier segment are the
   polynomials seg_px_poly / seg_py_poly in t (every degree).  Since the repair of F29 the
   model's rule uses vertical_nodes d ex ey = max(3+ex+ey+d, d*(ex+ey+1)) nodes on a segment of
   degree d, at least as many as X^ex Y^ey Y' has coefficients, and integrates it EXACTLY for
   EVERY exponent pair within the 19-node table (C04_curved_segment): the area for every degree
   <= 9 (C04_curved_area), the moments of order <= 2 -- indeed <= 4 -- for cubic boundaries
   (C04_cubic_moments), of order <= 7 for quadratic ones, every moment a+b <= 14 for straight
   ones; the curved specification coincides with the polygon one on polygons.  Before the
   repair the rule had 3+ex+ey+d nodes and was exact only for (d-1)(ex+ey) <= 3; the
   machine-checked witnesses of its failure just outside that range (first moment of a cubic,
   area of a sextic) are kept as regression examples about the old node count, paired with the
   exactness of the repaired rule on the same segments (C04_old_rule_refuted).  Beyond the
   19-node table (e.g. cubic moments of order >= 5) nothing is claimed here: that stays with
   the oracle (partial). *)
From SV Require Import Spec.Spec Lemmas.Quadrature Lemmas.QuadCurved.
Open Scope Q_scope.

Theorem C04_polygon : forall S a b, shape_lines S = true -> (a + b <= 14)%nat ->
  moment S a b == moment_spec S a b.
Proof. exact moment_polygon_exact. Qed.
Print Assumptions C04_polygon.

(* the quadrature rule itself: exact on every polynomial with at most n coefficients, n <= 19 *)
Theorem C04_newton_cotes_exact : forall n p, (1 <= n <= 19)%nat -> (length p <= n)%nat ->
  Qsum (map2 (fun w t => w * peval p t) (nc_w n) (open_linspace n)) == pint01 p.
Proof. exact nc_poly_exact. Qed.
Print Assumptions C04_newton_cotes_exact.
(* the tabulated weights are the Lagrange weights on the open nodes *)
Theorem C04_weights_are_lagrange : forall n, nc_w n = nc_weights n.
Proof. exact nc_w_weights. Qed.

(* area of a closed polygonal chain is the shoelace formula *)
Theorem C04_area_shoelace : forall j, all_lines j = true -> closed_chain j = true ->
  jordan_area j == shoelace2 j / 2.
Proof. exact area_shoelace. Qed.
Print Assumptions C04_area_shoelace.

(* reversing an edge negates its contribution: an unbounded shape (clockwise boundary)
   reports minus the value of its bounded complement *)
Theorem C04_reverse : forall A B ex ey, (ex + ey + 4 <= 19)%nat ->
  vertical [B; A] ex ey == - vertical [A; B] ex ey.
Proof. exact vertical_rev. Qed.
Print Assumptions C04_reverse.

(* ---- curved boundaries ---- *)
(* the polynomials of the specification are the curve the code evaluates, for every segment *)
Theorem C04_segment_polynomials : forall s t,
  px (eval s t) == peval (seg_px_poly s) t /\ py (eval s t) == peval (seg_py_poly s) t.
Proof. intros s t; split; [apply eval_px_poly | apply eval_py_poly]. Qed.
Print Assumptions C04_segment_polynomials.

(* one segment of degree d: the rule on max(3+ex+ey+d, d(ex+ey+1)) nodes is exact for every
   exponent pair, as long as the node count is in the 19-node table *)
Theorem C04_curved_segment : forall s ex ey,
  (1 <= degree s)%nat -> (vertical_nodes (degree s) ex ey <= 19)%nat ->
  vertical s ex ey == pint01 (curved_integrand s ex ey).
Proof. exact vertical_curved_exact. Qed.
Print Assumptions C04_curved_segment.

(* the range that was exact before the repair is an instance *)
Theorem C04_curved_segment_old_range : forall s ex ey,
  (1 <= degree s)%nat -> ((degree s - 1) * (ex + ey) <= 3)%nat -> (3 + ex + ey + degree s <= 19)%nat ->
  vertical s ex ey == pint01 (curved_integrand s ex ey).
Proof. exact vertical_curved_exact'. Qed.
Print Assumptions C04_curved_segment_old_range.

(* the area of a closed curve with segments of degree <= 9 is exact: max(4+d, 2d) <= 18 nodes *)
Theorem C04_curved_area : forall j, (forall s, In s j -> (1 <= degree s <= 9)%nat) ->
  jordan_area j == Qsum (map (fun s => pint01 (curved_integrand s 1 0)) j).
Proof. exact area_curved_exact9. Qed.
Print Assumptions C04_curved_area.

(* moments of shapes of every kind; per segment the node count must be in the table *)
Theorem C04_curved_moments : forall Sh a b,
  (forall j s, In j (jordans Sh) -> In s j ->
     (1 <= degree s)%nat /\ (vertical_nodes (degree s) (S a) b <= 19)%nat) ->
  moment Sh a b == moment_spec_curved Sh a b.
Proof. exact moment_curved_spec. Qed.
Print Assumptions C04_curved_moments.

(* cubic boundaries (degree <= 3): area, centroid and inertia moments, at most 12 nodes *)
Theorem C04_cubic_moments : forall Sh a b,
  (forall j s, In j (jordans Sh) -> In s j -> (1 <= degree s <= 3)%nat) ->
  (a + b <= 2)%nat -> moment Sh a b == moment_spec_curved Sh a b.
Proof. exact moment_cubic_exact. Qed.
Print Assumptions C04_cubic_moments.
(* ... and what the table allows: order <= 4 for cubics, <= 7 for quadratics *)
Theorem C04_cubic_moments4 : forall Sh a b,
  (forall j s, In j (jordans Sh) -> In s j -> (1 <= degree s <= 3)%nat) ->
  (a + b <= 4)%nat -> moment Sh a b == moment_spec_curved Sh a b.
Proof. exact moment_cubic_exact4. Qed.
Print Assumptions C04_cubic_moments4.
Theorem C04_quadratic_moments : forall Sh a b,
  (forall j s, In j (jordans Sh) -> In s j -> (1 <= degree s <= 2)%nat) ->
  (a + b <= 7)%nat -> moment Sh a b == moment_spec_curved Sh a b.
Proof. exact moment_quadratic_exact. Qed.
Print Assumptions C04_quadratic_moments.

Theorem C04_curved_spec_on_polygons : forall Sh a b, shape_lines Sh = true ->
  moment_spec_curved Sh a b == moment_spec Sh a b.
Proof. exact moment_spec_curved_lines. Qed.
Print Assumptions C04_curved_spec_on_polygons.

(* regression: the node count before the repair (3+ex+ey+d, vertical_old) is inexact on the
   first moment of a cubic (8 nodes for 9 coefficients); the repaired count (9 nodes) is exact
   on the same segment *)
Example C04_old_rule_refuted :
  exists s, degree s = 3%nat /\
    ~ vertical_old s 2 0 == pint01 (curved_integrand s 2 0) /\
    vertical s 2 0 == pint01 (curved_integrand s 2 0).
Proof. exact old_rule_cubic_first_moment_inexact. Qed.
Print Assumptions C04_old_rule_refuted.
(* the same for the area of a sextic (10 nodes for 12 coefficients; now 12) *)
Example C04_old_rule_refuted_sextic_area :
  exists s, degree s = 6%nat /\
    ~ vertical_old s 1 0 == pint01 (curved_integrand s 1 0) /\
    vertical s 1 0 == pint01 (curved_integrand s 1 0).
Proof. exact old_rule_sextic_area_inexact. Qed.
Print Assumptions C04_old_rule_refuted_sextic_area.

(* the cap under y = 1 - x^2: area 4/3, int x^2 = 4/15, inside the hypotheses of
   C04_curved_area, C04_curved_moments and C04_cubic_moments *)
Example C04_curved_nonvacuous :
  (forall s, In s cap -> (1 <= degree s <= 9)%nat) /\
  (forall j s, In j (jordans cap_shape) -> In s j ->
     (1 <= degree s)%nat /\ (vertical_nodes (degree s) (S 2) 0 <= 19)%nat) /\
  (forall j s, In j (jordans cap_shape) -> In s j -> (1 <= degree s <= 3)%nat) /\
  jordan_area cap = 4 # 3 /\
  moment cap_shape 2 0 = 4 # 15 /\
  Qred (moment_spec_curved cap_shape 2 0) = 4 # 15.
Proof.
  split; [exact (proj1 cap_hyps)|]. split; [exact (proj1 (proj2 cap_hyps))|].
  split; [exact (proj2 (proj2 cap_hyps))|].
  split; [exact (proj1 cap_area)|exact cap_moment_20].
Qed.
Print Assumptions C04_curved_nonvacuous.

Example C04_nonvacuous :
  shape_lines Lshape = true /\ moment Lshape 2 1 = 149 # 48 /\ Qred (moment_spec Lshape 2 1) = 149 # 48.
Proof. split; [exact (proj1 Lshape_hyps)|exact Lshape_moment_21]. Qed.
