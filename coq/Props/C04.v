(* C04 -- area and polynomial moments equal the true integrals.  Statements only;
   proofs in Lemmas/Quadrature.v.
   Full statement: for every bounded shape S and exponents a,b: polynomial(S,a,b) =
   integral of x^a y^b over the region.  Proved here: for every shape of every kind whose
   boundary segments are straight, every rational vertex list, and every a+b <= 14, the
   model's quadrature value equals moment_spec, the signed sum over the edges of the exact
   (formal) integral over the trapezoid between the edge and the y-axis
   int_0^1 X(t)^(a+1)/(a+1) Y(t)^b Y'(t) dt -- sign, divisor, exponent shift and node count
   are specified there, not copied from the quadrature.  The bound 14 is the 19-node table of
   the sweep nc_sweep (the code uses a+b+5 nodes).  Curved boundaries: area exact /
   "quadrature accuracy" for higher moments -- oracle only (partial). *)
From SV Require Import Spec.Spec Lemmas.Quadrature.
Open Scope Q_scope.

Theorem C04_polygon : forall S a b, shape_lines S = true -> (a + b <= 14)%nat ->
  moment S a b == moment_spec S a b.
Proof. exact moment_polygon_exact. Qed.
Print Assumptions C04_polygon.

(* the quadrature rule itself: exact on every polynomial with at most n coefficients, n <= 19 *)
Theorem C04_newton_cotes_exact : forall n p, (1 <= n <= 19)%nat -> (length p <= n)%nat ->
  Qsum (map2 (fun w t => w * peval p t) (nc_w n) (open_linspace n)) == pint01 p.
Proof. exact nc_poly_exact. Qed.
Print Assumptions C04_newton_cotes_exact.
(* the tabulated weights are the Lagrange weights on the open nodes *)
Theorem C04_weights_are_lagrange : forall n, nc_w n = nc_weights n.
Proof. exact nc_w_weights. Qed.

(* area of a closed polygonal chain is the shoelace formula *)
Theorem C04_area_shoelace : forall j, all_lines j = true -> closed_chain j = true ->
  jordan_area j == shoelace2 j / 2.
Proof. exact area_shoelace. Qed.
Print Assumptions C04_area_shoelace.

(* reversing an edge negates its contribution: an unbounded shape (clockwise boundary)
   reports minus the value of its bounded complement *)
Theorem C04_reverse : forall A B ex ey, (ex + ey + 4 <= 19)%nat ->
  vertical [B; A] ex ey == - vertical [A; B] ex ey.
Proof. exact vertical_rev. Qed.
Print Assumptions C04_reverse.

Example C04_nonvacuous :
  shape_lines Lshape = true /\ moment Lshape 2 1 = 149 # 48 /\ Qred (moment_spec Lshape 2 1) = 149 # 48.
Proof. split; [exact (proj1 Lshape_hyps)|exact Lshape_moment_21]. Qed.
