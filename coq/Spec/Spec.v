(* Spec.v -- what "geometric truth" means in the theorems.  Independent of the
   algorithms of the model: exact on-edge test (no tolerance, no projection),
   winding number by signed crossings of the upward vertical ray, region
   classification In/Out/Bdry/Undef, shoelace area, moments by formal polynomial
   integration of the trapezoid between an edge and the y-axis, set-theoretic
   semantics of operator expressions.  Definitions only. *)
From SV Require Export Model.Expr.
Open Scope Q_scope.

(* ---------- straight edges ---------- *)
Definition is_line (s : seg) : bool := Nat.eqb (length s) 2.
Definition all_lines (j : jordan) : bool := forallb is_line j.
Definition shape_lines (s : shape) : bool := forallb all_lines (jordans s).
Definition edge_of (s : seg) : point * point := (first_pt s, last_pt s).

(* p lies on the closed straight edge a-b, exactly *)
Definition between (a b x : Q) : bool :=
  (Qle_bool a x && Qle_bool x b) || (Qle_bool b x && Qle_bool x a).
Definition on_edge (a b p : point) : bool :=
  Qeq_bool (orient a b p) 0 && between (px a) (px b) (px p) && between (py a) (py b) (py p).
Definition on_boundary (j : jordan) (p : point) : bool :=
  existsb (fun s => on_edge (first_pt s) (last_pt s) p) j.

(* winding number of a chain of straight edges about p: signed crossings of
   the upward vertical ray from p (half-open rule in x) *)
Definition wn_lines (j : jordan) (p : point) : Z :=
  Zsum (map (fun s => cr (first_pt s) (last_pt s) p) j).

(* shoelace: twice the signed area *)
Definition shoelace2 (j : jordan) : Q :=
  Qsum (map (fun s => cross (first_pt s) (last_pt s)) j).

(* ---------- regions ---------- *)
Inductive reg := RIn | ROut | RBdry | RUndef.
Definition region_simple (j : jordan) (p : point) : reg :=
  if on_boundary j p then RBdry
  else
    let w := wn_lines j p in
    if Qlt_bool 0 (shoelace2 j)
    then (if (w =? 1)%Z then RIn else if (w =? 0)%Z then ROut else RUndef)
    else (if (w =? 0)%Z then RIn else if (w =? -1)%Z then ROut else RUndef).
(* intersection of regions (ConnectedShape), strict in Undef *)
Definition reg_and (a b : reg) : reg :=
  match a, b with
  | RUndef, _ | _, RUndef => RUndef
  | ROut, _ | _, ROut => ROut
  | RBdry, _ | _, RBdry => RBdry
  | RIn, RIn => RIn
  end.
(* union of regions (DisjointShape), strict in Undef *)
Definition reg_or (a b : reg) : reg :=
  match a, b with
  | RUndef, _ | _, RUndef => RUndef
  | RIn, _ | _, RIn => RIn
  | RBdry, _ | _, RBdry => RBdry
  | ROut, ROut => ROut
  end.
Definition region_comp (c : comp) (p : point) : reg :=
  match c with
  | CS j => region_simple j p
  | CC js => fold_right (fun j r => reg_and (region_simple j p) r) RIn js
  end.
Definition region (s : shape) (p : point) : reg :=
  match s with
  | SEmpty => ROut
  | SWhole => RIn
  | SC c => region_comp c p
  | SD cs => fold_right (fun c r => reg_or (region_comp c p) r) ROut cs
  end.

(* what contains_point must answer at p, given the region and the boundary flag *)
Definition spec_contains (r : reg) (b : bool) (ans : bool) : Prop :=
  match r with
  | RIn => ans = true
  | ROut => ans = false
  | RBdry => ans = b
  | RUndef => True
  end.

(* the tolerance test of the code answers the exact question at p:
   p is exactly on the edge, or the 1e-6 test says "not on it" *)
Definition tol_exact_seg (s : seg) (p : point) : Prop :=
  on_seg s p = on_edge (first_pt s) (last_pt s) p.
Definition tol_exact (j : jordan) (p : point) : Prop :=
  forall s, In s j -> tol_exact_seg s p.

(* ---------- moments ---------- *)
(* monomial coefficients (low degree first) of the coordinate polynomials of a
   straight edge a->b :  X(t) = xa + (xb-xa) t *)
Definition line_poly (a b : Q) : poly := [a; b - a].
(* integral over the trapezoid between the edge and the y-axis of x^a y^b:
   int_0^1 X^(a+1)/(a+1) * Y^b * Y' dt, the inner integral done formally *)
Definition edge_moment (s : seg) (a b : nat) : Q :=
  let A := first_pt s in let B := last_pt s in
  let X := line_poly (px A) (px B) in
  let Y := line_poly (py A) (py B) in
  pint01 (poly_mul (poly_mul (poly_pow X (S a)) (poly_pow Y b)) (pderiv Y)) / nQ (S a).
Definition jordan_moment_spec (j : jordan) (a b : nat) : Q :=
  Qsum (map (fun s => edge_moment s a b) j).
Definition moment_spec (s : shape) (a b : nat) : Q :=
  Qsum (map (fun j => jordan_moment_spec j a b) (jordans s)).

(* ---------- set-theoretic semantics of expressions ---------- *)
Fixpoint sem (env : nat -> bool) (e : expr) : bool :=
  match e with
  | EVar n => env n
  | EOr a b | EAdd a b => sem env a || sem env b
  | EAnd a b | EMul a b => sem env a && sem env b
  | ESub a b => sem env a && negb (sem env b)
  | EXor a b => xorb (sem env a) (sem env b)
  | ENot a | ENeg a => negb (sem env a)
  end.

(* ---------- chains ---------- *)
Fixpoint chain_ok (first : point) (j : jordan) : bool :=   (* end_i = start_{i+1}, last end = first *)
  match j with
  | [] => true
  | [s] => peqb (last_pt s) first
  | s :: ((s' :: _) as t) => peqb (last_pt s) (first_pt s') && chain_ok first t
  end.
Definition closed_chain (j : jordan) : bool :=
  match j with [] => true | s :: _ => chain_ok (first_pt s) j end.
