(* Affine.v -- C12 / C09: the region classification of the specification is
   invariant under EVERY orientation-preserving affine map of the plane (in
   particular under every rotation), and an orientation-reversing affine map
   exchanges In and Out.

   Method.  A map g of the plane is [good sgn g] when it respects [peq],
   preserves [on_edge] and multiplies the winding number of every closed edge
   list about every point off the edges by sgn.  Good maps are closed under
   composition and under pointwise [peq].  The elementary good maps are
     - positive axis scalings followed by a translation  (Equivariance.cr_diag)
     - the shear (x, y - m x)                            (Constancy.cr_shear)
     - the quarter turn (-y, x)                          (Constancy.wn_e_rot)
     - the mirror (-x, y), with sign -1                  (here, one telescoping sum)
   and every matrix with positive determinant is a product of these:
     [[a,b],[c,d]] = S_y(c/a) . diag(a, det/a) . S_x(b/a)        when a > 0,
     S_x(m) = Q^3 . S_y . Q,  and Q^k brings a positive entry to position (1,1). *)
From Coq Require Import QArith Lqa Lia ZArith List Bool.
From SV Require Import Model.Shape Spec.Spec.
From SV Require Import Lemmas.Quadrature Lemmas.Winding Lemmas.Equivariance Lemmas.Constancy.
Import ListNotations.
Open Scope Q_scope.

(* ------------------------------------------------------------------ *)
(* 1. on_edge respects peq in all three arguments                      *)
(* ------------------------------------------------------------------ *)
Lemma on_edge_peq3 a a' b b' p p' : peq a a' -> peq b b' -> peq p p' ->
  on_edge a b p = on_edge a' b' p'.
Proof.
  intros [A1 A2] [B1 B2] [P1 P2]. apply on_edge_ext.
  - apply orient_peq; split; assumption.
  - unfold betw. rewrite A1, B1, P1. tauto.
  - intros _ _. unfold betw. rewrite A2, B2, P2. tauto.
Qed.

(* ------------------------------------------------------------------ *)
(* 2. good maps                                                        *)
(* ------------------------------------------------------------------ *)
Definition pcompat (g : point -> point) : Prop := forall a b, peq a b -> peq (g a) (g b).
Definition pres_edge (g : point -> point) : Prop :=
  forall a b p, on_edge (g a) (g b) (g p) = on_edge a b p.
Definition pres_wn (sgn : Z) (g : point -> point) : Prop :=
  forall el p, eclosed el -> off_e el p -> wn_e (emap g el) (g p) = (sgn * wn_e el p)%Z.
Definition good (sgn : Z) (g : point -> point) : Prop :=
  pcompat g /\ pres_edge g /\ pres_wn sgn g.

Lemma emap_emap f g el : emap g (emap f el) = emap (fun p => g (f p)) el.
Proof. unfold emap. rewrite map_map. reflexivity. Qed.

Lemma off_e_emap g el p : pres_edge g -> off_e el p -> off_e (emap g el) (g p).
Proof.
  intros Hg H e' He'. destruct (in_emap g el e' He') as (e & He & ->). cbn [fst snd].
  rewrite Hg. apply H. exact He.
Qed.

Lemma good_comp s1 s2 g1 g2 : good s1 g1 -> good s2 g2 ->
  good (s2 * s1) (fun p => g2 (g1 p)).
Proof.
  intros (C1 & E1 & W1) (C2 & E2 & W2). split; [|split].
  - intros a b H. apply C2, C1, H.
  - intros a b p. rewrite E2. apply E1.
  - intros el p HC Hoff. rewrite <- emap_emap.
    rewrite W2.
    + rewrite (W1 el p HC Hoff). lia.
    + apply eclosed_emap; assumption.
    + apply off_e_emap; assumption.
Qed.

Lemma good_ext s f g : good s g -> (forall p, peq (f p) (g p)) -> good s f.
Proof.
  intros (C & E & W) H. split; [|split].
  - intros a b Hab. apply (peq_trans _ (g a)); [apply H|].
    apply (peq_trans _ (g b)); [apply C; exact Hab | apply peq_sym, H].
  - intros a b p. rewrite (on_edge_peq3 _ _ _ _ _ _ (H a) (H b) (H p)). apply E.
  - intros el p HC Hoff. rewrite <- (W el p HC Hoff). rewrite !wn_e_emap.
    apply Zsum_map_ext. intros e _. apply cr_peq; apply H.
Qed.

(* ---------- the elementary maps ---------- *)
Lemma rot_peq a b : peq a b -> peq (rot a) (rot b).
Proof.
  intros [H1 H2]. unfold rot, peq, px, py in *; cbn [fst snd] in *.
  rewrite H1, H2. split; reflexivity.
Qed.

Lemma good_rot : good 1 rot.
Proof.
  split; [|split].
  - exact rot_peq.
  - exact on_edge_rot.
  - intros el p HC Hoff. rewrite (wn_e_rot el p HC Hoff). lia.
Qed.

Lemma good_shear m : good 1 (shear m).
Proof.
  split; [|split].
  - exact (shear_peq m).
  - exact (on_edge_shear m).
  - intros el p _ _. rewrite wn_e_shear. lia.
Qed.

Lemma aff_map_compat m11 m12 m21 m22 v f : aff_map m11 m12 m21 m22 v f -> pcompat f.
Proof.
  intros H a b [Ex Ey]. destruct (H a) as [Ax Ay], (H b) as [Bx By].
  split; [rewrite Ax, Bx | rewrite Ay, By];
    unfold aff; cbn [px py fst snd]; rewrite Ex, Ey; reflexivity.
Qed.

Lemma good_diag sx sy v f : 0 < sx -> 0 < sy -> diag_map sx sy v f -> good 1 f.
Proof.
  intros Hx Hy Hf. split; [|split].
  - exact (aff_map_compat _ _ _ _ _ _ Hf).
  - exact (on_edge_diag sx sy v f Hx Hy Hf).
  - intros el p _ _. rewrite wn_e_emap. unfold wn_e.
    rewrite (Zsum_map_ext _ (fun e => cr (fst e) (snd e) p)).
    + lia.
    + intros e _. apply (cr_diag sx sy v f Hx Hy Hf).
Qed.

(* ------------------------------------------------------------------ *)
(* 3. the mirror (x, y) -> (-x, y): the winding number changes sign    *)
(* ------------------------------------------------------------------ *)
Definition mirror (v : point) : point := (- px v, py v).

(* the crossing rule seen in the mirror: half-open on the other side *)
Definition crm (xa xb xp o : Q) : Z :=
  if Qle_bool xp xa && negb (Qle_bool xp xb) then (if negb (Qle_bool o 0) then (-1)%Z else 0%Z)
  else if Qle_bool xp xb && negb (Qle_bool xp xa) then (if negb (Qle_bool 0 o) then 1%Z else 0%Z)
  else 0%Z.
(* v is straight above p *)
Definition ab (xv yv xp yp : Q) : Z :=
  if Qle_bool xv xp && Qle_bool xp xv && negb (Qle_bool yv yp) then 1%Z else 0%Z.
Definition above (p v : point) : Z := ab (px v) (py v) (px p) (py p).

Lemma above_peq p a b : peq a b -> above p a = above p b.
Proof.
  intros [H1 H2]. unfold above, ab.
  rewrite (Winding.Qle_bool_ext (px a) (px p) (px b) (px p)) by (rewrite H1; tauto).
  rewrite (Winding.Qle_bool_ext (px p) (px a) (px p) (px b)) by (rewrite H1; tauto).
  rewrite (Winding.Qle_bool_ext (py a) (py p) (py b) (py p)) by (rewrite H2; tauto).
  reflexivity.
Qed.

Lemma orient_mirror a b p : orient (mirror a) (mirror b) (mirror p) == - orient a b p.
Proof. rewrite !orient_expand. unfold mirror, px, py; cbn [fst snd]. ring. Qed.

Lemma crq_mirror xa xb xp o o' : o' == - o ->
  crq (- xa) (- xb) (- xp) o' = crm xa xb xp o.
Proof.
  intro H. unfold crq, crm, Qlt_bool.
  rewrite (Winding.Qle_bool_ext (- xa) (- xp) xp xa) by (split; intro; lra).
  rewrite (Winding.Qle_bool_ext (- xb) (- xp) xp xb) by (split; intro; lra).
  rewrite (Winding.Qle_bool_ext 0 o' o 0) by (rewrite H; split; intro; lra).
  rewrite (Winding.Qle_bool_ext o' 0 0 o) by (rewrite H; split; intro; lra).
  reflexivity.
Qed.

Lemma M_abs xa ya xb yb xp yp o :
  o == (xb - xa) * (yp - ya) - (yb - ya) * (xp - xa) ->
  (o == 0 -> (xa < xp /\ xb < xp) \/ (xp < xa /\ xp < xb) \/
             (ya < yp /\ yb < yp) \/ (yp < ya /\ yp < yb)) ->
  (crm xa xb xp o + crq xa xb xp o)%Z = (ab xb yb xp yp - ab xa ya xp yp)%Z.
Proof.
  intros Ho Hoff. unfold crm, crq, ab, Qlt_bool.
  dq; cbn [andb negb]; try reflexivity; exfalso; qb;
    first [ lra | nra
          | (assert (O0 : o == 0) by nra);
            destruct (Hoff O0) as [[? ?]|[[? ?]|[[? ?]|[? ?]]]]; first [lra | nra] ].
Qed.

Lemma cr_mirror_above a b p : on_edge a b p = false ->
  (cr (mirror a) (mirror b) (mirror p) + cr a b p = above p b - above p a)%Z.
Proof.
  intro H. rewrite !cr_crq.
  change (px (mirror a)) with (- px a). change (px (mirror b)) with (- px b).
  change (px (mirror p)) with (- px p).
  rewrite (crq_mirror (px a) (px b) (px p) (orient a b p) _ (orient_mirror a b p)).
  unfold above. apply M_abs.
  - apply orient_expand.
  - apply on_edge_false_inv. exact H.
Qed.

Lemma mirror_peq a b : peq a b -> peq (mirror a) (mirror b).
Proof.
  intros [H1 H2]. unfold mirror, peq, px, py in *; cbn [fst snd] in *.
  rewrite H1, H2. split; reflexivity.
Qed.

Lemma on_edge_mirror a b r : on_edge (mirror a) (mirror b) (mirror r) = on_edge a b r.
Proof.
  assert (B1 : betw (px (mirror a)) (px (mirror b)) (px (mirror r)) <-> betw (px a) (px b) (px r)).
  { change (px (mirror a)) with (- px a). change (px (mirror b)) with (- px b).
    change (px (mirror r)) with (- px r). unfold betw. split; intro; lra. }
  assert (B2 : betw (py (mirror a)) (py (mirror b)) (py (mirror r)) <-> betw (py a) (py b) (py r)).
  { change (py (mirror a)) with (py a). change (py (mirror b)) with (py b).
    change (py (mirror r)) with (py r). tauto. }
  assert (O : orient (mirror a) (mirror b) (mirror r) == 0 <-> orient a b r == 0).
  { rewrite orient_mirror. split; intro; lra. }
  destruct (on_edge a b r) eqn:E.
  - apply on_edge_iff in E. apply on_edge_iff. tauto.
  - destruct (on_edge (mirror a) (mirror b) (mirror r)) eqn:E'; [|reflexivity].
    apply on_edge_iff in E'.
    assert (on_edge a b r = true) by (apply on_edge_iff; tauto). congruence.
Qed.

Theorem wn_e_mirror el p : eclosed el -> off_e el p ->
  wn_e (emap mirror el) (mirror p) = (- wn_e el p)%Z.
Proof.
  intros [P HP] Hoff. rewrite wn_e_emap. unfold wn_e.
  enough (Zsum (map (fun e => cr (mirror (fst e)) (mirror (snd e)) (mirror p)) el)
          - Zsum (map (fun e => - cr (fst e) (snd e) p) el) = 0)%Z as HH.
  { assert (N : Zsum (map (fun e => - cr (fst e) (snd e) p) el)%Z
                = (- Zsum (map (fun e => cr (fst e) (snd e) p) el))%Z).
    { clear. induction el as [|e el IH]; cbn [map Zsum]; lia. }
    lia. }
  rewrite <- Zsum_map_sub.
  rewrite (Zsum_map_ext _ (fun e => above p (snd e) - above p (fst e))%Z).
  - rewrite (tele (above p) (above_peq p) el P P HP). lia.
  - intros e He. pose proof (cr_mirror_above (fst e) (snd e) p (Hoff e He)). lia.
Qed.

Lemma good_mirror : good (-1) mirror.
Proof.
  split; [|split].
  - exact mirror_peq.
  - exact on_edge_mirror.
  - intros el p HC Hoff. rewrite (wn_e_mirror el p HC Hoff). lia.
Qed.

(* ------------------------------------------------------------------ *)
(* 4. every matrix of positive determinant is a product of elementary  *)
(*    maps                                                             *)
(* ------------------------------------------------------------------ *)
(* linear part with positive (1,1) entry:  L . D . U  *)
Lemma good_lin_pos a b c d : 0 < a -> 0 < a * d - b * c -> good 1 (aff a b c d pzero).
Proof.
  intros Ha Hd.
  set (e := (a * d - b * c) / a).
  assert (He : 0 < e).
  { unfold e. apply Qlt_shift_div_l; [exact Ha | lra]. }
  apply (good_ext 1 _
    (fun p => shear (- (c / a)) (aff a 0 0 e pzero (rot (rot (rot (shear (b / a) (rot p)))))))).
  - change 1%Z with (1 * (1 * (1 * (1 * (1 * (1 * 1))))))%Z.
    apply (good_comp _ _ (fun p => aff a 0 0 e pzero (rot (rot (rot (shear (b / a) (rot p))))))
                         (shear (- (c / a)))); [|apply good_shear].
    apply (good_comp _ _ (fun p => rot (rot (rot (shear (b / a) (rot p)))))
                         (aff a 0 0 e pzero));
      [|apply (good_diag a e pzero); [exact Ha | exact He | apply aff_map_aff]].
    apply (good_comp _ _ (fun p => rot (rot (shear (b / a) (rot p)))) rot); [|apply good_rot].
    apply (good_comp _ _ (fun p => rot (shear (b / a) (rot p))) rot); [|apply good_rot].
    apply (good_comp _ _ (fun p => shear (b / a) (rot p)) rot); [|apply good_rot].
    apply (good_comp _ _ rot (shear (b / a))); [apply good_rot | apply good_shear].
  - intros [x y]. unfold e, shear, aff, rot, pzero, peq, px, py; cbn [fst snd].
    split; field; lra.
Qed.

(* the general orientation-preserving affine map *)
Theorem good_affine m11 m12 m21 m22 v f :
  aff_map m11 m12 m21 m22 v f -> 0 < adet m11 m12 m21 m22 -> good 1 f.
Proof.
  intros Hf Hd. unfold adet in Hd.
  assert (GT : good 1 (aff 1 0 0 1 v)).
  { apply (good_diag 1 1 v); [lra | lra | apply aff_map_aff]. }
  destruct (Q_dec 0 m11) as [[H|H]|H].
  - (* m11 > 0 *)
    apply (good_ext 1 _ (fun p => aff 1 0 0 1 v (aff m11 m12 m21 m22 pzero p))).
    + change 1%Z with (1 * 1)%Z.
      apply (good_comp _ _ (aff m11 m12 m21 m22 pzero) (aff 1 0 0 1 v)); [|exact GT].
      apply good_lin_pos; [exact H | lra].
    + intro p. apply (peq_trans _ _ _ (Hf p)).
      unfold aff, pzero, peq, px, py; cbn [fst snd]. split; ring.
  - (* m11 < 0: half turn *)
    apply (good_ext 1 _
      (fun p => aff 1 0 0 1 v (rot (rot (aff (- m11) (- m12) (- m21) (- m22) pzero p))))).
    + change 1%Z with (1 * (1 * (1 * 1)))%Z.
      apply (good_comp _ _ (fun p => rot (rot (aff (- m11) (- m12) (- m21) (- m22) pzero p)))
                           (aff 1 0 0 1 v)); [|exact GT].
      apply (good_comp _ _ (fun p => rot (aff (- m11) (- m12) (- m21) (- m22) pzero p)) rot);
        [|apply good_rot].
      apply (good_comp _ _ (aff (- m11) (- m12) (- m21) (- m22) pzero) rot); [|apply good_rot].
      apply good_lin_pos; lra.
    + intro p. apply (peq_trans _ _ _ (Hf p)).
      unfold aff, rot, pzero, peq, px, py; cbn [fst snd]. split; ring.
  - destruct (Q_dec 0 m21) as [[H'|H']|H'].
    + (* m21 > 0: one quarter turn *)
      apply (good_ext 1 _
        (fun p => aff 1 0 0 1 v (rot (aff m21 m22 (- m11) (- m12) pzero p)))).
      * change 1%Z with (1 * (1 * 1))%Z.
        apply (good_comp _ _ (fun p => rot (aff m21 m22 (- m11) (- m12) pzero p))
                             (aff 1 0 0 1 v)); [|exact GT].
        apply (good_comp _ _ (aff m21 m22 (- m11) (- m12) pzero) rot); [|apply good_rot].
        apply good_lin_pos; lra.
      * intro p. apply (peq_trans _ _ _ (Hf p)).
        unfold aff, rot, pzero, peq, px, py; cbn [fst snd]. split; ring.
    + (* m21 < 0: three quarter turns *)
      apply (good_ext 1 _
        (fun p => aff 1 0 0 1 v (rot (rot (rot (aff (- m21) (- m22) m11 m12 pzero p)))))).
      * change 1%Z with (1 * (1 * (1 * (1 * 1))))%Z.
        apply (good_comp _ _ (fun p => rot (rot (rot (aff (- m21) (- m22) m11 m12 pzero p))))
                             (aff 1 0 0 1 v)); [|exact GT].
        apply (good_comp _ _ (fun p => rot (rot (aff (- m21) (- m22) m11 m12 pzero p))) rot);
          [|apply good_rot].
        apply (good_comp _ _ (fun p => rot (aff (- m21) (- m22) m11 m12 pzero p)) rot);
          [|apply good_rot].
        apply (good_comp _ _ (aff (- m21) (- m22) m11 m12 pzero) rot); [|apply good_rot].
        apply good_lin_pos; lra.
      * intro p. apply (peq_trans _ _ _ (Hf p)).
        unfold aff, rot, pzero, peq, px, py; cbn [fst snd]. split; ring.
    + exfalso. rewrite <- H, <- H' in Hd. lra.
Qed.

(* the general orientation-reversing affine map *)
Theorem anti_affine m11 m12 m21 m22 v f :
  aff_map m11 m12 m21 m22 v f -> adet m11 m12 m21 m22 < 0 -> good (-1) f.
Proof.
  intros Hf Hd.
  apply (good_ext (-1) _ (fun p => aff (- m11) m12 (- m21) m22 v (mirror p))).
  - change (-1)%Z with (1 * -1)%Z.
    apply (good_comp _ _ mirror (aff (- m11) m12 (- m21) m22 v)); [apply good_mirror|].
    apply (good_affine (- m11) m12 (- m21) m22 v); [apply aff_map_aff|].
    unfold adet in *. lra.
  - intro p. apply (peq_trans _ _ _ (Hf p)).
    unfold aff, mirror, peq, px, py; cbn [fst snd]. split; ring.
Qed.

(* ------------------------------------------------------------------ *)
(* 5. chains of segments (arbitrary non-empty control-point lists:     *)
(*    only first_pt / last_pt matter)                                  *)
(* ------------------------------------------------------------------ *)
Lemma edges_map_ne f j : nonempty_segs j -> edges (map (map f) j) = emap f (edges j).
Proof.
  intro Hne. unfold edges, emap. rewrite !map_map. apply map_ext_in. intros s Hs.
  unfold edge_of. cbn [fst snd].
  rewrite Equivariance.first_pt_map, Equivariance.last_pt_map by (apply Hne; exact Hs).
  reflexivity.
Qed.

Section GoodLists.
Variable sgn : Z.
Variable f : point -> point.
Hypothesis Hf : good sgn f.

Lemma on_edge_good a b p : on_edge (f a) (f b) (f p) = on_edge a b p.
Proof. destruct Hf as (_ & E & _). apply E. Qed.

Lemma on_boundary_good j p : nonempty_segs j ->
  on_boundary (map (map f) j) (f p) = on_boundary j p.
Proof.
  intro Hne. unfold on_boundary. induction j as [|s j IH]; [reflexivity|].
  apply nonempty_cons in Hne. destruct Hne as [Hs Hj].
  cbn [map existsb]. rewrite (IH Hj). f_equal.
  rewrite Equivariance.first_pt_map, Equivariance.last_pt_map by exact Hs.
  apply on_edge_good.
Qed.

Lemma wn_lines_good j p : nonempty_segs j -> closed_chain j = true ->
  on_boundary j p = false ->
  wn_lines (map (map f) j) (f p) = (sgn * wn_lines j p)%Z.
Proof.
  intros Hne HC HB. rewrite !wn_lines_edges, (edges_map_ne f j Hne).
  destruct Hf as (_ & _ & W). apply W.
  - apply closed_chain_eclosed. exact HC.
  - apply on_boundary_off. exact HB.
Qed.
End GoodLists.

(* on_edge / on_boundary: every invertible affine map *)
Theorem on_edge_affine m11 m12 m21 m22 v f : aff_map m11 m12 m21 m22 v f ->
  ~ adet m11 m12 m21 m22 == 0 ->
  forall a b p, on_edge (f a) (f b) (f p) = on_edge a b p.
Proof.
  intros Hf Hd a b p. destruct (Q_dec 0 (adet m11 m12 m21 m22)) as [[H|H]|H].
  - apply (on_edge_good 1 f (good_affine _ _ _ _ _ _ Hf H)).
  - apply (on_edge_good (-1) f (anti_affine _ _ _ _ _ _ Hf H)).
  - exfalso. apply Hd. symmetry. exact H.
Qed.

Theorem on_boundary_affine m11 m12 m21 m22 v f : aff_map m11 m12 m21 m22 v f ->
  ~ adet m11 m12 m21 m22 == 0 ->
  forall j p, nonempty_segs j -> on_boundary (map (map f) j) (f p) = on_boundary j p.
Proof.
  intros Hf Hd j p Hne. destruct (Q_dec 0 (adet m11 m12 m21 m22)) as [[H|H]|H].
  - apply (on_boundary_good 1 f (good_affine _ _ _ _ _ _ Hf H) j p Hne).
  - apply (on_boundary_good (-1) f (anti_affine _ _ _ _ _ _ Hf H) j p Hne).
  - exfalso. apply Hd. symmetry. exact H.
Qed.

(* the winding number: preserved for det > 0, negated for det < 0 *)
Theorem wn_lines_affine m11 m12 m21 m22 v f j p : aff_map m11 m12 m21 m22 v f ->
  0 < adet m11 m12 m21 m22 -> nonempty_segs j -> closed_chain j = true ->
  on_boundary j p = false ->
  wn_lines (map (map f) j) (f p) = wn_lines j p.
Proof.
  intros Hf Hd Hne HC HB.
  rewrite (wn_lines_good 1 f (good_affine _ _ _ _ _ _ Hf Hd) j p Hne HC HB). lia.
Qed.

Theorem wn_lines_affine_neg m11 m12 m21 m22 v f j p : aff_map m11 m12 m21 m22 v f ->
  adet m11 m12 m21 m22 < 0 -> nonempty_segs j -> closed_chain j = true ->
  on_boundary j p = false ->
  wn_lines (map (map f) j) (f p) = (- wn_lines j p)%Z.
Proof.
  intros Hf Hd Hne HC HB.
  rewrite (wn_lines_good (-1) f (anti_affine _ _ _ _ _ _ Hf Hd) j p Hne HC HB). lia.
Qed.

(* the quarter turn of Constancy.v without the [all_lines] hypothesis *)
Corollary wn_lines_rot_ne j p : nonempty_segs j -> closed_chain j = true ->
  on_boundary j p = false ->
  wn_lines (map (map rot) j) (rot p) = wn_lines j p.
Proof.
  intros Hne HC HB. rewrite (wn_lines_good 1 rot good_rot j p Hne HC HB). lia.
Qed.

(* ------------------------------------------------------------------ *)
(* 6. region_simple                                                    *)
(* ------------------------------------------------------------------ *)
Theorem region_simple_affine : forall m11 m12 m21 m22 v f j p,
  aff_map m11 m12 m21 m22 v f -> 0 < adet m11 m12 m21 m22 ->
  nonempty_segs j -> closed_chain j = true ->
  region_simple (map (map f) j) (f p) = region_simple j p.
Proof.
  intros m11 m12 m21 m22 v f j p Hf Hd Hne HC. unfold region_simple.
  pose proof (good_affine _ _ _ _ _ _ Hf Hd) as G.
  rewrite (on_boundary_good 1 f G j p Hne).
  destruct (on_boundary j p) eqn:B; [reflexivity|].
  rewrite (wn_lines_affine _ _ _ _ _ _ j p Hf Hd Hne HC B).
  assert (S : Qlt_bool 0 (shoelace2 (map (map f) j)) = Qlt_bool 0 (shoelace2 j)).
  { apply Qlt_bool_ext. rewrite (shoelace2_aff_map _ _ _ _ _ _ Hf j Hne HC).
    apply pos_mul_le0. exact Hd. }
  rewrite S. reflexivity.
Qed.

(* orientation-reversing maps: the image curve runs the other way round, and in
   the convention of [region_simple] (a negatively oriented curve denotes the
   complement of what it encloses) In and Out are exchanged *)
Definition reg_flip (r : reg) : reg :=
  match r with RIn => ROut | ROut => RIn | RBdry => RBdry | RUndef => RUndef end.

Theorem region_simple_affine_neg : forall m11 m12 m21 m22 v f j p,
  aff_map m11 m12 m21 m22 v f -> adet m11 m12 m21 m22 < 0 ->
  nonempty_segs j -> closed_chain j = true -> ~ shoelace2 j == 0 ->
  region_simple (map (map f) j) (f p) = reg_flip (region_simple j p).
Proof.
  intros m11 m12 m21 m22 v f j p Hf Hd Hne HC HS. unfold region_simple.
  pose proof (anti_affine _ _ _ _ _ _ Hf Hd) as G.
  rewrite (on_boundary_good (-1) f G j p Hne).
  destruct (on_boundary j p) eqn:B; [reflexivity|].
  rewrite (wn_lines_affine_neg _ _ _ _ _ _ j p Hf Hd Hne HC B).
  pose proof (shoelace2_aff_map _ _ _ _ _ _ Hf j Hne HC) as SH.
  set (d := adet m11 m12 m21 m22) in *. set (A := shoelace2 j) in *.
  set (A' := shoelace2 (map (map f) j)) in *. set (w := wn_lines j p).
  unfold Qlt_bool.
  destruct (Qle_bool A' 0) eqn:E1; destruct (Qle_bool A 0) eqn:E2; cbn [negb]; qb.
  - exfalso. nra.
  - destruct (w =? 1)%Z eqn:W1; [apply Z.eqb_eq in W1; rewrite W1; reflexivity|].
    destruct (w =? 0)%Z eqn:W0; [apply Z.eqb_eq in W0; rewrite W0; reflexivity|].
    apply Z.eqb_neq in W1. apply Z.eqb_neq in W0.
    destruct (- w =? 0)%Z eqn:V0; [apply Z.eqb_eq in V0; lia|].
    destruct (- w =? -1)%Z eqn:V1; [apply Z.eqb_eq in V1; lia|]. reflexivity.
  - destruct (w =? 0)%Z eqn:W0; [apply Z.eqb_eq in W0; rewrite W0; reflexivity|].
    destruct (w =? -1)%Z eqn:W1; [apply Z.eqb_eq in W1; rewrite W1; reflexivity|].
    apply Z.eqb_neq in W1. apply Z.eqb_neq in W0.
    destruct (- w =? 1)%Z eqn:V1; [apply Z.eqb_eq in V1; lia|].
    destruct (- w =? 0)%Z eqn:V0; [apply Z.eqb_eq in V0; lia|]. reflexivity.
  - exfalso. nra.
Qed.

(* ---------- reversal of the direction of travel ---------- *)
(* [reverse j] is what JordanCurve.invert produces on straight-segment curves
   (Construct.invert_lines: all_lines j = true -> invert j = reverse j) *)
Definition reverse (j : jordan) : jordan := rev (map (@rev point) j).

Lemma first_pt_rev (s : seg) : first_pt (rev s) = last_pt s.
Proof.
  unfold first_pt, last_pt. induction s as [|a s IH]; [reflexivity|].
  destruct s as [|b s]; [reflexivity|].
  cbn [rev] in *. change (last (a :: b :: s) pzero) with (last (b :: s) pzero). rewrite <- IH.
  destruct (rev s ++ [b]) eqn:E; [destruct (rev s); discriminate | reflexivity].
Qed.
Lemma last_pt_rev (s : seg) : last_pt (rev s) = first_pt s.
Proof. rewrite <- (rev_involutive s) at 2. symmetry. apply first_pt_rev. Qed.

Lemma on_edge_swap a b p : on_edge b a p = on_edge a b p.
Proof.
  assert (O : orient b a p == 0 <-> orient a b p == 0).
  { rewrite (orient_swap a b p). split; intro; lra. }
  assert (BX : betw (px b) (px a) (px p) <-> betw (px a) (px b) (px p)) by (unfold betw; tauto).
  assert (BY : betw (py b) (py a) (py p) <-> betw (py a) (py b) (py p)) by (unfold betw; tauto).
  destruct (on_edge a b p) eqn:E.
  - apply on_edge_iff in E. apply on_edge_iff. tauto.
  - destruct (on_edge b a p) eqn:E'; [|reflexivity].
    apply on_edge_iff in E'.
    assert (on_edge a b p = true) by (apply on_edge_iff; tauto). congruence.
Qed.

Lemma existsb_rev {A} (g : A -> bool) l : existsb g (rev l) = existsb g l.
Proof.
  induction l as [|x l IH]; [reflexivity|]. cbn [rev existsb].
  rewrite existsb_app, IH. cbn [existsb]. rewrite orb_false_r. apply orb_comm.
Qed.

Lemma on_boundary_reverse j p : on_boundary (reverse j) p = on_boundary j p.
Proof.
  unfold on_boundary, reverse. rewrite existsb_rev.
  induction j as [|s j IH]; [reflexivity|]. cbn [map existsb].
  rewrite IH, first_pt_rev, last_pt_rev, on_edge_swap. reflexivity.
Qed.

Lemma wn_lines_reverse j p : wn_lines (reverse j) p = (- wn_lines j p)%Z.
Proof.
  unfold wn_lines, reverse. rewrite map_rev, Zsum_rev, map_map.
  induction j as [|s j IH]; [reflexivity|]. cbn [map Zsum].
  rewrite IH, first_pt_rev, last_pt_rev, (cr_antisym (first_pt s) (last_pt s) p). lia.
Qed.

Lemma Qsum_rev' l : Qsum (rev l) == Qsum l.
Proof.
  induction l as [|x l IH]; [reflexivity|]. cbn [rev].
  assert (A : forall l m, Qsum (l ++ m) == Qsum l + Qsum m).
  { clear. induction l as [|y l IH]; intro m; cbn [app Qsum]; [ring | rewrite IH; ring]. }
  rewrite A, IH. cbn [Qsum]. ring.
Qed.

Lemma shoelace2_reverse j : shoelace2 (reverse j) == - shoelace2 j.
Proof.
  unfold shoelace2, reverse. rewrite map_rev, Qsum_rev', map_map.
  induction j as [|s j IH]; [reflexivity|]. cbn [map Qsum].
  rewrite IH, first_pt_rev, last_pt_rev. unfold cross. ring.
Qed.

Lemma reg_flip_invol r : reg_flip (reg_flip r) = r.
Proof. destruct r; reflexivity. Qed.

(* running round a curve the other way exchanges In and Out *)
Theorem region_simple_reverse j p : ~ shoelace2 j == 0 ->
  region_simple (reverse j) p = reg_flip (region_simple j p).
Proof.
  intro HS. unfold region_simple.
  rewrite on_boundary_reverse, wn_lines_reverse.
  destruct (on_boundary j p); [reflexivity|].
  pose proof (shoelace2_reverse j) as SH.
  set (A := shoelace2 j) in *. set (A' := shoelace2 (reverse j)) in *.
  set (w := wn_lines j p).
  unfold Qlt_bool.
  destruct (Qle_bool A' 0) eqn:E1; destruct (Qle_bool A 0) eqn:E2; cbn [negb]; qb.
  - exfalso. apply HS. lra.
  - destruct (w =? 1)%Z eqn:W1; [apply Z.eqb_eq in W1; rewrite W1; reflexivity|].
    destruct (w =? 0)%Z eqn:W0; [apply Z.eqb_eq in W0; rewrite W0; reflexivity|].
    apply Z.eqb_neq in W1. apply Z.eqb_neq in W0.
    destruct (- w =? 0)%Z eqn:V0; [apply Z.eqb_eq in V0; lia|].
    destruct (- w =? -1)%Z eqn:V1; [apply Z.eqb_eq in V1; lia|]. reflexivity.
  - destruct (w =? 0)%Z eqn:W0; [apply Z.eqb_eq in W0; rewrite W0; reflexivity|].
    destruct (w =? -1)%Z eqn:W1; [apply Z.eqb_eq in W1; rewrite W1; reflexivity|].
    apply Z.eqb_neq in W1. apply Z.eqb_neq in W0.
    destruct (- w =? 1)%Z eqn:V1; [apply Z.eqb_eq in V1; lia|].
    destruct (- w =? 0)%Z eqn:V0; [apply Z.eqb_eq in V0; lia|]. reflexivity.
  - exfalso. lra.
Qed.

(* the reflected region: reflect the points AND reverse the direction of travel *)
Theorem region_simple_reflect : forall m11 m12 m21 m22 v f j p,
  aff_map m11 m12 m21 m22 v f -> adet m11 m12 m21 m22 < 0 ->
  nonempty_segs j -> closed_chain j = true -> ~ shoelace2 j == 0 ->
  region_simple (reverse (map (map f) j)) (f p) = region_simple j p.
Proof.
  intros m11 m12 m21 m22 v f j p Hf Hd Hne HC HS.
  rewrite region_simple_reverse.
  - rewrite (region_simple_affine_neg _ _ _ _ _ _ j p Hf Hd Hne HC HS). apply reg_flip_invol.
  - rewrite (shoelace2_aff_map _ _ _ _ _ _ Hf j Hne HC). intro E.
    apply Qmult_integral in E. destruct E as [E|E]; [lra | exact (HS E)].
Qed.

(* ------------------------------------------------------------------ *)
(* 7. shapes                                                           *)
(* ------------------------------------------------------------------ *)
Section ShapeLift.
Variable f : point -> point.
Hypothesis Hsimple : forall j p, nonempty_segs j -> closed_chain j = true ->
  region_simple (map (map f) j) (f p) = region_simple j p.

Lemma region_comp_lift : forall c p, chains_ok (comp_jordans c) ->
  region_comp (comp_map (map (map f)) c) (f p) = region_comp c p.
Proof.
  intros [j|js] p H; cbn [region_comp comp_map].
  - destruct (H j (or_introl eq_refl)) as [Hn Hc]. apply Hsimple; assumption.
  - cbn [comp_jordans] in H. induction js as [|j js IH]; [reflexivity|].
    cbn [map fold_right]. rewrite IH by (intros j' Hj'; apply H; right; exact Hj').
    destruct (H j (or_introl eq_refl)) as [Hn Hc].
    rewrite (Hsimple j p Hn Hc). reflexivity.
Qed.

Lemma region_lift : forall s p, chains_ok (jordans s) ->
  region (map_points f s) (f p) = region s p.
Proof.
  intros s p H. rewrite map_points_shape_map.
  destruct s as [| |c|cs]; cbn [region shape_map]; try reflexivity.
  - apply region_comp_lift. exact H.
  - cbn [jordans] in H. induction cs as [|c cs IH]; [reflexivity|].
    cbn [map fold_right]. rewrite IH.
    + rewrite region_comp_lift; [reflexivity|].
      intros j Hj. apply H. cbn [map concat]. apply in_or_app. left. exact Hj.
    + intros j Hj. apply H. cbn [map concat]. apply in_or_app. right. exact Hj.
Qed.
End ShapeLift.

Theorem region_affine : forall m11 m12 m21 m22 v f s p,
  aff_map m11 m12 m21 m22 v f -> 0 < adet m11 m12 m21 m22 ->
  chains_ok (jordans s) ->
  region (map_points f s) (f p) = region s p.
Proof.
  intros m11 m12 m21 m22 v f s p Hf Hd H. apply region_lift; [|exact H].
  intros j q Hn Hc. apply (region_simple_affine _ _ _ _ _ _ j q Hf Hd Hn Hc).
Qed.

(* the exact affine maps themselves *)
Corollary region_aff : forall m11 m12 m21 m22 v s p, 0 < adet m11 m12 m21 m22 ->
  chains_ok (jordans s) ->
  region (map_points (aff m11 m12 m21 m22 v) s) (aff m11 m12 m21 m22 v p) = region s p.
Proof. intros. apply (region_affine _ _ _ _ _ _ s p (aff_map_aff _ _ _ _ _)); assumption. Qed.

(* the model's own transformations *)
Corollary region_simple_rot_pt : forall c s j p, c * c + s * s == 1 ->
  nonempty_segs j -> closed_chain j = true ->
  region_simple (map (map (rot_pt c s)) j) (rot_pt c s p) = region_simple j p.
Proof.
  intros c s j p H Hn Hc.
  apply (region_simple_affine _ _ _ _ _ _ j p (aff_map_rot_pt c s)); try assumption.
  rewrite (adet_rotate c s H). lra.
Qed.

Corollary region_rot_pt : forall c s sh p, c * c + s * s == 1 -> chains_ok (jordans sh) ->
  region (map_points (rot_pt c s) sh) (rot_pt c s p) = region sh p.
Proof.
  intros c s sh p H Hok.
  apply (region_affine _ _ _ _ _ _ sh p (aff_map_rot_pt c s)); [|exact Hok].
  rewrite (adet_rotate c s H). lra.
Qed.

(* rotate by a non-normalised pair (c, s) /= (0, 0): a rotation composed with
   the uniform scaling by sqrt (c^2 + s^2) -- still orientation preserving *)
Corollary region_rot_pt_similarity : forall c s sh p, 0 < c * c + s * s ->
  chains_ok (jordans sh) ->
  region (map_points (rot_pt c s) sh) (rot_pt c s p) = region sh p.
Proof.
  intros c s sh p H Hok.
  apply (region_affine _ _ _ _ _ _ sh p (aff_map_rot_pt c s)); [|exact Hok].
  unfold adet. lra.
Qed.

Corollary region_move_pt' : forall v sh p, chains_ok (jordans sh) ->
  region (map_points (move_pt v) sh) (move_pt v p) = region sh p.
Proof.
  intros v sh p Hok.
  apply (region_affine _ _ _ _ _ _ sh p (diag_move_pt v)); [|exact Hok].
  rewrite adet_translate. lra.
Qed.

(* scale_pt with two negative factors is a half turn composed with a positive
   scaling: the determinant is what matters *)
Corollary region_scale_pt' : forall sx sy sh p, 0 < sx * sy -> chains_ok (jordans sh) ->
  region (map_points (scale_pt sx sy) sh) (scale_pt sx sy p) = region sh p.
Proof.
  intros sx sy sh p H Hok.
  apply (region_affine _ _ _ _ _ _ sh p (diag_scale_pt sx sy)); [|exact Hok].
  rewrite adet_scale2. exact H.
Qed.

(* a scaling with exactly one negative factor is a reflection *)
Corollary region_simple_scale_pt_neg : forall sx sy j p, sx * sy < 0 ->
  nonempty_segs j -> closed_chain j = true -> ~ shoelace2 j == 0 ->
  region_simple (map (map (scale_pt sx sy)) j) (scale_pt sx sy p)
  = reg_flip (region_simple j p).
Proof.
  intros sx sy j p H Hn Hc HS.
  apply (region_simple_affine_neg _ _ _ _ _ _ j p (diag_scale_pt sx sy)); try assumption.
  rewrite adet_scale2. exact H.
Qed.

(* ------------------------------------------------------------------ *)
(* 8. non-vacuity                                                      *)
(* ------------------------------------------------------------------ *)
(* the L-shaped hexagon turned by the angle with cos = 3/5, sin = 4/5 *)
Example Lshape_rotated :
  region (map_points (rot_pt (3 # 5) (4 # 5)) Lshape) (rot_pt (3 # 5) (4 # 5) (1 # 2, 3 # 2)) = RIn /\
  region (map_points (rot_pt (3 # 5) (4 # 5)) Lshape) (rot_pt (3 # 5) (4 # 5) (2, 3 # 2)) = ROut /\
  region (map_points (rot_pt (3 # 5) (4 # 5)) Lshape) (rot_pt (3 # 5) (4 # 5) (1, 3 # 2)) = RBdry.
Proof.
  assert (H : (3 # 5) * (3 # 5) + (4 # 5) * (4 # 5) == 1) by reflexivity.
  rewrite !(region_rot_pt (3 # 5) (4 # 5) Lshape _ H Lshape_chains_ok).
  vm_compute. repeat split; reflexivity.
Qed.

(* the same three answers by evaluation: the theorem and the computation agree *)
Example Lshape_rotated_computed :
  region (map_points (rot_pt (3 # 5) (4 # 5)) Lshape) (rot_pt (3 # 5) (4 # 5) (1 # 2, 3 # 2)) = RIn /\
  region (map_points (rot_pt (3 # 5) (4 # 5)) Lshape) (rot_pt (3 # 5) (4 # 5) (2, 3 # 2)) = ROut /\
  region (map_points (rot_pt (3 # 5) (4 # 5)) Lshape) (rot_pt (3 # 5) (4 # 5) (1, 3 # 2)) = RBdry.
Proof. vm_compute. repeat split; reflexivity. Qed.

(* a general orientation-preserving map that is neither a rotation nor diagonal,
   with m11 = 0 (the quarter-turn branch of the decomposition) *)
Example Lshape_sheared :
  region (map_points (aff 0 (-2) 3 1 (7, -1)) Lshape) (aff 0 (-2) 3 1 (7, -1) (1 # 2, 3 # 2)) = RIn.
Proof.
  rewrite region_aff; [vm_compute; reflexivity | reflexivity | exact Lshape_chains_ok].
Qed.

(* a reflection turns the positively oriented hexagon into a negatively oriented
   one, which denotes the complement: In and Out are exchanged *)
Example Lhex_mirrored :
  region_simple (map (map (scale_pt (-1) 1)) Lhex) (scale_pt (-1) 1 (1 # 2, 3 # 2)) = ROut /\
  region_simple Lhex (1 # 2, 3 # 2) = RIn /\
  region_simple (map (map (scale_pt (-1) 1)) Lhex) (scale_pt (-1) 1 (2, 3 # 2)) = RIn /\
  region_simple Lhex (2, 3 # 2) = ROut.
Proof.
  assert (Hn : nonempty_segs Lhex) by (apply all_lines_nonempty; apply Lshape_hyps).
  assert (Hc : closed_chain Lhex = true) by apply Lshape_hyps.
  assert (HS : ~ shoelace2 Lhex == 0) by (intro E; vm_compute in E; discriminate).
  rewrite !(region_simple_scale_pt_neg (-1) 1 Lhex _ eq_refl Hn Hc HS).
  vm_compute. repeat split; reflexivity.
Qed.

(* ... and reversing the direction of travel as well gives the reflected region *)
Example Lhex_reflected :
  region_simple (reverse (map (map (scale_pt (-1) 1)) Lhex)) (scale_pt (-1) 1 (1 # 2, 3 # 2)) = RIn /\
  region_simple (reverse (map (map (scale_pt (-1) 1)) Lhex)) (scale_pt (-1) 1 (2, 3 # 2)) = ROut.
Proof.
  assert (Hn : nonempty_segs Lhex) by (apply all_lines_nonempty; apply Lshape_hyps).
  assert (Hc : closed_chain Lhex = true) by apply Lshape_hyps.
  assert (HS : ~ shoelace2 Lhex == 0) by (intro E; vm_compute in E; discriminate).
  assert (Hd : adet (-1) 0 0 1 < 0) by reflexivity.
  rewrite !(region_simple_reflect _ _ _ _ _ _ Lhex _ (diag_scale_pt (-1) 1) Hd Hn Hc HS).
  vm_compute. split; reflexivity.
Qed.

Print Assumptions good_affine.
Print Assumptions anti_affine.
Print Assumptions on_edge_affine.
Print Assumptions on_boundary_affine.
Print Assumptions wn_lines_affine.
Print Assumptions wn_lines_affine_neg.
Print Assumptions wn_lines_rot_ne.
Print Assumptions region_simple_affine.
Print Assumptions region_simple_affine_neg.
Print Assumptions region_simple_reverse.
Print Assumptions region_simple_reflect.
Print Assumptions region_affine.
Print Assumptions region_aff.
Print Assumptions region_simple_rot_pt.
Print Assumptions region_rot_pt.
Print Assumptions region_rot_pt_similarity.
Print Assumptions region_move_pt'.
Print Assumptions region_scale_pt'.
Print Assumptions region_simple_scale_pt_neg.
Print Assumptions Lshape_rotated.
Print Assumptions Lshape_sheared.
Print Assumptions Lhex_mirrored.
Print Assumptions Lhex_reflected.
