(* QuadCurved.v -- the open Newton-Cotes rule of IntegratePlanar.vertical on
   CURVED Bezier segments.  Since the repair of F29 the rule uses
   n = vertical_nodes d ex ey = max(3+ex+ey+d, d*(ex+ey+1)) nodes on a segment of
   degree d, and the polynomial x(t)^ex * y(t)^ey * y'(t) has at most d*(ex+ey+1)
   coefficients: the rule is exact for EVERY exponent pair, as long as n stays
   within the 19-node table of Quadrature.nc_poly_exact (section 5).  Section 6:
   areas up to degree 9, moments of order <= 4 for cubic and <= 7 for quadratic
   boundaries.  Section 8: when n is odd the (symmetric) rule gains one degree (a
   fact about the rule, no longer needed).  Section 9: the rule BEFORE the repair
   (vertical_old, 3+ex+ey+d nodes) was exact only for (d-1)*(ex+ey) <= 3; the
   machine-checked failures just outside that bound (cubic with ex = 2 and ex = 3,
   sextic area) are kept as regression examples, each paired with the exactness
   of the repaired rule on the same segment; a parabola cap of area 4/3.

   Range of the statements:
   - the polynomial form of eval (seg_px_poly / seg_py_poly): EVERY segment;
   - the derivative (eval (derivate s) = formal derivative): degrees 1..16,
     which is everything the hypotheses of vertical_curved_exact allow
     (3+ex+ey+degree <= vertical_nodes <= 19 forces degree <= 16), so the
     theorems below carry no extra degree hypothesis;
   - "seg_px_poly is the Bernstein polynomial of the control points": degrees
     1..6 (from BezierFacts.eval_bernstein_le6). *)
From SV Require Import Model.Shape Spec.Spec Lemmas.BezierFacts Lemmas.Quadrature.
From Coq Require Import Lqa Lia.
Open Scope Q_scope.

(* ------------------------------------------------------------------ *)
(* 1. Horner on coefficient lists                                      *)
(* ------------------------------------------------------------------ *)

(* Math.horner_method on one coordinate *)
Definition hornerQ (t : Q) (l : list Q) (acc : Q) : Q :=
  fold_left (fun v c => t * v + c) l acc.

Lemma horner_fold_px : forall t cs acc,
  px (fold_left (fun v c => padd (pscale t v) c) cs acc) = hornerQ t (map px cs) (px acc).
Proof.
  intros t cs. induction cs as [|c cs IH]; intro acc; [reflexivity|].
  cbn [fold_left map]. unfold hornerQ in *. rewrite IH. reflexivity.
Qed.
Lemma horner_fold_py : forall t cs acc,
  py (fold_left (fun v c => padd (pscale t v) c) cs acc) = hornerQ t (map py cs) (py acc).
Proof.
  intros t cs. induction cs as [|c cs IH]; intro acc; [reflexivity|].
  cbn [fold_left map]. unfold hornerQ in *. rewrite IH. reflexivity.
Qed.

Lemma peval_app : forall p q x,
  peval (p ++ q) x == peval p x + Qpow x (length p) * peval q x.
Proof.
  intros p q x. induction p as [|a p IH]; cbn [app peval length Qpow]; [ring|].
  rewrite IH. ring.
Qed.

(* [a_n; ...; a_0] by Horner = the low-first polynomial [a_0; ...; a_n] *)
Lemma hornerQ_spec : forall t l acc,
  hornerQ t l acc == acc * Qpow t (length l) + peval (rev l) t.
Proof.
  intros t l. induction l as [|c l IH]; intro acc.
  - cbn. ring.
  - change (hornerQ t (c :: l) acc) with (hornerQ t l (t * acc + c)).
    rewrite IH. cbn [rev length Qpow]. rewrite peval_app, rev_length.
    cbn [peval]. ring.
Qed.

Lemma hornerQ_ext : forall t l l', Forall2 Qeq l l' ->
  forall acc acc', acc == acc' -> hornerQ t l acc == hornerQ t l' acc'.
Proof.
  intros t l l' H. induction H as [|a b l l' Hab _ IH]; intros acc acc' Hacc.
  - exact Hacc.
  - change (hornerQ t l (t * acc + a) == hornerQ t l' (t * acc' + b)).
    apply IH. rewrite Hacc, Hab. reflexivity.
Qed.

(* ------------------------------------------------------------------ *)
(* 2. the coordinate polynomials of a segment                          *)
(* ------------------------------------------------------------------ *)

(* canon s = np.dot(ctrlpoints, matrix) lists the coefficients high degree
   first; poly is low degree first *)
Definition seg_px_poly (s : seg) : poly := rev (map px (canon s)).
Definition seg_py_poly (s : seg) : poly := rev (map py (canon s)).

Lemma length_canon : forall s, length (canon s) = S (degree s).
Proof. intro s. unfold canon. rewrite map_length, seq_length. reflexivity. Qed.
Lemma length_seg_px_poly : forall s, length (seg_px_poly s) = S (degree s).
Proof. intro s. unfold seg_px_poly. rewrite rev_length, map_length. apply length_canon. Qed.
Lemma length_seg_py_poly : forall s, length (seg_py_poly s) = S (degree s).
Proof. intro s. unfold seg_py_poly. rewrite rev_length, map_length. apply length_canon. Qed.
Lemma length_seg_px_poly' : forall s, s <> [] -> length (seg_px_poly s) = length s.
Proof.
  intros [|p s] H; [congruence|]. rewrite length_seg_px_poly. unfold degree.
  cbn [length]. lia.
Qed.
Lemma length_seg_py_poly' : forall s, s <> [] -> length (seg_py_poly s) = length s.
Proof.
  intros [|p s] H; [congruence|]. rewrite length_seg_py_poly. unfold degree.
  cbn [length]. lia.
Qed.

(* every segment, every degree *)
Theorem eval_px_poly : forall s t, px (eval s t) == peval (seg_px_poly s) t.
Proof.
  intros s t. unfold eval, horner, seg_px_poly. rewrite horner_fold_px, hornerQ_spec.
  cbn [px pzero fst]. ring.
Qed.
Theorem eval_py_poly : forall s t, py (eval s t) == peval (seg_py_poly s) t.
Proof.
  intros s t. unfold eval, horner, seg_py_poly. rewrite horner_fold_py, hornerQ_spec.
  cbn [py pzero snd]. ring.
Qed.

(* degrees 1..6: these are the Bernstein polynomials of the control points *)
Corollary seg_poly_bernstein : forall s t, (1 <= degree s <= 6)%nat ->
  peval (seg_px_poly s) t == px (bernstein s t) /\
  peval (seg_py_poly s) t == py (bernstein s t).
Proof.
  intros s t H. unfold degree in H.
  destruct (eval_bernstein_le6 s t) as [Hx Hy]; [lia|].
  rewrite <- eval_px_poly, <- eval_py_poly. split; assumption.
Qed.

(* ------------------------------------------------------------------ *)
(* 3. formal derivative                                                *)
(* ------------------------------------------------------------------ *)
Lemma length_pderiv_from : forall p k, length (pderiv_from k p) = length p.
Proof. induction p as [|c p IH]; intro k; cbn [pderiv_from length]; [|rewrite IH]; reflexivity. Qed.
Lemma length_pderiv : forall p, length (pderiv p) = (length p - 1)%nat.
Proof.
  intros [|c p]; [reflexivity|]. cbn [pderiv length]. rewrite length_pderiv_from. lia.
Qed.

Lemma pderiv_from_app : forall p k c,
  pderiv_from k (p ++ [c]) = pderiv_from k p ++ [nQ (k + length p) * c].
Proof.
  induction p as [|a p IH]; intros k c; cbn [app pderiv_from length].
  - rewrite Nat.add_0_r. reflexivity.
  - rewrite IH. replace (S k + length p)%nat with (k + S (length p))%nat by lia. reflexivity.
Qed.
Lemma pderiv_app : forall p c, p <> [] ->
  pderiv (p ++ [c]) = pderiv p ++ [nQ (length p) * c].
Proof.
  intros [|a p] c H; [congruence|]. cbn [app pderiv length]. apply pderiv_from_app.
Qed.

(* BezierFacts.dcoef on one coordinate *)
Fixpoint dcoefQ (l : list Q) : list Q :=
  match l with
  | [] => []
  | a :: t => match t with
              | [] => []
              | _ :: _ => nQ (length t) * a :: dcoefQ t
              end
  end.

Lemma map_py_dcoef : forall cs, map py (dcoef cs) = dcoefQ (map py cs).
Proof.
  induction cs as [|a [|b cs] IH]; [reflexivity|reflexivity|].
  change (dcoef (a :: b :: cs)) with (pscale (nQ (length (b :: cs))) a :: dcoef (b :: cs)).
  change (map py (a :: b :: cs)) with (py a :: map py (b :: cs)).
  cbn [map]. rewrite IH. cbn [map dcoefQ length]. rewrite map_length. reflexivity.
Qed.

Lemma rev_dcoefQ : forall l, rev (dcoefQ l) = pderiv (rev l).
Proof.
  induction l as [|a [|b l] IH]; [reflexivity|reflexivity|].
  change (dcoefQ (a :: b :: l)) with (nQ (length (b :: l)) * a :: dcoefQ (b :: l)).
  change (rev (a :: b :: l)) with (rev (b :: l) ++ [a]).
  cbn [rev] in *. rewrite IH, (pderiv_app (rev l ++ [b]) a).
  - rewrite app_length, rev_length. cbn [length].
    replace (length l + 1)%nat with (S (length l)) by lia. reflexivity.
  - intro E. apply (f_equal (@length Q)) in E. rewrite app_length in E. cbn in E. lia.
Qed.

(* the control points of the derivative have the formal derivative as canonical
   coefficients: a linear identity per coefficient, checked for lengths 2..17 *)
Lemma canon_derivate_dcoef : forall s, (2 <= length s <= 17)%nat ->
  Forall2 peq (canon (derivate s)) (dcoef (canon s)).
Proof.
  intros s H.
  do 18 (destruct s as [|[? ?] s];
         [ try (cbn [length] in H; lia);
           qcbv; repeat (apply Forall2_cons; [split; ring|]); apply Forall2_nil
         | ]).
  cbn [length] in H; lia.
Qed.

Lemma Forall2_peq_py : forall l l', Forall2 peq l l' -> Forall2 Qeq (map py l) (map py l').
Proof.
  intros l l' H. induction H as [|a b l l' [_ Hy] _ IH]; cbn [map]; constructor; assumption.
Qed.

Lemma map_px_dcoef : forall cs, map px (dcoef cs) = dcoefQ (map px cs).
Proof.
  induction cs as [|a [|b cs] IH]; [reflexivity|reflexivity|].
  change (dcoef (a :: b :: cs)) with (pscale (nQ (length (b :: cs))) a :: dcoef (b :: cs)).
  change (map px (a :: b :: cs)) with (px a :: map px (b :: cs)).
  cbn [map]. rewrite IH. cbn [map dcoefQ length]. rewrite map_length. reflexivity.
Qed.
Lemma Forall2_peq_px : forall l l', Forall2 peq l l' -> Forall2 Qeq (map px l) (map px l').
Proof.
  intros l l' H. induction H as [|a b l l' [Hx _] _ IH]; cbn [map]; constructor; assumption.
Qed.

Theorem eval_derivate_px_poly : forall s t, (1 <= degree s <= 16)%nat ->
  px (eval (derivate s) t) == peval (pderiv (seg_px_poly s)) t.
Proof.
  intros s t H. unfold degree in H.
  assert (HF : Forall2 peq (canon (derivate s)) (dcoef (canon s)))
    by (apply canon_derivate_dcoef; lia).
  unfold eval, horner. rewrite horner_fold_px.
  rewrite (hornerQ_ext t _ _ (Forall2_peq_px _ _ HF) _ _ (Qeq_refl _)).
  rewrite hornerQ_spec, map_px_dcoef, rev_dcoefQ. fold (seg_px_poly s).
  cbn [px pzero fst]. ring.
Qed.

Theorem eval_derivate_py_poly : forall s t, (1 <= degree s <= 16)%nat ->
  py (eval (derivate s) t) == peval (pderiv (seg_py_poly s)) t.
Proof.
  intros s t H. unfold degree in H.
  assert (HF : Forall2 peq (canon (derivate s)) (dcoef (canon s)))
    by (apply canon_derivate_dcoef; lia).
  unfold eval, horner. rewrite horner_fold_py.
  rewrite (hornerQ_ext t _ _ (Forall2_peq_py _ _ HF) _ _ (Qeq_refl _)).
  rewrite hornerQ_spec, map_py_dcoef, rev_dcoefQ. fold (seg_py_poly s).
  cbn [py pzero snd]. ring.
Qed.

(* ------------------------------------------------------------------ *)
(* 4. the integrand polynomial and its length                          *)
(* ------------------------------------------------------------------ *)
Definition curved_integrand (s : seg) (ex ey : nat) : poly :=
  poly_mul (poly_mul (poly_pow (seg_px_poly s) ex) (poly_pow (seg_py_poly s) ey))
           (pderiv (seg_py_poly s)).

Lemma length_poly_pow : forall p k, (1 <= length p)%nat ->
  (1 <= length (poly_pow p k) <= (length p - 1) * k + 1)%nat.
Proof.
  intros p k Hp. induction k as [|k IH]; cbn [poly_pow]; [simpl; lia|].
  split.
  - apply length_poly_mul_pos. exact Hp.
  - pose proof (length_poly_mul p (poly_pow p k) (proj1 IH)) as H.
    destruct IH as [_ IH].
    replace ((length p - 1) * S k)%nat with ((length p - 1) * k + (length p - 1))%nat by lia.
    lia.
Qed.

Lemma length_curved_integrand : forall s ex ey, (1 <= degree s)%nat ->
  (length (curved_integrand s ex ey) <= degree s * (ex + ey) + degree s)%nat.
Proof.
  intros s ex ey Hd. unfold curved_integrand.
  pose proof (length_seg_px_poly s) as LX. pose proof (length_seg_py_poly s) as LY.
  pose proof (length_poly_pow (seg_px_poly s) ex) as HX.
  pose proof (length_poly_pow (seg_py_poly s) ey) as HY.
  rewrite LX in HX. rewrite LY in HY.
  specialize (HX ltac:(lia)). specialize (HY ltac:(lia)).
  replace (S (degree s) - 1)%nat with (degree s) in HX, HY by lia.
  set (PX := poly_pow _ ex) in *. set (PY := poly_pow _ ey) in *.
  assert (HD : length (pderiv (seg_py_poly s)) = degree s)
    by (rewrite length_pderiv, LY; lia).
  pose proof (length_poly_mul PX PY (proj1 HY)) as H1.
  pose proof (length_poly_mul (poly_mul PX PY) (pderiv (seg_py_poly s))) as H2.
  rewrite HD in H2. specialize (H2 Hd).
  rewrite Nat.mul_add_distr_l. lia.
Qed.

(* ------------------------------------------------------------------ *)
(* 5. exactness of the rule on curved segments                         *)
(* ------------------------------------------------------------------ *)
(* the node count of the repaired rule *)
Lemma vertical_nodes_ge : forall d ex ey,
  (3 + ex + ey + d <= vertical_nodes d ex ey)%nat /\
  (d * (ex + ey) + d <= vertical_nodes d ex ey)%nat.
Proof.
  intros d ex ey. unfold vertical_nodes.
  replace (d * (ex + ey + 1))%nat with (d * (ex + ey) + d)%nat by lia. lia.
Qed.
(* where the old count was already enough, nothing changed *)
Lemma vertical_nodes_old : forall d ex ey,
  (d * (ex + ey) + d <= 3 + ex + ey + d)%nat ->
  vertical_nodes d ex ey = (3 + ex + ey + d)%nat.
Proof.
  intros d ex ey H. unfold vertical_nodes.
  replace (d * (ex + ey + 1))%nat with (d * (ex + ey) + d)%nat by lia. lia.
Qed.
Lemma vertical_nodes_old' : forall d ex ey, (1 <= d)%nat -> ((d - 1) * (ex + ey) <= 3)%nat ->
  vertical_nodes d ex ey = (3 + ex + ey + d)%nat.
Proof.
  intros d ex ey Hd H. apply vertical_nodes_old.
  destruct d as [|d]; [lia|]. replace (S d - 1)%nat with d in H by lia. lia.
Qed.
Lemma vertical_nodes_line : forall ex ey, vertical_nodes 1 ex ey = (ex + ey + 4)%nat.
Proof. intros ex ey. unfold vertical_nodes. lia. Qed.
(* fewer control points, fewer nodes *)
Lemma vertical_nodes_mono : forall d d' ex ey, (d' <= d)%nat ->
  (vertical_nodes d' ex ey <= vertical_nodes d ex ey)%nat.
Proof.
  intros d d' ex ey H. unfold vertical_nodes.
  pose proof (Nat.mul_le_mono_r d' d (ex + ey + 1) H). lia.
Qed.
(* the table of 19 nodes bounds the degree by 16 *)
Lemma vertical_nodes_degree : forall d ex ey, (vertical_nodes d ex ey <= 19)%nat -> (d <= 16)%nat.
Proof. intros d ex ey H. pose proof (vertical_nodes_ge d ex ey). lia. Qed.

Lemma vertical_curved_quad : forall s ex ey, (1 <= degree s <= 16)%nat ->
  vertical s ex ey ==
  quad (nc_w (vertical_nodes (degree s) ex ey)) (open_linspace (vertical_nodes (degree s) ex ey))
       (peval (curved_integrand s ex ey)).
Proof.
  intros s ex ey Hd. unfold vertical. rewrite Qred_correct.
  set (n := vertical_nodes (degree s) ex ey).
  change (quad (nc_w n) (open_linspace n)
            (fun t => Qpow (px (eval s t)) ex * Qpow (py (eval s t)) ey *
                      py (eval (derivate s) t))
          == quad (nc_w n) (open_linspace n) (peval (curved_integrand s ex ey))).
  apply quad_ext. intro t. unfold curved_integrand.
  rewrite !peval_mul, !peval_pow, eval_px_poly, eval_py_poly,
          (eval_derivate_py_poly s t Hd).
  reflexivity.
Qed.

(* EVERY exponent pair: the rule has at least as many nodes as the integrand has
   coefficients; the only bound left is the 19-node table *)
Theorem vertical_curved_exact : forall s ex ey,
  (1 <= degree s)%nat ->
  (vertical_nodes (degree s) ex ey <= 19)%nat ->
  vertical s ex ey == pint01 (curved_integrand s ex ey).
Proof.
  intros s ex ey Hd Hn.
  pose proof (vertical_nodes_ge (degree s) ex ey) as [G1 G2].
  rewrite vertical_curved_quad by lia.
  apply nc_poly_exact; [lia|].
  pose proof (length_curved_integrand s ex ey Hd). lia.
Qed.

(* the range that was exact before the repair: (degree-1)*(ex+ey) <= 3 *)
Corollary vertical_curved_exact' : forall s ex ey,
  (1 <= degree s)%nat -> ((degree s - 1) * (ex + ey) <= 3)%nat ->
  (3 + ex + ey + degree s <= 19)%nat ->
  vertical s ex ey == pint01 (curved_integrand s ex ey).
Proof.
  intros s ex ey Hd Hdeg Hn. apply vertical_curved_exact; [exact Hd|].
  rewrite (vertical_nodes_old' _ _ _ Hd Hdeg). exact Hn.
Qed.

(* a uniform bound D on the degree *)
Corollary vertical_curved_exact_le : forall D s ex ey,
  (1 <= degree s <= D)%nat -> (vertical_nodes D ex ey <= 19)%nat ->
  vertical s ex ey == pint01 (curved_integrand s ex ey).
Proof.
  intros D s ex ey Hd Hn. apply vertical_curved_exact; [lia|].
  pose proof (vertical_nodes_mono D (degree s) ex ey ltac:(lia)). lia.
Qed.

(* ------------------------------------------------------------------ *)
(* 6. areas and moments of curved shapes                               *)
(* ------------------------------------------------------------------ *)
(* area: max(4+d, 2d) nodes, inside the table for every degree <= 9 *)
Theorem area_curved_exact9 : forall j,
  (forall s, In s j -> (1 <= degree s <= 9)%nat) ->
  jordan_area j == Qsum (map (fun s => pint01 (curved_integrand s 1 0)) j).
Proof.
  intros j Hj. unfold jordan_area, jordan_vertical. rewrite Qred_correct.
  apply Qsum_map_ext. intros s Hs. specialize (Hj s Hs).
  apply (vertical_curved_exact_le 9); [exact Hj|vm_compute; lia].
Qed.
(* the ranges known before the repair *)
Corollary area_curved_exact : forall j,
  (forall s, In s j -> (1 <= degree s <= 4)%nat) ->
  jordan_area j == Qsum (map (fun s => pint01 (curved_integrand s 1 0)) j).
Proof. intros j Hj. apply area_curved_exact9. intros s Hs. specialize (Hj s Hs). lia. Qed.
Corollary area_curved_exact5 : forall j,
  (forall s, In s j -> (1 <= degree s <= 5)%nat) ->
  jordan_area j == Qsum (map (fun s => pint01 (curved_integrand s 1 0)) j).
Proof. intros j Hj. apply area_curved_exact9. intros s Hs. specialize (Hj s Hs). lia. Qed.

Definition edge_moment_curved (s : seg) (a b : nat) : Q :=
  pint01 (curved_integrand s (S a) b) / nQ (S a).
Definition jordan_moment_spec_curved (j : jordan) (a b : nat) : Q :=
  Qsum (map (fun s => edge_moment_curved s a b) j).
Definition moment_spec_curved (Sh : shape) (a b : nat) : Q :=
  Qsum (map (fun j => jordan_moment_spec_curved j a b) (jordans Sh)).

Lemma jordan_moment_curved_exact : forall j a b,
  (forall s, In s j -> (1 <= degree s)%nat /\ (vertical_nodes (degree s) (S a) b <= 19)%nat) ->
  jordan_vertical j (S a) b == Qsum (map (fun s => pint01 (curved_integrand s (S a) b)) j).
Proof.
  intros j a b Hj. unfold jordan_vertical. rewrite Qred_correct.
  apply Qsum_map_ext. intros s Hs. destruct (Hj s Hs) as (H1 & H2).
  apply vertical_curved_exact; assumption.
Qed.

(* general form: the node bound is stated per segment *)
Theorem moment_curved_exact_gen : forall Sh a b,
  (forall j s, In j (jordans Sh) -> In s j ->
     (1 <= degree s)%nat /\ (vertical_nodes (degree s) (S a) b <= 19)%nat) ->
  moment Sh a b ==
  Qsum (map (fun j => Qsum (map (fun s => pint01 (curved_integrand s (S a) b)) j))
            (jordans Sh)) / nQ (S a).
Proof.
  intros Sh a b H. unfold moment. rewrite Qred_correct.
  apply Qdiv_comp; [|reflexivity].
  apply Qsum_map_ext. intros j Hj. apply jordan_moment_curved_exact.
  intros s Hs. exact (H j s Hj Hs).
Qed.

(* (since the repair the general form needs no separate bound on a + b: same statement) *)
Theorem moment_curved_exact : forall Sh a b,
  (forall j s, In j (jordans Sh) -> In s j ->
     (1 <= degree s)%nat /\ (vertical_nodes (degree s) (S a) b <= 19)%nat) ->
  moment Sh a b ==
  Qsum (map (fun j => Qsum (map (fun s => pint01 (curved_integrand s (S a) b)) j))
            (jordans Sh)) / nQ (S a).
Proof. exact moment_curved_exact_gen. Qed.

Lemma moment_spec_curved_unfold : forall Sh a b,
  Qsum (map (fun j => Qsum (map (fun s => pint01 (curved_integrand s (S a) b)) j))
            (jordans Sh)) / nQ (S a) == moment_spec_curved Sh a b.
Proof.
  intros Sh a b.
  unfold moment_spec_curved, jordan_moment_spec_curved, edge_moment_curved.
  rewrite Qsum_map_div. apply Qsum_map_ext. intros j _.
  apply Qsum_map_div.
Qed.

Theorem moment_curved_spec : forall Sh a b,
  (forall j s, In j (jordans Sh) -> In s j ->
     (1 <= degree s)%nat /\ (vertical_nodes (degree s) (S a) b <= 19)%nat) ->
  moment Sh a b == moment_spec_curved Sh a b.
Proof.
  intros Sh a b H. rewrite (moment_curved_exact Sh a b H). apply moment_spec_curved_unfold.
Qed.

(* the statements in the shape they had before the repair: (d-1)*(a+1+b) <= 3 *)
Lemma old_moment_hyps : forall d a b, (1 <= d)%nat -> ((d - 1) * (S a + b) <= 3)%nat ->
  (a + b <= 11)%nat -> (vertical_nodes d (S a) b <= 19)%nat.
Proof.
  intros d a b H1 H2 Hab. rewrite (vertical_nodes_old' _ _ _ H1 H2).
  (* (d-1)*(a+b+1) <= 3 with a+b+1 >= 1 gives d <= 4 *)
  assert (d <= 4)%nat; [|lia].
  destruct d as [|[|[|[|[|d]]]]]; lia.
Qed.
Corollary moment_curved_exact' : forall Sh a b,
  (forall j s, In j (jordans Sh) -> In s j ->
     (1 <= degree s)%nat /\ ((degree s - 1) * (S a + b) <= 3)%nat) ->
  (a + b <= 11)%nat ->
  moment Sh a b ==
  Qsum (map (fun j => Qsum (map (fun s => pint01 (curved_integrand s (S a) b)) j))
            (jordans Sh)) / nQ (S a).
Proof.
  intros Sh a b H Hab. apply moment_curved_exact_gen.
  intros j s Hj Hs. destruct (H j s Hj Hs) as [H1 H2].
  split; [exact H1|apply old_moment_hyps; assumption].
Qed.
Corollary moment_curved_spec' : forall Sh a b,
  (forall j s, In j (jordans Sh) -> In s j ->
     (1 <= degree s)%nat /\ ((degree s - 1) * (S a + b) <= 3)%nat) ->
  (a + b <= 11)%nat ->
  moment Sh a b == moment_spec_curved Sh a b.
Proof.
  intros Sh a b H Hab. rewrite (moment_curved_exact' Sh a b H Hab).
  apply moment_spec_curved_unfold.
Qed.

(* a uniform bound D on the degrees of the boundary *)
Theorem moment_degree_exact : forall D Sh a b,
  (forall j s, In j (jordans Sh) -> In s j -> (1 <= degree s <= D)%nat) ->
  (vertical_nodes D (S a) b <= 19)%nat ->
  moment Sh a b == moment_spec_curved Sh a b.
Proof.
  intros D Sh a b H Hn. apply moment_curved_spec.
  intros j s Hj Hs. specialize (H j s Hj Hs). split; [lia|].
  pose proof (vertical_nodes_mono D (degree s) (S a) b ltac:(lia)). lia.
Qed.

(* cubic boundaries: 3*(a+b+2) nodes, every moment of order a + b <= 4 *)
Theorem moment_cubic_exact4 : forall Sh a b,
  (forall j s, In j (jordans Sh) -> In s j -> (1 <= degree s <= 3)%nat) ->
  (a + b <= 4)%nat ->
  moment Sh a b == moment_spec_curved Sh a b.
Proof.
  intros Sh a b H Hab. apply (moment_degree_exact 3); [exact H|].
  unfold vertical_nodes. lia.
Qed.
(* in particular the moments of order <= 2 (area, centroid, inertia): at most 12 nodes *)
Corollary moment_cubic_exact : forall Sh a b,
  (forall j s, In j (jordans Sh) -> In s j -> (1 <= degree s <= 3)%nat) ->
  (a + b <= 2)%nat ->
  moment Sh a b == moment_spec_curved Sh a b.
Proof. intros Sh a b H Hab. apply moment_cubic_exact4; [exact H|lia]. Qed.
(* quadratic boundaries: 2*(a+b+2) nodes, every moment of order a + b <= 7 *)
Theorem moment_quadratic_exact : forall Sh a b,
  (forall j s, In j (jordans Sh) -> In s j -> (1 <= degree s <= 2)%nat) ->
  (a + b <= 7)%nat ->
  moment Sh a b == moment_spec_curved Sh a b.
Proof.
  intros Sh a b H Hab. apply (moment_degree_exact 2); [exact H|].
  unfold vertical_nodes. lia.
Qed.

(* ------------------------------------------------------------------ *)
(* 7. consistency with the straight-edge specification                 *)
(* ------------------------------------------------------------------ *)
Lemma poly_eq_refl : forall p, poly_eq p p.
Proof. induction p; constructor; [reflexivity|assumption]. Qed.

Lemma poly_add_ext : forall p p' q q', poly_eq p p' -> poly_eq q q' ->
  poly_eq (poly_add p q) (poly_add p' q').
Proof.
  intros p p' q q' Hp. revert q q'.
  induction Hp as [|a a' p p' Ha Hp IH]; intros q q' Hq.
  - destruct Hq; cbn [poly_add]; constructor; assumption.
  - destruct Hq as [|b b' q q' Hb Hq]; cbn [poly_add].
    + constructor; assumption.
    + constructor; [rewrite Ha, Hb; reflexivity|apply IH; exact Hq].
Qed.
Lemma poly_scale_ext : forall k k' p p', k == k' -> poly_eq p p' ->
  poly_eq (poly_scale k p) (poly_scale k' p').
Proof.
  intros k k' p p' Hk Hp. induction Hp as [|a a' p p' Ha _ IH]; cbn [poly_scale map].
  - constructor.
  - constructor; [rewrite Hk, Ha; reflexivity|exact IH].
Qed.
Lemma poly_mul_ext : forall p p' q q', poly_eq p p' -> poly_eq q q' ->
  poly_eq (poly_mul p q) (poly_mul p' q').
Proof.
  intros p p' q q' Hp Hq. induction Hp as [|a a' p p' Ha _ IH]; cbn [poly_mul].
  - constructor.
  - apply poly_add_ext; [apply poly_scale_ext; assumption|].
    constructor; [reflexivity|exact IH].
Qed.
Lemma poly_pow_ext : forall p p' k, poly_eq p p' -> poly_eq (poly_pow p k) (poly_pow p' k).
Proof.
  intros p p' k Hp. induction k as [|k IH]; cbn [poly_pow].
  - apply poly_eq_refl.
  - apply poly_mul_ext; assumption.
Qed.
Lemma pderiv_from_ext : forall p p' k, poly_eq p p' ->
  poly_eq (pderiv_from k p) (pderiv_from k p').
Proof.
  intros p p' k Hp. revert k. induction Hp as [|a a' p p' Ha _ IH]; intro k; cbn [pderiv_from].
  - constructor.
  - constructor; [rewrite Ha; reflexivity|apply IH].
Qed.
Lemma pderiv_ext : forall p p', poly_eq p p' -> poly_eq (pderiv p) (pderiv p').
Proof.
  intros p p' Hp. destruct Hp; cbn [pderiv]; [constructor|apply pderiv_from_ext; assumption].
Qed.

Lemma seg_px_poly_line : forall A B, poly_eq (seg_px_poly [A; B]) (line_poly (px A) (px B)).
Proof. intros [xa ya] [xb yb]. qcbv. repeat (constructor; [ring|]). constructor. Qed.
Lemma seg_py_poly_line : forall A B, poly_eq (seg_py_poly [A; B]) (line_poly (py A) (py B)).
Proof. intros [xa ya] [xb yb]. qcbv. repeat (constructor; [ring|]). constructor. Qed.

Theorem curved_integrand_line : forall A B ex ey,
  poly_eq (curved_integrand [A; B] ex ey) (line_integrand A B ex ey).
Proof.
  intros A B ex ey. unfold curved_integrand, line_integrand.
  pose proof (seg_px_poly_line A B) as HX. pose proof (seg_py_poly_line A B) as HY.
  apply poly_mul_ext; [apply poly_mul_ext; apply poly_pow_ext; assumption|].
  apply pderiv_ext. exact HY.
Qed.
Corollary pint01_curved_line : forall A B ex ey,
  pint01 (curved_integrand [A; B] ex ey) == pint01 (line_integrand A B ex ey).
Proof. intros. apply pint01_ext, curved_integrand_line. Qed.

(* on polygons the curved specification is the old one *)
Corollary moment_spec_curved_lines : forall Sh a b, shape_lines Sh = true ->
  moment_spec_curved Sh a b == moment_spec Sh a b.
Proof.
  intros Sh a b HS. unfold moment_spec_curved, moment_spec.
  unfold shape_lines in HS. rewrite forallb_forall in HS.
  apply Qsum_map_ext. intros j Hj. specialize (HS j Hj).
  unfold jordan_moment_spec_curved, jordan_moment_spec.
  unfold all_lines in HS. rewrite forallb_forall in HS.
  apply Qsum_map_ext. intros s Hs.
  destruct (is_line_inv s (HS s Hs)) as (A & B & ->).
  unfold edge_moment_curved, edge_moment. cbn [first_pt last_pt hd last].
  rewrite pint01_curved_line. reflexivity.
Qed.

(* ------------------------------------------------------------------ *)
(* 8. symmetric-rule bonus: an odd number of nodes gains one degree    *)
(* ------------------------------------------------------------------ *)
(* A fact about the rule itself.  Before the repair it extended the exact range of the
   area to degree 5; the repaired node count never relies on it (section 5). *)
Lemma nc_sweep_odd :
  forallb (fun n => Qeq_bool (quad (nc_w n) (open_linspace n) (fun t => Qpow t n))
                             (1 / nQ (S n)))
          [1; 3; 5; 7; 9; 11; 13; 15; 17; 19]%nat = true.
Proof. vm_compute. reflexivity. Qed.

Lemma nc_poly_exact_odd : forall n p, (1 <= n <= 19)%nat -> Nat.odd n = true ->
  (length p <= S n)%nat ->
  Qsum (map2 (fun w t => w * peval p t) (nc_w n) (open_linspace n)) == pint01 p.
Proof.
  intros n p Hn Hodd Hp.
  apply (quad_poly (nc_w n) (open_linspace n) (fun t => t) (S n)); [|exact Hp].
  intros k Hk. assert (Hk' : (k < n)%nat \/ k = n) by lia. destruct Hk' as [Hk'| ->].
  - apply nc_check_spec; [exact Hn|exact Hk'|exact nc_sweep].
  - pose proof nc_sweep_odd as H. rewrite forallb_forall in H.
    apply Qeq_bool_iff. apply H.
    do 20 (destruct n as [|n]; [try discriminate Hodd; try lia; cbn; tauto|]). lia.
Qed.

(* ------------------------------------------------------------------ *)
(* 9. the rule before the repair (regression), and non-vacuity         *)
(* ------------------------------------------------------------------ *)
(* IntegratePlanar.vertical as it was before the repair of F29: 3+ex+ey+degree nodes *)
Definition vertical_old (s : seg) (ex ey : nat) : Q :=
  let n := (3 + ex + ey + degree s)%nat in
  let ds := derivate s in
  Qred (Qsum (map2 (fun w t =>
                let P := eval s t in
                w * (Qpow (px P) ex * Qpow (py P) ey * py (eval ds t)))
             (nc_w n) (open_linspace n))).

(* where the old count was enough the two rules are the same computation *)
Lemma vertical_old_same : forall s ex ey,
  (degree s * (ex + ey) + degree s <= 3 + ex + ey + degree s)%nat ->
  vertical_old s ex ey = vertical s ex ey.
Proof.
  intros s ex ey H. unfold vertical_old, vertical.
  rewrite (vertical_nodes_old _ _ _ H). reflexivity.
Qed.
Corollary vertical_old_line : forall A B ex ey, vertical_old [A; B] ex ey = vertical [A; B] ex ey.
Proof. intros A B ex ey. apply vertical_old_same. unfold degree. cbn [length Nat.sub]. lia. Qed.
(* hence the old rule was exact in the old range, and only there in general *)
Corollary vertical_old_exact : forall s ex ey,
  (1 <= degree s)%nat -> ((degree s - 1) * (ex + ey) <= 3)%nat ->
  (3 + ex + ey + degree s <= 19)%nat ->
  vertical_old s ex ey == pint01 (curved_integrand s ex ey).
Proof.
  intros s ex ey Hd H Hn. rewrite vertical_old_same.
  - apply vertical_curved_exact'; assumption.
  - destruct (degree s) as [|d]; [lia|]. replace (S d - 1)%nat with d in H by lia. lia.
Qed.

Ltac Qneq_compute := let H := fresh in intro H; vm_compute in H; discriminate H.

(* the old bound was sharp.  Cubic, third power of x: (3-1)*3 = 6 > 3, the old rule had 9
   nodes for 12 coefficients; the repaired one has 12 *)
Example old_rule_cubic_second_moment_inexact :
  exists s, degree s = 3%nat /\
    ~ vertical_old s 3 0 == pint01 (curved_integrand s 3 0) /\
    vertical s 3 0 == pint01 (curved_integrand s 3 0).
Proof.
  exists [(0, 0); (1, 0); (0, 1); (2, 3)]. split; [reflexivity|]. split; [Qneq_compute|].
  apply vertical_curved_exact; vm_compute; lia.
Qed.
(* the first failing case of a cubic: (3-1)*2 = 4 > 3, 8 nodes for 9 coefficients; now 9 *)
Example old_rule_cubic_first_moment_inexact :
  exists s, degree s = 3%nat /\
    ~ vertical_old s 2 0 == pint01 (curved_integrand s 2 0) /\
    vertical s 2 0 == pint01 (curved_integrand s 2 0).
Proof.
  exists [(0, 0); (1, 0); (1, 1); (2, 1)]. split; [reflexivity|]. split; [Qneq_compute|].
  apply vertical_curved_exact; vm_compute; lia.
Qed.
(* the node counts of that case: one node short before, exactly enough now *)
Example old_rule_cubic_first_moment_nodes :
  (3 * (2 + 0) + 3 = S (3 + 2 + 0 + 3))%nat /\ vertical_nodes 3 2 0 = 9%nat.
Proof. split; reflexivity. Qed.
(* the area of a sextic edge: 10 nodes for 12 coefficients; now max(10, 12) = 12 *)
Example old_rule_sextic_area_inexact :
  exists s, degree s = 6%nat /\
    ~ vertical_old s 1 0 == pint01 (curved_integrand s 1 0) /\
    vertical s 1 0 == pint01 (curved_integrand s 1 0).
Proof.
  exists [(0, 0); (1, 0); (0, 1); (1, 1); (2, 0); (3, 5); (1, 7)].
  split; [reflexivity|]. split; [Qneq_compute|].
  apply vertical_curved_exact; vm_compute; lia.
Qed.
(* the same three, the new values computed rather than derived *)
Example repaired_rule_values :
  Qred (vertical [(0, 0); (1, 0); (0, 1); (2, 3)] 3 0) =
    Qred (pint01 (curved_integrand [(0, 0); (1, 0); (0, 1); (2, 3)] 3 0)) /\
  Qred (vertical [(0, 0); (1, 0); (1, 1); (2, 1)] 2 0) =
    Qred (pint01 (curved_integrand [(0, 0); (1, 0); (1, 1); (2, 1)] 2 0)) /\
  Qred (vertical [(0, 0); (1, 0); (0, 1); (1, 1); (2, 0); (3, 5); (1, 7)] 1 0) =
    Qred (pint01 (curved_integrand [(0, 0); (1, 0); (0, 1); (1, 1); (2, 0); (3, 5); (1, 7)] 1 0)).
Proof. vm_compute. repeat split; reflexivity. Qed.

(* a parabola cap: y = 1 - x^2 above [-1,1], area 4/3 *)
Definition cap : jordan := [ [(-1, 0); (1, 0)]; [(1, 0); (0, 2); (-1, 0)] ].
Definition cap_shape : shape := SC (CS cap).
Example cap_hyps :
  (forall s, In s cap -> (1 <= degree s <= 9)%nat) /\
  (forall j s, In j (jordans cap_shape) -> In s j ->
     (1 <= degree s)%nat /\ (vertical_nodes (degree s) (S 2) 0 <= 19)%nat) /\
  (forall j s, In j (jordans cap_shape) -> In s j -> (1 <= degree s <= 3)%nat).
Proof.
  split; [|split].
  - intros s [<-|[<-|[]]]; vm_compute; lia.
  - intros j s [<-|[]] [<-|[<-|[]]]; vm_compute; lia.
  - intros j s [<-|[]] [<-|[<-|[]]]; vm_compute; lia.
Qed.
Example cap_area :
  jordan_area cap = 4 # 3 /\
  Qred (Qsum (map (fun s => pint01 (curved_integrand s 1 0)) cap)) = 4 # 3.
Proof. vm_compute. split; reflexivity. Qed.
(* int int x^2 dx dy over the cap = 4/15 *)
Example cap_moment_20 :
  moment cap_shape 2 0 = 4 # 15 /\ Qred (moment_spec_curved cap_shape 2 0) = 4 # 15.
Proof. vm_compute. split; reflexivity. Qed.
(* a moment that was outside the old range ((2-1)*(4+1) = 5 > 3): int int x^4 = 4/35 *)
Example cap_moment_40 :
  moment cap_shape 4 0 = 4 # 35 /\ Qred (moment_spec_curved cap_shape 4 0) = 4 # 35.
Proof. vm_compute. split; reflexivity. Qed.

Print Assumptions eval_px_poly.
Print Assumptions eval_derivate_py_poly.
Print Assumptions vertical_curved_exact.
Print Assumptions vertical_curved_exact'.
Print Assumptions area_curved_exact9.
Print Assumptions area_curved_exact.
Print Assumptions area_curved_exact5.
Print Assumptions moment_curved_exact.
Print Assumptions moment_curved_spec.
Print Assumptions moment_curved_spec'.
Print Assumptions moment_cubic_exact.
Print Assumptions moment_quadratic_exact.
Print Assumptions curved_integrand_line.
Print Assumptions old_rule_cubic_first_moment_inexact.
Print Assumptions old_rule_cubic_second_moment_inexact.
Print Assumptions old_rule_sextic_area_inexact.
Print Assumptions cap_area.
