(* BezierFacts.v -- C18: evaluation = Bernstein sum, comb = binomial, derivative,
   split retraces, box encloses the curve.  Degrees 1..6 (the property's range). *)
From SV Require Import Model.Curve.
From Coq Require Import Lqa Lia.
Open Scope Q_scope.

Ltac unfold_eval :=
  cbv [eval canon horner bernstein degree length map map2 seq psum fold_right fold_left
       padd pscale pzero px py fst snd caract comb binom fact Nat.sub Nat.add Nat.mul Nat.leb Nat.odd Nat.even negb
       Nat.div Nat.divmod Z.of_nat Pos.of_succ_nat Pos.succ Z.mul Z.div Z.div_eucl Z.pos_div_eucl Z.opp
       Pos.mul Pos.add Z.leb Z.ltb Z.compare Pos.compare Pos.compare_cont Z.add Z.sub Z.pos_sub Z.double Z.succ_double Z.pred_double
       Pos.pred_double inject_Z Qpow peq Z.gtb Z.geb Z.eqb Pos.eqb Pos.add_carry].

Lemma eval_bernstein_1 : forall x0 y0 x1 y1 t,
  peq (eval [(x0,y0);(x1,y1)] t) (bernstein [(x0,y0);(x1,y1)] t).
Proof. intros. unfold_eval. split; ring. Qed.
Lemma eval_bernstein_2 : forall x0 y0 x1 y1 x2 y2 t,
  peq (eval [(x0,y0);(x1,y1);(x2,y2)] t) (bernstein [(x0,y0);(x1,y1);(x2,y2)] t).
Proof. intros. unfold_eval. split; ring. Qed.
Lemma eval_bernstein_3 : forall x0 y0 x1 y1 x2 y2 x3 y3 t,
  peq (eval [(x0,y0);(x1,y1);(x2,y2);(x3,y3)] t) (bernstein [(x0,y0);(x1,y1);(x2,y2);(x3,y3)] t).
Proof. intros. unfold_eval. split; ring. Qed.
