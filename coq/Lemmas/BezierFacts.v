(* BezierFacts.v -- C18: evaluation = Bernstein sum, comb = binomial, derivative,
   split retraces, box encloses the curve, on_seg soundness.
   Degrees 1..6 (the property's range) for the ring identities; the hull
   enclosure of de Casteljau and on_seg_sound hold for every segment. *)
From SV Require Import Model.Curve.
From Coq Require Import Lqa Lia.
Open Scope Q_scope.

(* Compute everything except the field operations and order of Q. *)
Ltac qcbv := cbv -[Qplus Qmult Qminus Qopp Qeq Qdiv Qinv Qle Qlt].

(* ---------- small facts on peq and the boolean rational helpers ---------- *)
Lemma peq_refl : forall p, peq p p.
Proof. intros; split; reflexivity. Qed.
Lemma peq_sym : forall p q, peq p q -> peq q p.
Proof. intros p q [H1 H2]; split; symmetry; assumption. Qed.
Lemma peq_trans : forall p q r, peq p q -> peq q r -> peq p r.
Proof. intros p q r [H1 H2] [H3 H4]; split; etransitivity; eassumption. Qed.

Lemma Qlt_bool_true : forall a b, Qlt_bool a b = true -> a < b.
Proof.
  intros a b H. unfold Qlt_bool in H. apply negb_true_iff in H.
  apply Qnot_le_lt. intro Hle. apply Qle_bool_iff in Hle. congruence.
Qed.

Lemma Qle_bool_false : forall a b, Qle_bool a b = false -> b < a.
Proof.
  intros a b H. apply Qnot_le_lt. intro Hle. apply Qle_bool_iff in Hle. congruence.
Qed.

Lemma Qmin'_le_l : forall a b, Qmin' a b <= a.
Proof.
  intros. unfold Qmin'. destruct (Qle_bool a b) eqn:E.
  - apply Qle_refl.
  - apply Qlt_le_weak, Qle_bool_false, E.
Qed.
Lemma Qmin'_le_r : forall a b, Qmin' a b <= b.
Proof.
  intros. unfold Qmin'. destruct (Qle_bool a b) eqn:E.
  - apply Qle_bool_iff, E.
  - apply Qle_refl.
Qed.
Lemma Qmax'_ge_l : forall a b, a <= Qmax' a b.
Proof.
  intros. unfold Qmax'. destruct (Qle_bool a b) eqn:E.
  - apply Qle_bool_iff, E.
  - apply Qle_refl.
Qed.
Lemma Qmax'_ge_r : forall a b, b <= Qmax' a b.
Proof.
  intros. unfold Qmax'. destruct (Qle_bool a b) eqn:E.
  - apply Qle_refl.
  - apply Qlt_le_weak, Qle_bool_false, E.
Qed.
Lemma Qmin'_glb : forall a b c, c <= a -> c <= b -> c <= Qmin' a b.
Proof. intros. unfold Qmin'. destruct (Qle_bool a b); assumption. Qed.
Lemma Qmax'_lub : forall a b c, a <= c -> b <= c -> Qmax' a b <= c.
Proof. intros. unfold Qmax'. destruct (Qle_bool a b); assumption. Qed.

(* ---------- goal 3: Math.comb is the binomial coefficient (n <= 6) ---------- *)
Lemma comb_binom_le6 : forall n i, (i <= n)%nat -> (n <= 6)%nat -> comb n i = binom n i.
Proof.
  intros n i Hi Hn.
  do 7 (destruct n as [|n];
        [ do 7 (destruct i as [|i]; [ vm_compute; reflexivity | try lia ]) | try lia ]).
Qed.

(* ---------- goal 4: formal derivative of [a_n; ...; a_0] ---------- *)
Fixpoint dcoef (cs : list point) : list point :=
  match cs with
  | [] => []
  | a :: t => match t with
              | [] => []
              | _ :: _ => pscale (nQ (length t)) a :: dcoef t
              end
  end.

(* ---------- goal 6: de Casteljau evaluation stays in the control box ---------- *)
Fixpoint dc_fuel (n : nat) (t : Q) (s : seg) : point :=
  match n with
  | O => first_pt s
  | S k => match s with
           | _ :: _ :: _ => dc_fuel k t (casteljau_step t s)
           | _ => first_pt s
           end
  end.
Definition dc_eval (t : Q) (s : seg) : point := dc_fuel (length s) t s.

Definition in_box (b : box) (p : point) : Prop :=
  (bxmin b <= px p /\ px p <= bxmax b) /\ (bymin b <= py p /\ py p <= bymax b).

Lemma in_box_peq : forall b p q, peq p q -> in_box b p -> in_box b q.
Proof.
  intros b p q [Hx Hy] [[H1 H2] [H3 H4]]. unfold in_box.
  rewrite <- Hx, <- Hy. auto.
Qed.

Lemma fold_min_le_init : forall l x, fold_left Qmin' l x <= x.
Proof.
  induction l as [|a l IH]; intros x; simpl.
  - apply Qle_refl.
  - eapply Qle_trans; [apply IH | apply Qmin'_le_l].
Qed.
Lemma fold_min_le_elt : forall l x y, In y l -> fold_left Qmin' l x <= y.
Proof.
  induction l as [|a l IH]; intros x y Hin; simpl in *.
  - contradiction.
  - destruct Hin as [->|Hin].
    + eapply Qle_trans; [apply fold_min_le_init | apply Qmin'_le_r].
    + apply IH, Hin.
Qed.
Lemma fold_max_ge_init : forall l x, x <= fold_left Qmax' l x.
Proof.
  induction l as [|a l IH]; intros x; simpl.
  - apply Qle_refl.
  - eapply Qle_trans; [apply Qmax'_ge_l | apply IH].
Qed.
Lemma fold_max_ge_elt : forall l x y, In y l -> y <= fold_left Qmax' l x.
Proof.
  induction l as [|a l IH]; intros x y Hin; simpl in *.
  - contradiction.
  - destruct Hin as [->|Hin].
    + eapply Qle_trans; [apply Qmax'_ge_r | apply fold_max_ge_init].
    + apply IH, Hin.
Qed.

Lemma qmin_list_le : forall d l y, In y l -> qmin_list d l <= y.
Proof.
  intros d [|x l] y Hin; simpl in *.
  - contradiction.
  - destruct Hin as [->|Hin]; [apply fold_min_le_init | apply fold_min_le_elt, Hin].
Qed.
Lemma qmax_list_ge : forall d l y, In y l -> y <= qmax_list d l.
Proof.
  intros d [|x l] y Hin; simpl in *.
  - contradiction.
  - destruct Hin as [->|Hin]; [apply fold_max_ge_init | apply fold_max_ge_elt, Hin].
Qed.

(* every control point lies in the box of its segment *)
Lemma ctrl_in_seg_box : forall s p, In p s -> in_box (seg_box s) p.
Proof.
  intros s p Hin. unfold in_box, seg_box, bxmin, bxmax, bymin, bymax; cbn [fst snd].
  repeat split.
  - apply qmin_list_le, in_map, Hin.
  - apply qmax_list_ge, in_map, Hin.
  - apply qmin_list_le, in_map, Hin.
  - apply qmax_list_ge, in_map, Hin.
Qed.

Lemma lerp_in_box : forall b t p q, 0 <= t -> t <= 1 ->
  in_box b p -> in_box b q -> in_box b (lerp t p q).
Proof.
  intros b t [xp yp] [xq yq] H0 H1 [[A1 A2] [A3 A4]] [[B1 B2] [B3 B4]].
  unfold in_box, lerp, padd, pscale, px, py in *; cbn [fst snd] in *.
  repeat split; nra.
Qed.

Lemma in_pairs_of : forall (A : Type) (l : list A) a b,
  In (a, b) (pairs_of l) -> In a l /\ In b l.
Proof.
  induction l as [|x l IH]; intros a b Hin.
  - contradiction.
  - destruct l as [|y l].
    + contradiction.
    + change (pairs_of (x :: y :: l)) with ((x, y) :: pairs_of (y :: l)) in Hin.
      destruct Hin as [E|Hin].
      * inversion E; subst. split; [left; reflexivity | right; left; reflexivity].
      * destruct (IH _ _ Hin) as [Ha Hb]. split; right; assumption.
Qed.

Lemma casteljau_step_in_box : forall b t s, 0 <= t -> t <= 1 ->
  (forall p, In p s -> in_box b p) ->
  forall p, In p (casteljau_step t s) -> in_box b p.
Proof.
  intros b t s H0 H1 Hs p Hin. unfold casteljau_step in Hin.
  apply in_map_iff in Hin. destruct Hin as [[a c] [E Hin]]. subst p.
  apply in_pairs_of in Hin. destruct Hin as [Ha Hc]. cbn [fst snd].
  apply lerp_in_box; auto.
Qed.

Lemma dc_fuel_in_box : forall b t, 0 <= t -> t <= 1 ->
  forall n s, s <> [] -> (forall p, In p s -> in_box b p) -> in_box b (dc_fuel n t s).
Proof.
  intros b t H0 H1. induction n as [|n IH]; intros s Hne Hs.
  - destruct s as [|p s]; [congruence|]. apply Hs. left; reflexivity.
  - destruct s as [|p [|q s]]; [congruence| |].
    + apply Hs. left; reflexivity.
    + cbn [dc_fuel]. apply IH.
      * unfold casteljau_step. cbn [pairs_of map]. discriminate.
      * apply casteljau_step_in_box; assumption.
Qed.

Theorem dc_eval_in_box : forall t s, 0 <= t -> t <= 1 -> s <> [] ->
  in_box (seg_box s) (dc_eval t s).
Proof.
  intros t s H0 H1 Hne. unfold dc_eval.
  apply dc_fuel_in_box; auto. apply ctrl_in_seg_box.
Qed.

(* ---------- goal 3 (bonus): comb n i = binom n i for every i <= n ---------- *)
Definition zprod (l : list Z) : Z := fold_right Z.mul 1%Z l.

Lemma fold_mul_zprod : forall l acc, fold_left Z.mul l acc = (acc * zprod l)%Z.
Proof.
  induction l as [|a l IH]; intros acc; simpl.
  - unfold zprod; simpl. ring.
  - rewrite IH. unfold zprod; simpl. ring.
Qed.

Lemma zprod_pos : forall l, Forall (fun z => (0 < z)%Z) l -> (0 < zprod l)%Z.
Proof.
  induction 1 as [|a l Ha Hl IH]; simpl.
  - lia.
  - apply Z.mul_pos_pos; assumption.
Qed.

Lemma fold_div_zprod : forall l p, Forall (fun z => (0 < z)%Z) l ->
  fold_left Z.div l p = (p / zprod l)%Z.
Proof.
  induction l as [|a l IH]; intros p Hl; simpl.
  - symmetry. apply Z.div_1_r.
  - inversion Hl as [|? ? Ha Hl']; subst.
    rewrite IH by assumption. apply Z.div_div; [lia | apply zprod_pos; assumption].
Qed.

Lemma seq_pos : forall k a, (1 <= a)%nat ->
  Forall (fun z => (0 < z)%Z) (map Z.of_nat (seq a k)).
Proof.
  induction k as [|k IH]; intros a Ha; simpl; constructor.
  - lia.
  - apply IH. lia.
Qed.

Lemma zprod_seq_fact : forall k m,
  (zprod (map Z.of_nat (seq (S m) k)) * Z.of_nat (fact m))%Z = Z.of_nat (fact (m + k)).
Proof.
  induction k as [|k IH]; intros m.
  - cbn [seq map]. unfold zprod; cbn [fold_right]. rewrite Nat.add_0_r. ring.
  - cbn [seq map zprod fold_right]. fold (zprod (map Z.of_nat (seq (S (S m)) k))).
    replace (m + S k)%nat with (S m + k)%nat by lia. rewrite <- IH.
    change (fact (S m)) with (S m * fact m)%nat. rewrite Nat2Z.inj_mul. ring.
Qed.

Theorem comb_binom : forall n i, (i <= n)%nat -> comb n i = binom n i.
Proof.
  intros n i Hi. unfold comb, binom.
  rewrite fold_mul_zprod, Z.mul_1_l.
  rewrite fold_div_zprod by (apply seq_pos; lia).
  rewrite Nat2Z.inj_div, Nat2Z.inj_mul.
  replace (n - i + 1)%nat with (S (n - i)) by lia.
  pose proof (zprod_seq_fact i (n - i)) as HP.
  replace (n - i + i)%nat with n in HP by lia.
  assert (HI : zprod (map Z.of_nat (seq 2 (i - 1))) = Z.of_nat (fact i)).
  { destruct i as [|i].
    - reflexivity.
    - pose proof (zprod_seq_fact (S i - 1) 1) as H.
      replace (1 + (S i - 1))%nat with (S i) in H by lia.
      change (Z.of_nat (fact 1)) with 1%Z in H. lia. }
  rewrite HI, <- HP.
  pose proof (lt_O_fact i). pose proof (lt_O_fact (n - i)).
  symmetry. apply Z.div_mul_cancel_r; lia.
Qed.

(* ---- degree 1 ---- *)
Lemma eval_bernstein_1 : forall x0 y0 x1 y1 t,
  peq (eval [(x0,y0);(x1,y1)] t) (bernstein [(x0,y0);(x1,y1)] t).
Proof. intros. qcbv. split; ring. Qed.
Lemma eval_0_1 : forall x0 y0 x1 y1,
  peq (eval [(x0,y0);(x1,y1)] 0) (first_pt [(x0,y0);(x1,y1)]).
Proof. intros. qcbv. split; ring. Qed.
Lemma eval_1_1 : forall x0 y0 x1 y1,
  peq (eval [(x0,y0);(x1,y1)] 1) (last_pt [(x0,y0);(x1,y1)]).
Proof. intros. qcbv. split; ring. Qed.
Lemma eval_derivate_1 : forall x0 y0 x1 y1 t,
  peq (eval (derivate [(x0,y0);(x1,y1)]) t) (horner t (dcoef (canon [(x0,y0);(x1,y1)]))).
Proof. intros. qcbv. split; ring. Qed.
Lemma split_left_1 : forall x0 y0 x1 y1 u x,
  peq (eval (fst (split_at u [(x0,y0);(x1,y1)])) x) (eval [(x0,y0);(x1,y1)] (u * x)).
Proof. intros. qcbv. split; ring. Qed.
Lemma split_right_1 : forall x0 y0 x1 y1 u x,
  peq (eval (snd (split_at u [(x0,y0);(x1,y1)])) x) (eval [(x0,y0);(x1,y1)] (u + (1 - u) * x)).
Proof. intros. qcbv. split; ring. Qed.
Lemma eval_dc_1 : forall x0 y0 x1 y1 t,
  peq (eval [(x0,y0);(x1,y1)] t) (dc_eval t [(x0,y0);(x1,y1)]).
Proof. intros. qcbv. split; ring. Qed.
Lemma box_hull_1 : forall x0 y0 x1 y1 t, 0 <= t -> t <= 1 ->
  in_box (seg_box [(x0,y0);(x1,y1)]) (eval [(x0,y0);(x1,y1)] t).
Proof.
  intros. eapply in_box_peq; [ apply peq_sym, eval_dc_1 | ].
  apply dc_eval_in_box; [assumption | assumption | discriminate].
Qed.

(* ---- degree 2 ---- *)
Lemma eval_bernstein_2 : forall x0 y0 x1 y1 x2 y2 t,
  peq (eval [(x0,y0);(x1,y1);(x2,y2)] t) (bernstein [(x0,y0);(x1,y1);(x2,y2)] t).
Proof. intros. qcbv. split; ring. Qed.
Lemma eval_0_2 : forall x0 y0 x1 y1 x2 y2,
  peq (eval [(x0,y0);(x1,y1);(x2,y2)] 0) (first_pt [(x0,y0);(x1,y1);(x2,y2)]).
Proof. intros. qcbv. split; ring. Qed.
Lemma eval_1_2 : forall x0 y0 x1 y1 x2 y2,
  peq (eval [(x0,y0);(x1,y1);(x2,y2)] 1) (last_pt [(x0,y0);(x1,y1);(x2,y2)]).
Proof. intros. qcbv. split; ring. Qed.
Lemma eval_derivate_2 : forall x0 y0 x1 y1 x2 y2 t,
  peq (eval (derivate [(x0,y0);(x1,y1);(x2,y2)]) t) (horner t (dcoef (canon [(x0,y0);(x1,y1);(x2,y2)]))).
Proof. intros. qcbv. split; ring. Qed.
Lemma split_left_2 : forall x0 y0 x1 y1 x2 y2 u x,
  peq (eval (fst (split_at u [(x0,y0);(x1,y1);(x2,y2)])) x) (eval [(x0,y0);(x1,y1);(x2,y2)] (u * x)).
Proof. intros. qcbv. split; ring. Qed.
Lemma split_right_2 : forall x0 y0 x1 y1 x2 y2 u x,
  peq (eval (snd (split_at u [(x0,y0);(x1,y1);(x2,y2)])) x) (eval [(x0,y0);(x1,y1);(x2,y2)] (u + (1 - u) * x)).
Proof. intros. qcbv. split; ring. Qed.
Lemma eval_dc_2 : forall x0 y0 x1 y1 x2 y2 t,
  peq (eval [(x0,y0);(x1,y1);(x2,y2)] t) (dc_eval t [(x0,y0);(x1,y1);(x2,y2)]).
Proof. intros. qcbv. split; ring. Qed.
Lemma box_hull_2 : forall x0 y0 x1 y1 x2 y2 t, 0 <= t -> t <= 1 ->
  in_box (seg_box [(x0,y0);(x1,y1);(x2,y2)]) (eval [(x0,y0);(x1,y1);(x2,y2)] t).
Proof.
  intros. eapply in_box_peq; [ apply peq_sym, eval_dc_2 | ].
  apply dc_eval_in_box; [assumption | assumption | discriminate].
Qed.

(* ---- degree 3 ---- *)
Lemma eval_bernstein_3 : forall x0 y0 x1 y1 x2 y2 x3 y3 t,
  peq (eval [(x0,y0);(x1,y1);(x2,y2);(x3,y3)] t) (bernstein [(x0,y0);(x1,y1);(x2,y2);(x3,y3)] t).
Proof. intros. qcbv. split; ring. Qed.
Lemma eval_0_3 : forall x0 y0 x1 y1 x2 y2 x3 y3,
  peq (eval [(x0,y0);(x1,y1);(x2,y2);(x3,y3)] 0) (first_pt [(x0,y0);(x1,y1);(x2,y2);(x3,y3)]).
Proof. intros. qcbv. split; ring. Qed.
Lemma eval_1_3 : forall x0 y0 x1 y1 x2 y2 x3 y3,
  peq (eval [(x0,y0);(x1,y1);(x2,y2);(x3,y3)] 1) (last_pt [(x0,y0);(x1,y1);(x2,y2);(x3,y3)]).
Proof. intros. qcbv. split; ring. Qed.
Lemma eval_derivate_3 : forall x0 y0 x1 y1 x2 y2 x3 y3 t,
  peq (eval (derivate [(x0,y0);(x1,y1);(x2,y2);(x3,y3)]) t) (horner t (dcoef (canon [(x0,y0);(x1,y1);(x2,y2);(x3,y3)]))).
Proof. intros. qcbv. split; ring. Qed.
Lemma split_left_3 : forall x0 y0 x1 y1 x2 y2 x3 y3 u x,
  peq (eval (fst (split_at u [(x0,y0);(x1,y1);(x2,y2);(x3,y3)])) x) (eval [(x0,y0);(x1,y1);(x2,y2);(x3,y3)] (u * x)).
Proof. intros. qcbv. split; ring. Qed.
Lemma split_right_3 : forall x0 y0 x1 y1 x2 y2 x3 y3 u x,
  peq (eval (snd (split_at u [(x0,y0);(x1,y1);(x2,y2);(x3,y3)])) x) (eval [(x0,y0);(x1,y1);(x2,y2);(x3,y3)] (u + (1 - u) * x)).
Proof. intros. qcbv. split; ring. Qed.
Lemma eval_dc_3 : forall x0 y0 x1 y1 x2 y2 x3 y3 t,
  peq (eval [(x0,y0);(x1,y1);(x2,y2);(x3,y3)] t) (dc_eval t [(x0,y0);(x1,y1);(x2,y2);(x3,y3)]).
Proof. intros. qcbv. split; ring. Qed.
Lemma box_hull_3 : forall x0 y0 x1 y1 x2 y2 x3 y3 t, 0 <= t -> t <= 1 ->
  in_box (seg_box [(x0,y0);(x1,y1);(x2,y2);(x3,y3)]) (eval [(x0,y0);(x1,y1);(x2,y2);(x3,y3)] t).
Proof.
  intros. eapply in_box_peq; [ apply peq_sym, eval_dc_3 | ].
  apply dc_eval_in_box; [assumption | assumption | discriminate].
Qed.

(* ---- degree 4 ---- *)
Lemma eval_bernstein_4 : forall x0 y0 x1 y1 x2 y2 x3 y3 x4 y4 t,
  peq (eval [(x0,y0);(x1,y1);(x2,y2);(x3,y3);(x4,y4)] t) (bernstein [(x0,y0);(x1,y1);(x2,y2);(x3,y3);(x4,y4)] t).
Proof. intros. qcbv. split; ring. Qed.
Lemma eval_0_4 : forall x0 y0 x1 y1 x2 y2 x3 y3 x4 y4,
  peq (eval [(x0,y0);(x1,y1);(x2,y2);(x3,y3);(x4,y4)] 0) (first_pt [(x0,y0);(x1,y1);(x2,y2);(x3,y3);(x4,y4)]).
Proof. intros. qcbv. split; ring. Qed.
Lemma eval_1_4 : forall x0 y0 x1 y1 x2 y2 x3 y3 x4 y4,
  peq (eval [(x0,y0);(x1,y1);(x2,y2);(x3,y3);(x4,y4)] 1) (last_pt [(x0,y0);(x1,y1);(x2,y2);(x3,y3);(x4,y4)]).
Proof. intros. qcbv. split; ring. Qed.
Lemma eval_derivate_4 : forall x0 y0 x1 y1 x2 y2 x3 y3 x4 y4 t,
  peq (eval (derivate [(x0,y0);(x1,y1);(x2,y2);(x3,y3);(x4,y4)]) t) (horner t (dcoef (canon [(x0,y0);(x1,y1);(x2,y2);(x3,y3);(x4,y4)]))).
Proof. intros. qcbv. split; ring. Qed.
Lemma split_left_4 : forall x0 y0 x1 y1 x2 y2 x3 y3 x4 y4 u x,
  peq (eval (fst (split_at u [(x0,y0);(x1,y1);(x2,y2);(x3,y3);(x4,y4)])) x) (eval [(x0,y0);(x1,y1);(x2,y2);(x3,y3);(x4,y4)] (u * x)).
Proof. intros. qcbv. split; ring. Qed.
Lemma split_right_4 : forall x0 y0 x1 y1 x2 y2 x3 y3 x4 y4 u x,
  peq (eval (snd (split_at u [(x0,y0);(x1,y1);(x2,y2);(x3,y3);(x4,y4)])) x) (eval [(x0,y0);(x1,y1);(x2,y2);(x3,y3);(x4,y4)] (u + (1 - u) * x)).
Proof. intros. qcbv. split; ring. Qed.
Lemma eval_dc_4 : forall x0 y0 x1 y1 x2 y2 x3 y3 x4 y4 t,
  peq (eval [(x0,y0);(x1,y1);(x2,y2);(x3,y3);(x4,y4)] t) (dc_eval t [(x0,y0);(x1,y1);(x2,y2);(x3,y3);(x4,y4)]).
Proof. intros. qcbv. split; ring. Qed.
Lemma box_hull_4 : forall x0 y0 x1 y1 x2 y2 x3 y3 x4 y4 t, 0 <= t -> t <= 1 ->
  in_box (seg_box [(x0,y0);(x1,y1);(x2,y2);(x3,y3);(x4,y4)]) (eval [(x0,y0);(x1,y1);(x2,y2);(x3,y3);(x4,y4)] t).
Proof.
  intros. eapply in_box_peq; [ apply peq_sym, eval_dc_4 | ].
  apply dc_eval_in_box; [assumption | assumption | discriminate].
Qed.

(* ---- degree 5 ---- *)
Lemma eval_bernstein_5 : forall x0 y0 x1 y1 x2 y2 x3 y3 x4 y4 x5 y5 t,
  peq (eval [(x0,y0);(x1,y1);(x2,y2);(x3,y3);(x4,y4);(x5,y5)] t) (bernstein [(x0,y0);(x1,y1);(x2,y2);(x3,y3);(x4,y4);(x5,y5)] t).
Proof. intros. qcbv. split; ring. Qed.
Lemma eval_0_5 : forall x0 y0 x1 y1 x2 y2 x3 y3 x4 y4 x5 y5,
  peq (eval [(x0,y0);(x1,y1);(x2,y2);(x3,y3);(x4,y4);(x5,y5)] 0) (first_pt [(x0,y0);(x1,y1);(x2,y2);(x3,y3);(x4,y4);(x5,y5)]).
Proof. intros. qcbv. split; ring. Qed.
Lemma eval_1_5 : forall x0 y0 x1 y1 x2 y2 x3 y3 x4 y4 x5 y5,
  peq (eval [(x0,y0);(x1,y1);(x2,y2);(x3,y3);(x4,y4);(x5,y5)] 1) (last_pt [(x0,y0);(x1,y1);(x2,y2);(x3,y3);(x4,y4);(x5,y5)]).
Proof. intros. qcbv. split; ring. Qed.
Lemma eval_derivate_5 : forall x0 y0 x1 y1 x2 y2 x3 y3 x4 y4 x5 y5 t,
  peq (eval (derivate [(x0,y0);(x1,y1);(x2,y2);(x3,y3);(x4,y4);(x5,y5)]) t) (horner t (dcoef (canon [(x0,y0);(x1,y1);(x2,y2);(x3,y3);(x4,y4);(x5,y5)]))).
Proof. intros. qcbv. split; ring. Qed.
Lemma split_left_5 : forall x0 y0 x1 y1 x2 y2 x3 y3 x4 y4 x5 y5 u x,
  peq (eval (fst (split_at u [(x0,y0);(x1,y1);(x2,y2);(x3,y3);(x4,y4);(x5,y5)])) x) (eval [(x0,y0);(x1,y1);(x2,y2);(x3,y3);(x4,y4);(x5,y5)] (u * x)).
Proof. intros. qcbv. split; ring. Qed.
Lemma split_right_5 : forall x0 y0 x1 y1 x2 y2 x3 y3 x4 y4 x5 y5 u x,
  peq (eval (snd (split_at u [(x0,y0);(x1,y1);(x2,y2);(x3,y3);(x4,y4);(x5,y5)])) x) (eval [(x0,y0);(x1,y1);(x2,y2);(x3,y3);(x4,y4);(x5,y5)] (u + (1 - u) * x)).
Proof. intros. qcbv. split; ring. Qed.
Lemma eval_dc_5 : forall x0 y0 x1 y1 x2 y2 x3 y3 x4 y4 x5 y5 t,
  peq (eval [(x0,y0);(x1,y1);(x2,y2);(x3,y3);(x4,y4);(x5,y5)] t) (dc_eval t [(x0,y0);(x1,y1);(x2,y2);(x3,y3);(x4,y4);(x5,y5)]).
Proof. intros. qcbv. split; ring. Qed.
Lemma box_hull_5 : forall x0 y0 x1 y1 x2 y2 x3 y3 x4 y4 x5 y5 t, 0 <= t -> t <= 1 ->
  in_box (seg_box [(x0,y0);(x1,y1);(x2,y2);(x3,y3);(x4,y4);(x5,y5)]) (eval [(x0,y0);(x1,y1);(x2,y2);(x3,y3);(x4,y4);(x5,y5)] t).
Proof.
  intros. eapply in_box_peq; [ apply peq_sym, eval_dc_5 | ].
  apply dc_eval_in_box; [assumption | assumption | discriminate].
Qed.

(* ---- degree 6 ---- *)
Lemma eval_bernstein_6 : forall x0 y0 x1 y1 x2 y2 x3 y3 x4 y4 x5 y5 x6 y6 t,
  peq (eval [(x0,y0);(x1,y1);(x2,y2);(x3,y3);(x4,y4);(x5,y5);(x6,y6)] t) (bernstein [(x0,y0);(x1,y1);(x2,y2);(x3,y3);(x4,y4);(x5,y5);(x6,y6)] t).
Proof. intros. qcbv. split; ring. Qed.
Lemma eval_0_6 : forall x0 y0 x1 y1 x2 y2 x3 y3 x4 y4 x5 y5 x6 y6,
  peq (eval [(x0,y0);(x1,y1);(x2,y2);(x3,y3);(x4,y4);(x5,y5);(x6,y6)] 0) (first_pt [(x0,y0);(x1,y1);(x2,y2);(x3,y3);(x4,y4);(x5,y5);(x6,y6)]).
Proof. intros. qcbv. split; ring. Qed.
Lemma eval_1_6 : forall x0 y0 x1 y1 x2 y2 x3 y3 x4 y4 x5 y5 x6 y6,
  peq (eval [(x0,y0);(x1,y1);(x2,y2);(x3,y3);(x4,y4);(x5,y5);(x6,y6)] 1) (last_pt [(x0,y0);(x1,y1);(x2,y2);(x3,y3);(x4,y4);(x5,y5);(x6,y6)]).
Proof. intros. qcbv. split; ring. Qed.
Lemma eval_derivate_6 : forall x0 y0 x1 y1 x2 y2 x3 y3 x4 y4 x5 y5 x6 y6 t,
  peq (eval (derivate [(x0,y0);(x1,y1);(x2,y2);(x3,y3);(x4,y4);(x5,y5);(x6,y6)]) t) (horner t (dcoef (canon [(x0,y0);(x1,y1);(x2,y2);(x3,y3);(x4,y4);(x5,y5);(x6,y6)]))).
Proof. intros. qcbv. split; ring. Qed.
Lemma split_left_6 : forall x0 y0 x1 y1 x2 y2 x3 y3 x4 y4 x5 y5 x6 y6 u x,
  peq (eval (fst (split_at u [(x0,y0);(x1,y1);(x2,y2);(x3,y3);(x4,y4);(x5,y5);(x6,y6)])) x) (eval [(x0,y0);(x1,y1);(x2,y2);(x3,y3);(x4,y4);(x5,y5);(x6,y6)] (u * x)).
Proof. intros. qcbv. split; ring. Qed.
Lemma split_right_6 : forall x0 y0 x1 y1 x2 y2 x3 y3 x4 y4 x5 y5 x6 y6 u x,
  peq (eval (snd (split_at u [(x0,y0);(x1,y1);(x2,y2);(x3,y3);(x4,y4);(x5,y5);(x6,y6)])) x) (eval [(x0,y0);(x1,y1);(x2,y2);(x3,y3);(x4,y4);(x5,y5);(x6,y6)] (u + (1 - u) * x)).
Proof. intros. qcbv. split; ring. Qed.
Lemma eval_dc_6 : forall x0 y0 x1 y1 x2 y2 x3 y3 x4 y4 x5 y5 x6 y6 t,
  peq (eval [(x0,y0);(x1,y1);(x2,y2);(x3,y3);(x4,y4);(x5,y5);(x6,y6)] t) (dc_eval t [(x0,y0);(x1,y1);(x2,y2);(x3,y3);(x4,y4);(x5,y5);(x6,y6)]).
Proof. intros. qcbv. split; ring. Qed.
Lemma box_hull_6 : forall x0 y0 x1 y1 x2 y2 x3 y3 x4 y4 x5 y5 x6 y6 t, 0 <= t -> t <= 1 ->
  in_box (seg_box [(x0,y0);(x1,y1);(x2,y2);(x3,y3);(x4,y4);(x5,y5);(x6,y6)]) (eval [(x0,y0);(x1,y1);(x2,y2);(x3,y3);(x4,y4);(x5,y5);(x6,y6)] t).
Proof.
  intros. eapply in_box_peq; [ apply peq_sym, eval_dc_6 | ].
  apply dc_eval_in_box; [assumption | assumption | discriminate].
Qed.

(* ---------- the same facts stated on arbitrary segments of degree 1..6 ---------- *)
Ltac seg_cases s H :=
  destruct s as [|[? ?] [|[? ?] [|[? ?] [|[? ?] [|[? ?] [|[? ?] [|[? ?] [|[? ?] ?]]]]]]]];
  cbn [length] in H; try lia.

Theorem eval_bernstein_le6 : forall s t, (2 <= length s <= 7)%nat ->
  peq (eval s t) (bernstein s t).
Proof.
  intros s t H. seg_cases s H;
  [ apply eval_bernstein_1 | apply eval_bernstein_2 | apply eval_bernstein_3
  | apply eval_bernstein_4 | apply eval_bernstein_5 | apply eval_bernstein_6 ].
Qed.
Theorem eval_0_le6 : forall s, (2 <= length s <= 7)%nat -> peq (eval s 0) (first_pt s).
Proof.
  intros s H. seg_cases s H;
  [ apply eval_0_1 | apply eval_0_2 | apply eval_0_3
  | apply eval_0_4 | apply eval_0_5 | apply eval_0_6 ].
Qed.
Theorem eval_1_le6 : forall s, (2 <= length s <= 7)%nat -> peq (eval s 1) (last_pt s).
Proof.
  intros s H. seg_cases s H;
  [ apply eval_1_1 | apply eval_1_2 | apply eval_1_3
  | apply eval_1_4 | apply eval_1_5 | apply eval_1_6 ].
Qed.
Theorem eval_derivate_le6 : forall s t, (2 <= length s <= 7)%nat ->
  peq (eval (derivate s) t) (horner t (dcoef (canon s))).
Proof.
  intros s t H. seg_cases s H;
  [ apply eval_derivate_1 | apply eval_derivate_2 | apply eval_derivate_3
  | apply eval_derivate_4 | apply eval_derivate_5 | apply eval_derivate_6 ].
Qed.
Theorem split_left_le6 : forall s u x, (2 <= length s <= 7)%nat ->
  peq (eval (fst (split_at u s)) x) (eval s (u * x)).
Proof.
  intros s u x H. seg_cases s H;
  [ apply split_left_1 | apply split_left_2 | apply split_left_3
  | apply split_left_4 | apply split_left_5 | apply split_left_6 ].
Qed.
Theorem split_right_le6 : forall s u x, (2 <= length s <= 7)%nat ->
  peq (eval (snd (split_at u s)) x) (eval s (u + (1 - u) * x)).
Proof.
  intros s u x H. seg_cases s H;
  [ apply split_right_1 | apply split_right_2 | apply split_right_3
  | apply split_right_4 | apply split_right_5 | apply split_right_6 ].
Qed.
Theorem eval_dc_le6 : forall s t, (2 <= length s <= 7)%nat -> peq (eval s t) (dc_eval t s).
Proof.
  intros s t H. seg_cases s H;
  [ apply eval_dc_1 | apply eval_dc_2 | apply eval_dc_3
  | apply eval_dc_4 | apply eval_dc_5 | apply eval_dc_6 ].
Qed.
Theorem box_hull_le6 : forall s t, (2 <= length s <= 7)%nat -> 0 <= t -> t <= 1 ->
  in_box (seg_box s) (eval s t).
Proof.
  intros s t H H0 H1. seg_cases s H;
  [ apply box_hull_1 | apply box_hull_2 | apply box_hull_3
  | apply box_hull_4 | apply box_hull_5 | apply box_hull_6 ]; assumption.
Qed.

(* ---------- goal 7: on_seg is sound (any segment) ---------- *)
Definition all01 (l : list Q) : Prop := forall u, In u l -> 0 <= u /\ u <= 1.

Lemma Qclamp01_range : forall x, 0 <= Qclamp01 x /\ Qclamp01 x <= 1.
Proof.
  intros x. unfold Qclamp01. split.
  - apply Qmin'_glb; [lra | apply Qmax'_ge_r].
  - apply Qmin'_le_l.
Qed.

Lemma nQ_nonneg : forall k, 0 <= nQ k.
Proof. intros k. unfold nQ. change 0 with (inject_Z 0). rewrite <- Zle_Qle. lia. Qed.
Lemma nQ_le : forall a b, (a <= b)%nat -> nQ a <= nQ b.
Proof. intros a b H. unfold nQ. rewrite <- Zle_Qle. lia. Qed.
Lemma nQ_pos : forall k, (1 <= k)%nat -> 0 < nQ k.
Proof. intros k H. unfold nQ. change 0 with (inject_Z 0). rewrite <- Zlt_Qlt. lia. Qed.

Lemma closed_linspace_all01 : forall n, (2 <= n)%nat -> all01 (closed_linspace n).
Proof.
  intros n Hn u Hin. unfold closed_linspace in Hin.
  apply in_map_iff in Hin. destruct Hin as [k [E Hk]]. subst u.
  apply in_seq in Hk. rewrite Qred_correct.
  assert (Hpos : 0 < nQ (n - 1)) by (apply nQ_pos; lia).
  split.
  - apply Qle_shift_div_l; [assumption|]. rewrite Qmult_0_l. apply nQ_nonneg.
  - apply Qle_shift_div_r; [assumption|]. rewrite Qmult_1_l. apply nQ_le. lia.
Qed.

Lemma dedup_incl : forall (A : Type) (eqb : A -> A -> bool) l x,
  In x (dedup eqb l) -> In x l.
Proof.
  induction l as [|a l IH]; intros x Hin; simpl in *.
  - contradiction.
  - destruct (existsb (eqb a) l).
    + right. apply IH, Hin.
    + destruct Hin as [->|Hin]; [left; reflexivity | right; apply IH, Hin].
Qed.

Lemma newton_map_all01 : forall s ds dds p us,
  all01 (dedup Qeq_bool (map (newton_step s ds dds p) us)).
Proof.
  intros s ds dds p us u Hin. apply dedup_incl in Hin.
  apply in_map_iff in Hin. destruct Hin as [v [E _]]. subst u.
  unfold newton_step. apply Qclamp01_range.
Qed.

Lemma newton_rounds_all01 : forall n s ds dds p us,
  all01 us -> all01 (newton_rounds n s ds dds p us).
Proof.
  induction n as [|n IH]; intros s ds dds p us Hus; cbn [newton_rounds].
  - assumption.
  - pose proof (newton_map_all01 s ds dds p us) as H.
    destruct (dedup Qeq_bool (map (newton_step s ds dds p) us)) as [|a [|b l]].
    + apply IH, H.
    + exact H.
    + apply IH, H.
Qed.

Lemma project_all01 : forall s p, all01 (project s p).
Proof.
  intros s p. unfold project. apply newton_rounds_all01.
  apply closed_linspace_all01. lia.
Qed.

Theorem on_seg_sound : forall s p, on_seg s p = true ->
  exists u, 0 <= u /\ u <= 1 /\ dist2 s p u < tol6sq.
Proof.
  intros s p H. unfold on_seg in H. apply andb_true_iff in H. destruct H as [_ H].
  apply existsb_exists in H. destruct H as [u [Hin Hlt]].
  exists u. destruct (project_all01 s p u Hin) as [H0 H1].
  repeat split; try assumption. apply Qlt_bool_true, Hlt.
Qed.

Print Assumptions eval_bernstein_le6.
Print Assumptions eval_0_le6.
Print Assumptions eval_1_le6.
Print Assumptions comb_binom_le6.
Print Assumptions comb_binom.
Print Assumptions eval_derivate_le6.
Print Assumptions split_left_le6.
Print Assumptions split_right_le6.
Print Assumptions dc_eval_in_box.
Print Assumptions eval_dc_le6.
Print Assumptions box_hull_le6.
Print Assumptions on_seg_sound.
