(* Safe.v -- closing the abstract premises:
   G1  contains_point without the abstract tolerance premise (safe points),
   G2  segment(t) in segment for long straight segments,
   G3  symmetry of the tolerance tests pt_eq / seg_eq,
   G4  swapping the operands of intersection swaps the roles (whole matrix),
   G5  jordan_eq does not depend on the start vertex (rotations). *)
From Coq Require Import QArith Lqa Lia List Bool.
From SV Require Import Model.Shape Spec.Spec.
From SV Require Lemmas.BezierFacts Lemmas.Winding Lemmas.SplitClean Lemmas.Construct
  Lemmas.Lines Lemmas.C02Glue Lemmas.Tolerance.
Import ListNotations.
Open Scope Q_scope.

(* ---------- boolean comparisons (local copies, to stay independent of Ltac scoping) ---------- *)
Local Lemma qle_f a b : Qle_bool a b = false -> b < a.
Proof. apply Tolerance.Qle_bool_f. Qed.
Local Ltac qb :=
  repeat match goal with
  | H : Qle_bool _ _ = true |- _ => apply Qle_bool_iff in H
  | H : Qle_bool _ _ = false |- _ => apply qle_f in H
  end.
Local Ltac dq :=
  repeat match goal with
  | |- context[Qle_bool ?a ?b] => destruct (Qle_bool a b) eqn:?
  end.

Lemma Qlt_bool_ext a b a' b' : (a < b <-> a' < b') -> Qlt_bool a b = Qlt_bool a' b'.
Proof.
  intro H. destruct (Qlt_bool a b) eqn:E; destruct (Qlt_bool a' b') eqn:E'; auto.
  - apply Tolerance.Qlt_bool_iff in E. apply H in E. apply Tolerance.Qlt_bool_iff in E. congruence.
  - apply Tolerance.Qlt_bool_iff in E'. apply H in E'. apply Tolerance.Qlt_bool_iff in E'. congruence.
Qed.

(* ====================================================================== *)
(* G1: contains_point on safe points                                       *)
(* ====================================================================== *)

(* every edge is longer than the tolerance and p is either exactly on the edge
   or at least the tolerance away from it *)
Definition safe_point (j : jordan) (p : point) : Prop :=
  forall s, In s j -> exists a b, s = [a; b] /\ tol6 < norm2 (psub b a) /\
    (on_edge a b p = true \/ forall u, 0 <= u -> u <= 1 -> tol6sq <= dist2 [a; b] p u).

Theorem safe_point_tol_exact : forall j p, safe_point j p -> tol_exact j p.
Proof.
  intros j p H s Hs. destruct (H s Hs) as (a & b & -> & HN & Hd).
  apply Tolerance.tol_exact_seg_line; assumption.
Qed.

Theorem contains_point_safe : forall S p b,
  shape_lines S = true ->
  (forall j, In j (jordans S) -> closed_chain j = true) ->
  (forall j, In j (jordans S) -> safe_point j p) ->
  spec_contains (region S p) b (contains_point S p b).
Proof.
  intros S p b Hl Hc Hs. apply C02Glue.contains_point_polygon; auto.
  intros j Hj. apply safe_point_tol_exact. auto.
Qed.

(* Lagrange identity along a straight edge:
   |d|^2 * dist2(u) = orient(a,b,p)^2 + (d . (a + u d - p))^2,  d = b - a *)
Lemma dist2_lagrange : forall a b p u,
  norm2 (psub b a) * dist2 [a; b] p u ==
  orient a b p * orient a b p +
  inner (psub b a) (psub (Tolerance.line_pt a b u) p) *
  inner (psub b a) (psub (Tolerance.line_pt a b u) p).
Proof.
  intros [ax ay] [bx b_y] [qx qy] u. rewrite Tolerance.dist2_line.
  unfold orient, cross, norm2, inner, psub, Tolerance.line_pt, px, py; cbn [fst snd]. ring.
Qed.

(* the minimum over all real u of dist2 is orient^2 / |d|^2 *)
Theorem dist2_ge_orient : forall a b p u,
  orient a b p * orient a b p <= norm2 (psub b a) * dist2 [a; b] p u.
Proof.
  intros a b p u. rewrite dist2_lagrange.
  set (i := inner _ _). assert (0 <= i * i) by nra. lra.
Qed.

(* a quantifier-free sufficient condition for the "far" disjunct *)
Theorem far_of_orient : forall a b p, 0 < norm2 (psub b a) ->
  tol6sq * norm2 (psub b a) <= orient a b p * orient a b p ->
  forall u, tol6sq <= dist2 [a; b] p u.
Proof.
  intros a b p HN H u. pose proof (dist2_ge_orient a b p u) as G.
  set (N := norm2 (psub b a)) in *. set (D := dist2 [a; b] p u) in *.
  set (T := tol6sq) in *.
  destruct (Qlt_le_dec D T) as [L|L]; [exfalso | exact L].
  assert (N * D < N * T) by (apply Qmult_lt_l; assumption). lra.
Qed.

(* the quantifier-free version of safe_point *)
Definition safe_point_q (j : jordan) (p : point) : Prop :=
  forall s, In s j -> exists a b, s = [a; b] /\ tol6 < norm2 (psub b a) /\
    (on_edge a b p = true \/ tol6sq * norm2 (psub b a) <= orient a b p * orient a b p).

Corollary safe_point_far : forall j p, safe_point_q j p -> safe_point j p.
Proof.
  intros j p H s Hs. destruct (H s Hs) as (a & b & -> & HN & Hd).
  exists a, b. split; [reflexivity|]. split; [exact HN|].
  destruct Hd as [He|Hf]; [left; exact He | right].
  intros u _ _. apply far_of_orient; [|exact Hf].
  pose proof Winding.tol6_pos. lra.
Qed.

Corollary contains_point_safe_q : forall S p b,
  shape_lines S = true ->
  (forall j, In j (jordans S) -> closed_chain j = true) ->
  (forall j, In j (jordans S) -> safe_point_q j p) ->
  spec_contains (region S p) b (contains_point S p b).
Proof.
  intros S p b Hl Hc Hs. apply contains_point_safe; auto.
  intros j Hj. apply safe_point_far. auto.
Qed.

(* ====================================================================== *)
(* G2: segment(t) in segment                                               *)
(* ====================================================================== *)
Theorem on_seg_eval : forall a b t, tol6 < norm2 (psub b a) -> 0 <= t -> t <= 1 ->
  on_seg [a; b] (eval [a; b] t) = true.
Proof.
  intros a b t HN T0 T1. apply Tolerance.on_seg_line_complete; [exact HN|].
  apply (Tolerance.on_edge_param a b _ t T0 T1). apply Tolerance.eval_line.
Qed.

Theorem on_seg_evalr : forall a b t, tol6 < norm2 (psub b a) -> 0 <= t -> t <= 1 ->
  on_seg [a; b] (evalr [a; b] t) = true.
Proof.
  intros a b t HN T0 T1. apply Tolerance.on_seg_line_complete; [exact HN|].
  apply (Tolerance.on_edge_param a b _ t T0 T1). unfold evalr.
  eapply BezierFacts.peq_trans; [apply Tolerance.pred_peq | apply Tolerance.eval_line].
Qed.

(* ====================================================================== *)
(* G3: symmetry of the tolerance tests                                     *)
(* ====================================================================== *)
Lemma Qabs'_sub_sym x y : Qabs' (x - y) == Qabs' (y - x).
Proof. unfold Qabs'. dq; qb; lra. Qed.

Theorem pt_eq_sym : forall p q, pt_eq p q = pt_eq q p.
Proof.
  intros p q. unfold pt_eq. f_equal; f_equal; apply Qlt_bool_ext;
    rewrite (Qabs'_sub_sym _ _); reflexivity.
Qed.

Theorem seg_eq_sym : forall a b, seg_eq a b = seg_eq b a.
Proof.
  intros a b. unfold seg_eq. rewrite (Nat.eqb_sym (length a) (length b)). f_equal.
  revert b. induction a as [|x a IH]; intros [|y b]; cbn [combine forallb fst snd]; auto.
  rewrite (pt_eq_sym x y), IH. reflexivity.
Qed.

Theorem seg_eq_refl : forall a, seg_eq a a = true.
Proof. exact Tolerance.seg_eq_refl. Qed.

(* ====================================================================== *)
(* G4: swapping the operands of intersection swaps the roles               *)
(* ====================================================================== *)
Lemma Qmax'_comm a b : Qmax' a b == Qmax' b a.
Proof. unfold Qmax'. dq; qb; lra. Qed.
Lemma Qmin'_comm a b : Qmin' a b == Qmin' b a.
Proof. unfold Qmin'. dq; qb; lra. Qed.

(* the two boxes overlap or not, whatever the order *)
Lemma box_and_swap : forall x y,
  match box_and x y with
  | None => box_and y x = None
  | Some _ => exists c, box_and y x = Some c
  end.
Proof.
  intros x y. unfold box_and. cbv zeta.
  assert (E1 : Qlt_bool (Qmin' (bxmax x) (bxmax y)) (Qmax' (bxmin x) (bxmin y)) =
               Qlt_bool (Qmin' (bxmax y) (bxmax x)) (Qmax' (bxmin y) (bxmin x))).
  { apply Qlt_bool_ext. rewrite (Qmin'_comm (bxmax x)), (Qmax'_comm (bxmin x)). reflexivity. }
  assert (E2 : Qlt_bool (Qmin' (bymax x) (bymax y)) (Qmax' (bymin x) (bymin y)) =
               Qlt_bool (Qmin' (bymax y) (bymax x)) (Qmax' (bymin y) (bymin x))).
  { apply Qlt_bool_ext. rewrite (Qmin'_comm (bymax x)), (Qmax'_comm (bymin x)). reflexivity. }
  rewrite <- E1, <- E2.
  destruct (Qlt_bool (Qmin' (bxmax x) (bxmax y)) (Qmax' (bxmin x) (bxmin y))); [reflexivity|].
  destruct (Qlt_bool (Qmin' (bymax x) (bymax y)) (Qmax' (bymin x) (bymin y))); [reflexivity|].
  eexists; reflexivity.
Qed.

Theorem box_and_none_sym : forall x y, box_and x y = None <-> box_and y x = None.
Proof.
  intros x y. pose proof (box_and_swap x y) as H. pose proof (box_and_swap y x) as H'.
  destruct (box_and x y), (box_and y x).
  - split; intro; discriminate.
  - destruct H as (c & H). discriminate.
  - destruct H' as (c & H'). discriminate.
  - tauto.
Qed.

Definition swap_uv (uv : Q * Q) : Q * Q := (snd uv, fst uv).
Definition swap_inter (r : inter) : inter :=
  match r with
  | INone => INone
  | IEqual => IEqual
  | IPairs l => IPairs (map swap_uv l)
  end.
Definition swap_res (r : res inter) : res inter :=
  match r with Ok x => Ok (swap_inter x) | Err k => Err k | NoFuel => NoFuel end.
Definition swap_o (o : option (Q * Q)) : option (Q * Q) := option_map swap_uv o.

Lemma swap_o_invol o : swap_o (swap_o o) = o.
Proof. destruct o as [[u v]|]; reflexivity. Qed.

(* PlanarCurve.__and__ with the operands swapped: same outcome, pairs swapped *)
Theorem seg_and_swap : forall sa sb, seg_and sb sa = swap_res (seg_and sa sb).
Proof.
  intros sa sb. unfold seg_and.
  pose proof (box_and_swap (seg_box sa) (seg_box sb)) as H.
  destruct (box_and (seg_box sa) (seg_box sb)); [destruct H as (c & ->) | rewrite H; reflexivity].
  rewrite (seg_eq_sym sb sa). destruct (seg_eq sa sb); [reflexivity|].
  rewrite (andb_comm (Nat.eqb (degree sb) 1)).
  destruct (Nat.eqb (degree sa) 1 && Nat.eqb (degree sb) 1); [|reflexivity].
  rewrite (Lines.lines_swap_gen sa sb).
  destruct (lines sa sb) as [[u v]|]; reflexivity.
Qed.

Lemma row_of_swap r o : Lines.row_of r o -> Lines.row_of (swap_inter r) (swap_o o).
Proof.
  destruct o as [uv|]; cbn [Lines.row_of swap_o option_map]; intros ->; reflexivity.
Qed.

Lemma raw_swap_In : forall ja jb raw raw' a b o,
  raw_intersection ja jb = Ok raw -> raw_intersection jb ja = Ok raw' ->
  In (a, b, o) raw -> In (b, a, swap_o o) raw'.
Proof.
  intros ja jb raw raw' a b o H H' Hin.
  destruct (Lines.raw_rows_sound _ _ _ _ _ _ H Hin) as (Ha & Hb & r & S & R).
  apply (Lines.raw_rows_complete jb ja raw' b a (swap_inter r) (swap_o o) H' Hb Ha).
  - rewrite seg_and_swap, S. reflexivity.
  - apply row_of_swap; exact R.
Qed.

Lemma keep_swap eb ep a b o :
  Lines.keep eb ep (a, b, o) = Lines.keep eb ep (b, a, swap_o o).
Proof.
  unfold Lines.keep. cbn [snd]. destruct o as [[u v]|]; cbn [swap_o option_map swap_uv fst snd].
  - rewrite (orb_comm (inside01 v)). reflexivity.
  - reflexivity.
Qed.

Theorem intersection_swap : forall ja jb eb ep rows rows',
  intersection jb ja eb ep = Ok rows' -> intersection ja jb eb ep = Ok rows ->
  forall a b o, In (a, b, o) rows <-> In (b, a, swap_o o) rows'.
Proof.
  intros ja jb eb ep rows rows' H' H a b o.
  destruct (Lines.intersection_In _ _ _ _ _ H) as (raw & Hraw & Hiff).
  destruct (Lines.intersection_In _ _ _ _ _ H') as (raw' & Hraw' & Hiff').
  rewrite Hiff, Hiff', <- keep_swap. split; intros [Hin K]; (split; [|exact K]).
  - exact (raw_swap_In ja jb raw raw' a b o Hraw Hraw' Hin).
  - rewrite <- (swap_o_invol o).
    exact (raw_swap_In jb ja raw' raw b a (swap_o o) Hraw' Hraw Hin).
Qed.

Corollary intersection_swap_some : forall ja jb eb ep rows rows',
  intersection jb ja eb ep = Ok rows' -> intersection ja jb eb ep = Ok rows ->
  forall a b u v, In (a, b, Some (u, v)) rows <-> In (b, a, Some (v, u)) rows'.
Proof.
  intros ja jb eb ep rows rows' H' H a b u v.
  exact (intersection_swap ja jb eb ep rows rows' H' H a b (Some (u, v))).
Qed.

Corollary intersection_swap_none : forall ja jb eb ep rows rows',
  intersection jb ja eb ep = Ok rows' -> intersection ja jb eb ep = Ok rows ->
  forall a b, In (a, b, None) rows <-> In (b, a, None) rows'.
Proof.
  intros ja jb eb ep rows rows' H' H a b.
  exact (intersection_swap ja jb eb ep rows rows' H' H a b None).
Qed.

(* the call raises or not, whatever the order *)
Lemma raw_ok_iff : forall ja jb,
  (exists raw, raw_intersection ja jb = Ok raw) <->
  (forall sa sb, In sa ja -> In sb jb -> exists r, seg_and sa sb = Ok r).
Proof.
  intros ja jb. split.
  - intros (raw & H) sa sb Hsa Hsb. unfold raw_intersection in H.
    match type of H with bind ?m _ = _ => destruct m as [rws| |] eqn:M end;
      cbn [bind] in H; try discriminate.
    destruct (In_nth _ _ [] Hsa) as (a & Ha & Ea).
    destruct (In_nth _ _ [] Hsb) as (b & Hb & Eb).
    pose proof (Lines.combine_seq_In_conv (A:=seg) [] ja 0 a Ha) as Hia. cbn [Nat.add] in Hia.
    destruct (Lines.mapM_In_conv _ _ _ _ M Hia) as (row & Fa & _). cbn beta iota in Fa.
    match type of Fa with bind ?m _ = _ => destruct m as [per_b| |] eqn:Mb end;
      cbn [bind] in Fa; try discriminate.
    pose proof (Lines.combine_seq_In_conv (A:=seg) [] jb 0 b Hb) as Hib. cbn [Nat.add] in Hib.
    destruct (Lines.mapM_In_conv _ _ _ _ Mb Hib) as (cell & Fb & _). cbn beta iota in Fb.
    subst sa sb.
    match type of Fb with bind ?m _ = _ => destruct m as [r| |] eqn:S end;
      cbn [bind] in Fb; try discriminate.
    exists r. exact S.
  - intro Hall. unfold raw_intersection.
    match goal with |- exists _, bind ?m _ = _ =>
      destruct (Lines.mapM_total _ _ : _ -> exists ys, m = Ok ys) as (rws & ->) end.
    + intros [a sa] Hia. apply in_combine_r in Hia.
      match goal with |- exists _, bind ?m _ = _ =>
        destruct (Lines.mapM_total _ _ : _ -> exists ys, m = Ok ys) as (pb & ->) end.
      * intros [b sb] Hib. apply in_combine_r in Hib.
        destruct (Hall sa sb Hia Hib) as (r & ->). cbn [bind]. eexists; reflexivity.
      * cbn [bind]. eexists; reflexivity.
    + cbn [bind]. eexists; reflexivity.
Qed.

Lemma raw_outcome_swap : forall ja jb,
  (exists raw, raw_intersection ja jb = Ok raw) -> (exists raw', raw_intersection jb ja = Ok raw').
Proof.
  intros ja jb H. apply raw_ok_iff. intros sb sa Hsb Hsa.
  destruct (proj1 (raw_ok_iff ja jb) H sa sb Hsa Hsb) as (r & E).
  rewrite seg_and_swap, E. eexists; reflexivity.
Qed.

Theorem intersection_outcome_swap : forall ja jb eb ep,
  (exists rows, intersection ja jb eb ep = Ok rows) <->
  (exists rows', intersection jb ja eb ep = Ok rows').
Proof.
  intros ja jb eb ep. rewrite !Lines.intersection_flags_outcome.
  split; apply raw_outcome_swap.
Qed.

(* ====================================================================== *)
(* G5: jordan_eq and the start vertex                                      *)
(* ====================================================================== *)
(* The statement "jordan_eq j (rotl k j) = Ok true for every cleaned polygon"
   is FALSE: __eq__ looks for the FIRST segment of self equal to the first
   segment of other, so a closed chain that runs through the same edge twice
   is not equal to its own rotation. *)
Definition cxA : point := (0, 0).
Definition cxB : point := (4, 0).
Definition cxC : point := (4, 3).
Definition cxD : point := (2, 5).
Definition cx_twice : jordan :=
  [[cxA; cxB]; [cxB; cxC]; [cxC; cxA]; [cxA; cxB]; [cxB; cxD]; [cxD; cxA]].
Theorem rotation_defect :
  all_lines cx_twice = true /\ closed_chain cx_twice = true /\
  clean cx_twice = Ok cx_twice /\
  (forall s, In s cx_twice -> tol6 < norm2 (psub (last_pt s) (first_pt s))) /\
  jordan_eq cx_twice cx_twice = Ok true /\
  jordan_eq cx_twice (rotl 3 cx_twice) = Ok false /\
  jordan_eq (rotl 3 cx_twice) cx_twice = Ok false.
Proof.
  repeat split; try (vm_compute; reflexivity).
  intros s Hs. cbn [cx_twice In] in Hs.
  repeat (destruct Hs as [<- | Hs]; [vm_compute; reflexivity|]). destruct Hs.
Qed.

(* the nearest true statement: no two segments of the curve are equal for the
   Point2D tolerance (true of every simple polygon with edges longer than 1e-9) *)
Definition seg_distinct (j : jordan) : Prop :=
  forall i i', (i < length j)%nat -> (i' < length j)%nat ->
    seg_eq (nth i j []) (nth i' j []) = true -> i = i'.

(* a sufficient condition on the vertices only *)
Lemma seg_distinct_of_vertices : forall j,
  (forall s, In s j -> s <> []) ->
  (forall i i', (i < length j)%nat -> (i' < length j)%nat ->
     pt_eq (first_pt (nth i j [])) (first_pt (nth i' j [])) = true -> i = i') ->
  seg_distinct j.
Proof.
  intros j Hne Hv i i' Hi Hi' E. apply Hv; try assumption.
  assert (G : forall s s' : seg, s <> [] -> s' <> [] -> seg_eq s s' = true ->
              pt_eq (first_pt s) (first_pt s') = true).
  { intros [|a s] [|a' s'] N N' E'; try congruence.
    unfold seg_eq in E'. apply andb_true_iff in E'. destruct E' as [_ E'].
    cbn [combine forallb fst snd] in E'. apply andb_true_iff in E'. exact (proj1 E'). }
  apply G; [apply Hne, nth_In; exact Hi | apply Hne, nth_In; exact Hi' | exact E].
Qed.

Local Open Scope nat_scope.

Lemma mod_add_small i k n : i < n -> k <= n ->
  (i + k) mod n = if i + k <? n then i + k else i + k - n.
Proof.
  intros Hi Hk. destruct (i + k <? n) eqn:E.
  - apply Nat.ltb_lt in E. apply Nat.mod_small. exact E.
  - apply Nat.ltb_ge in E. symmetry. apply (Nat.mod_unique (i + k) n 1); lia.
Qed.

Lemma nth_rot_app : forall (A B : list seg) i d, i < length A + length B ->
  nth i (B ++ A) d = nth ((i + length A) mod (length A + length B)) (A ++ B) d.
Proof.
  intros A B i d Hi. rewrite mod_add_small by lia.
  destruct (i + length A <? length A + length B) eqn:E.
  - apply Nat.ltb_lt in E. rewrite app_nth1 by lia. rewrite app_nth2 by lia.
    f_equal. lia.
  - apply Nat.ltb_ge in E. rewrite app_nth2 by lia. rewrite app_nth1 by lia.
    f_equal. lia.
Qed.

Lemma rotl_length {A} k (l : list A) : length (rotl k l) = length l.
Proof.
  unfold rotl. rewrite app_length, skipn_length, firstn_length. lia.
Qed.

Lemma rotl_In {A} k (l : list A) x : In x (rotl k l) <-> In x l.
Proof.
  unfold rotl. rewrite in_app_iff.
  assert (H : In x l <-> In x (firstn k l) \/ In x (skipn k l))
    by (rewrite <- in_app_iff, firstn_skipn; reflexivity).
  tauto.
Qed.

Lemma rotl_big {A} k (l : list A) : length l <= k -> rotl k l = l.
Proof.
  intro H. unfold rotl. rewrite skipn_all2 by exact H. rewrite firstn_all2 by exact H. reflexivity.
Qed.

Lemma rotl_0 {A} (l : list A) : rotl 0 l = l.
Proof. unfold rotl. cbn [skipn firstn]. apply app_nil_r. Qed.

Lemma nth_rotl : forall (j : jordan) k i d, k < length j -> i < length j ->
  nth i (rotl k j) d = nth ((i + k) mod length j) j d.
Proof.
  intros j k i d Hk Hi. unfold rotl.
  assert (LA : length (firstn k j) = k) by (apply firstn_length_le; lia).
  assert (LB : length (skipn k j) = length j - k) by apply skipn_length.
  rewrite nth_rot_app by lia. rewrite firstn_skipn, LA, LB.
  replace (k + (length j - k)) with (length j) by lia. reflexivity.
Qed.

Lemma clean_scan_None_conv : forall n i (segs : list seg),
  (forall k, i <= k < i + n ->
     unite (nth k segs []) (nth ((k + 1) mod length segs) segs []) = UNo) ->
  clean_scan n i segs = Ok None.
Proof.
  induction n as [|n IH]; intros i segs H; [reflexivity|].
  cbn [clean_scan]. assert (E := H i ltac:(lia)).
  match goal with |- match ?u with _ => _ end = _ =>
    replace u with UNo by (symmetry; exact E) end.
  apply IH. intros k Hk. apply H. lia.
Qed.

Lemma clean_fix_of_scan : forall j, all_lines j = true ->
  (forall k, k < length j ->
     unite (nth k j []) (nth ((k + 1) mod length j) j []) = UNo) ->
  clean j = Ok j.
Proof.
  intros j HL H. apply SplitClean.all_lines_iff in HL.
  unfold clean. rewrite (SplitClean.map_seg_clean_lines j HL).
  rewrite (SplitClean.clean_loop_None (length j) j).
  - cbn [bind]. unfold set_segments. rewrite (SplitClean.map_seg_clean_lines j HL). reflexivity.
  - apply clean_scan_None_conv. intros k Hk. apply H. lia.
Qed.

Lemma all_lines_rotl k j : all_lines j = true -> all_lines (rotl k j) = true.
Proof.
  unfold all_lines. rewrite !forallb_forall. intros H s Hs. apply H. apply rotl_In in Hs. exact Hs.
Qed.

(* a rotation of a cleaned polygon is cleaned *)
Theorem clean_rotl : forall j k, all_lines j = true -> clean j = Ok j ->
  clean (rotl k j) = Ok (rotl k j).
Proof.
  intros j k HL Hc.
  destruct (Nat.le_gt_cases (length j) k) as [Hk|Hk]; [rewrite rotl_big by exact Hk; exact Hc|].
  apply clean_fix_of_scan; [apply all_lines_rotl; exact HL|].
  rewrite rotl_length. intros i Hi.
  assert (Hi1 : (i + 1) mod length j < length j) by (apply Nat.mod_upper_bound; lia).
  rewrite !nth_rotl by assumption.
  pose proof (SplitClean.clean_no_redundant j j HL Hc ((i + k) mod length j)) as U.
  replace (((i + 1) mod length j + k) mod length j)
    with (((i + k) mod length j + 1) mod length j).
  - apply U. apply Nat.mod_upper_bound. lia.
  - rewrite !Nat.add_mod_idemp_l by lia. f_equal. lia.
Qed.

Lemma index_where_spec : forall (f : seg -> bool) (sc : list seg) m, m < length sc ->
  f (nth m sc []) = true -> (forall i, i < m -> f (nth i sc []) = false) ->
  index_where f sc = Some m.
Proof.
  intros f sc. induction sc as [|x sc IH]; intros m Hm Ht Hf; cbn [length] in Hm; [lia|].
  cbn [index_where]. destruct m as [|m].
  - cbn [nth] in Ht. rewrite Ht. reflexivity.
  - pose proof (Hf 0%nat ltac:(lia)) as F0. cbn [nth] in F0. rewrite F0.
    cbn [nth] in Ht. rewrite (IH m); [reflexivity | lia | exact Ht |].
    intros i Hi. apply (Hf (S i)). lia.
Qed.

Lemma go_loop_shift (sc : list seg) (m : nat) : 0 < length sc -> forall (l : list seg) i,
  (forall t, t < length l -> nth t l [] = nth ((t + i + m) mod length sc) sc []) ->
  Tolerance.go_loop sc m i l = Ok true.
Proof.
  intros Hpos. induction l as [|s1 l IH]; intros i H; [reflexivity|].
  rewrite Tolerance.go_loop_cons.
  rewrite (nth_error_nth' sc []) by (apply Nat.mod_upper_bound; lia).
  pose proof (H 0%nat) as H0. cbn [length nth Nat.add] in H0. 
  match goal with |- context[seg_eq ?x s1] => replace x with s1 by (apply H0; lia) end.
  rewrite Tolerance.seg_eq_refl. apply IH. intros t Ht.
  pose proof (H (S t)) as HS. cbn [length nth] in HS. rewrite HS by lia.
  f_equal. f_equal. lia.
Qed.

Lemma points1_has_sub j j' : all_lines j = true ->
  (forall s, In s j -> tol6 < norm2 (psub (last_pt s) (first_pt s)))%Q ->
  (forall s, In s j' -> In s j) ->
  forallb (jordan_has j) (points j' 1) = true.
Proof.
  intros HL Hlong Hsub. apply forallb_forall. intros p Hp.
  unfold points in Hp. apply in_concat in Hp. destruct Hp as (l & Hl & Hp).
  apply in_map_iff in Hl. destruct Hl as (s & <- & Hs).
  apply in_map_iff in Hp. destruct Hp as (k & <- & Hk).
  apply in_seq in Hk.
  apply (Tolerance.jordan_has_evalr j s _ HL Hlong (Hsub _ Hs)).
  - destruct k as [|[|k]]; [vm_compute; discriminate | vm_compute; discriminate | lia].
  - destruct k as [|[|k]]; [vm_compute; discriminate | vm_compute; discriminate | lia].
Qed.

(* the general form: other is self read from index m on *)
Lemma jordan_eq_shift : forall sc oc m,
  all_lines sc = true ->
  (forall s, In s sc -> tol6 < norm2 (psub (last_pt s) (first_pt s)))%Q ->
  (forall s, In s oc -> In s sc) ->
  clean sc = Ok sc -> clean oc = Ok oc ->
  length oc = length sc -> m < length sc ->
  (forall t, t < length sc -> nth t oc [] = nth ((t + m) mod length sc) sc []) ->
  seg_distinct sc ->
  jordan_eq sc oc = Ok true.
Proof.
  intros sc oc m HL Hlong Hsub Hc Hc' Hlen Hm Hnth Hd. unfold jordan_eq.
  rewrite (points1_has_sub sc oc HL Hlong Hsub). cbn [negb].
  rewrite Hc, Hc'. cbn [bind]. rewrite Hlen, Nat.eqb_refl. cbn [negb].
  destruct oc as [|seg1 t]; [cbn [length] in Hlen; lia|].
  assert (E1 : seg1 = nth m sc []).
  { pose proof (Hnth 0%nat) as H0. cbn [nth Nat.add] in H0. rewrite H0 by lia.
    rewrite Nat.mod_small by lia. reflexivity. }
  rewrite (index_where_spec _ sc m Hm).
  - change (Tolerance.go_loop sc m 0 (seg1 :: t) = Ok true).
    apply go_loop_shift; [lia|]. intros u Hu. rewrite Hnth by lia. f_equal. f_equal. lia.
  - rewrite E1. apply Tolerance.seg_eq_refl.
  - intros i Hi. rewrite E1. destruct (seg_eq (nth i sc []) (nth m sc [])) eqn:E; [|reflexivity].
    apply Hd in E; lia.
Qed.

Lemma seg_distinct_rotl j k : seg_distinct j -> seg_distinct (rotl k j).
Proof.
  intros Hd. destruct (Nat.le_gt_cases (length j) k) as [Hk|Hk]; [rewrite rotl_big by exact Hk; exact Hd|].
  intros i i'. rewrite rotl_length. intros Hi Hi' E.
  rewrite !nth_rotl in E by assumption.
  apply Hd in E; try (apply Nat.mod_upper_bound; lia).
  rewrite !mod_add_small in E by lia.
  destruct (i + k <? length j) eqn:E1; destruct (i' + k <? length j) eqn:E2;
    rewrite ?Nat.ltb_lt, ?Nat.ltb_ge in *; lia.
Qed.

Theorem jordan_eq_rotl : forall j k, all_lines j = true -> j <> [] ->
  (forall s, In s j -> tol6 < norm2 (psub (last_pt s) (first_pt s)))%Q ->
  clean j = Ok j -> seg_distinct j ->
  jordan_eq j (rotl k j) = Ok true /\ jordan_eq (rotl k j) j = Ok true.
Proof.
  intros j k HL Hne Hlong Hc Hd.
  assert (Hpos : 0 < length j) by (destruct j; [congruence | cbn [length]; lia]).
  assert (Hrefl : jordan_eq j j = Ok true) by (apply Tolerance.jordan_eq_refl; assumption).
  destruct (Nat.le_gt_cases (length j) k) as [Hk|Hk]; [rewrite rotl_big by exact Hk; tauto|].
  destruct (Nat.eq_dec k 0) as [->|Hk0]; [rewrite rotl_0; tauto|].
  split.
  - apply (jordan_eq_shift j (rotl k j) k); try assumption.
    + intros s Hs. apply rotl_In in Hs. exact Hs.
    + apply clean_rotl; assumption.
    + apply rotl_length.
    + intros t Ht. apply nth_rotl; assumption.
  - apply (jordan_eq_shift (rotl k j) j (length j - k)).
    + apply all_lines_rotl; exact HL.
    + intros s Hs. apply rotl_In in Hs. apply Hlong; exact Hs.
    + intros s Hs. apply rotl_In. exact Hs.
    + apply clean_rotl; assumption.
    + exact Hc.
    + symmetry. apply rotl_length.
    + rewrite rotl_length. lia.
    + rewrite rotl_length. intros t Ht.
      rewrite nth_rotl by (try apply Nat.mod_upper_bound; lia).
      f_equal. rewrite Nat.add_mod_idemp_l by lia.
      replace (t + (length j - k) + k) with (t + length j) by lia.
      rewrite mod_add_small by lia.
      destruct (t + length j <? length j) eqn:E; rewrite ?Nat.ltb_lt, ?Nat.ltb_ge in E; lia.
    + apply seg_distinct_rotl; exact Hd.
Qed.

Local Close Scope nat_scope.

Print Assumptions contains_point_safe.
Print Assumptions safe_point_far.
Print Assumptions contains_point_safe_q.
Print Assumptions on_seg_eval.
Print Assumptions pt_eq_sym.
Print Assumptions seg_eq_sym.
Print Assumptions seg_eq_refl.
Print Assumptions box_and_none_sym.
Print Assumptions seg_and_swap.
Print Assumptions intersection_swap.
Print Assumptions intersection_swap_some.
Print Assumptions intersection_swap_none.
Print Assumptions intersection_outcome_swap.
Print Assumptions rotation_defect.
Print Assumptions clean_rotl.
Print Assumptions jordan_eq_rotl.
