(* Lines.v -- "curve intersection reports exactly the crossings":
   Intersection.lines solves the 2x2 system exactly; rows of
   JordanCurve.intersection are in range, carry parameters in [0,1] of a common
   point, and the flags filter as documented. *)
From SV Require Import Model.Jordan.
From Coq Require Import Lqa Lia.
Open Scope Q_scope.

Definition pt_at (a0 a1 : point) (u : Q) : point :=
  (px a0 + u * (px a1 - px a0), py a0 + u * (py a1 - py a0)).

(* ---------- booleans ---------- *)
Lemma Qlt_bool_true : forall a b, Qlt_bool a b = true <-> a < b.
Proof.
  intros a b. unfold Qlt_bool. rewrite negb_true_iff.
  split; intro H.
  - apply Qnot_le_lt. intro L. apply Qle_bool_iff in L. congruence.
  - destruct (Qle_bool b a) eqn:E; auto. apply Qle_bool_iff in E. lra.
Qed.
Lemma Qlt_bool_false : forall a b, Qlt_bool a b = false <-> b <= a.
Proof.
  intros a b. unfold Qlt_bool. rewrite negb_false_iff. apply Qle_bool_iff.
Qed.
Lemma out01_false : forall t, out01 t = false <-> 0 <= t <= 1.
Proof.
  intro t. unfold out01. rewrite orb_false_iff, !Qlt_bool_false. tauto.
Qed.
Lemma out01_true : forall t, out01 t = true <-> ~ (0 <= t <= 1).
Proof.
  intro t. rewrite <- out01_false. destruct (out01 t); split; congruence.
Qed.
Lemma inside01_true : forall t, inside01 t = true <-> 0 < t /\ t < 1.
Proof. intro t. unfold inside01. rewrite andb_true_iff, !Qlt_bool_true. tauto. Qed.

(* ---------- the 2x2 system ---------- *)
Definition ldet (a0 a1 b0 b1 : point) : Q := cross (psub a1 a0) (psub b1 b0).
Definition lpar0 (a0 a1 b0 b1 : point) : Q :=
  cross (psub b0 a0) (psub b1 b0) / ldet a0 a1 b0 b1.
Definition lpar1 (a0 a1 b0 b1 : point) : Q :=
  cross (psub b0 a0) (psub a1 a0) / ldet a0 a1 b0 b1.

Lemma lines_some : forall a0 a1 b0 b1 u v,
  lines [a0; a1] [b0; b1] = Some (u, v) <->
  ~ ldet a0 a1 b0 b1 == 0 /\
  0 <= lpar0 a0 a1 b0 b1 <= 1 /\ 0 <= lpar1 a0 a1 b0 b1 <= 1 /\
  u = Qred (lpar0 a0 a1 b0 b1) /\ v = Qred (lpar1 a0 a1 b0 b1).
Proof.
  intros. unfold lines.
  fold (ldet a0 a1 b0 b1). fold (lpar0 a0 a1 b0 b1). fold (lpar1 a0 a1 b0 b1).
  destruct (Qeq_bool (ldet a0 a1 b0 b1) 0) eqn:D.
  { apply Qeq_bool_iff in D. split; [discriminate | tauto]. }
  assert (D' : ~ ldet a0 a1 b0 b1 == 0).
  { intro H. apply Qeq_bool_iff in H. congruence. }
  destruct (out01 (lpar0 a0 a1 b0 b1)) eqn:O0.
  { apply out01_true in O0. split; [discriminate | tauto]. }
  destruct (out01 (lpar1 a0 a1 b0 b1)) eqn:O1.
  { apply out01_true in O1. split; [discriminate | tauto]. }
  apply out01_false in O0. apply out01_false in O1.
  split.
  - intro H. inversion H. tauto.
  - intros (_ & _ & _ & -> & ->). reflexivity.
Qed.

Lemma lines_none : forall a0 a1 b0 b1,
  lines [a0; a1] [b0; b1] = None <->
  (ldet a0 a1 b0 b1 == 0 \/
   ~ 0 <= lpar0 a0 a1 b0 b1 <= 1 \/ ~ 0 <= lpar1 a0 a1 b0 b1 <= 1).
Proof.
  intros. unfold lines.
  fold (ldet a0 a1 b0 b1). fold (lpar0 a0 a1 b0 b1). fold (lpar1 a0 a1 b0 b1).
  destruct (Qeq_bool (ldet a0 a1 b0 b1) 0) eqn:D.
  { apply Qeq_bool_iff in D. tauto. }
  assert (D' : ~ ldet a0 a1 b0 b1 == 0).
  { intro H. apply Qeq_bool_iff in H. congruence. }
  destruct (out01 (lpar0 a0 a1 b0 b1)) eqn:O0.
  { apply out01_true in O0. tauto. }
  destruct (out01 (lpar1 a0 a1 b0 b1)) eqn:O1.
  { apply out01_true in O1. tauto. }
  apply out01_false in O0. apply out01_false in O1.
  split; [discriminate | tauto].
Qed.

(* a result is only ever produced for two 2-point segments *)
Lemma lines_shape : forall sa sb uv, lines sa sb = Some uv ->
  exists a0 a1 b0 b1, sa = [a0; a1] /\ sb = [b0; b1].
Proof.
  intros sa sb uv H. unfold lines in H.
  destruct sa as [|a0 [|a1 [|? ?]]]; try discriminate.
  destruct sb as [|b0 [|b1 [|? ?]]]; try discriminate.
  repeat eexists.
Qed.

(* the solution satisfies the system *)
Lemma lpar_solves : forall a0 a1 b0 b1, ~ ldet a0 a1 b0 b1 == 0 ->
  peq (pt_at a0 a1 (lpar0 a0 a1 b0 b1)) (pt_at b0 b1 (lpar1 a0 a1 b0 b1)).
Proof.
  intros [x0 y0] [x1 y1] [z0 w0] [z1 w1].
  unfold peq, pt_at, lpar0, lpar1, ldet, cross, psub, px, py; cbn [fst snd].
  intro D. split; field; exact D.
Qed.

(* the solution is unique *)
Lemma Qdiv_unique : forall u n d, ~ d == 0 -> u * d == n -> u == n / d.
Proof. intros u n d D H. rewrite <- H. field. exact D. Qed.

Lemma lpar_unique : forall a0 a1 b0 b1 u v, ~ ldet a0 a1 b0 b1 == 0 ->
  peq (pt_at a0 a1 u) (pt_at b0 b1 v) ->
  u == lpar0 a0 a1 b0 b1 /\ v == lpar1 a0 a1 b0 b1.
Proof.
  intros [x0 y0] [x1 y1] [z0 w0] [z1 w1] u v.
  unfold peq, pt_at, lpar0, lpar1, ldet, cross, psub, px, py; cbn [fst snd].
  intros D [Hx Hy].
  assert (Ex : z0 - x0 == u * (x1 - x0) - v * (z1 - z0)) by lra.
  assert (Ey : w0 - y0 == u * (y1 - y0) - v * (w1 - w0)) by lra.
  split; apply Qdiv_unique; try exact D; rewrite Ex, Ey; ring.
Qed.

(* ---------- peq is an equivalence; pt_at respects == ---------- *)
Lemma peq_refl : forall p, peq p p.
Proof. intro p. split; reflexivity. Qed.
Lemma peq_sym : forall p q, peq p q -> peq q p.
Proof. intros p q [H1 H2]. split; symmetry; assumption. Qed.
Lemma peq_trans : forall p q r, peq p q -> peq q r -> peq p r.
Proof. intros p q r [H1 H2] [H3 H4]. split; etransitivity; eassumption. Qed.
Lemma pt_at_compat : forall a0 a1 u u', u == u' -> peq (pt_at a0 a1 u) (pt_at a0 a1 u').
Proof. intros a0 a1 u u' H. unfold peq, pt_at, px, py; cbn [fst snd]. rewrite H. split; reflexivity. Qed.

(* ---------- L1 ---------- *)
Theorem lines_sound : forall a0 a1 b0 b1 u v,
  lines [a0; a1] [b0; b1] = Some (u, v) ->
  0 <= u /\ u <= 1 /\ 0 <= v /\ v <= 1 /\ peq (pt_at a0 a1 u) (pt_at b0 b1 v).
Proof.
  intros a0 a1 b0 b1 u v H. apply lines_some in H.
  destruct H as (D & [L0 U0] & [L1 U1] & -> & ->).
  split; [rewrite Qred_correct; assumption |].
  split; [rewrite Qred_correct; assumption |].
  split; [rewrite Qred_correct; assumption |].
  split; [rewrite Qred_correct; assumption |].
  eapply peq_trans; [apply pt_at_compat, Qred_correct |].
  eapply peq_trans; [apply (lpar_solves a0 a1 b0 b1 D) |].
  apply pt_at_compat. symmetry. apply Qred_correct.
Qed.

(* ---------- L2 ---------- *)
Theorem lines_complete : forall a0 a1 b0 b1 u v,
  ~ cross (psub a1 a0) (psub b1 b0) == 0 ->
  0 <= u <= 1 -> 0 <= v <= 1 ->
  peq (pt_at a0 a1 u) (pt_at b0 b1 v) ->
  exists u' v', lines [a0; a1] [b0; b1] = Some (u', v') /\ u' == u /\ v' == v.
Proof.
  intros a0 a1 b0 b1 u v D Hu Hv E. fold (ldet a0 a1 b0 b1) in D.
  destruct (lpar_unique a0 a1 b0 b1 u v D E) as [Eu Ev].
  exists (Qred (lpar0 a0 a1 b0 b1)), (Qred (lpar1 a0 a1 b0 b1)).
  split; [| split; rewrite Qred_correct; symmetry; assumption].
  apply lines_some. destruct Hu, Hv.
  repeat split; try reflexivity; try assumption; lra.
Qed.

(* the two together: lines is exactly the crossing test of non-parallel segments *)
Corollary lines_exact : forall a0 a1 b0 b1,
  ~ cross (psub a1 a0) (psub b1 b0) == 0 ->
  forall u v, 0 <= u <= 1 -> 0 <= v <= 1 ->
  (peq (pt_at a0 a1 u) (pt_at b0 b1 v) <->
   exists u' v', lines [a0; a1] [b0; b1] = Some (u', v') /\ u' == u /\ v' == v).
Proof.
  intros a0 a1 b0 b1 D u v Hu Hv. split.
  - apply lines_complete; assumption.
  - intros (u' & v' & H & Eu & Ev). apply lines_sound in H.
    destruct H as (_ & _ & _ & _ & H).
    eapply peq_trans; [apply pt_at_compat; symmetry; exact Eu |].
    eapply peq_trans; [exact H |]. apply pt_at_compat; exact Ev.
Qed.

(* parallel (or degenerate) segments never produce a crossing *)
Lemma lines_parallel : forall a0 a1 b0 b1,
  cross (psub a1 a0) (psub b1 b0) == 0 -> lines [a0; a1] [b0; b1] = None.
Proof. intros. apply lines_none. left. assumption. Qed.

(* ---------- L3 ---------- *)
Lemma ldet_swap : forall a0 a1 b0 b1, ldet b0 b1 a0 a1 == - ldet a0 a1 b0 b1.
Proof.
  intros [x0 y0] [x1 y1] [z0 w0] [z1 w1].
  unfold ldet, cross, psub, px, py; cbn [fst snd]. ring.
Qed.
Lemma ldet_swap_nz : forall a0 a1 b0 b1,
  ~ ldet a0 a1 b0 b1 == 0 -> ~ ldet b0 b1 a0 a1 == 0.
Proof. intros a0 a1 b0 b1 D H. apply D. rewrite ldet_swap in H. lra. Qed.
Lemma lpar_swap : forall a0 a1 b0 b1, ~ ldet a0 a1 b0 b1 == 0 ->
  lpar0 b0 b1 a0 a1 == lpar1 a0 a1 b0 b1 /\ lpar1 b0 b1 a0 a1 == lpar0 a0 a1 b0 b1.
Proof.
  intros [x0 y0] [x1 y1] [z0 w0] [z1 w1].
  unfold lpar0, lpar1, ldet, cross, psub, px, py; cbn [fst snd].
  intro D. split; field; split; try exact D; intro H; apply D; lra.
Qed.

Theorem lines_swap : forall a0 a1 b0 b1 u v,
  lines [a0; a1] [b0; b1] = Some (u, v) -> lines [b0; b1] [a0; a1] = Some (v, u).
Proof.
  intros a0 a1 b0 b1 u v H. apply lines_some in H.
  destruct H as (D & B0 & B1 & -> & ->).
  destruct (lpar_swap a0 a1 b0 b1 D) as [E0 E1].
  apply lines_some. split; [apply ldet_swap_nz; exact D |].
  destruct B0, B1.
  repeat split; try lra; apply Qred_complete; symmetry; assumption.
Qed.

Theorem lines_swap_none : forall a0 a1 b0 b1,
  lines [a0; a1] [b0; b1] = None -> lines [b0; b1] [a0; a1] = None.
Proof.
  intros a0 a1 b0 b1 H.
  destruct (lines [b0; b1] [a0; a1]) as [[v u]|] eqn:E; [| reflexivity].
  apply lines_swap in E. congruence.
Qed.

(* the statement of the task, with the witnesses *)
Corollary lines_swap_ex : forall a0 a1 b0 b1 u v,
  lines [a0; a1] [b0; b1] = Some (u, v) ->
  exists u' v', lines [b0; b1] [a0; a1] = Some (v', u') /\ u' == u /\ v' == v.
Proof.
  intros. exists u, v. split; [apply lines_swap; assumption | split; reflexivity].
Qed.

(* for arbitrary segments: lines is symmetric up to swapping the pair *)
Corollary lines_swap_gen : forall sa sb,
  lines sb sa = option_map (fun uv => (snd uv, fst uv)) (lines sa sb).
Proof.
  intros sa sb.
  destruct (lines sa sb) as [[u v]|] eqn:E; cbn [option_map fst snd].
  - destruct (lines_shape _ _ _ E) as (a0 & a1 & b0 & b1 & -> & ->).
    apply lines_swap; assumption.
  - destruct (lines sb sa) as [[v u]|] eqn:E'; [| reflexivity].
    destruct (lines_shape _ _ _ E') as (b0 & b1 & a0 & a1 & -> & ->).
    apply lines_swap in E'. congruence.
Qed.

(* ---------- L4 ---------- *)
Lemma eval_deg1 : forall a0 a1 t, peq (eval [a0; a1] t) (pt_at a0 a1 t).
Proof.
  intros [x0 y0] [x1 y1] t. unfold pt_at.
  cbv [eval canon horner degree length map map2 seq psum fold_right fold_left
       padd pscale pzero px py fst snd caract comb Nat.sub Nat.add Nat.mul Nat.leb Nat.odd Nat.even negb
       Z.of_nat Pos.of_succ_nat Pos.succ Z.mul Z.div Z.div_eucl Z.pos_div_eucl Z.opp
       Pos.mul Pos.add Z.leb Z.ltb Z.compare Pos.compare Pos.compare_cont Z.add Z.sub Z.pos_sub
       Z.double Z.succ_double Z.pred_double Pos.pred_double inject_Z peq].
  split; ring.
Qed.

Theorem lines_eval : forall sa sb u v,
  lines sa sb = Some (u, v) -> peq (eval sa u) (eval sb v).
Proof.
  intros sa sb u v H.
  destruct (lines_shape _ _ _ H) as (a0 & a1 & b0 & b1 & -> & ->).
  apply lines_sound in H. destruct H as (_ & _ & _ & _ & H).
  eapply peq_trans; [apply eval_deg1 |].
  eapply peq_trans; [exact H |]. apply peq_sym, eval_deg1.
Qed.

Lemma lines_bounds : forall sa sb u v,
  lines sa sb = Some (u, v) -> 0 <= u <= 1 /\ 0 <= v <= 1.
Proof.
  intros sa sb u v H.
  destruct (lines_shape _ _ _ H) as (a0 & a1 & b0 & b1 & -> & ->).
  apply lines_sound in H. tauto.
Qed.

(* ---------- list helpers ---------- *)
Section ListFacts.
  Context {A B : Type}.

  Lemma insert_sorted_In : forall (le : A -> A -> bool) x y l,
    In y (insert_sorted le x l) <-> y = x \/ In y l.
  Proof.
    intros le x y l. induction l as [|z t IH]; cbn [insert_sorted].
    - cbn [In]. intuition.
    - destruct (le x z); cbn [In] in *; rewrite ?IH; intuition.
  Qed.

  Lemma sort_by_In : forall (le : A -> A -> bool) y l, In y (sort_by le l) <-> In y l.
  Proof.
    intros le y l. unfold sort_by. induction l as [|z t IH]; cbn [fold_right].
    - tauto.
    - rewrite insert_sorted_In, IH. cbn [In]. intuition.
  Qed.

  Lemma dedup_In : forall (eqb : A -> A -> bool) y l, In y (dedup eqb l) -> In y l.
  Proof.
    intros eqb y l. induction l as [|z t IH]; cbn [dedup]; [tauto|].
    destruct (existsb (eqb z) t); cbn [In]; intuition.
  Qed.

  (* every dropped element is represented, up to a chain of eqb-links *)
  Lemma dedup_repr : forall (eqb : A -> A -> bool) (R : A -> A -> Prop),
    (forall x, R x x) -> (forall x y z, R x y -> R y z -> R x z) ->
    (forall x y, eqb x y = true -> R x y) ->
    forall l x, In x l -> exists y, In y (dedup eqb l) /\ R x y.
  Proof.
    intros eqb R Rr Rt Re l. induction l as [|z t IH]; intros x Hx; [destruct Hx|].
    cbn [dedup]. destruct (existsb (eqb z) t) eqn:E.
    - destruct Hx as [<- | Hx]; [| apply IH; exact Hx].
      apply existsb_exists in E. destruct E as (w & Hw & Ew).
      destruct (IH w Hw) as (y & Hy & Ry). exists y. split; [exact Hy |].
      eapply Rt; [apply Re; exact Ew | exact Ry].
    - destruct Hx as [<- | Hx].
      + exists z. split; [left; reflexivity | apply Rr].
      + destruct (IH x Hx) as (y & Hy & Ry). exists y. split; [right; exact Hy | exact Ry].
  Qed.

  Lemma mapM_In : forall (f : A -> res B) l ys y,
    mapM f l = Ok ys -> In y ys -> exists x, In x l /\ f x = Ok y.
  Proof.
    intros f l. induction l as [|x t IH]; intros ys y H Hy; cbn [mapM] in H.
    - inversion H; subst. destruct Hy.
    - destruct (f x) as [y0| |] eqn:Fx; cbn [bind] in H; try discriminate.
      destruct (mapM f t) as [ys0| |] eqn:Ft; cbn [bind] in H; try discriminate.
      inversion H; subst. destruct Hy as [<- | Hy].
      + exists x. split; [left; reflexivity | exact Fx].
      + destruct (IH ys0 y eq_refl Hy) as (x' & Hx' & Fx'). exists x'. split; [right|]; assumption.
  Qed.

  Lemma mapM_In_conv : forall (f : A -> res B) l ys x,
    mapM f l = Ok ys -> In x l -> exists y, f x = Ok y /\ In y ys.
  Proof.
    intros f l. induction l as [|x0 t IH]; intros ys x H Hx; [destruct Hx|].
    cbn [mapM] in H.
    destruct (f x0) as [y0| |] eqn:Fx; cbn [bind] in H; try discriminate.
    destruct (mapM f t) as [ys0| |] eqn:Ft; cbn [bind] in H; try discriminate.
    inversion H; subst. destruct Hx as [<- | Hx].
    - exists y0. split; [exact Fx | left; reflexivity].
    - destruct (IH ys0 x eq_refl Hx) as (y & Fy & Hy). exists y. split; [|right]; assumption.
  Qed.

  Lemma mapM_total : forall (f : A -> res B) l,
    (forall x, In x l -> exists y, f x = Ok y) -> exists ys, mapM f l = Ok ys.
  Proof.
    intros f l. induction l as [|x t IH]; intro H; cbn [mapM].
    - eexists; reflexivity.
    - destruct (H x (or_introl eq_refl)) as (y & ->).
      destruct IH as (ys & ->). { intros x' Hx'. apply H. right; exact Hx'. }
      cbn [bind]. eexists; reflexivity.
  Qed.

  Lemma combine_seq_In : forall (d : A) l s i x,
    In (i, x) (combine (seq s (length l)) l) ->
    (s <= i < s + length l)%nat /\ nth (i - s) l d = x.
  Proof.
    intros d l. induction l as [|z t IH]; intros s i x H; cbn [length seq combine] in H.
    - destruct H.
    - destruct H as [H | H].
      + inversion H; subst. cbn [length]. split; [lia|]. rewrite Nat.sub_diag. reflexivity.
      + apply IH in H. destruct H as [H1 H2]. cbn [length]. split; [lia|].
        replace (i - s)%nat with (S (i - S s)) by lia. exact H2.
  Qed.

  Lemma combine_seq_In_conv : forall (d : A) l s i,
    (i < length l)%nat -> In ((s + i)%nat, nth i l d) (combine (seq s (length l)) l).
  Proof.
    intros d l. induction l as [|z t IH]; intros s i H; cbn [length] in H; [lia|].
    cbn [length seq combine]. destruct i as [|i].
    - left. rewrite Nat.add_0_r. reflexivity.
    - right. replace (s + S i)%nat with (S s + i)%nat by lia. apply IH. lia.
  Qed.
End ListFacts.

(* ---------- seg_and ---------- *)
Lemma seg_and_pairs : forall sa sb l,
  seg_and sa sb = Ok (IPairs l) -> exists uv, l = [uv] /\ lines sa sb = Some uv.
Proof.
  intros sa sb l H. unfold seg_and in H.
  destruct (box_and (seg_box sa) (seg_box sb)); [| discriminate].
  destruct (seg_eq sa sb); [discriminate |].
  destruct (Nat.eqb (degree sa) 1 && Nat.eqb (degree sb) 1); [| discriminate].
  destruct (lines sa sb) as [uv|]; [| discriminate].
  inversion H. exists uv. split; reflexivity.
Qed.

Lemma seg_and_equal : forall sa sb,
  seg_and sa sb = Ok IEqual -> seg_eq sa sb = true.
Proof.
  intros sa sb H. unfold seg_and in H.
  destruct (box_and (seg_box sa) (seg_box sb)); [| discriminate].
  destruct (seg_eq sa sb); [reflexivity |].
  destruct (Nat.eqb (degree sa) 1 && Nat.eqb (degree sb) 1); [| discriminate].
  destruct (lines sa sb); discriminate.
Qed.

(* for 2-point segments seg_and never raises *)
Lemma seg_and_total : forall sa sb, length sa = 2%nat -> length sb = 2%nat ->
  exists r, seg_and sa sb = Ok r.
Proof.
  intros sa sb Ha Hb. unfold seg_and, degree. rewrite Ha, Hb. cbn [Nat.sub Nat.eqb andb].
  destruct (box_and (seg_box sa) (seg_box sb)); [| eexists; reflexivity].
  destruct (seg_eq sa sb); [eexists; reflexivity |].
  destruct (lines sa sb); eexists; reflexivity.
Qed.

(* what a row says about the pair of segments it names *)
Definition row_of (r : inter) (o : option (Q * Q)) : Prop :=
  match o with
  | None => r = IEqual
  | Some uv => r = IPairs [uv]
  end.

Lemma cell_rows : forall (a b : nat) r (a' b' : nat) (o : option (Q * Q)),
  In (a', b', o)
     match r with
     | INone => []
     | IEqual => [(a, b, None)]
     | IPairs l => map (fun uv => (a, b, Some uv)) l
     end ->
  (exists sa sb, seg_and sa sb = Ok r) ->
  a' = a /\ b' = b /\ row_of r o.
Proof.
  intros a b r a' b' o H (sa & sb & S). destruct r as [| |l].
  - destruct H.
  - destruct H as [H | []]. inversion H; subst. repeat split.
  - destruct (seg_and_pairs _ _ _ S) as (uv & -> & _).
    destruct H as [H | []]. inversion H; subst. repeat split.
Qed.

(* ---------- rows of raw_intersection ---------- *)
Lemma raw_rows_sound : forall ja jb rows a b o,
  raw_intersection ja jb = Ok rows -> In (a, b, o) rows ->
  (a < length ja)%nat /\ (b < length jb)%nat /\
  exists r, seg_and (nth a ja []) (nth b jb []) = Ok r /\ row_of r o.
Proof.
  intros ja jb rows a b o H Hin. unfold raw_intersection in H.
  match type of H with bind ?m _ = _ => destruct m as [rws| |] eqn:M end;
    cbn [bind] in H; try discriminate.
  inversion H; subst rows; clear H.
  apply dedup_In in Hin. apply in_concat in Hin. destruct Hin as (row & Hrow & Hin).
  destruct (mapM_In _ _ _ _ M Hrow) as ([a' sa] & Hia & Fa). cbn beta iota in Fa.
  match type of Fa with bind ?m _ = _ => destruct m as [per_b| |] eqn:Mb end;
    cbn [bind] in Fa; try discriminate.
  inversion Fa; subst row; clear Fa.
  apply in_concat in Hin. destruct Hin as (cell & Hcell & Hin).
  destruct (mapM_In _ _ _ _ Mb Hcell) as ([b' sb] & Hib & Fb). cbn beta iota in Fb.
  destruct (seg_and sa sb) as [r| |] eqn:S; cbn [bind] in Fb; try discriminate.
  inversion Fb; subst cell; clear Fb.
  destruct (cell_rows _ _ _ _ _ _ Hin) as (-> & -> & R). { exists sa, sb. exact S. }
  apply (combine_seq_In (A:=seg) []) in Hia. apply (combine_seq_In (A:=seg) []) in Hib.
  rewrite Nat.sub_0_r in Hia, Hib.
  destruct Hia as [Ha <-]. destruct Hib as [Hb <-].
  split; [lia |]. split; [lia |]. exists r. split; assumption.
Qed.

(* completeness of the matrix: every pair of segments with a result has its row *)
Lemma raw_rows_complete : forall ja jb rows a b r o,
  raw_intersection ja jb = Ok rows ->
  (a < length ja)%nat -> (b < length jb)%nat ->
  seg_and (nth a ja []) (nth b jb []) = Ok r -> row_of r o ->
  In (a, b, o) rows.
Proof.
  intros ja jb rows a b r o H Ha Hb S R.
  pose proof H as H0. unfold raw_intersection in H.
  match type of H with bind ?m _ = _ => destruct m as [rws| |] eqn:M end;
    cbn [bind] in H; try discriminate.
  inversion H; subst rows; clear H.
  pose proof (combine_seq_In_conv (A:=seg) [] ja 0 a Ha) as Hia. cbn [Nat.add] in Hia.
  destruct (mapM_In_conv _ _ _ _ M Hia) as (row & Fa & Hrow). cbn beta iota in Fa.
  match type of Fa with bind ?m _ = _ => destruct m as [per_b| |] eqn:Mb end;
    cbn [bind] in Fa; try discriminate.
  inversion Fa; subst row; clear Fa.
  pose proof (combine_seq_In_conv (A:=seg) [] jb 0 b Hb) as Hib. cbn [Nat.add] in Hib.
  destruct (mapM_In_conv _ _ _ _ Mb Hib) as (cell & Fb & Hcell). cbn beta iota in Fb.
  rewrite S in Fb. cbn [bind] in Fb. inversion Fb; subst cell; clear Fb.
  assert (Hin : In (a, b, o) (concat rws)).
  { apply in_concat. eexists. split; [exact Hrow |].
    apply in_concat. eexists. split; [exact Hcell |].
    destruct o as [uv|]; cbn [row_of] in R; subst r; cbn [map]; left; reflexivity. }
  (* dedup keeps a representative with the same (a,b); its payload is determined *)
  destruct (dedup_repr irow_eqb (fun x y : irow => fst x = fst y)) with (l := concat rws) (x := (a, b, o))
    as ([[a' b'] o'] & Hy & Ry); try exact Hin.
  { reflexivity. }
  { intros; congruence. }
  { intros [[a1 b1] o1] [[a2 b2] o2] E. unfold irow_eqb, irow_le in E. cbn [fst].
    apply andb_true_iff in E. destruct E as [E1 E2].
    rewrite orb_true_iff, andb_true_iff, orb_true_iff, andb_true_iff in E1, E2.
    rewrite !Nat.ltb_lt, !Nat.eqb_eq in E1, E2.
    assert (a1 = a2) by lia. subst a2. assert (b1 = b2) by lia. subst b2. reflexivity. }
  cbn [fst] in Ry. inversion Ry; subst a' b'; clear Ry.
  destruct (raw_rows_sound _ _ _ _ _ _ H0 Hy) as (_ & _ & r' & S' & R').
  rewrite S in S'. inversion S'; subst r'; clear S'.
  replace o with o'; [exact Hy |].
  destruct o as [uv|], o' as [uv'|]; cbn [row_of] in R, R'; congruence.
Qed.

(* ---------- rows of intersection ---------- *)
Definition keep (eb ep : bool) (x : irow) : bool :=
  (eb || match snd x with None => false | Some _ => true end) &&
  (ep || match snd x with None => true | Some (u, v) => inside01 u || inside01 v end).

Lemma intersection_In : forall ja jb eb ep rows,
  intersection ja jb eb ep = Ok rows ->
  exists raw, raw_intersection ja jb = Ok raw /\
    forall x, In x rows <-> In x raw /\ keep eb ep x = true.
Proof.
  intros ja jb eb ep rows H. unfold intersection in H.
  destruct (raw_intersection ja jb) as [raw| |]; cbn [bind] in H; try discriminate.
  exists raw. split; [reflexivity |]. inversion H; subst rows; clear H.
  intro x. rewrite sort_by_In. unfold keep.
  destruct eb, ep; cbn [orb andb]; rewrite ?filter_In, ?andb_true_r, ?andb_true_iff; tauto.
Qed.

(* L5a *)
Theorem intersection_range : forall ja jb eb ep rows,
  intersection ja jb eb ep = Ok rows ->
  forall a b o, In (a, b, o) rows -> (a < length ja)%nat /\ (b < length jb)%nat.
Proof.
  intros ja jb eb ep rows H a b o Hin.
  destruct (intersection_In _ _ _ _ _ H) as (raw & Hraw & Hiff).
  apply Hiff in Hin. destruct Hin as [Hin _].
  destruct (raw_rows_sound _ _ _ _ _ _ Hraw Hin) as (Ha & Hb & _). split; assumption.
Qed.

(* L5b -- no hypothesis on the curves is needed: a Some-row is only ever
   produced by [lines], which only answers for 2-point segments *)
Theorem intersection_params : forall ja jb eb ep rows,
  intersection ja jb eb ep = Ok rows ->
  forall a b u v, In (a, b, Some (u, v)) rows ->
  0 <= u <= 1 /\ 0 <= v <= 1 /\ peq (eval (nth a ja []) u) (eval (nth b jb []) v).
Proof.
  intros ja jb eb ep rows H a b u v Hin.
  destruct (intersection_In _ _ _ _ _ H) as (raw & Hraw & Hiff).
  apply Hiff in Hin. destruct Hin as [Hin _].
  destruct (raw_rows_sound _ _ _ _ _ _ Hraw Hin) as (_ & _ & r & S & R).
  cbn [row_of] in R. subst r.
  destruct (seg_and_pairs _ _ _ S) as (uv & E & L). inversion E; subst uv; clear E.
  destruct (lines_bounds _ _ _ _ L) as [Bu Bv].
  split; [exact Bu |]. split; [exact Bv |]. apply lines_eval; exact L.
Qed.

(* a Some-row is exactly the answer of [lines] on the two named segments *)
Theorem intersection_row_lines : forall ja jb eb ep rows,
  intersection ja jb eb ep = Ok rows ->
  forall a b uv, In (a, b, Some uv) rows -> lines (nth a ja []) (nth b jb []) = Some uv.
Proof.
  intros ja jb eb ep rows H a b uv Hin.
  destruct (intersection_In _ _ _ _ _ H) as (raw & Hraw & Hiff).
  apply Hiff in Hin. destruct Hin as [Hin _].
  destruct (raw_rows_sound _ _ _ _ _ _ Hraw Hin) as (_ & _ & r & S & R).
  cbn [row_of] in R. subst r.
  destruct (seg_and_pairs _ _ _ S) as (uv' & E & L). inversion E; subst uv'. exact L.
Qed.

(* a None-row names two segments that are equal (Point2D tolerance) *)
Theorem intersection_row_equal : forall ja jb eb ep rows,
  intersection ja jb eb ep = Ok rows ->
  forall a b, In (a, b, None) rows -> seg_eq (nth a ja []) (nth b jb []) = true.
Proof.
  intros ja jb eb ep rows H a b Hin.
  destruct (intersection_In _ _ _ _ _ H) as (raw & Hraw & Hiff).
  apply Hiff in Hin. destruct Hin as [Hin _].
  destruct (raw_rows_sound _ _ _ _ _ _ Hraw Hin) as (_ & _ & r & S & R).
  cbn [row_of] in R. subst r. apply seg_and_equal; exact S.
Qed.

(* at most one row per pair of segments *)
Theorem intersection_row_unique : forall ja jb eb ep rows,
  intersection ja jb eb ep = Ok rows ->
  forall a b o o', In (a, b, o) rows -> In (a, b, o') rows -> o = o'.
Proof.
  intros ja jb eb ep rows H a b o o' H1 H2.
  destruct (intersection_In _ _ _ _ _ H) as (raw & Hraw & Hiff).
  apply Hiff in H1. apply Hiff in H2. destruct H1 as [H1 _]. destruct H2 as [H2 _].
  destruct (raw_rows_sound _ _ _ _ _ _ Hraw H1) as (_ & _ & r & S & R).
  destruct (raw_rows_sound _ _ _ _ _ _ Hraw H2) as (_ & _ & r' & S' & R').
  rewrite S in S'. inversion S'; subst r'.
  destruct o, o'; cbn [row_of] in R, R'; congruence.
Qed.

(* ---------- L6: the flags ---------- *)
Theorem intersection_no_equal : forall ja jb ep rows,
  intersection ja jb false ep = Ok rows ->
  forall a b o, In (a, b, o) rows -> o <> None.
Proof.
  intros ja jb ep rows H a b o Hin.
  destruct (intersection_In _ _ _ _ _ H) as (raw & _ & Hiff).
  apply Hiff in Hin. destruct Hin as [_ K]. unfold keep in K. cbn [snd orb] in K.
  destruct o; [discriminate | discriminate K].
Qed.

Theorem intersection_no_end_points : forall ja jb eb rows,
  intersection ja jb eb false = Ok rows ->
  forall a b u v, In (a, b, Some (u, v)) rows -> inside01 u || inside01 v = true.
Proof.
  intros ja jb eb rows H a b u v Hin.
  destruct (intersection_In _ _ _ _ _ H) as (raw & _ & Hiff).
  apply Hiff in Hin. destruct Hin as [_ K]. unfold keep in K. cbn [snd orb] in K.
  apply andb_true_iff in K. destruct K as [_ K]. exact K.
Qed.

Theorem intersection_subset : forall ja jb eb ep rows,
  intersection ja jb eb ep = Ok rows ->
  exists rows', intersection ja jb true true = Ok rows' /\ incl rows rows'.
Proof.
  intros ja jb eb ep rows H.
  destruct (intersection_In _ _ _ _ _ H) as (raw & Hraw & Hiff).
  unfold intersection. rewrite Hraw. cbn [bind]. eexists. split; [reflexivity |].
  intros x Hx. apply sort_by_In. apply Hiff in Hx. tauto.
Qed.

(* the flags are exactly a filter of the full matrix *)
Theorem intersection_flags : forall ja jb eb ep rows rows',
  intersection ja jb eb ep = Ok rows -> intersection ja jb true true = Ok rows' ->
  forall x, In x rows <-> In x rows' /\ keep eb ep x = true.
Proof.
  intros ja jb eb ep rows rows' H H'.
  destruct (intersection_In _ _ _ _ _ H) as (raw & Hraw & Hiff).
  destruct (intersection_In _ _ _ _ _ H') as (raw' & Hraw' & Hiff').
  rewrite Hraw in Hraw'. inversion Hraw'; subst raw'.
  intro x. rewrite Hiff, Hiff'. unfold keep at 2. cbn [orb andb]. tauto.
Qed.

(* the flags do not change whether the call raises *)
Theorem intersection_flags_outcome : forall ja jb eb ep,
  (exists rows, intersection ja jb eb ep = Ok rows) <->
  (exists raw, raw_intersection ja jb = Ok raw).
Proof.
  intros. unfold intersection. split.
  - intros (rows & H). destruct (raw_intersection ja jb); cbn [bind] in H; try discriminate.
    eexists; reflexivity.
  - intros (raw & ->). cbn [bind]. eexists; reflexivity.
Qed.

(* curves of 2-point segments: the call never raises *)
Theorem intersection_total : forall ja jb eb ep,
  (forall s, In s ja -> length s = 2%nat) -> (forall s, In s jb -> length s = 2%nat) ->
  exists rows, intersection ja jb eb ep = Ok rows.
Proof.
  intros ja jb eb ep Ha Hb. apply intersection_flags_outcome.
  unfold raw_intersection.
  match goal with |- exists _, bind ?m _ = _ => destruct (mapM_total _ _ : _ -> exists ys, m = Ok ys) as (rws & ->) end.
  - intros [a sa] Hia. apply in_combine_r in Hia.
    match goal with |- exists _, bind ?m _ = _ => destruct (mapM_total _ _ : _ -> exists ys, m = Ok ys) as (pb & ->) end.
    + intros [b sb] Hib. apply in_combine_r in Hib.
      destruct (seg_and_total sa sb (Ha _ Hia) (Hb _ Hib)) as (r & ->).
      cbn [bind]. eexists; reflexivity.
    + cbn [bind]. eexists; reflexivity.
  - cbn [bind]. eexists; reflexivity.
Qed.

(* completeness of the full matrix *)
Theorem intersection_complete_cell : forall ja jb rows a b r o,
  intersection ja jb true true = Ok rows ->
  (a < length ja)%nat -> (b < length jb)%nat ->
  seg_and (nth a ja []) (nth b jb []) = Ok r -> row_of r o ->
  In (a, b, o) rows.
Proof.
  intros ja jb rows a b r o H Ha Hb S R.
  destruct (intersection_In _ _ _ _ _ H) as (raw & Hraw & Hiff).
  apply Hiff. split; [| reflexivity].
  eapply raw_rows_complete; eassumption.
Qed.

(* ---------- the bounding-box shortcut never hides a crossing ---------- *)
Lemma lerp_between : forall x0 x1 u, 0 <= u <= 1 ->
  Qmin' x0 x1 <= x0 + u * (x1 - x0) <= Qmax' x0 x1.
Proof.
  intros x0 x1 u [U0 U1]. unfold Qmin', Qmax'.
  destruct (Qle_bool x0 x1) eqn:E.
  - apply Qle_bool_iff in E. split; nra.
  - assert (x1 <= x0).
    { destruct (Qlt_le_dec x1 x0) as [L | L]; [lra |]. apply Qle_bool_iff in L. congruence. }
    split; nra.
Qed.

Lemma Qmax'_lub : forall a b c, a <= c -> b <= c -> Qmax' a b <= c.
Proof. intros a b c. unfold Qmax'. destruct (Qle_bool a b); auto. Qed.
Lemma Qmin'_glb : forall a b c, c <= a -> c <= b -> c <= Qmin' a b.
Proof. intros a b c. unfold Qmin'. destruct (Qle_bool a b); auto. Qed.

Lemma seg_box_2 : forall a0 a1,
  seg_box [a0; a1] =
  (Qmin' (px a0) (px a1), Qmin' (py a0) (py a1), Qmax' (px a0) (px a1), Qmax' (py a0) (py a1)).
Proof. reflexivity. Qed.

Lemma box_and_common_point : forall a0 a1 b0 b1 u v,
  0 <= u <= 1 -> 0 <= v <= 1 -> peq (pt_at a0 a1 u) (pt_at b0 b1 v) ->
  box_and (seg_box [a0; a1]) (seg_box [b0; b1]) <> None.
Proof.
  intros a0 a1 b0 b1 u v Hu Hv [Ex Ey]. rewrite !seg_box_2.
  unfold pt_at, px, py in Ex, Ey; cbn [fst snd] in Ex, Ey.
  pose proof (lerp_between (fst a0) (fst a1) u Hu) as [A1 A2].
  pose proof (lerp_between (snd a0) (snd a1) u Hu) as [A3 A4].
  pose proof (lerp_between (fst b0) (fst b1) v Hv) as [B1 B2].
  pose proof (lerp_between (snd b0) (snd b1) v Hv) as [B3 B4].
  rewrite <- Ex in B1, B2. rewrite <- Ey in B3, B4.
  unfold box_and, bxmin, bxmax, bymin, bymax, px, py; cbn [fst snd].
  match goal with |- context [Qlt_bool ?a ?b] => destruct (Qlt_bool a b) eqn:X end.
  { exfalso. apply Qlt_bool_true in X.
    pose proof (Qmax'_lub _ _ _ A1 B1). pose proof (Qmin'_glb _ _ _ A2 B2). lra. }
  match goal with |- context [Qlt_bool ?a ?b] => destruct (Qlt_bool a b) eqn:Y end.
  { exfalso. apply Qlt_bool_true in Y.
    pose proof (Qmax'_lub _ _ _ A3 B3). pose proof (Qmin'_glb _ _ _ A4 B4). lra. }
  discriminate.
Qed.

(* PlanarCurve.__and__ on two straight, non-parallel, non-"equal" segments is
   exactly the crossing test *)
Theorem seg_and_exact : forall a0 a1 b0 b1,
  seg_eq [a0; a1] [b0; b1] = false ->
  ~ cross (psub a1 a0) (psub b1 b0) == 0 ->
  forall u v, 0 <= u <= 1 -> 0 <= v <= 1 ->
  (peq (pt_at a0 a1 u) (pt_at b0 b1 v) <->
   exists u' v', seg_and [a0; a1] [b0; b1] = Ok (IPairs [(u', v')]) /\ u' == u /\ v' == v).
Proof.
  intros a0 a1 b0 b1 NE D u v Hu Hv. split.
  - intro P. destruct (lines_complete a0 a1 b0 b1 u v D Hu Hv P) as (u' & v' & L & Eu & Ev).
    exists u', v'. split; [| split; assumption].
    unfold seg_and.
    destruct (box_and (seg_box [a0; a1]) (seg_box [b0; b1])) eqn:B.
    + rewrite NE, L. reflexivity.
    + exfalso. exact (box_and_common_point a0 a1 b0 b1 u v Hu Hv P B).
  - intros (u' & v' & S & Eu & Ev).
    destruct (seg_and_pairs _ _ _ S) as (uv & E & L). inversion E; subst uv; clear E.
    apply (lines_exact a0 a1 b0 b1 D u v Hu Hv). exists u', v'. tauto.
Qed.

(* the full matrix reports exactly the crossings of every pair of straight,
   non-parallel, non-"equal" segments *)
Theorem intersection_exact : forall ja jb rows a b a0 a1 b0 b1,
  intersection ja jb true true = Ok rows ->
  (a < length ja)%nat -> (b < length jb)%nat ->
  nth a ja [] = [a0; a1] -> nth b jb [] = [b0; b1] ->
  seg_eq [a0; a1] [b0; b1] = false ->
  ~ cross (psub a1 a0) (psub b1 b0) == 0 ->
  forall u v, 0 <= u <= 1 -> 0 <= v <= 1 ->
  (peq (pt_at a0 a1 u) (pt_at b0 b1 v) <->
   exists u' v', In (a, b, Some (u', v')) rows /\ u' == u /\ v' == v).
Proof.
  intros ja jb rows a b a0 a1 b0 b1 H Ha Hb Na Nb NE D u v Hu Hv. split.
  - intro P. apply (seg_and_exact a0 a1 b0 b1 NE D u v Hu Hv) in P.
    destruct P as (u' & v' & S & Eu & Ev). exists u', v'. split; [| split; assumption].
    eapply intersection_complete_cell; try eassumption.
    + rewrite Na, Nb. exact S.
    + reflexivity.
  - intros (u' & v' & Hin & Eu & Ev).
    pose proof (intersection_row_lines _ _ _ _ _ H _ _ _ Hin) as L. rewrite Na, Nb in L.
    apply (lines_exact a0 a1 b0 b1 D u v Hu Hv). exists u', v'. tauto.
Qed.

(* parallel segments: no Some-row, whatever the flags *)
Theorem intersection_parallel : forall ja jb eb ep rows a b a0 a1 b0 b1,
  intersection ja jb eb ep = Ok rows ->
  nth a ja [] = [a0; a1] -> nth b jb [] = [b0; b1] ->
  cross (psub a1 a0) (psub b1 b0) == 0 ->
  forall uv, ~ In (a, b, Some uv) rows.
Proof.
  intros ja jb eb ep rows a b a0 a1 b0 b1 H Na Nb D uv Hin.
  pose proof (intersection_row_lines _ _ _ _ _ H _ _ _ Hin) as L. rewrite Na, Nb in L.
  rewrite (lines_parallel _ _ _ _ D) in L. discriminate.
Qed.

Print Assumptions lines_sound.
Print Assumptions lines_complete.
Print Assumptions lines_swap.
Print Assumptions lines_swap_none.
Print Assumptions lines_swap_gen.
Print Assumptions lines_eval.
Print Assumptions intersection_range.
Print Assumptions intersection_params.
Print Assumptions intersection_row_unique.
Print Assumptions intersection_no_equal.
Print Assumptions intersection_no_end_points.
Print Assumptions intersection_subset.
Print Assumptions intersection_flags.
Print Assumptions intersection_total.
Print Assumptions intersection_complete_cell.
Print Assumptions seg_and_exact.
Print Assumptions intersection_exact.
Print Assumptions intersection_parallel.
