(* Construct.v -- C17 / C06: the Jordan-curve constructors (outcome of
   from_segments, closedness, agreement of from_vertices / from_ctrlpoints,
   bounding box, orientation under invert) and the structural kind tables of
   the shape operators (complement, singleton rows/columns, ShapeFromJordans). *)
From SV Require Import Model.Shape Spec.Spec.
From SV Require Import Lemmas.BezierFacts Lemmas.Quadrature Lemmas.Fuel.
From Coq Require Import QArith Lqa Lia List Permutation Arith.
Import ListNotations.
Open Scope Q_scope.

(* ------------------------------------------------------------------ *)
(* 0. generic list facts                                               *)
(* ------------------------------------------------------------------ *)
Lemma map2_combine : forall {A B C} (f : A -> B -> C) l m,
  map2 f l m = map (fun ab => f (fst ab) (snd ab)) (combine l m).
Proof.
  intros A B C f l. induction l as [|a l IH]; intros [|b m]; simpl; try reflexivity.
  rewrite IH. reflexivity.
Qed.

Lemma forallb_false_nth : forall {A} (f : A -> bool) (d : A) l,
  forallb f l = false <-> exists i, (i < length l)%nat /\ f (nth i l d) = false.
Proof.
  intros A f d l. induction l as [|a l IH]; simpl.
  - split; [discriminate|]. intros (i & Hi & _). lia.
  - rewrite Bool.andb_false_iff, IH. split.
    + intros [H | (i & Hi & H)].
      * exists O. split; [lia | exact H].
      * exists (S i). split; [lia | exact H].
    + intros ([|i] & Hi & H).
      * left. exact H.
      * right. exists i. split; [lia | exact H].
Qed.

(* the junction list of from_segments in a structurally recursive form:
   every segment paired with the start of its successor, the last one with c *)
Fixpoint juncs (c : point) (js : list seg) : list (seg * point) :=
  match js with
  | [] => []
  | s :: t => (s, match t with [] => c | s' :: _ => first_pt s' end) :: juncs c t
  end.

Lemma combine_juncs : forall js c,
  combine js (map first_pt (tl js) ++ [c]) = juncs c js.
Proof.
  induction js as [|s t IH]; intros c; [reflexivity|].
  destruct t as [|s' t']; [reflexivity|].
  cbn [tl map app combine juncs]. f_equal. apply (IH c).
Qed.

Lemma juncs_length : forall js c, length (juncs c js) = length js.
Proof. induction js as [|s t IH]; intros c; simpl; [reflexivity|]. rewrite IH. reflexivity. Qed.

Lemma juncs_nth : forall (js : list seg) c i, (i < length js)%nat ->
  nth i (juncs c js) ([], pzero) =
  (nth i js [], if (S i <? length js)%nat then first_pt (nth (S i) js []) else c).
Proof.
  induction js as [|s t IH]; intros c i Hi; simpl in Hi; [lia|].
  destruct i as [|i].
  - cbn [juncs nth]. destruct t as [|s' t']; reflexivity.
  - cbn [juncs nth]. rewrite IH by lia.
    cbn [length]. destruct t as [|s' t']; [simpl in Hi; lia|].
    reflexivity.
Qed.

Definition jtest (sn : seg * point) : bool := pt_eq (last_pt (fst sn)) (snd sn).
Definition repoint (sn : seg * point) : seg := set_last (snd sn) (fst sn).

(* normal form of from_segments *)
Lemma from_segments_juncs : forall js,
  from_segments js =
  match js with
  | [] => Ok []
  | s0 :: _ =>
      do _ <- assert_ (forallb jtest (juncs (first_pt s0) js));
      Ok (map seg_clean (map repoint (juncs (first_pt s0) js)))
  end.
Proof.
  intros [|s0 t]; [reflexivity|].
  unfold from_segments, set_segments.
  rewrite map2_combine, map_app. cbn [map].
  (* re-elaborate the implicit type arguments (seg vs list point) so that rewrite matches *)
  change (combine (s0 :: t) (map first_pt (tl (s0 :: t)) ++ [first_pt s0]))
    with (combine (s0 :: t) (map first_pt (tl (s0 :: t)) ++ [first_pt s0])).
  rewrite (combine_juncs (s0 :: t) (first_pt s0)). reflexivity.
Qed.

(* ------------------------------------------------------------------ *)
(* K1. outcome of from_segments                                        *)
(* ------------------------------------------------------------------ *)
Theorem from_segments_outcome : forall js,
  (exists j, from_segments js = Ok j) \/ from_segments js = Err EAssert.
Proof.
  intros js. rewrite from_segments_juncs. destruct js as [|s0 t]; [left; eauto|].
  destruct (forallb jtest _); cbn [assert_ bind]; [left; eauto | right; reflexivity].
Qed.

Lemma from_segments_err_juncs : forall js,
  from_segments js = Err EAssert <->
  js <> [] /\ forallb jtest (juncs (first_pt (hd [] js)) js) = false.
Proof.
  intros js. rewrite from_segments_juncs. destruct js as [|s0 t].
  - split; [discriminate | intros [H _]; congruence].
  - cbn [hd]. destruct (forallb jtest _); cbn [assert_ bind]; split;
      try discriminate; try (intros [_ H]; discriminate H).
    + intros _. split; [discriminate | reflexivity].
    + reflexivity.
Qed.

Lemma succ_mod_small : forall i n, (S i < n)%nat -> ((i + 1) mod n = S i)%nat.
Proof. intros i n H. rewrite Nat.add_1_r. apply Nat.mod_small. exact H. Qed.
Lemma succ_mod_wrap : forall i n, (i < n)%nat -> ~ (S i < n)%nat -> ((i + 1) mod n = 0)%nat.
Proof.
  intros i n H1 H2. assert (n = S i) as -> by lia. rewrite Nat.add_1_r.
  apply Nat.mod_same. discriminate.
Qed.

(* the next start point, cyclically *)
Lemma juncs_nth_mod : forall (js : list seg) i, (i < length js)%nat ->
  nth i (juncs (first_pt (hd [] js)) js) ([], pzero) =
  (nth i js [], first_pt (nth ((i + 1) mod length js) js [])).
Proof.
  intros js i Hi. rewrite juncs_nth by exact Hi. f_equal.
  match goal with |- context [if ?b then _ else _] => destruct b eqn:E end.
  - apply Nat.ltb_lt in E. rewrite succ_mod_small by exact E. reflexivity.
  - apply Nat.ltb_ge in E. rewrite succ_mod_wrap by lia.
    destruct js; reflexivity.
Qed.

Theorem from_segments_err_iff : forall js : list seg,
  from_segments js = Err EAssert <->
  js <> [] /\ exists i, (i < length js)%nat /\
     pt_eq (last_pt (nth i js [])) (first_pt (nth ((i + 1) mod length js) js [])) = false.
Proof.
  intros js. rewrite from_segments_err_juncs.
  rewrite (forallb_false_nth jtest ([], pzero)), juncs_length.
  split; intros [Hne (i & Hi & H)]; (split; [exact Hne|]); exists i; (split; [exact Hi|]).
  - rewrite juncs_nth_mod in H by exact Hi. exact H.
  - rewrite juncs_nth_mod by exact Hi. exact H.
Qed.

Corollary from_segments_ok_iff : forall js : list seg,
  (exists j, from_segments js = Ok j) <->
  forall i, (i < length js)%nat ->
     pt_eq (last_pt (nth i js [])) (first_pt (nth ((i + 1) mod length js) js [])) = true.
Proof.
  intros js. split.
  - intros [j Hj] i Hi.
    destruct (pt_eq _ _) eqn:E; [reflexivity|].
    assert (from_segments js = Err EAssert) as H.
    { apply from_segments_err_iff. split; [destruct js; [simpl in Hi; lia | discriminate]|].
      exists i. auto. }
    congruence.
  - intros H. destruct (from_segments_outcome js) as [Hok | Herr]; [exact Hok|].
    apply from_segments_err_iff in Herr. destruct Herr as [_ (i & Hi & E)].
    rewrite H in E by exact Hi. discriminate.
Qed.

(* ------------------------------------------------------------------ *)
(* K2. seg_clean keeps the end points; constructed curves are closed   *)
(* ------------------------------------------------------------------ *)
Lemma peqb_peq : forall p q, peqb p q = true <-> peq p q.
Proof.
  intros p q. unfold peqb, peq. rewrite Bool.andb_true_iff, !Qeq_bool_iff. reflexivity.
Qed.

Lemma pred_peq : forall p, peq (pred_ p) p.
Proof. intros p. split; apply Qred_correct. Qed.

Lemma reduce_from_nonempty : forall t d i prev, (2 <= length t)%nat ->
  reduce_from d i prev t <> [].
Proof.
  intros [|P [|P' t]] d i prev H; simpl in H; try lia. cbn [reduce_from]. discriminate.
Qed.

Lemma reducible_length : forall s, reducible s = true -> (3 <= length s)%nat.
Proof.
  intros s H. unfold reducible in H. apply Bool.andb_true_iff in H. destruct H as [H _].
  apply Nat.leb_le in H. unfold degree in H. lia.
Qed.

Lemma last_map : forall {A B} (f : A -> B) l d, last (map f l) (f d) = f (last l d).
Proof.
  intros A B f l d. induction l as [|a l IH]; [reflexivity|].
  destruct l as [|b l]; [reflexivity|]. exact IH.
Qed.

Lemma last_pt_snoc : forall (l : seg) p, last_pt (l ++ [p]) = p.
Proof. intros l p. unfold last_pt. apply last_last. Qed.

Lemma first_pt_reduce_once : forall s, (3 <= length s)%nat ->
  first_pt (reduce_once s) = pred_ (first_pt s).
Proof.
  intros [|P0 t] H; simpl in H; [lia|]. unfold reduce_once.
  destruct (reduce_from (degree (P0 :: t)) 1 P0 t) as [|q r] eqn:E.
  - exfalso. revert E. apply reduce_from_nonempty. lia.
  - reflexivity.
Qed.

Lemma last_pt_reduce_once : forall s, s <> [] ->
  peq (last_pt (reduce_once s)) (last_pt s).
Proof.
  intros [|P0 t] H; [congruence|]. unfold reduce_once.
  rewrite map_app. cbn [map]. rewrite last_pt_snoc. apply pred_peq.
Qed.

Lemma seg_clean_fuel_ends : forall f s,
  peq (first_pt (seg_clean_fuel f s)) (first_pt s) /\
  peq (last_pt (seg_clean_fuel f s)) (last_pt s).
Proof.
  induction f as [|f IH]; intros s; cbn [seg_clean_fuel].
  - split; apply peq_refl.
  - destruct (reducible s) eqn:R; [|split; apply peq_refl].
    apply reducible_length in R. destruct (IH (reduce_once s)) as [H1 H2]. split.
    + eapply peq_trans; [exact H1|]. rewrite first_pt_reduce_once by exact R. apply pred_peq.
    + eapply peq_trans; [exact H2|]. apply last_pt_reduce_once.
      destruct s; [simpl in R; lia | discriminate].
Qed.

(* seg_clean preserves the first and the last control point (as rationals) *)
Theorem seg_clean_first : forall s, peq (first_pt (seg_clean s)) (first_pt s).
Proof. intros s. apply seg_clean_fuel_ends. Qed.
Theorem seg_clean_last : forall s, peq (last_pt (seg_clean s)) (last_pt s).
Proof. intros s. apply seg_clean_fuel_ends. Qed.

(* degree <= 1: nothing to reduce *)
Lemma seg_clean_short : forall s, (length s <= 2)%nat -> seg_clean s = s.
Proof.
  intros s H. unfold seg_clean.
  destruct (length s) as [|f] eqn:E; [reflexivity|]. cbn [seg_clean_fuel].
  destruct (reducible s) eqn:R; [|reflexivity].
  apply reducible_length in R. lia.
Qed.
Lemma seg_clean_line : forall a b, seg_clean [a; b] = [a; b].
Proof. intros. apply seg_clean_short. simpl. lia. Qed.

Lemma set_segments_lines : forall j, all_lines j = true -> set_segments j = j.
Proof.
  intros j H. unfold set_segments, all_lines in *. rewrite forallb_forall in H.
  rewrite <- (map_id j) at 2. apply map_ext_in. intros s Hs.
  apply seg_clean_short. specialize (H s Hs). unfold is_line in H.
  apply Nat.eqb_eq in H. lia.
Qed.

Lemma last_pt_set_last : forall n (s : seg), last_pt (set_last n s) = n.
Proof. intros. unfold set_last. apply last_pt_snoc. Qed.
Lemma first_pt_set_last : forall n (s : seg), (2 <= length s)%nat ->
  first_pt (set_last n s) = first_pt s.
Proof. intros n [|a [|b s]] H; simpl in H; try lia. reflexivity. Qed.

Lemma chain_ok_cons : forall c x l, l <> [] ->
  chain_ok c (x :: l) = peqb (last_pt x) (first_pt (hd [] l)) && chain_ok c l.
Proof. intros c x [|y l] H; [congruence|]. reflexivity. Qed.

Lemma chain_ok_juncs : forall js c c',
  (forall s, In s js -> (2 <= length s)%nat) -> peq c c' ->
  chain_ok c' (map seg_clean (map repoint (juncs c js))) = true.
Proof.
  induction js as [|s t IH]; intros c c' Hlen Hc; [reflexivity|].
  destruct t as [|s' t'].
  - cbn [juncs map chain_ok]. apply peqb_peq.
    eapply peq_trans; [apply seg_clean_last|]. unfold repoint. cbn [fst snd].
    rewrite last_pt_set_last. exact Hc.
  - change (juncs c (s :: s' :: t')) with ((s, first_pt s') :: juncs c (s' :: t')).
    cbn [map]. rewrite chain_ok_cons by (cbn [juncs map]; discriminate).
    apply Bool.andb_true_iff. split.
    + cbn [juncs map hd]. apply peqb_peq.
      eapply peq_trans; [apply seg_clean_last|]. unfold repoint at 1. cbn [fst snd].
      rewrite last_pt_set_last. apply peq_sym.
      eapply peq_trans; [apply seg_clean_first|]. unfold repoint. cbn [fst snd].
      rewrite first_pt_set_last; [apply peq_refl|]. apply Hlen. right; left; reflexivity.
    + apply IH; [|exact Hc]. intros x Hx. apply Hlen. right. exact Hx.
Qed.

Theorem from_segments_closed : forall js j,
  from_segments js = Ok j -> (forall s, In s js -> (2 <= length s)%nat) ->
  closed_chain j = true.
Proof.
  intros js j H Hlen. rewrite from_segments_juncs in H. destruct js as [|s0 t].
  - inversion H. reflexivity.
  - destruct (forallb jtest _); cbn [assert_ bind] in H; [|discriminate]. inversion H as [Hj].
    unfold closed_chain.
    change (juncs (first_pt s0) (s0 :: t))
      with ((s0, match t with [] => first_pt s0 | s' :: _ => first_pt s' end) :: juncs (first_pt s0) t).
    cbn [map].
    match goal with |- chain_ok (first_pt ?x) (?x :: ?l) = true =>
      change (x :: l) with (map seg_clean (map repoint (juncs (first_pt s0) (s0 :: t)))) end.
    apply chain_ok_juncs; [exact Hlen|]. apply peq_sym.
    eapply peq_trans; [apply seg_clean_first|]. unfold repoint. cbn [fst snd].
    rewrite first_pt_set_last; [apply peq_refl|]. apply Hlen. left; reflexivity.
Qed.

(* ------------------------------------------------------------------ *)
(* K3. the constructors agree; from_vertices never raises              *)
(* ------------------------------------------------------------------ *)
Lemma pt_eq_refl : forall p, pt_eq p p = true.
Proof.
  intros p. unfold pt_eq.
  assert (forall x, Qlt_bool tol9 (Qabs' (x - x)) = false) as H.
  { intros x. unfold Qlt_bool. apply Bool.negb_false_iff. apply Qle_bool_iff.
    unfold Qabs'. destruct (Qle_bool 0 (x - x)) eqn:E.
    - assert (x - x == 0) as -> by ring. unfold tol9. discriminate.
    - assert (- (x - x) == 0) as -> by ring. unfold tol9. discriminate. }
  rewrite !H. reflexivity.
Qed.

Definition exact_junction (sn : seg * point) : Prop := last_pt (fst sn) = snd sn.

Lemma repoint_exact : forall js c,
  (forall s, In s js -> s <> []) -> Forall exact_junction (juncs c js) ->
  map repoint (juncs c js) = js.
Proof.
  induction js as [|s t IH]; intros c Hne H; [reflexivity|].
  cbn [juncs map] in *. inversion H as [|x l Hx Hl]; subst. f_equal.
  - unfold repoint, exact_junction in *. cbn [fst snd] in *. rewrite <- Hx.
    unfold set_last, last_pt. symmetry. apply app_removelast_last. apply Hne. left; reflexivity.
  - apply IH; [|exact Hl]. intros x Hx'. apply Hne. right; exact Hx'.
Qed.

Lemma forallb_jtest_exact : forall l, Forall exact_junction l -> forallb jtest l = true.
Proof.
  intros l H. apply forallb_forall. rewrite Forall_forall in H. intros sn Hsn.
  unfold jtest. rewrite (H sn Hsn). apply pt_eq_refl.
Qed.

(* all junctions (closing pair included) exactly equal: success, and the
   result is the input up to degree reduction *)
Theorem from_segments_exact_juncs : forall js,
  (forall s, In s js -> s <> []) ->
  Forall exact_junction (juncs (first_pt (hd [] js)) js) ->
  from_segments js = Ok (set_segments js).
Proof.
  intros js Hne H. rewrite from_segments_juncs. destruct js as [|s0 t]; [reflexivity|].
  cbn [hd] in H. rewrite forallb_jtest_exact by exact H. cbn [assert_ bind].
  rewrite repoint_exact by assumption. reflexivity.
Qed.

Corollary from_segments_exact : forall js : list seg,
  (forall s, In s js -> s <> []) ->
  (forall i, (i < length js)%nat ->
     last_pt (nth i js []) = first_pt (nth ((i + 1) mod length js) js [])) ->
  from_segments js = Ok (set_segments js).
Proof.
  intros js Hne H. apply from_segments_exact_juncs; [exact Hne|].
  apply (Forall_nth exact_junction). intros i d Hi. rewrite juncs_length in Hi.
  rewrite (nth_indep _ d ([], pzero)) by (rewrite juncs_length; exact Hi).
  rewrite juncs_nth_mod by exact Hi. unfold exact_junction. cbn [fst snd]. apply H, Hi.
Qed.

Notation edge_seg := (fun ab : point * point => [fst ab; snd ab]).

Theorem from_vertices_ctrlpoints : forall vs, vs <> [] ->
  from_vertices vs = from_ctrlpoints (map edge_seg (pairs_of (vs ++ [hd pzero vs]))).
Proof. intros [|v0 t] H; [congruence|]. reflexivity. Qed.

Lemma juncs_pairs_exact : forall l c d, (2 <= length l)%nat -> last l d = c ->
  Forall exact_junction (juncs c (map edge_seg (pairs_of l))).
Proof.
  induction l as [|a l IH]; intros c d Hlen Hlast; simpl in Hlen; [lia|].
  destruct l as [|b l]; simpl in Hlen; [lia|].
  destruct l as [|b' l].
  - cbn. constructor; [|constructor]. exact Hlast.
  - change (pairs_of (a :: b :: b' :: l)) with ((a, b) :: pairs_of (b :: b' :: l)).
    cbn [map]. change (pairs_of (b :: b' :: l)) with ((b, b') :: pairs_of (b' :: l)) at 1.
    cbn [map juncs]. constructor.
    + reflexivity.
    + change (Forall exact_junction (juncs c (map edge_seg (pairs_of (b :: b' :: l))))).
      apply (IH c d); [simpl; lia | exact Hlast].
Qed.

Lemma map_fst_pairs_of : forall {A} (l : list A), map fst (pairs_of l) = removelast l.
Proof.
  intros A l. induction l as [|a l IH]; [reflexivity|].
  destruct l as [|b l]; [reflexivity|].
  change (pairs_of (a :: b :: l)) with ((a, b) :: pairs_of (b :: l)).
  cbn [map fst]. rewrite IH. reflexivity.
Qed.

Lemma all_lines_edge_segs : forall l, all_lines (map edge_seg l) = true.
Proof. intros l. unfold all_lines. apply forallb_forall. intros s Hs.
  apply in_map_iff in Hs. destruct Hs as (ab & <- & _). reflexivity. Qed.

Theorem from_vertices_ok : forall vs, vs <> [] ->
  from_vertices vs = Ok (map edge_seg (pairs_of (vs ++ [hd pzero vs]))).
Proof.
  intros vs Hne. rewrite from_vertices_ctrlpoints by exact Hne. unfold from_ctrlpoints.
  rewrite from_segments_exact_juncs.
  - rewrite set_segments_lines by apply all_lines_edge_segs. reflexivity.
  - intros s Hs. apply in_map_iff in Hs. destruct Hs as (ab & <- & _). discriminate.
  - destruct vs as [|v0 t]; [congruence|]. cbn [hd].
    assert (first_pt (hd [] (map edge_seg (pairs_of ((v0 :: t) ++ [v0])))) = v0) as ->.
    { destruct t as [|x r]; reflexivity. }
    apply (juncs_pairs_exact _ v0 pzero).
    + rewrite app_length. simpl. lia.
    + apply last_last.
Qed.

Corollary from_vertices_never_raises : forall vs, exists j, from_vertices vs = Ok j.
Proof.
  intros [|v0 t]; [exists []; reflexivity|].
  eexists. apply from_vertices_ok. discriminate.
Qed.

Theorem vertices_edge_segs : forall vs,
  vertices (map edge_seg (pairs_of (vs ++ [hd pzero vs]))) = vs.
Proof.
  intros vs. unfold vertices. rewrite map_map. cbn [removelast].
  rewrite <- (map_map fst (fun a => [a])).
  rewrite map_fst_pairs_of, removelast_last.
  induction vs as [|v t IH]; [reflexivity|]. cbn [map concat app]. f_equal. exact IH.
Qed.

Lemma pairs_of_length : forall {A} (l : list A), length (pairs_of l) = (length l - 1)%nat.
Proof.
  intros A l. induction l as [|a l IH]; [reflexivity|].
  destruct l as [|b l]; [reflexivity|].
  change (pairs_of (a :: b :: l)) with ((a, b) :: pairs_of (b :: l)).
  cbn [length] in *. rewrite IH. lia.
Qed.

Theorem from_vertices_spec : forall vs j, vs <> [] -> from_vertices vs = Ok j ->
  vertices j = vs /\ length j = length vs /\ all_lines j = true /\ closed_chain j = true.
Proof.
  intros vs j Hne H. pose proof H as H0.
  rewrite from_vertices_ok in H by exact Hne. inversion H as [Hj]. repeat split.
  - apply vertices_edge_segs.
  - rewrite map_length, pairs_of_length, app_length. simpl. lia.
  - apply all_lines_edge_segs.
  - rewrite Hj. rewrite from_vertices_ctrlpoints in H0 by exact Hne.
    eapply from_segments_closed; [exact H0|].
    intros s Hs. apply in_map_iff in Hs. destruct Hs as (ab & <- & _). simpl. lia.
Qed.

(* ------------------------------------------------------------------ *)
(* K4. box() encloses every point of the curve                         *)
(* ------------------------------------------------------------------ *)
Definition box_le (a b : box) : Prop :=
  (bxmin b <= bxmin a /\ bxmax a <= bxmax b) /\ (bymin b <= bymin a /\ bymax a <= bymax b).

Lemma box_le_refl : forall a, box_le a a.
Proof. intros a. unfold box_le. repeat split; apply Qle_refl. Qed.
Lemma box_le_trans : forall a b c, box_le a b -> box_le b c -> box_le a c.
Proof.
  intros a b c [[H1 H2] [H3 H4]] [[G1 G2] [G3 G4]]. unfold box_le.
  repeat split; eapply Qle_trans; eassumption.
Qed.
Lemma box_or_l : forall a b, box_le a (box_or a b).
Proof.
  intros a b. unfold box_le, box_or, bxmin, bxmax, bymin, bymax. cbn [fst snd].
  repeat split; (apply Qmin'_le_l || apply Qmax'_ge_l).
Qed.
Lemma box_or_r : forall a b, box_le b (box_or a b).
Proof.
  intros a b. unfold box_le, box_or, bxmin, bxmax, bymin, bymax. cbn [fst snd].
  repeat split; (apply Qmin'_le_r || apply Qmax'_ge_r).
Qed.
Lemma in_box_mono : forall a b p, box_le a b -> in_box a p -> in_box b p.
Proof.
  intros a b p [[H1 H2] [H3 H4]] [[G1 G2] [G3 G4]]. unfold in_box.
  repeat split; eapply Qle_trans; eassumption.
Qed.

Lemma fold_box_init : forall t b0,
  box_le b0 (fold_left (fun b s' => box_or b (seg_box s')) t b0).
Proof.
  induction t as [|s t IH]; intros b0; cbn [fold_left]; [apply box_le_refl|].
  eapply box_le_trans; [apply box_or_l | apply IH].
Qed.
Lemma fold_box_elt : forall t b0 s, In s t ->
  box_le (seg_box s) (fold_left (fun b s' => box_or b (seg_box s')) t b0).
Proof.
  induction t as [|s' t IH]; intros b0 s Hin; [contradiction|]. cbn [fold_left].
  destruct Hin as [-> | Hin].
  - eapply box_le_trans; [apply box_or_r | apply fold_box_init].
  - apply IH, Hin.
Qed.

Theorem seg_box_in_jordan_box : forall j s, In s j -> box_le (seg_box s) (jordan_box j).
Proof.
  intros [|s0 t] s Hin; [contradiction|]. unfold jordan_box.
  destruct Hin as [-> | Hin]; [apply fold_box_init | apply fold_box_elt, Hin].
Qed.

Theorem jordan_box_encloses : forall j s t, In s j -> (2 <= length s <= 7)%nat ->
  0 <= t -> t <= 1 -> in_box (jordan_box j) (eval s t).
Proof.
  intros j s t Hin Hlen H0 H1.
  eapply in_box_mono; [apply seg_box_in_jordan_box, Hin|].
  apply box_hull_le6; assumption.
Qed.

(* every control point (in particular every vertex) is in the box, any degree *)
Theorem jordan_box_ctrl : forall j s p, In s j -> In p s -> in_box (jordan_box j) p.
Proof.
  intros j s p Hs Hp.
  eapply in_box_mono; [apply seg_box_in_jordan_box, Hs | apply ctrl_in_seg_box, Hp].
Qed.

(* ------------------------------------------------------------------ *)
(* K5. orientation: invert on straight-segment curves                  *)
(* ------------------------------------------------------------------ *)
Lemma is_line_rev : forall s, is_line (rev s) = is_line s.
Proof. intros s. unfold is_line. rewrite rev_length. reflexivity. Qed.

Lemma all_lines_rev_rev : forall j, all_lines j = true -> all_lines (rev (map (@rev point) j)) = true.
Proof.
  intros j H. unfold all_lines in *. rewrite forallb_forall in *. intros s Hs.
  apply in_rev in Hs. apply in_map_iff in Hs. destruct Hs as (s' & <- & Hs').
  rewrite is_line_rev. apply H, Hs'.
Qed.

Theorem invert_lines : forall j, all_lines j = true -> invert j = rev (map (@rev point) j).
Proof. intros j H. unfold invert. apply set_segments_lines, all_lines_rev_rev, H. Qed.

Theorem invert_all_lines : forall j, all_lines j = true -> all_lines (invert j) = true.
Proof. intros j H. rewrite invert_lines by exact H. apply all_lines_rev_rev, H. Qed.

Theorem invert_involutive : forall j, all_lines j = true -> invert (invert j) = j.
Proof.
  intros j H. rewrite (invert_lines (invert j)) by (apply invert_all_lines, H).
  rewrite invert_lines by exact H.
  rewrite map_rev, rev_involutive, map_map.
  rewrite <- (map_id j) at 2. apply map_ext. intros s. apply rev_involutive.
Qed.

Lemma Qsum_app : forall l m, Qsum (l ++ m) == Qsum l + Qsum m.
Proof. induction l as [|x l IH]; intros m; simpl; [ring|]. rewrite IH. ring. Qed.
Lemma Qsum_rev : forall l, Qsum (rev l) == Qsum l.
Proof. induction l as [|x l IH]; simpl; [reflexivity|]. rewrite Qsum_app, IH. simpl. ring. Qed.
Lemma Qsum_map_opp : forall {A} (f : A -> Q) l, Qsum (map (fun x => - f x) l) == - Qsum (map f l).
Proof. intros A f l. induction l as [|x l IH]; simpl; [ring|]. rewrite IH. ring. Qed.

Theorem jordan_vertical_invert : forall j ex ey, all_lines j = true -> (ex + ey + 4 <= 19)%nat ->
  jordan_vertical (invert j) ex ey == - jordan_vertical j ex ey.
Proof.
  intros j ex ey H Hb. rewrite invert_lines by exact H. unfold jordan_vertical.
  rewrite !Qred_correct. rewrite map_rev, Qsum_rev, map_map.
  rewrite <- Qsum_map_opp. apply Qsum_map_ext. intros s Hs.
  unfold all_lines in H. rewrite forallb_forall in H.
  destruct (is_line_inv s (H s Hs)) as (A & B & ->). cbn [rev app].
  apply vertical_rev, Hb.
Qed.

Theorem jordan_area_invert : forall j, all_lines j = true ->
  jordan_area (invert j) == - jordan_area j.
Proof. intros j H. unfold jordan_area. apply jordan_vertical_invert; [exact H | simpl; lia]. Qed.

Lemma Qlt_bool_0_opp : forall x y, x == - y -> ~ y == 0 ->
  Qlt_bool 0 x = negb (Qlt_bool 0 y).
Proof.
  intros x y Hxy Hy. unfold Qlt_bool.
  destruct (Qle_bool x 0) eqn:E1; destruct (Qle_bool y 0) eqn:E2; try reflexivity; exfalso.
  - apply Qle_bool_iff in E1, E2. apply Hy. lra.
  - apply Qle_bool_false in E1, E2. lra.
Qed.

Theorem jordan_pos_invert : forall j, all_lines j = true -> ~ jordan_area j == 0 ->
  jordan_pos (invert j) = negb (jordan_pos j).
Proof.
  intros j H Hz. unfold jordan_pos. apply Qlt_bool_0_opp; [apply jordan_area_invert, H | exact Hz].
Qed.

(* the sign of float(curve) is the orientation: shoelace sign, for polygons *)
Theorem jordan_pos_shoelace : forall j, all_lines j = true -> closed_chain j = true ->
  jordan_pos j = Qlt_bool 0 (shoelace2 j).
Proof.
  intros j Hl Hc. unfold jordan_pos.
  assert (shoelace2 j == 2 * jordan_area j) as H
    by (rewrite (area_shoelace j Hl Hc); field).
  unfold Qlt_bool. f_equal.
  destruct (Qle_bool (jordan_area j) 0) eqn:E1; destruct (Qle_bool (shoelace2 j) 0) eqn:E2;
    try reflexivity; exfalso.
  - apply Qle_bool_iff in E1. apply Qle_bool_false in E2. lra.
  - apply Qle_bool_iff in E2. apply Qle_bool_false in E1. lra.
Qed.

(* ------------------------------------------------------------------ *)
(* K6/K7. sort_by, regrouping and the kind tables                      *)
(* ------------------------------------------------------------------ *)
Local Open Scope nat_scope.

Lemma insert_sorted_perm : forall {A} (le : A -> A -> bool) x l,
  Permutation (insert_sorted le x l) (x :: l).
Proof.
  intros A le x l. induction l as [|y t IH]; cbn [insert_sorted]; [apply Permutation_refl|].
  destruct (le x y); [apply Permutation_refl|].
  eapply Permutation_trans; [apply perm_skip, IH | apply perm_swap].
Qed.

Theorem sort_by_perm : forall {A} (le : A -> A -> bool) l, Permutation (sort_by le l) l.
Proof.
  intros A le l. unfold sort_by. induction l as [|x t IH]; cbn [fold_right]; [constructor|].
  eapply Permutation_trans; [apply insert_sorted_perm | apply perm_skip, IH].
Qed.
Corollary sort_by_length : forall {A} (le : A -> A -> bool) l, length (sort_by le l) = length l.
Proof. intros. apply Permutation_length, sort_by_perm. Qed.
Corollary sort_by_in : forall {A} (le : A -> A -> bool) l x, In x (sort_by le l) <-> In x l.
Proof.
  intros A le l x. split; apply Permutation_in; [|apply Permutation_sym]; apply sort_by_perm.
Qed.

Lemma Permutation_concat_map : forall {A B} (f : A -> list B) l l',
  Permutation l l' -> Permutation (concat (map f l)) (concat (map f l')).
Proof.
  intros A B f l l' H. induction H; cbn [map concat].
  - constructor.
  - apply Permutation_app_head. assumption.
  - rewrite !app_assoc. apply Permutation_app_tail, Permutation_app_comm.
  - eapply Permutation_trans; eassumption.
Qed.

Lemma Forall_perm : forall {A} (P : A -> Prop) l l', Permutation l l' -> Forall P l -> Forall P l'.
Proof.
  intros A P l l' H HF. rewrite Forall_forall in *. intros x Hx.
  apply HF. eapply Permutation_in; [apply Permutation_sym, H | exact Hx].
Qed.

(* ---------- complement ---------- *)
Theorem op_not_empty : op_not SEmpty = Ok SWhole.
Proof. reflexivity. Qed.
Theorem op_not_whole : op_not SWhole = Ok SEmpty.
Proof. reflexivity. Qed.
Theorem op_not_simple : forall j, op_not (SC (CS j)) = Ok (SC (CS (invert j))).
Proof. reflexivity. Qed.
Theorem op_not_connected : forall js, 2 <= length js ->
  exists cs, op_not (SC (CC js)) = Ok (SD cs) /\ length cs = length js /\
    Permutation cs (map (fun j => CS (invert j)) js) /\
    (forall c, In c cs -> exists j, In j js /\ c = CS (invert j)).
Proof.
  intros js H. exists (sort_by comp_ge (map (fun j => CS (invert j)) js)).
  split; [|split; [|split]].
  - destruct js as [|a [|b t]]; simpl in H; try lia. reflexivity.
  - rewrite sort_by_length, map_length. reflexivity.
  - apply sort_by_perm.
  - intros c Hc. apply sort_by_in in Hc. apply in_map_iff in Hc.
    destruct Hc as (j & <- & Hj). eauto.
Qed.
Theorem op_not_disjoint : forall cs,
  op_not (SD cs) = shape_from_jordans (map invert (jordans (SD cs))).
Proof. reflexivity. Qed.
(* a double complement of a polygon is the polygon itself *)
Theorem op_not_not_simple : forall j, all_lines j = true ->
  (do s <- op_not (SC (CS j)); op_not s) = Ok (SC (CS j)).
Proof. intros j H. cbn [op_not bind]. rewrite invert_involutive by exact H. reflexivity. Qed.

(* ---------- singleton rows / columns of the operator tables ---------- *)
Theorem copy_shape_empty : copy_shape SEmpty = Ok SEmpty.
Proof. reflexivity. Qed.
Theorem copy_shape_whole : copy_shape SWhole = Ok SWhole.
Proof. reflexivity. Qed.

Theorem op_or_empty_l : forall b, op_or SEmpty b = (do c <- copy_shape b; Ok (SEmpty, b, c)).
Proof. reflexivity. Qed.
Theorem op_or_whole_l : forall b, op_or SWhole b = Ok (SWhole, b, SWhole).
Proof. reflexivity. Qed.
Theorem op_or_whole_r : forall a, op_or a SWhole = Ok (a, SWhole, SWhole).
Proof. intros [| | |]; reflexivity. Qed.
Theorem op_or_empty_r : forall a, op_or a SEmpty = (do c <- copy_shape a; Ok (a, SEmpty, c)).
Proof. intros [| | |]; reflexivity. Qed.

Theorem op_and_empty_l : forall b, op_and SEmpty b = Ok (SEmpty, b, SEmpty).
Proof. reflexivity. Qed.
Theorem op_and_empty_r : forall a, op_and a SEmpty = Ok (a, SEmpty, SEmpty).
Proof. intros [| | |]; reflexivity. Qed.
Theorem op_and_whole_l : forall b, op_and SWhole b = (do c <- copy_shape b; Ok (SWhole, b, c)).
Proof. reflexivity. Qed.
Theorem op_and_whole_r : forall a, op_and a SWhole = (do c <- copy_shape a; Ok (a, SWhole, c)).
Proof. intros [| | |]; reflexivity. Qed.

Theorem op_sub_empty_l : forall b, op_sub SEmpty b = Ok (SEmpty, SEmpty).
Proof. reflexivity. Qed.
Theorem op_sub_whole_l : forall b, op_sub SWhole b = (do nb <- op_not b; Ok (SWhole, nb)).
Proof. reflexivity. Qed.
Theorem op_sub_empty_r : forall a, op_sub a SEmpty = (do c <- copy_shape a; Ok (a, c)).
Proof. intros [| |c|cs]; try reflexivity; cbn [op_sub op_not bind]; rewrite op_and_whole_r;
  destruct (copy_shape _); reflexivity. Qed.
Theorem op_sub_whole_r : forall a, op_sub a SWhole = Ok (a, SEmpty).
Proof. intros [| | |]; reflexivity. Qed.

Theorem op_xor_empty_empty : op_xor SEmpty SEmpty = Ok (SEmpty, SEmpty, SEmpty).
Proof. reflexivity. Qed.
Theorem op_xor_empty_whole : op_xor SEmpty SWhole = Ok (SEmpty, SWhole, SWhole).
Proof. reflexivity. Qed.
Theorem op_xor_whole_empty : op_xor SWhole SEmpty = Ok (SWhole, SEmpty, SWhole).
Proof. reflexivity. Qed.
Theorem op_xor_whole_whole : op_xor SWhole SWhole = Ok (SWhole, SWhole, SEmpty).
Proof. reflexivity. Qed.

Theorem contains_whole_l : forall b, contains_shape SWhole b = Ok true.
Proof. reflexivity. Qed.
Theorem contains_empty_r : forall a, contains_shape a SEmpty = Ok true.
Proof. intros [| | |]; reflexivity. Qed.
Theorem contains_empty_l : forall b, b <> SEmpty -> contains_shape SEmpty b = Ok false.
Proof. intros [| | |] H; try reflexivity. congruence. Qed.
Theorem contains_whole_r : forall a, a <> SWhole -> contains_shape a SWhole = Ok false.
Proof. intros [| | |] H; try reflexivity. congruence. Qed.

(* ---------- ShapeFromJordans / DivideConnecteds ---------- *)
Lemma gpart_perm c : forall l ins exts,
  gpart c l = Ok (ins, exts) -> Permutation (ins ++ exts) l.
Proof.
  induction l as [|s t IH]; intros ins exts H; simpl in H.
  - inversion H. constructor.
  - destruct (existsM _ c) as [ext| |]; simpl in H; try discriminate.
    destruct (gpart c t) as [[ins' exts']| |]; simpl in H; try discriminate.
    specialize (IH _ _ eq_refl).
    destruct ext; inversion H; subst.
    + apply Permutation_sym, Permutation_cons_app, Permutation_sym, IH.
    + cbn [app]. apply perm_skip, IH.
Qed.

Lemma nth_remove_nth_perm : forall {A} (d : A) l n, n < length l ->
  Permutation (nth n l d :: remove_nth n l) l.
Proof.
  intros A d l. induction l as [|h t IH]; intros n Hn; simpl in Hn; [lia|].
  destruct n as [|k]; cbn [nth remove_nth]; [apply Permutation_refl|].
  eapply Permutation_trans; [apply perm_swap | apply perm_skip, IH; lia].
Qed.

Lemma grow_group_perm : forall fuel connected simples externals c' e',
  grow_group fuel connected simples externals = Ok (c', e') ->
  Permutation (c' ++ e') (connected ++ simples ++ externals).
Proof.
  induction fuel as [|f IH]; intros connected simples externals c' e' H; [discriminate|].
  rewrite grow_group_S in H.
  destruct simples as [|s0 t] eqn:Hs.
  - inversion H; subst. apply Permutation_refl.
  - rewrite <- Hs in *. cbv zeta in H.
    destruct (gpart _ _) as [[internal exts]| |] eqn:Hp; simpl in H; try discriminate.
    apply IH in H. apply gpart_perm in Hp.
    set (idx := argmax_abs (map jordan_area simples)) in *.
    assert (Permutation (nth idx simples [] :: remove_nth idx simples) simples) as Hn.
    { apply nth_remove_nth_perm. unfold idx.
      rewrite <- (map_length jordan_area). apply argmax_abs_lt. rewrite Hs; discriminate. }
    eapply Permutation_trans; [exact H|].
    rewrite <- app_assoc. apply Permutation_app_head. cbn [app].
    eapply Permutation_trans;
      [| apply Permutation_app_tail, Hn ].
    cbn [app]. apply perm_skip.
    eapply Permutation_trans; [| apply Permutation_app_tail, Hp].
    rewrite <- app_assoc. apply Permutation_app_head, Permutation_app_comm.
Qed.

Definition comp_wf (c : comp) : Prop :=
  match c with CS _ => True | CC l => 2 <= length l end.
Definition shape_wf (s : shape) : Prop :=
  match s with
  | SEmpty | SWhole => True
  | SC c => comp_wf c
  | SD cs => 2 <= length cs /\ Forall comp_wf cs
  end.

Lemma divide_connecteds_spec : forall fuel simples cs,
  divide_connecteds fuel simples = Ok cs ->
  Forall comp_wf cs /\ (simples <> [] -> cs <> []) /\
  Permutation (concat (map comp_jordans cs)) simples.
Proof.
  induction fuel as [|f IH]; intros simples cs H; [discriminate|].
  cbn [divide_connecteds] in H.
  destruct simples as [|s0 t] eqn:Hs.
  - inversion H. repeat split; [constructor | congruence | constructor].
  - rewrite <- Hs in *.
    assert (simples <> []) as Hne by (rewrite Hs; discriminate).
    destruct (grow_group _ _ _ _) as [[connected externals]| |] eqn:Hg; simpl in H; try discriminate.
    destruct (divide_connecteds f externals) as [rest| |] eqn:Hd; simpl in H; try discriminate.
    inversion H as [Hcs]. clear H.
    destruct (IH _ _ Hd) as (Hwf & _ & Hperm).
    pose proof (grow_group_perm _ _ _ _ _ _ Hg) as Hgp. cbn [app] in Hgp. rewrite app_nil_r in Hgp.
    apply grow_group_length in Hg. destruct Hg as (_ & _ & Hlt). specialize (Hlt Hne).
    cbn [length] in Hlt.
    repeat split.
    + constructor; [|exact Hwf].
      destruct connected as [|j [|j' r]]; cbn [comp_wf]; [simpl in Hlt; lia | exact I |].
      rewrite sort_by_length. simpl. lia.
    + discriminate.
    + cbn [map concat].
      eapply Permutation_trans; [|exact Hgp].
      eapply Permutation_trans; [apply Permutation_app_head, Hperm|].
      apply Permutation_app_tail.
      destruct connected as [|j [|j' r]]; cbn [comp_jordans];
        [apply sort_by_perm | apply Permutation_refl | apply sort_by_perm].
Qed.

Theorem shape_from_jordans_single : forall j, shape_from_jordans [j] = Ok (SC (CS j)).
Proof. reflexivity. Qed.

Theorem shape_from_jordans_nonempty : forall js s, shape_from_jordans js = Ok s -> js <> [].
Proof. intros [|j t] s H; [discriminate | discriminate]. Qed.

(* the result is a canonical shape over exactly the given curves *)
Theorem shape_from_jordans_spec : forall js s, shape_from_jordans js = Ok s ->
  s <> SEmpty /\ s <> SWhole /\ shape_wf s /\ Permutation (jordans s) js.
Proof.
  intros js s H. unfold shape_from_jordans in H.
  destruct js as [|a [|b t]]; [discriminate | |].
  - inversion H. repeat split; try discriminate. cbn. apply Permutation_refl.
  - remember (a :: b :: t) as js eqn:Ejs.
    destruct (divide_connecteds _ js) as [cs| |] eqn:Hd; simpl in H; try discriminate.
    destruct (divide_connecteds_spec _ _ _ Hd) as (Hwf & Hne & Hperm).
    assert (js <> []) as Hjs by (rewrite Ejs; discriminate). specialize (Hne Hjs).
    destruct cs as [|c [|c' r]]; [congruence | |].
    + inversion H. repeat split; try discriminate.
      * inversion Hwf; assumption.
      * cbn [jordans]. cbn [map concat] in Hperm. rewrite app_nil_r in Hperm. exact Hperm.
    + assert (s = SD (sort_by comp_ge (c :: c' :: r))) as ->
        by (unfold disjoint_of in H; congruence).
      repeat split; try discriminate.
      * rewrite sort_by_length. simpl. lia.
      * eapply Forall_perm; [apply Permutation_sym, sort_by_perm | exact Hwf].
      * cbn [jordans]. eapply Permutation_trans; [|exact Hperm].
        apply Permutation_concat_map, sort_by_perm.
Qed.

Corollary shape_from_jordans_kind : forall js s, shape_from_jordans js = Ok s ->
  match s with
  | SEmpty | SWhole => False
  | SC (CS _) => True
  | SC (CC l) => 2 <= length l
  | SD cs => 2 <= length cs
  end.
Proof.
  intros js s H. destruct (shape_from_jordans_spec js s H) as (H1 & H2 & H3 & _).
  destruct s as [| |[j|l]|cs]; try congruence; cbn in H3; tauto.
Qed.

Corollary shape_from_jordans_perm : forall js s, shape_from_jordans js = Ok s ->
  Permutation (jordans s) js.
Proof. intros js s H. apply (shape_from_jordans_spec js s H). Qed.

Corollary shape_from_jordans_count : forall js s, shape_from_jordans js = Ok s ->
  length (jordans s) = length js.
Proof. intros js s H. apply Permutation_length, shape_from_jordans_perm, H. Qed.

(* copy keeps the kind class and the curves *)
Theorem copy_shape_spec : forall s s', copy_shape s = Ok s' ->
  (s = SEmpty -> s' = SEmpty) /\ (s = SWhole -> s' = SWhole) /\
  shape_wf s' /\ Permutation (jordans s') (jordans s).
Proof.
  intros s s' H. destruct s as [| |c|cs]; cbn [copy_shape] in H.
  - inversion H. repeat split; try congruence. constructor.
  - inversion H. repeat split; try congruence. constructor.
  - apply shape_from_jordans_spec in H. destruct H as (_ & _ & H3 & H4).
    repeat split; try discriminate; assumption.
  - apply shape_from_jordans_spec in H. destruct H as (_ & _ & H3 & H4).
    repeat split; try discriminate; assumption.
Qed.

(* complement of any shape: the curves are the inverted curves, regrouped *)
Theorem op_not_perm : forall s s', op_not s = Ok s' ->
  shape_wf s' /\ Permutation (jordans s') (map invert (jordans s)).
Proof.
  intros s s' H. destruct s as [| |[j|js]|cs].
  - inversion H. split; constructor.
  - inversion H. split; constructor.
  - inversion H. split; [exact I | apply Permutation_refl].
  - cbn [op_not] in H. inversion H as [Hs]. clear H.
    set (cs := map (fun j => CS (invert j)) js).
    assert (Forall comp_wf cs) as Hwf.
    { apply Forall_forall. intros c Hc. apply in_map_iff in Hc. destruct Hc as (j & <- & _). exact I. }
    assert (concat (map comp_jordans cs) = map invert js) as Hcj.
    { unfold cs. clear. induction js as [|j t IH]; [reflexivity|]. cbn. f_equal. exact IH. }
    destruct js as [|a [|b t]].
    + cbn. split; constructor.
    + cbn. split; [exact I | apply Permutation_refl].
    + change (disjoint_of cs) with (SD (sort_by comp_ge cs)). split; [split|].
      * rewrite sort_by_length. unfold cs. simpl. lia.
      * eapply Forall_perm; [apply Permutation_sym, sort_by_perm | exact Hwf].
      * cbn [jordans comp_jordans]. rewrite <- Hcj.
        apply Permutation_concat_map, sort_by_perm.
  - cbn [op_not] in H. apply shape_from_jordans_spec in H. destruct H as (H1 & H2 & H3 & H4).
    split; assumption.
Qed.

(* kinds of the complement of a canonical shape
   (for the non-canonical SC (CC []) the result is SEmpty, for SC (CC [j]) it
   is Simple: the hypothesis shape_wf is needed) *)
Theorem op_not_kind : forall s s', shape_wf s -> op_not s = Ok s' ->
  match s with
  | SEmpty => s' = SWhole
  | SWhole => s' = SEmpty
  | SC (CS j) => s' = SC (CS (invert j))
  | SC (CC js) => exists cs, s' = SD cs /\ length cs = length js /\
                    forall c, In c cs -> exists j, In j js /\ c = CS (invert j)
  | SD _ => s' <> SEmpty /\ s' <> SWhole
  end.
Proof.
  intros s s' Hsw H. destruct s as [| |[j|js]|cs].
  - inversion H. reflexivity.
  - inversion H. reflexivity.
  - inversion H. reflexivity.
  - cbn in Hsw. destruct (op_not_connected js Hsw) as (cs & E & Hl & _ & Hin).
    exists cs. rewrite E in H. inversion H. subst. auto.
  - cbn [op_not] in H. apply shape_from_jordans_spec in H. tauto.
Qed.

(* ------------------------------------------------------------------ *)
(* C06: every curve produced by FollowPath is a closed chain           *)
(* ------------------------------------------------------------------ *)
Definition segs_ok (js : list jordan) : Prop :=
  forall j s, In j js -> In s j -> 2 <= length s.
Definition closed_all (js : list jordan) : Prop :=
  Forall (fun j => closed_chain j = true) js.
Definition inrange (js : list jordan) (m : list (nat * nat)) : Prop :=
  forall i k, In (i, k) m -> i < length js /\ k < length (nth i js []).

Lemma pursue_path_inrange js : forall fuel ij is_ m m',
  inrange js m -> pursue_path fuel ij is_ js m = Ok m' -> inrange js m'.
Proof.
  induction fuel as [|f IH]; intros ij is_ m m' Hv H; [discriminate|].
  cbn [pursue_path] in H.
  destruct (nth ij js []) as [|s0 segs] eqn:Hsegs; [discriminate|].
  set (is' := is_ mod length (s0 :: segs)) in *.
  assert (His : is' < length (s0 :: segs)).
  { apply Nat.mod_upper_bound. simpl; lia. }
  destruct (existsb (nn_eqb (ij, is')) m) eqn:Hex; [inversion H; subst; exact Hv|].
  assert (Hv' : inrange js (m ++ [(ij, is')])).
  { intros i k Hik. apply in_app_or in Hik. destruct Hik as [Hik|[Hik|[]]]; [auto|].
    inversion Hik; subst i k. rewrite Hsegs. split; [|exact His].
    destruct (lt_dec ij (length js)) as [Hl|Hl]; [exact Hl|].
    rewrite nth_overflow in Hsegs by lia. discriminate. }
  destruct (filter _ _); eapply IH; eassumption.
Qed.

Lemma filter_rotations_incl : forall m line, In line (filter_rotations m) -> In line m.
Proof.
  intros m line. unfold filter_rotations.
  assert (forall acc, In line (fold_left (fun filtered l =>
             if existsb (fun fl => is_rotation l fl) filtered then filtered
             else filtered ++ [l]) m acc) -> In line acc \/ In line m) as G.
  { induction m as [|x m IH]; intros acc H; cbn [fold_left] in H; [left; exact H|].
    apply IH in H. destruct H as [H|H]; [|right; right; exact H].
    destruct (existsb _ acc); [left; exact H|].
    apply in_app_or in H. destruct H as [H|[<-|[]]]; [left; exact H | right; left; reflexivity]. }
  intros H. apply G in H. destruct H as [[]|H]. exact H.
Qed.

Lemma mapM_ok_in : forall {A B} (f : A -> res B) l r, mapM f l = Ok r ->
  forall y, In y r -> exists x, In x l /\ f x = Ok y.
Proof.
  intros A B f l. induction l as [|x l IH]; intros r H y Hy; cbn [mapM] in H.
  - inversion H; subst. contradiction.
  - destruct (f x) as [y0| |] eqn:Ex; cbn [bind] in H; try discriminate.
    destruct (mapM f l) as [ys| |] eqn:El; cbn [bind] in H; try discriminate.
    inversion H; subst. destruct Hy as [<-|Hy].
    + exists x. split; [left; reflexivity | exact Ex].
    + destruct (IH ys eq_refl y Hy) as (x' & Hx' & Hf). exists x'. split; [right; exact Hx' | exact Hf].
Qed.

Theorem follow_path_closed : forall js starts l,
  segs_ok js -> follow_path js starts = Ok l -> closed_all l.
Proof.
  intros js starts l Hok H. unfold follow_path in H.
  destruct (mapM _ starts) as [paths| |] eqn:Hp; cbn [bind] in H; try discriminate.
  apply Forall_forall. intros j Hj.
  destruct (mapM_ok_in _ _ _ H j Hj) as (idx & Hidx & Hfs).
  apply filter_rotations_incl in Hidx.
  destruct (mapM_ok_in _ _ _ Hp idx Hidx) as (st & _ & Hpp).
  assert (inrange js idx) as Hr.
  { eapply pursue_path_inrange; [|exact Hpp]. intros i k []. }
  unfold indexs_to_jordan in Hfs. eapply from_segments_closed; [exact Hfs|].
  intros s Hs. apply in_map_iff in Hs. destruct Hs as ([i k] & <- & Hik). cbn [fst snd].
  destruct (Hr i k Hik) as [Hi Hk].
  apply (Hok (nth i js [])); apply nth_In; assumption.
Qed.

(* ------------------------------------------------------------------ *)
(* splitting keeps "every segment has at least two control points"     *)
(* ------------------------------------------------------------------ *)
Definition seg_ok (j : jordan) : Prop := forall s, In s j -> 2 <= length s.

Lemma reduce_once_length2 : forall s, 3 <= length s -> 2 <= length (reduce_once s).
Proof.
  intros [|P0 t] H; simpl in H; [lia|]. unfold reduce_once.
  destruct (reduce_from (degree (P0 :: t)) 1 P0 t) as [|q r] eqn:E.
  - exfalso. revert E. apply reduce_from_nonempty. lia.
  - rewrite map_length, app_length.
    change (removelast (P0 :: q :: r)) with (P0 :: removelast (q :: r)). simpl. lia.
Qed.

Lemma seg_clean_fuel_length2 : forall f s, 2 <= length s -> 2 <= length (seg_clean_fuel f s).
Proof.
  induction f as [|f IH]; intros s H; cbn [seg_clean_fuel]; [exact H|].
  destruct (reducible s) eqn:R; [|exact H].
  apply IH, reduce_once_length2, reducible_length, R.
Qed.
Lemma seg_clean_length2 : forall s, 2 <= length s -> 2 <= length (seg_clean s).
Proof. intros s H. apply seg_clean_fuel_length2, H. Qed.

Lemma set_segments_seg_ok : forall j, seg_ok j -> seg_ok (set_segments j).
Proof.
  intros j H s Hs. unfold set_segments in Hs. apply in_map_iff in Hs.
  destruct Hs as (s' & <- & Hs'). apply seg_clean_length2, H, Hs'.
Qed.

Lemma casteljau_levels_length : forall f t s, length s = f ->
  length (casteljau_levels f t s) = f.
Proof.
  induction f as [|f IH]; intros t s H; [reflexivity|]. cbn [casteljau_levels length]. f_equal.
  destruct s as [|a [|b s']]; simpl in H; [lia | simpl; lia |].
  apply IH. unfold casteljau_step. rewrite map_length, pairs_of_length. simpl in *. lia.
Qed.

Lemma split_at_length : forall t s,
  length (fst (split_at t s)) = length s /\ length (snd (split_at t s)) = length s.
Proof.
  intros t s. unfold split_at. cbn [fst snd].
  rewrite rev_length, !map_length, casteljau_levels_length by reflexivity. split; reflexivity.
Qed.

Lemma split_many_from_length : forall ts t0 s x,
  In x (split_many_from t0 ts s) -> length x = length s.
Proof.
  induction ts as [|t ts IH]; intros t0 s x Hx; cbn [split_many_from] in Hx.
  - destruct Hx as [<-|[]]. reflexivity.
  - destruct (split_at ((t - t0) / (1 - t0)) s) as [l r] eqn:E.
    pose proof (split_at_length ((t - t0) / (1 - t0)) s) as [Hl Hr]. rewrite E in Hl, Hr.
    cbn [fst snd] in Hl, Hr.
    destruct Hx as [<-|Hx]; [exact Hl|]. rewrite (IH _ _ _ Hx). exact Hr.
Qed.

Lemma split_many_length : forall ts s x, In x (split_many ts s) -> length x = length s.
Proof.
  intros ts s x Hx. unfold split_many in Hx. apply in_map_iff in Hx.
  destruct Hx as (y & <- & Hy). rewrite map_length. eapply split_many_from_length, Hy.
Qed.

Lemma split_segment_ok : forall s ns l, 2 <= length s -> split_segment s ns = Ok l ->
  forall x, In x l -> 2 <= length x.
Proof.
  intros s ns l Hs H x Hx. unfold split_segment in H.
  destruct (has_dup ns); [discriminate|]. inversion H; subst.
  apply in_map_iff in Hx. destruct Hx as (y & <- & Hy).
  apply seg_clean_length2. rewrite (split_many_length _ _ _ Hy). exact Hs.
Qed.

Lemma split_seg_ok : forall j indexs nodes j',
  seg_ok j -> Jordan.split j indexs nodes = Ok j' -> seg_ok j'.
Proof.
  intros j indexs nodes j' Hj H. unfold Jordan.split in H.
  destruct (assert_ _) as [[]| |]; cbn [bind] in H; try discriminate.
  destruct (assert_ _) as [[]| |]; cbn [bind] in H; try discriminate.
  destruct (assert_ _) as [[]| |]; cbn [bind] in H; try discriminate.
  destruct (mapM _ _) as [pieces| |] eqn:Hm; cbn [bind] in H; try discriminate.
  inversion H; subst. apply set_segments_seg_ok.
  intros x Hx. apply in_concat in Hx. destruct Hx as (piece & Hpiece & Hx).
  destruct (mapM_ok_in _ _ _ Hm piece Hpiece) as ([i s] & Hin & Hf).
  apply in_combine_r in Hin.
  destruct (map snd _) as [|n ns] in Hf.
  - inversion Hf; subst. destruct Hx as [<-|[]]. apply Hj, Hin.
  - eapply split_segment_ok; [apply Hj, Hin | exact Hf | exact Hx].
Qed.

Lemma split_two_jordans_ok : forall ja jb ja' jb',
  seg_ok ja -> seg_ok jb -> split_two_jordans ja jb = Ok (ja', jb') -> seg_ok ja' /\ seg_ok jb'.
Proof.
  intros ja jb ja' jb' Ha Hb H. unfold split_two_jordans in H.
  destruct (box_and _ _); [|inversion H; subst; split; assumption].
  destruct (jordan_and ja jb) as [inters| |]; cbn [bind] in H; try discriminate.
  destruct (Jordan.split ja _ _) as [xa| |] eqn:Ea; cbn [bind] in H; try discriminate.
  destruct (Jordan.split jb _ _) as [xb| |] eqn:Eb; cbn [bind] in H; try discriminate.
  inversion H; subst.
  split; [exact (split_seg_ok _ _ _ _ Ha Ea) | exact (split_seg_ok _ _ _ _ Hb Eb)].
Qed.

Lemma split_one_against_ok : forall jbs ja ja' jbs',
  seg_ok ja -> Forall seg_ok jbs -> split_one_against ja jbs = Ok (ja', jbs') ->
  seg_ok ja' /\ Forall seg_ok jbs'.
Proof.
  induction jbs as [|jb t IH]; intros ja ja' jbs' Ha Hb H; cbn [split_one_against] in H.
  - inversion H; subst. split; [exact Ha | constructor].
  - inversion Hb as [|? ? Hjb Ht]; subst.
    destruct (split_two_jordans ja jb) as [[xa xb]| |] eqn:E2; cbn [bind] in H; try discriminate.
    destruct (split_two_jordans_ok _ _ _ _ Ha Hjb E2) as [Hxa Hxb].
    destruct (split_one_against xa t) as [[ya t']| |] eqn:E1; cbn [bind] in H; try discriminate.
    destruct (IH _ _ _ Hxa Ht E1) as [Hya Ht'].
    inversion H; subst. split; [exact Hya | constructor; assumption].
Qed.

Lemma split_all_ok : forall jas jbs jas' jbs',
  Forall seg_ok jas -> Forall seg_ok jbs -> split_all jas jbs = Ok (jas', jbs') ->
  Forall seg_ok jas' /\ Forall seg_ok jbs'.
Proof.
  induction jas as [|ja t IH]; intros jbs jas' jbs' Ha Hb H; cbn [split_all] in H.
  - inversion H; subst. split; [constructor | exact Hb].
  - inversion Ha as [|? ? Hja Ht]; subst.
    destruct (split_one_against ja jbs) as [[xa xbs]| |] eqn:E1; cbn [bind] in H; try discriminate.
    destruct (split_one_against_ok _ _ _ _ Hja Hb E1) as [Hxa Hxbs].
    destruct (split_all t xbs) as [[t' ybs]| |] eqn:E2; cbn [bind] in H; try discriminate.
    destruct (IH _ _ _ Ht Hxbs E2) as [Ht' Hybs].
    inversion H; subst. split; [constructor; assumption | exact Hybs].
Qed.

Lemma segs_ok_Forall : forall js, segs_ok js <-> Forall seg_ok js.
Proof.
  intros js. unfold segs_ok, seg_ok. rewrite Forall_forall. split; intros H; intros; eapply H; eassumption.
Qed.

(* the new curves produced by or_shapes / and_shapes are closed chains *)
Theorem recombine_closed : forall a b closed inside a' b' new,
  segs_ok (jordans a) -> segs_ok (jordans b) ->
  recombine a b closed inside = Ok (a', b', new) -> closed_all new.
Proof.
  intros a b closed inside a' b' new Ha Hb H. unfold recombine in H.
  destruct (split_all _ _) as [[jas jbs]| |] eqn:Es; cbn [bind] in H; try discriminate.
  destruct (follow_path _ _) as [l| |] eqn:Ef; cbn [bind] in H; try discriminate.
  inversion H; subst.
  apply segs_ok_Forall in Ha, Hb.
  destruct (split_all_ok _ _ _ _ Ha Hb Es) as [Hjas Hjbs].
  eapply follow_path_closed; [|exact Ef].
  apply segs_ok_Forall, Forall_app. split; assumption.
Qed.

(* ------------------------------------------------------------------ *)
(* closedness in index form; invert keeps curves closed                *)
(* ------------------------------------------------------------------ *)
Lemma forallb_true_nth : forall {A} (f : A -> bool) (d : A) l,
  forallb f l = true <-> forall i, i < length l -> f (nth i l d) = true.
Proof.
  intros A f d l. split.
  - intros H i Hi. destruct (f (nth i l d)) eqn:E; [reflexivity|].
    assert (forallb f l = false) as H' by (apply (forallb_false_nth f d); eauto). congruence.
  - intros H. destruct (forallb f l) eqn:E; [reflexivity|].
    apply (forallb_false_nth f d) in E. destruct E as (i & Hi & E). rewrite H in E by exact Hi.
    discriminate.
Qed.

Definition ptest (sn : seg * point) : bool := peqb (last_pt (fst sn)) (snd sn).

Lemma chain_ok_forallb : forall j c, chain_ok c j = forallb ptest (juncs c j).
Proof.
  induction j as [|s t IH]; intros c; [reflexivity|].
  destruct t as [|s' t'].
  - cbn. rewrite Bool.andb_true_r. reflexivity.
  - change (chain_ok c (s :: s' :: t')) with (peqb (last_pt s) (first_pt s') && chain_ok c (s' :: t')).
    rewrite IH. reflexivity.
Qed.

Theorem closed_chain_iff : forall j : jordan,
  closed_chain j = true <->
  forall i, i < length j ->
    peq (last_pt (nth i j [])) (first_pt (nth ((i + 1) mod length j) j [])).
Proof.
  intros j.
  assert (closed_chain j = forallb ptest (juncs (first_pt (hd [] j)) j)) as ->.
  { destruct j as [|s t]; [reflexivity|]. unfold closed_chain. apply chain_ok_forallb. }
  rewrite (forallb_true_nth ptest ([], pzero)), juncs_length.
  split; intros H i Hi; specialize (H i Hi).
  - rewrite juncs_nth_mod in H by exact Hi. apply peqb_peq in H. exact H.
  - rewrite juncs_nth_mod by exact Hi. apply peqb_peq. exact H.
Qed.

Lemma hd_rev_last : forall (s : seg), first_pt (rev s) = last_pt s.
Proof.
  intros s. unfold first_pt, last_pt. induction s as [|a s IH]; [reflexivity|].
  destruct s as [|b s]; [reflexivity|].
  cbn [rev] in *. change (last (a :: b :: s) pzero) with (last (b :: s) pzero). rewrite <- IH.
  destruct (rev s ++ [b]) eqn:E; [destruct (rev s); discriminate | reflexivity].
Qed.
Lemma last_rev_hd : forall (s : seg), last_pt (rev s) = first_pt s.
Proof. intros s. rewrite <- (rev_involutive s) at 2. symmetry. apply hd_rev_last. Qed.

Lemma invert_nth : forall (j : jordan) i, i < length j ->
  nth i (invert j) [] = seg_clean (rev (nth (length j - S i) j [])).
Proof.
  intros j i Hi. unfold invert, set_segments.
  change (@nil point) with (seg_clean []) at 1. rewrite map_nth.
  rewrite rev_nth by (rewrite map_length; exact Hi). rewrite map_length.
  change (@nil point) with (rev (@nil point)) at 1. rewrite map_nth. reflexivity.
Qed.

Lemma invert_length : forall j, length (invert j) = length j.
Proof. intros j. unfold invert, set_segments. rewrite map_length, rev_length, map_length. reflexivity. Qed.

Theorem invert_closed : forall j, closed_chain j = true -> closed_chain (invert j) = true.
Proof.
  intros j H. rewrite closed_chain_iff in *. rewrite invert_length. intros i Hi.
  assert ((i + 1) mod length j < length j) as Hm by (apply Nat.mod_upper_bound; lia).
  rewrite !invert_nth by assumption.
  eapply peq_trans; [apply seg_clean_last|]. rewrite last_rev_hd.
  apply peq_sym. eapply peq_trans; [apply seg_clean_first|]. rewrite hd_rev_last.
  set (k' := length j - S ((i + 1) mod length j)).
  assert (k' < length j) as Hk' by (unfold k'; lia).
  specialize (H k' Hk').
  replace ((k' + 1) mod length j) with (length j - S i) in H; [exact H|].
  unfold k'. destruct (Nat.eq_dec (S i) (length j)) as [E|E].
  - rewrite (succ_mod_wrap i (length j)) by lia.
    replace (length j - 1 + 1) with (length j) by lia. rewrite Nat.mod_same by lia. lia.
  - rewrite (succ_mod_small i (length j)) by lia. rewrite Nat.mod_small by lia. lia.
Qed.

Lemma invert_seg_ok : forall j, seg_ok j -> seg_ok (invert j).
Proof.
  intros j H. unfold invert. apply set_segments_seg_ok. intros s Hs.
  apply in_rev in Hs. apply in_map_iff in Hs. destruct Hs as (s' & <- & Hs').
  rewrite rev_length. apply H, Hs'.
Qed.

(* ------------------------------------------------------------------ *)
(* C06: operator results are canonical shapes over closed curves       *)
(* ------------------------------------------------------------------ *)
Definition good (js : list jordan) : Prop := segs_ok js /\ closed_all js.

Lemma good_perm : forall l l', Permutation l l' -> good l -> good l'.
Proof.
  intros l l' HP [H1 H2]. split.
  - apply segs_ok_Forall. apply segs_ok_Forall in H1. eapply Forall_perm; eassumption.
  - eapply Forall_perm; eassumption.
Qed.
Lemma good_nil : good [].
Proof. split; [intros j s [] | constructor]. Qed.

Lemma juncs_fst : forall js c, map fst (juncs c js) = js.
Proof. induction js as [|s t IH]; intros c; [reflexivity|]. cbn [juncs map fst]. rewrite IH. reflexivity. Qed.

Lemma set_last_length : forall {A} (x : A) l, l <> [] -> length (set_last x l) = length l.
Proof.
  intros A x l H. unfold set_last. rewrite app_length. cbn [length].
  rewrite (app_removelast_last x H) at 2. rewrite app_length. reflexivity.
Qed.

Theorem from_segments_seg_ok : forall js j, from_segments js = Ok j -> seg_ok js -> seg_ok j.
Proof.
  intros js j H Hok. rewrite from_segments_juncs in H. destruct js as [|s0 t].
  - inversion H. intros s [].
  - destruct (forallb jtest _); cbn [assert_ bind] in H; [|discriminate].
    assert (j = map seg_clean (map repoint (juncs (first_pt s0) (s0 :: t)))) as -> by congruence.
    intros s Hs. apply in_map_iff in Hs. destruct Hs as (s' & <- & Hs').
    apply in_map_iff in Hs'. destruct Hs' as ([s'' n] & <- & Hsn).
    apply seg_clean_length2. unfold repoint. cbn [fst snd].
    assert (In s'' (s0 :: t)) as Hin.
    { rewrite <- (juncs_fst (s0 :: t) (first_pt s0)). apply (in_map fst) in Hsn. exact Hsn. }
    specialize (Hok s'' Hin). rewrite set_last_length; [exact Hok|].
    destruct s''; [simpl in Hok; lia | discriminate].
Qed.

Theorem follow_path_good : forall js starts l,
  segs_ok js -> follow_path js starts = Ok l -> good l.
Proof.
  intros js starts l Hok H. split; [|eapply follow_path_closed; eassumption].
  unfold follow_path in H.
  destruct (mapM _ starts) as [paths| |] eqn:Hp; cbn [bind] in H; try discriminate.
  intros j s Hj. revert s. change (seg_ok j).
  destruct (mapM_ok_in _ _ _ H j Hj) as (idx & Hidx & Hfs).
  apply filter_rotations_incl in Hidx.
  destruct (mapM_ok_in _ _ _ Hp idx Hidx) as (st & _ & Hpp).
  assert (inrange js idx) as Hr.
  { eapply pursue_path_inrange; [|exact Hpp]. intros i k []. }
  unfold indexs_to_jordan in Hfs. eapply from_segments_seg_ok; [exact Hfs|].
  intros s Hs. apply in_map_iff in Hs. destruct Hs as ([i k] & <- & Hik). cbn [fst snd].
  destruct (Hr i k Hik) as [Hi Hk].
  apply (Hok (nth i js [])); apply nth_In; assumption.
Qed.

Theorem recombine_good : forall a b closed inside a' b' new,
  segs_ok (jordans a) -> segs_ok (jordans b) ->
  recombine a b closed inside = Ok (a', b', new) -> good new.
Proof.
  intros a b closed inside a' b' new Ha Hb H. unfold recombine in H.
  destruct (split_all _ _) as [[jas jbs]| |] eqn:Es; cbn [bind] in H; try discriminate.
  destruct (follow_path _ _) as [l| |] eqn:Ef; cbn [bind] in H; try discriminate.
  inversion H; subst.
  apply segs_ok_Forall in Ha, Hb.
  destruct (split_all_ok _ _ _ _ Ha Hb Es) as [Hjas Hjbs].
  eapply follow_path_good; [|exact Ef].
  apply segs_ok_Forall, Forall_app. split; assumption.
Qed.

Theorem shape_from_jordans_good : forall js s, shape_from_jordans js = Ok s -> good js ->
  shape_wf s /\ good (jordans s).
Proof.
  intros js s H Hg. apply shape_from_jordans_spec in H. destruct H as (_ & _ & Hwf & HP).
  split; [exact Hwf|]. eapply good_perm; [apply Permutation_sym, HP | exact Hg].
Qed.

Theorem copy_shape_good : forall s s', copy_shape s = Ok s' -> good (jordans s) ->
  shape_wf s' /\ good (jordans s').
Proof.
  intros s s' H Hg. apply copy_shape_spec in H. destruct H as (_ & _ & Hwf & HP).
  split; [exact Hwf|]. eapply good_perm; [apply Permutation_sym, HP | exact Hg].
Qed.

Theorem op_not_good : forall s s', op_not s = Ok s' -> good (jordans s) ->
  shape_wf s' /\ good (jordans s').
Proof.
  intros s s' H [Hs Hc]. apply op_not_perm in H. destruct H as [Hwf HP].
  split; [exact Hwf|]. eapply good_perm; [apply Permutation_sym, HP|]. split.
  - intros j x Hj. apply in_map_iff in Hj. destruct Hj as (j' & <- & Hj'). revert x.
    apply invert_seg_ok. intros x Hx. eapply Hs; eassumption.
  - apply Forall_forall. intros j Hj. apply in_map_iff in Hj. destruct Hj as (j' & <- & Hj').
    apply invert_closed. unfold closed_all in Hc. rewrite Forall_forall in Hc. apply Hc, Hj'.
Qed.

(* the common branch of | and & for two proper (non Empty/Whole) operands *)
Definition gen_branch (a b ca cb : shape) (closed inside : bool) (dflt : shape) : res op3 :=
  do x <- contains_shape a b;
  if x then (do c <- copy_shape ca; Ok (a, b, c)) else
  do y <- contains_shape b a;
  if y then (do c <- copy_shape cb; Ok (a, b, c)) else
  do r <- recombine a b closed inside;
  let '(a', b', new) := r in
  match new with
  | [] => Ok (a', b', dflt)
  | _ => do s <- shape_from_jordans new; Ok (a', b', s)
  end.

Lemma gen_branch_good : forall a b ca cb closed inside dflt a' b' s,
  gen_branch a b ca cb closed inside dflt = Ok (a', b', s) ->
  good (jordans a) -> good (jordans b) -> good (jordans ca) -> good (jordans cb) ->
  shape_wf dflt -> good (jordans dflt) ->
  shape_wf s /\ good (jordans s).
Proof.
  intros a b ca cb closed inside dflt a' b' s H Ha Hb Hca Hcb Hd1 Hd2. unfold gen_branch in H.
  destruct (contains_shape a b) as [x| |]; cbn [bind] in H; try discriminate.
  destruct x.
  { destruct (copy_shape ca) as [c| |] eqn:Ec; cbn [bind] in H; try discriminate.
    inversion H; subst. eapply copy_shape_good; eassumption. }
  destruct (contains_shape b a) as [y| |]; cbn [bind] in H; try discriminate.
  destruct y.
  { destruct (copy_shape cb) as [c| |] eqn:Ec; cbn [bind] in H; try discriminate.
    inversion H; subst. eapply copy_shape_good; eassumption. }
  destruct (recombine a b closed inside) as [[[xa xb] new]| |] eqn:Er; cbn [bind] in H; try discriminate.
  apply recombine_good in Er; [|apply Ha|apply Hb].
  destruct new as [|n0 nt].
  - inversion H; subst. split; assumption.
  - destruct (shape_from_jordans (n0 :: nt)) as [s0| |] eqn:Es; cbn [bind] in H; try discriminate.
    inversion H; subst. eapply shape_from_jordans_good; eassumption.
Qed.

Lemma op_or_general : forall a b, a <> SEmpty -> a <> SWhole -> b <> SEmpty -> b <> SWhole ->
  op_or a b = gen_branch a b a b true false SWhole.
Proof. intros [| | |] [| | |] H1 H2 H3 H4; try congruence; reflexivity. Qed.
Lemma op_and_general : forall a b, a <> SEmpty -> a <> SWhole -> b <> SEmpty -> b <> SWhole ->
  op_and a b = gen_branch a b b a false true SEmpty.
Proof. intros [| | |] [| | |] H1 H2 H3 H4; try congruence; reflexivity. Qed.

Lemma shape_singleton_dec : forall s, s = SEmpty \/ s = SWhole \/ (s <> SEmpty /\ s <> SWhole).
Proof. intros [| | |]; auto; right; right; split; discriminate. Qed.

Theorem op_or_good : forall a b a' b' s, op_or a b = Ok (a', b', s) ->
  good (jordans a) -> good (jordans b) -> shape_wf s /\ good (jordans s).
Proof.
  intros a b a' b' s H Ha Hb.
  destruct (shape_singleton_dec a) as [-> | [-> | [Ha1 Ha2]]].
  - rewrite op_or_empty_l in H.
    destruct (copy_shape b) as [c| |] eqn:Ec; cbn [bind] in H; try discriminate.
    inversion H; subst. eapply copy_shape_good; eassumption.
  - rewrite op_or_whole_l in H. inversion H; subst. split; [exact I | apply good_nil].
  - destruct (shape_singleton_dec b) as [-> | [-> | [Hb1 Hb2]]].
    + rewrite op_or_empty_r in H.
      destruct (copy_shape a) as [c| |] eqn:Ec; cbn [bind] in H; try discriminate.
      inversion H; subst. eapply copy_shape_good; eassumption.
    + rewrite op_or_whole_r in H. inversion H; subst. split; [exact I | apply good_nil].
    + rewrite op_or_general in H by assumption.
      eapply gen_branch_good; try eassumption; [exact I | apply good_nil].
Qed.

Theorem op_and_good : forall a b a' b' s, op_and a b = Ok (a', b', s) ->
  good (jordans a) -> good (jordans b) -> shape_wf s /\ good (jordans s).
Proof.
  intros a b a' b' s H Ha Hb.
  destruct (shape_singleton_dec a) as [-> | [-> | [Ha1 Ha2]]].
  - rewrite op_and_empty_l in H. inversion H; subst. split; [exact I | apply good_nil].
  - rewrite op_and_whole_l in H.
    destruct (copy_shape b) as [c| |] eqn:Ec; cbn [bind] in H; try discriminate.
    inversion H; subst. eapply copy_shape_good; eassumption.
  - destruct (shape_singleton_dec b) as [-> | [-> | [Hb1 Hb2]]].
    + rewrite op_and_empty_r in H. inversion H; subst. split; [exact I | apply good_nil].
    + rewrite op_and_whole_r in H.
      destruct (copy_shape a) as [c| |] eqn:Ec; cbn [bind] in H; try discriminate.
      inversion H; subst. eapply copy_shape_good; eassumption.
    + rewrite op_and_general in H by assumption.
      eapply gen_branch_good; try eassumption; [exact I | apply good_nil].
Qed.

Theorem op_sub_good : forall a b a' s, op_sub a b = Ok (a', s) ->
  good (jordans a) -> good (jordans b) -> shape_wf s /\ good (jordans s).
Proof.
  intros a b a' s H Ha Hb.
  assert (forall nb, op_not b = Ok nb -> shape_wf nb /\ good (jordans nb)) as Hnb
    by (intros nb E; eapply op_not_good; eassumption).
  destruct a as [| |c|cs]; cbn [op_sub] in H.
  - inversion H; subst. split; [exact I | apply good_nil].
  - destruct (op_not b) as [nb| |] eqn:En; cbn [bind] in H; try discriminate.
    inversion H; subst. apply Hnb. reflexivity.
  - destruct (op_not b) as [nb| |] eqn:En; cbn [bind] in H; try discriminate.
    destruct (op_and (SC c) nb) as [[[xa xb] r]| |] eqn:Ea; cbn [bind] in H; try discriminate.
    inversion H; subst. eapply op_and_good; [exact Ea | exact Ha | apply Hnb; reflexivity].
  - destruct (op_not b) as [nb| |] eqn:En; cbn [bind] in H; try discriminate.
    destruct (op_and (SD cs) nb) as [[[xa xb] r]| |] eqn:Ea; cbn [bind] in H; try discriminate.
    inversion H; subst. eapply op_and_good; [exact Ea | exact Ha | apply Hnb; reflexivity].
Qed.

(* ------------------------------------------------------------------ *)
(* splitting keeps curves closed                                       *)
(* ------------------------------------------------------------------ *)
(* a chain of segments leading from p to q *)
Fixpoint path (p q : point) (l : list seg) : Prop :=
  match l with
  | [] => peq p q
  | s :: t => peq p (first_pt s) /\ path (last_pt s) q t
  end.

Lemma path_start : forall l p p' q, peq p p' -> path p q l -> path p' q l.
Proof.
  intros [|s t] p p' q Hp H; cbn [path] in *.
  - eapply peq_trans; [apply peq_sym, Hp | exact H].
  - destruct H as [H1 H2]. split; [|exact H2]. eapply peq_trans; [apply peq_sym, Hp | exact H1].
Qed.
Lemma path_end : forall l p q q', peq q q' -> path p q l -> path p q' l.
Proof.
  induction l as [|s t IH]; intros p q q' Hq H; cbn [path] in *.
  - eapply peq_trans; eassumption.
  - destruct H as [H1 H2]. split; [exact H1|]. eapply IH; eassumption.
Qed.
Lemma path_app : forall l1 l2 p q r, path p q l1 -> path q r l2 -> path p r (l1 ++ l2).
Proof.
  induction l1 as [|s t IH]; intros l2 p q r H1 H2; cbn [path app] in *.
  - eapply path_start; [apply peq_sym, H1 | exact H2].
  - destruct H1 as [Ha Hb]. split; [exact Ha|]. eapply IH; eassumption.
Qed.

Lemma chain_ok_path : forall t s c, chain_ok c (s :: t) = true <-> path (last_pt s) c t.
Proof.
  induction t as [|s' t' IH]; intros s c.
  - cbn [chain_ok path]. apply peqb_peq.
  - change (chain_ok c (s :: s' :: t')) with (peqb (last_pt s) (first_pt s') && chain_ok c (s' :: t')).
    rewrite Bool.andb_true_iff, peqb_peq, IH. reflexivity.
Qed.

Theorem closed_chain_path : forall j, closed_chain j = true <-> exists p, path p p j.
Proof.
  intros [|s t].
  - split; [intros _; exists pzero; apply peq_refl | reflexivity].
  - unfold closed_chain. rewrite chain_ok_path. split.
    + intros H. exists (first_pt s). split; [apply peq_refl | exact H].
    + intros (p & H1 & H2). eapply path_end; [exact H1 | exact H2].
Qed.

Lemma path_map_clean : forall l p q, path p q l -> path p q (map seg_clean l).
Proof.
  induction l as [|s t IH]; intros p q H; cbn [path map] in *; [exact H|].
  destruct H as [H1 H2]. split.
  - eapply peq_trans; [exact H1 | apply peq_sym, seg_clean_first].
  - eapply path_start; [apply peq_sym, seg_clean_last | apply IH, H2].
Qed.

Lemma first_pt_map_pred : forall s, first_pt (map pred_ s) = pred_ (first_pt s).
Proof. intros [|a s]; reflexivity. Qed.
Lemma last_pt_map_pred : forall s, last_pt (map pred_ s) = pred_ (last_pt s).
Proof. intros s. unfold last_pt. change pzero with (pred_ pzero) at 1. apply last_map. Qed.

Lemma path_map_pred : forall l p q, path p q l -> path p q (map (map pred_) l).
Proof.
  induction l as [|s t IH]; intros p q H; cbn [path map] in *; [exact H|].
  destruct H as [H1 H2]. split.
  - rewrite first_pt_map_pred. eapply peq_trans; [exact H1 | apply peq_sym, pred_peq].
  - rewrite last_pt_map_pred. eapply path_start; [apply peq_sym, pred_peq | apply IH, H2].
Qed.

Lemma casteljau_levels_last : forall f t s, length s = f -> 1 <= f ->
  exists x, last (casteljau_levels f t s) [] = [x].
Proof.
  induction f as [|f IH]; intros t s H Hf; [lia|].
  cbn [casteljau_levels].
  destruct s as [|a [|b s']]; simpl in H; [lia | exists a; reflexivity |].
  destruct (IH t (casteljau_step t (a :: b :: s'))) as [x Hx].
  - unfold casteljau_step. rewrite map_length, pairs_of_length. simpl. lia.
  - lia.
  - exists x. rewrite <- Hx.
    destruct (casteljau_levels f t (casteljau_step t (a :: b :: s')));
      [simpl in Hx; discriminate | reflexivity].
Qed.

Lemma casteljau_levels_hd : forall f t s, 1 <= f -> hd [] (casteljau_levels f t s) = s.
Proof. intros [|f] t s H; [lia | reflexivity]. Qed.

Lemma last_rev : forall {A} (l : list A) d, last (rev l) d = hd d l.
Proof. intros A [|a l] d; [reflexivity|]. cbn [rev hd]. apply last_last. Qed.
Lemma hd_rev : forall {A} (l : list A) d, hd d (rev l) = last l d.
Proof. intros A l d. rewrite <- (rev_involutive l) at 2. symmetry. apply last_rev. Qed.
Lemma hd_map : forall {A B} (f : A -> B) l d, hd (f d) (map f l) = f (hd d l).
Proof. intros A B f [|a l] d; reflexivity. Qed.

Lemma split_at_ends : forall t s, s <> [] ->
  first_pt (fst (split_at t s)) = first_pt s /\
  last_pt (snd (split_at t s)) = last_pt s /\
  last_pt (fst (split_at t s)) = first_pt (snd (split_at t s)).
Proof.
  intros t s Hs. unfold split_at. cbn [fst snd].
  assert (1 <= length s) as Hl by (destruct s; [congruence | simpl; lia]).
  set (lv := casteljau_levels (length s) t s).
  repeat split.
  - unfold first_pt at 1. change pzero with (first_pt []). rewrite hd_map.
    unfold lv. rewrite casteljau_levels_hd by exact Hl. reflexivity.
  - unfold last_pt at 1. rewrite last_rev. change pzero with (last_pt []). rewrite hd_map.
    unfold lv. rewrite casteljau_levels_hd by exact Hl. reflexivity.
  - unfold last_pt at 1. unfold first_pt at 2. rewrite hd_rev.
    change pzero with (first_pt []) at 1. rewrite last_map.
    change pzero with (last_pt []) at 1. rewrite last_map.
    destruct (casteljau_levels_last (length s) t s eq_refl Hl) as [x Hx].
    fold lv in Hx. rewrite Hx. reflexivity.
Qed.

Lemma split_many_from_path : forall ts t0 s, s <> [] ->
  path (first_pt s) (last_pt s) (split_many_from t0 ts s).
Proof.
  induction ts as [|t ts IH]; intros t0 s Hs; cbn [split_many_from].
  - cbn [path]. split; apply peq_refl.
  - destruct (split_at_ends ((t - t0) / (1 - t0)) s Hs) as (H1 & H2 & H3).
    pose proof (split_at_length ((t - t0) / (1 - t0)) s) as [_ Hr].
    destruct (split_at ((t - t0) / (1 - t0)) s) as [l r]. cbn [fst snd] in *.
    cbn [path]. split; [rewrite H1; apply peq_refl|].
    rewrite H3, <- H2. apply IH. destruct r; [|discriminate].
    destruct s; [congruence | discriminate].
Qed.

Lemma split_segment_path : forall s ns l, s <> [] -> split_segment s ns = Ok l ->
  path (first_pt s) (last_pt s) l.
Proof.
  intros s ns l Hs H. unfold split_segment in H.
  destruct (has_dup ns); [discriminate|]. inversion H; subst.
  apply path_map_clean. unfold split_many. apply path_map_pred, split_many_from_path, Hs.
Qed.

Lemma mapM_Forall2 : forall {A B} (f : A -> res B) l r, mapM f l = Ok r ->
  Forall2 (fun x y => f x = Ok y) l r.
Proof.
  intros A B f l. induction l as [|x l IH]; intros r H; cbn [mapM] in H.
  - inversion H. constructor.
  - destruct (f x) as [y0| |] eqn:Ex; cbn [bind] in H; try discriminate.
    destruct (mapM f l) as [ys| |] eqn:El; cbn [bind] in H; try discriminate.
    inversion H; subst. constructor; [exact Ex | apply IH; reflexivity].
Qed.

Lemma path_concat : forall (j : jordan) (pieces : list (list seg)) p q,
  Forall2 (fun s P => path (first_pt s) (last_pt s) P) j pieces ->
  path p q j -> path p q (concat pieces).
Proof.
  intros j pieces p q HF. revert p q. induction HF as [|s P j' Ps HsP HF IH]; intros p q H.
  - exact H.
  - cbn [path concat] in *. destruct H as [H1 H2].
    eapply path_app; [|apply IH, H2].
    eapply path_start; [apply peq_sym, H1 | exact HsP].
Qed.

Lemma Forall2_combine_r : forall {K A B} (R : K * A -> B -> Prop) (j : list A) ks ps,
  length ks = length j -> Forall2 R (combine ks j) ps ->
  Forall2 (fun s P => exists k, R (k, s) P) j ps.
Proof.
  intros K A B R j. induction j as [|s j IH]; intros ks ps Hl H.
  - destruct ks; [|discriminate]. inversion H. constructor.
  - destruct ks as [|k ks]; [discriminate|]. cbn [combine] in H.
    inversion H; subst. constructor; [eauto|]. eapply IH; [|eassumption]. simpl in Hl. lia.
Qed.

Lemma split_closed : forall j indexs nodes j',
  seg_ok j -> closed_chain j = true -> Jordan.split j indexs nodes = Ok j' ->
  closed_chain j' = true.
Proof.
  intros j indexs nodes j' Hj Hc H. unfold Jordan.split in H.
  destruct (assert_ _) as [[]| |]; cbn [bind] in H; try discriminate.
  destruct (assert_ _) as [[]| |]; cbn [bind] in H; try discriminate.
  destruct (assert_ _) as [[]| |]; cbn [bind] in H; try discriminate.
  destruct (mapM _ _) as [pieces| |] eqn:Hm; cbn [bind] in H; try discriminate.
  inversion H; subst. apply closed_chain_path in Hc. destruct Hc as [p Hp].
  apply closed_chain_path. exists p. unfold set_segments. apply path_map_clean.
  eapply path_concat; [|exact Hp].
  apply mapM_Forall2 in Hm. apply Forall2_combine_r in Hm; [|apply seq_length].
  clear -Hm Hj. induction Hm as [|s P j' Ps HsP HF IH]; [constructor|]. constructor.
  - destruct HsP as [k Hk].
    assert (s <> []) as Hs.
    { specialize (Hj s (or_introl eq_refl)). destruct s; [simpl in Hj; lia | discriminate]. }
    destruct (map snd _) as [|n ns] in Hk.
    + inversion Hk. cbn [path]. split; apply peq_refl.
    + eapply split_segment_path; eassumption.
  - apply IH. intros x Hx. apply Hj. right. exact Hx.
Qed.

Definition jgood (j : jordan) : Prop := seg_ok j /\ closed_chain j = true.

Lemma split_jgood : forall j indexs nodes j',
  jgood j -> Jordan.split j indexs nodes = Ok j' -> jgood j'.
Proof.
  intros j i n j' [H1 H2] H. split; [eapply split_seg_ok | eapply split_closed]; eassumption.
Qed.

Lemma split_two_jordans_jgood : forall ja jb ja' jb',
  jgood ja -> jgood jb -> split_two_jordans ja jb = Ok (ja', jb') -> jgood ja' /\ jgood jb'.
Proof.
  intros ja jb ja' jb' Ha Hb H. unfold split_two_jordans in H.
  destruct (box_and _ _); [|inversion H; subst; split; assumption].
  destruct (jordan_and ja jb) as [inters| |]; cbn [bind] in H; try discriminate.
  destruct (Jordan.split ja _ _) as [xa| |] eqn:Ea; cbn [bind] in H; try discriminate.
  destruct (Jordan.split jb _ _) as [xb| |] eqn:Eb; cbn [bind] in H; try discriminate.
  inversion H; subst.
  split; [exact (split_jgood _ _ _ _ Ha Ea) | exact (split_jgood _ _ _ _ Hb Eb)].
Qed.

Lemma split_one_against_jgood : forall jbs ja ja' jbs',
  jgood ja -> Forall jgood jbs -> split_one_against ja jbs = Ok (ja', jbs') ->
  jgood ja' /\ Forall jgood jbs'.
Proof.
  induction jbs as [|jb t IH]; intros ja ja' jbs' Ha Hb H; cbn [split_one_against] in H.
  - inversion H; subst. split; [exact Ha | constructor].
  - inversion Hb as [|? ? Hjb Ht]; subst.
    destruct (split_two_jordans ja jb) as [[xa xb]| |] eqn:E2; cbn [bind] in H; try discriminate.
    destruct (split_two_jordans_jgood _ _ _ _ Ha Hjb E2) as [Hxa Hxb].
    destruct (split_one_against xa t) as [[ya t']| |] eqn:E1; cbn [bind] in H; try discriminate.
    destruct (IH _ _ _ Hxa Ht E1) as [Hya Ht'].
    inversion H; subst. split; [exact Hya | constructor; assumption].
Qed.

Lemma split_all_jgood : forall jas jbs jas' jbs',
  Forall jgood jas -> Forall jgood jbs -> split_all jas jbs = Ok (jas', jbs') ->
  Forall jgood jas' /\ Forall jgood jbs'.
Proof.
  induction jas as [|ja t IH]; intros jbs jas' jbs' Ha Hb H; cbn [split_all] in H.
  - inversion H; subst. split; [constructor | exact Hb].
  - inversion Ha as [|? ? Hja Ht]; subst.
    destruct (split_one_against ja jbs) as [[xa xbs]| |] eqn:E1; cbn [bind] in H; try discriminate.
    destruct (split_one_against_jgood _ _ _ _ Hja Hb E1) as [Hxa Hxbs].
    destruct (split_all t xbs) as [[t' ybs]| |] eqn:E2; cbn [bind] in H; try discriminate.
    destruct (IH _ _ _ Ht Hxbs E2) as [Ht' Hybs].
    inversion H; subst. split; [constructor; assumption | exact Hybs].
Qed.

Lemma good_Forall : forall js, good js <-> Forall jgood js.
Proof.
  intros js. unfold good, jgood, closed_all. rewrite segs_ok_Forall, !Forall_forall. split.
  - intros [H1 H2] j Hj. split; auto.
  - intros H. split; intros j Hj; apply (H j Hj).
Qed.

(* ------------------------------------------------------------------ *)
(* the (split) operands stay good; all five operators                  *)
(* ------------------------------------------------------------------ *)
Lemma jgood_nil : jgood [].
Proof. split; [intros s [] | reflexivity]. Qed.

Lemma comp_with_in : forall c js,
  (forall j, In j (comp_jordans (fst (comp_with c js))) -> In j js \/ j = []) /\
  incl (snd (comp_with c js)) js.
Proof.
  intros [j0|old] js; cbn [comp_with fst snd comp_jordans].
  - split.
    + intros j [<-|[]]. destruct js; [right; reflexivity | left; left; reflexivity].
    + destruct js; [apply incl_refl | apply incl_tl, incl_refl].
  - split.
    + intros j Hj. left. rewrite <- (firstn_skipn (length old) js). apply in_or_app. left; exact Hj.
    + intros j Hj. rewrite <- (firstn_skipn (length old) js). apply in_or_app. right; exact Hj.
Qed.

Lemma comps_with_in : forall cs js j,
  In j (concat (map comp_jordans (comps_with cs js))) -> In j js \/ j = [].
Proof.
  induction cs as [|c t IH]; intros js j H; cbn [comps_with] in H; [contradiction|].
  destruct (comp_with_in c js) as [H1 H2].
  destruct (comp_with c js) as [c' rest]. cbn [fst snd map concat] in *.
  apply in_app_or in H. destruct H as [H|H]; [apply H1, H|].
  destruct (IH rest j H) as [H'|H']; [left; apply H2, H' | right; exact H'].
Qed.

Lemma with_jordans_in : forall s js j,
  In j (jordans (with_jordans s js)) -> In j js \/ j = [].
Proof.
  intros [| |c|cs] js j H; cbn [with_jordans jordans] in H; try contradiction.
  - exact (proj1 (comp_with_in c js) j H).
  - exact (comps_with_in cs js j H).
Qed.

Lemma with_jordans_good : forall s js, Forall jgood js -> good (jordans (with_jordans s js)).
Proof.
  intros s js H. apply good_Forall. apply Forall_forall. intros j Hj.
  destruct (with_jordans_in s js j Hj) as [Hin | ->]; [|apply jgood_nil].
  rewrite Forall_forall in H. apply H, Hin.
Qed.

Theorem recombine_all_good : forall a b closed inside a' b' new,
  good (jordans a) -> good (jordans b) ->
  recombine a b closed inside = Ok (a', b', new) ->
  good (jordans a') /\ good (jordans b') /\ good new.
Proof.
  intros a b closed inside a' b' new Ha Hb H.
  pose proof (recombine_good _ _ _ _ _ _ _ (proj1 Ha) (proj1 Hb) H) as Hn.
  unfold recombine in H.
  destruct (split_all _ _) as [[jas jbs]| |] eqn:Es; cbn [bind] in H; try discriminate.
  destruct (follow_path _ _) as [l| |] eqn:Ef; cbn [bind] in H; try discriminate.
  inversion H; subst.
  apply good_Forall in Ha, Hb.
  destruct (split_all_jgood _ _ _ _ Ha Hb Es) as [Hjas Hjbs].
  repeat split; try apply with_jordans_good; try assumption; apply Hn.
Qed.

Lemma gen_branch_operands_good : forall a b ca cb closed inside dflt a' b' s,
  gen_branch a b ca cb closed inside dflt = Ok (a', b', s) ->
  good (jordans a) -> good (jordans b) -> good (jordans a') /\ good (jordans b').
Proof.
  intros a b ca cb closed inside dflt a' b' s H Ha Hb. unfold gen_branch in H.
  destruct (contains_shape a b) as [x| |]; cbn [bind] in H; try discriminate.
  destruct x.
  { destruct (copy_shape ca) as [c| |]; cbn [bind] in H; try discriminate.
    inversion H; subst. split; assumption. }
  destruct (contains_shape b a) as [y| |]; cbn [bind] in H; try discriminate.
  destruct y.
  { destruct (copy_shape cb) as [c| |]; cbn [bind] in H; try discriminate.
    inversion H; subst. split; assumption. }
  destruct (recombine a b closed inside) as [[[xa xb] new]| |] eqn:Er; cbn [bind] in H; try discriminate.
  destruct (recombine_all_good _ _ _ _ _ _ _ Ha Hb Er) as (H1 & H2 & _).
  destruct new as [|n0 nt].
  - inversion H; subst. split; assumption.
  - destruct (shape_from_jordans (n0 :: nt)) as [s0| |]; cbn [bind] in H; try discriminate.
    inversion H; subst. split; assumption.
Qed.

Theorem op_or_operands_good : forall a b a' b' s, op_or a b = Ok (a', b', s) ->
  good (jordans a) -> good (jordans b) -> good (jordans a') /\ good (jordans b').
Proof.
  intros a b a' b' s H Ha Hb.
  destruct (shape_singleton_dec a) as [-> | [-> | [Ha1 Ha2]]].
  - rewrite op_or_empty_l in H. destruct (copy_shape b); cbn [bind] in H; try discriminate.
    inversion H; subst. split; assumption.
  - rewrite op_or_whole_l in H. inversion H; subst. split; assumption.
  - destruct (shape_singleton_dec b) as [-> | [-> | [Hb1 Hb2]]].
    + rewrite op_or_empty_r in H. destruct (copy_shape a); cbn [bind] in H; try discriminate.
      inversion H; subst. split; assumption.
    + rewrite op_or_whole_r in H. inversion H; subst. split; assumption.
    + rewrite op_or_general in H by assumption. eapply gen_branch_operands_good; eassumption.
Qed.

Theorem op_and_operands_good : forall a b a' b' s, op_and a b = Ok (a', b', s) ->
  good (jordans a) -> good (jordans b) -> good (jordans a') /\ good (jordans b').
Proof.
  intros a b a' b' s H Ha Hb.
  destruct (shape_singleton_dec a) as [-> | [-> | [Ha1 Ha2]]].
  - rewrite op_and_empty_l in H. inversion H; subst. split; assumption.
  - rewrite op_and_whole_l in H. destruct (copy_shape b); cbn [bind] in H; try discriminate.
    inversion H; subst. split; assumption.
  - destruct (shape_singleton_dec b) as [-> | [-> | [Hb1 Hb2]]].
    + rewrite op_and_empty_r in H. inversion H; subst. split; assumption.
    + rewrite op_and_whole_r in H. destruct (copy_shape a); cbn [bind] in H; try discriminate.
      inversion H; subst. split; assumption.
    + rewrite op_and_general in H by assumption. eapply gen_branch_operands_good; eassumption.
Qed.

Theorem op_sub_operand_good : forall a b a' s, op_sub a b = Ok (a', s) ->
  good (jordans a) -> good (jordans b) -> good (jordans a').
Proof.
  intros a b a' s H Ha Hb.
  assert (forall nb, op_not b = Ok nb -> good (jordans nb)) as Hnb
    by (intros nb E; eapply op_not_good; eassumption).
  destruct a as [| |c|cs]; cbn [op_sub] in H.
  - inversion H; subst. exact Ha.
  - destruct (op_not b) as [nb| |]; cbn [bind] in H; try discriminate. inversion H; subst. exact Ha.
  - destruct (op_not b) as [nb| |] eqn:En; cbn [bind] in H; try discriminate.
    destruct (op_and (SC c) nb) as [[[xa xb] r]| |] eqn:Ea; cbn [bind] in H; try discriminate.
    inversion H; subst. exact (proj1 (op_and_operands_good _ _ _ _ _ Ea Ha (Hnb _ eq_refl))).
  - destruct (op_not b) as [nb| |] eqn:En; cbn [bind] in H; try discriminate.
    destruct (op_and (SD cs) nb) as [[[xa xb] r]| |] eqn:Ea; cbn [bind] in H; try discriminate.
    inversion H; subst. exact (proj1 (op_and_operands_good _ _ _ _ _ Ea Ha (Hnb _ eq_refl))).
Qed.

Theorem op_xor_good : forall a b a' b' s, op_xor a b = Ok (a', b', s) ->
  good (jordans a) -> good (jordans b) ->
  shape_wf s /\ good (jordans s) /\ good (jordans a') /\ good (jordans b').
Proof.
  intros a b a' b' s H Ha Hb. unfold op_xor in H.
  destruct (op_sub a b) as [[a1 d1]| |] eqn:E1; cbn [bind] in H; try discriminate.
  destruct (op_sub b a1) as [[b1 d2]| |] eqn:E2; cbn [bind] in H; try discriminate.
  destruct (op_or d1 d2) as [[[x1 x2] s0]| |] eqn:E3; cbn [bind] in H; try discriminate.
  inversion H; subst.
  pose proof (op_sub_operand_good _ _ _ _ E1 Ha Hb) as Ha1.
  destruct (op_sub_good _ _ _ _ E1 Ha Hb) as [_ Hd1].
  pose proof (op_sub_operand_good _ _ _ _ E2 Hb Ha1) as Hb1.
  destruct (op_sub_good _ _ _ _ E2 Hb Ha1) as [_ Hd2].
  destruct (op_or_good _ _ _ _ _ E3 Hd1 Hd2) as [Hw Hs].
  repeat split; try assumption; try apply Hs; try apply Ha1; apply Hb1.
Qed.

(* ------------------------------------------------------------------ *)
(* C17 wrap-up                                                         *)
(* ------------------------------------------------------------------ *)
Local Open Scope Q_scope.

Lemma pt_eq_false_iff : forall p q,
  pt_eq p q = false <->
  tol9 < Qabs' (px p - px q) \/ tol9 < Qabs' (py p - py q).
Proof.
  intros p q. unfold pt_eq. rewrite Bool.andb_false_iff, !Bool.negb_false_iff.
  assert (forall a b, Qlt_bool a b = true <-> a < b) as E.
  { intros a b. split; [apply Qlt_bool_true|]. intros H. unfold Qlt_bool.
    apply Bool.negb_true_iff. destruct (Qle_bool b a) eqn:F; [|reflexivity].
    apply Qle_bool_iff in F. lra. }
  rewrite !E. reflexivity.
Qed.

Lemma in_removelast : forall {A} (l : list A) x, In x (removelast l) -> In x l.
Proof.
  intros A l x H. destruct l as [|a t]; [contradiction|].
  rewrite (app_removelast_last a (l := a :: t)) by discriminate. apply in_or_app. left; exact H.
Qed.

Theorem vertices_in_box : forall j p, In p (vertices j) -> in_box (jordan_box j) p.
Proof.
  intros j p H. unfold vertices in H. apply in_concat in H. destruct H as (l & Hl & Hp).
  apply in_map_iff in Hl. destruct Hl as (s & <- & Hs).
  eapply jordan_box_ctrl; [exact Hs | apply in_removelast, Hp].
Qed.

(* the three constructors on the same polygon: same curve, hence same
   vertices / segments / box; orientation = shoelace sign *)
Theorem constructors_agree : forall vs j, vs <> [] -> from_vertices vs = Ok j ->
  from_segments j = Ok j /\ from_ctrlpoints j = Ok j /\
  vertices j = vs /\ length j = length vs /\
  closed_chain j = true /\
  (forall v, In v vs -> in_box (jordan_box j) v) /\
  jordan_pos j = Qlt_bool 0 (shoelace2 j).
Proof.
  intros vs j Hne H.
  destruct (from_vertices_spec vs j Hne H) as (Hv & Hl & Hlines & Hc).
  pose proof H as H0. rewrite from_vertices_ok in H0 by exact Hne.
  assert (map edge_seg (pairs_of (vs ++ [hd pzero vs])) = j) as Hj by congruence.
  assert (from_segments j = Ok j) as Hs.
  { rewrite from_vertices_ctrlpoints in H by exact Hne. unfold from_ctrlpoints in H.
    rewrite Hj in H. exact H. }
  split; [exact Hs|]. split; [exact Hs|]. split; [exact Hv|]. split; [exact Hl|].
  split; [exact Hc|]. split.
  - intros v Hin. apply vertices_in_box. rewrite Hv. exact Hin.
  - apply jordan_pos_shoelace; assumption.
Qed.

(* ------------------------------------------------------------------ *)
Print Assumptions from_segments_outcome.
Print Assumptions from_segments_err_iff.
Print Assumptions from_segments_ok_iff.
Print Assumptions from_segments_exact.
Print Assumptions from_segments_closed.
Print Assumptions seg_clean_first.
Print Assumptions seg_clean_last.
Print Assumptions from_vertices_ctrlpoints.
Print Assumptions from_vertices_ok.
Print Assumptions from_vertices_spec.
Print Assumptions constructors_agree.
Print Assumptions jordan_box_encloses.
Print Assumptions vertices_in_box.
Print Assumptions invert_lines.
Print Assumptions invert_involutive.
Print Assumptions jordan_area_invert.
Print Assumptions jordan_pos_invert.
Print Assumptions jordan_pos_shoelace.
Print Assumptions invert_closed.
Print Assumptions sort_by_perm.
Print Assumptions op_not_connected.
Print Assumptions op_not_perm.
Print Assumptions op_not_kind.
Print Assumptions op_sub_empty_r.
Print Assumptions contains_whole_r.
Print Assumptions shape_from_jordans_spec.
Print Assumptions shape_from_jordans_kind.
Print Assumptions shape_from_jordans_perm.
Print Assumptions copy_shape_spec.
Print Assumptions follow_path_good.
Print Assumptions split_closed.
Print Assumptions op_not_good.
Print Assumptions op_or_good.
Print Assumptions op_and_good.
Print Assumptions op_sub_good.
Print Assumptions op_xor_good.
