(* Convex.v -- every strictly convex counter-clockwise polygon is "simple" in the
   sense of UnionSound.simple01: off the boundary its winding number is 0 or 1.

   poly_of vs        the closed chain [[v0;v1];[v1;v2];...;[vn;v0]] (what
                     JordanCurve.from_vertices builds: poly_of_from_vertices)
   convex_ccw_b vs   decidable: at least 3 vertices and 0 < orient vi vj vk for
                     every i < j < k (list order).
   convex_edges_b vs decidable, the textbook form: at least 3 vertices and for
                     every edge a->b of the closed vertex cycle every OTHER
                     vertex w has 0 < orient a b w.
   convex_edges_iff  the two are equivalent.  So both accept exactly the vertex
                     lists of strictly convex polygons listed counter-clockwise
                     (any start vertex: convex_rot): no repeated vertex, no
                     three collinear vertices.  Convex polygons with a vertex
                     in the interior of a side (three collinear consecutive
                     vertices) are NOT accepted; drop such vertices first.
                     Locally convex but self-crossing cycles (pentagram,
                     ex_star_rejected, winding number 2) are rejected.
   edge_left         every vertex is on the left of or on every edge
   convex_outside    some edge has q strictly on its right  ->  wn = 0
   convex_inside     q strictly on the left of every edge   ->  wn = 1
   convex_on_edge / convex_boundary
                     q on the left of or on every edge and on the line of one
                     edge -> q is on that edge (on_boundary = true)
   convex_simple01   simple01 (poly_of vs)
   triangle_simple01 every non-degenerate ccw triangle is simple01
   convex_union_checked / convex_inter_checked / convex_diff_checked
                     the one-step soundness theorems of | & - for convex
                     operands: every remaining hypothesis is a boolean
   ex_tri_*          instance on two overlapping triangles

   Method: ear induction.  wn (a::b::c::r) = wn (a::c::r) + wn (triangle a b c)
   for EVERY q (the two traversals of the diagonal cancel: cr_antisym); the
   triangle is Winding.triangle_inside / triangle_outside; the signs of the
   orients of q against the smaller polygon and the ear come from the
   barycentric identity [bary]; a point of the interior lying on the diagonal
   is first moved half way to the ear tip b (Constancy.wn_lines_move). *)
From Coq Require Import QArith Lqa Lia ZArith List Bool.
From SV Require Import Model.Shape Spec.Spec.
From SV Require Import Lemmas.Winding Lemmas.Constancy Lemmas.Construct Lemmas.Measure
                       Lemmas.UnionSound Lemmas.DiffSound.
Import ListNotations.
Open Scope Q_scope.

(* ================================================================== *)
(* 0. polygons from vertex lists                                       *)
(* ================================================================== *)
Definition edges_of (vs : list point) : list (point * point) :=
  pairs_of (vs ++ [hd pzero vs]).
Definition poly_of (vs : list point) : jordan :=
  map (fun ab : point * point => [fst ab; snd ab]) (edges_of vs).

(* this is the curve the model builds from a vertex list *)
Lemma poly_of_from_vertices : forall vs, vs <> [] -> from_vertices vs = Ok (poly_of vs).
Proof. intros vs H. exact (from_vertices_ok vs H). Qed.

Lemma poly_of_spec : forall vs, vs <> [] ->
  vertices (poly_of vs) = vs /\ length (poly_of vs) = length vs /\
  all_lines (poly_of vs) = true /\ closed_chain (poly_of vs) = true.
Proof. intros vs H. apply from_vertices_spec; [exact H|]. apply poly_of_from_vertices, H. Qed.

Lemma poly_of_triangle : forall a b c, poly_of [a; b; c] = triangle a b c.
Proof. reflexivity. Qed.

Definition wn_p (l : list (point * point)) (q : point) : Z :=
  Zsum (map (fun e => cr (fst e) (snd e) q) l).

Lemma wn_poly_of : forall vs q, wn_lines (poly_of vs) q = wn_p (edges_of vs) q.
Proof. intros vs q. unfold wn_lines, poly_of, wn_p. rewrite map_map. reflexivity. Qed.

Lemma wn_p_cons : forall a b l q, wn_p ((a, b) :: l) q = (cr a b q + wn_p l q)%Z.
Proof. reflexivity. Qed.

Lemma on_boundary_poly_of : forall vs q,
  on_boundary (poly_of vs) q = existsb (fun e => on_edge (fst e) (snd e) q) (edges_of vs).
Proof.
  intros vs q. unfold on_boundary, poly_of. induction (edges_of vs) as [|e l IH]; [reflexivity|].
  cbn [map existsb]. rewrite IH. reflexivity.
Qed.

Lemma pairs_of_cons2 : forall {A} (a b : A) l, pairs_of (a :: b :: l) = (a, b) :: pairs_of (b :: l).
Proof. reflexivity. Qed.

Lemma pairs_of_snoc : forall {A} (l : list A) x y,
  pairs_of (l ++ [x; y]) = pairs_of (l ++ [x]) ++ [(x, y)].
Proof.
  intros A l x y. induction l as [|a l IH]; [reflexivity|].
  destruct l as [|b l]; [reflexivity|].
  change ((a :: b :: l) ++ [x; y]) with (a :: b :: (l ++ [x; y])).
  change ((a :: b :: l) ++ [x]) with (a :: b :: (l ++ [x])).
  rewrite !pairs_of_cons2.
  change (b :: l ++ [x; y]) with ((b :: l) ++ [x; y]).
  change (b :: l ++ [x]) with ((b :: l) ++ [x]).
  rewrite IH. reflexivity.
Qed.

(* the edges of the list started one vertex later: same edges, rotated *)
Lemma edges_of_rot : forall a b l,
  edges_of (b :: l ++ [a]) = pairs_of (b :: l ++ [a]) ++ [(a, b)].
Proof.
  intros a b l. unfold edges_of. cbn [hd].
  change ((b :: l ++ [a]) ++ [b]) with (b :: (l ++ [a]) ++ [b]).
  rewrite <- app_assoc. cbn [app].
  change (b :: l ++ [a; b]) with ((b :: l) ++ [a; b]).
  rewrite pairs_of_snoc. reflexivity.
Qed.

Lemma edges_of_cons : forall a b l,
  edges_of (a :: b :: l) = (a, b) :: pairs_of (b :: l ++ [a]).
Proof. reflexivity. Qed.

Lemma In_edges_rot : forall a b l e,
  In e (edges_of (b :: l ++ [a])) <-> In e (edges_of (a :: b :: l)).
Proof.
  intros a b l e. rewrite edges_of_rot, edges_of_cons, in_app_iff. cbn [In]. tauto.
Qed.

Lemma last_edge : forall (l : list point) d x, l <> [] -> In (last l d, x) (pairs_of (l ++ [x])).
Proof.
  induction l as [|a l IH]; intros d x H; [congruence|].
  destruct l as [|b l].
  - left. reflexivity.
  - change ((a :: b :: l) ++ [x]) with (a :: b :: (l ++ [x])). rewrite pairs_of_cons2.
    right. change (last (a :: b :: l) d) with (last (b :: l) d).
    apply (IH d x). discriminate.
Qed.

(* ================================================================== *)
(* 1. the convexity predicate                                          *)
(* ================================================================== *)
Fixpoint TP1 (a : point) (l : list point) : Prop :=
  match l with
  | [] => True
  | b :: t => (forall c, In c t -> 0 < orient a b c) /\ TP1 a t
  end.
Fixpoint TP (l : list point) : Prop :=
  match l with
  | [] => True
  | a :: t => TP1 a t /\ TP t
  end.

Fixpoint tp1_b (a : point) (l : list point) : bool :=
  match l with
  | [] => true
  | b :: t => forallb (fun c => Qlt_bool 0 (orient a b c)) t && tp1_b a t
  end.
Fixpoint tp_b (l : list point) : bool :=
  match l with
  | [] => true
  | a :: t => tp1_b a t && tp_b t
  end.

(* at least three vertices, and every ordered triple of vertices is a
   counter-clockwise triangle *)
Definition convex_ccw_b (vs : list point) : bool := (3 <=? length vs)%nat && tp_b vs.
Definition convex_ccw (vs : list point) : Prop := (3 <= length vs)%nat /\ TP vs.

Lemma Qlt_bool_iff : forall a b, Qlt_bool a b = true <-> a < b.
Proof.
  intros a b. unfold Qlt_bool. rewrite negb_true_iff. split.
  - apply Qle_bool_false.
  - apply Qle_bool_false'.
Qed.

Lemma tp1_b_ok : forall a l, tp1_b a l = true <-> TP1 a l.
Proof.
  intros a l. induction l as [|b t IH]; cbn [tp1_b TP1]; [tauto|].
  rewrite andb_true_iff, forallb_forall, IH.
  split; intros [H1 H2]; (split; [|exact H2]); intros c Hc; apply Qlt_bool_iff, H1, Hc.
Qed.

Lemma tp_b_ok : forall l, tp_b l = true <-> TP l.
Proof.
  induction l as [|a t IH]; cbn [tp_b TP]; [tauto|].
  rewrite andb_true_iff, tp1_b_ok, IH. tauto.
Qed.

Lemma convex_ccw_b_ok : forall vs, convex_ccw_b vs = true <-> convex_ccw vs.
Proof.
  intros vs. unfold convex_ccw_b, convex_ccw. rewrite andb_true_iff, tp_b_ok, Nat.leb_le. tauto.
Qed.

(* the meaning of TP: every ordered triple *)
Lemma TP1_app : forall a l m,
  TP1 a (l ++ m) <-> TP1 a l /\ TP1 a m /\ forall b c, In b l -> In c m -> 0 < orient a b c.
Proof.
  intros a l m. induction l as [|x l IH]; cbn [app TP1].
  - split; [intro H; repeat split; [exact H | intros b c []] | tauto].
  - rewrite IH. split.
    + intros (H1 & H2 & H3 & H4). repeat split; try assumption.
      * intros c Hc. apply H1, in_or_app. left; exact Hc.
      * intros b c [<-|Hb] Hc; [apply H1, in_or_app; right; exact Hc | apply H4; assumption].
    + intros ((H1 & H2) & H3 & H4). repeat split; try assumption.
      * intros c Hc. apply in_app_or in Hc. destruct Hc as [Hc|Hc]; [apply H1, Hc|].
        apply H4; [left; reflexivity | exact Hc].
      * intros b c Hb Hc. apply H4; [right; exact Hb | exact Hc].
Qed.

Lemma TP_triple : forall l1 a l2 b l3 c l4,
  TP (l1 ++ a :: l2 ++ b :: l3 ++ c :: l4) -> 0 < orient a b c.
Proof.
  induction l1 as [|x l1 IH]; intros a l2 b l3 c l4 H.
  - cbn [app TP] in H. destruct H as [H _].
    apply TP1_app in H. destruct H as (_ & H & _). cbn [TP1] in H. destruct H as [H _].
    apply H, in_or_app. right; left; reflexivity.
  - cbn [app TP] in H. destruct H as [_ H]. exact (IH _ _ _ _ _ _ H).
Qed.

(* removing the second vertex *)
Lemma TP_drop2 : forall a b l, TP (a :: b :: l) -> TP (a :: l).
Proof. intros a b l H. cbn [TP TP1] in *. tauto. Qed.

Lemma orient_cyc : forall a b c, orient a b c == orient b c a.
Proof. intros. rewrite !orient_expand. ring. Qed.

(* starting the list one vertex later *)
Lemma TP_rot : forall a l, TP (a :: l) -> TP (l ++ [a]).
Proof.
  intros a l. induction l as [|x t IH]; intro H; [cbn; tauto|].
  change ((x :: t) ++ [a]) with (x :: (t ++ [a])). cbn [TP]. split.
  - apply TP1_app. cbn [TP TP1] in H. destruct H as ((H1 & H2) & H3 & H4).
    repeat split; [exact H3 | intros c [] |].
    intros b c Hb [<-|[]]. rewrite orient_cycle. apply H1, Hb.
  - apply IH. exact (TP_drop2 a x t H).
Qed.

Lemma convex_rot : forall a l, convex_ccw (a :: l) -> convex_ccw (l ++ [a]).
Proof.
  intros a l [H1 H2]. split; [|apply TP_rot, H2].
  rewrite app_length. cbn [length] in *. lia.
Qed.

(* ================================================================== *)
(* 2. edge-wise consequences                                           *)
(* ================================================================== *)
(* a statement about an edge of a convex polygon that does not depend on the
   start vertex only has to be proved for the first edge *)
Lemma edge_wlog : forall (Phi : list point -> point * point -> Prop),
  (forall a b l e, Phi (b :: l ++ [a]) e -> Phi (a :: b :: l) e) ->
  (forall a b l, convex_ccw (a :: b :: l) -> Phi (a :: b :: l) (a, b)) ->
  forall vs e, convex_ccw vs -> In e (edges_of vs) -> Phi vs e.
Proof.
  intros Phi Hrot Hfirst vs e HC HIn.
  apply In_nth_error in HIn. destruct HIn as [k Hk].
  revert vs HC Hk. induction k as [|k IH]; intros vs HC Hk.
  - destruct vs as [|a [|b l]]; try (destruct HC as [HC _]; cbn in HC; lia).
    rewrite edges_of_cons in Hk. cbn [nth_error] in Hk. inversion Hk; subst e.
    apply Hfirst, HC.
  - destruct vs as [|a [|b l]]; try (destruct HC as [HC _]; cbn in HC; lia).
    rewrite edges_of_cons in Hk. cbn [nth_error] in Hk.
    apply Hrot. apply IH.
    + exact (convex_rot a (b :: l) HC).
    + rewrite edges_of_rot. rewrite nth_error_app1; [exact Hk|].
      apply nth_error_Some. congruence.
Qed.

(* every vertex is on the left of, or on, every edge *)
Theorem edge_left : forall vs e w, convex_ccw vs -> In e (edges_of vs) -> In w vs ->
  0 <= orient (fst e) (snd e) w.
Proof.
  intros vs e w HC He. revert w.
  apply (edge_wlog (fun vs e => forall w, In w vs -> 0 <= orient (fst e) (snd e) w)); try assumption.
  - intros a b l e' H w Hw. apply H.
    change (b :: l ++ [a]) with ((b :: l) ++ [a]). apply in_or_app.
    destruct Hw as [<-|Hw]; [right; left; reflexivity | left; exact Hw].
  - intros a b l [_ HT] w Hw. cbn [fst snd]. cbn [TP TP1] in HT.
    destruct HT as ((H1 & _) & _).
    destruct Hw as [<-|[<-|Hw]].
    + assert (E : orient a b a == 0) by (rewrite orient_expand; ring). rewrite E. lra.
    + assert (E : orient a b b == 0) by (rewrite orient_expand; ring). rewrite E. lra.
    + apply Qlt_le_weak, H1, Hw.
Qed.

(* q on the line u-v, between the lines of two edges t-u and v-w that leave
   v resp. u strictly on their left: q is on the segment u-v *)
Lemma on_line_between : forall t u v w q,
  0 < orient t u v -> 0 < orient u v w ->
  0 <= orient t u q -> 0 <= orient v w q -> orient u v q == 0 ->
  on_edge u v q = true.
Proof.
  intros t u v w q HO HO' Ho Ho' Hz.
  assert (I1x : orient t u v * (px q - px u)
                == orient t u q * (px v - px u) - orient u v q * (px u - px t))
    by (rewrite !orient_expand; ring).
  assert (I1y : orient t u v * (py q - py u)
                == orient t u q * (py v - py u) - orient u v q * (py u - py t))
    by (rewrite !orient_expand; ring).
  assert (I2x : orient u v w * (px q - px v)
                == orient v w q * (px u - px v) + orient u v q * (px w - px v))
    by (rewrite !orient_expand; ring).
  assert (I2y : orient u v w * (py q - py v)
                == orient v w q * (py u - py v) + orient u v q * (py w - py v))
    by (rewrite !orient_expand; ring).
  unfold on_edge. rewrite !andb_true_iff, !between_iff, Qeq_bool_iff.
  revert HO HO' Ho Ho' Hz I1x I1y I2x I2y.
  generalize (orient t u v) (orient u v w) (orient t u q) (orient v w q) (orient u v q).
  intros O O' o o' z HO HO' Ho Ho' Hz I1x I1y I2x I2y.
  split; [split; [exact Hz|]|].
  - destruct (Qlt_le_dec (px u) (px v)); [left | right]; split; nra.
  - destruct (Qlt_le_dec (py u) (py v)); [left | right]; split; nra.
Qed.

(* a point of the closed polygon that lies on the line of an edge lies on the edge *)
Theorem convex_on_edge : forall vs e q, convex_ccw vs -> In e (edges_of vs) ->
  (forall e', In e' (edges_of vs) -> 0 <= orient (fst e') (snd e') q) ->
  orient (fst e) (snd e) q == 0 ->
  on_edge (fst e) (snd e) q = true.
Proof.
  intros vs e q HC He. 
  apply (edge_wlog (fun vs e =>
    (forall e', In e' (edges_of vs) -> 0 <= orient (fst e') (snd e') q) ->
    orient (fst e) (snd e) q == 0 -> on_edge (fst e) (snd e) q = true)); try assumption.
  - intros a b l e' H Hall Hz. apply H; [|exact Hz].
    intros e'' He''. apply Hall. apply In_edges_rot. exact He''.
  - intros a b l [HL HT] Hall Hz. cbn [fst snd] in *.
    destruct l as [|c r]; [cbn in HL; lia|].
    set (z := last (c :: r) pzero).
    assert (Hzin : In z (c :: r)).
    { unfold z. destruct (exists_last (l := c :: r)) as (l' & x & E); [discriminate|].
      rewrite E, last_last. apply in_or_app. right; left; reflexivity. }
    assert (Eza : In (z, a) (edges_of (a :: b :: c :: r))).
    { right. right. apply (last_edge (c :: r) pzero a). discriminate. }
    assert (Ebc : In (b, c) (edges_of (a :: b :: c :: r))) by (right; left; reflexivity).
    cbn [TP TP1] in HT. destruct HT as ((H1 & _) & (H2 & _) & _).
    apply (on_line_between z a b c q).
    + assert (E : orient z a b == orient a b z) by (rewrite !orient_expand; ring).
      rewrite E. apply H1. exact Hzin.
    + apply H1. left; reflexivity.
    + exact (Hall (z, a) Eza).
    + exact (Hall (b, c) Ebc).
    + exact Hz.
Qed.

(* ================================================================== *)
(* 3. cutting an ear                                                   *)
(* ================================================================== *)
(* orient A B . is affine: its value at q is the barycentric combination of
   its values at the corners of any triangle *)
Lemma bary : forall A B a b c q,
  orient A B q * orient a b c
  == orient b c q * orient A B a + orient c a q * orient A B b + orient a b q * orient A B c.
Proof. intros. rewrite !orient_expand. ring. Qed.

Lemma orient_lerp : forall u v p q t,
  orient u v (lerp_pt p q t) == (1 - t) * orient u v p + t * orient u v q.
Proof. intros. unfold lerp_pt. rewrite !orient_expand. unfold px, py; cbn [fst snd]. ring. Qed.

Lemma orient_aba : forall a b, orient a b a == 0.
Proof. intros. rewrite orient_expand. ring. Qed.
Lemma orient_abb : forall a b, orient a b b == 0.
Proof. intros. rewrite orient_expand. ring. Qed.

(* exact, for every q: the two traversals of the diagonal a-c cancel *)
Lemma wn_ear : forall a b c r q,
  wn_p (edges_of (a :: b :: c :: r)) q
  = (wn_p (edges_of (a :: c :: r)) q + wn_lines (triangle a b c) q)%Z.
Proof.
  intros a b c r q.
  change (edges_of (a :: b :: c :: r)) with ((a, b) :: (b, c) :: pairs_of (c :: r ++ [a])).
  change (edges_of (a :: c :: r)) with ((a, c) :: pairs_of (c :: r ++ [a])).
  rewrite !wn_p_cons, wn_triangle, (cr_antisym a c q). lia.
Qed.

Lemma convex_drop2 : forall a b c d r,
  convex_ccw (a :: b :: c :: d :: r) -> convex_ccw (a :: c :: d :: r).
Proof.
  intros a b c d r [HL HT]. split; [cbn [length] in *; lia|].
  exact (TP_drop2 a b (c :: d :: r) HT).
Qed.

Lemma last_In : forall (l : list point) d, l <> [] -> In (last l d) l.
Proof.
  intros l d H. destruct (exists_last H) as (l' & x & E).
  rewrite E, last_last. apply in_or_app. right; left; reflexivity.
Qed.

(* ================================================================== *)
(* 4. outside                                                          *)
(* ================================================================== *)
Lemma convex_outside_P : forall r a b c q, convex_ccw (a :: b :: c :: r) ->
  (exists e, In e (edges_of (a :: b :: c :: r)) /\ orient (fst e) (snd e) q < 0) ->
  wn_p (edges_of (a :: b :: c :: r)) q = 0%Z.
Proof.
  induction r as [|d r IH]; intros a b c q HC (e & He & Hneg).
  - (* the triangle *)
    rewrite <- wn_poly_of, poly_of_triangle.
    destruct HC as [_ HT]. cbn [TP TP1] in HT. destruct HT as ((H1 & _) & _).
    apply triangle_outside; [apply H1; left; reflexivity|].
    change (edges_of [a; b; c]) with [(a, b); (b, c); (c, a)] in He.
    destruct He as [<-|[<-|[<-|[]]]]; cbn [fst snd] in Hneg; tauto.
  - pose proof (convex_drop2 a b c d r HC) as HC'.
    rewrite wn_ear.
    pose proof HC as [_ HT]. cbn [TP TP1] in HT.
    destruct HT as ((Hab & Hac & _) & (Hbc & _) & _).
    assert (Oabc : 0 < orient a b c) by (apply Hab; left; reflexivity).
    change (edges_of (a :: b :: c :: d :: r))
      with ((a, b) :: (b, c) :: pairs_of (c :: d :: r ++ [a])) in He.
    assert (EP' : edges_of (a :: c :: d :: r) = (a, c) :: (c, d) :: pairs_of ((d :: r) ++ [a]))
      by reflexivity.
    destruct He as [<-|[<-|He]]; cbn [fst snd] in Hneg.
    + (* right of a-b *)
      rewrite (triangle_outside a b c q Oabc) by (left; exact Hneg).
      rewrite Z.add_0_r.
      set (z := last (d :: r) pzero).
      assert (Hz : In z (d :: r)) by (apply last_In; discriminate).
      assert (Oacz : 0 < orient a c z) by (apply Hac, Hz).
      assert (Oabz : 0 < orient a b z) by (apply Hab; right; exact Hz).
      pose proof (bary a b a c z q) as B. rewrite (orient_aba a b) in B.
      destruct (Qlt_le_dec (orient a c q) 0) as [L1|G1].
      { apply (IH a c d q HC'). exists (a, c). split; [left; reflexivity | exact L1]. }
      destruct (Qlt_le_dec (orient z a q) 0) as [L2|G2].
      { apply (IH a c d q HC'). exists (z, a). split; [|exact L2].
        rewrite EP'. right. right. apply last_edge. discriminate. }
      exfalso. nra.
    + (* right of b-c *)
      rewrite (triangle_outside a b c q Oabc) by (right; left; exact Hneg).
      rewrite Z.add_0_r.
      assert (Oacd : 0 < orient a c d) by (apply Hac; left; reflexivity).
      assert (Obcd : 0 < orient b c d) by (apply Hbc; left; reflexivity).
      assert (Obca : orient b c a == orient a b c) by (rewrite !orient_expand; ring).
      pose proof (bary b c a c d q) as B. rewrite (orient_abb b c), Obca in B.
      destruct (Qlt_le_dec (orient a c q) 0) as [L1|G1].
      { apply (IH a c d q HC'). exists (a, c). split; [left; reflexivity | exact L1]. }
      destruct (Qlt_le_dec (orient c d q) 0) as [L2|G2].
      { apply (IH a c d q HC'). exists (c, d). split; [|exact L2].
        rewrite EP'. right. left. reflexivity. }
      exfalso. nra.
    + (* right of an edge of the smaller polygon *)
      rewrite (IH a c d q HC').
      2:{ exists e. split; [|exact Hneg]. rewrite EP'. right. exact He. }
      rewrite Z.add_0_l.
      assert (HeP : In e (edges_of (a :: b :: c :: d :: r))) by (right; right; exact He).
      pose proof (edge_left _ e a HC HeP ltac:(left; reflexivity)) as La.
      pose proof (edge_left _ e b HC HeP ltac:(right; left; reflexivity)) as Lb.
      pose proof (edge_left _ e c HC HeP ltac:(right; right; left; reflexivity)) as Lc.
      pose proof (bary (fst e) (snd e) a b c q) as B.
      apply (triangle_outside a b c q Oabc).
      destruct (Qlt_le_dec (orient a b q) 0) as [L1|G1]; [left; exact L1|].
      destruct (Qlt_le_dec (orient b c q) 0) as [L2|G2]; [right; left; exact L2|].
      destruct (Qlt_le_dec (orient c a q) 0) as [L3|G3]; [right; right; exact L3|].
      exfalso. nra.
Qed.

(* ================================================================== *)
(* 5. inside                                                           *)
(* ================================================================== *)
Lemma strictly_inside_off : forall vs q,
  (forall e, In e (edges_of vs) -> 0 < orient (fst e) (snd e) q) ->
  on_boundary (poly_of vs) q = false.
Proof.
  intros vs q H. rewrite on_boundary_poly_of.
  destruct (existsb _ _) eqn:E; [|reflexivity]. exfalso.
  apply existsb_exists in E. destruct E as (e & He & E).
  unfold on_edge in E. rewrite !andb_true_iff, Qeq_bool_iff in E.
  destruct E as [[E _] _]. specialize (H e He). lra.
Qed.

Lemma convex_inside_P : forall r a b c q, convex_ccw (a :: b :: c :: r) ->
  (forall e, In e (edges_of (a :: b :: c :: r)) -> 0 < orient (fst e) (snd e) q) ->
  wn_p (edges_of (a :: b :: c :: r)) q = 1%Z.
Proof.
  induction r as [|d r IH]; intros a b c q HC Hpos.
  - rewrite <- wn_poly_of, poly_of_triangle.
    change (edges_of [a; b; c]) with [(a, b); (b, c); (c, a)] in Hpos.
    apply triangle_inside.
    + apply (Hpos (a, b)). left; reflexivity.
    + apply (Hpos (b, c)). right; left; reflexivity.
    + apply (Hpos (c, a)). right; right; left; reflexivity.
  - pose proof (convex_drop2 a b c d r HC) as HC'.
    pose proof HC as [_ HT]. cbn [TP TP1] in HT. destruct HT as ((Hab & _) & _).
    assert (Oabc : 0 < orient a b c) by (apply Hab; left; reflexivity).
    assert (Oca : forall x, orient c a x == - orient a c x)
      by (intro x; rewrite !orient_expand; ring).
    assert (EP : edges_of (a :: b :: c :: d :: r)
                 = (a, b) :: (b, c) :: pairs_of (c :: d :: r ++ [a])) by reflexivity.
    assert (EP' : edges_of (a :: c :: d :: r) = (a, c) :: pairs_of (c :: d :: r ++ [a]))
      by reflexivity.
    (* off the diagonal a-c *)
    assert (Off : forall x,
      (forall e, In e (edges_of (a :: b :: c :: d :: r)) -> 0 < orient (fst e) (snd e) x) ->
      ~ orient a c x == 0 -> wn_p (edges_of (a :: b :: c :: d :: r)) x = 1%Z).
    { intros x Hx Hnz. rewrite wn_ear.
      pose proof (Hx (a, b) ltac:(left; reflexivity)) as Xab.
      pose proof (Hx (b, c) ltac:(right; left; reflexivity)) as Xbc.
      cbn [fst snd] in Xab, Xbc.
      destruct (Qlt_le_dec (orient a c x) 0) as [L|G].
      - (* in the ear *)
        rewrite (convex_outside_P r a c d x HC').
        2:{ exists (a, c). split; [left; reflexivity | exact L]. }
        rewrite (triangle_inside a b c x); [reflexivity | exact Xab | exact Xbc|].
        rewrite Oca. lra.
      - (* in the smaller polygon *)
        assert (G' : 0 < orient a c x).
        { destruct (Qlt_le_dec 0 (orient a c x)) as [K|K]; [exact K|]. exfalso. apply Hnz. lra. }
        rewrite (IH a c d x HC').
        2:{ intros e He. rewrite EP' in He. destruct He as [<-|He]; [exact G'|].
            apply Hx. rewrite EP. right; right; exact He. }
        rewrite (triangle_outside a b c x Oabc); [reflexivity|].
        right; right. rewrite Oca. lra. }
    destruct (Qeq_dec (orient a c q) 0) as [Ez|Nz]; [|exact (Off q Hpos Nz)].
    (* on the diagonal: move half way to the tip of the ear *)
    set (q' := lerp_pt q b (1 # 2)).
    assert (Hb : forall e, In e (edges_of (a :: b :: c :: d :: r)) -> 0 <= orient (fst e) (snd e) b).
    { intros e He. apply (edge_left _ e b HC He). right; left; reflexivity. }
    assert (Hpos' : forall e, In e (edges_of (a :: b :: c :: d :: r)) ->
                      0 < orient (fst e) (snd e) q').
    { intros e He. unfold q'. rewrite orient_lerp.
      pose proof (Hpos e He). pose proof (Hb e He). lra. }
    assert (Hmove : wn_lines (poly_of (a :: b :: c :: d :: r)) q
                    = wn_lines (poly_of (a :: b :: c :: d :: r)) q').
    { apply wn_lines_move.
      - apply poly_of_spec. discriminate.
      - intros t T0 T1. apply strictly_inside_off. intros e He.
        rewrite orient_lerp. pose proof (Hpos e He). pose proof (Hpos' e He). nra. }
    rewrite <- wn_poly_of, Hmove, wn_poly_of. apply Off; [exact Hpos'|].
    unfold q'. rewrite orient_lerp, Ez.
    assert (E : orient a c b == - orient a b c) by (rewrite !orient_expand; ring).
    rewrite E. lra.
Qed.

(* ================================================================== *)
(* 6. the theorems                                                     *)
(* ================================================================== *)
Lemma convex_shape : forall vs, convex_ccw vs -> exists a b c r, vs = a :: b :: c :: r.
Proof.
  intros [|a [|b [|c r]]] [HL _]; cbn [length] in HL; try lia. eauto.
Qed.

(* q strictly on the right of some edge: winding number 0 *)
Theorem convex_outside : forall vs q, convex_ccw_b vs = true ->
  (exists e, In e (edges_of vs) /\ orient (fst e) (snd e) q < 0) ->
  wn_lines (poly_of vs) q = 0%Z.
Proof.
  intros vs q HC H. apply convex_ccw_b_ok in HC.
  destruct (convex_shape vs HC) as (a & b & c & r & ->).
  rewrite wn_poly_of. apply convex_outside_P; assumption.
Qed.

(* q strictly on the left of every edge: winding number 1 *)
Theorem convex_inside : forall vs q, convex_ccw_b vs = true ->
  (forall e, In e (edges_of vs) -> 0 < orient (fst e) (snd e) q) ->
  wn_lines (poly_of vs) q = 1%Z.
Proof.
  intros vs q HC H. apply convex_ccw_b_ok in HC.
  destruct (convex_shape vs HC) as (a & b & c & r & ->).
  rewrite wn_poly_of. apply convex_inside_P; assumption.
Qed.

Lemma existsb_false : forall {A} (f : A -> bool) l,
  existsb f l = false -> forall x, In x l -> f x = false.
Proof.
  intros A f l. induction l as [|y l IH]; cbn [existsb In]; [tauto|].
  intros H x [<-|Hx]; apply orb_false_iff in H; [tauto | apply IH; tauto].
Qed.

Lemma forallb_false : forall {A} (f : A -> bool) l,
  forallb f l = false -> exists x, In x l /\ f x = false.
Proof.
  intros A f l. induction l as [|y l IH]; cbn [forallb]; [discriminate|].
  intro H. apply andb_false_iff in H. destruct H as [H|H].
  - exists y. split; [left; reflexivity | exact H].
  - destruct (IH H) as (x & Hx & Fx). exists x. split; [right; exact Hx | exact Fx].
Qed.

(* the closed polygon is the intersection of the closed left half planes:
   whoever is in it and not strictly inside is on the boundary *)
Theorem convex_boundary : forall vs q, convex_ccw_b vs = true ->
  (forall e, In e (edges_of vs) -> 0 <= orient (fst e) (snd e) q) ->
  (exists e, In e (edges_of vs) /\ orient (fst e) (snd e) q == 0) ->
  on_boundary (poly_of vs) q = true.
Proof.
  intros vs q HC Hall (e & He & Ez). apply convex_ccw_b_ok in HC.
  rewrite on_boundary_poly_of. apply existsb_exists. exists e. split; [exact He|].
  exact (convex_on_edge vs e q HC He Hall Ez).
Qed.

(* off the boundary the winding number of a strictly convex counter-clockwise
   polygon is 0 or 1 *)
Theorem convex_simple01 : forall vs, convex_ccw_b vs = true -> simple01 (poly_of vs).
Proof.
  intros vs HC q Hoff.
  destruct (existsb (fun e => Qlt_bool (orient (fst e) (snd e) q) 0) (edges_of vs)) eqn:E.
  - left. apply (convex_outside vs q HC).
    apply existsb_exists in E. destruct E as (e & He & E). exists e. split; [exact He|].
    apply Qlt_bool_iff, E.
  - assert (Hall : forall e, In e (edges_of vs) -> 0 <= orient (fst e) (snd e) q).
    { intros e He. pose proof (existsb_false _ _ E e He) as K. cbv beta in K.
      unfold Qlt_bool in K. apply negb_false_iff in K. apply Qle_bool_iff in K. exact K. }
    destruct (forallb (fun e => Qlt_bool 0 (orient (fst e) (snd e) q)) (edges_of vs)) eqn:F.
    + right. apply (convex_inside vs q HC). intros e He.
      rewrite forallb_forall in F. apply Qlt_bool_iff, (F e He).
    + exfalso. destruct (forallb_false _ _ F) as (e & He & K).
      unfold Qlt_bool in K. apply negb_false_iff in K. apply Qle_bool_iff in K.
      pose proof (Hall e He) as K'.
      assert (Ez : orient (fst e) (snd e) q == 0) by lra.
      rewrite (convex_boundary vs q HC Hall) in Hoff; [discriminate|].
      exists e. split; assumption.
Qed.

Lemma convex_ccw_b_triangle : forall a b c, 0 < orient a b c -> convex_ccw_b [a; b; c] = true.
Proof.
  intros a b c H. apply convex_ccw_b_ok. split; [cbn; lia|].
  cbn [TP TP1]. split; [split; [|split; [intros x []|exact I]]|].
  - intros x [<-|[]]. exact H.
  - split; [split; [intros x []|exact I]|]. split; exact I.
Qed.

(* every non-degenerate counter-clockwise triangle *)
Theorem triangle_simple01 : forall a b c, 0 < orient a b c -> simple01 (triangle a b c).
Proof.
  intros a b c H. rewrite <- poly_of_triangle.
  apply convex_simple01, convex_ccw_b_triangle, H.
Qed.

(* ================================================================== *)
(* 7. non-vacuity                                                      *)
(* ================================================================== *)
Definition ex_pentagon : list point :=
  [(0, 0); (4, 1 # 2); (5, 3); (5 # 2, 9 # 2); (- (1 # 2), 2)].
Definition ex_tri : list point := [(0, 0); (7 # 2, 1 # 3); (1, 3)].

Example ex_pentagon_convex : convex_ccw_b ex_pentagon = true.
Proof. vm_compute. reflexivity. Qed.
Example ex_tri_convex : convex_ccw_b ex_tri = true.
Proof. vm_compute. reflexivity. Qed.
(* a non-convex quadrilateral and a clockwise triangle are rejected *)
Example ex_dart_rejected : convex_ccw_b [(0, 0); (4, 0); (1, 1); (0, 4)] = false.
Proof. vm_compute. reflexivity. Qed.
Example ex_cw_rejected : convex_ccw_b [(0, 0); (1, 3); (7 # 2, 1 # 3)] = false.
Proof. vm_compute. reflexivity. Qed.

Example ex_pentagon_simple01 : simple01 (poly_of ex_pentagon).
Proof. apply convex_simple01, ex_pentagon_convex. Qed.

Example ex_pentagon_wn :
  (wn_lines (poly_of ex_pentagon) (2, 2), wn_lines (poly_of ex_pentagon) (6, 2),
   on_boundary (poly_of ex_pentagon) (2, 1 # 4)) = (1%Z, 0%Z, true).
Proof. vm_compute. reflexivity. Qed.

(* ================================================================== *)
(* 8. the one-step soundness theorems for convex operands: every        *)
(*    hypothesis is now decidable                                       *)
(* ================================================================== *)
Theorem convex_union_checked : forall va vb a' b' new p,
  convex_ccw_b va = true -> convex_ccw_b vb = true ->
  sound_hyps_b (poly_of va) (poly_of vb) true false p = true ->
  recombine (SC (CS (poly_of va))) (SC (CS (poly_of vb))) true false = Ok (a', b', new) ->
  Zsum (map (fun j => wn_lines j p) new)
  = (if (wn_lines (poly_of va) p =? 0)%Z && (wn_lines (poly_of vb) p =? 0)%Z then 0 else 1)%Z.
Proof.
  intros va vb a' b' new p Ca Cb. apply recombine_union_checked; apply convex_simple01; assumption.
Qed.

Theorem convex_inter_checked : forall va vb a' b' new p,
  convex_ccw_b va = true -> convex_ccw_b vb = true ->
  sound_hyps_b (poly_of va) (poly_of vb) false true p = true ->
  recombine (SC (CS (poly_of va))) (SC (CS (poly_of vb))) false true = Ok (a', b', new) ->
  Zsum (map (fun j => wn_lines j p) new)
  = (if (wn_lines (poly_of va) p =? 1)%Z && (wn_lines (poly_of vb) p =? 1)%Z then 1 else 0)%Z.
Proof.
  intros va vb a' b' new p Ca Cb. apply recombine_inter_checked; apply convex_simple01; assumption.
Qed.

Theorem convex_diff_checked : forall va vb a' b' new p,
  convex_ccw_b va = true -> convex_ccw_b vb = true ->
  diff_hyps_b (poly_of va) (poly_of vb) p = true ->
  recombine (SC (CS (poly_of va))) (SC (CS (invert (poly_of vb)))) false true = Ok (a', b', new) ->
  Zsum (map (fun j => wn_lines j p) new)
  = (if (wn_lines (poly_of va) p =? 1)%Z && (wn_lines (poly_of vb) p =? 0)%Z then 1 else 0)%Z.
Proof.
  intros va vb a' b' new p Ca Cb. apply recombine_diff_checked; apply convex_simple01; assumption.
Qed.

(* two overlapping triangles *)
Definition ex_ta : list point := [(0, 0); (4, 0); (1, 3)].
Definition ex_tb : list point := [(1, 1); (5, 1 # 2); (3, 4)].
Definition t_A : point := (1 # 2, 1 # 3).   (* in A only *)
Definition t_AB : point := (2, 3 # 2).      (* in A and B *)
Definition t_B : point := (7 # 2, 2).       (* in B only *)
Definition t_out : point := (9 # 2, 3).     (* in neither *)

Example ex_ta_convex : convex_ccw_b ex_ta = true.
Proof. vm_compute. reflexivity. Qed.
Example ex_tb_convex : convex_ccw_b ex_tb = true.
Proof. vm_compute. reflexivity. Qed.

Example ex_tri_hyps : forall q, In q [t_A; t_AB; t_B; t_out] ->
  sound_hyps_b (poly_of ex_ta) (poly_of ex_tb) true false q = true /\
  sound_hyps_b (poly_of ex_ta) (poly_of ex_tb) false true q = true /\
  diff_hyps_b (poly_of ex_ta) (poly_of ex_tb) q = true.
Proof.
  intros q Hq. cbn [In] in Hq.
  repeat match goal with H : _ \/ _ |- _ => destruct H as [H|H] end; try contradiction; subst q;
    repeat split; vm_compute; reflexivity.
Qed.

(* the curves of A | B wind once around the points of A or B, not around the others *)
Example ex_tri_union_sound :
  exists a' b' new,
    recombine (SC (CS (poly_of ex_ta))) (SC (CS (poly_of ex_tb))) true false = Ok (a', b', new) /\
    Zsum (map (fun j => wn_lines j t_A) new) = 1%Z /\
    Zsum (map (fun j => wn_lines j t_AB) new) = 1%Z /\
    Zsum (map (fun j => wn_lines j t_B) new) = 1%Z /\
    Zsum (map (fun j => wn_lines j t_out) new) = 0%Z.
Proof.
  destruct (recombine (SC (CS (poly_of ex_ta))) (SC (CS (poly_of ex_tb))) true false)
    as [[[a' b'] new]| |] eqn:E; [|exfalso; vm_compute in E; discriminate E..].
  exists a', b', new. split; [reflexivity|].
  assert (T : forall q, In q [t_A; t_AB; t_B; t_out] ->
    Zsum (map (fun j => wn_lines j q) new)
    = (if (wn_lines (poly_of ex_ta) q =? 0)%Z && (wn_lines (poly_of ex_tb) q =? 0)%Z
       then 0 else 1)%Z).
  { intros q Hq. apply (convex_union_checked ex_ta ex_tb a' b' new q ex_ta_convex ex_tb_convex);
      [exact (proj1 (ex_tri_hyps q Hq)) | exact E]. }
  repeat split; (rewrite T; [vm_compute; reflexivity | cbn [In]; tauto]).
Qed.

Example ex_tri_inter_sound :
  exists a' b' new,
    recombine (SC (CS (poly_of ex_ta))) (SC (CS (poly_of ex_tb))) false true = Ok (a', b', new) /\
    Zsum (map (fun j => wn_lines j t_A) new) = 0%Z /\
    Zsum (map (fun j => wn_lines j t_AB) new) = 1%Z /\
    Zsum (map (fun j => wn_lines j t_B) new) = 0%Z /\
    Zsum (map (fun j => wn_lines j t_out) new) = 0%Z.
Proof.
  destruct (recombine (SC (CS (poly_of ex_ta))) (SC (CS (poly_of ex_tb))) false true)
    as [[[a' b'] new]| |] eqn:E; [|exfalso; vm_compute in E; discriminate E..].
  exists a', b', new. split; [reflexivity|].
  assert (T : forall q, In q [t_A; t_AB; t_B; t_out] ->
    Zsum (map (fun j => wn_lines j q) new)
    = (if (wn_lines (poly_of ex_ta) q =? 1)%Z && (wn_lines (poly_of ex_tb) q =? 1)%Z
       then 1 else 0)%Z).
  { intros q Hq. apply (convex_inter_checked ex_ta ex_tb a' b' new q ex_ta_convex ex_tb_convex);
      [exact (proj1 (proj2 (ex_tri_hyps q Hq))) | exact E]. }
  repeat split; (rewrite T; [vm_compute; reflexivity | cbn [In]; tauto]).
Qed.

Example ex_tri_diff_sound :
  exists a' b' new,
    recombine (SC (CS (poly_of ex_ta))) (SC (CS (invert (poly_of ex_tb)))) false true
    = Ok (a', b', new) /\
    Zsum (map (fun j => wn_lines j t_A) new) = 1%Z /\
    Zsum (map (fun j => wn_lines j t_AB) new) = 0%Z /\
    Zsum (map (fun j => wn_lines j t_B) new) = 0%Z /\
    Zsum (map (fun j => wn_lines j t_out) new) = 0%Z.
Proof.
  destruct (recombine (SC (CS (poly_of ex_ta))) (SC (CS (invert (poly_of ex_tb)))) false true)
    as [[[a' b'] new]| |] eqn:E; [|exfalso; vm_compute in E; discriminate E..].
  exists a', b', new. split; [reflexivity|].
  assert (T : forall q, In q [t_A; t_AB; t_B; t_out] ->
    Zsum (map (fun j => wn_lines j q) new)
    = (if (wn_lines (poly_of ex_ta) q =? 1)%Z && (wn_lines (poly_of ex_tb) q =? 0)%Z
       then 1 else 0)%Z).
  { intros q Hq. apply (convex_diff_checked ex_ta ex_tb a' b' new q ex_ta_convex ex_tb_convex);
      [exact (proj2 (proj2 (ex_tri_hyps q Hq))) | exact E]. }
  repeat split; (rewrite T; [vm_compute; reflexivity | cbn [In]; tauto]).
Qed.

(* ================================================================== *)
(* 9. which polygons are accepted: the edge-wise definition            *)
(* ================================================================== *)
(* the textbook definition of a strictly convex counter-clockwise polygon:
   for every edge a->b of the closed vertex cycle, every OTHER vertex is
   strictly on its left.  [edge1 r] says this for the first edge of the
   rotation r = a :: b :: others of the vertex list; [edge_convex] for all
   rotations.  It is equivalent to [convex_ccw] (convex_edges_iff), so
   [convex_ccw_b] accepts exactly these polygons. *)
Definition edge1 (r : list point) : Prop :=
  match r with
  | a :: b :: l => forall w, In w l -> 0 < orient a b w
  | _ => True
  end.
Definition edge_convex (vs : list point) : Prop :=
  forall l1 l2, vs = l1 ++ l2 -> l2 <> [] -> edge1 (l2 ++ l1).

Definition edge1_b (r : list point) : bool :=
  match r with
  | a :: b :: l => forallb (fun w => Qlt_bool 0 (orient a b w)) l
  | _ => true
  end.
Fixpoint rots_aux (pre suf : list point) : list (list point) :=
  match suf with
  | [] => []
  | x :: t => ((x :: t) ++ pre) :: rots_aux (pre ++ [x]) t
  end.
Definition convex_edges_b (vs : list point) : bool :=
  (3 <=? length vs)%nat && forallb edge1_b (rots_aux [] vs).

Lemma edge1_b_ok : forall r, edge1_b r = true <-> edge1 r.
Proof.
  intros [|a [|b l]]; cbn [edge1_b edge1]; try tauto.
  rewrite forallb_forall. split; intros H w Hw; apply Qlt_bool_iff, H, Hw.
Qed.

Lemma rots_aux_ok : forall suf pre,
  forallb edge1_b (rots_aux pre suf) = true <->
  forall l1 l2, suf = l1 ++ l2 -> l2 <> [] -> edge1 (l2 ++ pre ++ l1).
Proof.
  induction suf as [|x t IH]; intro pre; cbn [rots_aux forallb].
  - split; [|reflexivity]. intros _ l1 l2 E N.
    symmetry in E. apply app_eq_nil in E. destruct E as [_ E]. contradiction.
  - rewrite andb_true_iff, edge1_b_ok, IH. split.
    + intros [H1 H2] l1 l2 E N. destruct l1 as [|y l1].
      * cbn [app] in E. subst l2. rewrite app_nil_r. exact H1.
      * cbn [app] in E. inversion E; subst y t.
        specialize (H2 l1 l2 eq_refl N). rewrite <- app_assoc in H2. exact H2.
    + intro H. split.
      * specialize (H [] (x :: t) eq_refl ltac:(discriminate)). rewrite app_nil_r in H. exact H.
      * intros l1 l2 E N. specialize (H (x :: l1) l2 ltac:(rewrite E; reflexivity) N).
        rewrite <- app_assoc. exact H.
Qed.

Lemma convex_edges_b_ok : forall vs,
  convex_edges_b vs = true <-> (3 <= length vs)%nat /\ edge_convex vs.
Proof.
  intro vs. unfold convex_edges_b, edge_convex.
  rewrite andb_true_iff, Nat.leb_le, rots_aux_ok. cbn [app]. tauto.
Qed.

(* starting one vertex later *)
Lemma edge_convex_rot1 : forall a t, edge_convex (a :: t) -> edge_convex (t ++ [a]).
Proof.
  intros a t H m1 m2 E N.
  destruct (exists_last N) as (m2' & a' & ->).
  rewrite app_assoc in E. apply app_inj_tail in E. destruct E as [E <-].
  destruct m2' as [|y m2'].
  - rewrite app_nil_r in E. subst t. cbn [app].
    specialize (H [] (a :: m1) eq_refl ltac:(discriminate)). rewrite app_nil_r in H. exact H.
  - rewrite <- app_assoc. cbn [app].
    apply (H (a :: m1) (y :: m2')); [rewrite E; reflexivity | discriminate].
Qed.

Lemma edge_convex_rot : forall l1 l2, edge_convex (l1 ++ l2) -> edge_convex (l2 ++ l1).
Proof.
  induction l1 as [|a p IH]; intros l2 H.
  - rewrite app_nil_r. exact H.
  - cbn [app] in H. apply edge_convex_rot1 in H. rewrite <- app_assoc in H.
    apply IH in H. rewrite <- app_assoc in H. exact H.
Qed.

(* the fan from a: b first, every later vertex strictly on the left of a->b,
   consecutive vertices counter-clockwise as seen from a: then every ordered
   pair of them is counter-clockwise as seen from a *)
Fixpoint consec (a : point) (l : list point) : Prop :=
  match l with
  | x :: ((y :: _) as t) => 0 < orient a x y /\ consec a t
  | _ => True
  end.

Lemma fan_id : forall a b x y z,
  orient a x z * orient a b y == orient a y z * orient a b x + orient a x y * orient a b z.
Proof. intros. rewrite !orient_expand. ring. Qed.

Lemma fan_inner : forall a b x t y,
  0 <= orient a b x -> (forall w, In w (y :: t) -> 0 < orient a b w) ->
  0 < orient a x y -> consec a (y :: t) ->
  forall c, In c (y :: t) -> 0 < orient a x c.
Proof.
  intros a b x. induction t as [|y' t IH]; intros y Wx Wl Hxy Hc c Hin.
  - destruct Hin as [<-|[]]. exact Hxy.
  - destruct Hin as [<-|Hin]; [exact Hxy|].
    cbn [consec] in Hc. destruct Hc as [Hyy' Hc].
    apply (IH y'); try assumption.
    + intros w Hw. apply Wl. right; exact Hw.
    + pose proof (fan_id a b x y y') as I.
      pose proof (Wl y ltac:(left; reflexivity)) as Wy.
      pose proof (Wl y' ltac:(right; left; reflexivity)) as Wy'.
      nra.
Qed.

Lemma fan_outer : forall a b t x,
  0 <= orient a b x -> (forall w, In w t -> 0 < orient a b w) -> consec a (x :: t) ->
  TP1 a (x :: t).
Proof.
  intros a b. induction t as [|y t IH]; intros x Wx Wl Hc.
  - cbn [TP1]. split; [intros c []|exact I].
  - change (TP1 a (x :: y :: t)) with ((forall c, In c (y :: t) -> 0 < orient a x c) /\ TP1 a (y :: t)).
    cbn [consec] in Hc. destruct Hc as [Hxy Hc]. split.
    + apply (fan_inner a b x t y); assumption.
    + apply IH; [|intros w Hw; apply Wl; right; exact Hw | exact Hc].
      apply Qlt_le_weak, Wl. left; reflexivity.
Qed.

Lemma consec_splits : forall a l,
  (forall m1 y z m2, l = m1 ++ y :: z :: m2 -> 0 < orient a y z) -> consec a l.
Proof.
  intros a. induction l as [|x l IH]; intro H; [exact I|].
  destruct l as [|y l]; [exact I|].
  change (0 < orient a x y /\ consec a (y :: l)). split.
  - apply (H [] x y l). reflexivity.
  - apply IH. intros m1 y' z m2 E. apply (H (x :: m1) y' z m2). rewrite E. reflexivity.
Qed.

Lemma edge_convex_fan : forall x rest, edge_convex (x :: rest) -> TP1 x rest.
Proof.
  intros x [|b l] H; [exact I|].
  apply (fan_outer x b).
  - rewrite orient_abb. lra.
  - specialize (H [] (x :: b :: l) eq_refl ltac:(discriminate)). rewrite app_nil_r in H.
    exact H.
  - apply consec_splits. intros m1 y z m2 E.
    specialize (H (x :: m1) (y :: z :: m2) ltac:(rewrite E; reflexivity) ltac:(discriminate)).
    cbn [app edge1] in H.
    assert (C : orient x y z == orient y z x) by (rewrite !orient_expand; ring).
    rewrite C. apply H. apply in_or_app. right; left; reflexivity.
Qed.

Lemma edge_convex_TP : forall suf pre, edge_convex (suf ++ pre) -> TP suf.
Proof.
  induction suf as [|x t IH]; intros pre H; [exact I|].
  cbn [TP]. split.
  - cbn [app] in H. apply edge_convex_fan in H. apply TP1_app in H. tauto.
  - apply (IH (pre ++ [x])). rewrite app_assoc. apply edge_convex_rot1. exact H.
Qed.

Lemma TP_rots : forall l1 l2, TP (l1 ++ l2) -> TP (l2 ++ l1).
Proof.
  induction l1 as [|a p IH]; intros l2 H.
  - rewrite app_nil_r. exact H.
  - cbn [app] in H. apply TP_rot in H. rewrite <- app_assoc in H.
    apply IH in H. rewrite <- app_assoc in H. exact H.
Qed.

Theorem convex_edges_iff : forall vs, convex_edges_b vs = true <-> convex_ccw_b vs = true.
Proof.
  intro vs. rewrite convex_edges_b_ok, convex_ccw_b_ok. unfold convex_ccw.
  split; intros [HL H]; (split; [exact HL|]).
  - apply (edge_convex_TP vs []). rewrite app_nil_r. exact H.
  - intros l1 l2 E N. subst vs. apply TP_rots in H.
    destruct (l2 ++ l1) as [|a [|b l]]; try exact I.
    cbn [TP TP1] in H. cbn [edge1]. tauto.
Qed.

(* the theorem for the edge-wise definition *)
Corollary convex_edges_simple01 : forall vs, convex_edges_b vs = true -> simple01 (poly_of vs).
Proof. intros vs H. apply convex_simple01, convex_edges_iff, H. Qed.

Example ex_pentagon_edges : convex_edges_b ex_pentagon = true.
Proof. vm_compute. reflexivity. Qed.
(* a pentagram: locally convex (every consecutive triple turns left), not a
   convex polygon; its winding number reaches 2 *)
Definition ex_star : list point := [(0, 3); (- 2, - 3); (3, 1); (- 3, 1); (2, - 3)].
Example ex_star_rejected :
  (convex_ccw_b ex_star, convex_edges_b ex_star, wn_lines (poly_of ex_star) (0, 0),
   on_boundary (poly_of ex_star) (0, 0)) = (false, false, 2%Z, false).
Proof. vm_compute. reflexivity. Qed.

Print Assumptions poly_of_from_vertices.
Print Assumptions edge_left.
Print Assumptions convex_on_edge.
Print Assumptions convex_outside.
Print Assumptions convex_inside.
Print Assumptions convex_boundary.
Print Assumptions triangle_simple01.
Print Assumptions convex_union_checked.
Print Assumptions convex_inter_checked.
Print Assumptions convex_diff_checked.
Print Assumptions ex_tri_union_sound.
Print Assumptions ex_tri_inter_sound.
Print Assumptions ex_tri_diff_sound.
Print Assumptions convex_edges_iff.
Print Assumptions convex_simple01.
