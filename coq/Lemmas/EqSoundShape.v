(* EqSoundShape.v -- soundness of == lifted from curves (EqSound.v) to shapes of every kind:
   on polygonal closed curves and exact data (the 1e-9 tolerance cannot identify two different
   control points of a curve of a with a curve of b), [shape_eq a b = Ok true] implies that a
   and b denote the same region at every point (In / Out / Bdry / Undef).
   S1  exactness is symmetric; simple_eq
   S2  the search loops (find_simple, the local find of disjoint_match) as one generic loop
   S3  folds of a commutative associative operation and remove_nth
   S4  match_simples, comp_eq
   S5  disjoint_match, shape_eq
   S6  the hypotheses hold on concrete data (ring, ring + square)
   No side condition on RUndef is needed: reg_and / reg_or are the minimum of a total order
   (Undef < Out < Bdry < In, resp. Undef < In < Bdry < Out), hence commutative and associative
   on all four values (Logic.reg_and_comm ...), and Logic.fold_right_perm applies as is. *)
From Coq Require Import QArith Lia List Bool Permutation.
From SV Require Import Model.Shape Spec.Spec.
From SV Require Lemmas.BezierFacts Lemmas.Fuel Lemmas.Logic Lemmas.SplitClean Lemmas.Safe.
From SV Require Import Lemmas.EqSound.
Import ListNotations.

(* ---------- the hypotheses ---------- *)
Definition wf_curve (j : jordan) : Prop := all_lines j = true /\ closed_chain j = true.
Definition wf_curves (s : shape) : Prop := forall j, In j (jordans s) -> wf_curve j.
Definition exact_shapes (a b : shape) : Prop :=
  forall ja jb, In ja (jordans a) -> In jb (jordans b) -> exact_pts ja jb.

(* ====================================================================== *)
(* S1. exactness is symmetric; simple_eq                                   *)
(* ====================================================================== *)
Lemma exact_pts_sym a b : exact_pts a b -> exact_pts b a.
Proof.
  intros H s t p q Hs Ht Hp Hq E. apply BezierFacts.peq_sym.
  apply (H t s q p Ht Hs Hq Hp). rewrite Safe.pt_eq_sym. exact E.
Qed.

Lemma simple_eq_true a b : simple_eq a b = Ok true -> jordan_eq a b = Ok true.
Proof.
  unfold simple_eq. destruct (negb (Qeq_bool (jordan_area a) (jordan_area b))); [discriminate|].
  intro H; exact H.
Qed.

Theorem simple_eq_sound : forall a b,
  simple_eq a b = Ok true -> wf_curve a -> wf_curve b -> exact_pts a b ->
  forall p, region_simple a p = region_simple b p.
Proof.
  intros a b H [La Ca] [Lb Cb] Hex.
  exact (jordan_eq_sound_region a b La Lb Ca Cb (simple_eq_true a b H) Hex).
Qed.

(* ====================================================================== *)
(* S2. the search loop                                                     *)
(* ====================================================================== *)
Section Find.
  Context {A : Type} (e : A -> res bool).
  Fixpoint gfind (k : nat) (l : list A) : res (option nat) :=
    match l with
    | [] => Ok None
    | o :: t => do b <- e o; if b then Ok (Some k) else gfind (S k) t
    end.
  (* a hit is an index of the list whose element passes the test *)
  Lemma gfind_Some (d : A) : forall l k m, gfind k l = Ok (Some m) ->
    exists i, m = (k + i)%nat /\ (i < length l)%nat /\ e (nth i l d) = Ok true.
  Proof.
    induction l as [|o t IH]; intros k m H; cbn [gfind] in H; [discriminate|].
    destruct (e o) as [[|]| |] eqn:E; cbn [bind] in H; try discriminate.
    - inversion H; subst m. exists 0%nat. cbn [length nth].
      split; [lia|]. split; [lia | exact E].
    - destruct (IH _ _ H) as (i & -> & Hi & He). exists (S i). cbn [length nth].
      split; [lia|]. split; [lia | exact He].
  Qed.
End Find.

Lemma find_simple_gfind s : forall l k,
  find_simple s k l = gfind (fun o => simple_eq o s) k l.
Proof.
  induction l as [|o t IH]; intros k; cbn [find_simple gfind]; [reflexivity|].
  destruct (simple_eq o s) as [[|]| |]; cbn [bind]; [reflexivity | apply IH | reflexivity | reflexivity].
Qed.

Lemma dfind_gfind s0 : forall l k,
  Fuel.dfind s0 k l = gfind (fun o => comp_eq o s0) k l.
Proof.
  induction l as [|o t IH]; intros k; [reflexivity|].
  change (Fuel.dfind s0 k (o :: t))
    with (do e <- comp_eq o s0; if e then Ok (Some k) else Fuel.dfind s0 (S k) t).
  cbn [gfind].
  destruct (comp_eq o s0) as [[|]| |]; cbn [bind]; [reflexivity | apply IH | reflexivity | reflexivity].
Qed.

Lemma disjoint_match_cons f s0 st os : os <> [] ->
  disjoint_match (S f) (s0 :: st) os =
  (do r <- gfind (fun o => comp_eq o s0) 0 os;
   match r with
   | None => Ok false
   | Some k => disjoint_match f st (remove_nth k os)
   end).
Proof.
  intros Hne. rewrite Fuel.disjoint_match_S, dfind_gfind.
  destruct os; [contradiction | reflexivity].
Qed.

(* ====================================================================== *)
(* S3. folds and remove_nth                                                *)
(* ====================================================================== *)
Lemma fold_remove_nth {A} (op : reg -> reg -> reg) (g : A -> reg) (u : reg) (d : A) :
  (forall a b, op a b = op b a) ->
  (forall a b c, op a (op b c) = op (op a b) c) ->
  forall l k, (k < length l)%nat ->
    fold_right (fun x r => op (g x) r) u l =
    op (g (nth k l d)) (fold_right (fun x r => op (g x) r) u (remove_nth k l)).
Proof.
  intros Hc Ha l k Hk.
  rewrite (Logic.fold_right_perm op g u Hc Ha _ _ (SplitClean.nth_remove_perm d l k Hk)).
  reflexivity.
Qed.

(* ====================================================================== *)
(* S4. match_simples, comp_eq                                              *)
(* ====================================================================== *)
(* the matching is a bijection between two lists of the same length; pairwise equal values
   give equal folds.  Without [length ss = length os] the loop also answers true when os has
   unmatched elements left (comp_eq tests the lengths before). *)
Lemma match_simples_fold (p : point) : forall ss os,
  match_simples ss os = Ok true -> length ss = length os ->
  (forall s o, In s ss -> In o os -> simple_eq o s = Ok true ->
     region_simple o p = region_simple s p) ->
  fold_right (fun j r => reg_and (region_simple j p) r) RIn ss =
  fold_right (fun j r => reg_and (region_simple j p) r) RIn os.
Proof.
  induction ss as [|s t IH]; intros os H Hl Hr.
  - destruct os; [reflexivity | discriminate Hl].
  - cbn [match_simples] in H. rewrite find_simple_gfind in H.
    destruct (gfind (fun o => simple_eq o s) 0 os) as [[k|]| |] eqn:Ef; cbn [bind] in H;
      try discriminate.
    destruct (gfind_Some _ [] _ _ _ Ef) as (i & -> & Hi & He). cbn [Nat.add] in H.
    rewrite (fold_remove_nth reg_and (fun j => region_simple j p) RIn []
               Logic.reg_and_comm Logic.reg_and_assoc os i Hi).
    cbn [fold_right]. f_equal.
    + symmetry. apply Hr; [left; reflexivity | apply nth_In; exact Hi | exact He].
    + apply IH.
      * exact H.
      * pose proof (Fuel.remove_nth_length os i Hi) as E. cbn [length] in Hl. lia.
      * intros s' o' Hs' Ho'. apply Hr; [right; exact Hs' |].
        eapply SplitClean.remove_nth_In; exact Ho'.
Qed.

Theorem comp_eq_sound : forall ca cb,
  comp_eq ca cb = Ok true ->
  (forall j, In j (comp_jordans ca) -> wf_curve j) ->
  (forall j, In j (comp_jordans cb) -> wf_curve j) ->
  (forall ja jb, In ja (comp_jordans ca) -> In jb (comp_jordans cb) -> exact_pts ja jb) ->
  forall p, region_comp ca p = region_comp cb p.
Proof.
  intros [ja|ja] [jb|jb] H Wa Wb Hex p; unfold comp_eq in H; try discriminate H.
  - cbn [region_comp]. cbn [comp_jordans] in Wa, Wb, Hex.
    apply simple_eq_sound;
      [exact H | apply Wa; left; reflexivity | apply Wb; left; reflexivity |
       apply Hex; left; reflexivity].
  - destruct (negb (Qle_bool (Qabs' (comp_area (CC ja) - comp_area (CC jb))) tol6));
      [discriminate H|].
    destruct (Nat.eqb (length ja) (length jb)) eqn:El; cbn [negb] in H; [|discriminate H].
    apply Nat.eqb_eq in El. cbn [region_comp]. cbn [comp_jordans] in Wa, Wb, Hex.
    apply match_simples_fold; [exact H | exact El |].
    intros s o Hs Ho E.
    apply simple_eq_sound; [exact E | apply Wb; exact Ho | apply Wa; exact Hs |].
    apply exact_pts_sym. apply Hex; assumption.
Qed.

(* ====================================================================== *)
(* S5. disjoint_match, shape_eq                                            *)
(* ====================================================================== *)
Lemma disjoint_match_fold (p : point) : forall f ss os,
  disjoint_match f ss os = Ok true ->
  (forall s o, In s ss -> In o os -> comp_eq o s = Ok true ->
     region_comp o p = region_comp s p) ->
  fold_right (fun c r => reg_or (region_comp c p) r) ROut ss =
  fold_right (fun c r => reg_or (region_comp c p) r) ROut os.
Proof.
  induction f as [|f IH]; intros ss os H Hr; [discriminate H|].
  destruct ss as [|s0 st].
  - destruct os; [reflexivity | discriminate H].
  - destruct os as [|o0 ot]; [discriminate H|].
    rewrite disjoint_match_cons in H by discriminate.
    set (os := o0 :: ot) in *. clearbody os.
    destruct (gfind (fun o => comp_eq o s0) 0 os) as [[k|]| |] eqn:Ef; cbn [bind] in H;
      try discriminate.
    destruct (gfind_Some _ (CC []) _ _ _ Ef) as (i & -> & Hi & He). cbn [Nat.add] in H.
    rewrite (fold_remove_nth reg_or (fun c => region_comp c p) ROut (CC [])
               Logic.reg_or_comm Logic.reg_or_assoc os i Hi).
    cbn [fold_right]. f_equal.
    + symmetry. apply Hr; [left; reflexivity | apply nth_In; exact Hi | exact He].
    + apply IH; [exact H|].
      intros s' o' Hs' Ho'. apply Hr; [right; exact Hs' |].
      eapply SplitClean.remove_nth_In; exact Ho'.
Qed.

Lemma in_jordans_SD cs c j : In c cs -> In j (comp_jordans c) -> In j (jordans (SD cs)).
Proof.
  intros Hc Hj. cbn [jordans]. apply in_concat. exists (comp_jordans c).
  split; [apply in_map; exact Hc | exact Hj].
Qed.

Theorem shape_eq_sound : forall a b,
  shape_eq a b = Ok true ->
  (forall j, In j (jordans a) -> all_lines j = true /\ closed_chain j = true) ->
  (forall j, In j (jordans b) -> all_lines j = true /\ closed_chain j = true) ->
  (forall ja jb, In ja (jordans a) -> In jb (jordans b) -> exact_pts ja jb) ->
  forall p, region a p = region b p.
Proof.
  intros [| |ca|ca] [| |cb|cb] H Wa Wb Hex p; unfold shape_eq in H; try discriminate H;
    try reflexivity.
  - cbn [region]. cbn [jordans] in Wa, Wb, Hex. apply comp_eq_sound; assumption.
  - destruct (negb (Qeq_bool (shape_area (SD ca)) (shape_area (SD cb)))); [discriminate H|].
    cbn [region]. apply (disjoint_match_fold p _ _ _ H).
    intros s o Hs Ho E. apply comp_eq_sound.
    + exact E.
    + intros j Hj. apply Wb. eapply in_jordans_SD; eassumption.
    + intros j Hj. apply Wa. eapply in_jordans_SD; eassumption.
    + intros jo js Hjo Hjs. apply exact_pts_sym.
      apply Hex; eapply in_jordans_SD; eassumption.
Qed.

(* the same with the named hypotheses *)
Corollary shape_eq_sound' : forall a b,
  shape_eq a b = Ok true -> wf_curves a -> wf_curves b -> exact_shapes a b ->
  forall p, region a p = region b p.
Proof. exact shape_eq_sound. Qed.

(* the matched lists are of the same length also in the Disjoint case (no premise needed) *)
Lemma disjoint_match_length : forall f ss os,
  disjoint_match f ss os = Ok true -> length ss = length os.
Proof.
  induction f as [|f IH]; intros ss os H; [discriminate H|].
  destruct ss as [|s0 st].
  - destruct os; [reflexivity | discriminate H].
  - destruct os as [|o0 ot]; [discriminate H|].
    rewrite disjoint_match_cons in H by discriminate.
    set (os := o0 :: ot) in *. clearbody os.
    destruct (gfind (fun o => comp_eq o s0) 0 os) as [[k|]| |] eqn:Ef; cbn [bind] in H;
      try discriminate.
    destruct (gfind_Some _ (CC []) _ _ _ Ef) as (i & -> & Hi & _). cbn [Nat.add] in H.
    apply IH in H. pose proof (Fuel.remove_nth_length os i Hi) as E. cbn [length]. lia.
Qed.

(* ====================================================================== *)
(* S6. the hypotheses are satisfiable                                      *)
(* ====================================================================== *)
Definition wf_curvesb (s : shape) : bool :=
  forallb (fun j => all_lines j && closed_chain j) (jordans s).
Lemma wf_curvesb_ok s : wf_curvesb s = true -> wf_curves s.
Proof.
  unfold wf_curvesb. rewrite forallb_forall. intros H j Hj.
  apply andb_true_iff. exact (H j Hj).
Qed.
Definition exact_shapesb (a b : shape) : bool :=
  forallb (fun ja => forallb (fun jb => exact_ptsb ja jb) (jordans b)) (jordans a).
Lemma exact_shapesb_ok a b : exact_shapesb a b = true -> exact_shapes a b.
Proof.
  unfold exact_shapesb. rewrite forallb_forall. intros H ja jb Ha Hb.
  pose proof (H ja Ha) as H1. rewrite forallb_forall in H1.
  apply exact_ptsb_ok. exact (H1 jb Hb).
Qed.

(* a 6x6 square (counter-clockwise) with a 2x2 square hole (clockwise) *)
Definition outerA : jordan := [[(0,0);(6,0)]; [(6,0);(6,6)]; [(6,6);(0,6)]; [(0,6);(0,0)]].
Definition holeA  : jordan := [[(2,2);(2,4)]; [(2,4);(4,4)]; [(4,4);(4,2)]; [(4,2);(2,2)]].
(* the same curves listed from other start vertices *)
Definition outerB : jordan := [[(6,6);(0,6)]; [(0,6);(0,0)]; [(0,0);(6,0)]; [(6,0);(6,6)]].
Definition holeB  : jordan := [[(2,4);(4,4)]; [(4,4);(4,2)]; [(4,2);(2,2)]; [(2,2);(2,4)]].
Definition ringA : shape := SC (CC [outerA; holeA]).
Definition ringB : shape := SC (CC [outerB; holeB]).
Definition ringB' : shape := SC (CC [holeB; outerB]).     (* and in the other order *)

Example ring_hyps :
  shape_eq ringA ringB = Ok true /\ shape_eq ringA ringB' = Ok true /\
  wf_curves ringA /\ wf_curves ringB /\ wf_curves ringB' /\
  exact_shapes ringA ringB /\ exact_shapes ringA ringB'.
Proof.
  split; [vm_compute; reflexivity|]. split; [vm_compute; reflexivity|].
  split; [apply wf_curvesb_ok; vm_compute; reflexivity|].
  split; [apply wf_curvesb_ok; vm_compute; reflexivity|].
  split; [apply wf_curvesb_ok; vm_compute; reflexivity|].
  split; apply exact_shapesb_ok; vm_compute; reflexivity.
Qed.

Example ring_sound :
  (forall p, region ringA p = region ringB p) /\ (forall p, region ringA p = region ringB' p).
Proof.
  destruct ring_hyps as (H & H' & Wa & Wb & Wb' & Hex & Hex').
  split; [exact (shape_eq_sound ringA ringB H Wa Wb Hex) |
          exact (shape_eq_sound ringA ringB' H' Wa Wb' Hex')].
Qed.

(* the region of the ring is the expected one: all four answers but Undef occur *)
Example ring_values :
  region ringA (1,1) = RIn /\ region ringA (3,3) = ROut /\ region ringA (7,7) = ROut /\
  region ringA (2,3) = RBdry /\ region ringA (6,1) = RBdry.
Proof. vm_compute. repeat split; reflexivity. Qed.

(* a Disjoint shape: the ring and a far square, components in the other order *)
Definition farA : jordan := [[(10,0);(12,0)]; [(12,0);(12,2)]; [(12,2);(10,2)]; [(10,2);(10,0)]].
Definition farB : jordan := [[(12,2);(10,2)]; [(10,2);(10,0)]; [(10,0);(12,0)]; [(12,0);(12,2)]].
Definition pairA : shape := SD [CS farA; CC [outerA; holeA]].
Definition pairB : shape := SD [CC [holeB; outerB]; CS farB].

Example pair_hyps :
  shape_eq pairA pairB = Ok true /\ wf_curves pairA /\ wf_curves pairB /\ exact_shapes pairA pairB.
Proof.
  split; [vm_compute; reflexivity|].
  split; [apply wf_curvesb_ok; vm_compute; reflexivity|].
  split; [apply wf_curvesb_ok; vm_compute; reflexivity|].
  apply exact_shapesb_ok; vm_compute; reflexivity.
Qed.

Example pair_sound : forall p, region pairA p = region pairB p.
Proof.
  destruct pair_hyps as (H & Wa & Wb & Hex). exact (shape_eq_sound pairA pairB H Wa Wb Hex).
Qed.

Print Assumptions simple_eq_sound.
Print Assumptions comp_eq_sound.
Print Assumptions ring_hyps.
Print Assumptions ring_sound.
Print Assumptions pair_sound.
Print Assumptions shape_eq_sound.
