(* Fuel.v -- the fuel the model passes to its three bounded loops is always
   enough: NoFuel is unreachable, for all inputs (no well-formedness needed). *)
From Coq Require Import List Arith Lia Bool.
From SV Require Import Model.Expr.
Import ListNotations.
Local Open Scope nat_scope.

(* ------------------------------------------------------------------ *)
(* generic monad facts                                                 *)
(* ------------------------------------------------------------------ *)
Definition nf {A} (r : res A) : Prop := r <> NoFuel.

Lemma nf_ok {A} (a : A) : nf (Ok a).
Proof. discriminate. Qed.
Lemma nf_err {A} k : nf (@Err A k).
Proof. discriminate. Qed.

Lemma bind_nofuel {A B} (r : res A) (f : A -> res B) :
  bind r f = NoFuel -> r = NoFuel \/ exists a, r = Ok a /\ f a = NoFuel.
Proof.
  destruct r; simpl; intros H; [right; eauto | discriminate | left; reflexivity].
Qed.

Lemma nf_bind {A B} (r : res A) (f : A -> res B) :
  nf r -> (forall a, r = Ok a -> nf (f a)) -> nf (bind r f).
Proof.
  intros Hr Hf H. apply bind_nofuel in H.
  destruct H as [H | [a [Ha H]]]; [exact (Hr H) | exact (Hf a Ha H)].
Qed.

Lemma mapM_nofuel {A B} (f : A -> res B) l :
  mapM f l = NoFuel -> exists x, In x l /\ f x = NoFuel.
Proof.
  induction l as [|x xs IH]; simpl; intros H; [discriminate|].
  apply bind_nofuel in H. destruct H as [H | [y [Hy H]]]; [exists x; auto|].
  apply bind_nofuel in H. destruct H as [H | [ys [Hys H]]]; [|discriminate].
  destruct (IH H) as [z [Hz1 Hz2]]; exists z; auto.
Qed.

Lemma forallM_nofuel {A} (f : A -> res bool) l :
  forallM f l = NoFuel -> exists x, In x l /\ f x = NoFuel.
Proof.
  induction l as [|x xs IH]; simpl; intros H; [discriminate|].
  apply bind_nofuel in H. destruct H as [H | [y [Hy H]]]; [exists x; auto|].
  destruct y; [|discriminate].
  destruct (IH H) as [z [Hz1 Hz2]]; exists z; auto.
Qed.

Lemma existsM_nofuel {A} (f : A -> res bool) l :
  existsM f l = NoFuel -> exists x, In x l /\ f x = NoFuel.
Proof.
  induction l as [|x xs IH]; simpl; intros H; [discriminate|].
  apply bind_nofuel in H. destruct H as [H | [y [Hy H]]]; [exists x; auto|].
  destruct y; [discriminate|].
  destruct (IH H) as [z [Hz1 Hz2]]; exists z; auto.
Qed.

Lemma nf_mapM {A B} (f : A -> res B) l :
  (forall x, In x l -> nf (f x)) -> nf (mapM f l).
Proof. intros Hf H. apply mapM_nofuel in H. destruct H as [x [Hx H]]. exact (Hf x Hx H). Qed.
Lemma nf_forallM {A} (f : A -> res bool) l :
  (forall x, In x l -> nf (f x)) -> nf (forallM f l).
Proof. intros Hf H. apply forallM_nofuel in H. destruct H as [x [Hx H]]. exact (Hf x Hx H). Qed.
Lemma nf_existsM {A} (f : A -> res bool) l :
  (forall x, In x l -> nf (f x)) -> nf (existsM f l).
Proof. intros Hf H. apply existsM_nofuel in H. destruct H as [x [Hx H]]. exact (Hf x Hx H). Qed.
Lemma nf_assert b : nf (assert_ b).
Proof. destruct b; discriminate. Qed.

Create HintDb nf.

Ltac nf_step :=
  match goal with
  | |- ?r <> NoFuel => change (nf r)
  | |- nf (Ok _) => apply nf_ok
  | |- nf (Err _) => apply nf_err
  | |- nf (assert_ _) => apply nf_assert
  | H : nf ?g |- nf ?g => exact H
  | |- nf (bind _ _) => apply nf_bind; [| intros ? ?]
  | |- nf (mapM _ _) => apply nf_mapM; intros ? ?
  | |- nf (forallM _ _) => apply nf_forallM; intros ? ?
  | |- nf (existsM _ _) => apply nf_existsM; intros ? ?
  | |- nf (match ?x with _ => _ end) => destruct x eqn:?
  | |- nf _ => solve [auto with nf]
  end.
Ltac nf_auto := repeat nf_step.

(* ------------------------------------------------------------------ *)
(* list helpers                                                        *)
(* ------------------------------------------------------------------ *)
Lemma remove_nth_length {A} (l : list A) : forall n,
  n < length l -> S (length (remove_nth n l)) = length l.
Proof.
  induction l as [|h t IH]; intros n Hn; simpl in *; [lia|].
  destruct n as [|k]; simpl; [reflexivity|].
  rewrite IH by lia. reflexivity.
Qed.

Lemma set_nth_length {A} (x : A) (l : list A) : forall n,
  length (set_nth n x l) = length l.
Proof.
  induction l as [|h t IH]; intros [|k]; simpl; auto.
Qed.

(* ------------------------------------------------------------------ *)
(* F3: JordanCurve.clean                                               *)
(* ------------------------------------------------------------------ *)
Lemma clean_scan_nf : forall n i segs, nf (clean_scan n i segs).
Proof.
  induction n as [|k IH]; intros i segs; simpl; nf_auto.
Qed.

Lemma clean_scan_length : forall n i segs segs',
  segs <> [] -> clean_scan n i segs = Ok (Some segs') ->
  S (length segs') = length segs.
Proof.
  induction n as [|k IH]; intros i segs segs' Hne H; simpl in H; [discriminate|].
  destruct (unite _ _) as [m| |e] eqn:Hu.
  - inversion H; subst. rewrite remove_nth_length; rewrite set_nth_length; [reflexivity|].
    apply Nat.mod_upper_bound. destruct segs; [congruence|simpl; lia].
  - eapply IH; eauto.
  - discriminate.
Qed.

Lemma clean_loop_nf : forall fuel segs, length segs < fuel -> nf (clean_loop fuel segs).
Proof.
  induction fuel as [|f IH]; intros segs Hlt; [lia|].
  simpl. destruct segs as [|s0 t] eqn:Hs; [apply nf_ok|]. rewrite <- Hs in *.
  apply nf_bind; [apply clean_scan_nf|]. intros [segs'|] Hr; [|apply nf_ok].
  apply IH. apply clean_scan_length in Hr; [lia|]. rewrite Hs; discriminate.
Qed.

Theorem clean_fuel : forall j, clean j <> NoFuel.
Proof.
  intros j. unfold clean. apply nf_bind; [apply clean_loop_nf; lia|].
  intros; apply nf_ok.
Qed.
Lemma clean_nf j : nf (clean j).
Proof. apply clean_fuel. Qed.
#[export] Hint Resolve clean_nf : nf.

(* ------------------------------------------------------------------ *)
(* F1: FollowPath.pursue_path                                          *)
(* ------------------------------------------------------------------ *)
Fixpoint allp (k : nat) (js : list jordan) : list (nat * nat) :=
  match js with
  | [] => []
  | j :: t => map (pair k) (seq 0 (length j)) ++ allp (S k) t
  end.

Lemma allp_length : forall js k, length (allp k js) = total_segments js.
Proof.
  induction js as [|j t IH]; intros k; simpl; [reflexivity|].
  rewrite app_length, map_length, seq_length, IH. reflexivity.
Qed.

Lemma allp_in : forall js k i s,
  k <= i -> i - k < length js -> s < length (nth (i - k) js []) -> In (i, s) (allp k js).
Proof.
  induction js as [|j t IH]; intros k i s Hk Hi Hs; simpl in *; [lia|].
  apply in_or_app.
  destruct (Nat.eq_dec i k) as [->|Hne].
  - left. rewrite Nat.sub_diag in Hs. apply in_map. apply in_seq. lia.
  - right. apply IH; try lia.
    replace (i - k) with (S (i - S k)) in Hs by lia. exact Hs.
Qed.

Definition valid (js : list jordan) (m : list (nat * nat)) : Prop :=
  NoDup m /\ forall i k, In (i, k) m -> i < length js /\ k < length (nth i js []).

Lemma valid_len js m : valid js m -> length m <= total_segments js.
Proof.
  intros [Hnd Hin]. rewrite <- (allp_length js 0).
  apply NoDup_incl_length; [exact Hnd|].
  intros [i k] Hik. destruct (Hin i k Hik) as [H1 H2].
  apply allp_in; rewrite ?Nat.sub_0_r; auto; lia.
Qed.

Lemma NoDup_snoc {A} (l : list A) p : NoDup l -> ~ In p l -> NoDup (l ++ [p]).
Proof.
  induction 1 as [|a l Ha Hnd IH]; intros Hp; simpl.
  - constructor; [intros []|constructor].
  - constructor.
    + intros Hin. apply in_app_or in Hin. destruct Hin as [Hin|[->|[]]]; [auto|].
      apply Hp; left; reflexivity.
    + apply IH. intros Hin; apply Hp; right; exact Hin.
Qed.

Lemma nn_eqb_notin p m : existsb (nn_eqb p) m = false -> ~ In p m.
Proof.
  intros H Hin. assert (existsb (nn_eqb p) m = true); [|congruence].
  apply existsb_exists. exists p; split; [exact Hin|].
  unfold nn_eqb. rewrite !Nat.eqb_refl. reflexivity.
Qed.

Lemma pursue_path_nf js : forall fuel ij is_ m,
  valid js m -> total_segments js < fuel + length m ->
  nf (pursue_path fuel ij is_ js m).
Proof.
  induction fuel as [|f IH]; intros ij is_ m Hv Hlt.
  - apply valid_len in Hv. simpl in Hlt. lia.
  - cbn [pursue_path].
    destruct (nth ij js []) as [|s0 segs] eqn:Hsegs; [apply nf_err|].
    set (is' := is_ mod length (s0 :: segs)).
    assert (His : is' < length (s0 :: segs)).
    { apply Nat.mod_upper_bound. simpl; lia. }
    destruct (existsb (nn_eqb (ij, is')) m) eqn:Hex; [apply nf_ok|].
    assert (Hv' : valid js (m ++ [(ij, is')])).
    { destruct Hv as [Hnd Hin]. split.
      - apply NoDup_snoc; [exact Hnd|]. apply nn_eqb_notin; exact Hex.
      - intros i k Hik. apply in_app_or in Hik. destruct Hik as [Hik|[Hik|[]]]; [auto|].
        inversion Hik; subst i k. rewrite Hsegs. split; [|exact His].
        destruct (lt_dec ij (length js)) as [Hl|Hl]; [exact Hl|].
        rewrite nth_overflow in Hsegs by lia. discriminate. }
    assert (Hlt' : total_segments js < f + length (m ++ [(ij, is')])).
    { rewrite app_length; simpl; lia. }
    destruct (filter _ _); apply IH; assumption.
Qed.

Lemma valid_nil js : valid js [].
Proof. split; [constructor|intros i k []]. Qed.

Theorem pursue_path_fuel : forall js ij is_,
  pursue_path (S (total_segments js)) ij is_ js [] <> NoFuel.
Proof.
  intros. apply pursue_path_nf; [apply valid_nil|simpl; lia].
Qed.
Lemma pursue_path_nf0 js ij is_ : nf (pursue_path (S (total_segments js)) ij is_ js []).
Proof. apply pursue_path_fuel. Qed.
#[export] Hint Resolve pursue_path_nf0 : nf.

(* ------------------------------------------------------------------ *)
(* F2: follow_path                                                     *)
(* ------------------------------------------------------------------ *)
Lemma from_segments_nf js : nf (from_segments js).
Proof. unfold from_segments. nf_auto. Qed.
#[export] Hint Resolve from_segments_nf : nf.

Theorem follow_path_fuel : forall js starts, follow_path js starts <> NoFuel.
Proof.
  intros. unfold follow_path, indexs_to_jordan. nf_auto.
Qed.
Lemma follow_path_nf js starts : nf (follow_path js starts).
Proof. apply follow_path_fuel. Qed.
#[export] Hint Resolve follow_path_nf : nf.

(* ------------------------------------------------------------------ *)
(* fuel-free helpers                                                   *)
(* ------------------------------------------------------------------ *)
Lemma seg_and_nf a b : nf (seg_and a b).
Proof. unfold seg_and. nf_auto. Qed.
#[export] Hint Resolve seg_and_nf : nf.

Lemma raw_intersection_nf a b : nf (raw_intersection a b).
Proof. unfold raw_intersection. nf_auto. Qed.
#[export] Hint Resolve raw_intersection_nf : nf.

Lemma intersection_nf a b e p : nf (intersection a b e p).
Proof. unfold intersection. nf_auto. Qed.
#[export] Hint Resolve intersection_nf : nf.

Lemma jordan_and_nf a b : nf (jordan_and a b).
Proof. unfold jordan_and. nf_auto. Qed.
#[export] Hint Resolve jordan_and_nf : nf.

Lemma simple_has_jordan_nf a b c : nf (simple_has_jordan a b c).
Proof. unfold simple_has_jordan. nf_auto. Qed.
#[export] Hint Resolve simple_has_jordan_nf : nf.

Lemma simple_has_simple_nf a b : nf (simple_has_simple a b).
Proof. unfold simple_has_simple. nf_auto. Qed.
#[export] Hint Resolve simple_has_simple_nf : nf.

(* ------------------------------------------------------------------ *)
(* F4: ShapeFromJordans / DivideConnecteds                             *)
(* ------------------------------------------------------------------ *)
Fixpoint amgo (i best : nat) (bv : Q) (l : list Q) : nat :=
  match l with
  | [] => best
  | a :: t => if Qlt_bool bv (Qabs' a) then amgo (S i) i (Qabs' a) t else amgo (S i) best bv t
  end.

Lemma argmax_abs_cons a t : argmax_abs (a :: t) = amgo 1 0 (Qabs' a) t.
Proof. reflexivity. Qed.

Lemma amgo_lt : forall l i best bv, best < i -> amgo i best bv l < i + length l.
Proof.
  induction l as [|a t IH]; intros i best bv Hb; simpl; [lia|].
  destruct (Qlt_bool bv (Qabs' a)).
  - specialize (IH (S i) i (Qabs' a)). lia.
  - specialize (IH (S i) best bv). lia.
Qed.

Lemma argmax_abs_lt l : l <> [] -> argmax_abs l < length l.
Proof.
  destruct l as [|a t]; [congruence|]. intros _.
  rewrite argmax_abs_cons. pose proof (amgo_lt t 1 0 (Qabs' a)). simpl. lia.
Qed.

Definition gpart (connected' : list jordan) :=
  fix part (l : list jordan) : res (list jordan * list jordan) :=
  match l with
  | [] => Ok ([], [])
  | s :: t =>
      do ext <- existsM (fun c =>
                  do x <- simple_has_jordan c s true;
                  if negb x then Ok true
                  else do y <- simple_has_jordan s c true; Ok (negb y)) connected';
      do r <- part t;
      let '(ins, exts) := r in
      if ext then Ok (ins, s :: exts) else Ok (s :: ins, exts)
  end.

Lemma grow_group_S f connected simples externals :
  grow_group (S f) connected simples externals =
  match simples with
  | [] => Ok (connected, externals)
  | _ =>
    let idx := argmax_abs (map jordan_area simples) in
    let connected' := connected ++ [nth idx simples []] in
    let rest := remove_nth idx simples in
    do split2 <- gpart connected' rest;
    let '(internal, exts) := split2 in
    grow_group f connected' internal (externals ++ exts)
  end.
Proof. destruct simples; reflexivity. Qed.

Lemma gpart_nf c : forall l, nf (gpart c l).
Proof. induction l as [|s t IH]; simpl; nf_auto. Qed.

Lemma gpart_length c : forall l ins exts,
  gpart c l = Ok (ins, exts) -> length ins + length exts = length l.
Proof.
  induction l as [|s t IH]; intros ins exts H; simpl in H.
  - inversion H; reflexivity.
  - destruct (existsM _ c) as [ext| |]; simpl in H; try discriminate.
    destruct (gpart c t) as [[ins' exts']| |]; simpl in H; try discriminate.
    specialize (IH _ _ eq_refl).
    destruct ext; inversion H; subst; simpl; lia.
Qed.

Lemma grow_group_nf : forall fuel connected simples externals,
  length simples < fuel -> nf (grow_group fuel connected simples externals).
Proof.
  induction fuel as [|f IH]; intros connected simples externals Hlt; [lia|].
  rewrite grow_group_S.
  destruct simples as [|s0 t] eqn:Hs; [apply nf_ok|]. rewrite <- Hs in *.
  cbv zeta.
  apply nf_bind; [apply gpart_nf|]. intros [internal exts] Hp.
  apply IH. apply gpart_length in Hp.
  assert (S (length (remove_nth (argmax_abs (map jordan_area simples)) simples)) = length simples).
  { apply remove_nth_length.
    rewrite <- (map_length jordan_area). apply argmax_abs_lt. rewrite Hs; discriminate. }
  lia.
Qed.

Lemma grow_group_length : forall fuel connected simples externals c' e',
  grow_group fuel connected simples externals = Ok (c', e') ->
  length c' + length e' = length connected + length simples + length externals
  /\ length connected <= length c'
  /\ (simples <> [] -> length connected < length c').
Proof.
  induction fuel as [|f IH]; intros connected simples externals c' e' H; [discriminate|].
  rewrite grow_group_S in H.
  destruct simples as [|s0 t] eqn:Hs.
  - inversion H; subst. simpl. repeat split; try lia. congruence.
  - rewrite <- Hs in *. cbv zeta in H.
    destruct (gpart _ _) as [[internal exts]| |] eqn:Hp; simpl in H; try discriminate.
    apply IH in H. apply gpart_length in Hp.
    assert (S (length (remove_nth (argmax_abs (map jordan_area simples)) simples)) = length simples).
    { apply remove_nth_length.
      rewrite <- (map_length jordan_area). apply argmax_abs_lt. rewrite Hs; discriminate. }
    rewrite !app_length in H. simpl in H.
    destruct H as [H1 [H2 _]]. repeat split; try lia.
Qed.

Lemma divide_connecteds_nf : forall fuel simples,
  length simples < fuel -> nf (divide_connecteds fuel simples).
Proof.
  induction fuel as [|f IH]; intros simples Hlt; [lia|].
  cbn [divide_connecteds].
  destruct simples as [|s0 t] eqn:Hs; [apply nf_ok|]. rewrite <- Hs in *.
  apply nf_bind; [apply grow_group_nf; lia|]. intros [connected externals] Hg.
  apply grow_group_length in Hg. destruct Hg as [H1 [_ H3]].
  assert (simples <> []) as Hne by (rewrite Hs; discriminate).
  specialize (H3 Hne). simpl in H1, H3.
  apply nf_bind; [apply IH; lia|]. intros; apply nf_ok.
Qed.

Theorem grow_group_fuel : forall connected simples externals,
  grow_group (S (length simples)) connected simples externals <> NoFuel.
Proof. intros. apply grow_group_nf. lia. Qed.

Theorem divide_connecteds_fuel : forall simples,
  divide_connecteds (S (length simples)) simples <> NoFuel.
Proof. intros. apply divide_connecteds_nf. lia. Qed.

Theorem shape_from_jordans_fuel : forall js, shape_from_jordans js <> NoFuel.
Proof.
  intros js. unfold shape_from_jordans.
  destruct js as [|a [|b t]]; try discriminate.
  apply nf_bind; [apply divide_connecteds_nf; lia|].
  intros; nf_auto.
Qed.
Lemma shape_from_jordans_nf js : nf (shape_from_jordans js).
Proof. apply shape_from_jordans_fuel. Qed.
#[export] Hint Resolve shape_from_jordans_nf : nf.

(* ------------------------------------------------------------------ *)
(* F5: composition                                                     *)
(* ------------------------------------------------------------------ *)
Theorem copy_shape_fuel : forall s, copy_shape s <> NoFuel.
Proof. intros s. unfold copy_shape. nf_auto. Qed.
Lemma copy_shape_nf s : nf (copy_shape s).
Proof. apply copy_shape_fuel. Qed.
#[export] Hint Resolve copy_shape_nf : nf.

Theorem op_not_fuel : forall s, op_not s <> NoFuel.
Proof. intros s. unfold op_not. nf_auto. Qed.
Lemma op_not_nf s : nf (op_not s).
Proof. apply op_not_fuel. Qed.
#[export] Hint Resolve op_not_nf : nf.

Lemma simple_has_connected_nf a b : nf (simple_has_connected a b).
Proof. unfold simple_has_connected. nf_auto. Qed.
#[export] Hint Resolve simple_has_connected_nf : nf.
Lemma simple_has_comp_nf a b : nf (simple_has_comp a b).
Proof. unfold simple_has_comp. nf_auto. Qed.
#[export] Hint Resolve simple_has_comp_nf : nf.
Lemma comp_has_comp_nf a b : nf (comp_has_comp a b).
Proof. unfold comp_has_comp. nf_auto. Qed.
#[export] Hint Resolve comp_has_comp_nf : nf.
Lemma comp_has_disjoint_nf a b : nf (comp_has_disjoint a b).
Proof. unfold comp_has_disjoint. nf_auto. Qed.
#[export] Hint Resolve comp_has_disjoint_nf : nf.

Theorem contains_shape_fuel : forall a b, contains_shape a b <> NoFuel.
Proof. intros a b. unfold contains_shape. nf_auto. Qed.
Lemma contains_shape_nf a b : nf (contains_shape a b).
Proof. apply contains_shape_fuel. Qed.
#[export] Hint Resolve contains_shape_nf : nf.

Lemma comp_has_jordan_nf c j b : nf (comp_has_jordan c j b).
Proof. unfold comp_has_jordan. nf_auto. Qed.
#[export] Hint Resolve comp_has_jordan_nf : nf.
Theorem contains_jordan_fuel : forall s j b, contains_jordan s j b <> NoFuel.
Proof. intros. unfold contains_jordan. nf_auto. Qed.

Lemma split_segment_nf s ns : nf (split_segment s ns).
Proof. unfold split_segment. nf_auto. Qed.
#[export] Hint Resolve split_segment_nf : nf.
Lemma split_nf j i n : nf (split j i n).
Proof. unfold split. nf_auto. Qed.
#[export] Hint Resolve split_nf : nf.
Lemma split_two_jordans_nf a b : nf (split_two_jordans a b).
Proof. unfold split_two_jordans. nf_auto. Qed.
#[export] Hint Resolve split_two_jordans_nf : nf.
Lemma split_one_against_nf : forall jbs ja, nf (split_one_against ja jbs).
Proof. induction jbs as [|jb t IH]; intros ja; simpl; nf_auto. Qed.
#[export] Hint Resolve split_one_against_nf : nf.
Lemma split_all_nf : forall jas jbs, nf (split_all jas jbs).
Proof. induction jas as [|ja t IH]; intros jbs; simpl; nf_auto. Qed.
#[export] Hint Resolve split_all_nf : nf.

Theorem recombine_fuel : forall a b closed inside, recombine a b closed inside <> NoFuel.
Proof. intros. unfold recombine. nf_auto. Qed.
Lemma recombine_nf a b c i : nf (recombine a b c i).
Proof. apply recombine_fuel. Qed.
#[export] Hint Resolve recombine_nf : nf.

Theorem op_or_fuel : forall a b, op_or a b <> NoFuel.
Proof. intros a b. unfold op_or. nf_auto. Qed.
Lemma op_or_nf a b : nf (op_or a b).
Proof. apply op_or_fuel. Qed.
#[export] Hint Resolve op_or_nf : nf.

Theorem op_and_fuel : forall a b, op_and a b <> NoFuel.
Proof. intros a b. unfold op_and. nf_auto. Qed.
Lemma op_and_nf a b : nf (op_and a b).
Proof. apply op_and_fuel. Qed.
#[export] Hint Resolve op_and_nf : nf.

Theorem op_sub_fuel : forall a b, op_sub a b <> NoFuel.
Proof. intros a b. unfold op_sub. nf_auto. Qed.
Lemma op_sub_nf a b : nf (op_sub a b).
Proof. apply op_sub_fuel. Qed.
#[export] Hint Resolve op_sub_nf : nf.

Theorem op_xor_fuel : forall a b, op_xor a b <> NoFuel.
Proof. intros a b. unfold op_xor. nf_auto. Qed.
Lemma op_xor_nf a b : nf (op_xor a b).
Proof. apply op_xor_fuel. Qed.
#[export] Hint Resolve op_xor_nf : nf.

Theorem eval_expr_no_fuel : forall e env, eval_expr env e <> NoFuel.
Proof.
  induction e; intros env; cbn [eval_expr]; nf_auto;
    match goal with H : forall env, eval_expr env ?e <> NoFuel |- nf (eval_expr _ ?e) => apply H end.
Qed.

(* ------------------------------------------------------------------ *)
(* F6: __eq__                                                          *)
(* ------------------------------------------------------------------ *)
Theorem jordan_eq_fuel : forall a b, jordan_eq a b <> NoFuel.
Proof.
  intros a b. unfold jordan_eq. nf_auto.
  match goal with |- nf (_ ?i ?l) => generalize i; generalize l end.
  intros l; induction l as [|s1 t IH]; intros i; nf_auto.
Qed.
Lemma jordan_eq_nf a b : nf (jordan_eq a b).
Proof. apply jordan_eq_fuel. Qed.
#[export] Hint Resolve jordan_eq_nf : nf.

Lemma simple_eq_nf a b : nf (simple_eq a b).
Proof. unfold simple_eq. nf_auto. Qed.
#[export] Hint Resolve simple_eq_nf : nf.
Lemma find_simple_nf s : forall l k, nf (find_simple s k l).
Proof. induction l as [|o t IH]; intros k; cbn [find_simple]; nf_auto. Qed.
#[export] Hint Resolve find_simple_nf : nf.
Lemma match_simples_nf : forall ss os, nf (match_simples ss os).
Proof. induction ss as [|s t IH]; intros os; cbn [match_simples]; nf_auto. Qed.
#[export] Hint Resolve match_simples_nf : nf.
Lemma comp_eq_nf a b : nf (comp_eq a b).
Proof. unfold comp_eq. nf_auto. Qed.
#[export] Hint Resolve comp_eq_nf : nf.

Definition dfind (s0 : comp) :=
  fix find (k : nat) (l : list comp) : res (option nat) :=
    match l with
    | [] => Ok None
    | o :: t => do e <- comp_eq o s0; if e then Ok (Some k) else find (S k) t
    end.

Lemma dfind_nf s0 : forall l k, nf (dfind s0 k l).
Proof. induction l as [|o t IH]; intros k; simpl; nf_auto. Qed.

Lemma disjoint_match_S f s0 st os :
  disjoint_match (S f) (s0 :: st) os =
  match os with
  | [] => Ok false
  | _ => do r <- dfind s0 O os;
         match r with
         | None => Ok false
         | Some k => disjoint_match f st (remove_nth k os)
         end
  end.
Proof. destruct os; reflexivity. Qed.

Lemma disjoint_match_nf : forall fuel ss os, length ss < fuel -> nf (disjoint_match fuel ss os).
Proof.
  induction fuel as [|f IH]; intros ss os Hlt; [lia|].
  destruct ss as [|s0 st].
  - destruct os; apply nf_ok.
  - rewrite disjoint_match_S. simpl in Hlt.
    destruct os as [|o ot]; [apply nf_ok|].
    apply nf_bind; [apply dfind_nf|]. intros [k|] _; [|apply nf_ok].
    apply IH. lia.
Qed.

Theorem disjoint_match_fuel : forall ss os,
  disjoint_match (S (length ss)) ss os <> NoFuel.
Proof. intros. apply disjoint_match_nf. lia. Qed.

Theorem shape_eq_fuel : forall a b, shape_eq a b <> NoFuel.
Proof.
  intros a b. unfold shape_eq. nf_auto.
  apply disjoint_match_nf. lia.
Qed.

Print Assumptions pursue_path_fuel.
Print Assumptions follow_path_fuel.
Print Assumptions clean_fuel.
Print Assumptions grow_group_fuel.
Print Assumptions divide_connecteds_fuel.
Print Assumptions shape_from_jordans_fuel.
Print Assumptions copy_shape_fuel.
Print Assumptions op_not_fuel.
Print Assumptions contains_shape_fuel.
Print Assumptions contains_jordan_fuel.
Print Assumptions recombine_fuel.
Print Assumptions op_or_fuel.
Print Assumptions op_and_fuel.
Print Assumptions op_sub_fuel.
Print Assumptions op_xor_fuel.
Print Assumptions eval_expr_no_fuel.
Print Assumptions jordan_eq_fuel.
Print Assumptions disjoint_match_fuel.
Print Assumptions shape_eq_fuel.
