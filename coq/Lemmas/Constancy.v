(* Constancy.v -- the winding number [wn_lines j p] of a closed chain does not
   change when p moves without touching the chain.

   Method.  Everything is done edge by edge plus ONE telescoping sum:
   (V) vertical moves: each single [cr a b (x,y)] is constant in y as long as
       (x,y) stays off the edge (the sign of [orient] is monotone in y).
   (R) quarter turn: with rot (x,y) = (-y,x) (the rightward ray becomes the
       upward ray), for p off the edge a-b
         cr (rot a) (rot b) (rot p) - cr a b p = quad p b - quad p a
       where [quad p v] is the indicator of the quadrant right of / not below p.
       Summed over a closed chain the right-hand side telescopes to 0, so the
       rightward-ray count equals the upward-ray count.
   (H) horizontal moves = (R) at p, (V) for the rotated chain, (R) at q.
   (G) general moves: a shear (x,y) -> (x, y - m x) preserves [cr] and
       [on_edge] and makes the move horizontal.
   No induction over critical abscissas is needed, and neither [all_lines] nor
   non-degeneracy of the edges is used: only first/last points matter. *)
From Coq Require Import QArith Lqa Lia ZArith List Bool.
From SV Require Import Spec.Spec Lemmas.Winding.
Import ListNotations.
Open Scope Q_scope.

(* ------------------------------------------------------------------ *)
(* 0. edge lists                                                       *)
(* ------------------------------------------------------------------ *)
Definition edge := (point * point)%type.
Definition edges (j : jordan) : list edge := map edge_of j.
Definition wn_e (el : list edge) (p : point) : Z :=
  Zsum (map (fun e => cr (fst e) (snd e) p) el).
(* r lies on no edge *)
Definition off_e (el : list edge) (r : point) : Prop :=
  forall e, In e el -> on_edge (fst e) (snd e) r = false.
(* the edges lead from p to q (joints up to ==) *)
Fixpoint epath (p q : point) (l : list edge) : Prop :=
  match l with
  | [] => peq p q
  | e :: t => peq p (fst e) /\ epath (snd e) q t
  end.
Definition eclosed (l : list edge) : Prop := exists p, epath p p l.
Definition emap (f : point -> point) (l : list edge) : list edge :=
  map (fun e => (f (fst e), f (snd e))) l.

Lemma wn_lines_edges j p : wn_lines j p = wn_e (edges j) p.
Proof. unfold wn_lines, wn_e, edges. rewrite map_map. reflexivity. Qed.

Lemma on_boundary_off j r : on_boundary j r = false <-> off_e (edges j) r.
Proof.
  unfold on_boundary, off_e, edges. induction j as [|s j IH]; cbn [existsb map In].
  - split; [intros _ e [] | reflexivity].
  - rewrite orb_false_iff, IH. split.
    + intros [H1 H2] e [<-|He]; [exact H1 | apply H2; exact He].
    + intro H. split; [apply (H (edge_of s)); left; reflexivity|].
      intros e He. apply H. right; exact He.
Qed.

Lemma peq_sym p q : peq p q -> peq q p.
Proof. intros [H1 H2]. split; symmetry; assumption. Qed.
Lemma peq_trans p q r : peq p q -> peq q r -> peq p r.
Proof. intros [H1 H2] [H3 H4]. split; etransitivity; eassumption. Qed.

Lemma peqb_true p q : peqb p q = true -> peq p q.
Proof.
  unfold peqb. intro H. apply andb_true_iff in H. destruct H as [H1 H2].
  apply Qeq_bool_iff in H1. apply Qeq_bool_iff in H2. split; assumption.
Qed.

Lemma chain_ok_epath : forall t s c,
  chain_ok c (s :: t) = true -> epath (last_pt s) c (edges t).
Proof.
  induction t as [|s' t' IH]; intros s c H.
  - cbn [chain_ok] in H. cbn [edges map epath]. apply peqb_true. exact H.
  - change (chain_ok c (s :: s' :: t'))
      with (peqb (last_pt s) (first_pt s') && chain_ok c (s' :: t')) in H.
    apply andb_true_iff in H. destruct H as [H1 H2].
    change (edges (s' :: t')) with (edge_of s' :: edges t'). cbn [epath].
    split; [apply peqb_true; exact H1 | apply IH; exact H2].
Qed.

Lemma closed_chain_eclosed j : closed_chain j = true -> eclosed (edges j).
Proof.
  destruct j as [|s t]; intro H.
  - exists pzero. cbn. apply peq_refl.
  - exists (first_pt s). unfold closed_chain in H.
    change (edges (s :: t)) with (edge_of s :: edges t). cbn [epath].
    split; [apply peq_refl | apply chain_ok_epath; exact H].
Qed.

Lemma epath_emap f : (forall a b, peq a b -> peq (f a) (f b)) ->
  forall l p q, epath p q l -> epath (f p) (f q) (emap f l).
Proof.
  intros Hf. induction l as [|e t IH]; intros p q H; cbn [emap map epath] in *.
  - apply Hf; exact H.
  - destruct H as [H1 H2]. split; [apply Hf; exact H1 | apply IH; exact H2].
Qed.

Lemma eclosed_emap f : (forall a b, peq a b -> peq (f a) (f b)) ->
  forall l, eclosed l -> eclosed (emap f l).
Proof. intros Hf l [p H]. exists (f p). apply epath_emap; assumption. Qed.

(* telescoping sum along a path *)
Lemma tele (g : point -> Z) : (forall a b, peq a b -> g a = g b) ->
  forall l p q, epath p q l ->
  Zsum (map (fun e => g (snd e) - g (fst e))%Z l) = (g q - g p)%Z.
Proof.
  intros Hg. induction l as [|e t IH]; intros p q H; cbn [map Zsum epath] in *.
  - rewrite (Hg p q H). lia.
  - destruct H as [H1 H2]. rewrite (IH _ _ H2), (Hg p _ H1). lia.
Qed.

Lemma Zsum_map_ext {A} (f g : A -> Z) l :
  (forall x, In x l -> f x = g x) -> Zsum (map f l) = Zsum (map g l).
Proof. intro H. f_equal. apply map_ext_in. exact H. Qed.

Lemma Zsum_map_sub {A} (f g : A -> Z) l :
  Zsum (map (fun x => f x - g x)%Z l) = (Zsum (map f l) - Zsum (map g l))%Z.
Proof. induction l as [|x l IH]; cbn [map Zsum]; lia. Qed.

Lemma wn_e_emap f el p :
  wn_e (emap f el) p = Zsum (map (fun e => cr (f (fst e)) (f (snd e)) p) el).
Proof. unfold wn_e, emap. rewrite map_map. reflexivity. Qed.

Lemma wn_e_peq el p q : peq p q -> wn_e el p = wn_e el q.
Proof.
  intro H. unfold wn_e. apply Zsum_map_ext. intros e _.
  apply cr_peq; [apply peq_refl | apply peq_refl | exact H].
Qed.

(* ------------------------------------------------------------------ *)
(* 1. on_edge in Prop form                                             *)
(* ------------------------------------------------------------------ *)
Definition betw (a b x : Q) : Prop := (a <= x /\ x <= b) \/ (b <= x /\ x <= a).

Lemma on_edge_iff a b p :
  on_edge a b p = true <->
  orient a b p == 0 /\ betw (px a) (px b) (px p) /\ betw (py a) (py b) (py p).
Proof.
  unfold on_edge, betw. rewrite !andb_true_iff, !between_iff, Qeq_bool_iff. tauto.
Qed.

Lemma on_edge_false_inv a b p : on_edge a b p = false -> orient a b p == 0 ->
  (px a < px p /\ px b < px p) \/ (px p < px a /\ px p < px b) \/
  (py a < py p /\ py b < py p) \/ (py p < py a /\ py p < py b).
Proof.
  intros H O.
  destruct (Qlt_le_dec (px a) (px p)); destruct (Qlt_le_dec (px b) (px p));
  destruct (Qlt_le_dec (px p) (px a)); destruct (Qlt_le_dec (px p) (px b));
  destruct (Qlt_le_dec (py a) (py p)); destruct (Qlt_le_dec (py b) (py p));
  destruct (Qlt_le_dec (py p) (py a)); destruct (Qlt_le_dec (py p) (py b));
  try tauto; exfalso;
  (assert (E : on_edge a b p = true)
     by (apply on_edge_iff; unfold betw; split; [exact O | split; lra]);
   congruence).
Qed.

Lemma on_edge_ext a b p a' b' p' :
  orient a b p == orient a' b' p' ->
  (betw (px a) (px b) (px p) <-> betw (px a') (px b') (px p')) ->
  (orient a b p == 0 -> betw (px a) (px b) (px p) ->
     (betw (py a) (py b) (py p) <-> betw (py a') (py b') (py p'))) ->
  on_edge a b p = on_edge a' b' p'.
Proof.
  intros HO HX HY.
  destruct (on_edge a b p) eqn:E; destruct (on_edge a' b' p') eqn:E'; auto.
  - apply on_edge_iff in E. destruct E as (O & X & Y).
    assert (on_edge a' b' p' = true); [|congruence].
    apply on_edge_iff. rewrite <- HO. split; [exact O|]. split; [tauto|].
    apply (HY O X). exact Y.
  - apply on_edge_iff in E'. destruct E' as (O & X & Y). rewrite <- HO in O.
    assert (on_edge a b p = true); [|congruence].
    apply on_edge_iff. split; [exact O|]. split; [tauto|].
    apply (HY O); tauto.
Qed.

Lemma on_edge_peq a b p p' : peq p p' -> on_edge a b p = on_edge a b p'.
Proof.
  intros [H1 H2]. apply on_edge_ext.
  - apply orient_peq; [apply peq_refl | apply peq_refl | split; assumption].
  - unfold betw. rewrite H1. tauto.
  - intros _ _. unfold betw. rewrite H2. tauto.
Qed.

Lemma off_e_peq el p p' : peq p p' -> off_e el p -> off_e el p'.
Proof.
  intros H Hp e He. rewrite <- (on_edge_peq _ _ p p' H). apply Hp. exact He.
Qed.

(* ------------------------------------------------------------------ *)
(* 2. (R) the quarter turn                                             *)
(* ------------------------------------------------------------------ *)
Definition rot (v : point) : point := (- py v, px v).

Definition qd (xv yv xp yp : Q) : Z :=
  if negb (Qle_bool xv xp) && Qle_bool (- yv) (- yp) then 1%Z else 0%Z.
(* v is strictly right of p and not below it *)
Definition quad (p v : point) : Z := qd (px v) (py v) (px p) (py p).

Lemma quad_peq p a b : peq a b -> quad p a = quad p b.
Proof.
  intros [H1 H2]. unfold quad, qd.
  rewrite (Qle_bool_ext (px a) (px p) (px b) (px p)) by (rewrite H1; tauto).
  rewrite (Qle_bool_ext (- py a) (- py p) (- py b) (- py p)) by (rewrite H2; tauto).
  reflexivity.
Qed.

Lemma orient_rot a b p : orient (rot a) (rot b) (rot p) == orient a b p.
Proof. rewrite !orient_expand. unfold rot, px, py; cbn [fst snd]. ring. Qed.

Lemma K_abs xa ya xb yb xp yp o :
  o == (xb - xa) * (yp - ya) - (yb - ya) * (xp - xa) ->
  (o == 0 -> (xa < xp /\ xb < xp) \/ (xp < xa /\ xp < xb) \/
             (ya < yp /\ yb < yp) \/ (yp < ya /\ yp < yb)) ->
  (crq (- ya) (- yb) (- yp) o - crq xa xb xp o)%Z
  = (qd xb yb xp yp - qd xa ya xp yp)%Z.
Proof.
  intros Ho Hoff. unfold crq, qd, Qlt_bool.
  dq; cbn [andb negb]; try reflexivity; exfalso; qb;
    first [ lra | nra
          | (assert (O0 : o == 0) by lra);
            destruct (Hoff O0) as [[? ?]|[[? ?]|[[? ?]|[? ?]]]]; first [lra | nra] ].
Qed.

Lemma cr_rot_quad a b p : on_edge a b p = false ->
  (cr (rot a) (rot b) (rot p) - cr a b p = quad p b - quad p a)%Z.
Proof.
  intro H. rewrite !cr_crq.
  rewrite (crq_ext (px (rot a)) (px (rot b)) (px (rot p)) (orient (rot a) (rot b) (rot p))
                   (px (rot a)) (px (rot b)) (px (rot p)) (orient a b p))
    by (rewrite ?orient_rot; tauto).
  unfold quad. change (px (rot a)) with (- py a). change (px (rot b)) with (- py b).
  change (px (rot p)) with (- py p).
  apply K_abs.
  - apply orient_expand.
  - apply on_edge_false_inv. exact H.
Qed.

(* the rightward-ray count equals the upward-ray count *)
Theorem wn_e_rot el p : eclosed el -> off_e el p ->
  wn_e (emap rot el) (rot p) = wn_e el p.
Proof.
  intros [P HP] Hoff. rewrite wn_e_emap. unfold wn_e.
  enough (Zsum (map (fun e => cr (rot (fst e)) (rot (snd e)) (rot p)) el)
          - Zsum (map (fun e => cr (fst e) (snd e) p) el) = 0)%Z by lia.
  rewrite <- Zsum_map_sub.
  rewrite (Zsum_map_ext _ (fun e => quad p (snd e) - quad p (fst e))%Z).
  - rewrite (tele (quad p) (quad_peq p) el P P HP). lia.
  - intros e He. apply cr_rot_quad. apply Hoff. exact He.
Qed.

(* ------------------------------------------------------------------ *)
(* 3. (V) vertical moves, edge by edge                                 *)
(* ------------------------------------------------------------------ *)
Lemma crq_same_sign xa xb xp o o' :
  ((xa <= xp /\ xp < xb) \/ (xb <= xp /\ xp < xa) ->
     (o < 0 <-> o' < 0) /\ (0 < o <-> 0 < o')) ->
  crq xa xb xp o = crq xa xb xp o'.
Proof.
  intro H. unfold crq, Qlt_bool.
  dq; cbn [andb negb]; try reflexivity; exfalso; qb;
    (assert (R : (xa <= xp /\ xp < xb) \/ (xb <= xp /\ xp < xa)) by lra);
    destruct (H R) as [[? ?] [? ?]]; lra.
Qed.

(* the ordinate at which the line a-b passes the abscissa x *)
Definition ystar (a b : point) (x : Q) : Q :=
  py a + (py b - py a) * (x - px a) / (px b - px a).

Lemma orient_ystar a b x y : ~ px b - px a == 0 ->
  orient a b (x, y) == (px b - px a) * (y - ystar a b x).
Proof.
  intro D. rewrite orient_expand. unfold ystar. change (px (x, y)) with x.
  change (py (x, y)) with y. field. exact D.
Qed.

Lemma on_edge_ystar a b x : px a < px b \/ px b < px a ->
  betw (px a) (px b) x -> on_edge a b (x, ystar a b x) = true.
Proof.
  intros D X. assert (D' : ~ px b - px a == 0) by lra.
  apply on_edge_iff. change (px (x, ystar a b x)) with x.
  change (py (x, ystar a b x)) with (ystar a b x).
  split; [rewrite (orient_ystar a b x _ D'); ring|]. split; [exact X|].
  set (t := (x - px a) / (px b - px a)).
  assert (T : t * (px b - px a) == x - px a) by (unfold t; field; exact D').
  assert (Y : ystar a b x == py a + t * (py b - py a)) by (unfold ystar, t; field; exact D').
  assert (T01 : 0 <= t /\ t <= 1) by (unfold betw in X; split; nra).
  unfold betw. rewrite Y. destruct T01 as [T0 T1].
  destruct (Qlt_le_dec (py a) (py b)); [left | right]; split; nra.
Qed.

Lemma cr_vert a b x y1 y2 :
  (forall y, betw y1 y2 y -> on_edge a b (x, y) = false) ->
  cr a b (x, y1) = cr a b (x, y2).
Proof.
  intro H. rewrite !cr_crq. change (px (x, y1)) with x. change (px (x, y2)) with x.
  apply crq_same_sign. intro R.
  assert (D : px a < px b \/ px b < px a) by lra.
  assert (D' : ~ px b - px a == 0) by lra.
  assert (X : betw (px a) (px b) x) by (unfold betw; lra).
  pose proof (on_edge_ystar a b x D X) as E.
  rewrite (orient_ystar a b x y1 D'), (orient_ystar a b x y2 D').
  set (ys := ystar a b x) in *.
  assert (N : ~ betw y1 y2 ys) by (intro B; rewrite (H ys B) in E; discriminate).
  unfold betw in N.
  destruct (Qlt_le_dec ys y1); destruct (Qlt_le_dec ys y2);
  destruct (Qlt_le_dec y1 ys); destruct (Qlt_le_dec y2 ys); try (exfalso; lra);
  destruct D; split; split; intro; nra.
Qed.

Theorem wn_e_vert el x y1 y2 :
  (forall y, betw y1 y2 y -> off_e el (x, y)) ->
  wn_e el (x, y1) = wn_e el (x, y2).
Proof.
  intro H. unfold wn_e. apply Zsum_map_ext. intros e He. apply cr_vert.
  intros y B. apply (H y B). exact He.
Qed.

(* ------------------------------------------------------------------ *)
(* 4. (H) horizontal moves                                             *)
(* ------------------------------------------------------------------ *)
Lemma on_edge_rot a b r : on_edge (rot a) (rot b) (rot r) = on_edge a b r.
Proof.
  assert (B1 : betw (px (rot a)) (px (rot b)) (px (rot r)) <-> betw (py a) (py b) (py r)).
  { change (px (rot a)) with (- py a). change (px (rot b)) with (- py b).
    change (px (rot r)) with (- py r). unfold betw. split; intro; lra. }
  assert (B2 : betw (py (rot a)) (py (rot b)) (py (rot r)) <-> betw (px a) (px b) (px r)).
  { change (py (rot a)) with (px a). change (py (rot b)) with (px b).
    change (py (rot r)) with (px r). tauto. }
  destruct (on_edge a b r) eqn:E.
  - apply on_edge_iff in E. apply on_edge_iff. rewrite orient_rot. tauto.
  - destruct (on_edge (rot a) (rot b) (rot r)) eqn:E'; [|reflexivity].
    apply on_edge_iff in E'. rewrite orient_rot in E'.
    assert (on_edge a b r = true) by (apply on_edge_iff; tauto). congruence.
Qed.

Lemma in_emap f el e' : In e' (emap f el) ->
  exists e, In e el /\ e' = (f (fst e), f (snd e)).
Proof.
  unfold emap. intro H. apply in_map_iff in H. destruct H as (e & <- & He).
  exists e. split; [exact He | reflexivity].
Qed.

Theorem wn_e_horiz el x1 x2 y : eclosed el ->
  (forall x, betw x1 x2 x -> off_e el (x, y)) ->
  wn_e el (x1, y) = wn_e el (x2, y).
Proof.
  intros HC H.
  rewrite <- (wn_e_rot el (x1, y)), <- (wn_e_rot el (x2, y)); try assumption.
  2,3: apply H; unfold betw; lra.
  change (rot (x1, y)) with (- y, x1). change (rot (x2, y)) with (- y, x2).
  apply wn_e_vert. intros x B e' He'.
  destruct (in_emap rot el e' He') as (e & He & ->). cbn [fst snd].
  change (- y, x) with (rot (x, y)). rewrite on_edge_rot. apply (H x B). exact He.
Qed.

(* ------------------------------------------------------------------ *)
(* 5. (G) general moves through a shear                                *)
(* ------------------------------------------------------------------ *)
Definition shear (m : Q) (v : point) : point := (px v, py v - m * px v).

Lemma shear_peq m a b : peq a b -> peq (shear m a) (shear m b).
Proof.
  intros [H1 H2]. unfold shear, peq, px, py in *; cbn [fst snd] in *.
  rewrite H1, H2. split; reflexivity.
Qed.

Lemma orient_shear m a b p :
  orient (shear m a) (shear m b) (shear m p) == orient a b p.
Proof. rewrite !orient_expand. unfold shear, px, py; cbn [fst snd]. ring. Qed.

Lemma cr_shear m a b p : cr (shear m a) (shear m b) (shear m p) = cr a b p.
Proof.
  rewrite !cr_crq. apply crq_ext; rewrite ?orient_shear; try tauto;
    unfold shear, px; cbn [fst]; tauto.
Qed.

Lemma on_edge_line a b p : px a < px b \/ px b < px a ->
  orient a b p == 0 -> betw (px a) (px b) (px p) -> on_edge a b p = true.
Proof.
  intros D O X. destruct p as [x y]. change (px (x, y)) with x in X.
  assert (D' : ~ px b - px a == 0) by lra.
  rewrite (orient_ystar a b x y D') in O.
  rewrite (on_edge_peq a b (x, y) (x, ystar a b x)).
  - apply on_edge_ystar; assumption.
  - split; cbn [px py fst snd]; [reflexivity|]. destruct D; nra.
Qed.

Lemma on_edge_shear m a b p :
  on_edge (shear m a) (shear m b) (shear m p) = on_edge a b p.
Proof.
  apply on_edge_ext.
  - apply orient_shear.
  - unfold shear, px; cbn [fst]. tauto.
  - intros O X. pose proof O as O'. rewrite orient_shear in O'.
    change (px (shear m a)) with (px a) in X. change (px (shear m b)) with (px b) in X.
    change (px (shear m p)) with (px p) in X.
    destruct (Qlt_le_dec (px a) (px b)) as [L|L];
      [|destruct (Qlt_le_dec (px b) (px a)) as [L'|L']].
    1,2: (assert (E1 : on_edge a b p = true) by (apply on_edge_line; auto);
          assert (E2 : on_edge (shear m a) (shear m b) (shear m p) = true)
            by (apply on_edge_line; auto);
          apply on_edge_iff in E1; apply on_edge_iff in E2; tauto).
    assert (Eab : px b == px a) by lra.
    assert (Eap : px p == px a) by (unfold betw in X; lra).
    unfold shear, py; cbn [fst snd]. unfold betw. rewrite Eab, Eap.
    split; intro; lra.
Qed.

Lemma wn_e_shear m el p : wn_e (emap (shear m) el) (shear m p) = wn_e el p.
Proof.
  rewrite wn_e_emap. unfold wn_e. apply Zsum_map_ext. intros e _. apply cr_shear.
Qed.

(* the closed straight segment from p to q avoids all edges *)
Definition seg_off_e (el : list edge) (p q : point) : Prop :=
  forall t, 0 <= t -> t <= 1 -> off_e el (lerp_pt p q t).

Theorem wn_e_move el p q : eclosed el -> seg_off_e el p q -> wn_e el p = wn_e el q.
Proof.
  intros HC H. destruct p as [x1 y1], q as [x2 y2].
  destruct (Qeq_dec x1 x2) as [EX|NX].
  - (* vertical *)
    rewrite (wn_e_peq el (x2, y2) (x1, y2))
      by (split; cbn [px py fst snd]; [symmetry; exact EX | reflexivity]).
    apply wn_e_vert. intros y B.
    destruct (Qeq_dec y1 y2) as [EY|NY].
    + apply (off_e_peq el (lerp_pt (x1, y1) (x2, y2) 0)); [|apply H; lra].
      unfold lerp_pt, peq, px, py; cbn [fst snd]. unfold betw in B. split; lra.
    + set (t := (y - y1) / (y2 - y1)).
      assert (D : ~ y2 - y1 == 0) by lra.
      assert (T : t * (y2 - y1) == y - y1) by (unfold t; field; exact D).
      assert (T01 : 0 <= t /\ t <= 1) by (unfold betw in B; split; nra).
      apply (off_e_peq el (lerp_pt (x1, y1) (x2, y2) t)); [|apply H; tauto].
      unfold lerp_pt, peq, px, py; cbn [fst snd]. split; [nra | lra].
  - (* slanted: shear to a horizontal move *)
    assert (D : ~ x2 - x1 == 0) by lra.
    set (m := (y2 - y1) / (x2 - x1)).
    assert (M : m * (x2 - x1) == y2 - y1) by (unfold m; field; exact D).
    rewrite <- (wn_e_shear m el (x1, y1)), <- (wn_e_shear m el (x2, y2)).
    change (shear m (x1, y1)) with (x1, y1 - m * x1).
    rewrite (wn_e_peq _ (shear m (x2, y2)) (x2, y1 - m * x1))
      by (unfold shear, peq, px, py; cbn [fst snd]; split; [reflexivity | lra]).
    apply wn_e_horiz.
    + apply eclosed_emap; [apply shear_peq | exact HC].
    + intros x B e' He'.
      destruct (in_emap _ el e' He') as (e & He & ->). cbn [fst snd].
      set (t := (x - x1) / (x2 - x1)).
      assert (T : t * (x2 - x1) == x - x1) by (unfold t; field; exact D).
      assert (T01 : 0 <= t /\ t <= 1) by (unfold betw in B; split; nra).
      rewrite (on_edge_peq _ _ (x, y1 - m * x1) (shear m (lerp_pt (x1, y1) (x2, y2) t))).
      * rewrite on_edge_shear. apply H; tauto.
      * unfold shear, lerp_pt, peq, px, py; cbn [fst snd]. split; [lra | nra].
Qed.

(* ------------------------------------------------------------------ *)
(* 6. the theorems for chains of segments                              *)
(* ------------------------------------------------------------------ *)
Lemma on_boundary_false_iff j r :
  on_boundary j r = false <->
  forall s, In s j -> on_edge (first_pt s) (last_pt s) r = false.
Proof.
  rewrite on_boundary_off. unfold off_e, edges. split.
  - intros H s Hs. apply (H (edge_of s)). apply in_map. exact Hs.
  - intros H e He. apply in_map_iff in He. destruct He as (s & <- & Hs).
    apply H. exact Hs.
Qed.

Lemma on_boundary_peq j r r' : peq r r' -> on_boundary j r = on_boundary j r'.
Proof.
  intro H. unfold on_boundary. apply existsb_ext_in. intros s _.
  apply on_edge_peq. exact H.
Qed.

(* the closed straight segment from p to q does not meet the chain *)
Definition seg_off (j : jordan) (p q : point) : Prop :=
  forall t, 0 <= t -> t <= 1 -> on_boundary j (lerp_pt p q t) = false.

Lemma seg_off_edges j p q : seg_off j p q -> seg_off_e (edges j) p q.
Proof. intros H t T0 T1. apply on_boundary_off. apply H; assumption. Qed.

Lemma lerp_0 p q : peq (lerp_pt p q 0) p.
Proof. unfold lerp_pt, peq, px, py; cbn [fst snd]. split; ring. Qed.
Lemma lerp_1 p q : peq (lerp_pt p q 1) q.
Proof. unfold lerp_pt, peq, px, py; cbn [fst snd]. split; ring. Qed.

Lemma seg_off_start j p q : seg_off j p q -> on_boundary j p = false.
Proof.
  intro H. rewrite <- (on_boundary_peq j _ _ (lerp_0 p q)). apply H; lra.
Qed.
Lemma seg_off_end j p q : seg_off j p q -> on_boundary j q = false.
Proof.
  intro H. rewrite <- (on_boundary_peq j _ _ (lerp_1 p q)). apply H; lra.
Qed.

Lemma seg_off_sym j p q : seg_off j p q -> seg_off j q p.
Proof.
  intros H t T0 T1.
  rewrite (on_boundary_peq j _ (lerp_pt p q (1 - t))); [apply H; lra|].
  unfold lerp_pt, peq, px, py; cbn [fst snd]. split; ring.
Qed.

(* axis-parallel segments: the natural formulations imply [seg_off] *)
Lemma seg_off_vertical j p q : px p == px q ->
  (forall y, betw (py p) (py q) y -> on_boundary j (px p, y) = false) ->
  seg_off j p q.
Proof.
  intros EX H t T0 T1.
  rewrite (on_boundary_peq j _ (px p, py p + t * (py q - py p))).
  - apply H. unfold betw. destruct (Qlt_le_dec (py p) (py q)); [left | right]; split; nra.
  - unfold lerp_pt, peq; cbn [px py fst snd]. split; [nra | reflexivity].
Qed.

Lemma seg_off_horizontal j p q : py p == py q ->
  (forall x, betw (px p) (px q) x -> on_boundary j (x, py p) = false) ->
  seg_off j p q.
Proof.
  intros EY H t T0 T1.
  rewrite (on_boundary_peq j _ (px p + t * (px q - px p), py p)).
  - apply H. unfold betw. destruct (Qlt_le_dec (px p) (px q)); [left | right]; split; nra.
  - unfold lerp_pt, peq; cbn [px py fst snd]. split; [reflexivity | nra].
Qed.

(* L1: vertical moves (no closedness needed) *)
Theorem wn_lines_vertical j p q : px p == px q ->
  (forall y, betw (py p) (py q) y -> on_boundary j (px p, y) = false) ->
  wn_lines j p = wn_lines j q.
Proof.
  intros EX H. rewrite !wn_lines_edges.
  rewrite (wn_e_peq _ p (px p, py p)) by (destruct p; apply peq_refl).
  rewrite (wn_e_peq _ q (px p, py q))
    by (destruct q; split; cbn [px py fst snd] in *; [symmetry; exact EX | reflexivity]).
  apply wn_e_vert. intros y B. apply on_boundary_off. apply H. exact B.
Qed.

(* L2: horizontal moves *)
Theorem wn_lines_horizontal j p q : closed_chain j = true -> py p == py q ->
  (forall x, betw (px p) (px q) x -> on_boundary j (x, py p) = false) ->
  wn_lines j p = wn_lines j q.
Proof.
  intros HC EY H. rewrite !wn_lines_edges.
  rewrite (wn_e_peq _ p (px p, py p)) by (destruct p; apply peq_refl).
  rewrite (wn_e_peq _ q (px q, py p))
    by (destruct q; split; cbn [px py fst snd] in *; [reflexivity | symmetry; exact EY]).
  apply wn_e_horiz; [apply closed_chain_eclosed; exact HC|].
  intros x B. apply on_boundary_off. apply H. exact B.
Qed.

(* L1 / L2 with the hypothesis spelled out edge by edge and with the boolean
   [between] of Spec.v *)
Corollary wn_lines_vertical_edges j p q : px p == px q ->
  (forall s y, In s j -> between (py p) (py q) y = true ->
     on_edge (first_pt s) (last_pt s) (px p, y) = false) ->
  wn_lines j p = wn_lines j q.
Proof.
  intros EX H. apply wn_lines_vertical; [exact EX|]. intros y B.
  apply on_boundary_false_iff. intros s Hs. apply H; [exact Hs|].
  apply between_iff. exact B.
Qed.

Corollary wn_lines_horizontal_edges j p q : closed_chain j = true -> py p == py q ->
  (forall s x, In s j -> between (px p) (px q) x = true ->
     on_edge (first_pt s) (last_pt s) (x, py p) = false) ->
  wn_lines j p = wn_lines j q.
Proof.
  intros HC EY H. apply wn_lines_horizontal; [exact HC | exact EY|]. intros x B.
  apply on_boundary_false_iff. intros s Hs. apply H; [exact Hs|].
  apply between_iff. exact B.
Qed.

(* L3: arbitrary straight moves *)
Theorem wn_lines_move j p q : closed_chain j = true -> seg_off j p q ->
  wn_lines j p = wn_lines j q.
Proof.
  intros HC H. rewrite !wn_lines_edges.
  apply wn_e_move; [apply closed_chain_eclosed; exact HC | apply seg_off_edges; exact H].
Qed.

(* the upward-ray and the rightward-ray winding numbers agree *)
Lemma edges_map f j : all_lines j = true -> edges (map (map f) j) = emap f (edges j).
Proof.
  intro HL. unfold edges, emap. rewrite !map_map. apply map_ext_in. intros s Hs.
  destruct (all_lines_In j s HL Hs) as (a & b & ->). reflexivity.
Qed.

Theorem wn_lines_rot j p : all_lines j = true -> closed_chain j = true ->
  on_boundary j p = false ->
  wn_lines (map (map rot) j) (rot p) = wn_lines j p.
Proof.
  intros HL HC HB. rewrite !wn_lines_edges, (edges_map rot j HL).
  apply wn_e_rot; [apply closed_chain_eclosed; exact HC | apply on_boundary_off; exact HB].
Qed.

(* L4: regions, polylines *)
Theorem region_simple_move j p q : closed_chain j = true -> seg_off j p q ->
  region_simple j p = region_simple j q.
Proof.
  intros HC H. unfold region_simple.
  rewrite (seg_off_start j p q H), (seg_off_end j p q H), (wn_lines_move j p q HC H).
  reflexivity.
Qed.

(* consecutive points of l are joined by segments that do not meet j *)
Fixpoint poly_off (j : jordan) (l : list point) : Prop :=
  match l with
  | a :: ((b :: _) as t) => seg_off j a b /\ poly_off j t
  | _ => True
  end.

Lemma last_cons {A} (l : list A) a d : last (a :: l) d = last l a.
Proof.
  revert a d. induction l as [|b l IH]; intros a d; [reflexivity|].
  change (last (a :: b :: l) d) with (last (b :: l) d). rewrite !IH. reflexivity.
Qed.

Theorem wn_lines_polyline j : closed_chain j = true ->
  forall l p, poly_off j (p :: l) -> wn_lines j p = wn_lines j (last l p).
Proof.
  intro HC. induction l as [|a l IH]; intros p H; [reflexivity|].
  change (seg_off j p a /\ poly_off j (a :: l)) in H. destruct H as [H1 H2].
  rewrite last_cons, (wn_lines_move j p a HC H1). apply IH. exact H2.
Qed.

Theorem region_simple_polyline j : closed_chain j = true ->
  forall l p, poly_off j (p :: l) -> region_simple j p = region_simple j (last l p).
Proof.
  intro HC. induction l as [|a l IH]; intros p H; [reflexivity|].
  change (seg_off j p a /\ poly_off j (a :: l)) in H. destruct H as [H1 H2].
  rewrite last_cons, (region_simple_move j p a HC H1). apply IH. exact H2.
Qed.

(* ------------------------------------------------------------------ *)
(* 7. non-vacuity: the square of Winding.v                             *)
(* ------------------------------------------------------------------ *)
Lemma sq_interior_off r : 0 < px r -> px r < 4 -> 0 < py r -> py r < 4 ->
  on_boundary sq r = false.
Proof.
  intros X0 X4 Y0 Y4. apply on_boundary_false_iff. intros s Hs.
  destruct (on_edge (first_pt s) (last_pt s) r) eqn:E; [exfalso | reflexivity].
  apply on_edge_iff in E. destruct E as (_ & BX & BY). unfold betw in BX, BY.
  unfold sq in Hs. cbn [In] in Hs.
  repeat match goal with H : _ \/ _ |- _ => destruct H as [H|H] end;
    try contradiction; subst s; cbn [first_pt last_pt hd last px py fst snd] in BX, BY; lra.
Qed.

Example sq_seg_off : seg_off sq (1, 1) (3, 2).
Proof.
  intros t T0 T1. apply sq_interior_off; unfold lerp_pt; cbn [px py fst snd]; lra.
Qed.

Example sq_move : wn_lines sq (1, 1) = wn_lines sq (3, 2) /\
                  region_simple sq (3, 2) = RIn.
Proof.
  split; [apply wn_lines_move; [reflexivity | exact sq_seg_off]|].
  rewrite <- (region_simple_move sq (1, 1) (3, 2) eq_refl sq_seg_off). reflexivity.
Qed.

Print Assumptions wn_e_rot.
Print Assumptions wn_lines_vertical.
Print Assumptions wn_lines_horizontal.
Print Assumptions wn_lines_vertical_edges.
Print Assumptions wn_lines_horizontal_edges.
Print Assumptions wn_e_move.
Print Assumptions wn_lines_move.
Print Assumptions wn_lines_rot.
Print Assumptions region_simple_move.
Print Assumptions wn_lines_polyline.
Print Assumptions region_simple_polyline.
Print Assumptions sq_move.
