(* SplitCurved.v -- splitting CURVED Bezier segments changes no boundary integral
   (C15 beyond straight segments), in the range where the quadrature of
   IntegratePlanar.vertical is exact (Lemmas/QuadCurved.v).

   What the model's split does to a segment (Model/Bezier.v, Model/Jordan.v):
     split_at u s        de Casteljau at u: two pieces with as many control points as s
     split_many ts s     successive cuts at t1, t2, ... of the ORIGINAL parametrisation,
                         then [map pred_] on every piece: pred_ = Qred on both coordinates,
                         a change of REPRESENTATION only (peq (pred_ p) p)
     split_segment       additionally [map seg_clean]: seg_clean lowers the degree of a piece
                         as long as its top forward difference is exactly zero
                         ([reducible]); the piece then has FEWER control points, so
                         [vertical] uses fewer nodes on it
     Jordan.split        [set_segments] = [map seg_clean] on ALL segments of the result,
                         the untouched ones included.
   Neither is assumed away: pred_ is handled by congruence (eval respects == of the
   control points) and seg_clean by the theorem [reduce_once_retraces] below -- a
   reducible segment and its reduction are the same polynomial curve -- together
   with the monotonicity of the exactness condition in the degree.

   Range: 2..7 control points (degree 1..6, the range of the retrace lemmas of
   BezierFacts) and exponents with exact quadrature: [exact_deg d ex ey].  Since the
   repair of F29 (vertical_nodes = max(3+ex+ey+d, d*(ex+ey+1))) that is EVERY exponent
   pair whose node count stays within the 19-node table; before, it was
   (d-1)*(ex+ey) <= 3 only, and outside that range a split changed the computed
   integrals: those findings are kept in section 8 as regression examples of the old
   rule (QuadCurved.vertical_old), paired with the repaired values. *)
From Coq Require Import QArith Lqa Lia List Sorted.
From SV Require Import Model.Shape Spec.Spec.
From SV Require Import Lemmas.BezierFacts Lemmas.Quadrature Lemmas.Lines Lemmas.SplitClean
                       Lemmas.Construct Lemmas.Measure Lemmas.QuadCurved Lemmas.Equivariance.
Import ListNotations.
Open Scope Q_scope.

(* ------------------------------------------------------------------ *)
(* 0. small facts                                                      *)
(* ------------------------------------------------------------------ *)
Lemma px_pscale : forall k p, px (pscale k p) = k * px p.
Proof. reflexivity. Qed.
Lemma py_pscale : forall k p, py (pscale k p) = k * py p.
Proof. reflexivity. Qed.
Lemma px_padd : forall p q, px (padd p q) = px p + px q.
Proof. reflexivity. Qed.
Lemma py_padd : forall p q, py (padd p q) = py p + py q.
Proof. reflexivity. Qed.

(* evaluation respects == of the parameter: every segment *)
Lemma eval_wd : forall s t t', t == t' -> peq (eval s t) (eval s t').
Proof.
  intros s t t' H. split; [rewrite !eval_px_poly|rewrite !eval_py_poly]; apply peval_wd, H.
Qed.

(* evaluation of a segment and of its derivative respect == of the control points *)
Lemma eval_peq1 : forall p p' t, peq p p' -> peq (eval [p] t) (eval [p'] t).
Proof.
  intros [a b] [a' b'] t [H1 H2]. unfold px, py in *. cbn [fst snd] in *.
  qcbv. split; rewrite ?H1, ?H2; reflexivity.
Qed.
Lemma eval_derivate_peq : forall s s' t, (2 <= length s <= 7)%nat -> Forall2 peq s s' ->
  peq (eval (derivate s) t) (eval (derivate s') t).
Proof.
  intros s s' t H F. seg_cases s H; inv_forall2; peq_hyps; qcbv; split; rew_all; reflexivity.
Qed.
Lemma Forall2_pred : forall s, Forall2 peq (map pred_ s) s.
Proof. induction s; cbn [map]; constructor; [apply SplitClean.pred_peq|assumption]. Qed.
Lemma Forall2_peq_length : forall s s', Forall2 peq s s' -> length s = length s'.
Proof. intros s s' H. induction H; cbn [length]; congruence. Qed.

(* ------------------------------------------------------------------ *)
(* 1. the exactness range of the quadrature                            *)
(* ------------------------------------------------------------------ *)
(* since the repair of F29 the rule has n = vertical_nodes d ex ey =
   max(3+ex+ey+d, d*(ex+ey+1)) nodes for the d*(ex+ey)+d coefficients of the integrand: it
   is exact as soon as n is within the 19-node table (QuadCurved, section 5) *)
Definition exact_deg (d ex ey : nat) : Prop :=
  (1 <= d)%nat /\ (vertical_nodes d ex ey <= 19)%nat.

(* the range that was exact before the repair *)
Lemma exact_deg_plain : forall d ex ey, (1 <= d)%nat -> ((d - 1) * (ex + ey) <= 3)%nat ->
  (3 + ex + ey + d <= 19)%nat -> exact_deg d ex ey.
Proof.
  intros d ex ey Hd H Hn. split; [exact Hd|].
  rewrite (vertical_nodes_old' _ _ _ Hd H). exact Hn.
Qed.
Lemma exact_deg_area : forall d, (1 <= d <= 9)%nat -> exact_deg d 1 0.
Proof. intros d H. split; [lia|]. unfold vertical_nodes. lia. Qed.
Lemma exact_deg_line : forall ex ey, (ex + ey + 4 <= 19)%nat -> exact_deg 1 ex ey.
Proof. intros ex ey H. split; [lia|]. rewrite vertical_nodes_line. exact H. Qed.
Lemma exact_deg_cubic : forall d ex ey, (1 <= d <= 3)%nat -> (ex + ey <= 5)%nat ->
  exact_deg d ex ey.
Proof. intros d ex ey H He. split; [lia|]. unfold vertical_nodes. nia. Qed.
Lemma exact_deg_quadratic : forall d ex ey, (1 <= d <= 2)%nat -> (ex + ey <= 8)%nat ->
  exact_deg d ex ey.
Proof. intros d ex ey H He. split; [lia|]. unfold vertical_nodes. nia. Qed.

(* the condition only gets weaker when the degree drops: fewer nodes are asked for *)
Lemma exact_deg_mono : forall d d' ex ey, exact_deg d ex ey -> (1 <= d' <= d)%nat ->
  exact_deg d' ex ey.
Proof.
  intros d d' ex ey (Hd & Hn) Hd'. split; [lia|].
  pose proof (vertical_nodes_mono d d' ex ey ltac:(lia)). lia.
Qed.

Lemma exact_deg_degree : forall d ex ey, exact_deg d ex ey -> (1 <= d <= 16)%nat.
Proof. intros d ex ey (Hd & Hn). pose proof (vertical_nodes_degree d ex ey Hn). lia. Qed.

(* d*(ex+ey+1) <= 19 and 3+ex+ey+d <= 19: the product is not the prime 19 *)
Lemma exact_deg_length : forall d ex ey, exact_deg d ex ey -> (d * (ex + ey) + d <= 18)%nat.
Proof.
  intros d ex ey H. pose proof (exact_deg_degree _ _ _ H) as Hd16. destruct H as (Hd & Hn).
  pose proof (vertical_nodes_ge d ex ey) as [G1 G2].
  remember (ex + ey)%nat as e eqn:Ee.
  assert (H1 : (3 + e + d <= 19)%nat) by lia.
  assert (H2 : (d * e + d <= 19)%nat) by lia.
  clear G1 G2 Hn Ee.
  do 17 (destruct d as [|d]; [lia|]). lia.
Qed.

Theorem vertical_exact : forall s ex ey, exact_deg (degree s) ex ey ->
  vertical s ex ey == pint01 (curved_integrand s ex ey).
Proof. intros s ex ey (Hd & Hn). apply vertical_curved_exact; assumption. Qed.

Lemma exact_deg_integrand : forall s ex ey, exact_deg (degree s) ex ey ->
  (length (curved_integrand s ex ey) <= 18)%nat.
Proof.
  intros s ex ey H. pose proof (exact_deg_length _ _ _ H) as L. destruct H as (Hd & _).
  pose proof (length_curved_integrand s ex ey Hd). lia.
Qed.

(* Measure.pint01_affine with the bound on p that its proof needs (18 instead of 17): the
   composed antiderivative has length p + 2 coefficients, its derivative length p + 1 <= 19 *)
Lemma pint01_affine18 : forall p q u v,
  (length p <= 18)%nat -> (length q <= 19)%nat ->
  (forall x, peval q x == (v - u) * peval p (u + x * (v - u))) ->
  pint01 q == peval (pantider p) v - peval (pantider p) u.
Proof.
  intros p q u v Hp Hq H.
  set (Hc := pcomp (pantider p) [u; v - u]).
  assert (HL : (length (pderiv Hc) <= 19)%nat).
  { rewrite Measure.length_pderiv. unfold Hc.
    pose proof (length_pcomp_line (pantider p) u (v - u)) as L.
    rewrite length_pantider in L. lia. }
  rewrite (pint01_values q (pderiv Hc) Hq HL).
  - rewrite pint01_pderiv. unfold Hc. rewrite !peval_pcomp. cbn [peval].
    apply Qplus_comp; [|apply Qopp_comp]; apply peval_wd; ring.
  - intro x. rewrite H, peval_pderiv. unfold Hc. rewrite pdev_pcomp, pdev_pantider.
    cbn [pdev peval]. setoid_replace (u + x * (v - u + x * 0)) with (u + x * (v - u)) by ring.
    ring.
Qed.

(* ------------------------------------------------------------------ *)
(* 2. "q is the part of s between the parameters u and v"              *)
(* ------------------------------------------------------------------ *)
(* position and velocity: q(x) = s(u + x(v-u)), q'(x) = (v-u) s'(u + x(v-u)) *)
Definition retraces (q s : seg) (u v : Q) : Prop :=
  forall x, peq (eval q x) (eval s (u + x * (v - u))) /\
            peq (eval (derivate q) x) (pscale (v - u) (eval (derivate s) (u + x * (v - u)))).

Lemma retraces_wd : forall q s u v u' v', u == u' -> v == v' ->
  retraces q s u v -> retraces q s u' v'.
Proof.
  intros q s u v u' v' Hu Hv H x. destruct (H x) as [[A1 A2] [B1 B2]].
  assert (E : u + x * (v - u) == u' + x * (v' - u')) by (rewrite Hu, Hv; reflexivity).
  destruct (eval_wd s _ _ E) as [E1 E2]. destruct (eval_wd (derivate s) _ _ E) as [E3 E4].
  repeat split; rewrite ?px_pscale, ?py_pscale in *.
  - rewrite A1. exact E1.
  - rewrite A2. exact E2.
  - rewrite B1, E3, Hu, Hv. reflexivity.
  - rewrite B2, E4, Hu, Hv. reflexivity.
Qed.

Lemma retraces_refl : forall s, retraces s s 0 1.
Proof.
  intros s x. assert (E : x == 0 + x * (1 - 0)) by ring.
  destruct (eval_wd s _ _ E) as [E1 E2]. destruct (eval_wd (derivate s) _ _ E) as [E3 E4].
  repeat split; rewrite ?px_pscale, ?py_pscale; try assumption.
  - rewrite <- E3. ring.
  - rewrite <- E4. ring.
Qed.

Lemma retraces_trans : forall q r s a b u v, retraces q r a b -> retraces r s u v ->
  retraces q s (u + a * (v - u)) (u + b * (v - u)).
Proof.
  intros q r s a b u v H1 H2 x.
  destruct (H1 x) as [[A1 A2] [B1 B2]]. destruct (H2 (a + x * (b - a))) as [[C1 C2] [D1 D2]].
  assert (E : u + (a + x * (b - a)) * (v - u) ==
              (u + a * (v - u)) + x * ((u + b * (v - u)) - (u + a * (v - u)))) by ring.
  destruct (eval_wd s _ _ E) as [E1 E2]. destruct (eval_wd (derivate s) _ _ E) as [E3 E4].
  rewrite ?px_pscale, ?py_pscale in *.
  repeat split; rewrite ?px_pscale, ?py_pscale.
  - rewrite A1, C1. exact E1.
  - rewrite A2, C2. exact E2.
  - rewrite B1, D1, E3. ring.
  - rewrite B2, D2, E4. ring.
Qed.

(* the control points only matter up to == *)
Lemma retraces_peq : forall q q' s u v, (2 <= length q <= 7)%nat -> Forall2 peq q' q ->
  retraces q s u v -> retraces q' s u v.
Proof.
  intros q q' s u v Hl F H x. destruct (H x) as [A B].
  pose proof (Forall2_peq_length _ _ F) as L.
  split.
  - eapply peq_trans; [|exact A]. apply eval_peq; [lia|exact F].
  - eapply peq_trans; [|exact B]. apply eval_derivate_peq; [lia|exact F].
Qed.

(* ------------------------------------------------------------------ *)
(* 3. the integral over a part is an increment of ONE antiderivative   *)
(* ------------------------------------------------------------------ *)
Definition prim (s : seg) (ex ey : nat) (x : Q) : Q :=
  peval (pantider (curved_integrand s ex ey)) x.

Lemma integrand_retraces : forall q s u v ex ey x,
  (1 <= degree q <= 16)%nat -> (1 <= degree s <= 16)%nat -> retraces q s u v ->
  peval (curved_integrand q ex ey) x ==
  (v - u) * peval (curved_integrand s ex ey) (u + x * (v - u)).
Proof.
  intros q s u v ex ey x Hq Hs H. unfold curved_integrand.
  rewrite !peval_mul, !peval_pow.
  rewrite <- !eval_px_poly, <- !eval_py_poly.
  rewrite <- (eval_derivate_py_poly q x Hq), <- (eval_derivate_py_poly s _ Hs).
  destruct (H x) as [[A1 A2] [_ B2]]. rewrite py_pscale in B2.
  rewrite A1, A2, B2. ring.
Qed.

Theorem vertical_part : forall q s u v ex ey,
  retraces q s u v -> exact_deg (degree q) ex ey -> exact_deg (degree s) ex ey ->
  vertical q ex ey == prim s ex ey v - prim s ex ey u.
Proof.
  intros q s u v ex ey H Hq Hs. rewrite (vertical_exact q ex ey Hq). unfold prim.
  pose proof (exact_deg_integrand q ex ey Hq). pose proof (exact_deg_integrand s ex ey Hs).
  apply pint01_affine18; [lia|lia|].
  intro x. apply integrand_retraces; [| |exact H].
  - exact (exact_deg_degree _ _ _ Hq).
  - exact (exact_deg_degree _ _ _ Hs).
Qed.

Lemma vertical_whole : forall s ex ey, exact_deg (degree s) ex ey ->
  vertical s ex ey == prim s ex ey 1 - prim s ex ey 0.
Proof. intros s ex ey H. apply vertical_part; [apply retraces_refl|exact H|exact H]. Qed.

(* two parts that retrace the same polynomial curve over the same parameter range carry the
   same integral, whatever their degrees *)
Corollary vertical_same_part : forall q q' s u v ex ey,
  retraces q s u v -> retraces q' s u v ->
  exact_deg (degree q) ex ey -> exact_deg (degree q') ex ey -> exact_deg (degree s) ex ey ->
  vertical q ex ey == vertical q' ex ey.
Proof.
  intros q q' s u v ex ey H H' Hq Hq' Hs.
  rewrite (vertical_part q s u v ex ey H Hq Hs), (vertical_part q' s u v ex ey H' Hq' Hs).
  reflexivity.
Qed.

(* ------------------------------------------------------------------ *)
(* 4. de Casteljau: both pieces retrace their part, velocity included  *)
(* ------------------------------------------------------------------ *)
(* the chain rule for the pieces, degree by degree (as BezierFacts.split_left_d) *)
Lemma dsplit_left_1 : forall x0 y0 x1 y1 u x,
  peq (eval (derivate (fst (split_at u [(x0,y0);(x1,y1)]))) x)
      (pscale u (eval (derivate [(x0,y0);(x1,y1)]) (u * x))).
Proof. intros. qcbv. split; ring. Qed.
Lemma dsplit_right_1 : forall x0 y0 x1 y1 u x,
  peq (eval (derivate (snd (split_at u [(x0,y0);(x1,y1)]))) x)
      (pscale (1 - u) (eval (derivate [(x0,y0);(x1,y1)]) (u + (1 - u) * x))).
Proof. intros. qcbv. split; ring. Qed.
Lemma dsplit_left_2 : forall x0 y0 x1 y1 x2 y2 u x,
  peq (eval (derivate (fst (split_at u [(x0,y0);(x1,y1);(x2,y2)]))) x)
      (pscale u (eval (derivate [(x0,y0);(x1,y1);(x2,y2)]) (u * x))).
Proof. intros. qcbv. split; ring. Qed.
Lemma dsplit_right_2 : forall x0 y0 x1 y1 x2 y2 u x,
  peq (eval (derivate (snd (split_at u [(x0,y0);(x1,y1);(x2,y2)]))) x)
      (pscale (1 - u) (eval (derivate [(x0,y0);(x1,y1);(x2,y2)]) (u + (1 - u) * x))).
Proof. intros. qcbv. split; ring. Qed.
Lemma dsplit_left_3 : forall x0 y0 x1 y1 x2 y2 x3 y3 u x,
  peq (eval (derivate (fst (split_at u [(x0,y0);(x1,y1);(x2,y2);(x3,y3)]))) x)
      (pscale u (eval (derivate [(x0,y0);(x1,y1);(x2,y2);(x3,y3)]) (u * x))).
Proof. intros. qcbv. split; ring. Qed.
Lemma dsplit_right_3 : forall x0 y0 x1 y1 x2 y2 x3 y3 u x,
  peq (eval (derivate (snd (split_at u [(x0,y0);(x1,y1);(x2,y2);(x3,y3)]))) x)
      (pscale (1 - u) (eval (derivate [(x0,y0);(x1,y1);(x2,y2);(x3,y3)]) (u + (1 - u) * x))).
Proof. intros. qcbv. split; ring. Qed.
Lemma dsplit_left_4 : forall x0 y0 x1 y1 x2 y2 x3 y3 x4 y4 u x,
  peq (eval (derivate (fst (split_at u [(x0,y0);(x1,y1);(x2,y2);(x3,y3);(x4,y4)]))) x)
      (pscale u (eval (derivate [(x0,y0);(x1,y1);(x2,y2);(x3,y3);(x4,y4)]) (u * x))).
Proof. intros. qcbv. split; ring. Qed.
Lemma dsplit_right_4 : forall x0 y0 x1 y1 x2 y2 x3 y3 x4 y4 u x,
  peq (eval (derivate (snd (split_at u [(x0,y0);(x1,y1);(x2,y2);(x3,y3);(x4,y4)]))) x)
      (pscale (1 - u) (eval (derivate [(x0,y0);(x1,y1);(x2,y2);(x3,y3);(x4,y4)]) (u + (1 - u) * x))).
Proof. intros. qcbv. split; ring. Qed.
Lemma dsplit_left_5 : forall x0 y0 x1 y1 x2 y2 x3 y3 x4 y4 x5 y5 u x,
  peq (eval (derivate (fst (split_at u [(x0,y0);(x1,y1);(x2,y2);(x3,y3);(x4,y4);(x5,y5)]))) x)
      (pscale u (eval (derivate [(x0,y0);(x1,y1);(x2,y2);(x3,y3);(x4,y4);(x5,y5)]) (u * x))).
Proof. intros. qcbv. split; ring. Qed.
Lemma dsplit_right_5 : forall x0 y0 x1 y1 x2 y2 x3 y3 x4 y4 x5 y5 u x,
  peq (eval (derivate (snd (split_at u [(x0,y0);(x1,y1);(x2,y2);(x3,y3);(x4,y4);(x5,y5)]))) x)
      (pscale (1 - u) (eval (derivate [(x0,y0);(x1,y1);(x2,y2);(x3,y3);(x4,y4);(x5,y5)]) (u + (1 - u) * x))).
Proof. intros. qcbv. split; ring. Qed.
Lemma dsplit_left_6 : forall x0 y0 x1 y1 x2 y2 x3 y3 x4 y4 x5 y5 x6 y6 u x,
  peq (eval (derivate (fst (split_at u [(x0,y0);(x1,y1);(x2,y2);(x3,y3);(x4,y4);(x5,y5);(x6,y6)]))) x)
      (pscale u (eval (derivate [(x0,y0);(x1,y1);(x2,y2);(x3,y3);(x4,y4);(x5,y5);(x6,y6)]) (u * x))).
Proof. intros. qcbv. split; ring. Qed.
Lemma dsplit_right_6 : forall x0 y0 x1 y1 x2 y2 x3 y3 x4 y4 x5 y5 x6 y6 u x,
  peq (eval (derivate (snd (split_at u [(x0,y0);(x1,y1);(x2,y2);(x3,y3);(x4,y4);(x5,y5);(x6,y6)]))) x)
      (pscale (1 - u) (eval (derivate [(x0,y0);(x1,y1);(x2,y2);(x3,y3);(x4,y4);(x5,y5);(x6,y6)]) (u + (1 - u) * x))).
Proof. intros. qcbv. split; ring. Qed.

Theorem dsplit_left_le6 : forall s u x, (2 <= length s <= 7)%nat ->
  peq (eval (derivate (fst (split_at u s))) x) (pscale u (eval (derivate s) (u * x))).
Proof.
  intros s u x H. seg_cases s H;
  [ apply dsplit_left_1 | apply dsplit_left_2 | apply dsplit_left_3
  | apply dsplit_left_4 | apply dsplit_left_5 | apply dsplit_left_6 ].
Qed.
Theorem dsplit_right_le6 : forall s u x, (2 <= length s <= 7)%nat ->
  peq (eval (derivate (snd (split_at u s))) x)
      (pscale (1 - u) (eval (derivate s) (u + (1 - u) * x))).
Proof.
  intros s u x H. seg_cases s H;
  [ apply dsplit_right_1 | apply dsplit_right_2 | apply dsplit_right_3
  | apply dsplit_right_4 | apply dsplit_right_5 | apply dsplit_right_6 ].
Qed.

(* any parameter u, inside [0,1] or not *)
Theorem split_at_retraces : forall s u, (2 <= length s <= 7)%nat ->
  retraces (fst (split_at u s)) s 0 u /\ retraces (snd (split_at u s)) s u 1.
Proof.
  intros s u H. split; intro x.
  - assert (E : u * x == 0 + x * (u - 0)) by ring.
    destruct (eval_wd s _ _ E) as [E1 E2]. destruct (eval_wd (derivate s) _ _ E) as [E3 E4].
    destruct (split_left_le6 s u x H) as [A1 A2]. destruct (dsplit_left_le6 s u x H) as [B1 B2].
    rewrite ?px_pscale, ?py_pscale in *.
    repeat split; rewrite ?px_pscale, ?py_pscale.
    + rewrite A1. exact E1.
    + rewrite A2. exact E2.
    + rewrite B1, E3. ring.
    + rewrite B2, E4. ring.
  - assert (E : u + (1 - u) * x == u + x * (1 - u)) by ring.
    destruct (eval_wd s _ _ E) as [E1 E2]. destruct (eval_wd (derivate s) _ _ E) as [E3 E4].
    destruct (split_right_le6 s u x H) as [A1 A2]. destruct (dsplit_right_le6 s u x H) as [B1 B2].
    rewrite ?px_pscale, ?py_pscale in *.
    repeat split; rewrite ?px_pscale, ?py_pscale.
    + rewrite A1. exact E1.
    + rewrite A2. exact E2.
    + rewrite B1, E3. reflexivity.
    + rewrite B2, E4. reflexivity.
Qed.

Lemma degree_length : forall s s', length s = length s' -> degree s = degree s'.
Proof. intros s s' H. unfold degree. rewrite H. reflexivity. Qed.

(* ONE CUT, raw de Casteljau pieces *)
Theorem split_at_vertical : forall s u ex ey, (2 <= length s <= 7)%nat ->
  exact_deg (degree s) ex ey ->
  vertical (fst (split_at u s)) ex ey + vertical (snd (split_at u s)) ex ey == vertical s ex ey.
Proof.
  intros s u ex ey Hl He.
  destruct (split_at_retraces s u Hl) as [Rl Rr].
  destruct (split_at_length u s) as [Ll Lr].
  rewrite (vertical_part _ s 0 u ex ey Rl) by (rewrite ?(degree_length _ _ Ll); exact He).
  rewrite (vertical_part _ s u 1 ex ey Rr) by (rewrite ?(degree_length _ _ Lr); exact He).
  rewrite (vertical_whole s ex ey He). ring.
Qed.

(* the same with the hypotheses of QuadCurved.vertical_curved_exact' *)
Corollary split_at_vertical' : forall s u l r ex ey, (1 <= degree s <= 6)%nat ->
  ((degree s - 1) * (ex + ey) <= 3)%nat -> (3 + ex + ey + degree s <= 19)%nat ->
  split_at u s = (l, r) ->
  length l = length s /\ length r = length s /\
  vertical l ex ey + vertical r ex ey == vertical s ex ey.
Proof.
  intros s u l r ex ey Hd H Hn E.
  destruct (split_at_length u s) as [Ll Lr].
  pose proof (split_at_vertical s u ex ey) as V. rewrite E in Ll, Lr, V. cbn [fst snd] in *.
  split; [exact Ll|]. split; [exact Lr|]. apply V.
  - unfold degree in Hd. lia.
  - apply exact_deg_plain; [lia|exact H|exact Hn].
Qed.
(* area: degrees 1..6 (the range of the retrace lemmas; the quadrature itself allows 9) *)
Corollary split_at_area : forall s u, (1 <= degree s <= 6)%nat ->
  vertical (fst (split_at u s)) 1 0 + vertical (snd (split_at u s)) 1 0 == vertical s 1 0.
Proof.
  intros s u Hd. apply split_at_vertical; [unfold degree in Hd; lia|apply exact_deg_area; lia].
Qed.
(* cubics: every exponent pair with ex + ey <= 5 *)
Corollary split_at_cubic : forall s u ex ey, (1 <= degree s <= 3)%nat -> (ex + ey <= 5)%nat ->
  vertical (fst (split_at u s)) ex ey + vertical (snd (split_at u s)) ex ey == vertical s ex ey.
Proof.
  intros s u ex ey Hd He. apply split_at_vertical; [unfold degree in Hd; lia|].
  apply exact_deg_cubic; assumption.
Qed.

(* ------------------------------------------------------------------ *)
(* 5. exact degree reduction (BezierCurve.clean) keeps the curve       *)
(* ------------------------------------------------------------------ *)
(* reduce_once without the final Qred of the coordinates *)
Definition reduce_raw (s : seg) : seg :=
  match s with
  | P0 :: t => removelast (P0 :: reduce_from (degree s) 1 P0 t) ++ [last_pt s]
  | [] => []
  end.
Lemma reduce_once_raw : forall s, reduce_once s = map pred_ (reduce_raw s).
Proof. intros [|P0 t]; reflexivity. Qed.

(* for ANY segment of degree d the reduction differs from the segment by
   (t^(d-1) - t^d) * (top forward difference); reducible = that difference is 0 *)
Lemma reduce_eval_2 : forall x0 y0 x1 y1 x2 y2 t,
  peq (eval (reduce_raw [(x0,y0);(x1,y1);(x2,y2)]) t)
      (padd (eval [(x0,y0);(x1,y1);(x2,y2)] t)
            (pscale (Qpow t 1 - Qpow t 2) (hd pzero (fwd_diff 2 [(x0,y0);(x1,y1);(x2,y2)])))).
Proof. intros. qcbv. split; field. Qed.
Lemma reduce_deval_2 : forall x0 y0 x1 y1 x2 y2 t,
  peq (eval (derivate (reduce_raw [(x0,y0);(x1,y1);(x2,y2)])) t)
      (padd (eval (derivate [(x0,y0);(x1,y1);(x2,y2)]) t)
            (pscale (nQ 1 * Qpow t 0 - nQ 2 * Qpow t 1) (hd pzero (fwd_diff 2 [(x0,y0);(x1,y1);(x2,y2)])))).
Proof. intros. qcbv. split; field. Qed.
Lemma reduce_eval_3 : forall x0 y0 x1 y1 x2 y2 x3 y3 t,
  peq (eval (reduce_raw [(x0,y0);(x1,y1);(x2,y2);(x3,y3)]) t)
      (padd (eval [(x0,y0);(x1,y1);(x2,y2);(x3,y3)] t)
            (pscale (Qpow t 2 - Qpow t 3) (hd pzero (fwd_diff 3 [(x0,y0);(x1,y1);(x2,y2);(x3,y3)])))).
Proof. intros. qcbv. split; field. Qed.
Lemma reduce_deval_3 : forall x0 y0 x1 y1 x2 y2 x3 y3 t,
  peq (eval (derivate (reduce_raw [(x0,y0);(x1,y1);(x2,y2);(x3,y3)])) t)
      (padd (eval (derivate [(x0,y0);(x1,y1);(x2,y2);(x3,y3)]) t)
            (pscale (nQ 2 * Qpow t 1 - nQ 3 * Qpow t 2) (hd pzero (fwd_diff 3 [(x0,y0);(x1,y1);(x2,y2);(x3,y3)])))).
Proof. intros. qcbv. split; field. Qed.
Lemma reduce_eval_4 : forall x0 y0 x1 y1 x2 y2 x3 y3 x4 y4 t,
  peq (eval (reduce_raw [(x0,y0);(x1,y1);(x2,y2);(x3,y3);(x4,y4)]) t)
      (padd (eval [(x0,y0);(x1,y1);(x2,y2);(x3,y3);(x4,y4)] t)
            (pscale (Qpow t 3 - Qpow t 4) (hd pzero (fwd_diff 4 [(x0,y0);(x1,y1);(x2,y2);(x3,y3);(x4,y4)])))).
Proof. intros. qcbv. split; field. Qed.
Lemma reduce_deval_4 : forall x0 y0 x1 y1 x2 y2 x3 y3 x4 y4 t,
  peq (eval (derivate (reduce_raw [(x0,y0);(x1,y1);(x2,y2);(x3,y3);(x4,y4)])) t)
      (padd (eval (derivate [(x0,y0);(x1,y1);(x2,y2);(x3,y3);(x4,y4)]) t)
            (pscale (nQ 3 * Qpow t 2 - nQ 4 * Qpow t 3) (hd pzero (fwd_diff 4 [(x0,y0);(x1,y1);(x2,y2);(x3,y3);(x4,y4)])))).
Proof. intros. qcbv. split; field. Qed.
Lemma reduce_eval_5 : forall x0 y0 x1 y1 x2 y2 x3 y3 x4 y4 x5 y5 t,
  peq (eval (reduce_raw [(x0,y0);(x1,y1);(x2,y2);(x3,y3);(x4,y4);(x5,y5)]) t)
      (padd (eval [(x0,y0);(x1,y1);(x2,y2);(x3,y3);(x4,y4);(x5,y5)] t)
            (pscale (Qpow t 4 - Qpow t 5) (hd pzero (fwd_diff 5 [(x0,y0);(x1,y1);(x2,y2);(x3,y3);(x4,y4);(x5,y5)])))).
Proof. intros. qcbv. split; field. Qed.
Lemma reduce_deval_5 : forall x0 y0 x1 y1 x2 y2 x3 y3 x4 y4 x5 y5 t,
  peq (eval (derivate (reduce_raw [(x0,y0);(x1,y1);(x2,y2);(x3,y3);(x4,y4);(x5,y5)])) t)
      (padd (eval (derivate [(x0,y0);(x1,y1);(x2,y2);(x3,y3);(x4,y4);(x5,y5)]) t)
            (pscale (nQ 4 * Qpow t 3 - nQ 5 * Qpow t 4) (hd pzero (fwd_diff 5 [(x0,y0);(x1,y1);(x2,y2);(x3,y3);(x4,y4);(x5,y5)])))).
Proof. intros. qcbv. split; field. Qed.
Lemma reduce_eval_6 : forall x0 y0 x1 y1 x2 y2 x3 y3 x4 y4 x5 y5 x6 y6 t,
  peq (eval (reduce_raw [(x0,y0);(x1,y1);(x2,y2);(x3,y3);(x4,y4);(x5,y5);(x6,y6)]) t)
      (padd (eval [(x0,y0);(x1,y1);(x2,y2);(x3,y3);(x4,y4);(x5,y5);(x6,y6)] t)
            (pscale (Qpow t 5 - Qpow t 6) (hd pzero (fwd_diff 6 [(x0,y0);(x1,y1);(x2,y2);(x3,y3);(x4,y4);(x5,y5);(x6,y6)])))).
Proof. intros. qcbv. split; field. Qed.
Lemma reduce_deval_6 : forall x0 y0 x1 y1 x2 y2 x3 y3 x4 y4 x5 y5 x6 y6 t,
  peq (eval (derivate (reduce_raw [(x0,y0);(x1,y1);(x2,y2);(x3,y3);(x4,y4);(x5,y5);(x6,y6)])) t)
      (padd (eval (derivate [(x0,y0);(x1,y1);(x2,y2);(x3,y3);(x4,y4);(x5,y5);(x6,y6)]) t)
            (pscale (nQ 5 * Qpow t 4 - nQ 6 * Qpow t 5) (hd pzero (fwd_diff 6 [(x0,y0);(x1,y1);(x2,y2);(x3,y3);(x4,y4);(x5,y5);(x6,y6)])))).
Proof. intros. qcbv. split; field. Qed.

Lemma reducible_hd : forall s, reducible s = true ->
  peq (hd pzero (fwd_diff (degree s) s)) pzero.
Proof.
  intros s R. unfold reducible in R. apply andb_prop in R. destruct R as [_ R].
  destruct (fwd_diff (degree s) s) as [|D L]; [apply peq_refl|].
  cbn [forallb] in R. apply andb_prop in R. destruct R as [R _].
  cbn [hd]. apply SplitClean.peqb_peq. exact R.
Qed.

Lemma retraces_perturb : forall q s (C C' : Q -> Q) D, peq D pzero ->
  (forall t, peq (eval q t) (padd (eval s t) (pscale (C t) D))) ->
  (forall t, peq (eval (derivate q) t) (padd (eval (derivate s) t) (pscale (C' t) D))) ->
  retraces q s 0 1.
Proof.
  intros q s C C' D [Z1 Z2] H H' x. assert (E : x == 0 + x * (1 - 0)) by ring.
  destruct (eval_wd s _ _ E) as [E1 E2]. destruct (eval_wd (derivate s) _ _ E) as [E3 E4].
  destruct (H x) as [A1 A2]. destruct (H' x) as [B1 B2].
  cbn [pzero px py fst snd] in Z1, Z2.
  rewrite ?px_padd, ?py_padd, ?px_pscale, ?py_pscale in *.
  change (fst D) with (px D) in Z1. change (snd D) with (py D) in Z2.
  repeat split; rewrite ?px_pscale, ?py_pscale.
  - rewrite A1, Z1, <- E1. ring.
  - rewrite A2, Z2, <- E2. ring.
  - rewrite B1, Z1, <- E3. ring.
  - rewrite B2, Z2, <- E4. ring.
Qed.

Theorem reduce_raw_retraces : forall s, (3 <= length s <= 7)%nat -> reducible s = true ->
  retraces (reduce_raw s) s 0 1.
Proof.
  intros s H R. pose proof (reducible_hd s R) as Z.
  seg_cases s H; cbn [degree length Nat.sub] in Z;
  (eapply retraces_perturb; [exact Z|intro t|intro t]);
  [ apply reduce_eval_2 | apply reduce_deval_2 | apply reduce_eval_3 | apply reduce_deval_3
  | apply reduce_eval_4 | apply reduce_deval_4 | apply reduce_eval_5 | apply reduce_deval_5
  | apply reduce_eval_6 | apply reduce_deval_6 ].
Qed.

Lemma length_reduce_from : forall t d i prev,
  length (reduce_from d i prev t) = (length t - 1)%nat.
Proof.
  induction t as [|P t IH]; intros d i prev; [reflexivity|].
  destruct t as [|P' t']; [reflexivity|].
  change (reduce_from d i prev (P :: P' :: t')) with
    (pscale (/ nQ (d - i)) (psub (pscale (nQ d) P) (pscale (nQ i) prev))
     :: reduce_from d (S i) (pscale (/ nQ (d - i)) (psub (pscale (nQ d) P) (pscale (nQ i) prev)))
          (P' :: t')).
  cbn [length]. rewrite IH. cbn [length]. lia.
Qed.
Lemma length_removelast : forall {A} (l : list A), length (removelast l) = (length l - 1)%nat.
Proof.
  intros A. induction l as [|a l IH]; [reflexivity|].
  destruct l as [|b l]; [reflexivity|].
  change (removelast (a :: b :: l)) with (a :: removelast (b :: l)).
  cbn [length] in *. rewrite IH. lia.
Qed.
Lemma length_reduce_raw : forall s, (2 <= length s)%nat ->
  length (reduce_raw s) = (length s - 1)%nat.
Proof.
  intros [|P0 t] H; cbn [length] in H; [lia|]. unfold reduce_raw.
  rewrite app_length, length_removelast. cbn [length]. rewrite length_reduce_from. lia.
Qed.
Lemma length_reduce_once : forall s, (2 <= length s)%nat ->
  length (reduce_once s) = (length s - 1)%nat.
Proof. intros s H. rewrite reduce_once_raw, map_length. apply length_reduce_raw, H. Qed.

Lemma retraces_compose01 : forall q' q s u v, retraces q' q 0 1 -> retraces q s u v ->
  retraces q' s u v.
Proof.
  intros q' q s u v H1 H2.
  apply (retraces_wd q' s (u + 0 * (v - u)) (u + 1 * (v - u))); [ring|ring|].
  apply (retraces_trans q' q s 0 1 u v); assumption.
Qed.

Theorem reduce_once_retraces : forall s, (3 <= length s <= 7)%nat -> reducible s = true ->
  retraces (reduce_once s) s 0 1.
Proof.
  intros s H R. rewrite reduce_once_raw.
  apply (retraces_peq (reduce_raw s)).
  - rewrite length_reduce_raw by lia. lia.
  - apply Forall2_pred.
  - apply reduce_raw_retraces; assumption.
Qed.

Lemma seg_clean_fuel_retraces : forall f s, (2 <= length s <= 7)%nat ->
  retraces (seg_clean_fuel f s) s 0 1 /\
  (2 <= length (seg_clean_fuel f s) <= length s)%nat.
Proof.
  induction f as [|f IH]; intros s H; cbn [seg_clean_fuel].
  - split; [apply retraces_refl|lia].
  - destruct (reducible s) eqn:R; [|split; [apply retraces_refl|lia]].
    pose proof (Construct.reducible_length s R) as L3.
    pose proof (length_reduce_once s ltac:(lia)) as L.
    destruct (IH (reduce_once s) ltac:(lia)) as [IR IL]. split; [|lia].
    apply (retraces_compose01 _ (reduce_once s)); [exact IR|].
    apply reduce_once_retraces; [lia|exact R].
Qed.

(* seg_clean never changes the polynomial curve (2..7 control points) *)
Theorem seg_clean_retraces : forall s, (2 <= length s <= 7)%nat ->
  retraces (seg_clean s) s 0 1 /\ (2 <= length (seg_clean s) <= length s)%nat.
Proof. intros s H. apply seg_clean_fuel_retraces, H. Qed.

Lemma map_pred_retraces : forall s, (2 <= length s <= 7)%nat ->
  retraces (map pred_ s) s 0 1 /\ (2 <= length (map pred_ s) <= length s)%nat.
Proof.
  intros s H. split; [|rewrite map_length; lia].
  apply (retraces_peq s); [exact H|apply Forall2_pred|apply retraces_refl].
Qed.

Lemma degree_le : forall s s', (2 <= length s <= length s')%nat ->
  (1 <= degree s <= degree s')%nat.
Proof. intros s s' H. unfold degree. lia. Qed.

(* hence, in the exact range, seg_clean changes no integral although the number of
   quadrature nodes drops with the degree *)
Theorem seg_clean_vertical : forall s ex ey, (2 <= length s <= 7)%nat ->
  exact_deg (degree s) ex ey -> vertical (seg_clean s) ex ey == vertical s ex ey.
Proof.
  intros s ex ey H He. destruct (seg_clean_retraces s H) as [R L].
  apply (vertical_same_part _ _ s 0 1); [exact R|apply retraces_refl| |exact He|exact He].
  apply (exact_deg_mono (degree s)); [exact He|apply degree_le, L].
Qed.

(* ------------------------------------------------------------------ *)
(* 6. many cuts                                                        *)
(* ------------------------------------------------------------------ *)
(* ps are consecutive parts of S from the parameter u to 1, each with at most as many
   control points as S *)
Inductive parts (S : seg) : Q -> list seg -> Prop :=
| parts_last : forall u q, retraces q S u 1 -> (2 <= length q <= length S)%nat ->
    parts S u [q]
| parts_cons : forall u v q ps, retraces q S u v -> (2 <= length q <= length S)%nat ->
    parts S v ps -> parts S u (q :: ps).

Lemma parts_vertical : forall S u ps ex ey, exact_deg (degree S) ex ey -> parts S u ps ->
  Qsum (map (fun q => vertical q ex ey) ps) == prim S ex ey 1 - prim S ex ey u.
Proof.
  intros S u ps ex ey He H. induction H as [u q R L|u v q ps R L _ IH]; cbn [map Qsum].
  - rewrite (vertical_part q S u 1 ex ey R); [ring| |exact He].
    apply (exact_deg_mono (degree S)); [exact He|apply degree_le, L].
  - rewrite IH, (vertical_part q S u v ex ey R); [ring| |exact He].
    apply (exact_deg_mono (degree S)); [exact He|apply degree_le, L].
Qed.

(* a map that keeps every curve (Qred of the coordinates, degree reduction) keeps [parts] *)
Lemma parts_map : forall (f : seg -> seg) S u ps, (length S <= 7)%nat ->
  (forall q, (2 <= length q <= 7)%nat ->
     retraces (f q) q 0 1 /\ (2 <= length (f q) <= length q)%nat) ->
  parts S u ps -> parts S u (map f ps).
Proof.
  intros f S u ps HS Hf H. induction H as [u q R L|u v q ps R L _ IH]; cbn [map].
  - destruct (Hf q ltac:(lia)) as [Rf Lf]. apply parts_last; [|lia].
    apply (retraces_compose01 _ q); assumption.
  - destruct (Hf q ltac:(lia)) as [Rf Lf]. apply (parts_cons S u v); [|lia|exact IH].
    apply (retraces_compose01 _ q); assumption.
Qed.

(* split_many_from cuts r = "S from t0 to 1" at the parameters ts OF S; the only side
   condition is that no cut parameter (and not t0) equals 1 -- the renormalisation
   (t - t0) / (1 - t0) divides by 1 - t0.  No order on ts is needed. *)
Lemma split_many_from_parts : forall S ts t0 r, (2 <= length S <= 7)%nat ->
  ~ t0 == 1 -> (forall t, In t ts -> ~ t == 1) ->
  retraces r S t0 1 -> length r = length S ->
  parts S t0 (split_many_from t0 ts r).
Proof.
  intros S ts. induction ts as [|t ts IH]; intros t0 r HS H0 Hts R L; cbn [split_many_from].
  - apply parts_last; [exact R|lia].
  - set (w := (t - t0) / (1 - t0)).
    destruct (split_at_retraces r w ltac:(lia)) as [Rl Rr].
    destruct (split_at_length w r) as [Ll Lr].
    destruct (split_at w r) as [l r']. cbn [fst snd] in *.
    assert (Ew : t0 + w * (1 - t0) == t) by (unfold w; field; lra).
    apply (parts_cons S t0 t).
    + apply (retraces_wd l S (t0 + 0 * (1 - t0)) (t0 + w * (1 - t0))); [ring|exact Ew|].
      apply (retraces_trans l r S 0 w t0 1); assumption.
    + lia.
    + apply IH; [exact HS| | | |congruence].
      * apply Hts. left. reflexivity.
      * intros t' Ht'. apply Hts. right. exact Ht'.
      * apply (retraces_wd r' S (t0 + w * (1 - t0)) (t0 + 1 * (1 - t0))); [exact Ew|ring|].
        apply (retraces_trans r' r S w 1 t0 1); assumption.
Qed.

Definition no_one (ts : list Q) : Prop := forall t, In t ts -> ~ t == 1.

(* Bezier.split_many: cuts + Qred of every coordinate *)
Lemma split_many_parts : forall s ts, (2 <= length s <= 7)%nat -> no_one ts ->
  parts s 0 (split_many ts s).
Proof.
  intros s ts Hs Hts. unfold split_many.
  apply parts_map; [lia|exact map_pred_retraces|].
  apply split_many_from_parts; [exact Hs|lra|exact Hts|apply retraces_refl|reflexivity].
Qed.

(* MANY CUTS, the pieces as Bezier.split_many returns them (coordinates in lowest terms) *)
Theorem split_many_vertical_curved : forall s ts ex ey, (2 <= length s <= 7)%nat ->
  exact_deg (degree s) ex ey -> no_one ts ->
  Qsum (map (fun q => vertical q ex ey) (split_many ts s)) == vertical s ex ey.
Proof.
  intros s ts ex ey Hs He Hts.
  rewrite (parts_vertical s 0 _ ex ey He (split_many_parts s ts Hs Hts)).
  rewrite (vertical_whole s ex ey He). reflexivity.
Qed.

(* in particular for parameters 0 < t1 < ... < tn < 1 (the order plays no role) *)
Corollary split_many_vertical_inside : forall s ts ex ey, (1 <= degree s <= 6)%nat ->
  ((degree s - 1) * (ex + ey) <= 3)%nat -> (3 + ex + ey + degree s <= 19)%nat ->
  (forall t, In t ts -> 0 < t /\ t < 1) ->
  Qsum (map (fun q => vertical q ex ey) (split_many ts s)) == vertical s ex ey.
Proof.
  intros s ts ex ey Hd H Hn Hts. apply split_many_vertical_curved.
  - unfold degree in Hd. lia.
  - apply exact_deg_plain; [lia|exact H|exact Hn].
  - intros t Ht. specialize (Hts t Ht). lra.
Qed.

(* ... and the raw de Casteljau pieces *)
Theorem split_many_from_vertical_curved : forall s ts ex ey, (2 <= length s <= 7)%nat ->
  exact_deg (degree s) ex ey -> no_one ts ->
  Qsum (map (fun q => vertical q ex ey) (split_many_from 0 ts s)) == vertical s ex ey.
Proof.
  intros s ts ex ey Hs He Hts.
  rewrite (parts_vertical s 0 _ ex ey He
             (split_many_from_parts s ts 0 s Hs ltac:(lra) Hts (retraces_refl s) eq_refl)).
  rewrite (vertical_whole s ex ey He). reflexivity.
Qed.

(* ... and what JordanCurve.split keeps: every piece degree-reduced as far as it goes *)
Lemma split_clean_parts : forall s ts, (2 <= length s <= 7)%nat -> no_one ts ->
  parts s 0 (map seg_clean (split_many ts s)).
Proof.
  intros s ts Hs Hts. apply parts_map; [lia|exact seg_clean_retraces|].
  apply split_many_parts; assumption.
Qed.

Theorem split_segment_vertical_curved : forall s ts ps ex ey, (2 <= length s <= 7)%nat ->
  exact_deg (degree s) ex ey -> no_one ts -> split_segment s ts = Ok ps ->
  Qsum (map (fun q => vertical q ex ey) ps) == vertical s ex ey.
Proof.
  intros s ts ps ex ey Hs He Hts H. unfold split_segment in H.
  destruct (has_dup ts); [discriminate|]. inversion H; subst ps. clear H.
  rewrite (parts_vertical s 0 _ ex ey He (split_clean_parts s ts Hs Hts)).
  rewrite (vertical_whole s ex ey He). reflexivity.
Qed.

(* ------------------------------------------------------------------ *)
(* 7. curve level: JordanCurve.split                                   *)
(* ------------------------------------------------------------------ *)
(* what split does to ANY curve: every segment is kept or cut at parameters strictly
   inside (0,1); then every resulting segment is cleaned (once more) *)
Definition seg_pieces (s : seg) (ps : list seg) : Prop :=
  ps = [s] \/ exists ns, (forall t, In t ns -> 0 < t /\ t < 1) /\
                         ps = map seg_clean (split_many ns s).

Theorem split_pieces : forall j idx nodes j', Jordan.split j idx nodes = Ok j' ->
  exists pieces, j' = map seg_clean (concat pieces) /\ Forall2 seg_pieces j pieces.
Proof.
  intros j idx nodes j' H. unfold Jordan.split in H.
  apply bind_Ok in H. destruct H as (_ & _ & H).
  apply bind_Ok in H. destruct H as (u1 & Hout & H). apply assert_Ok in Hout.
  apply bind_Ok in H. destruct H as (_ & _ & H).
  apply bind_Ok in H. destruct H as (pieces & Hm & H). inversion H; subst j'. clear H.
  fold (split_pairs idx nodes) in Hm.
  set (pairs := split_pairs idx nodes) in *.
  assert (Hin : forall iu, In iu pairs -> 0 < snd iu /\ snd iu < 1).
  { intros [i u] Hiu. unfold pairs in Hiu.
    apply split_pairs_In in Hiu. destruct Hiu as [Hiu Hn].
    apply in_combine_r in Hiu. cbn [snd] in *.
    rewrite forallb_forall in Hout. specialize (Hout u Hiu).
    apply negb_true_iff in Hout. apply out01_false in Hout.
    apply near01_false; tauto. }
  exists pieces. split; [reflexivity|].
  apply mapM_Ok_Forall2 in Hm. clear Hout. revert Hm. generalize 0%nat. revert pieces.
  induction j as [|s j IH]; intros pieces k Hm; cbn [length seq combine] in Hm.
  - inversion Hm. constructor.
  - inversion Hm as [|x y l l' Hxy Hrest]; subst.
    constructor; [|apply (IH l' (S k)); assumption].
    set (ns := map snd (filter (fun iu : nat * Q => Nat.eqb (fst iu) k) pairs)) in *.
    assert (Hns : forall t, In t ns -> 0 < t /\ t < 1).
    { intros t Ht. unfold ns in Ht. apply in_map_iff in Ht.
      destruct Ht as (iu & <- & Hiu). apply filter_In in Hiu. apply Hin. tauto. }
    destruct ns as [|t ns'] eqn:E.
    + inversion Hxy. left. reflexivity.
    + right. exists (t :: ns'). split; [exact Hns|].
      unfold split_segment in Hxy. destruct (has_dup (t :: ns')); [discriminate|].
      inversion Hxy. reflexivity.
Qed.

Lemma seg_pieces_parts : forall s ps, (2 <= length s <= 7)%nat -> seg_pieces s ps ->
  parts s 0 (map seg_clean ps).
Proof.
  intros s ps Hs [->|(ns & Hns & ->)].
  - cbn [map]. apply parts_last; [|apply seg_clean_retraces, Hs].
    apply seg_clean_retraces, Hs.
  - apply parts_map; [lia|exact seg_clean_retraces|].
    apply split_clean_parts; [exact Hs|]. intros t Ht. specialize (Hns t Ht). lra.
Qed.

(* THE CURVE: JordanCurve.split changes no boundary integral in the exact range *)
Theorem split_vertical_curved : forall j idx nodes j' ex ey,
  (forall s, In s j -> (2 <= length s <= 7)%nat /\ exact_deg (degree s) ex ey) ->
  Jordan.split j idx nodes = Ok j' ->
  jordan_vertical j' ex ey == jordan_vertical j ex ey.
Proof.
  intros j idx nodes j' ex ey Hj H.
  destruct (split_pieces _ _ _ _ H) as (pieces & -> & F).
  unfold jordan_vertical. rewrite !Qred_correct. rewrite concat_map.
  apply (Forall2_Qsum_concat (fun s => vertical s ex ey)).
  clear H. induction F as [|s ps j pieces Hsp _ IH]; cbn [map]; constructor.
  - destruct (Hj s ltac:(left; reflexivity)) as [Hs He].
    rewrite (parts_vertical s 0 _ ex ey He (seg_pieces_parts s ps Hs Hsp)).
    rewrite (vertical_whole s ex ey He). reflexivity.
  - apply IH. intros s' Hs'. apply Hj. right. exact Hs'.
Qed.

(* the same with the degree and the node count spelled out: EVERY exponent pair within the
   19-node table, degrees 1..6 *)
Corollary split_moment_curved : forall j idx nodes j' ex ey,
  (forall s, In s j -> (1 <= degree s <= 6)%nat /\
                       (vertical_nodes (degree s) ex ey <= 19)%nat) ->
  Jordan.split j idx nodes = Ok j' ->
  jordan_vertical j' ex ey == jordan_vertical j ex ey.
Proof.
  intros j idx nodes j' ex ey Hj. apply split_vertical_curved.
  intros s Hs. destruct (Hj s Hs) as (H1 & H2). split.
  - unfold degree in H1. lia.
  - split; [lia|exact H2].
Qed.

(* the range that was exact before the repair: (d-1)*(ex+ey) <= 3 *)
Corollary split_moment_curved' : forall j idx nodes j' ex ey,
  (forall s, In s j -> (1 <= degree s <= 6)%nat /\ ((degree s - 1) * (ex + ey) <= 3)%nat /\
                       (3 + ex + ey + degree s <= 19)%nat) ->
  Jordan.split j idx nodes = Ok j' ->
  jordan_vertical j' ex ey == jordan_vertical j ex ey.
Proof.
  intros j idx nodes j' ex ey Hj. apply split_moment_curved.
  intros s Hs. destruct (Hj s Hs) as (H1 & H2 & H3). split; [exact H1|].
  rewrite (vertical_nodes_old' _ _ _ (proj1 H1) H2). exact H3.
Qed.

(* a uniform bound D <= 6 on the degrees *)
Corollary split_moment_degree : forall D j idx nodes j' ex ey,
  (forall s, In s j -> (1 <= degree s <= D)%nat) -> (D <= 6)%nat ->
  (vertical_nodes D ex ey <= 19)%nat ->
  Jordan.split j idx nodes = Ok j' ->
  jordan_vertical j' ex ey == jordan_vertical j ex ey.
Proof.
  intros D j idx nodes j' ex ey Hj HD Hn. apply split_vertical_curved.
  intros s Hs. specialize (Hj s Hs). split.
  - unfold degree in Hj. lia.
  - apply (exact_deg_mono D); [split; [lia|exact Hn]|lia].
Qed.

(* cubic boundaries: 3*(ex+ey+1) nodes; ex + ey <= 3 covers the moments of order <= 2
   (at most 12 nodes), ex + ey <= 5 is what the table allows (18 nodes) *)
Corollary split_moment_cubic5 : forall j idx nodes j' ex ey,
  (forall s, In s j -> (1 <= degree s <= 3)%nat) -> (ex + ey <= 5)%nat ->
  Jordan.split j idx nodes = Ok j' ->
  jordan_vertical j' ex ey == jordan_vertical j ex ey.
Proof.
  intros j idx nodes j' ex ey Hj He. apply (split_moment_degree 3); [exact Hj|lia|].
  unfold vertical_nodes. lia.
Qed.
Corollary split_moment_cubic : forall j idx nodes j' ex ey,
  (forall s, In s j -> (1 <= degree s <= 3)%nat) -> (ex + ey <= 3)%nat ->
  Jordan.split j idx nodes = Ok j' ->
  jordan_vertical j' ex ey == jordan_vertical j ex ey.
Proof. intros j idx nodes j' ex ey Hj He. apply split_moment_cubic5; [exact Hj|lia]. Qed.
(* quadratic boundaries: 2*(ex+ey+1) nodes, ex + ey <= 8 *)
Corollary split_moment_quadratic : forall j idx nodes j' ex ey,
  (forall s, In s j -> (1 <= degree s <= 2)%nat) -> (ex + ey <= 8)%nat ->
  Jordan.split j idx nodes = Ok j' ->
  jordan_vertical j' ex ey == jordan_vertical j ex ey.
Proof.
  intros j idx nodes j' ex ey Hj He. apply (split_moment_degree 2); [exact Hj|lia|].
  unfold vertical_nodes. lia.
Qed.

(* area: every degree up to 6, the whole range of the retrace lemmas (max(4+d, 2d) <= 12 nodes) *)
Corollary split_area_curved : forall j idx nodes j',
  (forall s, In s j -> (1 <= degree s <= 6)%nat) ->
  Jordan.split j idx nodes = Ok j' -> jordan_area j' == jordan_area j.
Proof.
  intros j idx nodes j' Hj. unfold jordan_area. apply (split_moment_degree 6); [exact Hj|lia|].
  vm_compute. lia.
Qed.
(* the range known before the repair *)
Corollary split_area_curved5 : forall j idx nodes j',
  (forall s, In s j -> (1 <= degree s <= 5)%nat) ->
  Jordan.split j idx nodes = Ok j' -> jordan_area j' == jordan_area j.
Proof.
  intros j idx nodes j' Hj. apply split_area_curved. intros s Hs. specialize (Hj s Hs). lia.
Qed.

(* the straight-only theorems SplitClean.split_area / Measure.split_moment are instances *)
Corollary split_moment_lines : forall j idx nodes j' ex ey,
  all_lines j = true -> (ex + ey + 4 <= 19)%nat -> Jordan.split j idx nodes = Ok j' ->
  jordan_vertical j' ex ey == jordan_vertical j ex ey.
Proof.
  intros j idx nodes j' ex ey Hl Hb. apply split_vertical_curved.
  intros s Hs. unfold all_lines in Hl. rewrite forallb_forall in Hl.
  destruct (is_line_inv s (Hl s Hs)) as (a & b & ->). split; [cbn; lia|].
  apply exact_deg_line, Hb.
Qed.
Corollary split_area_lines : forall j idx nodes j',
  all_lines j = true -> Jordan.split j idx nodes = Ok j' -> jordan_area j' == jordan_area j.
Proof. intros j idx nodes j' Hl. apply split_moment_lines; [exact Hl|lia]. Qed.

(* ------------------------------------------------------------------ *)
(* 8. non-vacuity, and the rule before the repair (regression)         *)
(* ------------------------------------------------------------------ *)
(* the parabola cap of QuadCurved (area 4/3), its arc cut at 1/3 *)
Definition cap_cut : jordan :=
  [ [(-1, 0); (1, 0)];
    [(1, 0); (2 # 3, 2 # 3); (1 # 3, 8 # 9)];
    [(1 # 3, 8 # 9); (- 1 # 3, 4 # 3); (-1, 0)] ].
Example cap_split_value : Jordan.split cap [1%nat] [1 # 3] = Ok cap_cut.
Proof. vm_compute. reflexivity. Qed.
(* 3 0 and 1 2 were inside the old range, 5 0 and 2 3 are not ((2-1)*5 > 3) *)
Example cap_split_numbers :
  length cap_cut = 3%nat /\ jordan_area cap_cut = 4 # 3 /\ jordan_area cap = 4 # 3 /\
  jordan_vertical cap_cut 3 0 = jordan_vertical cap 3 0 /\
  jordan_vertical cap_cut 1 2 = jordan_vertical cap 1 2 /\
  jordan_vertical cap_cut 5 0 = jordan_vertical cap 5 0 /\
  jordan_vertical cap_cut 2 3 = jordan_vertical cap 2 3.
Proof. vm_compute. repeat split; reflexivity. Qed.
Example cap_split_hyps :
  (forall s, In s cap -> (1 <= degree s <= 6)%nat) /\
  (forall s, In s cap -> (1 <= degree s <= 6)%nat /\ ((degree s - 1) * (3 + 0) <= 3)%nat /\
                         (3 + 3 + 0 + degree s <= 19)%nat) /\
  (forall s, In s cap -> (1 <= degree s <= 6)%nat /\ (vertical_nodes (degree s) 2 3 <= 19)%nat) /\
  (forall s, In s cap -> (1 <= degree s <= 2)%nat).
Proof. split; [|split; [|split]]; intros s [<-|[<-|[]]]; vm_compute; lia. Qed.
(* the theorems apply to it *)
Example cap_split_by_theorem :
  jordan_area cap_cut == jordan_area cap /\
  jordan_vertical cap_cut 3 0 == jordan_vertical cap 3 0 /\
  jordan_vertical cap_cut 2 3 == jordan_vertical cap 2 3 /\
  jordan_vertical cap_cut 5 0 == jordan_vertical cap 5 0.
Proof.
  destruct cap_split_hyps as (H1 & H2 & H3 & H4). split; [|split; [|split]].
  - exact (split_area_curved _ _ _ _ H1 cap_split_value).
  - exact (split_moment_curved' _ _ _ _ 3 0 H2 cap_split_value).
  - exact (split_moment_curved _ _ _ _ 2 3 H3 cap_split_value).
  - exact (split_moment_quadratic _ _ _ _ 5 0 H4 ltac:(lia) cap_split_value).
Qed.

(* seg_clean DOES change pieces: a straight base stored as a quadratic (middle control point
   at the midpoint) is reducible; split returns straight pieces, and returns the reduced base
   even when nothing is cut.  Inside the exact range the integrals do not move (theorem). *)
Definition cap_elevated : jordan := [ [(-1, 0); (0, 0); (1, 0)]; [(1, 0); (0, 2); (-1, 0)] ].
Example cap_elevated_split :
  Jordan.split cap_elevated [0%nat] [1 # 4] =
    Ok [ [(-1, 0); (- 1 # 2, 0)]; [(- 1 # 2, 0); (1, 0)]; [(1, 0); (0, 2); (-1, 0)] ] /\
  Jordan.split cap_elevated [] [] = Ok cap /\
  jordan_area cap_elevated = 4 # 3.
Proof. vm_compute. repeat split; reflexivity. Qed.

(* REGRESSION: the rule before the repair of F29 (QuadCurved.vertical_old, 3+ex+ey+d nodes).
   Outside its exact range (d-1)*(ex+ey) <= 3 the split was visible in the numbers the
   library computed; with the repaired node count it is not (each example states both). *)
Definition jordan_vertical_old (j : jordan) (ex ey : nat) : Q :=
  Qred (Qsum (map (fun s => vertical_old s ex ey) j)).
Definition jordan_area_old (j : jordan) : Q := jordan_vertical_old j 1 0.

(* on polygons the two rules are the same computation *)
Lemma jordan_vertical_old_lines : forall j ex ey, all_lines j = true ->
  jordan_vertical_old j ex ey = jordan_vertical j ex ey.
Proof.
  intros j ex ey Hl. unfold jordan_vertical_old, jordan_vertical. do 2 f_equal.
  apply map_ext_in. intros s Hs. unfold all_lines in Hl. rewrite forallb_forall in Hl.
  destruct (is_line_inv s (Hl s Hs)) as (a & b & ->). apply vertical_old_line.
Qed.

(* (a) a cubic edge and the integrand x^2 dy (first moment in x): the old rule had 8 nodes for
       9 coefficients (QuadCurved.old_rule_cubic_first_moment_inexact); cutting the cubic at
       1/2 changed the computed value.  The repaired rule has 9 nodes: both values are the
       exact integral -13/70, and equal by the theorem *)
Definition cubic_loop : jordan := [ [(0, 0); (1, 0); (1, 1); (2, 1)]; [(2, 1); (0, 0)] ].
Example old_rule_split_changes_cubic_moment :
  exists j', Jordan.split cubic_loop [0%nat] [1 # 2] = Ok j' /\
    jordan_vertical_old cubic_loop 2 0 = - 10446620437 # 56371445760 /\
    jordan_vertical_old j' 2 0 = - 2680037230357 # 14431090114560 /\
    ~ jordan_vertical_old j' 2 0 == jordan_vertical_old cubic_loop 2 0 /\
    jordan_vertical cubic_loop 2 0 = - 13 # 70 /\
    jordan_vertical j' 2 0 = - 13 # 70 /\
    jordan_area j' = jordan_area cubic_loop.
Proof.
  eexists. split; [vm_compute; reflexivity|]. repeat split; try (vm_compute; reflexivity).
  Qneq_compute.
Qed.
Example cubic_loop_hyps : forall s, In s cubic_loop -> (1 <= degree s <= 3)%nat.
Proof. intros s [<-|[<-|[]]]; vm_compute; lia. Qed.
Example split_keeps_cubic_moment : forall idx nodes j' ex ey, (ex + ey <= 3)%nat ->
  Jordan.split cubic_loop idx nodes = Ok j' ->
  jordan_vertical j' ex ey == jordan_vertical cubic_loop ex ey.
Proof.
  intros idx nodes j' ex ey He. exact (split_moment_cubic _ _ _ _ ex ey cubic_loop_hyps He).
Qed.
(* (b) a sextic edge and the area: the old rule had 10 nodes for 12 coefficients, the repaired
       one has 12 *)
Definition sextic_loop : jordan :=
  [ [(0, 0); (1, 0); (0, 1); (1, 1); (2, 0); (3, 5); (1, 7)]; [(1, 7); (0, 0)] ].
Example old_rule_split_changes_sextic_area :
  exists j', Jordan.split sextic_loop [0%nat] [1 # 2] = Ok j' /\
    jordan_area_old sextic_loop = 10788720214749 # 1433600000000 /\
    jordan_area_old j' = 11052939120214749 # 1468006400000000 /\
    ~ jordan_area_old j' == jordan_area_old sextic_loop /\
    jordan_area j' = jordan_area sextic_loop.
Proof.
  eexists. split; [vm_compute; reflexivity|]. repeat split; try (vm_compute; reflexivity).
  Qneq_compute.
Qed.
Example sextic_loop_hyps : forall s, In s sextic_loop -> (1 <= degree s <= 6)%nat.
Proof. intros s [<-|[<-|[]]]; vm_compute; lia. Qed.
Example split_keeps_sextic_area : forall idx nodes j',
  Jordan.split sextic_loop idx nodes = Ok j' -> jordan_area j' == jordan_area sextic_loop.
Proof. intros idx nodes j'. exact (split_area_curved _ _ _ _ sextic_loop_hyps). Qed.
(* (c) degree reduction alone: the cubic of (a) stored as a quartic.  On the quartic the old rule
       had 9 nodes and was exact (-13/70); seg_clean returns the cubic, on which it was not: a
       split that cuts NOTHING changed the computed first moment.  The repaired rule gives
       -13/70 on both. *)
Definition quartic_loop : jordan :=
  [ [(0, 0); (3 # 4, 0); (1, 1 # 2); (5 # 4, 1); (2, 1)]; [(2, 1); (0, 0)] ].
Example old_rule_clean_changes_quartic_moment :
  Jordan.split quartic_loop [] [] = Ok cubic_loop /\
  jordan_vertical_old quartic_loop 2 0 = - 13 # 70 /\
  jordan_vertical_old cubic_loop 2 0 = - 10446620437 # 56371445760 /\
  jordan_vertical quartic_loop 2 0 = - 13 # 70 /\
  jordan_vertical cubic_loop 2 0 = - 13 # 70.
Proof. vm_compute. repeat split; reflexivity. Qed.
Example quartic_loop_hyps : forall s, In s quartic_loop ->
  (1 <= degree s <= 6)%nat /\ (vertical_nodes (degree s) 2 0 <= 19)%nat.
Proof. intros s [<-|[<-|[]]]; vm_compute; lia. Qed.
Example clean_keeps_quartic_moment :
  jordan_vertical cubic_loop 2 0 == jordan_vertical quartic_loop 2 0.
Proof.
  exact (split_moment_curved _ _ _ _ 2 0 quartic_loop_hyps
           (proj1 old_rule_clean_changes_quartic_moment)).
Qed.

Print Assumptions vertical_part.
Print Assumptions split_at_vertical.
Print Assumptions split_at_vertical'.
Print Assumptions split_many_vertical_inside.
Print Assumptions reduce_once_retraces.
Print Assumptions seg_clean_vertical.
Print Assumptions split_many_vertical_curved.
Print Assumptions split_many_from_vertical_curved.
Print Assumptions split_segment_vertical_curved.
Print Assumptions split_pieces.
Print Assumptions split_vertical_curved.
Print Assumptions split_moment_curved.
Print Assumptions split_moment_curved'.
Print Assumptions split_moment_cubic.
Print Assumptions split_moment_quadratic.
Print Assumptions split_area_curved.
Print Assumptions split_area_curved5.
Print Assumptions split_moment_lines.
Print Assumptions split_area_lines.
Print Assumptions cap_split_by_theorem.
Print Assumptions old_rule_split_changes_cubic_moment.
Print Assumptions split_keeps_cubic_moment.
Print Assumptions old_rule_split_changes_sextic_area.
Print Assumptions split_keeps_sextic_area.
Print Assumptions old_rule_clean_changes_quartic_moment.
Print Assumptions clean_keeps_quartic_moment.
