(* EqSound.v -- soundness of JordanCurve.__eq__ on polygonal curves: on data where the
   1e-9 tolerance of Point2D.__eq__ cannot identify two different control points
   ("exact" data, e.g. a lattice coarser than 1e-9), [jordan_eq a b = Ok true] implies
   that a and b have the same crossing number about every point and the same area.
   E1  what [jordan_eq a b = Ok true] says (inversion of the definition)
   E2  exactness is inherited by the cleaned curves
   E3  pointwise peq segments / rotations do not change wn_lines and jordan_area
   E4  jordan_eq_sound, jordan_eq_sound_area
   E5  symmetry under exactness: false in general (walk2), true when the cleaned curve has
       no repeated segment; the comparison loop
   E6  clean keeps the boundary; == implies the same region_simple; symmetry with the first
       test of the reverse comparison discharged on long edges
   E7  the hypotheses hold on concrete data *)
From Coq Require Import QArith Lqa Lia List Bool Permutation.
From SV Require Import Model.Shape Spec.Spec.
From SV Require Lemmas.BezierFacts Lemmas.Quadrature Lemmas.Winding Lemmas.C02Glue Lemmas.SplitClean
  Lemmas.Tolerance Lemmas.Safe Lemmas.Lines Lemmas.Constancy Lemmas.Subset Lemmas.Affine.
Import ListNotations.
Open Scope Q_scope.

(* any two control points of the two curves that are equal within 1e-9 are equal *)
Definition exact_pts (a b : jordan) : Prop :=
  forall s t p q, In s a -> In t b -> In p s -> In q t -> pt_eq p q = true -> peq p q.
(* the same premise on the cleaned curves (weaker, see [exact_pts_clean]) *)
Definition exact_clean (a b : jordan) : Prop :=
  forall sc oc, clean a = Ok sc -> clean b = Ok oc -> exact_pts sc oc.

(* ====================================================================== *)
(* E1. inversion of jordan_eq                                              *)
(* ====================================================================== *)
Local Open Scope nat_scope.

Lemma index_where_Some {A} (f : A -> bool) d : forall l m, index_where f l = Some m ->
  m < length l /\ f (nth m l d) = true /\ (forall i, i < m -> f (nth i l d) = false).
Proof.
  induction l as [|x l IH]; intros m H; cbn [index_where] in H; [discriminate|].
  destruct (f x) eqn:Ex.
  - inversion H; subst m. cbn [length nth]. repeat split; [lia | exact Ex | intros; lia].
  - destruct (index_where f l) as [m'|] eqn:Ei; [|discriminate]. cbn [option_map] in H.
    inversion H; subst m. destruct (IH m' eq_refl) as (H1 & H2 & H3).
    cbn [length nth]. repeat split; [lia | exact H2 |].
    intros [|i] Hi; [exact Ex | apply H3; lia].
Qed.

Lemma go_loop_true sc index : forall l i, Tolerance.go_loop sc index i l = Ok true ->
  forall t, t < length l ->
    seg_eq (nth ((t + i + index) mod length sc) sc []) (nth t l []) = true.
Proof.
  induction l as [|s1 l IH]; intros i H t Ht; cbn [length] in Ht; [lia|].
  rewrite Tolerance.go_loop_cons in H.
  destruct (nth_error sc ((i + index) mod length sc)) as [s0|] eqn:En; [|discriminate].
  destruct (seg_eq s0 s1) eqn:Es; [|discriminate].
  destruct t as [|t].
  - cbn [nth Nat.add]. rewrite (nth_error_nth _ _ _ En). exact Es.
  - cbn [nth]. replace (S t + i + index) with (t + S i + index) by lia.
    apply IH; [exact H | lia].
Qed.

Lemma jordan_eq_inv a b : jordan_eq a b = Ok true ->
  exists sc oc index,
    forallb (jordan_has a) (points b 1) = true /\
    clean a = Ok sc /\ clean b = Ok oc /\ length sc = length oc /\ oc <> [] /\
    index_where (fun s0 => seg_eq s0 (hd [] oc)) sc = Some index /\
    Tolerance.go_loop sc index 0 oc = Ok true.
Proof.
  unfold jordan_eq. destruct (forallb (jordan_has a) (points b 1)) eqn:Eh; cbn [negb]; [|discriminate].
  destruct (clean a) as [sc| |]; cbn [bind]; try discriminate.
  destruct (clean b) as [oc| |]; cbn [bind]; try discriminate.
  destruct (Nat.eqb (length sc) (length oc)) eqn:El; cbn [negb]; [|discriminate].
  apply Nat.eqb_eq in El.
  destruct oc as [|seg1 t]; [discriminate|].
  destruct (index_where (fun s0 => seg_eq s0 seg1) sc) as [index|] eqn:Ei; [|discriminate].
  intro H. exists sc, (seg1 :: t), index.
  split; [reflexivity|]. split; [reflexivity|]. split; [reflexivity|]. split; [exact El|].
  split; [discriminate|]. split; [exact Ei | exact H].
Qed.

(* the readable form: cleaned other = cleaned self read from [index] on, up to seg_eq *)
Lemma jordan_eq_shape a b : jordan_eq a b = Ok true ->
  exists sc oc index,
    clean a = Ok sc /\ clean b = Ok oc /\ length sc = length oc /\ 0 < length sc /\
    index < length sc /\
    forall i, i < length sc ->
      seg_eq (nth ((i + index) mod length sc) sc []) (nth i oc []) = true.
Proof.
  intro H. destruct (jordan_eq_inv a b H) as (sc & oc & index & _ & Ha & Hb & Hl & Hne & Hi & Hg).
  exists sc, oc, index.
  destruct (index_where_Some _ [] _ _ Hi) as (Hlt & _ & _).
  split; [exact Ha|]. split; [exact Hb|]. split; [exact Hl|]. split; [apply Nat.le_lt_trans with index; [apply Nat.le_0_l | exact Hlt]|]. split; [exact Hlt|].
  intros i Hi'. pose proof (go_loop_true sc index oc 0 Hg i ltac:(lia)) as G.
  rewrite Nat.add_0_r in G. exact G.
Qed.

Local Close Scope nat_scope.

(* ====================================================================== *)
(* E2. control points of a cleaned polygon are control points of the       *)
(*     polygon (up to Qred), so exactness passes to the cleaned curves     *)
(* ====================================================================== *)
Definition ctrl_sub (l' l : list seg) : Prop :=
  forall s' p', In s' l' -> In p' s' -> exists s p, In s l /\ In p s /\ peq p' p.

Lemma ctrl_sub_refl l : ctrl_sub l l.
Proof. intros s p Hs Hp. exists s, p. split; [exact Hs|]. split; [exact Hp|]. apply BezierFacts.peq_refl. Qed.

Lemma ctrl_sub_trans l1 l2 l3 : ctrl_sub l1 l2 -> ctrl_sub l2 l3 -> ctrl_sub l1 l3.
Proof.
  intros H12 H23 s1 p1 Hs1 Hp1.
  destruct (H12 s1 p1 Hs1 Hp1) as (s2 & p2 & Hs2 & Hp2 & E12).
  destruct (H23 s2 p2 Hs2 Hp2) as (s3 & p3 & Hs3 & Hp3 & E23).
  exists s3, p3. split; [exact Hs3|]. split; [exact Hp3|]. eapply BezierFacts.peq_trans; eassumption.
Qed.

Lemma clean_scan_ctrl segs segs' : SplitClean.seg_lines segs ->
  clean_scan (length segs) 0 segs = Ok (Some segs') -> ctrl_sub segs' segs.
Proof.
  intros Hl H.
  destruct (SplitClean.clean_scan_perm (length segs) 0%nat segs segs' Hl (Nat.le_refl _) H)
    as (a & m & m' & b & s & rest & Hu & P1 & P2).
  destruct (SplitClean.unite_line_spec _ _ _ _ _ Hu) as (_ & _ & _ & _ & _ & _ & ->).
  intros s' p' Hs' Hp'.
  apply (Permutation_in _ P2) in Hs'. destruct Hs' as [<- | Hs'].
  - destruct Hp' as [<- | [<- | []]].
    + exists [a; m], a. split; [|split].
      * apply (Permutation_in _ (Permutation_sym P1)). left. reflexivity.
      * left. reflexivity.
      * apply SplitClean.pred_peq.
    + exists [m'; b], b. split; [|split].
      * apply (Permutation_in _ (Permutation_sym P1)). right. left. reflexivity.
      * right. left. reflexivity.
      * apply SplitClean.pred_peq.
  - exists s', p'. split; [|split; [exact Hp' | apply BezierFacts.peq_refl]].
    apply (Permutation_in _ (Permutation_sym P1)). right. right. exact Hs'.
Qed.

Lemma clean_loop_ctrl : forall f segs segs', SplitClean.seg_lines segs ->
  clean_loop f segs = Ok segs' -> ctrl_sub segs' segs.
Proof.
  induction f as [|f IH]; intros segs segs' Hl H; cbn [clean_loop] in H; [discriminate|].
  destruct segs as [|s0 t] eqn:Es; [inversion H; apply ctrl_sub_refl|]. rewrite <- Es in *.
  apply SplitClean.bind_Ok in H. destruct H as (r & Hs & H).
  destruct r as [segs1|].
  - assert (Hl1 : SplitClean.seg_lines segs1)
      by (apply (SplitClean.clean_scan_lines (length segs) 0%nat segs segs1 Hl (Nat.le_refl _) Hs)).
    eapply ctrl_sub_trans; [apply (IH _ _ Hl1 H) | apply clean_scan_ctrl; assumption].
  - inversion H. apply ctrl_sub_refl.
Qed.

Lemma clean_ctrl j j' : all_lines j = true -> clean j = Ok j' -> ctrl_sub j' j.
Proof.
  intros HL H. apply SplitClean.all_lines_iff in HL.
  unfold clean in H. apply SplitClean.bind_Ok in H. destruct H as (segs' & Hc & H).
  inversion H; subst j'. clear H.
  rewrite (SplitClean.map_seg_clean_lines j HL) in Hc.
  pose proof (SplitClean.clean_loop_lines _ _ _ HL Hc) as Hs.
  unfold set_segments. rewrite (SplitClean.map_seg_clean_lines segs' Hs).
  eapply clean_loop_ctrl; eassumption.
Qed.

Theorem exact_pts_clean : forall a b, all_lines a = true -> all_lines b = true ->
  exact_pts a b -> exact_clean a b.
Proof.
  intros a b La Lb Hex sc oc Ha Hb s t p q Hs Ht Hp Hq E.
  destruct (clean_ctrl a sc La Ha s p Hs Hp) as (s0 & p0 & Hs0 & Hp0 & Ep).
  destruct (clean_ctrl b oc Lb Hb t q Ht Hq) as (t0 & q0 & Ht0 & Hq0 & Eq).
  rewrite (Tolerance.pt_eq_compat p p0 q q0 Ep Eq) in E.
  pose proof (Hex s0 t0 p0 q0 Hs0 Ht0 Hp0 Hq0 E) as E0.
  eapply BezierFacts.peq_trans; [exact Ep|].
  eapply BezierFacts.peq_trans; [exact E0|]. apply BezierFacts.peq_sym. exact Eq.
Qed.

(* ====================================================================== *)
(* E3. wn_lines and jordan_area: pointwise peq segments, rotations         *)
(* ====================================================================== *)
Definition seg_peq (s t : seg) : Prop :=
  peq (first_pt s) (first_pt t) /\ peq (last_pt s) (last_pt t).

Lemma map_nth_ext {A B} (g : A -> B) (d : A) : forall l l', length l = length l' ->
  (forall i, (i < length l)%nat -> g (nth i l d) = g (nth i l' d)) -> map g l = map g l'.
Proof.
  induction l as [|x l IH]; intros [|y l'] Hlen H; cbn [length] in Hlen; try discriminate;
    [reflexivity|].
  cbn [map]. f_equal.
  - apply (H 0%nat). cbn [length]. lia.
  - apply IH; [lia|]. intros i Hi. apply (H (S i)). cbn [length]. lia.
Qed.

Lemma Qsum_nth_ext {A} (g : A -> Q) (d : A) : forall l l', length l = length l' ->
  (forall i, (i < length l)%nat -> g (nth i l d) == g (nth i l' d)) ->
  Qsum (map g l) == Qsum (map g l').
Proof.
  induction l as [|x l IH]; intros [|y l'] Hlen H; cbn [length] in Hlen; try discriminate;
    [reflexivity|].
  cbn [map Qsum].
  assert (E0 : g x == g y) by (apply (H 0%nat); cbn [length]; lia).
  assert (E1 : Qsum (map g l) == Qsum (map g l')).
  { apply IH; [lia|]. intros i Hi. apply (H (S i)). cbn [length]. lia. }
  rewrite E0, E1. reflexivity.
Qed.

Lemma wn_lines_pointwise l l' p : length l = length l' ->
  (forall i, (i < length l)%nat -> seg_peq (nth i l []) (nth i l' [])) ->
  wn_lines l p = wn_lines l' p.
Proof.
  intros Hlen H. unfold wn_lines. f_equal. apply (map_nth_ext _ []); [exact Hlen|].
  intros i Hi. destruct (H i Hi) as [E1 E2].
  apply Winding.cr_peq; [exact E1 | exact E2 | apply BezierFacts.peq_refl].
Qed.

Lemma vertical_seg_peq s t : length s = 2%nat -> length t = 2%nat -> seg_peq s t ->
  vertical s 1 0 == vertical t 1 0.
Proof.
  intros Ls Lt [E1 E2].
  destruct t as [|c [|d [|z t]]]; try discriminate Lt.
  apply SplitClean.vertical_peq; assumption.
Qed.

Lemma jordan_area_pointwise l l' : all_lines l = true -> all_lines l' = true ->
  length l = length l' ->
  (forall i, (i < length l)%nat -> seg_peq (nth i l []) (nth i l' [])) ->
  jordan_area l == jordan_area l'.
Proof.
  intros HL HL' Hlen H. apply SplitClean.all_lines_iff in HL. apply SplitClean.all_lines_iff in HL'.
  unfold jordan_area, jordan_vertical. rewrite !Qred_correct.
  apply (Qsum_nth_ext _ []); [exact Hlen|]. intros i Hi.
  apply vertical_seg_peq; [apply HL, nth_In; exact Hi | apply HL', nth_In; unfold seg in *; rewrite <- Hlen; exact Hi | apply H; exact Hi].
Qed.

Lemma jordan_area_rotl k j : jordan_area (rotl k j) == jordan_area j.
Proof.
  unfold jordan_area, jordan_vertical, rotl. rewrite !Qred_correct.
  rewrite map_app, SplitClean.Qsum_app.
  rewrite <- (firstn_skipn k j) at 3. rewrite map_app, SplitClean.Qsum_app. ring.
Qed.

(* seg_eq on exact data is equality of the control points *)
Lemma seg_eq_exact sc oc s t : all_lines sc = true -> all_lines oc = true ->
  exact_pts sc oc -> In s sc -> In t oc -> seg_eq s t = true -> seg_peq s t.
Proof.
  intros Ls Lo Hex Hs Ht E.
  destruct (Winding.all_lines_In sc s Ls Hs) as (a & b & ->).
  destruct (Winding.all_lines_In oc t Lo Ht) as (c & d & ->).
  unfold seg_eq in E. cbn [length Nat.eqb andb combine forallb fst snd] in E.
  apply andb_true_iff in E. destruct E as [E1 E2]. rewrite andb_true_r in E2.
  split; cbn [first_pt last_pt hd last].
  - apply (Hex [a; b] [c; d] a c Hs Ht); [left; reflexivity | left; reflexivity | exact E1].
  - apply (Hex [a; b] [c; d] b d Hs Ht); [right; left; reflexivity | right; left; reflexivity | exact E2].
Qed.

(* the common core: cleaned other = rotation of cleaned self, segment by segment *)
Lemma jordan_eq_rot a b : all_lines a = true -> all_lines b = true ->
  jordan_eq a b = Ok true -> exact_clean a b ->
  exists sc oc index,
    clean a = Ok sc /\ clean b = Ok oc /\ all_lines sc = true /\ all_lines oc = true /\
    length (rotl index sc) = length oc /\ (index < length sc)%nat /\
    forall i, (i < length (rotl index sc))%nat -> seg_peq (nth i (rotl index sc) []) (nth i oc []).
Proof.
  intros La Lb H Hex.
  destruct (jordan_eq_shape a b H) as (sc & oc & index & Ha & Hb & Hl & Hpos & Hidx & Hseg).
  exists sc, oc, index.
  pose proof (SplitClean.clean_all_lines a sc Ha La) as Lsc.
  pose proof (SplitClean.clean_all_lines b oc Hb Lb) as Loc.
  split; [exact Ha|]. split; [exact Hb|]. split; [exact Lsc|]. split; [exact Loc|].
  split; [rewrite Safe.rotl_length; exact Hl|]. split; [exact Hidx|].
  rewrite Safe.rotl_length. intros i Hi.
  rewrite Safe.nth_rotl by assumption.
  apply (seg_eq_exact sc oc); try assumption.
  - exact (Hex sc oc Ha Hb).
  - apply nth_In. apply Nat.mod_upper_bound. lia.
  - apply nth_In. rewrite <- Hl. exact Hi.
  - apply Hseg. exact Hi.
Qed.

(* ====================================================================== *)
(* E4. == implies the same crossing numbers and the same area              *)
(* ====================================================================== *)
Theorem jordan_eq_sound_clean : forall a b,
  all_lines a = true -> all_lines b = true ->
  jordan_eq a b = Ok true -> exact_clean a b ->
  forall p, wn_lines a p = wn_lines b p.
Proof.
  intros a b La Lb H Hex p.
  destruct (jordan_eq_rot a b La Lb H Hex)
    as (sc & oc & index & Ha & Hb & Lsc & Loc & Hlen & _ & Hseg).
  rewrite <- (SplitClean.clean_wn a sc La Ha p), <- (SplitClean.clean_wn b oc Lb Hb p).
  rewrite <- (Winding.wn_lines_rotl index sc p).
  apply wn_lines_pointwise; assumption.
Qed.

Theorem jordan_eq_sound : forall a b,
  all_lines a = true -> all_lines b = true ->
  jordan_eq a b = Ok true -> exact_pts a b ->
  forall p, wn_lines a p = wn_lines b p.
Proof.
  intros a b La Lb H Hex. apply jordan_eq_sound_clean; try assumption.
  apply exact_pts_clean; assumption.
Qed.

Theorem jordan_eq_sound_area_clean : forall a b,
  all_lines a = true -> all_lines b = true ->
  jordan_eq a b = Ok true -> exact_clean a b ->
  jordan_area a == jordan_area b.
Proof.
  intros a b La Lb H Hex.
  destruct (jordan_eq_rot a b La Lb H Hex)
    as (sc & oc & index & Ha & Hb & Lsc & Loc & Hlen & _ & Hseg).
  rewrite <- (SplitClean.clean_area a sc La Ha), <- (SplitClean.clean_area b oc Lb Hb).
  rewrite <- (jordan_area_rotl index sc).
  apply jordan_area_pointwise; try assumption. apply Safe.all_lines_rotl. exact Lsc.
Qed.

Theorem jordan_eq_sound_area : forall a b,
  all_lines a = true -> all_lines b = true ->
  jordan_eq a b = Ok true -> exact_pts a b ->
  jordan_area a == jordan_area b.
Proof.
  intros a b La Lb H Hex. apply jordan_eq_sound_area_clean; try assumption.
  apply exact_pts_clean; assumption.
Qed.

(* ====================================================================== *)
(* E5. symmetry                                                            *)
(* ====================================================================== *)
(* Exactness alone does NOT make == symmetric: the reverse comparison starts at the FIRST
   segment of the cleaned other that matches, and a closed walk that uses one edge twice has
   two candidates.  Integer data, every pt_eq is an equality: *)
Definition walk2 : jordan :=
  [[(0,0);(4,0)]; [(4,0);(4,3)]; [(4,3);(0,0)]; [(0,0);(4,0)]; [(4,0);(2,-5)]; [(2,-5);(0,0)]].
Example eq_not_symmetric :
  all_lines walk2 = true /\ closed_chain walk2 = true /\ clean walk2 = Ok walk2 /\
  jordan_eq walk2 (rotl 1 walk2) = Ok true /\ jordan_eq (rotl 1 walk2) walk2 = Ok false.
Proof. repeat split; vm_compute; reflexivity. Qed.

(* with "no two segments of the cleaned curve are seg_eq" (Safe.seg_distinct, true of every
   simple polygon) the comparison loop is symmetric on exact data *)
Local Open Scope nat_scope.

Lemma go_loop_of_nth (sc : list seg) (m : nat) : 0 < length sc -> forall (l : list seg) i,
  (forall t, t < length l ->
     seg_eq (nth ((t + i + m) mod length sc) sc []) (nth t l []) = true) ->
  Tolerance.go_loop sc m i l = Ok true.
Proof.
  intros Hpos. induction l as [|s1 l IH]; intros i H; [reflexivity|].
  rewrite Tolerance.go_loop_cons.
  rewrite (nth_error_nth' sc []) by (apply Nat.mod_upper_bound; lia).
  pose proof (H 0 ltac:(cbn [length]; lia)) as H0. cbn [nth Nat.add] in H0. rewrite H0.
  apply IH. intros t Ht.
  pose proof (H (S t) ltac:(cbn [length]; lia)) as HS. cbn [nth] in HS.
  replace (t + S i + m) with (S t + i + m) by lia. exact HS.
Qed.

Lemma seg_peq_seg_eq s t : length s = 2 -> length t = 2 -> seg_peq s t -> seg_eq s t = true.
Proof.
  intros Ls Lt [E1 E2].
  destruct s as [|a [|b [|z s]]]; try discriminate Ls.
  destruct t as [|c [|d [|z t]]]; try discriminate Lt.
  cbn [first_pt last_pt hd last] in E1, E2.
  unfold seg_eq. cbn [length Nat.eqb andb combine forallb fst snd].
  rewrite (Tolerance.peq_pt_eq _ _ E1), (Tolerance.peq_pt_eq _ _ E2). reflexivity.
Qed.

Lemma seg_peq_sym s t : seg_peq s t -> seg_peq t s.
Proof. intros [E1 E2]. split; apply BezierFacts.peq_sym; assumption. Qed.
Lemma seg_peq_trans s t u : seg_peq s t -> seg_peq t u -> seg_peq s u.
Proof. intros [E1 E2] [F1 F2]. split; eapply BezierFacts.peq_trans; eassumption. Qed.

Lemma mod_back n k : 0 < n -> ((n - k) mod n + k) mod n = 0 \/ n < k.
Proof.
  intros Hn. destruct (Nat.le_gt_cases k n) as [Hk|Hk]; [left | right; exact Hk].
  rewrite Nat.add_mod_idemp_l by lia. replace (n - k + k) with n by lia. apply Nat.mod_same. lia.
Qed.

(* the comparison part of [jordan_eq b a], from the one of [jordan_eq a b] *)
Lemma jordan_eq_sym_core (sc oc : list seg) index :
  all_lines sc = true -> all_lines oc = true -> exact_pts sc oc ->
  Safe.seg_distinct oc ->
  length sc = length oc -> 0 < length sc -> index < length sc ->
  (forall i, i < length sc ->
     seg_eq (nth ((i + index) mod length sc) sc []) (nth i oc []) = true) ->
  exists index',
    index_where (fun s0 => seg_eq s0 (hd [] sc)) oc = Some index' /\
    Tolerance.go_loop oc index' 0 sc = Ok true.
Proof.
  intros Lsc Loc Hex Hd Hlen Hpos Hidx Hseg.
  unfold seg in *. set (n := length sc) in *.
  assert (Hn : length oc = n) by (symmetry; exact Hlen).
  set (i0 := (n - index) mod n).
  assert (Hi0 : i0 < n) by (apply Nat.mod_upper_bound; lia).
  assert (Hz : (i0 + index) mod n = 0)
    by (destruct (mod_back n index Hpos) as [E|E]; [exact E | lia]).
  assert (Hhd : hd [] sc = nth 0 sc []) by (destruct sc; reflexivity).
  assert (Hback : forall i, i < n -> ((i + i0) mod n + index) mod n = i).
  { intros i Hi. rewrite Nat.add_mod_idemp_l by lia.
    replace (i + i0 + index) with (i + (i0 + index)) by lia.
    rewrite <- Nat.add_mod_idemp_r by lia. rewrite Hz, Nat.add_0_r. apply Nat.mod_small. exact Hi. }
  exists i0. split.
  - apply Safe.index_where_spec; unfold seg.
    + rewrite Hn. exact Hi0.
    + rewrite Hhd, Safe.seg_eq_sym. pose proof (Hseg i0 Hi0) as E. rewrite Hz in E. exact E.
    + intros i Hi. destruct (seg_eq (nth i oc []) (hd [] sc)) eqn:E; [exfalso | reflexivity].
      rewrite Hhd in E.
      assert (In0 : In (nth 0 sc []) sc) by (apply nth_In; exact Hpos).
      assert (Ini : In (nth i oc []) oc) by (apply nth_In; rewrite Hn; lia).
      assert (Ini0 : In (nth i0 oc []) oc) by (apply nth_In; rewrite Hn; lia).
      rewrite Safe.seg_eq_sym in E.
      pose proof (seg_eq_exact sc oc _ _ Lsc Loc Hex In0 Ini E) as P1.
      pose proof (Hseg i0 Hi0) as E0. rewrite Hz in E0.
      pose proof (seg_eq_exact sc oc _ _ Lsc Loc Hex In0 Ini0 E0) as P2.
      apply SplitClean.all_lines_iff in Loc.
      assert (Q : seg_eq (nth i oc []) (nth i0 oc []) = true).
      { apply seg_peq_seg_eq; [apply Loc; exact Ini | apply Loc; exact Ini0 |].
        eapply seg_peq_trans; [apply seg_peq_sym; exact P1 | exact P2]. }
      apply Hd in Q; unfold seg; [lia | rewrite Hn; lia | rewrite Hn; exact Hi0].
  - apply go_loop_of_nth; unfold seg; [rewrite Hn; exact Hpos|].
    fold n. intros t Ht. rewrite Nat.add_0_r, Hn, Safe.seg_eq_sym.
    assert (Ht' : (t + i0) mod n < n) by (apply Nat.mod_upper_bound; lia).
    pose proof (Hseg _ Ht') as E. rewrite (Hback t Ht) in E. exact E.
Qed.

Local Close Scope nat_scope.

(* symmetry, the first test of the reverse comparison (sample points of a lie on b) as a premise *)
Theorem jordan_eq_sym_exact_clean : forall a b,
  all_lines a = true -> all_lines b = true ->
  jordan_eq a b = Ok true -> exact_clean a b ->
  (forall oc, clean b = Ok oc -> Safe.seg_distinct oc) ->
  forallb (jordan_has b) (points a 1) = true ->
  jordan_eq b a = Ok true.
Proof.
  intros a b La Lb H Hex Hd Hhas.
  destruct (jordan_eq_shape a b H) as (sc & oc & index & Ha & Hb & Hl & Hpos & Hidx & Hseg).
  pose proof (SplitClean.clean_all_lines a sc Ha La) as Lsc.
  pose proof (SplitClean.clean_all_lines b oc Hb Lb) as Loc.
  destruct (jordan_eq_sym_core sc oc index Lsc Loc (Hex sc oc Ha Hb) (Hd oc Hb) Hl Hpos Hidx Hseg)
    as (index' & Hi & Hg).
  unfold jordan_eq. rewrite Hhas. cbn [negb]. rewrite Hb, Ha. cbn [bind].
  replace (Nat.eqb (length oc) (length sc)) with true
    by (symmetry; apply Nat.eqb_eq; symmetry; exact Hl).
  cbn [negb].
  destruct sc as [|seg1 t]; [cbn [length] in Hpos; lia|].
  cbn [hd] in Hi. rewrite Hi. exact Hg.
Qed.

(* ====================================================================== *)
(* E6. clean keeps the boundary; same region; the first test               *)
(* ====================================================================== *)
Lemma on_edge_of_param a b p u : 0 <= u -> u <= 1 -> peq p (Lines.pt_at a b u) -> on_edge a b p = true.
Proof. exact (Tolerance.on_edge_param a b p u). Qed.

Lemma on_edge_merge a m b p t : 0 < t -> t < 1 -> peq m (Lines.pt_at a b t) ->
  on_edge a m p || on_edge m b p = on_edge a b p.
Proof.
  intros T0 T1 Hm.
  destruct (on_edge a b p) eqn:Eab.
  - destruct (Subset.on_edge_param a b p Eab) as (u & [U0 U1] & Hp).
    apply orb_true_iff.
    destruct (Qlt_le_dec t u) as [Hu|Hu].
    + right. apply (on_edge_of_param m b p ((u - t) / (1 - t))).
      * apply Qle_shift_div_l; lra.
      * apply Qle_shift_div_r; lra.
      * destruct Hm as [M1 M2], Hp as [P1 P2].
        unfold Lines.pt_at, peq, px, py in *; cbn [fst snd] in *.
        split; [rewrite P1, M1 | rewrite P2, M2]; field; lra.
    + left. apply (on_edge_of_param a m p (u / t)).
      * apply Qle_shift_div_l; lra.
      * apply Qle_shift_div_r; lra.
      * destruct Hm as [M1 M2], Hp as [P1 P2].
        unfold Lines.pt_at, peq, px, py in *; cbn [fst snd] in *.
        split; [rewrite P1, M1 | rewrite P2, M2]; field; lra.
  - apply orb_false_iff. split.
    + destruct (on_edge a m p) eqn:E; [|reflexivity].
      destruct (Subset.on_edge_param a m p E) as (v & [V0 V1] & Hp).
      rewrite <- Eab. symmetry. apply (on_edge_of_param a b p (v * t)); [nra | nra |].
      destruct Hm as [M1 M2], Hp as [P1 P2].
      unfold Lines.pt_at, peq, px, py in *; cbn [fst snd] in *.
      split; [rewrite P1, M1 | rewrite P2, M2]; ring.
    + destruct (on_edge m b p) eqn:E; [|reflexivity].
      destruct (Subset.on_edge_param m b p E) as (v & [V0 V1] & Hp).
      rewrite <- Eab. symmetry. apply (on_edge_of_param a b p (t + v * (1 - t))); [nra | nra |].
      destruct Hm as [M1 M2], Hp as [P1 P2].
      unfold Lines.pt_at, peq, px, py in *; cbn [fst snd] in *.
      split; [rewrite P1, M1 | rewrite P2, M2]; ring.
Qed.

Lemma existsb_perm {A} (f : A -> bool) l l' : Permutation l l' -> existsb f l = existsb f l'.
Proof.
  induction 1 as [|x l l' _ IH|x y l|l l' l'' _ IH1 _ IH2]; cbn [existsb].
  - reflexivity.
  - rewrite IH. reflexivity.
  - destruct (f x), (f y); reflexivity.
  - congruence.
Qed.

Lemma clean_scan_boundary segs segs' p : SplitClean.seg_lines segs ->
  clean_scan (length segs) 0 segs = Ok (Some segs') -> on_boundary segs' p = on_boundary segs p.
Proof.
  intros Hl H.
  destruct (SplitClean.clean_scan_perm (length segs) 0%nat segs segs' Hl (Nat.le_refl _) H)
    as (a & m & m' & b & s & rest & Hu & P1 & P2).
  destruct (SplitClean.unite_line_spec _ _ _ _ _ Hu) as (t & T0 & T1 & Hm & Hm' & _ & ->).
  unfold on_boundary. rewrite (existsb_perm _ _ _ P1), (existsb_perm _ _ _ P2).
  cbn [existsb first_pt last_pt hd last]. rewrite orb_assoc. f_equal.
  rewrite (Affine.on_edge_peq3 (pred_ a) a (pred_ b) b p p
             (SplitClean.pred_peq a) (SplitClean.pred_peq b) (BezierFacts.peq_refl p)).
  rewrite (Affine.on_edge_peq3 m' m b b p p Hm' (BezierFacts.peq_refl b) (BezierFacts.peq_refl p)).
  symmetry. apply (on_edge_merge a m b p t T0 T1 Hm).
Qed.

Lemma clean_loop_boundary p : forall f segs segs', SplitClean.seg_lines segs ->
  clean_loop f segs = Ok segs' -> on_boundary segs' p = on_boundary segs p.
Proof.
  induction f as [|f IH]; intros segs segs' Hl H; cbn [clean_loop] in H; [discriminate|].
  destruct segs as [|s0 t] eqn:Es; [inversion H; reflexivity|]. rewrite <- Es in *.
  apply SplitClean.bind_Ok in H. destruct H as (r & Hs & H).
  destruct r as [segs1|].
  - assert (Hl1 : SplitClean.seg_lines segs1)
      by (apply (SplitClean.clean_scan_lines (length segs) 0%nat segs segs1 Hl (Nat.le_refl _) Hs)).
    rewrite (IH _ _ Hl1 H). apply clean_scan_boundary; assumption.
  - inversion H. reflexivity.
Qed.

Theorem clean_boundary : forall j j', all_lines j = true -> clean j = Ok j' ->
  forall p, on_boundary j' p = on_boundary j p.
Proof.
  intros j j' HL H p. apply SplitClean.all_lines_iff in HL.
  unfold clean in H. apply SplitClean.bind_Ok in H. destruct H as (segs' & Hc & H).
  inversion H; subst j'. clear H.
  rewrite (SplitClean.map_seg_clean_lines j HL) in Hc.
  pose proof (SplitClean.clean_loop_lines _ _ _ HL Hc) as Hs.
  unfold set_segments. rewrite (SplitClean.map_seg_clean_lines segs' Hs).
  eapply clean_loop_boundary; eassumption.
Qed.

Lemma existsb_nth_ext {A} (g : A -> bool) (d : A) : forall l l', length l = length l' ->
  (forall i, (i < length l)%nat -> g (nth i l d) = g (nth i l' d)) -> existsb g l = existsb g l'.
Proof.
  induction l as [|x l IH]; intros [|y l'] Hlen H; cbn [length] in Hlen; try discriminate;
    [reflexivity|].
  cbn [existsb]. f_equal.
  - apply (H 0%nat). cbn [length]. lia.
  - apply IH; [lia|]. intros i Hi. apply (H (S i)). cbn [length]. lia.
Qed.

Lemma on_boundary_pointwise l l' p : length l = length l' ->
  (forall i, (i < length l)%nat -> seg_peq (nth i l []) (nth i l' [])) ->
  on_boundary l p = on_boundary l' p.
Proof.
  intros Hlen H. unfold on_boundary. apply (existsb_nth_ext _ []); [exact Hlen|].
  intros i Hi. destruct (H i Hi) as [E1 E2].
  apply Affine.on_edge_peq3; [exact E1 | exact E2 | apply BezierFacts.peq_refl].
Qed.

Lemma on_boundary_rotl k j p : on_boundary (rotl k j) p = on_boundary j p.
Proof.
  unfold on_boundary, rotl. apply existsb_perm.
  rewrite <- (firstn_skipn k j) at 3. apply Permutation_app_comm.
Qed.

Theorem jordan_eq_sound_boundary : forall a b,
  all_lines a = true -> all_lines b = true ->
  jordan_eq a b = Ok true -> exact_clean a b ->
  forall p, on_boundary a p = on_boundary b p.
Proof.
  intros a b La Lb H Hex p.
  destruct (jordan_eq_rot a b La Lb H Hex)
    as (sc & oc & index & Ha & Hb & Lsc & Loc & Hlen & _ & Hseg).
  rewrite <- (clean_boundary a sc La Ha p), <- (clean_boundary b oc Lb Hb p).
  rewrite <- (on_boundary_rotl index sc p).
  apply on_boundary_pointwise; assumption.
Qed.

(* == implies the same region (In / Out / Bdry / Undef at every point) *)
Theorem jordan_eq_sound_region : forall a b,
  all_lines a = true -> all_lines b = true ->
  closed_chain a = true -> closed_chain b = true ->
  jordan_eq a b = Ok true -> exact_pts a b ->
  forall p, region_simple a p = region_simple b p.
Proof.
  intros a b La Lb Ca Cb H Hex p.
  pose proof (exact_pts_clean a b La Lb Hex) as Hexc.
  unfold region_simple.
  rewrite (jordan_eq_sound_boundary a b La Lb H Hexc p).
  rewrite (jordan_eq_sound_clean a b La Lb H Hexc p).
  rewrite <- (C02Glue.jordan_pos_shoelace a La Ca), <- (C02Glue.jordan_pos_shoelace b Lb Cb).
  unfold jordan_pos.
  rewrite (C02Glue.Qlt_bool_comp 0 (jordan_area a) 0 (jordan_area b) (Qeq_refl 0)
             (jordan_eq_sound_area_clean a b La Lb H Hexc)).
  reflexivity.
Qed.

(* the sample points of a polygon are on its boundary *)
Lemma points1_boundary j p : all_lines j = true -> In p (points j 1) -> on_boundary j p = true.
Proof.
  intros HL Hp.
  unfold points in Hp. apply in_concat in Hp. destruct Hp as (l & Hl & Hp).
  apply in_map_iff in Hl. destruct Hl as (s & <- & Hs).
  apply in_map_iff in Hp. destruct Hp as (k & <- & Hk).
  apply in_seq in Hk.
  destruct (Winding.all_lines_In j s HL Hs) as (a & b & ->).
  unfold on_boundary. apply existsb_exists. exists [a; b]. split; [exact Hs|].
  cbn [first_pt last_pt hd last].
  apply (Tolerance.on_edge_param a b _ (nQ k / nQ 2)).
  - destruct k as [|[|k]]; [vm_compute; discriminate | vm_compute; discriminate | lia].
  - destruct k as [|[|k]]; [vm_compute; discriminate | vm_compute; discriminate | lia].
  - unfold evalr. eapply BezierFacts.peq_trans; [apply Tolerance.pred_peq | apply Tolerance.eval_line].
Qed.

(* the first test of [jordan_eq b a] follows when the edges of b are longer than 1e-6 *)
Lemma jordan_eq_has_back a b : all_lines a = true -> all_lines b = true ->
  jordan_eq a b = Ok true -> exact_clean a b ->
  (forall s, In s b -> tol6 < norm2 (psub (last_pt s) (first_pt s))) ->
  forallb (jordan_has b) (points a 1) = true.
Proof.
  intros La Lb H Hex Hlong. apply forallb_forall. intros p Hp.
  pose proof (points1_boundary a p La Hp) as B.
  rewrite (jordan_eq_sound_boundary a b La Lb H Hex p) in B.
  unfold on_boundary in B. apply existsb_exists in B. destruct B as (s & Hs & E).
  destruct (Winding.all_lines_In b s Lb Hs) as (c & d & ->).
  exact (Tolerance.jordan_has_on_edge b c d p Lb Hlong Hs E).
Qed.

Theorem jordan_eq_sym_exact : forall a b,
  all_lines a = true -> all_lines b = true ->
  jordan_eq a b = Ok true -> exact_pts a b ->
  (forall s, In s b -> tol6 < norm2 (psub (last_pt s) (first_pt s))) ->
  (forall oc, clean b = Ok oc -> Safe.seg_distinct oc) ->
  jordan_eq b a = Ok true.
Proof.
  intros a b La Lb H Hex Hlong Hd.
  pose proof (exact_pts_clean a b La Lb Hex) as Hexc.
  apply jordan_eq_sym_exact_clean; try assumption.
  apply jordan_eq_has_back; assumption.
Qed.

(* ====================================================================== *)
(* E7. the hypotheses are satisfiable: a square, and the same square read  *)
(*     from another vertex with one more (collinear) vertex                *)
(* ====================================================================== *)
Definition exact_ptsb (a b : jordan) : bool :=
  forallb (fun s => forallb (fun t => forallb (fun p => forallb (fun q =>
    implb (pt_eq p q) (peqb p q)) t) s) b) a.
Lemma exact_ptsb_ok a b : exact_ptsb a b = true -> exact_pts a b.
Proof.
  unfold exact_ptsb. rewrite forallb_forall. intros H s t p q Hs Ht Hp Hq E.
  pose proof (H s Hs) as H1. rewrite forallb_forall in H1.
  pose proof (H1 t Ht) as H2. rewrite forallb_forall in H2.
  pose proof (H2 p Hp) as H3. rewrite forallb_forall in H3.
  pose proof (H3 q Hq) as H4. rewrite E in H4. cbn [implb] in H4.
  apply SplitClean.peqb_peq. exact H4.
Qed.

Definition sqA : jordan := [[(0,0);(4,0)]; [(4,0);(4,4)]; [(4,4);(0,4)]; [(0,4);(0,0)]].
Definition sqB : jordan :=
  [[(4,4);(0,4)]; [(0,4);(0,0)]; [(0,0);(2,0)]; [(2,0);(4,0)]; [(4,0);(4,4)]].

Example sq_hyps :
  all_lines sqA = true /\ all_lines sqB = true /\
  closed_chain sqA = true /\ closed_chain sqB = true /\
  jordan_eq sqA sqB = Ok true /\ exact_pts sqA sqB /\
  (forall s, In s sqB -> tol6 < norm2 (psub (last_pt s) (first_pt s))) /\
  (forall oc, clean sqB = Ok oc -> Safe.seg_distinct oc).
Proof.
  split; [reflexivity|]. split; [reflexivity|]. split; [reflexivity|]. split; [reflexivity|].
  split; [vm_compute; reflexivity|].
  split; [apply exact_ptsb_ok; vm_compute; reflexivity|].
  split.
  - intros s Hs. unfold sqB in Hs. cbn [In] in Hs.
    repeat match goal with H : _ \/ _ |- _ => destruct H as [H|H] end;
      try contradiction; subst s; reflexivity.
  - intros oc Hoc. vm_compute in Hoc. inversion Hoc; subst oc. clear Hoc.
    intros i i' Hi Hi' E. cbn [length] in Hi, Hi'.
    do 4 (destruct i as [|i];
          [do 4 (destruct i' as [|i'];
                 [first [reflexivity | vm_compute in E; discriminate E]|]); lia|]).
    lia.
Qed.

Example sq_sound :
  (forall p, wn_lines sqA p = wn_lines sqB p) /\
  jordan_area sqA == jordan_area sqB /\
  (forall p, region_simple sqA p = region_simple sqB p) /\
  jordan_eq sqB sqA = Ok true.
Proof.
  destruct sq_hyps as (La & Lb & Ca & Cb & H & Hex & Hlong & Hd).
  split; [exact (jordan_eq_sound sqA sqB La Lb H Hex)|].
  split; [exact (jordan_eq_sound_area sqA sqB La Lb H Hex)|].
  split; [exact (jordan_eq_sound_region sqA sqB La Lb Ca Cb H Hex)|].
  exact (jordan_eq_sym_exact sqA sqB La Lb H Hex Hlong Hd).
Qed.

Print Assumptions jordan_eq_sound.
Print Assumptions jordan_eq_sound_clean.
Print Assumptions jordan_eq_sound_area.
Print Assumptions jordan_eq_sound_area_clean.
Print Assumptions jordan_eq_sound_boundary.
Print Assumptions jordan_eq_sound_region.
Print Assumptions exact_pts_clean.
Print Assumptions clean_boundary.
Print Assumptions eq_not_symmetric.
Print Assumptions jordan_eq_sym_exact_clean.
Print Assumptions jordan_eq_sym_exact.
Print Assumptions sq_hyps.
Print Assumptions sq_sound.
