(* SubsetConvex.v -- `B in A` (Model.Shape.simple_has_simple) at the level of
   REGIONS, for two strictly convex counter-clockwise polygons A = poly_of va
   (self) and B = poly_of vb (other).  No Jordan curve theorem is needed: a
   strictly convex polygon is the intersection of the left half planes of its
   edges (Convex.v), and an affine function that is >= 0 at the vertices of B is
   >= 0 on all of closed B.

   in_closed j p          region_simple j p = RIn \/ region_simple j p = RBdry
   convex_area_pos        0 < jordan_area (poly_of vs): the shapes are bounded
   convex_affine_nonneg / convex_affine_pos / convex_halfplane(_strict)
                          ITEM 1: affine f >= 0 (> 0) at the vertices of B ->
                          f >= 0 (> 0) wherever wn B <> 0 and on the boundary
   convex_closed_iff / convex_open_iff / convex_out_iff / convex_region_defined
                          the region of a convex polygon by half planes; never RUndef
   convex_in_sound        ITEM 2: answer True -> closed B inside closed A
   convex_in_sound_open   ... and open B inside open A
   convex_in_false_gen    ITEM 3: answer False -> a boundary point of B is ROut of A
   convex_in_total        the model never raises on two convex polygons
   convex_in_iff_gen / _area / _triangle, convex_in_false_iff_gen
                          ITEM 4: the answer is True iff closed B is inside closed A
   tri_in_convex_area     area monotonicity for TRIANGLES in a convex polygon
   ex_*                   ITEM 5: non-vacuity

   Hypotheses.  tol_tested self j: the 1e-6 tolerance test of the code answers
   the exact question at the finitely many points the model tests (decidable:
   tol_tested_b).  It is implied by the hypothesis tol_hyp of C03_curve_in_shape_iff;
   general position and `region <> RUndef` of that theorem are NOT needed here.
   area_mono va vb: "vertices of B in closed A -> area B <= area A"; PROVED when B
   is a triangle; for general convex B it is a hypothesis, implied by the decidable
   Qlt_bool (area A) (area B) = false (area_mono_checked).  What is missing for the
   general case is area monotonicity of convex polygons under inclusion (needs
   clipping a convex polygon by a line, or the angular merge of two convex
   polygons); only the branch `area A < area B -> False` of the model depends on it. *)
From Coq Require Import QArith Lqa Lia ZArith List Bool.
From SV Require Import Model.Shape Spec.Spec.
From SV Require Import Lemmas.Winding Lemmas.Constancy Lemmas.Construct Lemmas.Quadrature
                       Lemmas.Lines Lemmas.UnionSound Lemmas.Subset Lemmas.SubsetComplete
                       Lemmas.Convex.
Import ListNotations.
Open Scope Q_scope.

(* ================================================================== *)
(* 0. area of a strictly convex counter-clockwise polygon              *)
(* ================================================================== *)
Definition sh_p (l : list (point * point)) : Q :=
  Qsum (map (fun e => cross (fst e) (snd e)) l).

Lemma shoelace2_poly_of : forall vs, shoelace2 (poly_of vs) = sh_p (edges_of vs).
Proof. intros vs. unfold shoelace2, poly_of, sh_p. rewrite map_map. reflexivity. Qed.

Lemma sh_p_cons : forall a b l, sh_p ((a, b) :: l) = cross a b + sh_p l.
Proof. reflexivity. Qed.

Lemma cross_ear : forall a b c, cross a b + cross b c == cross a c + orient a b c.
Proof. intros. unfold orient, cross, psub, px, py; cbn [fst snd]. ring. Qed.

Lemma sh_ear : forall a b c r,
  sh_p (edges_of (a :: b :: c :: r)) == sh_p (edges_of (a :: c :: r)) + orient a b c.
Proof.
  intros a b c r.
  change (edges_of (a :: b :: c :: r)) with ((a, b) :: (b, c) :: pairs_of (c :: r ++ [a])).
  change (edges_of (a :: c :: r)) with ((a, c) :: pairs_of (c :: r ++ [a])).
  rewrite !sh_p_cons. pose proof (cross_ear a b c). lra.
Qed.

Lemma sh_triangle : forall a b c, sh_p (edges_of [a; b; c]) == orient a b c.
Proof.
  intros. change (edges_of [a; b; c]) with [(a, b); (b, c); (c, a)].
  unfold sh_p. cbn [map Qsum fst snd].
  unfold orient, cross, psub, px, py; cbn [fst snd]. ring.
Qed.

Lemma convex_shoelace_pos_P : forall r a b c, convex_ccw (a :: b :: c :: r) ->
  0 < sh_p (edges_of (a :: b :: c :: r)).
Proof.
  induction r as [|d r IH]; intros a b c HC.
  - rewrite sh_triangle. destruct HC as [_ HT]. cbn [TP TP1] in HT.
    destruct HT as ((H1 & _) & _). apply H1. left; reflexivity.
  - rewrite sh_ear. pose proof (IH a c d (convex_drop2 a b c d r HC)) as P.
    destruct HC as [_ HT]. cbn [TP TP1] in HT. destruct HT as ((H1 & _) & _).
    pose proof (H1 c ltac:(left; reflexivity)). lra.
Qed.

Theorem convex_shoelace_pos : forall vs, convex_ccw_b vs = true -> 0 < shoelace2 (poly_of vs).
Proof.
  intros vs HC. apply convex_ccw_b_ok in HC.
  destruct (convex_shape vs HC) as (a & b & c & r & ->).
  rewrite shoelace2_poly_of. apply convex_shoelace_pos_P, HC.
Qed.

Lemma convex_nonempty : forall vs, convex_ccw_b vs = true -> vs <> [].
Proof.
  intros vs HC. apply convex_ccw_b_ok in HC.
  destruct (convex_shape vs HC) as (a & b & c & r & ->). discriminate.
Qed.

Lemma convex_lines : forall vs, convex_ccw_b vs = true -> all_lines (poly_of vs) = true.
Proof. intros vs HC. apply poly_of_spec, convex_nonempty, HC. Qed.
Lemma convex_closed : forall vs, convex_ccw_b vs = true -> closed_chain (poly_of vs) = true.
Proof. intros vs HC. apply poly_of_spec, convex_nonempty, HC. Qed.

(* the area the model computes is positive: the shape is bounded *)
Theorem convex_area_pos : forall vs, convex_ccw_b vs = true -> 0 < jordan_area (poly_of vs).
Proof.
  intros vs HC. rewrite (area_shoelace _ (convex_lines vs HC) (convex_closed vs HC)).
  pose proof (convex_shoelace_pos vs HC) as P.
  apply Qlt_shift_div_l; lra.
Qed.

(* ================================================================== *)
(* 1. affine functions are nonnegative on the closed polygon as soon   *)
(*    as they are nonnegative at its vertices                          *)
(* ================================================================== *)
Definition affine (f : point -> Q) : Prop :=
  exists k kx ky, forall q, f q == k + kx * px q + ky * py q.

Lemma affine_orient : forall A B, affine (orient A B).
Proof.
  intros A B.
  exists (- (px B - px A) * py A + (py B - py A) * px A), (- (py B - py A)), (px B - px A).
  intro q. rewrite orient_expand. ring.
Qed.

Lemma affine_px : affine px.
Proof. exists 0, 1, 0. intro q. ring. Qed.
Lemma affine_py : affine py.
Proof. exists 0, 0, 1. intro q. ring. Qed.

Lemma affine_shift : forall f c d, affine f -> affine (fun q => c * f q + d).
Proof.
  intros f c d (k & kx & ky & H). exists (c * k + d), (c * kx), (c * ky).
  intro q. rewrite H. ring.
Qed.

Lemma affine_peq : forall f p q, affine f -> peq p q -> f p == f q.
Proof. intros f p q (k & kx & ky & H) [E1 E2]. rewrite !H, E1, E2. reflexivity. Qed.

(* the barycentric identity *)
Lemma affine_bary : forall f a b c q, affine f ->
  f q * orient a b c == orient b c q * f a + orient c a q * f b + orient a b q * f c.
Proof. intros f a b c q (k & kx & ky & H). rewrite !H, !orient_expand. ring. Qed.

Lemma affine_pt_at : forall f u v t, affine f ->
  f (pt_at u v t) == (1 - t) * f u + t * f v.
Proof.
  intros f u v t (k & kx & ky & H). rewrite !H. unfold pt_at, px, py; cbn [fst snd]. ring.
Qed.

(* the closed triangle *)
Lemma tri_closed_orients : forall a b c q, 0 < orient a b c ->
  wn_lines (triangle a b c) q <> 0%Z ->
  0 <= orient a b q /\ 0 <= orient b c q /\ 0 <= orient c a q.
Proof.
  intros a b c q T W.
  destruct (Qlt_le_dec (orient a b q) 0) as [L1|G1];
    [exfalso; apply W, triangle_outside; [exact T | left; exact L1]|].
  destruct (Qlt_le_dec (orient b c q) 0) as [L2|G2];
    [exfalso; apply W, triangle_outside; [exact T | right; left; exact L2]|].
  destruct (Qlt_le_dec (orient c a q) 0) as [L3|G3];
    [exfalso; apply W, triangle_outside; [exact T | right; right; exact L3]|].
  tauto.
Qed.

Lemma tri_affine_nonneg : forall f a b c q, affine f -> 0 < orient a b c ->
  0 <= orient a b q -> 0 <= orient b c q -> 0 <= orient c a q ->
  0 <= f a -> 0 <= f b -> 0 <= f c -> 0 <= f q.
Proof.
  intros f a b c q Af T O1 O2 O3 Fa Fb Fc.
  pose proof (affine_bary f a b c q Af) as B.
  pose proof (Qmult_le_0_compat _ _ O2 Fa) as P1.
  pose proof (Qmult_le_0_compat _ _ O3 Fb) as P2.
  pose proof (Qmult_le_0_compat _ _ O1 Fc) as P3.
  destruct (Qlt_le_dec (f q) 0) as [L|G]; [exfalso|exact G].
  assert (N : f q * orient a b c < 0) by nra. lra.
Qed.

(* ear induction: wherever the winding number is not 0 *)
Lemma convex_affine_P : forall f, affine f -> forall r a b c q, convex_ccw (a :: b :: c :: r) ->
  wn_p (edges_of (a :: b :: c :: r)) q <> 0%Z ->
  (forall w, In w (a :: b :: c :: r) -> 0 <= f w) -> 0 <= f q.
Proof.
  intros f Af. induction r as [|d r IH]; intros a b c q HC W Hv.
  - rewrite <- wn_poly_of, poly_of_triangle in W.
    destruct HC as [_ HT]. cbn [TP TP1] in HT. destruct HT as ((H1 & _) & _).
    assert (T : 0 < orient a b c) by (apply H1; left; reflexivity).
    destruct (tri_closed_orients a b c q T W) as (O1 & O2 & O3).
    apply (tri_affine_nonneg f a b c q Af T O1 O2 O3); apply Hv; cbn [In]; tauto.
  - pose proof (convex_drop2 a b c d r HC) as HC'.
    pose proof HC as [_ HT]. cbn [TP TP1] in HT. destruct HT as ((H1 & _) & _).
    assert (T : 0 < orient a b c) by (apply H1; left; reflexivity).
    rewrite wn_ear in W.
    destruct (Z.eq_dec (wn_lines (triangle a b c) q) 0) as [E|N].
    + rewrite E, Z.add_0_r in W. apply (IH a c d q HC' W).
      intros w Hw. apply Hv. cbn [In] in *. tauto.
    + destruct (tri_closed_orients a b c q T N) as (O1 & O2 & O3).
      apply (tri_affine_nonneg f a b c q Af T O1 O2 O3); apply Hv; cbn [In]; tauto.
Qed.

Lemma edges_of_In : forall vs u v, In (u, v) (edges_of vs) -> In u vs /\ In v vs.
Proof.
  intros vs u v H. unfold edges_of in H. destruct (pairs_of_In _ _ _ H) as [Hu Hv].
  assert (K : forall x, In x (vs ++ [hd pzero vs]) -> In x vs).
  { intros x Hx. apply in_app_or in Hx. destruct Hx as [Hx|[<-|[]]]; [exact Hx|].
    destruct vs as [|y t]; [destruct (pairs_of_In _ _ _ H) as [[E|[]] _]|left; reflexivity].
    cbn in H. destruct H. }
  split; apply K; assumption.
Qed.

(* p belongs to the closed region of the polygon *)
Definition in_closed (j : jordan) (p : point) : Prop :=
  region_simple j p = RIn \/ region_simple j p = RBdry.

(* ITEM 1.  An affine function that is >= 0 at the vertices of a strictly convex
   polygon is >= 0 wherever the winding number is not 0, and on the boundary *)
Theorem convex_affine_nonneg : forall vs f p, convex_ccw_b vs = true -> affine f ->
  (forall w, In w vs -> 0 <= f w) ->
  wn_lines (poly_of vs) p <> 0%Z \/ on_boundary (poly_of vs) p = true ->
  0 <= f p.
Proof.
  intros vs f p HC Af Hv [W|Bd].
  - apply convex_ccw_b_ok in HC. destruct (convex_shape vs HC) as (a & b & c & r & ->).
    rewrite wn_poly_of in W. exact (convex_affine_P f Af r a b c p HC W Hv).
  - rewrite on_boundary_poly_of in Bd. apply existsb_exists in Bd.
    destruct Bd as ([u v] & He & Hon). cbn [fst snd] in Hon.
    destruct (edges_of_In vs u v He) as [Hu Hv'].
    destruct (on_edge_param u v p Hon) as (t & [T0 T1] & Pp).
    rewrite (affine_peq f _ _ Af Pp), (affine_pt_at f u v t Af).
    pose proof (Hv u Hu). pose proof (Hv v Hv'). nra.
Qed.

(* the statement asked for: half planes *)
Corollary convex_halfplane : forall vb p, convex_ccw_b vb = true ->
  wn_lines (poly_of vb) p = 1%Z ->
  forall a b, (forall w, In w vb -> 0 <= orient a b w) -> 0 <= orient a b p.
Proof.
  intros vb p HC W a b Hv.
  apply (convex_affine_nonneg vb (orient a b) p HC (affine_orient a b) Hv).
  left. rewrite W. discriminate.
Qed.

(* strict version *)
Lemma list_min_pos : forall (f : point -> Q) l, (forall w, In w l -> 0 < f w) ->
  exists eps, 0 < eps /\ forall w, In w l -> eps <= f w.
Proof.
  intros f. induction l as [|x l IH]; intro H.
  - exists 1. split; [lra | intros w []].
  - destruct IH as (e & E0 & El); [intros w Hw; apply H; right; exact Hw|].
    pose proof (H x ltac:(left; reflexivity)) as Hx.
    destruct (Qlt_le_dec e (f x)) as [L|G].
    + exists e. split; [exact E0|]. intros w [<-|Hw]; [lra | apply El, Hw].
    + exists (f x). split; [exact Hx|]. intros w [<-|Hw]; [lra|].
      pose proof (El w Hw). lra.
Qed.

Theorem convex_affine_pos : forall vs f p, convex_ccw_b vs = true -> affine f ->
  (forall w, In w vs -> 0 < f w) ->
  wn_lines (poly_of vs) p <> 0%Z \/ on_boundary (poly_of vs) p = true ->
  0 < f p.
Proof.
  intros vs f p HC Af Hv Hp.
  destruct (list_min_pos f vs Hv) as (eps & E0 & El).
  assert (Ag : affine (fun q => 1 * f q + - eps)) by (apply affine_shift, Af).
  pose proof (convex_affine_nonneg vs _ p HC Ag) as K. cbv beta in K.
  assert (0 <= 1 * f p + - eps).
  { apply K; [|exact Hp]. intros w Hw. pose proof (El w Hw). lra. }
  lra.
Qed.

Corollary convex_halfplane_strict : forall vb p, convex_ccw_b vb = true ->
  wn_lines (poly_of vb) p = 1%Z ->
  forall a b, (forall w, In w vb -> 0 < orient a b w) -> 0 < orient a b p.
Proof.
  intros vb p HC W a b Hv.
  apply (convex_affine_pos vb (orient a b) p HC (affine_orient a b) Hv).
  left. rewrite W. discriminate.
Qed.

(* ================================================================== *)
(* 2. the region of a strictly convex polygon, by half planes          *)
(* ================================================================== *)
Lemma convex_pos_flag : forall vs, convex_ccw_b vs = true ->
  Qlt_bool 0 (shoelace2 (poly_of vs)) = true.
Proof. intros vs HC. apply Qlt_bool_iff, convex_shoelace_pos, HC. Qed.

Lemma in_closed_cases : forall vs p, convex_ccw_b vs = true -> in_closed (poly_of vs) p ->
  wn_lines (poly_of vs) p <> 0%Z \/ on_boundary (poly_of vs) p = true.
Proof.
  intros vs p HC H. unfold in_closed, region_simple in H. rewrite (convex_pos_flag vs HC) in H.
  destruct (on_boundary (poly_of vs) p); [right; reflexivity|]. left.
  destruct (wn_lines (poly_of vs) p =? 1)%Z eqn:E1.
  - apply Z.eqb_eq in E1. rewrite E1. discriminate.
  - destruct (wn_lines (poly_of vs) p =? 0)%Z; destruct H; discriminate.
Qed.

Lemma edge_left_b : forall vs e w, convex_ccw_b vs = true -> In e (edges_of vs) -> In w vs ->
  0 <= orient (fst e) (snd e) w.
Proof. intros vs e w HC. apply edge_left, convex_ccw_b_ok, HC. Qed.

(* closed region = intersection of the closed left half planes of the edges *)
Theorem convex_closed_iff : forall vs p, convex_ccw_b vs = true ->
  (in_closed (poly_of vs) p <->
   forall e, In e (edges_of vs) -> 0 <= orient (fst e) (snd e) p).
Proof.
  intros vs p HC. split.
  - intros H e He.
    apply (convex_affine_nonneg vs (orient (fst e) (snd e)) p HC (affine_orient _ _)).
    + intros w Hw. exact (edge_left_b vs e w HC He Hw).
    + exact (in_closed_cases vs p HC H).
  - intro Hall. unfold in_closed, region_simple. rewrite (convex_pos_flag vs HC).
    destruct (forallb (fun e => Qlt_bool 0 (orient (fst e) (snd e) p)) (edges_of vs)) eqn:F.
    + left. rewrite forallb_forall in F.
      assert (S : forall e, In e (edges_of vs) -> 0 < orient (fst e) (snd e) p)
        by (intros e He; apply Qlt_bool_iff, (F e He)).
      rewrite (strictly_inside_off vs p S), (convex_inside vs p HC S). reflexivity.
    + right. destruct (forallb_false _ _ F) as (e & He & K).
      unfold Qlt_bool in K. apply negb_false_iff in K. apply Qle_bool_iff in K.
      pose proof (Hall e He) as K'.
      assert (Ez : orient (fst e) (snd e) p == 0) by lra.
      rewrite (convex_boundary vs p HC Hall); [reflexivity|].
      exists e. split; assumption.
Qed.

Theorem convex_out_iff : forall vs p, convex_ccw_b vs = true ->
  (region_simple (poly_of vs) p = ROut <->
   exists e, In e (edges_of vs) /\ orient (fst e) (snd e) p < 0).
Proof.
  intros vs p HC. split.
  - intro H.
    destruct (existsb (fun e => Qlt_bool (orient (fst e) (snd e) p) 0) (edges_of vs)) eqn:E.
    + apply existsb_exists in E. destruct E as (e & He & E). exists e. split; [exact He|].
      apply Qlt_bool_iff, E.
    + exfalso.
      assert (Hall : forall e, In e (edges_of vs) -> 0 <= orient (fst e) (snd e) p).
      { intros e He. pose proof (existsb_false _ _ E e He) as K. cbv beta in K.
        unfold Qlt_bool in K. apply negb_false_iff in K. apply Qle_bool_iff in K. exact K. }
      apply (convex_closed_iff vs p HC) in Hall. destruct Hall as [K|K]; congruence.
  - intros (e & He & Hneg).
    assert (NB : on_boundary (poly_of vs) p = false).
    { destruct (on_boundary (poly_of vs) p) eqn:Bd; [exfalso|reflexivity].
      assert (C : in_closed (poly_of vs) p).
      { right. unfold region_simple. rewrite Bd. reflexivity. }
      pose proof (proj1 (convex_closed_iff vs p HC) C e He). lra. }
    unfold region_simple. rewrite NB, (convex_pos_flag vs HC).
    rewrite (convex_outside vs p HC); [reflexivity|]. exists e. split; assumption.
Qed.

Theorem convex_region_defined : forall vs p, convex_ccw_b vs = true ->
  region_simple (poly_of vs) p <> RUndef.
Proof.
  intros vs p HC. unfold region_simple. rewrite (convex_pos_flag vs HC).
  destruct (on_boundary (poly_of vs) p) eqn:Bd; [discriminate|].
  destruct (convex_simple01 vs HC p Bd) as [E|E]; rewrite E; discriminate.
Qed.

Lemma convex_out_or_closed : forall vs p, convex_ccw_b vs = true ->
  region_simple (poly_of vs) p = ROut \/ in_closed (poly_of vs) p.
Proof.
  intros vs p HC. pose proof (convex_region_defined vs p HC). unfold in_closed.
  destruct (region_simple (poly_of vs) p); auto. congruence.
Qed.

(* ================================================================== *)
(* 2b. area: a triangle with its corners in the closed polygon         *)
(* ================================================================== *)
(* fan formula: the shoelace sum of x :: m is the sum of the triangles x p q
   over the consecutive pairs p q of m *)
Definition fan (x : point) (m : list point) : Q :=
  Qsum (map (fun e => orient x (fst e) (snd e)) (pairs_of m)).

Lemma orient_cross3 : forall x p q, orient x p q == cross x p + cross p q + cross q x.
Proof. intros. unfold orient, cross, psub, px, py; cbn [fst snd]. ring. Qed.
Lemma cross_anti : forall p q, cross p q == - cross q p.
Proof. intros. unfold cross. ring. Qed.

Lemma path_fan : forall x m p,
  sh_p (pairs_of (p :: m ++ [x])) == fan x (p :: m) + cross p x.
Proof.
  intros x. induction m as [|q m IH]; intro p.
  - cbn [app]. unfold sh_p, fan. cbn [pairs_of map Qsum fst snd]. ring.
  - change ((q :: m) ++ [x]) with (q :: m ++ [x]).
    rewrite (Convex.pairs_of_cons2 p q (m ++ [x])), sh_p_cons, IH.
    unfold fan. rewrite (Convex.pairs_of_cons2 p q m). cbn [map Qsum fst snd].
    rewrite (orient_cross3 x p q), (cross_anti x p). ring.
Qed.

Lemma sh_fan : forall x m, sh_p (edges_of (x :: m)) == fan x m.
Proof.
  intros x [|p m].
  - unfold edges_of, sh_p, fan. cbn. unfold cross. ring.
  - rewrite edges_of_cons, sh_p_cons.
    change (p :: m ++ [x]) with (p :: m ++ [x]). rewrite path_fan, (cross_anti x p). ring.
Qed.

Lemma fan_nil : forall x, fan x [] = 0.
Proof. reflexivity. Qed.
Lemma fan_one : forall x a, fan x [a] = 0.
Proof. reflexivity. Qed.
Lemma fan_cons2 : forall x a b t, fan x (a :: b :: t) = orient x a b + fan x (b :: t).
Proof. reflexivity. Qed.

Lemma TP_app : forall l m, TP (l ++ m) -> TP l /\ TP m.
Proof.
  induction l as [|a l IH]; intros m H; cbn [app TP] in *; [tauto|].
  destruct H as [H1 H2]. apply TP1_app in H1. destruct (IH m H2). tauto.
Qed.

Lemma TP1_tail : forall x a t, TP1 x (a :: t) -> TP1 x t.
Proof. intros x a t H. cbn [TP1] in H. tauto. Qed.

Lemma fan_nonneg : forall x m, TP1 x m -> 0 <= fan x m.
Proof.
  intros x. induction m as [|a m IH]; intro H; [rewrite fan_nil; lra|].
  destruct m as [|b t]; [rewrite fan_one; lra|].
  rewrite fan_cons2. pose proof (IH (TP1_tail _ _ _ H)).
  cbn [TP1] in H. destruct H as [H _]. pose proof (H b ltac:(left; reflexivity)). lra.
Qed.

Lemma fan_drop_head : forall x a m, TP1 x (a :: m) -> fan x m <= fan x (a :: m).
Proof.
  intros x a [|b t] H; [rewrite fan_one, fan_nil; lra|].
  rewrite fan_cons2. cbn [TP1] in H. destruct H as [H _].
  pose proof (H b ltac:(left; reflexivity)). lra.
Qed.

Lemma fan_drop_prefix : forall x m1 m, TP1 x (m1 ++ m) -> fan x m <= fan x (m1 ++ m).
Proof.
  intros x. induction m1 as [|a m1 IH]; intros m H; [cbn [app]; lra|].
  cbn [app] in *. pose proof (fan_drop_head x a (m1 ++ m) H).
  pose proof (IH m (TP1_tail _ _ _ H)). lra.
Qed.

Lemma fan_drop_suffix : forall x m m3, TP1 x (m ++ m3) -> fan x m <= fan x (m ++ m3).
Proof.
  intros x. induction m as [|a m IH]; intros m3 H.
  - cbn [app]. pose proof (fan_nonneg x m3 H). rewrite fan_nil. lra.
  - destruct m as [|b t].
    + cbn [app]. pose proof (fan_nonneg x (a :: m3) H). rewrite fan_one. lra.
    + change ((a :: b :: t) ++ m3) with (a :: b :: (t ++ m3)). rewrite !fan_cons2.
      pose proof (IH m3 (TP1_tail _ _ _ H)) as K.
      change ((b :: t) ++ m3) with (b :: t ++ m3) in K. lra.
Qed.

Lemma orient_tri_split : forall x y p z,
  orient x y p + orient x p z == orient x y z + orient y p z.
Proof. intros. rewrite !orient_expand. ring. Qed.

Lemma fan_chord : forall x m2 y z, TP1 x (y :: m2 ++ [z]) -> TP (y :: m2 ++ [z]) ->
  orient x y z <= fan x (y :: m2 ++ [z]).
Proof.
  intros x. induction m2 as [|p m IH]; intros y z H1 H2.
  - cbn [app]. unfold fan. cbn [pairs_of map Qsum fst snd]. lra.
  - change ((p :: m) ++ [z]) with (p :: m ++ [z]) in *. rewrite fan_cons2.
    pose proof (IH p z (TP1_tail _ _ _ H1) (proj2 H2)) as K.
    pose proof (orient_tri_split x y p z) as E.
    cbn [TP TP1] in H2. destruct H2 as ((H2 & _) & _).
    pose proof (H2 z ltac:(apply in_or_app; right; left; reflexivity)). lra.
Qed.

(* ordered triple, first vertex at the head *)
Lemma head_triple_le : forall x m1 y m2 z m3, TP (x :: m1 ++ y :: m2 ++ z :: m3) ->
  orient x y z <= sh_p (edges_of (x :: m1 ++ y :: m2 ++ z :: m3)).
Proof.
  intros x m1 y m2 z m3 H. rewrite sh_fan. cbn [TP] in H. destruct H as [H1 H2].
  pose proof (fan_drop_prefix x m1 _ H1) as K1.
  apply TP1_app in H1. destruct H1 as (_ & H1 & _).
  apply TP_app in H2. destruct H2 as [_ H2].
  assert (E : y :: m2 ++ z :: m3 = (y :: m2 ++ [z]) ++ m3).
  { cbn [app]. rewrite <- app_assoc. reflexivity. }
  rewrite E in *.
  pose proof (fan_drop_suffix x _ m3 H1) as K2.
  apply TP1_app in H1. destruct H1 as (H1 & _ & _).
  apply TP_app in H2. destruct H2 as [H2 _].
  pose proof (fan_chord x m2 y z H1 H2). lra.
Qed.

Lemma sh_p_app : forall l m, sh_p (l ++ m) == sh_p l + sh_p m.
Proof. intros l m. unfold sh_p. rewrite map_app. apply Construct.Qsum_app. Qed.

Lemma sh_rot1 : forall a l, sh_p (edges_of (l ++ [a])) == sh_p (edges_of (a :: l)).
Proof.
  intros a [|b t]; [reflexivity|].
  change ((b :: t) ++ [a]) with (b :: t ++ [a]).
  rewrite edges_of_rot, edges_of_cons, sh_p_app.
  assert (E : sh_p [(a, b)] == cross a b) by (unfold sh_p; cbn [map Qsum fst snd]; ring).
  rewrite E, (sh_p_cons a b (pairs_of (b :: t ++ [a]))). ring.
Qed.

Lemma sh_rots : forall l1 l2, sh_p (edges_of (l1 ++ l2)) == sh_p (edges_of (l2 ++ l1)).
Proof.
  induction l1 as [|a p IH]; intro l2; [rewrite app_nil_r; reflexivity|].
  change ((a :: p) ++ l2) with (a :: (p ++ l2)).
  rewrite <- sh_rot1, <- app_assoc, IH, <- app_assoc. reflexivity.
Qed.

Lemma orient_aab : forall a b, orient a a b == 0.
Proof. intros. rewrite orient_expand. ring. Qed.

(* any three vertices of a strictly convex polygon span at most its area *)
Lemma vertex_triple_le : forall vs x y z, convex_ccw vs -> In x vs -> In y vs -> In z vs ->
  orient x y z <= sh_p (edges_of vs).
Proof.
  intros vs x y z HC Hx Hy Hz.
  assert (P : 0 < sh_p (edges_of vs)).
  { destruct (convex_shape vs HC) as (a & b & c & r & ->). apply convex_shoelace_pos_P, HC. }
  destruct (in_split x vs Hx) as (l1 & l2 & E). subst vs.
  destruct HC as [_ HT]. apply (TP_rots l1 (x :: l2)) in HT.
  rewrite (sh_rots l1 (x :: l2)) in *.
  change ((x :: l2) ++ l1) with (x :: (l2 ++ l1)) in *. set (m := l2 ++ l1) in *.
  assert (Mem : forall w, In w (l1 ++ x :: l2) -> w = x \/ In w m).
  { intros w Hw. unfold m. apply in_app_or in Hw. destruct Hw as [Hw|[<-|Hw]];
      [right; apply in_or_app; right; exact Hw | left; reflexivity
      | right; apply in_or_app; left; exact Hw]. }
  destruct (Mem y Hy) as [->|My]; [rewrite orient_aab; lra|].
  destruct (Mem z Hz) as [->|Mz]; [rewrite orient_aba; lra|].
  clearbody m. clear Mem Hx Hy Hz.
  destruct (in_split y m My) as (m1 & m2 & E). subst m.
  apply in_app_or in Mz. destruct Mz as [Mz|[<-|Mz]].
  - destruct (in_split z m1 Mz) as (m1a & m1b & E). subst m1.
    rewrite <- app_assoc in *. cbn [app] in *.
    pose proof (head_triple_le x m1a z m1b y m2 HT) as K.
    pose proof (TP_triple [] x m1a z m1b y m2 HT) as T.
    assert (S : orient x y z == - orient x z y) by (rewrite !orient_expand; ring). lra.
  - rewrite orient_abb. lra.
  - destruct (in_split z m2 Mz) as (m2a & m3 & E). subst m2.
    exact (head_triple_le x m1 y m2a z m3 HT).
Qed.

Lemma list_max_dec : forall (f : point -> Q) c l,
  (exists w, In w l /\ c <= f w) \/ (forall w, In w l -> f w < c).
Proof.
  intros f c. induction l as [|a l IH]; [right; intros w []|].
  destruct (Qlt_le_dec (f a) c) as [L|G].
  - destruct IH as [(w & Hw & K)|IH]; [left; exists w; split; [right; exact Hw | exact K]|].
    right. intros w [<-|Hw]; [exact L | apply IH, Hw].
  - left. exists a. split; [left; reflexivity | exact G].
Qed.

(* an affine function on the closed polygon is at most its value at some vertex *)
Lemma affine_max_vertex : forall vs f p, convex_ccw_b vs = true -> affine f ->
  in_closed (poly_of vs) p -> exists w, In w vs /\ f p <= f w.
Proof.
  intros vs f p HC Af Hp.
  destruct (list_max_dec f (f p) vs) as [K|K]; [exact K|exfalso].
  assert (Ag : affine (fun q => -1 * f q + f p)) by (apply affine_shift, Af).
  pose proof (convex_affine_pos vs _ p HC Ag) as P. cbv beta in P.
  assert (0 < -1 * f p + f p).
  { apply P; [|exact (in_closed_cases vs p HC Hp)]. intros w Hw. pose proof (K w Hw). lra. }
  lra.
Qed.

Lemma tri_push_vertices : forall vs u v w, convex_ccw_b vs = true ->
  in_closed (poly_of vs) u -> in_closed (poly_of vs) v -> in_closed (poly_of vs) w ->
  exists x y z, In x vs /\ In y vs /\ In z vs /\ orient u v w <= orient x y z.
Proof.
  intros vs u v w HC Hu Hv Hw.
  destruct (affine_max_vertex vs (orient v w) u HC (affine_orient _ _) Hu) as (x & Hx & K1).
  destruct (affine_max_vertex vs (orient w x) v HC (affine_orient _ _) Hv) as (y & Hy & K2).
  destruct (affine_max_vertex vs (orient x y) w HC (affine_orient _ _) Hw) as (z & Hz & K3).
  exists x, y, z. repeat split; try assumption.
  pose proof (orient_cycle u v w) as C1. pose proof (orient_cycle x v w) as C2.
  pose proof (orient_cycle v w x) as C3. pose proof (orient_cycle w x y) as C5. lra.
Qed.

(* a triangle with its corners in the closed polygon has at most its area *)
Theorem tri_in_convex_area : forall vs u v w, convex_ccw_b vs = true ->
  in_closed (poly_of vs) u -> in_closed (poly_of vs) v -> in_closed (poly_of vs) w ->
  orient u v w <= shoelace2 (poly_of vs).
Proof.
  intros vs u v w HC Hu Hv Hw.
  destruct (tri_push_vertices vs u v w HC Hu Hv Hw) as (x & y & z & Hx & Hy & Hz & K).
  rewrite shoelace2_poly_of.
  pose proof (vertex_triple_le vs x y z (proj1 (convex_ccw_b_ok vs) HC) Hx Hy Hz). lra.
Qed.

(* in terms of the areas the model computes *)
Theorem tri_area_mono : forall va a b c, convex_ccw_b va = true -> convex_ccw_b [a; b; c] = true ->
  (forall w, In w [a; b; c] -> in_closed (poly_of va) w) ->
  jordan_area (poly_of [a; b; c]) <= jordan_area (poly_of va).
Proof.
  intros va a b c Ca Cb Hv.
  rewrite (area_shoelace _ (convex_lines va Ca) (convex_closed va Ca)).
  rewrite (area_shoelace _ (convex_lines _ Cb) (convex_closed _ Cb)).
  rewrite (shoelace2_poly_of [a; b; c]), sh_triangle.
  pose proof (tri_in_convex_area va a b c Ca (Hv a ltac:(cbn; tauto)) (Hv b ltac:(cbn; tauto))
                (Hv c ltac:(cbn; tauto))) as K.
  unfold Qdiv. apply Qmult_le_compat_r; [exact K | discriminate].
Qed.

(* ================================================================== *)
(* 3. the model function on two bounded curves                         *)
(* ================================================================== *)
Lemma Qlt_bool_false_intro : forall a b, b <= a -> Qlt_bool a b = false.
Proof.
  intros a b H. destruct (Qlt_bool a b) eqn:E; [|reflexivity].
  apply Qlt_bool_iff in E. lra.
Qed.

(* both areas positive: the case analysis of SimpleShape.__contains_simple *)
Lemma shs_pos : forall self other, 0 < jordan_area self -> 0 < jordan_area other ->
  simple_has_simple self other =
  match box_and (jordan_box self) (jordan_box other) with
  | None => Ok false
  | Some _ => if Qlt_bool (jordan_area self) (jordan_area other) then Ok false
              else simple_has_jordan self other true
  end.
Proof.
  intros self other Ps Po. unfold simple_has_simple.
  rewrite (Qlt_bool_false_intro (jordan_area other) 0) by lra.
  rewrite (Qlt_bool_false_intro (jordan_area self) 0) by lra.
  rewrite (proj2 (Qlt_bool_iff 0 (jordan_area other)) Po).
  cbn [andb].
  destruct (box_and (jordan_box self) (jordan_box other)); [|reflexivity].
  destruct (Qlt_bool (jordan_area self) (jordan_area other)); [reflexivity|].
  destruct (simple_has_jordan self other true) as [[|]| |]; reflexivity.
Qed.

Lemma poly_of_seg_inv : forall vs s, In s (poly_of vs) ->
  exists e, In e (edges_of vs) /\ s = [fst e; snd e].
Proof.
  intros vs s H. unfold poly_of in H. apply in_map_iff in H.
  destruct H as (e & <- & He). exists e. split; [exact He | reflexivity].
Qed.

Lemma poly_of_vertex_seg : forall vs w, vs <> [] -> In w vs ->
  exists b, In [w; b] (poly_of vs).
Proof.
  intros vs w N Hw. destruct (poly_of_spec vs N) as (V & _ & _ & _).
  rewrite <- V in Hw. unfold vertices in Hw. apply in_concat in Hw.
  destruct Hw as (l & Hl & Hw). apply in_map_iff in Hl. destruct Hl as (s & <- & Hs).
  destruct (poly_of_seg_inv vs s Hs) as (e & _ & ->).
  cbn [removelast] in Hw. destruct Hw as [<-|[]]. exists (snd e). exact Hs.
Qed.

Lemma seg_pt_on_boundary : forall j u v t p, In [u; v] j -> 0 <= t -> t <= 1 ->
  peq p (pt_at u v t) -> on_boundary j p = true.
Proof.
  intros j u v t p Hs T0 T1 P. unfold on_boundary. apply existsb_exists.
  exists [u; v]. split; [exact Hs|]. cbn [first_pt last_pt hd last].
  exact (Tolerance.on_edge_param u v p t T0 T1 P).
Qed.

Lemma vertex_on_boundary : forall vs w, vs <> [] -> In w vs -> on_boundary (poly_of vs) w = true.
Proof.
  intros vs w N Hw. destruct (poly_of_vertex_seg vs w N Hw) as (b & Hs).
  apply (seg_pt_on_boundary _ w b 0 w Hs); [lra | lra|].
  unfold peq, pt_at, px, py; cbn [fst snd]. split; ring.
Qed.

Lemma curve_pt_on_boundary : forall vs p, curve_pt (poly_of vs) p -> on_boundary (poly_of vs) p = true.
Proof.
  intros vs p (s & t & Hs & T0 & T1 & ->).
  destruct (poly_of_seg_inv vs s Hs) as (e & _ & ->).
  apply (seg_pt_on_boundary _ (fst e) (snd e) t _ Hs T0 T1). apply eval_deg1.
Qed.

(* the tolerance hypothesis of the curve-level theorems (C03): at every point of
   the curve.  It fails as soon as the curves cross (points of j within 1e-6 of
   an edge of self, not on it), so the theorems below only ask for it at the
   finitely many points the model tests: [tol_tested]. *)
Definition tol_hyp (self j : jordan) : Prop := forall p, curve_pt j p -> tol_exact self p.

Definition tested (self j : jordan) (p : point) : Prop :=
  (exists s, In s j /\ p = evalr s 0) \/ sampled self j p.
Definition tol_tested (self j : jordan) : Prop := forall p, tested self j p -> tol_exact self p.

Lemma tol_hyp_tested : forall self j, tol_hyp self j -> tol_tested self j.
Proof.
  intros self j H p [(s & Hs & ->)|Sp].
  - apply (tol_exact_peq self (eval s 0) _ (peq_sym _ _ (Construct.pred_peq (eval s 0)))).
    apply H. exists s, 0. split; [exact Hs|]. split; [lra|]. split; [lra | reflexivity].
  - apply H. exact (sampled_on_curve self j p Sp).
Qed.

(* decidable *)
Definition tol_tested_b (self j : jordan) : bool :=
  match sample_list self j with
  | Ok l => forallb (tol_exact_b self) (map (fun s => evalr s 0) j ++ l)
  | _ => false
  end.
Lemma tol_tested_b_ok : forall self j, tol_tested_b self j = true -> tol_tested self j.
Proof.
  intros self j H p Tp. unfold tol_tested_b in H.
  destruct (sample_list self j) as [l| |] eqn:SL; try discriminate.
  rewrite forallb_forall in H. apply tol_exact_b_ok, H, in_or_app.
  destruct Tp as [(s & Hs & ->)|Sp].
  - left. apply in_map_iff. exists s. split; [reflexivity | exact Hs].
  - right. exact (sampled_list self j l p SL Sp).
Qed.

Lemma evalr0_vertex : forall w b, peq (evalr [w; b] 0) w.
Proof.
  intros w b. unfold evalr.
  apply (peq_trans _ (eval [w; b] 0)); [apply Construct.pred_peq | apply eval_line_0].
Qed.

Lemma tol_tested_vertex : forall self vs w, vs <> [] -> tol_tested self (poly_of vs) -> In w vs ->
  tol_exact self w.
Proof.
  intros self vs w N H Hw. destruct (poly_of_vertex_seg vs w N Hw) as (b & Hs).
  apply (tol_exact_peq self (evalr [w; b] 0) w (evalr0_vertex w b)).
  apply H. left. exists [w; b]. split; [exact Hs | reflexivity].
Qed.

Lemma tol_hyp_vertex : forall self vs w, vs <> [] -> tol_hyp self (poly_of vs) -> In w vs ->
  tol_exact self w.
Proof. intros self vs w N H. apply (tol_tested_vertex self vs w N), tol_hyp_tested, H. Qed.

(* ITEM 2, first half: the curve-level answer True puts every vertex of B into closed A *)
Lemma vertex_in_closed : forall va vb, convex_ccw_b va = true -> convex_ccw_b vb = true ->
  (forall w, In w vb -> tol_exact (poly_of va) w) ->
  simple_has_jordan (poly_of va) (poly_of vb) true = Ok true ->
  forall w, In w vb -> in_closed (poly_of va) w.
Proof.
  intros va vb Ca Cb Tol H w Hw.
  destruct (poly_of_vertex_seg vb w (convex_nonempty vb Cb) Hw) as (b & Hs).
  pose proof (simple_has_jordan_vertices _ _ _ H [w; b] Hs) as V.
  pose proof (evalr0_vertex w b) as P.
  unfold in_closed. rewrite <- (region_simple_pt_peq (poly_of va) _ _ P).
  apply (simple_has_point_true_region (poly_of va) (evalr [w; b] 0) true);
    [apply convex_lines, Ca | apply convex_closed, Ca | | apply convex_region_defined, Ca | exact V].
  apply (tol_exact_peq _ w _ (peq_sym _ _ P)). apply Tol, Hw.
Qed.

(* vertices of B in closed A  ->  closed B inside closed A *)
Theorem convex_vertices_closed : forall va vb, convex_ccw_b va = true -> convex_ccw_b vb = true ->
  (forall w, In w vb -> in_closed (poly_of va) w) ->
  forall p, in_closed (poly_of vb) p -> in_closed (poly_of va) p.
Proof.
  intros va vb Ca Cb Hv p Hp. apply (convex_closed_iff va p Ca). intros e He.
  apply (convex_affine_nonneg vb (orient (fst e) (snd e)) p Cb (affine_orient _ _)).
  - intros w Hw. exact (proj1 (convex_closed_iff va w Ca) (Hv w Hw) e He).
  - exact (in_closed_cases vb p Cb Hp).
Qed.

(* ITEM 2.  SOUNDNESS at the level of regions *)
Theorem convex_in_sound : forall va vb, convex_ccw_b va = true -> convex_ccw_b vb = true ->
  (forall w, In w vb -> tol_exact (poly_of va) w) ->
  simple_has_simple (poly_of va) (poly_of vb) = Ok true ->
  forall p, in_closed (poly_of vb) p -> in_closed (poly_of va) p.
Proof.
  intros va vb Ca Cb Tol H.
  rewrite (shs_pos _ _ (convex_area_pos va Ca) (convex_area_pos vb Cb)) in H.
  destruct (box_and _ _); [|discriminate].
  destruct (Qlt_bool _ _); [discriminate|].
  apply (convex_vertices_closed va vb Ca Cb).
  exact (vertex_in_closed va vb Ca Cb Tol H).
Qed.

Lemma wn1_in_closed : forall vs p, convex_ccw_b vs = true ->
  wn_lines (poly_of vs) p = 1%Z -> in_closed (poly_of vs) p.
Proof.
  intros vs p HC W. unfold in_closed, region_simple. rewrite (convex_pos_flag vs HC), W.
  destruct (on_boundary (poly_of vs) p); [right | left]; reflexivity.
Qed.

(* in the form of the task statement, under the hypotheses of simple_has_jordan_iff
   (general position and region <> RUndef are not needed) *)
Corollary convex_in_sound_wn : forall va vb, convex_ccw_b va = true -> convex_ccw_b vb = true ->
  tol_hyp (poly_of va) (poly_of vb) ->
  simple_has_simple (poly_of va) (poly_of vb) = Ok true ->
  forall p, wn_lines (poly_of vb) p = 1%Z ->
  region_simple (poly_of va) p = RIn \/ region_simple (poly_of va) p = RBdry.
Proof.
  intros va vb Ca Cb Tol H p W.
  apply (convex_in_sound va vb Ca Cb); [|exact H | apply wn1_in_closed; assumption].
  intros w Hw. exact (tol_hyp_vertex _ vb w (convex_nonempty vb Cb) Tol Hw).
Qed.

(* ================================================================== *)
(* 4. the answer False: a witness point                                *)
(* ================================================================== *)
(* whenever the curve test answers False, one of the finitely many tested
   points was rejected (any curves, any flag) *)
Lemma shj_false_witness : forall self j b, simple_has_jordan self j b = Ok false ->
  exists p, ((exists s, In s j /\ p = evalr s 0) \/ sampled self j p) /\
            simple_has_point self p b = false.
Proof.
  intros self j b H. unfold simple_has_jordan in H.
  destruct (forallb (fun p => simple_has_point self p b) (points j 0)) eqn:V; cbn [negb] in H.
  - destruct (intersection j self false true) as [inters| |] eqn:I; cbn [bind] in H;
      try discriminate.
    apply Ok_inj in H. destruct (forallb_false _ _ H) as ([a s] & Has & F).
    cbv beta iota zeta in F. destruct (forallb_false _ _ F) as (m & Hm & Fm).
    exists (eval s m). split; [|exact Fm]. right. exists inters, a, s, m.
    split; [exact I|]. split; [exact Has|]. split; [exact Hm | reflexivity].
  - destruct (forallb_false _ _ V) as (p & Hp & Fp). exists p. split; [|exact Fp]. left.
    unfold points in Hp. apply in_concat in Hp. destruct Hp as (l & Hl & Hp).
    apply in_map_iff in Hl. destruct Hl as (s & <- & Hs).
    destruct Hp as [<-|[]]. exists s. split; [exact Hs | reflexivity].
Qed.

Lemma rejected_is_out : forall vs p, convex_ccw_b vs = true -> tol_exact (poly_of vs) p ->
  simple_has_point (poly_of vs) p true = false -> region_simple (poly_of vs) p = ROut.
Proof.
  intros vs p HC T F.
  pose proof (simple_has_point_spec (poly_of vs) p true (convex_lines vs HC) T
                (jordan_pos_shoelace _ (convex_lines vs HC) (convex_closed vs HC))) as S.
  rewrite F in S. pose proof (convex_region_defined vs p HC) as NU.
  destruct (region_simple (poly_of vs) p); cbn in S; try discriminate; congruence.
Qed.

(* the curve test *)
Lemma convex_shj_false : forall va vb, convex_ccw_b va = true -> convex_ccw_b vb = true ->
  tol_tested (poly_of va) (poly_of vb) ->
  simple_has_jordan (poly_of va) (poly_of vb) true = Ok false ->
  exists p, on_boundary (poly_of vb) p = true /\ region_simple (poly_of va) p = ROut.
Proof.
  intros va vb Ca Cb Tol H.
  destruct (shj_false_witness _ _ _ H) as (p & Tp & F).
  pose proof (rejected_is_out va p Ca (Tol p Tp) F) as Op.
  destruct Tp as [(s & Hs & ->)|Sp].
  - destruct (poly_of_seg_inv vb s Hs) as ([u v] & He & ->). cbn [fst snd] in *.
    pose proof (evalr0_vertex u v) as P.
    destruct (edges_of_In vb u v He) as [Hu _].
    exists u. split; [apply vertex_on_boundary; [apply convex_nonempty, Cb | exact Hu]|].
    rewrite <- (region_simple_pt_peq (poly_of va) _ _ P). exact Op.
  - exists p. split; [|exact Op].
    apply curve_pt_on_boundary. exact (sampled_on_curve _ _ p Sp).
Qed.

(* closed convex polygons lie in their bounding boxes *)
Lemma vertex_in_box : forall vs w, convex_ccw_b vs = true -> In w vs ->
  bxmin (jordan_box (poly_of vs)) <= px w /\ px w <= bxmax (jordan_box (poly_of vs)) /\
  bymin (jordan_box (poly_of vs)) <= py w /\ py w <= bymax (jordan_box (poly_of vs)).
Proof.
  intros vs w HC Hw. apply on_boundary_in_box; [apply convex_lines, HC|].
  apply vertex_on_boundary; [apply convex_nonempty, HC | exact Hw].
Qed.

Theorem convex_closed_in_box : forall vs p, convex_ccw_b vs = true -> in_closed (poly_of vs) p ->
  bxmin (jordan_box (poly_of vs)) <= px p /\ px p <= bxmax (jordan_box (poly_of vs)) /\
  bymin (jordan_box (poly_of vs)) <= py p /\ py p <= bymax (jordan_box (poly_of vs)).
Proof.
  intros vs p HC Hp. pose proof (in_closed_cases vs p HC Hp) as Cs.
  set (B := jordan_box (poly_of vs)).
  pose proof (convex_affine_nonneg vs (fun q => 1 * px q + - bxmin B) p HC
                (affine_shift px 1 _ affine_px)) as K1.
  pose proof (convex_affine_nonneg vs (fun q => -1 * px q + bxmax B) p HC
                (affine_shift px (-1) _ affine_px)) as K2.
  pose proof (convex_affine_nonneg vs (fun q => 1 * py q + - bymin B) p HC
                (affine_shift py 1 _ affine_py)) as K3.
  pose proof (convex_affine_nonneg vs (fun q => -1 * py q + bymax B) p HC
                (affine_shift py (-1) _ affine_py)) as K4.
  cbv beta in K1, K2, K3, K4.
  assert (V : forall w, In w vs ->
    bxmin B <= px w /\ px w <= bxmax B /\ bymin B <= py w /\ py w <= bymax B)
    by (intros w Hw; exact (vertex_in_box vs w HC Hw)).
  assert (0 <= 1 * px p + - bxmin B) by (apply K1; [intros w Hw; pose proof (V w Hw); lra | exact Cs]).
  assert (0 <= -1 * px p + bxmax B) by (apply K2; [intros w Hw; pose proof (V w Hw); lra | exact Cs]).
  assert (0 <= 1 * py p + - bymin B) by (apply K3; [intros w Hw; pose proof (V w Hw); lra | exact Cs]).
  assert (0 <= -1 * py p + bymax B) by (apply K4; [intros w Hw; pose proof (V w Hw); lra | exact Cs]).
  repeat split; lra.
Qed.

(* disjoint boxes: every vertex of B is outside A *)
Lemma convex_boxes_disjoint : forall va vb w, convex_ccw_b va = true -> convex_ccw_b vb = true ->
  box_and (jordan_box (poly_of va)) (jordan_box (poly_of vb)) = None ->
  In w vb -> region_simple (poly_of va) w = ROut.
Proof.
  intros va vb w Ca Cb HN Hw.
  destruct (convex_out_or_closed va w Ca) as [O|C]; [exact O|exfalso].
  destruct (convex_closed_in_box va w Ca C) as (A1 & A2 & A3 & A4).
  destruct (vertex_in_box vb w Cb Hw) as (B1 & B2 & B3 & B4).
  unfold box_and in HN.
  match type of HN with context [Qlt_bool ?a ?b] => destruct (Qlt_bool a b) eqn:X end.
  { apply Lines.Qlt_bool_true in X.
    pose proof (Lines.Qmax'_lub _ _ _ A1 B1). pose proof (Lines.Qmin'_glb _ _ _ A2 B2). lra. }
  match type of HN with context [Qlt_bool ?a ?b] => destruct (Qlt_bool a b) eqn:Y end.
  { apply Lines.Qlt_bool_true in Y.
    pose proof (Lines.Qmax'_lub _ _ _ A3 B3). pose proof (Lines.Qmin'_glb _ _ _ A4 B4). lra. }
  discriminate.
Qed.

(* the area test `area A < area B -> False` is right as soon as area is monotone
   for the pair at hand; this is PROVED for triangles B (tri_area_mono) and is
   otherwise a hypothesis, implied by the decidable `area A < area B` = false *)
Definition area_mono (va vb : list point) : Prop :=
  (forall w, In w vb -> in_closed (poly_of va) w) ->
  jordan_area (poly_of vb) <= jordan_area (poly_of va).

Lemma area_mono_checked : forall va vb,
  Qlt_bool (jordan_area (poly_of va)) (jordan_area (poly_of vb)) = false -> area_mono va vb.
Proof.
  intros va vb H _. destruct (Qlt_le_dec (jordan_area (poly_of va)) (jordan_area (poly_of vb))) as [L|G];
    [|exact G]. apply Qlt_bool_iff in L. congruence.
Qed.

Lemma area_mono_triangle : forall va a b c, convex_ccw_b va = true ->
  convex_ccw_b [a; b; c] = true -> area_mono va [a; b; c].
Proof. intros va a b c Ca Cb Hv. exact (tri_area_mono va a b c Ca Cb Hv). Qed.

Lemma vertices_closed_or_out : forall va l, convex_ccw_b va = true ->
  (forall w, In w l -> in_closed (poly_of va) w) \/
  (exists w, In w l /\ region_simple (poly_of va) w = ROut).
Proof.
  intros va l Ca. induction l as [|x l IH]; [left; intros w []|].
  destruct (convex_out_or_closed va x Ca) as [O|C].
  - right. exists x. split; [left; reflexivity | exact O].
  - destruct IH as [IH|(w & Hw & O)].
    + left. intros w [<-|Hw]; [exact C | apply IH, Hw].
    + right. exists w. split; [right; exact Hw | exact O].
Qed.

(* ITEM 3.  The answer False: a boundary point of B that is strictly outside A *)
Theorem convex_in_false_gen : forall va vb, convex_ccw_b va = true -> convex_ccw_b vb = true ->
  tol_tested (poly_of va) (poly_of vb) -> area_mono va vb ->
  simple_has_simple (poly_of va) (poly_of vb) = Ok false ->
  exists p, on_boundary (poly_of vb) p = true /\ region_simple (poly_of va) p = ROut.
Proof.
  intros va vb Ca Cb Tol Am H.
  rewrite (shs_pos _ _ (convex_area_pos va Ca) (convex_area_pos vb Cb)) in H.
  destruct (box_and _ _) eqn:Bx.
  - destruct (Qlt_bool _ _) eqn:Ar; [|exact (convex_shj_false va vb Ca Cb Tol H)].
    apply Qlt_bool_iff in Ar.
    destruct (vertices_closed_or_out va vb Ca) as [Hv|(w & Hw & O)].
    + pose proof (Am Hv). lra.
    + exists w. split; [|exact O].
      apply vertex_on_boundary; [apply convex_nonempty, Cb | exact Hw].
  - pose proof (convex_ccw_b_ok vb) as [K _]. destruct (convex_shape vb (K Cb)) as (a & b & c & r & E).
    exists a. assert (Ha : In a vb) by (rewrite E; left; reflexivity). split.
    + apply vertex_on_boundary; [apply convex_nonempty, Cb | exact Ha].
    + exact (convex_boxes_disjoint va vb a Ca Cb Bx Ha).
Qed.

Corollary convex_in_false : forall va vb, convex_ccw_b va = true -> convex_ccw_b vb = true ->
  tol_tested (poly_of va) (poly_of vb) ->
  Qlt_bool (jordan_area (poly_of va)) (jordan_area (poly_of vb)) = false ->
  simple_has_simple (poly_of va) (poly_of vb) = Ok false ->
  exists p, on_boundary (poly_of vb) p = true /\ region_simple (poly_of va) p = ROut.
Proof.
  intros va vb Ca Cb Tol Ar. apply (convex_in_false_gen va vb Ca Cb Tol), area_mono_checked, Ar.
Qed.

(* ================================================================== *)
(* 5. totality and the characterisation                                *)
(* ================================================================== *)
Lemma shj_total : forall self j b, all_lines self = true -> all_lines j = true ->
  exists r, simple_has_jordan self j b = Ok r.
Proof.
  intros self j b HL HLj.
  destruct (intersection_lines_total j self false true HLj HL) as (inters & I).
  unfold simple_has_jordan.
  destruct (negb (forallb (fun p => simple_has_point self p b) (points j 0)));
    [eexists; reflexivity|].
  rewrite I. cbn [bind]. eexists; reflexivity.
Qed.

(* on two convex polygons the model never raises *)
Theorem convex_in_total : forall va vb, convex_ccw_b va = true -> convex_ccw_b vb = true ->
  exists r, simple_has_simple (poly_of va) (poly_of vb) = Ok r.
Proof.
  intros va vb Ca Cb.
  rewrite (shs_pos _ _ (convex_area_pos va Ca) (convex_area_pos vb Cb)).
  destruct (box_and _ _); [|eexists; reflexivity].
  destruct (Qlt_bool _ _); [eexists; reflexivity|].
  apply shj_total; apply convex_lines; assumption.
Qed.

Lemma on_boundary_in_closed : forall j p, on_boundary j p = true -> in_closed j p.
Proof. intros j p H. right. unfold region_simple. rewrite H. reflexivity. Qed.

(* ITEM 4.  `B in A` decides the inclusion of the closed regions *)
Theorem convex_in_iff_gen : forall va vb, convex_ccw_b va = true -> convex_ccw_b vb = true ->
  tol_tested (poly_of va) (poly_of vb) -> area_mono va vb ->
  (simple_has_simple (poly_of va) (poly_of vb) = Ok true <->
   forall p, in_closed (poly_of vb) p -> in_closed (poly_of va) p).
Proof.
  intros va vb Ca Cb Tol Am. split.
  - intro H. apply (convex_in_sound va vb Ca Cb); [|exact H].
    intros w Hw. exact (tol_tested_vertex _ vb w (convex_nonempty vb Cb) Tol Hw).
  - intro Sub. destruct (convex_in_total va vb Ca Cb) as ([|] & E); [exact E|exfalso].
    destruct (convex_in_false_gen va vb Ca Cb Tol Am E) as (p & Bp & Op).
    destruct (Sub p (on_boundary_in_closed _ p Bp)) as [K|K]; congruence.
Qed.

(* with the decidable area hypothesis *)
Corollary convex_in_iff_area : forall va vb, convex_ccw_b va = true -> convex_ccw_b vb = true ->
  tol_tested (poly_of va) (poly_of vb) ->
  Qlt_bool (jordan_area (poly_of va)) (jordan_area (poly_of vb)) = false ->
  (simple_has_simple (poly_of va) (poly_of vb) = Ok true <->
   forall p, in_closed (poly_of vb) p -> in_closed (poly_of va) p).
Proof.
  intros va vb Ca Cb Tol Ar. apply (convex_in_iff_gen va vb Ca Cb Tol), area_mono_checked, Ar.
Qed.

(* B a triangle: no area hypothesis *)
Corollary convex_in_iff_triangle : forall va a b c,
  convex_ccw_b va = true -> convex_ccw_b [a; b; c] = true ->
  tol_tested (poly_of va) (poly_of [a; b; c]) ->
  (simple_has_simple (poly_of va) (poly_of [a; b; c]) = Ok true <->
   forall p, in_closed (poly_of [a; b; c]) p -> in_closed (poly_of va) p).
Proof.
  intros va a b c Ca Cb Tol.
  apply (convex_in_iff_gen va [a; b; c] Ca Cb Tol), area_mono_triangle; assumption.
Qed.

(* the answer False is correct in the same sense *)
Corollary convex_in_false_iff_gen : forall va vb, convex_ccw_b va = true -> convex_ccw_b vb = true ->
  tol_tested (poly_of va) (poly_of vb) -> area_mono va vb ->
  (simple_has_simple (poly_of va) (poly_of vb) = Ok false <->
   exists p, on_boundary (poly_of vb) p = true /\ region_simple (poly_of va) p = ROut).
Proof.
  intros va vb Ca Cb Tol Am. split; [apply convex_in_false_gen; assumption|].
  intros (p & Bp & Op). destruct (convex_in_total va vb Ca Cb) as ([|] & E); [exfalso|exact E].
  pose proof (proj1 (convex_in_iff_gen va vb Ca Cb Tol Am) E) as S.
  destruct (S p (on_boundary_in_closed _ p Bp)) as [K|K]; congruence.
Qed.

(* ================================================================== *)
(* 5b. the open regions                                                *)
(* ================================================================== *)
(* the open region: strictly on the left of every edge *)
Theorem convex_open_iff : forall vs p, convex_ccw_b vs = true ->
  (region_simple (poly_of vs) p = RIn <->
   forall e, In e (edges_of vs) -> 0 < orient (fst e) (snd e) p).
Proof.
  intros vs p HC. split.
  - intros H e He.
    pose proof (proj1 (convex_closed_iff vs p HC) (or_introl H)) as Hall.
    destruct (Qlt_le_dec 0 (orient (fst e) (snd e) p)) as [L|G]; [exact L|exfalso].
    pose proof (Hall e He) as K.
    assert (Ez : orient (fst e) (snd e) p == 0) by lra.
    assert (Bd : on_boundary (poly_of vs) p = true).
    { apply (convex_boundary vs p HC Hall). exists e. split; assumption. }
    unfold region_simple in H. rewrite Bd in H. discriminate.
  - intro S. unfold region_simple.
    rewrite (strictly_inside_off vs p S), (convex_pos_flag vs HC), (convex_inside vs p HC S).
    reflexivity.
Qed.

Lemma edge_has_left_vertex : forall vs e, convex_ccw vs -> In e (edges_of vs) ->
  exists z, In z vs /\ 0 < orient (fst e) (snd e) z.
Proof.
  intros vs e HC He.
  apply (edge_wlog (fun vs e => exists z, In z vs /\ 0 < orient (fst e) (snd e) z)); try assumption.
  - intros a b l e' (z & Hz & K). exists z. split; [|exact K].
    change (b :: l ++ [a]) with ((b :: l) ++ [a]) in Hz. apply in_app_or in Hz.
    destruct Hz as [Hz|[<-|[]]]; [right; exact Hz | left; reflexivity].
  - intros a b l [HL HT]. destruct l as [|c r]; [cbn in HL; lia|].
    exists c. split; [right; right; left; reflexivity|]. cbn [fst snd].
    cbn [TP TP1] in HT. destruct HT as ((H1 & _) & _). apply H1. left; reflexivity.
Qed.

(* from a strictly interior point one can move a little AWAY from any vertex *)
Lemma push_eps : forall (l : list (point * point)) p w,
  (forall e, In e l -> 0 < orient (fst e) (snd e) p) ->
  exists eps, 0 < eps /\ forall e, In e l ->
    0 <= (1 + eps) * orient (fst e) (snd e) p - eps * orient (fst e) (snd e) w.
Proof.
  induction l as [|e l IH]; intros p w H.
  - exists 1. split; [lra | intros e []].
  - destruct (IH p w) as (e1 & E1 & K1); [intros e' He'; apply H; right; exact He'|].
    pose proof (H e ltac:(left; reflexivity)) as Hp.
    set (hp := orient (fst e) (snd e) p) in *. set (hw := orient (fst e) (snd e) w).
    destruct (Qlt_le_dec hp hw) as [L|G].
    + (* eps <= hp / (hw - hp) *)
      set (e2 := hp / (hw - hp)).
      assert (D : ~ hw - hp == 0) by lra.
      assert (E2 : e2 * (hw - hp) == hp) by (unfold e2; field; exact D).
      assert (P2 : 0 < e2) by (apply Qlt_shift_div_l; lra).
      destruct (Qlt_le_dec e1 e2) as [M|M].
      * exists e1. split; [exact E1|]. intros e' [<-|He']; [fold hp hw; nra | apply K1, He'].
      * exists e2. split; [exact P2|]. intros e' [<-|He']; [fold hp hw; nra|].
        pose proof (K1 e' He') as K. pose proof (H e' (or_intror He')) as Hp'.
        revert K Hp'. generalize (orient (fst e') (snd e') p) (orient (fst e') (snd e') w).
        intros x y K Hx. 
        destruct (Qlt_le_dec x y) as [XY|XY]; [|nra].
        assert (0 <= (e1 - e2) * (y - x)) by (apply Qmult_le_0_compat; lra). nra.
    + exists e1. split; [exact E1|]. intros e' [<-|He']; [fold hp hw; nra | apply K1, He'].
Qed.

(* vertices of B in closed A  ->  open B inside open A *)
Theorem convex_vertices_open : forall va vb, convex_ccw_b va = true -> convex_ccw_b vb = true ->
  (forall w, In w vb -> in_closed (poly_of va) w) ->
  forall p, region_simple (poly_of vb) p = RIn -> region_simple (poly_of va) p = RIn.
Proof.
  intros va vb Ca Cb Hv p Hp. apply (convex_open_iff va p Ca). intros e He.
  set (f := orient (fst e) (snd e)).
  assert (Fcl : forall q, in_closed (poly_of vb) q -> 0 <= f q).
  { intros q Hq. exact (proj1 (convex_closed_iff va q Ca)
                          (convex_vertices_closed va vb Ca Cb Hv q Hq) e He). }
  pose proof (Fcl p (or_introl Hp)) as F0.
  destruct (Qlt_le_dec 0 (f p)) as [L|G]; [exact L|exfalso].
  assert (Fp : f p == 0) by lra.
  pose proof (proj1 (convex_open_iff vb p Cb) Hp) as Sp.
  (* f vanishes at every vertex of B *)
  assert (Fv : forall w, In w vb -> f w == 0).
  { intros w Hw. destruct (push_eps (edges_of vb) p w Sp) as (eps & E0 & K).
    assert (Cq : in_closed (poly_of vb) (lerp_pt p w (- eps))).
    { apply (convex_closed_iff vb _ Cb). intros e' He'. rewrite orient_lerp.
      pose proof (K e' He'). lra. }
    pose proof (Fcl _ Cq) as Fq. unfold f in Fq. rewrite orient_lerp in Fq. fold f in Fq.
    pose proof (Fcl w (on_boundary_in_closed _ w
                  (vertex_on_boundary vb w (convex_nonempty vb Cb) Hw))).
    nra. }
  (* but B is not contained in a line *)
  pose proof (proj1 (convex_ccw_b_ok vb) Cb) as Cb'.
  destruct (convex_shape vb Cb') as (a & b & c & r & E).
  assert (T : 0 < orient a b c).
  { rewrite E in Cb'. destruct Cb' as [_ HT]. cbn [TP TP1] in HT.
    destruct HT as ((H1 & _) & _). apply H1. left; reflexivity. }
  destruct (edge_has_left_vertex va e (proj1 (convex_ccw_b_ok va) Ca) He) as (z & _ & Z).
  pose proof (bary (fst e) (snd e) a b c z) as B. fold f in B, Z.
  rewrite (Fv a), (Fv b), (Fv c) in B by (rewrite E; cbn [In]; tauto).
  nra.
Qed.

Corollary convex_in_sound_open : forall va vb, convex_ccw_b va = true -> convex_ccw_b vb = true ->
  (forall w, In w vb -> tol_exact (poly_of va) w) ->
  simple_has_simple (poly_of va) (poly_of vb) = Ok true ->
  forall p, region_simple (poly_of vb) p = RIn -> region_simple (poly_of va) p = RIn.
Proof.
  intros va vb Ca Cb Tol H.
  rewrite (shs_pos _ _ (convex_area_pos va Ca) (convex_area_pos vb Cb)) in H.
  destruct (box_and _ _); [|discriminate].
  destruct (Qlt_bool _ _); [discriminate|].
  apply (convex_vertices_open va vb Ca Cb).
  exact (vertex_in_closed va vb Ca Cb Tol H).
Qed.

(* ================================================================== *)
(* 6. non-vacuity                                                      *)
(* ================================================================== *)
Definition ex_in : list point := [(1, 1); (3, 1); (2, 3)].        (* inside the pentagon *)
Definition ex_cross : list point := [(1, 1); (6, 2); (2, 3)].     (* (6,2) is outside *)
Definition ex_far : list point := [(10, 10); (12, 10); (11, 12)]. (* boxes disjoint *)

(* every hypothesis of the theorems is decided by evaluation *)
Example ex_in_hyps :
  convex_ccw_b ex_pentagon = true /\ convex_ccw_b ex_in = true /\
  tol_tested_b (poly_of ex_pentagon) (poly_of ex_in) = true /\
  Qlt_bool (jordan_area (poly_of ex_pentagon)) (jordan_area (poly_of ex_in)) = false /\
  simple_has_simple (poly_of ex_pentagon) (poly_of ex_in) = Ok true.
Proof. vm_compute. repeat split; reflexivity. Qed.

(* hence: every point of the closed triangle is a point of the closed pentagon *)
Example ex_in_regions : forall p,
  in_closed (poly_of ex_in) p -> in_closed (poly_of ex_pentagon) p.
Proof.
  destruct ex_in_hyps as (Ca & Cb & T & _ & H).
  apply (convex_in_sound ex_pentagon ex_in Ca Cb); [|exact H].
  intros w Hw. apply (tol_tested_vertex _ ex_in w); [discriminate | | exact Hw].
  apply tol_tested_b_ok, T.
Qed.

Example ex_in_regions_open : forall p,
  region_simple (poly_of ex_in) p = RIn -> region_simple (poly_of ex_pentagon) p = RIn.
Proof.
  destruct ex_in_hyps as (Ca & Cb & T & _ & H).
  apply (convex_in_sound_open ex_pentagon ex_in Ca Cb); [|exact H].
  intros w Hw. apply (tol_tested_vertex _ ex_in w); [discriminate | | exact Hw].
  apply tol_tested_b_ok, T.
Qed.

(* the same inclusion, from which the characterisation PREDICTS the answer True *)
Example ex_in_predicted : simple_has_simple (poly_of ex_pentagon) (poly_of ex_in) = Ok true.
Proof.
  destruct ex_in_hyps as (Ca & Cb & T & Ar & _).
  apply (convex_in_iff_area ex_pentagon ex_in Ca Cb (tol_tested_b_ok _ _ T) Ar).
  exact ex_in_regions.
Qed.

Example ex_in_halfplane : forall a b,
  (forall w, In w ex_in -> 0 <= orient a b w) -> 0 <= orient a b (2, 3 # 2).
Proof.
  apply (convex_halfplane ex_in (2, 3 # 2)); vm_compute; reflexivity.
Qed.

(* a triangle that leaves the pentagon: the answer is False, the theorem gives a
   boundary point of the triangle outside the pentagon, and (6,2) is one *)
Example ex_cross_hyps :
  convex_ccw_b ex_cross = true /\
  tol_tested_b (poly_of ex_pentagon) (poly_of ex_cross) = true /\
  Qlt_bool (jordan_area (poly_of ex_pentagon)) (jordan_area (poly_of ex_cross)) = false /\
  simple_has_simple (poly_of ex_pentagon) (poly_of ex_cross) = Ok false /\
  on_boundary (poly_of ex_cross) (6, 2) = true /\
  region_simple (poly_of ex_pentagon) (6, 2) = ROut.
Proof. vm_compute. repeat split; reflexivity. Qed.

Example ex_cross_witness : exists p,
  on_boundary (poly_of ex_cross) p = true /\ region_simple (poly_of ex_pentagon) p = ROut.
Proof.
  destruct ex_cross_hyps as (Cb & T & Ar & H & _).
  exact (convex_in_false ex_pentagon ex_cross ex_pentagon_convex Cb (tol_tested_b_ok _ _ T) Ar H).
Qed.

(* disjoint bounding boxes *)
Example ex_far_hyps :
  convex_ccw_b ex_far = true /\
  box_and (jordan_box (poly_of ex_pentagon)) (jordan_box (poly_of ex_far)) = None /\
  simple_has_simple (poly_of ex_pentagon) (poly_of ex_far) = Ok false.
Proof. vm_compute. repeat split; reflexivity. Qed.

Example ex_far_out : forall w, In w ex_far -> region_simple (poly_of ex_pentagon) w = ROut.
Proof.
  destruct ex_far_hyps as (Cb & Bx & _). intros w.
  exact (convex_boxes_disjoint ex_pentagon ex_far w ex_pentagon_convex Cb Bx).
Qed.

(* the area branch, B not a triangle: the pentagon is not in the triangle; the
   answer is right (a vertex of the pentagon is outside), but here the theorems
   need the area hypothesis, which fails *)
Example ex_area_branch :
  Qlt_bool (jordan_area (poly_of ex_in)) (jordan_area (poly_of ex_pentagon)) = true /\
  simple_has_simple (poly_of ex_in) (poly_of ex_pentagon) = Ok false /\
  on_boundary (poly_of ex_pentagon) (0, 0) = true /\
  region_simple (poly_of ex_in) (0, 0) = ROut.
Proof. vm_compute. repeat split; reflexivity. Qed.

(* the area branch, B a triangle: no area hypothesis is needed *)
Example ex_area_branch_triangle_hyps :
  convex_ccw_b ex_tri = true /\
  tol_tested_b (poly_of ex_in) (poly_of ex_tri) = true /\
  Qlt_bool (jordan_area (poly_of ex_in)) (jordan_area (poly_of ex_tri)) = true /\
  simple_has_simple (poly_of ex_in) (poly_of ex_tri) = Ok false.
Proof. vm_compute. repeat split; reflexivity. Qed.

Example ex_area_branch_triangle : exists p,
  on_boundary (poly_of ex_tri) p = true /\ region_simple (poly_of ex_in) p = ROut.
Proof.
  destruct ex_in_hyps as (_ & Ca & _). destruct ex_area_branch_triangle_hyps as (Cb & T & _ & H).
  apply (convex_in_false_gen ex_in ex_tri Ca Cb (tol_tested_b_ok _ _ T)); [|exact H].
  apply area_mono_triangle; assumption.
Qed.

(* triangle in pentagon, by the characterisation for triangles *)
Example ex_in_triangle_iff :
  simple_has_simple (poly_of ex_pentagon) (poly_of ex_in) = Ok true <->
  forall p, in_closed (poly_of ex_in) p -> in_closed (poly_of ex_pentagon) p.
Proof.
  destruct ex_in_hyps as (Ca & Cb & T & _).
  exact (convex_in_iff_triangle ex_pentagon _ _ _ Ca Cb (tol_tested_b_ok _ _ T)).
Qed.

Example ex_tri_area : orient (1, 1) (3, 1) (2, 3) <= shoelace2 (poly_of ex_pentagon).
Proof.
  destruct ex_in_hyps as (Ca & _).
  apply (tri_in_convex_area ex_pentagon); [exact Ca | apply ex_in_regions ..];
    apply on_boundary_in_closed; vm_compute; reflexivity.
Qed.

Print Assumptions convex_area_pos.
Print Assumptions convex_affine_nonneg.
Print Assumptions convex_halfplane.
Print Assumptions convex_halfplane_strict.
Print Assumptions convex_closed_iff.
Print Assumptions convex_open_iff.
Print Assumptions convex_out_iff.
Print Assumptions convex_in_sound.
Print Assumptions convex_in_sound_wn.
Print Assumptions convex_in_sound_open.
Print Assumptions tri_in_convex_area.
Print Assumptions convex_in_false_gen.
Print Assumptions convex_in_false.
Print Assumptions convex_in_total.
Print Assumptions convex_in_iff_gen.
Print Assumptions convex_in_iff_area.
Print Assumptions convex_in_iff_triangle.
Print Assumptions convex_in_false_iff_gen.
Print Assumptions ex_in_regions.
Print Assumptions ex_in_predicted.
Print Assumptions ex_cross_witness.
Print Assumptions ex_area_branch_triangle.
