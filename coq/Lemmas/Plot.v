(* Plot.v -- the drawing code (Model/Plot.v: patch_segment, path_jordan,
   path_comp = path_shape, plot_shape) against matplotlib's path-code semantics
   (the decoder [decode]): the path of a curve retraces the boundary segment by
   segment, closed, in order; one subpath per boundary curve; patch structure of
   plot_shape; the repaired cubic defect as a counterfactual; sensitivity. *)
From Coq Require Import List Lia Bool ZArith QArith.
From SV Require Import Model.Plot Spec.Spec.
Import ListNotations.
Open Scope Q_scope.

(* ---------- the hypothesis on a drawn curve ---------- *)
Definition seg_ok (s : seg) : Prop := (2 <= length s <= 4)%nat.    (* degree 1, 2 or 3 *)

(* consecutive end/start points are THE SAME point (Leibniz), closing pair included *)
Fixpoint chain_eq_from (first : point) (j : jordan) : Prop :=
  match j with
  | [] => True
  | s :: t =>
      match t with
      | [] => last_pt s = first
      | s' :: _ => last_pt s = first_pt s' /\ chain_eq_from first t
      end
  end.
Definition chain_eq (j : jordan) : Prop := chain_eq_from (first_pt (hd [] j)) j.

Definition plot_ok (j : jordan) : Prop := j <> [] /\ Forall seg_ok j /\ chain_eq j.

(* ---------- small facts ---------- *)
Lemma peqb_refl : forall p, peqb p p = true.
Proof.
  intro p. unfold peqb. rewrite andb_true_iff. split; apply Qeq_bool_iff; reflexivity.
Qed.

Lemma Qlt_bool_iff : forall a b, Qlt_bool a b = true <-> a < b.
Proof.
  intros a b. unfold Qlt_bool. rewrite negb_true_iff. split.
  - intro H. destruct (Qlt_le_dec a b) as [L|L]; auto.
    apply Qle_bool_iff in L. congruence.
  - intro H. destruct (Qle_bool b a) eqn:E; auto.
    apply Qle_bool_iff in E. exfalso. apply (Qlt_irrefl a).
    apply Qlt_le_trans with b; assumption.
Qed.

(* chain_eq is at least the junction check of the spec layer *)
Lemma chain_eq_from_chain_ok : forall j first, chain_eq_from first j -> chain_ok first j = true.
Proof.
  induction j as [|s t IH]; intros first H.
  - reflexivity.
  - destruct t as [|s' t'].
    + cbn in H |- *. rewrite H. apply peqb_refl.
    + destruct H as [H1 H2].
      change (chain_ok first (s :: s' :: t'))
        with (peqb (last_pt s) (first_pt s') && chain_ok first (s' :: t')).
      rewrite H1, peqb_refl, (IH first H2). reflexivity.
Qed.

Lemma chain_eq_closed_chain : forall j, chain_eq j -> closed_chain j = true.
Proof.
  intros j H. destruct j as [|s t]; [reflexivity|].
  unfold closed_chain. apply chain_eq_from_chain_ok. exact H.
Qed.

(* ---------- patch_segment, by shape of the control point list ---------- *)
Lemma patch_segment_1 : forall a b, patch_segment [a; b] = [(b, LINETO)].
Proof. reflexivity. Qed.
Lemma patch_segment_2 : forall a b c, patch_segment [a; b; c] = [(b, CURVE3); (c, CURVE3)].
Proof. reflexivity. Qed.
Lemma patch_segment_3 : forall a b c d,
  patch_segment [a; b; c; d] = [(b, CURVE4); (c, CURVE4); (d, CURVE4)].
Proof. reflexivity. Qed.
Lemma patch_segment_other : forall s, (length s < 2 \/ 4 < length s)%nat -> patch_segment s = [].
Proof.
  intros s H. destruct s as [|a [|b [|c [|d [|e t]]]]]; cbn in H; try lia; reflexivity.
Qed.
Lemma patch_segment_length : forall s, seg_ok s -> length (patch_segment s) = degree s.
Proof.
  intros s [H1 H2]. destruct s as [|a [|b [|c [|d [|e t]]]]]; cbn in H1, H2; try lia; reflexivity.
Qed.

(* ---------- the accumulating loops, in closed form ---------- *)
(* the entries contributed by one curve; v0 is the (ignored) CLOSEPOLY vertex *)
Definition jordan_entries (ps : seg -> path) (v0 : point) (j : jordan) : path :=
  (first_pt (hd [] j), MOVETO) :: concat (map ps j) ++ [(v0, CLOSEPOLY)].

Lemma fold_segments : forall (ps : seg -> path) j acc,
  fold_left (fun a s => a ++ ps s) j acc = acc ++ concat (map ps j).
Proof.
  intros ps. induction j as [|s t IH]; intro acc; cbn.
  - rewrite app_nil_r. reflexivity.
  - rewrite IH, <- app_assoc. reflexivity.
Qed.

Lemma path_add_jordan_nil : forall ps j,
  path_add_jordan ps [] j = jordan_entries ps (first_pt (hd [] j)) j.
Proof.
  intros ps j. unfold path_add_jordan, jordan_entries. rewrite fold_segments. reflexivity.
Qed.

Lemma path_add_jordan_cons : forall ps x acc j,
  path_add_jordan ps (x :: acc) j = (x :: acc) ++ jordan_entries ps (fst x) j.
Proof.
  intros ps x acc j. unfold path_add_jordan, jordan_entries. rewrite fold_segments.
  cbn [app hd fst]. rewrite <- !app_assoc. reflexivity.
Qed.

Lemma fold_jordans_cons : forall ps js x acc,
  fold_left (path_add_jordan ps) js (x :: acc)
  = (x :: acc) ++ concat (map (jordan_entries ps (fst x)) js).
Proof.
  intros ps. induction js as [|j t IH]; intros x acc; cbn [fold_left map concat].
  - rewrite app_nil_r. reflexivity.
  - rewrite path_add_jordan_cons. cbn [app]. rewrite IH. cbn [fst app].
    rewrite <- app_assoc. reflexivity.
Qed.

(* path_shape: every curve contributes MOVETO, its segments, CLOSEPOLY; all the
   CLOSEPOLY vertices are the first vertex of the first curve (the quirk). *)
Lemma path_of_jordans_eq : forall ps js,
  path_of_jordans ps js
  = concat (map (jordan_entries ps (first_pt (hd [] (hd [] js)))) js).
Proof.
  intros ps [|j t]; [reflexivity|].
  unfold path_of_jordans. cbn [fold_left hd]. rewrite path_add_jordan_nil.
  unfold jordan_entries at 1. rewrite fold_jordans_cons. reflexivity.
Qed.

Lemma path_jordan_eq : forall j,
  path_jordan j
  = (first_pt (hd [] j), MOVETO) :: concat (map patch_segment j)
      ++ [(first_pt (hd [] j), CLOSEPOLY)].
Proof.
  intro j. unfold path_jordan. rewrite path_of_jordans_eq. cbn [map concat hd].
  rewrite app_nil_r. reflexivity.
Qed.

Lemma path_comp_eq : forall c,
  path_comp c
  = concat (map (jordan_entries patch_segment (first_pt (hd [] (hd [] (comp_jordans c)))))
                (comp_jordans c)).
Proof. intro c. apply path_of_jordans_eq. Qed.

(* ---------- the decoder on the drawn entries ---------- *)
(* what the decoder sees for a list of segments drawn from the current point:
   each segment with its first control point replaced by the current point *)
Fixpoint redraw (cur : point) (l : list seg) : list seg :=
  match l with
  | [] => []
  | s :: t => (cur :: tl s) :: redraw (last_pt s) t
  end.
Fixpoint end_pt (cur : point) (l : list seg) : point :=
  match l with
  | [] => cur
  | s :: t => end_pt (last_pt s) t
  end.
Definition closing (s0 cur : point) : list seg :=
  if peqb cur s0 then [] else [[cur; s0]].

Lemma decode_segment : forall s done s0 cur acc rest,
  seg_ok s ->
  decode_go done (Some (s0, cur, acc)) (patch_segment s ++ rest)
  = decode_go done (Some (s0, last_pt s, acc ++ [cur :: tl s])) rest.
Proof.
  intros s done s0 cur acc rest [H1 H2].
  destruct s as [|a [|b [|c [|d [|e t]]]]]; cbn in H1, H2; try lia; reflexivity.
Qed.

Lemma decode_segments : forall l done s0 cur acc rest,
  Forall seg_ok l ->
  decode_go done (Some (s0, cur, acc)) (concat (map patch_segment l) ++ rest)
  = decode_go done (Some (s0, end_pt cur l, acc ++ redraw cur l)) rest.
Proof.
  induction l as [|s t IH]; intros done s0 cur acc rest H.
  - cbn. rewrite app_nil_r. reflexivity.
  - inversion H as [|s' t' Hs Ht]; subst.
    cbn [map concat redraw end_pt]. rewrite <- app_assoc.
    rewrite decode_segment by exact Hs. rewrite IH by exact Ht.
    rewrite <- app_assoc. reflexivity.
Qed.

Lemma decode_close : forall done s0 cur acc w rest,
  decode_go done (Some (s0, cur, acc)) ((w, CLOSEPOLY) :: rest)
  = decode_go (done ++ [acc ++ closing s0 cur]) None rest.
Proof.
  intros. cbn [decode_go]. unfold closing. destruct (peqb cur s0).
  - rewrite app_nil_r. reflexivity.
  - reflexivity.
Qed.

(* one subpath, whatever the junctions: the segments as redrawn, plus the
   straight closing segment if the end is not the start *)
Lemma decode_entries : forall l done v w rest,
  Forall seg_ok l ->
  decode_go done None ((v, MOVETO) :: concat (map patch_segment l) ++ (w, CLOSEPOLY) :: rest)
  = decode_go (done ++ [redraw v l ++ closing v (end_pt v l)]) None rest.
Proof.
  intros l done v w rest H. cbn [decode_go].
  rewrite decode_segments by exact H. rewrite decode_close. reflexivity.
Qed.

(* with Leibniz junctions the redrawn segments are the segments *)
Lemma redraw_chain : forall l first cur,
  l <> [] -> Forall seg_ok l -> first_pt (hd [] l) = cur -> chain_eq_from first l ->
  redraw cur l = l /\ end_pt cur l = first.
Proof.
  induction l as [|s t IH]; intros first cur Hne Hok Hcur Hch; [congruence|].
  inversion Hok as [|s' t' Hs Ht]; subst.
  assert (Es : first_pt s :: tl s = s).
  { destruct Hs as [Hs _]. destruct s; cbn in Hs; [lia|reflexivity]. }
  cbn [hd] in Es |- *. cbn [redraw end_pt]. destruct t as [|s2 t2].
  - cbn in Hch. cbn. rewrite Es. auto.
  - destruct Hch as [H1 H2].
    destruct (IH first (last_pt s)) as [E1 E2]; auto; try discriminate.
    rewrite Es, E1, E2. auto.
Qed.

Lemma decode_jordan_entries : forall j done w rest,
  plot_ok j ->
  decode_go done None (jordan_entries patch_segment w j ++ rest)
  = decode_go (done ++ [j]) None rest.
Proof.
  intros j done w rest (Hne & Hok & Hch). unfold jordan_entries.
  cbn [app]. rewrite <- app_assoc. cbn [app].
  rewrite decode_entries by exact Hok.
  destruct (redraw_chain j (first_pt (hd [] j)) (first_pt (hd [] j))) as [E1 E2]; auto.
  rewrite E1, E2. unfold closing. rewrite peqb_refl, app_nil_r. reflexivity.
Qed.

Lemma decode_all_entries : forall js done w,
  (forall j, In j js -> plot_ok j) ->
  decode_go done None (concat (map (jordan_entries patch_segment w) js)) = Some (done ++ js).
Proof.
  induction js as [|j t IH]; intros done w H.
  - cbn. rewrite app_nil_r. reflexivity.
  - cbn [map concat]. rewrite decode_jordan_entries by (apply H; left; reflexivity).
    rewrite IH by (intros j' Hj'; apply H; right; exact Hj').
    rewrite <- app_assoc. reflexivity.
Qed.

(* ---------- G1, G2 ---------- *)
(* the path of a curve retraces its boundary: line, quadratic and cubic pieces,
   segment by segment, in order, closed *)
Theorem decode_path_jordan : forall j, plot_ok j -> decode (path_jordan j) = Some [j].
Proof.
  intros j H. unfold decode, path_jordan. rewrite path_of_jordans_eq.
  rewrite decode_all_entries; [reflexivity|].
  intros j' [E|[]]. subst. exact H.
Qed.

(* one subpath per boundary curve, in order; the vertices[0] quirk is harmless *)
Theorem decode_path_comp : forall c,
  (forall j, In j (comp_jordans c) -> plot_ok j) ->
  decode (path_comp c) = Some (comp_jordans c).
Proof.
  intros c H. unfold decode. rewrite path_comp_eq.
  rewrite decode_all_entries by exact H. reflexivity.
Qed.

(* ---------- G3: the patches of plot_shape ---------- *)
Definition outlines_of (c : comp) : list patch :=
  map (fun j => Outline (jordan_pos j) (path_jordan j)) (comp_jordans c).
(* the components drawn: connecteds = shape.subshapes if DisjointShape else [shape] *)
Definition comps (s : shape) : list comp :=
  match s with SEmpty | SWhole => [] | SC c => [c] | SD cs => cs end.
Definition shape_plot_ok (s : shape) : Prop := forall j, In j (jordans s) -> plot_ok j.

Theorem plot_shape_empty : plot_shape SEmpty = [].
Proof. reflexivity. Qed.
Theorem plot_shape_whole : plot_shape SWhole = [Background].
Proof. reflexivity. Qed.
Theorem plot_shape_SC : forall c, plot_shape (SC c) = plot_comp c.
Proof. reflexivity. Qed.
Theorem plot_shape_SD : forall cs, plot_shape (SD cs) = concat (map plot_comp cs).
Proof. reflexivity. Qed.

(* a bounded component (positive area) is a filled patch; an unbounded one is a
   white hole in a coloured background; then one outline per curve *)
Theorem plot_comp_fill : forall c,
  0 < comp_area c -> plot_comp c = Fill (path_comp c) :: outlines_of c.
Proof.
  intros c H. unfold plot_comp. apply Qlt_bool_iff in H. rewrite H. reflexivity.
Qed.
Theorem plot_comp_hole : forall c,
  ~ 0 < comp_area c -> plot_comp c = Background :: Hole (path_comp c) :: outlines_of c.
Proof.
  intros c H. unfold plot_comp. destruct (Qlt_bool 0 (comp_area c)) eqn:E.
  - apply Qlt_bool_iff in E. contradiction.
  - reflexivity.
Qed.
Theorem plot_comp_cases : forall c,
  (0 < comp_area c /\ plot_comp c = Fill (path_comp c) :: outlines_of c) \/
  (~ 0 < comp_area c /\ plot_comp c = Background :: Hole (path_comp c) :: outlines_of c).
Proof.
  intro c. destruct (Qlt_le_dec 0 (comp_area c)) as [L|L].
  - left. split; [exact L | apply plot_comp_fill; exact L].
  - assert (N : ~ 0 < comp_area c) by (apply Qle_not_lt; exact L).
    right. split; [exact N | apply plot_comp_hole; exact N].
Qed.

Lemma In_outlines_of : forall x c, In x (outlines_of c) -> exists b p, x = Outline b p.
Proof.
  intros x c H. unfold outlines_of in H. apply in_map_iff in H.
  destruct H as (j & E & _). subst. eauto.
Qed.

Theorem plot_comp_fill_iff : forall c p, In (Fill p) (plot_comp c) <-> 0 < comp_area c /\ p = path_comp c.
Proof.
  intros c p. destruct (plot_comp_cases c) as [[L E]|[N E]]; rewrite E; split.
  - intros [H|H]; [inversion H; auto|].
    apply In_outlines_of in H. destruct H as (b & q & H). discriminate.
  - intros [_ H]. subst. left. reflexivity.
  - intros [H|[H|H]]; try discriminate.
    apply In_outlines_of in H. destruct H as (b & q & H). discriminate.
  - intros [H _]. contradiction.
Qed.
Theorem plot_comp_hole_iff : forall c p, In (Hole p) (plot_comp c) <-> ~ 0 < comp_area c /\ p = path_comp c.
Proof.
  intros c p. destruct (plot_comp_cases c) as [[L E]|[N E]]; rewrite E; split.
  - intros [H|H]; [discriminate|].
    apply In_outlines_of in H. destruct H as (b & q & H). discriminate.
  - intros [H _]. contradiction.
  - intros [H|[H|H]]; try discriminate; [inversion H; auto|].
    apply In_outlines_of in H. destruct H as (b & q & H). discriminate.
  - intros [_ H]. subst. right. left. reflexivity.
Qed.
Theorem plot_comp_background_iff : forall c, In Background (plot_comp c) <-> ~ 0 < comp_area c.
Proof.
  intros c. destruct (plot_comp_cases c) as [[L E]|[N E]]; rewrite E; split.
  - intros [H|H]; [discriminate|].
    apply In_outlines_of in H. destruct H as (b & q & H). discriminate.
  - intros H. contradiction.
  - intros _. exact N.
  - intros _. left. reflexivity.
Qed.

(* sorting the patches by kind *)
Lemma region_paths_app : forall l1 l2, region_paths (l1 ++ l2) = region_paths l1 ++ region_paths l2.
Proof. intros. unfold region_paths. rewrite map_app, concat_app. reflexivity. Qed.
Lemma outline_patches_app : forall l1 l2,
  outline_patches (l1 ++ l2) = outline_patches l1 ++ outline_patches l2.
Proof. intros. unfold outline_patches. rewrite map_app, concat_app. reflexivity. Qed.

Lemma region_paths_outlines : forall js,
  region_paths (map (fun j => Outline (jordan_pos j) (path_jordan j)) js) = [].
Proof. induction js as [|j t IH]; [reflexivity|exact IH]. Qed.
Lemma outline_patches_outlines : forall js,
  outline_patches (map (fun j => Outline (jordan_pos j) (path_jordan j)) js)
  = map (fun j => (jordan_pos j, path_jordan j)) js.
Proof.
  induction js as [|j t IH]; [reflexivity|].
  cbn [map]. change (outline_patches (?x :: ?l)) with (outline_patches ([x] ++ l)).
  rewrite outline_patches_app, IH. reflexivity.
Qed.

(* SC c: exactly one Fill-or-Hole patch, then length (comp_jordans c) outlines *)
Theorem region_paths_comp : forall c, region_paths (plot_comp c) = [path_comp c].
Proof.
  intro c. unfold plot_comp. rewrite region_paths_app, region_paths_outlines.
  destruct (Qlt_bool 0 (comp_area c)); reflexivity.
Qed.
Theorem outline_patches_comp : forall c,
  outline_patches (plot_comp c) = map (fun j => (jordan_pos j, path_jordan j)) (comp_jordans c).
Proof.
  intro c. unfold plot_comp. rewrite outline_patches_app, outline_patches_outlines.
  destruct (Qlt_bool 0 (comp_area c)); reflexivity.
Qed.

Lemma region_paths_concat : forall cs,
  region_paths (concat (map plot_comp cs)) = map path_comp cs.
Proof.
  induction cs as [|c t IH]; [reflexivity|].
  cbn [map concat]. rewrite region_paths_app, region_paths_comp, IH. reflexivity.
Qed.
Lemma outline_patches_concat : forall cs,
  outline_patches (concat (map plot_comp cs))
  = map (fun j => (jordan_pos j, path_jordan j)) (concat (map comp_jordans cs)).
Proof.
  induction cs as [|c t IH]; [reflexivity|].
  cbn [map concat]. rewrite outline_patches_app, outline_patches_comp, IH, map_app. reflexivity.
Qed.

(* whole picture: one Fill/Hole patch per component, one Outline per curve, in order *)
Theorem region_paths_shape : forall s, region_paths (plot_shape s) = map path_comp (comps s).
Proof.
  intros [| |c|cs]; try reflexivity.
  - apply region_paths_comp.
  - apply region_paths_concat.
Qed.
Theorem outline_patches_shape : forall s,
  outline_patches (plot_shape s) = map (fun j => (jordan_pos j, path_jordan j)) (jordans s).
Proof.
  intros [| |c|cs]; try reflexivity.
  - apply outline_patches_comp.
  - apply outline_patches_concat.
Qed.

Theorem n_regions_comp : forall c, n_regions (plot_comp c) = 1%nat.
Proof. intro c. unfold n_regions. rewrite region_paths_comp. reflexivity. Qed.
Theorem n_outlines_comp : forall c, n_outlines (plot_comp c) = length (comp_jordans c).
Proof. intro c. unfold n_outlines. rewrite outline_patches_comp. apply map_length. Qed.
Theorem n_regions_shape : forall s, n_regions (plot_shape s) = length (comps s).
Proof. intro s. unfold n_regions. rewrite region_paths_shape. apply map_length. Qed.
Theorem n_regions_SD : forall cs, n_regions (plot_shape (SD cs)) = length cs.
Proof. intro cs. apply (n_regions_shape (SD cs)). Qed.
Theorem n_outlines_shape : forall s, n_outlines (plot_shape s) = length (jordans s).
Proof. intro s. unfold n_outlines. rewrite outline_patches_shape. apply map_length. Qed.

(* nothing else is drawn: the patches are the regions, the outlines and backgrounds *)
Theorem plot_comp_length : forall c,
  length (plot_comp c)
  = ((if Qlt_bool 0 (comp_area c) then 1 else 2) + length (comp_jordans c))%nat.
Proof.
  intro c. unfold plot_comp. rewrite app_length, map_length.
  destruct (Qlt_bool 0 (comp_area c)); reflexivity.
Qed.

(* outline k of a component is its k-th curve, coloured by its orientation *)
Theorem plot_comp_outline_nth : forall c k j,
  nth_error (comp_jordans c) k = Some j ->
  nth_error (plot_comp c) ((if Qlt_bool 0 (comp_area c) then 1 else 2) + k)
  = Some (Outline (jordan_pos j) (path_jordan j)).
Proof.
  intros c k j H. unfold plot_comp.
  destruct (Qlt_bool 0 (comp_area c)); cbn [app plus nth_error];
    apply (map_nth_error (fun j => Outline (jordan_pos j) (path_jordan j))); exact H.
Qed.

Theorem outline_nth : forall c k b p,
  nth_error (outline_patches (plot_comp c)) k = Some (b, p) ->
  exists j, nth_error (comp_jordans c) k = Some j /\ b = jordan_pos j /\
            p = path_jordan j /\ (plot_ok j -> decode p = Some [j]).
Proof.
  intros c k b p H. rewrite outline_patches_comp in H.
  destruct (nth_error (comp_jordans c) k) as [j|] eqn:E.
  - rewrite (map_nth_error (fun j => (jordan_pos j, path_jordan j)) _ _ E) in H. inversion H; subst.
    exists j. repeat split. apply decode_path_jordan.
  - apply nth_error_None in E.
    assert (N : nth_error (map (fun j => (jordan_pos j, path_jordan j)) (comp_jordans c)) k = None).
    { apply nth_error_None. rewrite map_length. exact E. }
    congruence.
Qed.

(* the picture decodes to the shape: regions to the components' boundaries,
   outlines to the single curves *)
Lemma comps_jordans : forall s c j, In c (comps s) -> In j (comp_jordans c) -> In j (jordans s).
Proof.
  intros [| |c0|cs] c j Hc Hj; cbn in Hc |- *; try contradiction.
  - destruct Hc as [E|[]]. subst. exact Hj.
  - apply in_concat. exists (comp_jordans c). split; [apply in_map; exact Hc | exact Hj].
Qed.

Theorem decode_regions : forall s,
  shape_plot_ok s ->
  map decode (region_paths (plot_shape s)) = map (fun c => Some (comp_jordans c)) (comps s).
Proof.
  intros s H. rewrite region_paths_shape, map_map. apply map_ext_in.
  intros c Hc. apply decode_path_comp. intros j Hj. apply H. eapply comps_jordans; eauto.
Qed.

Theorem decode_outlines : forall s,
  shape_plot_ok s ->
  map (fun bp => (fst bp, decode (snd bp))) (outline_patches (plot_shape s))
  = map (fun j => (jordan_pos j, Some [j])) (jordans s).
Proof.
  intros s H. rewrite outline_patches_shape, map_map. apply map_ext_in.
  intros j Hj. cbn [fst snd]. rewrite decode_path_jordan by (apply H; exact Hj). reflexivity.
Qed.

(* ---------- non-vacuity: concrete curves satisfying plot_ok ---------- *)
Definition unit_square : jordan :=
  [[(0, 0); (1, 0)]; [(1, 0); (1, 1)]; [(1, 1); (0, 1)]; [(0, 1); (0, 0)]].
(* a cubic, a line and a quadratic *)
Definition mixed_witness : jordan :=
  [[(0, 0); (1, -1 # 1); (2, 1); (3, 0)]; [(3, 0); (3, 3)]; [(3, 3); (0, 3); (0, 0)]].

Ltac prove_plot_ok :=
  split; [discriminate|]; split;
  [ repeat (apply Forall_cons; [unfold seg_ok; cbn; lia|]); apply Forall_nil
  | cbn; repeat split ].

Example unit_square_ok : plot_ok unit_square.
Proof. prove_plot_ok. Qed.
Example mixed_witness_ok : plot_ok mixed_witness.
Proof. prove_plot_ok. Qed.

Example unit_square_path :
  path_jordan unit_square
  = [((0, 0), MOVETO); ((1, 0), LINETO); ((1, 1), LINETO); ((0, 1), LINETO);
     ((0, 0), LINETO); ((0, 0), CLOSEPOLY)].
Proof. vm_compute. reflexivity. Qed.

(* a component with two curves: the second CLOSEPOLY carries the first vertex of
   the FIRST curve (the vertices[0] quirk), and the path still decodes *)
Definition inner_square : jordan :=
  [[(1 # 4, 1 # 4); (1 # 4, 3 # 4)]; [(1 # 4, 3 # 4); (3 # 4, 3 # 4)];
   [(3 # 4, 3 # 4); (3 # 4, 1 # 4)]; [(3 # 4, 1 # 4); (1 # 4, 1 # 4)]].
Example quirk_visible :
  nth_error (path_comp (CC [unit_square; inner_square])) 11 = Some ((0, 0), CLOSEPOLY)
  /\ nth_error (path_jordan inner_square) 5 = Some ((1 # 4, 1 # 4), CLOSEPOLY)
  /\ decode (path_comp (CC [unit_square; inner_square])) = Some [unit_square; inner_square].
Proof. vm_compute. repeat split. Qed.

(* ---------- G4: the repaired defect (no cubic branch), as a counterfactual ---------- *)
Example old_codes : path_codes (path_jordan_old mixed_witness) = [1; 2; 3; 3; 79]%Z.
Proof. vm_compute. reflexivity. Qed.
Example new_codes : path_codes (path_jordan mixed_witness) = [1; 4; 4; 4; 2; 3; 3; 79]%Z.
Proof. vm_compute. reflexivity. Qed.

(* the old path silently lost the cubic piece: the LINETO (3,3) of the next
   segment is drawn from (0,0), i.e. the picture shows the chord (0,0)-(3,3) *)
Example old_decodes_to :
  decode (path_jordan_old mixed_witness)
  = Some [[[(0, 0); (3, 3)]; [(3, 3); (0, 3); (0, 0)]]].
Proof. vm_compute. reflexivity. Qed.
Example old_path_wrong : decode (path_jordan_old mixed_witness) <> Some [mixed_witness].
Proof. vm_compute. discriminate. Qed.
Example new_path_right : decode (path_jordan mixed_witness) = Some [mixed_witness].
Proof. vm_compute. reflexivity. Qed.

(* the old code was right on curves without cubic pieces *)
Lemma patch_segment_old_low : forall s, (length s <= 3)%nat -> patch_segment_old s = patch_segment s.
Proof.
  intros s H. destruct s as [|a [|b [|c [|d t]]]]; cbn in H; try lia; reflexivity.
Qed.

(* ---------- G5: sensitivity -- the spec bites ---------- *)
(* (a) without the CLOSEPOLY entry nothing is decoded, for any curve *)
Lemma decode_open_segments : forall l done s0 cur acc,
  exists cur' acc', forall rest,
    decode_go done (Some (s0, cur, acc)) (concat (map patch_segment l) ++ rest)
    = decode_go done (Some (s0, cur', acc')) rest.
Proof.
  induction l as [|s t IH]; intros done s0 cur acc.
  - exists cur, acc. intro rest. reflexivity.
  - destruct (le_lt_dec 2 (length s)) as [L2|L2]; [destruct (le_lt_dec (length s) 4) as [L4|L4]|].
    + destruct (IH done s0 (last_pt s) (acc ++ [cur :: tl s])) as (c' & a' & E).
      exists c', a'. intro rest. cbn [map concat]. rewrite <- app_assoc.
      rewrite decode_segment by (split; assumption). apply E.
    + destruct (IH done s0 cur acc) as (c' & a' & E).
      exists c', a'. intro rest. cbn [map concat].
      rewrite patch_segment_other by (right; exact L4). apply E.
    + destruct (IH done s0 cur acc) as (c' & a' & E).
      exists c', a'. intro rest. cbn [map concat].
      rewrite patch_segment_other by (left; exact L2). apply E.
Qed.

Theorem decode_without_closepoly : forall j, decode (removelast (path_jordan j)) = None.
Proof.
  intro j. rewrite path_jordan_eq.
  change ((first_pt (hd [] j), MOVETO) :: concat (map patch_segment j)
            ++ [(first_pt (hd [] j), CLOSEPOLY)])
    with (((first_pt (hd [] j), MOVETO) :: concat (map patch_segment j))
            ++ [(first_pt (hd [] j), CLOSEPOLY)]).
  rewrite removelast_last. unfold decode. cbn [decode_go].
  destruct (decode_open_segments j [] (first_pt (hd [] j)) (first_pt (hd [] j)) [])
    as (c' & a' & E).
  specialize (E []). rewrite app_nil_r in E. rewrite E. reflexivity.
Qed.

(* (b) dropping the entries of one segment *)
Definition path_jordan_drop (l1 : list seg) (s : seg) (l2 : list seg) : path :=
  let v0 := first_pt (hd [] (l1 ++ s :: l2)) in
  (v0, MOVETO) :: concat (map patch_segment l1) ++ concat (map patch_segment l2)
    ++ [(v0, CLOSEPOLY)].

(* ... which is the path of the curve with exactly the entries of s removed *)
Lemma path_jordan_split : forall l1 s l2,
  path_jordan (l1 ++ s :: l2)
  = let v0 := first_pt (hd [] (l1 ++ s :: l2)) in
    (v0, MOVETO) :: concat (map patch_segment l1) ++ patch_segment s
      ++ concat (map patch_segment l2) ++ [(v0, CLOSEPOLY)].
Proof.
  intros l1 s l2. rewrite path_jordan_eq. cbv zeta.
  rewrite map_app, concat_app. cbn [map concat]. rewrite <- !app_assoc. reflexivity.
Qed.

Lemma redraw_length : forall l cur, length (redraw cur l) = length l.
Proof. induction l as [|s t IH]; intro cur; cbn; [reflexivity|]. rewrite IH. reflexivity. Qed.
Lemma redraw_app : forall l1 l2 cur,
  redraw cur (l1 ++ l2) = redraw cur l1 ++ redraw (end_pt cur l1) l2.
Proof. induction l1 as [|s t IH]; intros l2 cur; cbn; [reflexivity|]. rewrite IH. reflexivity. Qed.
Lemma end_pt_app : forall l1 l2 cur, end_pt cur (l1 ++ l2) = end_pt (end_pt cur l1) l2.
Proof. induction l1 as [|s t IH]; intros l2 cur; cbn; [reflexivity|]. apply IH. Qed.
Lemma end_pt_nonempty : forall l c c', l <> [] -> end_pt c l = end_pt c' l.
Proof. intros [|s t] c c' H; [congruence|reflexivity]. Qed.

Lemma decode_drop : forall l1 s l2,
  Forall seg_ok (l1 ++ s :: l2) ->
  decode (path_jordan_drop l1 s l2)
  = let v0 := first_pt (hd [] (l1 ++ s :: l2)) in
    Some [redraw v0 (l1 ++ l2) ++ closing v0 (end_pt v0 (l1 ++ l2))].
Proof.
  intros l1 s l2 H. unfold path_jordan_drop. cbv zeta.
  rewrite app_assoc, <- concat_app, <- map_app. unfold decode.
  rewrite decode_entries; [reflexivity|].
  apply Forall_app in H. destruct H as [H1 H2]. inversion H2; subst.
  apply Forall_app. split; assumption.
Qed.

(* dropping a segment is detected, unless it is the final straight piece, which
   CLOSEPOLY draws anyway *)
Theorem decode_drop_segment : forall l1 s l2,
  plot_ok (l1 ++ s :: l2) ->
  l2 <> [] \/ length s <> 2%nat ->
  decode (path_jordan_drop l1 s l2) <> Some [l1 ++ s :: l2].
Proof.
  intros l1 s l2 (Hne & Hok & Hch) Hcase.
  rewrite decode_drop by exact Hok. cbv zeta.
  set (v0 := first_pt (hd [] (l1 ++ s :: l2))).
  destruct (redraw_chain (l1 ++ s :: l2) v0 v0) as [E1 E2]; auto.
  intro E. injection E as E.
  destruct l2 as [|s2 t2].
  - destruct Hcase as [Hc|Hc]; [congruence|].
    rewrite app_nil_r in E. unfold closing in E.
    destruct (peqb (end_pt v0 l1) v0).
    + apply (f_equal (@length seg)) in E.
      rewrite !app_length, redraw_length in E. cbn in E. lia.
    + apply app_inj_tail in E. destruct E as [_ E]. apply Hc. rewrite <- E. reflexivity.
  - assert (Eend : end_pt v0 (l1 ++ s2 :: t2) = v0).
    { rewrite <- E2. rewrite !end_pt_app.
      change (end_pt (end_pt v0 l1) (s :: s2 :: t2)) with (end_pt (last_pt s) (s2 :: t2)).
      apply end_pt_nonempty. discriminate. }
    rewrite Eend in E. unfold closing in E. rewrite peqb_refl, app_nil_r in E.
    apply (f_equal (@length seg)) in E.
    rewrite redraw_length, !app_length in E. cbn in E. lia.
Qed.

(* the exception is real: matplotlib's CLOSEPOLY supplies a final straight piece *)
Theorem decode_drop_final_line : forall (l1 : list seg) (a b : point),
  plot_ok (l1 ++ [[a; b]]) -> peqb a b = false ->
  decode (path_jordan_drop l1 [a; b] []) = Some [l1 ++ [[a; b]]].
Proof.
  intros l1 a b (Hne & Hok & Hch) Hab.
  rewrite decode_drop by exact Hok. cbv zeta.
  destruct (redraw_chain (l1 ++ [[a; b]]) _ _ Hne Hok eq_refl Hch) as [E1 E2].
  rewrite redraw_app in E1. cbn [redraw tl] in E1.
  apply app_inj_tail in E1. destruct E1 as [E1 Ea]. injection Ea as Ea.
  rewrite end_pt_app in E2. cbn [end_pt last_pt last] in E2.
  rewrite app_nil_r. unfold seg in *. rewrite E1, Ea. unfold closing. rewrite <- E2 at 1.
  rewrite Hab, <- E2. reflexivity.
Qed.

(* (c) exhaustively on the witnesses: removing ANY single entry of the path *)
Definition Q_eq_dec : forall a b : Q, {a = b} + {a <> b}.
Proof. decide equality; [apply Pos.eq_dec | apply Z.eq_dec]. Defined.
Definition point_eq_dec : forall a b : point, {a = b} + {a <> b}.
Proof. decide equality; apply Q_eq_dec. Defined.
Definition decoded_eq_dec : forall a b : option (list jordan), {a = b} + {a <> b}.
Proof.
  decide equality. apply list_eq_dec. apply list_eq_dec. apply list_eq_dec. apply point_eq_dec.
Defined.
Definition decodes_to (p : path) (js : list jordan) : bool :=
  if decoded_eq_dec (decode p) (Some js) then true else false.
Lemma decodes_to_iff : forall p js, decodes_to p js = true <-> decode p = Some js.
Proof.
  intros p js. unfold decodes_to. destruct (decoded_eq_dec (decode p) (Some js)); split; congruence.
Qed.

Lemma every_entry_matters_from_check : forall p js,
  forallb (fun k => negb (decodes_to (remove_nth k p) js)) (seq 0 (length p)) = true ->
  forall k, (k < length p)%nat -> decode (remove_nth k p) <> Some js.
Proof.
  intros p js H k Hk E. rewrite forallb_forall in H.
  assert (Hin : In k (seq 0 (length p))) by (apply in_seq; lia).
  specialize (H k Hin). apply decodes_to_iff in E. rewrite E in H. discriminate.
Qed.

Example witness_every_entry_matters : forall k,
  (k < length (path_jordan mixed_witness))%nat ->
  decode (remove_nth k (path_jordan mixed_witness)) <> Some [mixed_witness].
Proof. apply every_entry_matters_from_check. vm_compute. reflexivity. Qed.

Example witness_without_closepoly : decode (removelast (path_jordan mixed_witness)) = None.
Proof. vm_compute. reflexivity. Qed.
(* the entries of the cubic / the line / the quadratic dropped *)
Example witness_without_cubic :
  decode (path_jordan_drop [] [(0, 0); (1, -1 # 1); (2, 1); (3, 0)]
            [[(3, 0); (3, 3)]; [(3, 3); (0, 3); (0, 0)]])
  = Some [[[(0, 0); (3, 3)]; [(3, 3); (0, 3); (0, 0)]]].
Proof. vm_compute. reflexivity. Qed.
Example witness_without_line :
  decode (path_jordan_drop [[(0, 0); (1, -1 # 1); (2, 1); (3, 0)]] [(3, 0); (3, 3)]
            [[(3, 3); (0, 3); (0, 0)]])
  <> Some [mixed_witness].
Proof. apply decode_drop_segment; [exact mixed_witness_ok | left; discriminate]. Qed.
Example witness_without_quadratic :
  decode (path_jordan_drop [[(0, 0); (1, -1 # 1); (2, 1); (3, 0)]; [(3, 0); (3, 3)]]
            [(3, 3); (0, 3); (0, 0)] [])
  <> Some [mixed_witness].
Proof. apply decode_drop_segment; [exact mixed_witness_ok | right; cbn; lia]. Qed.
(* an incomplete CURVE4 group is malformed *)
Example witness_broken_cubic : decode (remove_nth 2 (path_jordan mixed_witness)) = None.
Proof. vm_compute. reflexivity. Qed.
(* a changed control point is seen *)
Example witness_moved_control :
  decode (set_nth 2 ((2, 2), CURVE4) (path_jordan mixed_witness)) <> Some [mixed_witness].
Proof. vm_compute. discriminate. Qed.

(* on the square: every entry matters except the last LINETO (index 4), which
   CLOSEPOLY makes redundant *)
Example square_every_entry_matters : forall k,
  (k < 6)%nat -> k <> 4%nat ->
  decode (remove_nth k (path_jordan unit_square)) <> Some [unit_square].
Proof.
  intros k Hk H4.
  do 6 (destruct k as [|k]; [try (vm_compute; discriminate); try congruence|]). lia.
Qed.
Example square_last_lineto_redundant :
  decode (remove_nth 4 (path_jordan unit_square)) = Some [unit_square].
Proof. vm_compute. reflexivity. Qed.

(* ---------- assumptions ---------- *)
Print Assumptions decode_path_jordan.
Print Assumptions decode_path_comp.
Print Assumptions plot_comp_cases.
Print Assumptions region_paths_shape.
Print Assumptions outline_patches_shape.
Print Assumptions n_regions_shape.
Print Assumptions n_outlines_shape.
Print Assumptions outline_nth.
Print Assumptions decode_regions.
Print Assumptions decode_outlines.
Print Assumptions old_path_wrong.
Print Assumptions new_path_right.
Print Assumptions decode_without_closepoly.
Print Assumptions decode_drop_segment.
Print Assumptions decode_drop_final_line.
Print Assumptions witness_every_entry_matters.
