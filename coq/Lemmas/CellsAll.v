(* CellsAll.v -- Cells.v extended to ~, -, ^ and to nested expressions: the result of every
   operator is a union of cells of the arrangement of the operands' boundaries (straight
   boundaries, exact rational data).

   L0  one-shape form of seg_clear (clear1), and region constancy along a clear segment.
   L1  complement: ~s has exactly the boundary of s (invert reverses every segment and the
       list, on_edge is symmetric in its end points); hence cell-wise constancy.
   L2  facts Cells.v did not need: the re-split operands a', b' of | and & are polygons whose
       boundaries lie in those of a, b; the RESULT of | and & is a polygon again.
   L3  difference a - b = a & ~b : boundary inclusion and cell-wise constancy, the exact-joins
       premise being stated on the inner & (sub_joins).
   L4  symmetric difference a ^ b = (a - b) | (b - a1): the same, one premise for each of the
       three inner recombinations (as NoZero.op_xor_result_nondeg).
   L5  expressions: eval_expr, with the environment updated by the in-place splitting.  The
       premise "every recombination inside the evaluation has exact joins" is the recursive
       predicate [ejoins env e]; if p-q is clear of the boundary of every shape of env, the
       value of e has the same region at p and q. *)
From Coq Require Import QArith Lqa Lia ZArith List Bool Permutation.
From SV Require Import Model.Shape Spec.Spec.
From SV Require Import Lemmas.BezierFacts Lemmas.Lines Lemmas.SplitClean Lemmas.Construct
                       Lemmas.Measure Lemmas.NoZero Lemmas.Constancy Lemmas.Cells.
From SV Require Lemmas.Winding Lemmas.Affine Lemmas.Logic.
Import ListNotations.
Open Scope Q_scope.

(* ================================================================== *)
(* L0. one shape                                                       *)
(* ================================================================== *)
(* the closed straight segment from p to q does not meet the boundary of s *)
Definition clear1 (s : shape) (p q : point) : Prop :=
  forall t, 0 <= t -> t <= 1 -> ~ on_bdry_shape s (Winding.lerp_pt p q t).

Lemma seg_clear_iff : forall a b p q, seg_clear a b p q <-> clear1 a p q /\ clear1 b p q.
Proof.
  intros a b p q. unfold seg_clear, clear1. split.
  - intro H. split; intros t T0 T1; apply (H t T0 T1).
  - intros [Ha Hb] t T0 T1. split; [exact (Ha t T0 T1)|exact (Hb t T0 T1)].
Qed.

Lemma clear1_sub : forall s s' p q,
  (forall x, on_bdry_shape s' x -> on_bdry_shape s x) -> clear1 s p q -> clear1 s' p q.
Proof. intros s s' p q Hsub H t T0 T1 K. exact (H t T0 T1 (Hsub _ K)). Qed.

Lemma clear1_sub2 : forall a b s p q,
  (forall x, on_bdry_shape s x -> on_bdry_shape a x \/ on_bdry_shape b x) ->
  clear1 a p q -> clear1 b p q -> clear1 s p q.
Proof.
  intros a b s p q Hsub Ha Hb t T0 T1 K.
  destruct (Hsub _ K) as [K'|K']; [exact (Ha t T0 T1 K')|exact (Hb t T0 T1 K')].
Qed.

Lemma seg_clear_sub : forall a b a' b' p q,
  (forall x, on_bdry_shape a' x -> on_bdry_shape a x \/ on_bdry_shape b x) ->
  (forall x, on_bdry_shape b' x -> on_bdry_shape a x \/ on_bdry_shape b x) ->
  seg_clear a b p q -> seg_clear a' b' p q.
Proof.
  intros a b a' b' p q Ha Hb H. apply seg_clear_iff in H. destruct H as [Ca Cb].
  apply seg_clear_iff. split; [exact (clear1_sub2 a b a' p q Ha Ca Cb)|
                               exact (clear1_sub2 a b b' p q Hb Ca Cb)].
Qed.

Theorem region_clear1 : forall s p q,
  closed_all (jordans s) -> clear1 s p q -> region s p = region s q.
Proof.
  intros s p q Hc H. apply (region_cellwise s s s p q Hc); [intros x Hx; left; exact Hx|].
  apply seg_clear_iff. split; exact H.
Qed.

(* ================================================================== *)
(* L1. complement                                                      *)
(* ================================================================== *)
Lemma on_boundary_invert : forall j p, all_lines j = true ->
  on_boundary (invert j) p = on_boundary j p.
Proof.
  intros j p Hl. rewrite (invert_lines j Hl). exact (Affine.on_boundary_reverse j p).
Qed.

(* (1) the complement has exactly the boundary of its operand *)
Theorem op_not_boundary : forall s s', op_not s = Ok s' -> shape_lines s = true ->
  forall p, on_bdry_shape s' p <-> on_bdry_shape s p.
Proof.
  intros s s' H Hl p. destruct (op_not_perm s s' H) as [_ HP].
  unfold shape_lines in Hl. rewrite forallb_forall in Hl. split.
  - intros (j & Hj & Hb). pose proof (Permutation_in _ HP Hj) as Hj'.
    apply in_map_iff in Hj'. destruct Hj' as (j0 & <- & Hj0).
    exists j0. split; [exact Hj0|]. rewrite <- (on_boundary_invert j0 p (Hl j0 Hj0)). exact Hb.
  - intros (j0 & Hj0 & Hb). exists (invert j0). split.
    + apply (Permutation_in _ (Permutation_sym HP)). apply in_map. exact Hj0.
    + rewrite (on_boundary_invert j0 p (Hl j0 Hj0)). exact Hb.
Qed.

Theorem op_not_cellwise : forall s s' p q, op_not s = Ok s' ->
  shape_lines s = true -> good (jordans s) -> clear1 s p q -> region s' p = region s' q.
Proof.
  intros s s' p q H Hl Hg Hc. destruct (op_not_good s s' H Hg) as [_ [_ Hcl]].
  apply (region_clear1 s' p q Hcl).
  apply (clear1_sub s s' p q); [|exact Hc].
  intros x Hx. apply (op_not_boundary s s' H Hl x). exact Hx.
Qed.

(* ================================================================== *)
(* L2. | and & : operands after, result                                *)
(* ================================================================== *)
Lemma gen_branch_operands_inv : forall a b ca cb closed inside dflt a' b' s,
  gen_branch a b ca cb closed inside dflt = Ok (a', b', s) ->
  (a' = a /\ b' = b) \/ exists c i new, recombine a b c i = Ok (a', b', new).
Proof.
  intros a b ca cb closed inside dflt a' b' s H.
  destruct (gen_branch_cases _ _ _ _ _ _ _ _ _ _ H) as [(-> & -> & _)|(new & Er & _)].
  - left. split; reflexivity.
  - right. exists closed, inside, new. exact Er.
Qed.

Lemma op_or_operands_inv : forall a b a' b' s, op_or a b = Ok (a', b', s) ->
  (a' = a /\ b' = b) \/ exists c i new, recombine a b c i = Ok (a', b', new).
Proof.
  intros a b a' b' s H.
  destruct (shape_singleton_dec a) as [-> | [-> | [Ha1 Ha2]]].
  - rewrite op_or_empty_l in H. destruct (copy_shape b); cbn [bind] in H; try discriminate.
    inversion H; subst. left. split; reflexivity.
  - rewrite op_or_whole_l in H. inversion H; subst. left. split; reflexivity.
  - destruct (shape_singleton_dec b) as [-> | [-> | [Hb1 Hb2]]].
    + rewrite op_or_empty_r in H. destruct (copy_shape a); cbn [bind] in H; try discriminate.
      inversion H; subst. left. split; reflexivity.
    + rewrite op_or_whole_r in H. inversion H; subst. left. split; reflexivity.
    + rewrite op_or_general in H by assumption. eapply gen_branch_operands_inv; eassumption.
Qed.

Lemma op_and_operands_inv : forall a b a' b' s, op_and a b = Ok (a', b', s) ->
  (a' = a /\ b' = b) \/ exists c i new, recombine a b c i = Ok (a', b', new).
Proof.
  intros a b a' b' s H.
  destruct (shape_singleton_dec a) as [-> | [-> | [Ha1 Ha2]]].
  - rewrite op_and_empty_l in H. inversion H; subst. left. split; reflexivity.
  - rewrite op_and_whole_l in H. destruct (copy_shape b); cbn [bind] in H; try discriminate.
    inversion H; subst. left. split; reflexivity.
  - destruct (shape_singleton_dec b) as [-> | [-> | [Hb1 Hb2]]].
    + rewrite op_and_empty_r in H. inversion H; subst. left. split; reflexivity.
    + rewrite op_and_whole_r in H. destruct (copy_shape a); cbn [bind] in H; try discriminate.
      inversion H; subst. left. split; reflexivity.
    + rewrite op_and_general in H by assumption. eapply gen_branch_operands_inv; eassumption.
Qed.

(* the operands after an operator: still polygons, boundary not larger *)
Lemma resplit_facts : forall a b a' b',
  ((a' = a /\ b' = b) \/ exists c i new, recombine a b c i = Ok (a', b', new)) ->
  shape_lines a = true -> shape_lines b = true ->
  shape_lines a' = true /\ shape_lines b' = true /\
  forall p, (on_bdry_shape a' p -> on_bdry_shape a p) /\ (on_bdry_shape b' p -> on_bdry_shape b p).
Proof.
  intros a b a' b' [[-> ->]|(c & i & new & Er)] La Lb.
  - split; [exact La|]. split; [exact Lb|]. intro p. split; intro K; exact K.
  - destruct (recombine_operands _ _ _ _ _ _ _ La Lb Er) as (La' & Lb' & _).
    split; [exact La'|]. split; [exact Lb'|].
    exact (recombine_resplit_boundary _ _ _ _ _ _ _ La Lb Er).
Qed.

Theorem op_or_operands_facts : forall a b a' b' s, op_or a b = Ok (a', b', s) ->
  shape_lines a = true -> shape_lines b = true ->
  shape_lines a' = true /\ shape_lines b' = true /\
  forall p, (on_bdry_shape a' p -> on_bdry_shape a p) /\ (on_bdry_shape b' p -> on_bdry_shape b p).
Proof. intros a b a' b' s H. exact (resplit_facts a b a' b' (op_or_operands_inv _ _ _ _ _ H)). Qed.

Theorem op_and_operands_facts : forall a b a' b' s, op_and a b = Ok (a', b', s) ->
  shape_lines a = true -> shape_lines b = true ->
  shape_lines a' = true /\ shape_lines b' = true /\
  forall p, (on_bdry_shape a' p -> on_bdry_shape a p) /\ (on_bdry_shape b' p -> on_bdry_shape b p).
Proof. intros a b a' b' s H. exact (resplit_facts a b a' b' (op_and_operands_inv _ _ _ _ _ H)). Qed.

(* the assembled curves are polygons (no hypothesis on the joins: re-pointing a straight
   segment gives a straight segment) *)
Lemma follow_path_lines : forall js starts new,
  Forall (fun j => all_lines j = true) js -> follow_path js starts = Ok new -> lines_all new.
Proof.
  intros js starts new Hl H. unfold lines_all. apply Forall_forall. intros j Hj.
  rewrite Forall_forall in Hl. unfold all_lines. apply forallb_forall. intros r Hr.
  destruct (follow_path_repointed js starts new H j r Hj Hr) as (j0 & s & Hj0 & Hs & Hrs).
  assert (Ls : is_line s = true).
  { specialize (Hl j0 Hj0). unfold all_lines in Hl. rewrite forallb_forall in Hl. apply Hl, Hs. }
  exact (proj1 (repointed_line s r Ls Hrs)).
Qed.

Lemma recombine_result_lines : forall a b closed inside a' b' new,
  shape_lines a = true -> shape_lines b = true ->
  recombine a b closed inside = Ok (a', b', new) -> lines_all new.
Proof.
  intros a b closed inside a' b' new Ha Hb H.
  destruct (recombine_operands _ _ _ _ _ _ _ Ha Hb H) as (La & Lb & Ef & _).
  apply (follow_path_lines _ _ _) with (2 := Ef).
  apply Forall_forall. intros j Hj. unfold shape_lines in La, Lb.
  rewrite forallb_forall in La, Lb. apply in_app_iff in Hj. destruct Hj; auto.
Qed.

Lemma shape_lines_perm : forall s js, Permutation (jordans s) js -> lines_all js ->
  shape_lines s = true.
Proof.
  intros s js HP H. unfold shape_lines. apply lines_all_iff. unfold lines_all.
  eapply Forall_perm; [apply Permutation_sym, HP|exact H].
Qed.

Lemma copy_shape_lines : forall s s', copy_shape s = Ok s' -> shape_lines s = true ->
  shape_lines s' = true.
Proof.
  intros s s' H Hl. destruct (copy_shape_spec s s' H) as (_ & _ & _ & HP).
  apply (shape_lines_perm s' (jordans s) HP). apply lines_all_iff. exact Hl.
Qed.

Lemma gen_branch_result_lines : forall a b ca cb closed inside dflt a' b' s,
  gen_branch a b ca cb closed inside dflt = Ok (a', b', s) ->
  shape_lines a = true -> shape_lines b = true ->
  shape_lines ca = true -> shape_lines cb = true -> shape_lines dflt = true ->
  shape_lines s = true.
Proof.
  intros a b ca cb closed inside dflt a' b' s H La Lb Lca Lcb Ld.
  destruct (gen_branch_cases _ _ _ _ _ _ _ _ _ _ H) as [(_ & _ & [Ec|Ec])|(new & Er & Hs)].
  - exact (copy_shape_lines _ _ Ec Lca).
  - exact (copy_shape_lines _ _ Ec Lcb).
  - destruct Hs as [[_ ->]|Es]; [exact Ld|].
    apply (shape_lines_perm s new (shape_from_jordans_perm new s Es)).
    exact (recombine_result_lines _ _ _ _ _ _ _ La Lb Er).
Qed.

Theorem op_or_result_lines : forall a b a' b' s, op_or a b = Ok (a', b', s) ->
  shape_lines a = true -> shape_lines b = true -> shape_lines s = true.
Proof.
  intros a b a' b' s H La Lb.
  destruct (shape_singleton_dec a) as [-> | [-> | [Ha1 Ha2]]].
  - rewrite op_or_empty_l in H.
    destruct (copy_shape b) as [c| |] eqn:Ec; cbn [bind] in H; try discriminate.
    inversion H; subst. exact (copy_shape_lines _ _ Ec Lb).
  - rewrite op_or_whole_l in H. inversion H; subst. reflexivity.
  - destruct (shape_singleton_dec b) as [-> | [-> | [Hb1 Hb2]]].
    + rewrite op_or_empty_r in H.
      destruct (copy_shape a) as [c| |] eqn:Ec; cbn [bind] in H; try discriminate.
      inversion H; subst. exact (copy_shape_lines _ _ Ec La).
    + rewrite op_or_whole_r in H. inversion H; subst. reflexivity.
    + rewrite op_or_general in H by assumption.
      exact (gen_branch_result_lines _ _ _ _ _ _ _ _ _ _ H La Lb La Lb eq_refl).
Qed.

Theorem op_and_result_lines : forall a b a' b' s, op_and a b = Ok (a', b', s) ->
  shape_lines a = true -> shape_lines b = true -> shape_lines s = true.
Proof.
  intros a b a' b' s H La Lb.
  destruct (shape_singleton_dec a) as [-> | [-> | [Ha1 Ha2]]].
  - rewrite op_and_empty_l in H. inversion H; subst. reflexivity.
  - rewrite op_and_whole_l in H.
    destruct (copy_shape b) as [c| |] eqn:Ec; cbn [bind] in H; try discriminate.
    inversion H; subst. exact (copy_shape_lines _ _ Ec Lb).
  - destruct (shape_singleton_dec b) as [-> | [-> | [Hb1 Hb2]]].
    + rewrite op_and_empty_r in H. inversion H; subst. reflexivity.
    + rewrite op_and_whole_r in H.
      destruct (copy_shape a) as [c| |] eqn:Ec; cbn [bind] in H; try discriminate.
      inversion H; subst. exact (copy_shape_lines _ _ Ec La).
    + rewrite op_and_general in H by assumption.
      exact (gen_branch_result_lines _ _ _ _ _ _ _ _ _ _ H La Lb Lb La eq_refl).
Qed.

(* ================================================================== *)
(* the exact-joins premises                                            *)
(* ================================================================== *)
(* whatever a | b (a & b) returns as re-split operands has exact joins *)
Definition or_joins (a b : shape) : Prop :=
  forall a' b' s, op_or a b = Ok (a', b', s) -> exact_joins a' b'.
Definition and_joins (a b : shape) : Prop :=
  forall a' b' s, op_and a b = Ok (a', b', s) -> exact_joins a' b'.
(* a - b = a & ~b : the premise of the inner & *)
Definition sub_joins (a b : shape) : Prop :=
  forall nb, op_not b = Ok nb -> and_joins a nb.
(* a ^ b = (a - b) | (b - a1), a1 the re-split a: the three inner recombinations *)
Definition xor_joins (a b : shape) : Prop :=
  sub_joins a b /\
  forall a1 d1, op_sub a b = Ok (a1, d1) ->
    sub_joins b a1 /\
    forall b1 d2, op_sub b a1 = Ok (b1, d2) -> or_joins d1 d2.

(* ================================================================== *)
(* L3. difference                                                      *)
(* ================================================================== *)
(* (2) the boundary of a - b lies in the union of the boundaries of a and b *)
Theorem op_sub_boundary_sub : forall a b a' s, op_sub a b = Ok (a', s) ->
  shape_lines a = true -> shape_lines b = true ->
  (forall nb a1 b1 s1, op_not b = Ok nb -> op_and a nb = Ok (a1, b1, s1) -> exact_joins a1 b1) ->
  forall p, on_bdry_shape s p -> on_bdry_shape a p \/ on_bdry_shape b p.
Proof.
  intros a b a' s H La Lb Hx p Hp.
  destruct (op_sub_cases _ _ _ _ H) as [(_ & _ & ->)|[(_ & _ & En)|(nb & nb' & En & Ea)]].
  - destruct (no_bdry_empty p Hp).
  - right. apply (op_not_boundary b s En Lb p). exact Hp.
  - pose proof (op_not_shape_lines b nb Lb En) as Lnb.
    destruct (op_and_boundary_sub _ _ _ _ _ Ea La Lnb (Hx _ _ _ _ En Ea) p Hp) as [K|K].
    + left. exact K.
    + right. apply (op_not_boundary b nb En Lb p). exact K.
Qed.

Theorem op_sub_cellwise : forall a b a' s p q, op_sub a b = Ok (a', s) ->
  shape_lines a = true -> shape_lines b = true ->
  good (jordans a) -> good (jordans b) ->
  (forall nb a1 b1 s1, op_not b = Ok nb -> op_and a nb = Ok (a1, b1, s1) -> exact_joins a1 b1) ->
  seg_clear a b p q -> region s p = region s q.
Proof.
  intros a b a' s p q H La Lb Ga Gb Hx Hclear.
  destruct (op_sub_good _ _ _ _ H Ga Gb) as [_ [_ Hc]].
  exact (region_cellwise a b s p q Hc (op_sub_boundary_sub _ _ _ _ H La Lb Hx) Hclear).
Qed.

Theorem op_sub_wn_cellwise : forall a b a' s p q, op_sub a b = Ok (a', s) ->
  shape_lines a = true -> shape_lines b = true ->
  good (jordans a) -> good (jordans b) ->
  (forall nb a1 b1 s1, op_not b = Ok nb -> op_and a nb = Ok (a1, b1, s1) -> exact_joins a1 b1) ->
  seg_clear a b p q -> forall j, In j (jordans s) -> wn_lines j p = wn_lines j q.
Proof.
  intros a b a' s p q H La Lb Ga Gb Hx Hclear.
  destruct (op_sub_good _ _ _ _ H Ga Gb) as [_ [_ Hc]].
  exact (wn_cellwise a b s p q Hc (op_sub_boundary_sub _ _ _ _ H La Lb Hx) Hclear).
Qed.

(* the first operand after a - b, and the result, are polygons *)
Theorem op_sub_operand_facts : forall a b a' s, op_sub a b = Ok (a', s) ->
  shape_lines a = true -> shape_lines b = true ->
  shape_lines a' = true /\ forall p, on_bdry_shape a' p -> on_bdry_shape a p.
Proof.
  intros a b a' s H La Lb.
  destruct (op_sub_cases _ _ _ _ H) as [(_ & -> & _)|[(_ & -> & _)|(nb & nb' & En & Ea)]].
  - split; [exact La|]. intros p K. exact K.
  - split; [exact La|]. intros p K. exact K.
  - pose proof (op_not_shape_lines b nb Lb En) as Lnb.
    destruct (op_and_operands_facts _ _ _ _ _ Ea La Lnb) as (La' & _ & Hsub).
    split; [exact La'|]. intros p K. exact (proj1 (Hsub p) K).
Qed.

Theorem op_sub_result_lines : forall a b a' s, op_sub a b = Ok (a', s) ->
  shape_lines a = true -> shape_lines b = true -> shape_lines s = true.
Proof.
  intros a b a' s H La Lb.
  destruct (op_sub_cases _ _ _ _ H) as [(_ & _ & ->)|[(_ & _ & En)|(nb & nb' & En & Ea)]].
  - reflexivity.
  - exact (op_not_shape_lines b s Lb En).
  - exact (op_and_result_lines _ _ _ _ _ Ea La (op_not_shape_lines b nb Lb En)).
Qed.

(* ================================================================== *)
(* L4. symmetric difference                                            *)
(* ================================================================== *)
(* (3) the boundary of a ^ b lies in the union of the boundaries of a and b *)
Theorem op_xor_boundary_sub : forall a b a' b' s, op_xor a b = Ok (a', b', s) ->
  shape_lines a = true -> shape_lines b = true ->
  (forall nb, op_not b = Ok nb -> and_joins a nb) ->
  (forall na, op_not a' = Ok na -> and_joins b na) ->
  (forall d1 d2, op_sub a b = Ok (a', d1) -> op_sub b a' = Ok (b', d2) -> or_joins d1 d2) ->
  forall p, on_bdry_shape s p -> on_bdry_shape a p \/ on_bdry_shape b p.
Proof.
  intros a b a' b' s H La Lb H1 H2 H3 p Hp.
  destruct (op_xor_cases _ _ _ _ _ H) as (d1 & d2 & x1 & x2 & E1 & E2 & E3).
  destruct (op_sub_operand_facts _ _ _ _ E1 La Lb) as [La' Hsub].
  pose proof (op_sub_result_lines _ _ _ _ E1 La Lb) as Ld1.
  pose proof (op_sub_result_lines _ _ _ _ E2 Lb La') as Ld2.
  destruct (op_or_boundary_sub _ _ _ _ _ E3 Ld1 Ld2 (H3 d1 d2 E1 E2 _ _ _ E3) p Hp) as [K|K].
  - apply (op_sub_boundary_sub _ _ _ _ E1 La Lb); [|exact K].
    intros nb a1 b1 s1 En Ea. exact (H1 nb En _ _ _ Ea).
  - destruct (op_sub_boundary_sub b a' b' d2 E2 Lb La') with (p := p) as [K'|K'].
    + intros na a1 b1 s1 En Ea. exact (H2 na En _ _ _ Ea).
    + exact K.
    + right. exact K'.
    + left. apply Hsub. exact K'.
Qed.

Lemma op_xor_closed : forall a b a' b' s, op_xor a b = Ok (a', b', s) ->
  good (jordans a) -> good (jordans b) -> shape_wf s /\ good (jordans s).
Proof.
  intros a b a' b' s H Ga Gb.
  destruct (op_xor_cases _ _ _ _ _ H) as (d1 & d2 & x1 & x2 & E1 & E2 & E3).
  pose proof (op_sub_operand_good _ _ _ _ E1 Ga Gb) as Ga'.
  destruct (op_sub_good _ _ _ _ E1 Ga Gb) as [_ Gd1].
  destruct (op_sub_good _ _ _ _ E2 Gb Ga') as [_ Gd2].
  exact (op_or_good _ _ _ _ _ E3 Gd1 Gd2).
Qed.

Theorem op_xor_cellwise : forall a b a' b' s p q, op_xor a b = Ok (a', b', s) ->
  shape_lines a = true -> shape_lines b = true ->
  good (jordans a) -> good (jordans b) ->
  (forall nb, op_not b = Ok nb -> and_joins a nb) ->
  (forall na, op_not a' = Ok na -> and_joins b na) ->
  (forall d1 d2, op_sub a b = Ok (a', d1) -> op_sub b a' = Ok (b', d2) -> or_joins d1 d2) ->
  seg_clear a b p q -> region s p = region s q.
Proof.
  intros a b a' b' s p q H La Lb Ga Gb H1 H2 H3 Hclear.
  destruct (op_xor_closed _ _ _ _ _ H Ga Gb) as [_ [_ Hc]].
  exact (region_cellwise a b s p q Hc (op_xor_boundary_sub _ _ _ _ _ H La Lb H1 H2 H3) Hclear).
Qed.

Theorem op_xor_wn_cellwise : forall a b a' b' s p q, op_xor a b = Ok (a', b', s) ->
  shape_lines a = true -> shape_lines b = true ->
  good (jordans a) -> good (jordans b) ->
  (forall nb, op_not b = Ok nb -> and_joins a nb) ->
  (forall na, op_not a' = Ok na -> and_joins b na) ->
  (forall d1 d2, op_sub a b = Ok (a', d1) -> op_sub b a' = Ok (b', d2) -> or_joins d1 d2) ->
  seg_clear a b p q -> forall j, In j (jordans s) -> wn_lines j p = wn_lines j q.
Proof.
  intros a b a' b' s p q H La Lb Ga Gb H1 H2 H3 Hclear.
  destruct (op_xor_closed _ _ _ _ _ H Ga Gb) as [_ [_ Hc]].
  exact (wn_cellwise a b s p q Hc (op_xor_boundary_sub _ _ _ _ _ H La Lb H1 H2 H3) Hclear).
Qed.

(* the packaged premise gives the three hypotheses *)
Lemma xor_joins_elim : forall a b a' b' s, op_xor a b = Ok (a', b', s) -> xor_joins a b ->
  (forall nb, op_not b = Ok nb -> and_joins a nb) /\
  (forall na, op_not a' = Ok na -> and_joins b na) /\
  (forall d1 d2, op_sub a b = Ok (a', d1) -> op_sub b a' = Ok (b', d2) -> or_joins d1 d2).
Proof.
  intros a b a' b' s H [J1 J2].
  destruct (op_xor_cases _ _ _ _ _ H) as (d1 & d2 & x1 & x2 & E1 & E2 & E3).
  destruct (J2 a' d1 E1) as [J3 J4].
  split; [exact J1|]. split; [exact J3|].
  intros e1 e2 F1 F2. destruct (J2 a' e1 F1) as [_ J5]. exact (J5 b' e2 F2).
Qed.

Theorem op_xor_operands_facts : forall a b a' b' s, op_xor a b = Ok (a', b', s) ->
  shape_lines a = true -> shape_lines b = true ->
  shape_lines a' = true /\ shape_lines b' = true /\
  forall p, (on_bdry_shape a' p -> on_bdry_shape a p) /\ (on_bdry_shape b' p -> on_bdry_shape b p).
Proof.
  intros a b a' b' s H La Lb.
  destruct (op_xor_cases _ _ _ _ _ H) as (d1 & d2 & x1 & x2 & E1 & E2 & E3).
  destruct (op_sub_operand_facts _ _ _ _ E1 La Lb) as [La' Hsa].
  destruct (op_sub_operand_facts _ _ _ _ E2 Lb La') as [Lb' Hsb].
  split; [exact La'|]. split; [exact Lb'|]. intro p. split; [apply Hsa|apply Hsb].
Qed.

Theorem op_xor_result_lines : forall a b a' b' s, op_xor a b = Ok (a', b', s) ->
  shape_lines a = true -> shape_lines b = true -> shape_lines s = true.
Proof.
  intros a b a' b' s H La Lb.
  destruct (op_xor_cases _ _ _ _ _ H) as (d1 & d2 & x1 & x2 & E1 & E2 & E3).
  destruct (op_sub_operand_facts _ _ _ _ E1 La Lb) as [La' _].
  exact (op_or_result_lines _ _ _ _ _ E3 (op_sub_result_lines _ _ _ _ E1 La Lb)
           (op_sub_result_lines _ _ _ _ E2 Lb La')).
Qed.

(* polylines, for all five operators *)
Theorem op_sub_cellwise_polyline : forall a b a' s l p, op_sub a b = Ok (a', s) ->
  shape_lines a = true -> shape_lines b = true ->
  good (jordans a) -> good (jordans b) -> sub_joins a b ->
  poly_clear a b (p :: l) -> region s p = region s (last l p).
Proof.
  intros a b a' s l p H La Lb Ga Gb Hx Hl.
  apply (cellwise_polyline a b (region s)); [|exact Hl].
  intros x y Hxy. apply (op_sub_cellwise _ _ _ _ x y H La Lb Ga Gb); [|exact Hxy].
  intros nb a1 b1 s1 En Ea. exact (Hx nb En _ _ _ Ea).
Qed.

Theorem op_xor_cellwise_polyline : forall a b a' b' s l p, op_xor a b = Ok (a', b', s) ->
  shape_lines a = true -> shape_lines b = true ->
  good (jordans a) -> good (jordans b) -> xor_joins a b ->
  poly_clear a b (p :: l) -> region s p = region s (last l p).
Proof.
  intros a b a' b' s l p H La Lb Ga Gb Hx Hl.
  destruct (xor_joins_elim _ _ _ _ _ H Hx) as (H1 & H2 & H3).
  apply (cellwise_polyline a b (region s)); [|exact Hl].
  intros x y Hxy. exact (op_xor_cellwise _ _ _ _ _ x y H La Lb Ga Gb H1 H2 H3 Hxy).
Qed.

(* ================================================================== *)
(* L5. expressions                                                     *)
(* ================================================================== *)
(* the invariant carried through an evaluation: a polygon shape of closed curves whose
   boundary lies in the set B *)
Definition bok (B : point -> Prop) (s : shape) : Prop :=
  shape_lines s = true /\ good (jordans s) /\ forall x, on_bdry_shape s x -> B x.

Section Steps.
  Variable B : point -> Prop.

  Lemma or_step : forall a b a' b' s, op_or a b = Ok (a', b', s) -> or_joins a b ->
    bok B a -> bok B b -> bok B a' /\ bok B b' /\ bok B s.
  Proof.
    intros a b a' b' s H Hx (La & Ga & Ca) (Lb & Gb & Cb).
    destruct (op_or_operands_facts _ _ _ _ _ H La Lb) as (La' & Lb' & Hsub).
    destruct (op_or_operands_good _ _ _ _ _ H Ga Gb) as [Ga' Gb'].
    destruct (op_or_good _ _ _ _ _ H Ga Gb) as [_ Gs].
    split; [|split].
    - split; [exact La'|]. split; [exact Ga'|]. intros x K. apply Ca, (Hsub x), K.
    - split; [exact Lb'|]. split; [exact Gb'|]. intros x K. apply Cb, (Hsub x), K.
    - split; [exact (op_or_result_lines _ _ _ _ _ H La Lb)|]. split; [exact Gs|].
      intros x K.
      destruct (op_or_boundary_sub _ _ _ _ _ H La Lb (Hx _ _ _ H) x K) as [K'|K'];
        [exact (Ca x K')|exact (Cb x K')].
  Qed.

  Lemma and_step : forall a b a' b' s, op_and a b = Ok (a', b', s) -> and_joins a b ->
    bok B a -> bok B b -> bok B a' /\ bok B b' /\ bok B s.
  Proof.
    intros a b a' b' s H Hx (La & Ga & Ca) (Lb & Gb & Cb).
    destruct (op_and_operands_facts _ _ _ _ _ H La Lb) as (La' & Lb' & Hsub).
    destruct (op_and_operands_good _ _ _ _ _ H Ga Gb) as [Ga' Gb'].
    destruct (op_and_good _ _ _ _ _ H Ga Gb) as [_ Gs].
    split; [|split].
    - split; [exact La'|]. split; [exact Ga'|]. intros x K. apply Ca, (Hsub x), K.
    - split; [exact Lb'|]. split; [exact Gb'|]. intros x K. apply Cb, (Hsub x), K.
    - split; [exact (op_and_result_lines _ _ _ _ _ H La Lb)|]. split; [exact Gs|].
      intros x K.
      destruct (op_and_boundary_sub _ _ _ _ _ H La Lb (Hx _ _ _ H) x K) as [K'|K'];
        [exact (Ca x K')|exact (Cb x K')].
  Qed.

  Lemma not_step : forall a s, op_not a = Ok s -> bok B a -> bok B s.
  Proof.
    intros a s H (La & Ga & Ca).
    split; [exact (op_not_shape_lines a s La H)|].
    split; [exact (proj2 (op_not_good a s H Ga))|].
    intros x K. apply Ca. apply (op_not_boundary a s H La x). exact K.
  Qed.

  Lemma sub_step : forall a b a' s, op_sub a b = Ok (a', s) -> sub_joins a b ->
    bok B a -> bok B b -> bok B a' /\ bok B s.
  Proof.
    intros a b a' s H Hx (La & Ga & Ca) (Lb & Gb & Cb).
    destruct (op_sub_operand_facts _ _ _ _ H La Lb) as [La' Hsub].
    split.
    - split; [exact La'|]. split; [exact (op_sub_operand_good _ _ _ _ H Ga Gb)|].
      intros x K. apply Ca, Hsub, K.
    - split; [exact (op_sub_result_lines _ _ _ _ H La Lb)|].
      split; [exact (proj2 (op_sub_good _ _ _ _ H Ga Gb))|].
      intros x K. destruct (op_sub_boundary_sub _ _ _ _ H La Lb) with (p := x) as [K'|K'].
      + intros nb a1 b1 s1 En Ea. exact (Hx nb En _ _ _ Ea).
      + exact K.
      + exact (Ca x K').
      + exact (Cb x K').
  Qed.

  Lemma sub3_step : forall a b a' b' s, Logic.sub3 a b = Ok (a', b', s) -> sub_joins a b ->
    bok B a -> bok B b -> bok B a' /\ bok B b' /\ bok B s.
  Proof.
    intros a b a' b' s H Hx Ha Hb. unfold Logic.sub3 in H.
    destruct (op_sub a b) as [[x r]| |] eqn:E; cbn [bind] in H; try discriminate.
    inversion H; subst. destruct (sub_step _ _ _ _ E Hx Ha Hb) as [K1 K2].
    split; [exact K1|]. split; [exact Hb|exact K2].
  Qed.

  Lemma xor_step : forall a b a' b' s, op_xor a b = Ok (a', b', s) -> xor_joins a b ->
    bok B a -> bok B b -> bok B a' /\ bok B b' /\ bok B s.
  Proof.
    intros a b a' b' s H Hx Ha Hb.
    destruct (op_xor_cases _ _ _ _ _ H) as (d1 & d2 & x1 & x2 & E1 & E2 & E3).
    destruct Hx as [J1 J2]. destruct (J2 a' d1 E1) as [J3 J4].
    destruct (sub_step _ _ _ _ E1 J1 Ha Hb) as [Ha' Hd1].
    destruct (sub_step _ _ _ _ E2 J3 Hb Ha') as [Hb' Hd2].
    destruct (or_step _ _ _ _ _ E3 (J4 b' d2 E2) Hd1 Hd2) as (_ & _ & Hs).
    split; [exact Ha'|]. split; [exact Hb'|exact Hs].
  Qed.
End Steps.

(* every recombination inside the evaluation of e in env has exact joins *)
Definition bin_joins (Ja : Prop) (Jb : list shape -> Prop) (env : list shape) (a b : expr)
    (P : shape -> shape -> Prop) : Prop :=
  Ja /\
  forall env1 va, eval_expr env a = Ok (env1, va) ->
    Jb env1 /\
    forall env2 vb, eval_expr env1 b = Ok (env2, vb) -> P va vb.

Fixpoint ejoins (env : list shape) (e : expr) : Prop :=
  match e with
  | EVar _ => True
  | EOr a b | EAdd a b => bin_joins (ejoins env a) (fun env1 => ejoins env1 b) env a b or_joins
  | EAnd a b | EMul a b => bin_joins (ejoins env a) (fun env1 => ejoins env1 b) env a b and_joins
  | ESub a b => bin_joins (ejoins env a) (fun env1 => ejoins env1 b) env a b sub_joins
  | EXor a b => bin_joins (ejoins env a) (fun env1 => ejoins env1 b) env a b xor_joins
  | ENot a | ENeg a => ejoins env a
  end.

Lemma env_set_Forall : forall (P : shape -> Prop) env e v,
  Forall P env -> P v -> Forall P (env_set env e v).
Proof.
  intros P env e v He Hv. destruct e; cbn [env_set]; try exact He.
  apply Logic.set_nth_Forall; assumption.
Qed.

Section Eval.
  Variable B : point -> Prop.

  Definition eval_inv (e : expr) : Prop :=
    forall env env' r, eval_expr env e = Ok (env', r) -> ejoins env e ->
      Forall (bok B) env -> bok B r /\ Forall (bok B) env'.

  Lemma bin_inv : forall f (P : shape -> shape -> Prop) a b,
    (forall x y x' y' s, f x y = Ok (x', y', s) -> P x y ->
       bok B x -> bok B y -> bok B x' /\ bok B y' /\ bok B s) ->
    eval_inv a -> eval_inv b ->
    forall env env' r, Logic.bin_eval env a b f = Ok (env', r) ->
      bin_joins (ejoins env a) (fun env1 => ejoins env1 b) env a b P ->
      Forall (bok B) env -> bok B r /\ Forall (bok B) env'.
  Proof.
    intros f P a b Hf IHa IHb env env' r H [Ja Jb] Henv. unfold Logic.bin_eval in H.
    apply bind_Ok in H. destruct H as ([env1 va] & Ea & H).
    apply bind_Ok in H. destruct H as ([env2 vb] & Eb & H).
    apply bind_Ok in H. destruct H as ([[va' vb'] s] & Ef & H).
    inversion H; subst; clear H.
    destruct (Jb env1 va Ea) as [Jb1 Jb2].
    destruct (IHa _ _ _ Ea Ja Henv) as [Hva Henv1].
    destruct (IHb _ _ _ Eb Jb1 Henv1) as [Hvb Henv2].
    destruct (Hf _ _ _ _ _ Ef (Jb2 env2 vb Eb) Hva Hvb) as (Hva' & Hvb' & Hs).
    split; [exact Hs|].
    apply env_set_Forall; [apply env_set_Forall|]; assumption.
  Qed.

  Lemma not_inv : forall a, eval_inv a ->
    forall env env' r,
      (do ra <- eval_expr env a; let '(env1, va) := ra in do s <- op_not va; Ok (env1, s))
        = Ok (env', r) ->
      ejoins env a -> Forall (bok B) env -> bok B r /\ Forall (bok B) env'.
  Proof.
    intros a IHa env env' r H Ja Henv.
    apply bind_Ok in H. destruct H as ([env1 va] & Ea & H).
    apply bind_Ok in H. destruct H as (s & En & H). inversion H; subst; clear H.
    destruct (IHa _ _ _ Ea Ja Henv) as [Hva Henv1].
    split; [exact (not_step B _ _ En Hva)|exact Henv1].
  Qed.

  (* the value, and every shape of the environment after the evaluation (the operands are
     split in place), is a polygon shape of closed curves with boundary in B *)
  Theorem eval_expr_inv : forall e, eval_inv e.
  Proof.
    induction e; intros env env' r H J Henv.
    - rewrite Logic.eval_EVar in H. destruct (nth_error env n) eqn:E; [|discriminate].
      inversion H; subst; clear H. split; [|exact Henv].
      rewrite Forall_forall in Henv. apply Henv. eapply nth_error_In; exact E.
    - rewrite Logic.eval_EOr in H.
      exact (bin_inv _ _ _ _ (or_step B) IHe1 IHe2 _ _ _ H J Henv).
    - rewrite Logic.eval_EAnd in H.
      exact (bin_inv _ _ _ _ (and_step B) IHe1 IHe2 _ _ _ H J Henv).
    - rewrite Logic.eval_ESub in H.
      exact (bin_inv _ _ _ _ (sub3_step B) IHe1 IHe2 _ _ _ H J Henv).
    - rewrite Logic.eval_EXor in H.
      exact (bin_inv _ _ _ _ (xor_step B) IHe1 IHe2 _ _ _ H J Henv).
    - rewrite Logic.eval_ENot in H. exact (not_inv _ IHe _ _ _ H J Henv).
    - rewrite Logic.eval_EAdd in H.
      exact (bin_inv _ _ _ _ (or_step B) IHe1 IHe2 _ _ _ H J Henv).
    - rewrite Logic.eval_EMul in H.
      exact (bin_inv _ _ _ _ (and_step B) IHe1 IHe2 _ _ _ H J Henv).
    - rewrite Logic.eval_ENeg in H. exact (not_inv _ IHe _ _ _ H J Henv).
  Qed.
End Eval.

(* p is exactly on the boundary of some shape of the environment *)
Definition on_bdry_env (env : list shape) (p : point) : Prop :=
  exists x, In x env /\ on_bdry_shape x p.

(* (4a) the boundary of the value of an expression (and of every shape of the environment
   after the evaluation) lies in the union of the boundaries of the shapes of env; the value
   is a polygon shape of closed curves *)
Theorem eval_expr_boundary_sub : forall e env env' s,
  eval_expr env e = Ok (env', s) -> ejoins env e ->
  (forall x, In x env -> shape_lines x = true /\ good (jordans x)) ->
  (shape_lines s = true /\ good (jordans s) /\
   forall p, on_bdry_shape s p -> on_bdry_env env p) /\
  (forall y, In y env' -> shape_lines y = true /\ good (jordans y) /\
   forall p, on_bdry_shape y p -> on_bdry_env env p).
Proof.
  intros e env env' s H J Hg.
  destruct (eval_expr_inv (on_bdry_env env) e env env' s H J) as [Hs Henv'].
  - apply Forall_forall. intros x Hx. destruct (Hg x Hx) as [L G].
    split; [exact L|]. split; [exact G|]. intros p Hp. exists x. split; assumption.
  - split; [exact Hs|]. rewrite Forall_forall in Henv'. exact Henv'.
Qed.

(* (4b) the value of an expression is a union of cells of the arrangement of the boundaries
   of the shapes of the environment *)
Theorem eval_expr_cellwise : forall e env env' s p q,
  eval_expr env e = Ok (env', s) -> ejoins env e ->
  (forall x, In x env -> shape_lines x = true /\ good (jordans x)) ->
  (forall x, In x env -> clear1 x p q) ->
  region s p = region s q.
Proof.
  intros e env env' s p q H J Hg Hc.
  destruct (eval_expr_boundary_sub e env env' s H J Hg) as [(_ & [_ Hcl] & Hsub) _].
  apply (region_clear1 s p q Hcl). intros t T0 T1 K.
  destruct (Hsub _ K) as (x & Hx & Kx). exact (Hc x Hx t T0 T1 Kx).
Qed.

Theorem eval_expr_wn_cellwise : forall e env env' s p q,
  eval_expr env e = Ok (env', s) -> ejoins env e ->
  (forall x, In x env -> shape_lines x = true /\ good (jordans x)) ->
  (forall x, In x env -> clear1 x p q) ->
  forall j, In j (jordans s) -> wn_lines j p = wn_lines j q.
Proof.
  intros e env env' s p q H J Hg Hc.
  destruct (eval_expr_boundary_sub e env env' s H J Hg) as [(_ & [_ Hcl] & Hsub) _].
  apply (wn_cellwise s s s p q Hcl); [intros x Hx; left; exact Hx|].
  apply seg_clear_iff.
  assert (C : clear1 s p q).
  { intros t T0 T1 K. destruct (Hsub _ K) as (x & Hx & Kx). exact (Hc x Hx t T0 T1 Kx). }
  split; exact C.
Qed.

(* polylines *)
Fixpoint poly_clear_env (env : list shape) (l : list point) : Prop :=
  match l with
  | x :: ((y :: _) as t) => (forall s, In s env -> clear1 s x y) /\ poly_clear_env env t
  | _ => True
  end.

Theorem eval_expr_cellwise_polyline : forall e env env' s l p,
  eval_expr env e = Ok (env', s) -> ejoins env e ->
  (forall x, In x env -> shape_lines x = true /\ good (jordans x)) ->
  poly_clear_env env (p :: l) -> region s p = region s (last l p).
Proof.
  intros e env env' s l p H J Hg. revert p.
  induction l as [|x l IH]; intros p Hl; [reflexivity|].
  change ((forall s, In s env -> clear1 s p x) /\ poly_clear_env env (x :: l)) in Hl.
  destruct Hl as [H1 H2].
  rewrite Constancy.last_cons, (eval_expr_cellwise e env env' s p x H J Hg H1).
  apply IH. exact H2.
Qed.

(* ================================================================== *)
(* checkable forms of the premises, and non-vacuity                    *)
(* ================================================================== *)
Definition or_joins_b (a b : shape) : bool :=
  match op_or a b with
  | Ok (x, y, _) => exact_joinsb (jordans x ++ jordans y)
  | _ => true
  end.
Definition and_joins_b (a b : shape) : bool :=
  match op_and a b with
  | Ok (x, y, _) => exact_joinsb (jordans x ++ jordans y)
  | _ => true
  end.
Definition sub_joins_b (a b : shape) : bool :=
  match op_not b with Ok nb => and_joins_b a nb | _ => true end.
Definition xor_joins_b (a b : shape) : bool :=
  sub_joins_b a b &&
  match op_sub a b with
  | Ok (a1, d1) =>
      sub_joins_b b a1 &&
      match op_sub b a1 with Ok (_, d2) => or_joins_b d1 d2 | _ => true end
  | _ => true
  end.

Lemma or_joins_b_sound : forall a b, or_joins_b a b = true -> or_joins a b.
Proof.
  intros a b H a' b' s E. unfold or_joins_b in H. rewrite E in H.
  exact (exact_joinsb_sound _ H).
Qed.
Lemma and_joins_b_sound : forall a b, and_joins_b a b = true -> and_joins a b.
Proof.
  intros a b H a' b' s E. unfold and_joins_b in H. rewrite E in H.
  exact (exact_joinsb_sound _ H).
Qed.
Lemma sub_joins_b_sound : forall a b, sub_joins_b a b = true -> sub_joins a b.
Proof.
  intros a b H nb E. unfold sub_joins_b in H. rewrite E in H. exact (and_joins_b_sound _ _ H).
Qed.
Lemma xor_joins_b_sound : forall a b, xor_joins_b a b = true -> xor_joins a b.
Proof.
  intros a b H. unfold xor_joins_b in H. apply andb_true_iff in H. destruct H as [H1 H2].
  split; [exact (sub_joins_b_sound _ _ H1)|].
  intros a1 d1 E1. rewrite E1 in H2. apply andb_true_iff in H2. destruct H2 as [H2 H3].
  split; [exact (sub_joins_b_sound _ _ H2)|].
  intros b1 d2 E2. rewrite E2 in H3. exact (or_joins_b_sound _ _ H3).
Qed.

Definition bin_joins_b (ja : bool) (jb : list shape -> bool) (env : list shape) (a b : expr)
    (P : shape -> shape -> bool) : bool :=
  ja &&
  match eval_expr env a with
  | Ok (env1, va) =>
      jb env1 &&
      match eval_expr env1 b with Ok (_, vb) => P va vb | _ => true end
  | _ => true
  end.

Fixpoint ejoins_b (env : list shape) (e : expr) : bool :=
  match e with
  | EVar _ => true
  | EOr a b | EAdd a b =>
      bin_joins_b (ejoins_b env a) (fun env1 => ejoins_b env1 b) env a b or_joins_b
  | EAnd a b | EMul a b =>
      bin_joins_b (ejoins_b env a) (fun env1 => ejoins_b env1 b) env a b and_joins_b
  | ESub a b =>
      bin_joins_b (ejoins_b env a) (fun env1 => ejoins_b env1 b) env a b sub_joins_b
  | EXor a b =>
      bin_joins_b (ejoins_b env a) (fun env1 => ejoins_b env1 b) env a b xor_joins_b
  | ENot a | ENeg a => ejoins_b env a
  end.

Lemma bin_joins_b_sound : forall (ja : bool) (Ja : Prop) jb (Jb : list shape -> Prop) env a b
    (Pb : shape -> shape -> bool) (P : shape -> shape -> Prop),
  (ja = true -> Ja) -> (forall env1, jb env1 = true -> Jb env1) ->
  (forall x y, Pb x y = true -> P x y) ->
  bin_joins_b ja jb env a b Pb = true -> bin_joins Ja Jb env a b P.
Proof.
  intros ja Ja jb Jb env a b Pb P Ha Hb HP H. unfold bin_joins_b in H.
  apply andb_true_iff in H. destruct H as [H1 H2]. split; [exact (Ha H1)|].
  intros env1 va Ea. rewrite Ea in H2. apply andb_true_iff in H2. destruct H2 as [H2 H3].
  split; [exact (Hb env1 H2)|].
  intros env2 vb Eb. rewrite Eb in H3. exact (HP _ _ H3).
Qed.

Theorem ejoins_b_sound : forall e env, ejoins_b env e = true -> ejoins env e.
Proof.
  induction e; intros env H; cbn [ejoins_b ejoins] in *; try exact I; try (apply IHe; exact H).
  - apply (bin_joins_b_sound _ _ _ _ _ _ _ _ _ (IHe1 env) IHe2 or_joins_b_sound H).
  - apply (bin_joins_b_sound _ _ _ _ _ _ _ _ _ (IHe1 env) IHe2 and_joins_b_sound H).
  - apply (bin_joins_b_sound _ _ _ _ _ _ _ _ _ (IHe1 env) IHe2 sub_joins_b_sound H).
  - apply (bin_joins_b_sound _ _ _ _ _ _ _ _ _ (IHe1 env) IHe2 xor_joins_b_sound H).
  - apply (bin_joins_b_sound _ _ _ _ _ _ _ _ _ (IHe1 env) IHe2 or_joins_b_sound H).
  - apply (bin_joins_b_sound _ _ _ _ _ _ _ _ _ (IHe1 env) IHe2 and_joins_b_sound H).
Qed.

(* the two overlapping squares of Measure.v: A ^ B and (A | B) - ~(A ^ B) evaluate (two curves,
   In at (1/2,1/2)), every inner recombination has exact joins, and the segment of Cells.ex_seg_clear (inside A \ B,
   clear of both boundaries) gives equal regions *)
Lemma ex_env_good : forall x, In x [exA; exB] -> shape_lines x = true /\ good (jordans x).
Proof.
  intros x [<-|[<-|[]]]; (split; [reflexivity|apply ex_good]).
Qed.

Lemma ex_env_clear : forall x, In x [exA; exB] -> clear1 x (1 # 2, 1 # 2) (1 # 2, 3 # 2).
Proof.
  pose proof ex_seg_clear as H. apply seg_clear_iff in H. destruct H as [Ha Hb].
  intros x [<-|[<-|[]]]; assumption.
Qed.

Lemma ex_cells_expr : forall e,
  ejoins_b [exA; exB] e = true ->
  forall env' s, eval_expr [exA; exB] e = Ok (env', s) ->
  region s (1 # 2, 1 # 2) = region s (1 # 2, 3 # 2).
Proof.
  intros e J env' s H.
  exact (eval_expr_cellwise e _ env' s _ _ H (ejoins_b_sound _ _ J) ex_env_good ex_env_clear).
Qed.

Definition ex_e1 : expr := EXor (EVar 0) (EVar 1).
Definition ex_e2 : expr := ESub (EOr (EVar 0) (EVar 1)) (ENot (EXor (EVar 0) (EVar 1))).

Example ex_cells_xor :
  exists env' s, eval_expr [exA; exB] ex_e1 = Ok (env', s) /\ ejoins [exA; exB] ex_e1 /\
    region s (1 # 2, 1 # 2) = RIn /\ region s (1 # 2, 1 # 2) = region s (1 # 2, 3 # 2).
Proof.
  assert (J : ejoins_b [exA; exB] ex_e1 = true) by (vm_compute; reflexivity).
  assert (R : match eval_expr [exA; exB] ex_e1 with
              | Ok (_, s) => region s (1 # 2, 1 # 2) = RIn | _ => False end)
    by (vm_compute; reflexivity).
  destruct (eval_expr [exA; exB] ex_e1) as [[env' s]| |] eqn:E; try contradiction.
  exists env', s. split; [reflexivity|]. split; [exact (ejoins_b_sound _ _ J)|].
  split; [exact R|exact (ex_cells_expr ex_e1 J env' s E)].
Qed.

Example ex_cells_nested :
  exists env' s, eval_expr [exA; exB] ex_e2 = Ok (env', s) /\ ejoins [exA; exB] ex_e2 /\
    region s (1 # 2, 1 # 2) = RIn /\ region s (1 # 2, 1 # 2) = region s (1 # 2, 3 # 2).
Proof.
  assert (J : ejoins_b [exA; exB] ex_e2 = true) by (vm_compute; reflexivity).
  assert (R : match eval_expr [exA; exB] ex_e2 with
              | Ok (_, s) => region s (1 # 2, 1 # 2) = RIn | _ => False end)
    by (vm_compute; reflexivity).
  destruct (eval_expr [exA; exB] ex_e2) as [[env' s]| |] eqn:E; try contradiction.
  exists env', s. split; [reflexivity|]. split; [exact (ejoins_b_sound _ _ J)|].
  split; [exact R|exact (ex_cells_expr ex_e2 J env' s E)].
Qed.

Print Assumptions op_not_boundary.
Print Assumptions op_not_cellwise.
Print Assumptions op_or_operands_facts.
Print Assumptions op_and_operands_facts.
Print Assumptions op_or_result_lines.
Print Assumptions op_and_result_lines.
Print Assumptions op_sub_boundary_sub.
Print Assumptions op_sub_cellwise.
Print Assumptions op_sub_wn_cellwise.
Print Assumptions op_xor_boundary_sub.
Print Assumptions op_xor_cellwise.
Print Assumptions op_xor_wn_cellwise.
Print Assumptions op_sub_cellwise_polyline.
Print Assumptions op_xor_cellwise_polyline.
Print Assumptions eval_expr_inv.
Print Assumptions eval_expr_boundary_sub.
Print Assumptions eval_expr_cellwise.
Print Assumptions eval_expr_wn_cellwise.
Print Assumptions eval_expr_cellwise_polyline.
Print Assumptions ejoins_b_sound.
Print Assumptions ex_cells_xor.
Print Assumptions ex_cells_nested.
