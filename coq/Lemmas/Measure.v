(* Measure.v -- "operator results are measure-consistent" (C05), the parts that
   are pure bookkeeping over rational polygons:
   M1  complement negates every moment (all shape kinds)
   M2  the union / intersection selections of boundary pieces partition the pieces
   M3  splitting a straight boundary segment changes no moment (all exponents
       covered by the quadrature sweep), segment level and curve level
   M4  a curve assembled from exactly-joining selected pieces carries the sum
       of the pieces' integrals. *)
From Coq Require Import QArith Lqa Lia List Permutation.
From SV Require Import Model.Shape Spec.Spec.
From SV Require Import Lemmas.BezierFacts Lemmas.Quadrature Lemmas.Lines Lemmas.SplitClean
                       Lemmas.Construct Lemmas.Logic.
Import ListNotations.
Open Scope Q_scope.

(* ================================================================== *)
(* M3 (calculus on coefficient lists)                                  *)
(* ================================================================== *)

Lemma nQ_S : forall k, nQ (S k) == nQ k + 1.
Proof.
  intro k. unfold nQ. rewrite Nat2Z.inj_succ. unfold Z.succ. rewrite inject_Z_plus. reflexivity.
Qed.
Lemma nQ_S_nz : forall k, ~ nQ (S k) == 0.
Proof. intro k. pose proof (nQ_pos (S k) ltac:(lia)). lra. Qed.

(* value of the derivative of p at x, by Horner: (c + x t)' = t + x t' *)
Fixpoint pdev (p : poly) (x : Q) : Q :=
  match p with [] => 0 | _ :: t => peval t x + x * pdev t x end.

Lemma pdev_wd : forall p x y, x == y -> pdev p x == pdev p y.
Proof.
  induction p as [|c p IH]; intros x y H; cbn [pdev]; [reflexivity|].
  rewrite (IH x y H), (peval_wd p x y H), H. reflexivity.
Qed.
Global Instance pdev_Proper p : Proper (Qeq ==> Qeq) (pdev p).
Proof. intros x y H. apply pdev_wd, H. Qed.

Lemma peval_pderiv_from : forall p k x,
  peval (pderiv_from k p) x == nQ k * peval p x + x * pdev p x.
Proof.
  induction p as [|c p IH]; intros k x; cbn [pderiv_from peval pdev]; [ring|].
  rewrite IH, nQ_S. ring.
Qed.
Lemma peval_pderiv : forall p x, peval (pderiv p) x == pdev p x.
Proof.
  intros [|c p] x; cbn [pderiv peval pdev]; [reflexivity|].
  rewrite peval_pderiv_from. change (nQ 1) with 1. ring.
Qed.

Lemma pdev_add : forall p q x, pdev (poly_add p q) x == pdev p x + pdev q x.
Proof.
  induction p as [|a p IH]; intros [|b q] x; cbn [poly_add pdev]; try ring.
  rewrite IH, peval_add. ring.
Qed.
Lemma pdev_scale : forall k p x, pdev (poly_scale k p) x == k * pdev p x.
Proof.
  intros k p x. induction p as [|a p IH]; cbn [poly_scale map pdev]; [ring|].
  fold (poly_scale k p). rewrite IH, peval_scale. ring.
Qed.
Lemma pdev_mul : forall p q x,
  pdev (poly_mul p q) x == pdev p x * peval q x + peval p x * pdev q x.
Proof.
  induction p as [|a p IH]; intros q x; cbn [poly_mul pdev peval]; [ring|].
  rewrite pdev_add, pdev_scale. cbn [pdev]. rewrite IH, peval_mul. ring.
Qed.

(* composition with a coefficient list l (Horner) *)
Fixpoint pcomp (p l : poly) : poly :=
  match p with [] => [] | c :: t => poly_add [c] (poly_mul l (pcomp t l)) end.
Lemma peval_pcomp : forall p l x, peval (pcomp p l) x == peval p (peval l x).
Proof.
  induction p as [|c p IH]; intros l x; cbn [pcomp peval]; [reflexivity|].
  rewrite peval_add, peval_mul, IH. cbn [peval]. ring.
Qed.
Lemma pdev_pcomp : forall p l x, pdev (pcomp p l) x == pdev p (peval l x) * pdev l x.
Proof.
  induction p as [|c p IH]; intros l x; cbn [pcomp pdev]; [ring|].
  rewrite pdev_add, pdev_mul, IH, peval_pcomp. cbn [pdev peval]. ring.
Qed.
Lemma length_pcomp_line : forall p a b, (length (pcomp p [a; b]) <= length p + 1)%nat.
Proof.
  induction p as [|c p IH]; intros a b; cbn [pcomp length]; [lia|].
  specialize (IH a b). cbn [poly_mul]. rewrite !length_poly_add, !length_poly_scale.
  cbn [length]. rewrite ?length_poly_add, ?length_poly_scale. cbn [length]. lia.
Qed.

(* formal antiderivative vanishing at 0 *)
Fixpoint pantider_from (k : nat) (p : poly) : poly :=
  match p with [] => [] | c :: t => (c / nQ (S k)) :: pantider_from (S k) t end.
Definition pantider (p : poly) : poly := 0 :: pantider_from 0 p.

Lemma length_pantider : forall p, length (pantider p) = S (length p).
Proof.
  intro p. unfold pantider. cbn [length]. f_equal. generalize 0%nat.
  induction p as [|c p IH]; intro k; cbn [pantider_from length]; [reflexivity|]. rewrite IH. reflexivity.
Qed.
Lemma peval_pantider_from_1 : forall p k, peval (pantider_from k p) 1 == pint01_from k p.
Proof.
  induction p as [|c p IH]; intro k; cbn [pantider_from peval pint01_from]; [reflexivity|].
  rewrite IH. ring.
Qed.
Lemma peval_pantider_1 : forall p, peval (pantider p) 1 == pint01 p.
Proof. intro p. unfold pantider, pint01. cbn [peval]. rewrite peval_pantider_from_1. ring. Qed.
Lemma peval_pantider_0 : forall p, peval (pantider p) 0 == 0.
Proof. intro p. unfold pantider. cbn [peval]. ring. Qed.

Lemma pantider_from_deriv : forall p k x,
  nQ (S k) * peval (pantider_from k p) x + x * pdev (pantider_from k p) x == peval p x.
Proof.
  induction p as [|c p IH]; intros k x; cbn [pantider_from peval pdev]; [ring|].
  rewrite <- (IH (S k) x). rewrite (nQ_S (S k)). field. apply nQ_S_nz.
Qed.
Lemma pdev_pantider : forall p x, pdev (pantider p) x == peval p x.
Proof.
  intros p x. unfold pantider. cbn [pdev].
  rewrite <- (pantider_from_deriv p 0 x). change (nQ 1) with 1. ring.
Qed.

(* the fundamental theorem on coefficient lists *)
Lemma pint01_from_pderiv_from : forall p k,
  pint01_from k (pderiv_from (S k) p) == peval p 1.
Proof.
  induction p as [|c p IH]; intro k; cbn [pderiv_from pint01_from peval]; [reflexivity|].
  rewrite IH. field. apply nQ_S_nz.
Qed.
Lemma pint01_pderiv : forall p, pint01 (pderiv p) == peval p 1 - peval p 0.
Proof.
  intros [|c p]; unfold pint01; cbn [pderiv pint01_from peval]; [ring|].
  rewrite pint01_from_pderiv_from. ring.
Qed.
Lemma length_pderiv : forall p, length (pderiv p) = (length p - 1)%nat.
Proof.
  intros [|c p]; cbn [pderiv length]; [reflexivity|].
  cbn [Nat.sub]. rewrite ?Nat.sub_0_r. generalize 1%nat.
  induction p as [|d p IH]; intro k; cbn [pderiv_from length]; [reflexivity|]. rewrite IH. reflexivity.
Qed.

(* change of variable: a coefficient list q whose values are
   (v-u) p(u + x (v-u)) integrates to P(v) - P(u), P the antiderivative of p *)
Theorem pint01_affine : forall p q u v,
  (length p <= 17)%nat -> (length q <= 19)%nat ->
  (forall x, peval q x == (v - u) * peval p (u + x * (v - u))) ->
  pint01 q == peval (pantider p) v - peval (pantider p) u.
Proof.
  intros p q u v Hp Hq H.
  set (Hc := pcomp (pantider p) [u; v - u]).
  assert (HL : (length (pderiv Hc) <= 19)%nat).
  { rewrite length_pderiv. unfold Hc.
    pose proof (length_pcomp_line (pantider p) u (v - u)) as L.
    rewrite length_pantider in L. lia. }
  rewrite (pint01_values q (pderiv Hc) Hq HL).
  - rewrite pint01_pderiv. unfold Hc. rewrite !peval_pcomp. cbn [peval].
    apply Qplus_comp; [|apply Qopp_comp]; apply peval_wd; ring.
  - intro x. rewrite H, peval_pderiv. unfold Hc. rewrite pdev_pcomp, pdev_pantider.
    cbn [pdev peval]. setoid_replace (u + x * (v - u + x * 0)) with (u + x * (v - u)) by ring.
    ring.
Qed.

(* ================================================================== *)
(* M3 (segment level)                                                  *)
(* ================================================================== *)

(* the integral over a straight segment depends on the end points up to == only
   (no bound on the exponents: same nodes, same weights, equal integrands) *)
Lemma vertical_line_peq : forall A B A' B' ex ey, peq A A' -> peq B B' ->
  vertical [A; B] ex ey == vertical [A'; B'] ex ey.
Proof.
  intros A B A' B' ex ey [H1 H2] [H3 H4]. rewrite !vertical_line_quad.
  apply quad_ext. intro t. unfold line_integrand.
  rewrite !peval_mul, !peval_pow, !peval_pderiv_line.
  assert (HX : peval (line_poly (px A) (px B)) t == peval (line_poly (px A') (px B')) t).
  { cbv [line_poly peval]. rewrite H1, H3. reflexivity. }
  assert (HY : peval (line_poly (py A) (py B)) t == peval (line_poly (py A') (py B')) t).
  { cbv [line_poly peval]. rewrite H2, H4. reflexivity. }
  rewrite HX, HY, H2, H4. reflexivity.
Qed.

Lemma vertical_peq_gen : forall s a b ex ey, length s = 2%nat ->
  peq (first_pt s) a -> peq (last_pt s) b -> vertical s ex ey == vertical [a; b] ex ey.
Proof.
  intros s a b ex ey Hl Hf Hg. destruct s as [|p [|q [|z s]]]; try discriminate Hl.
  cbn [first_pt last_pt hd last] in *. apply vertical_line_peq; assumption.
Qed.

(* the integral over the part of a-b between the parameters u and v is the
   increment of ONE polynomial (the antiderivative of the integrand of a-b) *)
Theorem vertical_sub : forall a b u v ex ey, (ex + ey + 4 <= 19)%nat ->
  vertical [pt_at a b u; pt_at a b v] ex ey ==
  peval (pantider (line_integrand a b ex ey)) v - peval (pantider (line_integrand a b ex ey)) u.
Proof.
  intros a b u v ex ey Hb. rewrite vertical_line_exact by exact Hb.
  fold (line_integrand (pt_at a b u) (pt_at a b v) ex ey).
  pose proof (length_line_integrand a b ex ey) as L1.
  pose proof (length_line_integrand (pt_at a b u) (pt_at a b v) ex ey) as L2.
  apply pint01_affine; [lia|lia|].
  intro x. unfold line_integrand.
  rewrite !peval_mul, !peval_pow, !peval_pderiv_line.
  assert (HX : peval (line_poly (px (pt_at a b u)) (px (pt_at a b v))) x
               == peval (line_poly (px a) (px b)) (u + x * (v - u))).
  { destruct a as [ax ay], b as [bx by_]. cbv [line_poly peval pt_at px py fst snd]. ring. }
  assert (HY : peval (line_poly (py (pt_at a b u)) (py (pt_at a b v))) x
               == peval (line_poly (py a) (py b)) (u + x * (v - u))).
  { destruct a as [ax ay], b as [bx by_]. cbv [line_poly peval pt_at px py fst snd]. ring. }
  assert (HD : py (pt_at a b v) - py (pt_at a b u) == (v - u) * (py b - py a)).
  { destruct a as [ax ay], b as [bx by_]. cbv [pt_at px py fst snd]. ring. }
  rewrite HX, HY, HD. ring.
Qed.

Theorem vertical_split_par_gen : forall a b u v w ex ey, (ex + ey + 4 <= 19)%nat ->
  vertical [pt_at a b u; pt_at a b v] ex ey + vertical [pt_at a b v; pt_at a b w] ex ey
  == vertical [pt_at a b u; pt_at a b w] ex ey.
Proof. intros a b u v w ex ey Hb. rewrite !vertical_sub by exact Hb. ring. Qed.

(* splitting a straight segment at any point of its line changes no moment *)
Theorem vertical_split_gen : forall a b t m ex ey, (ex + ey + 4 <= 19)%nat ->
  peq m (pt_at a b t) ->
  vertical [a; m] ex ey + vertical [m; b] ex ey == vertical [a; b] ex ey.
Proof.
  intros a b t m ex ey Hb Hm.
  rewrite (vertical_line_peq a m (pt_at a b 0) (pt_at a b t)) by (apply peq_sym, pt_at_0 || exact Hm).
  rewrite (vertical_line_peq m b (pt_at a b t) (pt_at a b 1)) by (exact Hm || apply peq_sym, pt_at_1).
  rewrite vertical_split_par_gen by exact Hb.
  apply vertical_line_peq; [apply pt_at_0|apply pt_at_1].
Qed.

Corollary vertical_split_at : forall a b t ex ey, (ex + ey + 4 <= 19)%nat ->
  vertical [a; pt_at a b t] ex ey + vertical [pt_at a b t; b] ex ey == vertical [a; b] ex ey.
Proof. intros. apply (vertical_split_gen a b t); [assumption|apply peq_refl]. Qed.

(* the same for the formal integrals of the specification *)
Corollary edge_moment_split : forall A B t m a b, (a + b <= 14)%nat ->
  peq m (pt_at A B t) ->
  edge_moment [A; m] a b + edge_moment [m; B] a b == edge_moment [A; B] a b.
Proof.
  intros A B t m a b Hab Hm. rewrite <- !edge_moment_line by exact Hab.
  rewrite <- (vertical_split_gen A B t m (S a) b) by (lia || exact Hm).
  unfold Qdiv. ring.
Qed.

(* ================================================================== *)
(* M3 (curve level)                                                    *)
(* ================================================================== *)
Lemma subdiv_from_vertical : forall a b u l ps ex ey, (ex + ey + 4 <= 19)%nat ->
  subdiv_from a b u l ps ->
  Qsum (map (fun s => vertical s ex ey) ps) == vertical [pt_at a b u; pt_at a b 1] ex ey.
Proof.
  intros a b u l ps ex ey Hb H. induction H.
  - cbn [map Qsum]. destruct H as (Hl & Hf & Hg).
    rewrite (vertical_peq_gen s _ _ ex ey Hl Hf Hg). ring.
  - cbn [map Qsum]. rewrite IHsubdiv_from. destruct H as (Hl & Hf & Hg).
    rewrite (vertical_peq_gen s _ _ ex ey Hl Hf Hg). apply vertical_split_par_gen, Hb.
Qed.

Lemma subdiv_vertical : forall s ps ex ey, (ex + ey + 4 <= 19)%nat -> subdiv s ps ->
  Qsum (map (fun s => vertical s ex ey) ps) == vertical s ex ey.
Proof.
  intros s ps ex ey Hb (a & b & ts & -> & _ & H).
  rewrite (subdiv_from_vertical _ _ _ _ _ ex ey Hb H).
  apply vertical_line_peq; [apply pt_at_0|apply pt_at_1].
Qed.

Theorem split_many_vertical : forall a b ts ex ey, (ex + ey + 4 <= 19)%nat ->
  (forall t, In t ts -> ~ t == 1) ->
  Qsum (map (fun s => vertical s ex ey) (split_many ts [a; b])) == vertical [a; b] ex ey.
Proof.
  intros a b ts ex ey Hb H.
  rewrite (subdiv_from_vertical a b 0 ts _ ex ey Hb (split_many_subdiv a b ts H)).
  apply vertical_line_peq; [apply pt_at_0|apply pt_at_1].
Qed.

(* JordanCurve.split changes no boundary integral *)
Theorem split_moment : forall j idx nodes j' ex ey,
  all_lines j = true -> (ex + ey + 4 <= 19)%nat -> Jordan.split j idx nodes = Ok j' ->
  jordan_vertical j' ex ey == jordan_vertical j ex ey.
Proof.
  intros j idx nodes j' ex ey Hl Hb H.
  destruct (split_spec _ _ _ _ Hl H) as (pieces & -> & F).
  unfold jordan_vertical. rewrite !Qred_correct.
  apply (Forall2_Qsum_concat (fun s => vertical s ex ey)).
  eapply Forall2_impl; [|exact F]. intros s ps. apply subdiv_vertical, Hb.
Qed.

Corollary split_moment_spec : forall j idx nodes j' a b,
  all_lines j = true -> (a + b <= 14)%nat -> Jordan.split j idx nodes = Ok j' ->
  jordan_moment_spec j' a b == jordan_moment_spec j a b.
Proof.
  intros j idx nodes j' a b Hl Hab H.
  rewrite <- !jordan_moment_exact by (exact Hab || exact Hl || exact (split_all_lines _ _ _ _ Hl H)).
  rewrite (split_moment j idx nodes j' (S a) b Hl) by (lia || exact H). reflexivity.
Qed.

(* ================================================================== *)
(* M1. complement negates every moment                                 *)
(* ================================================================== *)
(* the moment as a function of the LIST of boundary curves *)
Definition moment_list (js : list jordan) (a b : nat) : Q :=
  Qsum (map (fun j => jordan_vertical j (S a) b) js) / nQ (S a).

Lemma moment_moment_list : forall s a b, moment s a b == moment_list (jordans s) a b.
Proof. intros. unfold moment, moment_list. apply Qred_correct. Qed.

Lemma moment_list_perm : forall js js' a b, Permutation js js' ->
  moment_list js a b == moment_list js' a b.
Proof.
  intros js js' a b H. unfold moment_list. apply Qmult_comp; [|reflexivity].
  apply Qsum_perm, Permutation_map, H.
Qed.

Lemma moment_list_nil : forall a b, moment_list [] a b == 0.
Proof. intros. unfold moment_list. cbn [map Qsum]. unfold Qdiv. ring. Qed.

Lemma moment_list_app : forall l m a b,
  moment_list (l ++ m) a b == moment_list l a b + moment_list m a b.
Proof.
  intros. unfold moment_list. rewrite map_app, SplitClean.Qsum_app. unfold Qdiv. ring.
Qed.

Theorem moment_empty : forall a b, moment SEmpty a b == 0.
Proof. intros. rewrite moment_moment_list. apply moment_list_nil. Qed.
(* "Whole counted as 0": the unbounded plane has no boundary curve *)
Theorem moment_whole : forall a b, moment SWhole a b == 0.
Proof. intros. rewrite moment_moment_list. apply moment_list_nil. Qed.

Lemma moment_list_invert : forall js a b,
  forallb all_lines js = true -> (a + b <= 14)%nat ->
  moment_list (map invert js) a b == - moment_list js a b.
Proof.
  intros js a b Hl Hab. unfold moment_list. rewrite map_map.
  rewrite (Qsum_map_ext _ (fun j => - jordan_vertical j (S a) b)).
  - rewrite Qsum_map_opp. unfold Qdiv. ring.
  - intros j Hj. rewrite forallb_forall in Hl.
    apply jordan_vertical_invert; [apply Hl, Hj|lia].
Qed.

Theorem moment_not : forall s s' a b,
  shape_lines s = true -> (a + b <= 14)%nat -> op_not s = Ok s' ->
  moment s' a b == - moment s a b.
Proof.
  intros s s' a b Hl Hab H. destruct (op_not_perm s s' H) as [_ Hp].
  rewrite !moment_moment_list, (moment_list_perm _ _ a b Hp).
  apply moment_list_invert; assumption.
Qed.

(* the result of the complement is again a polygon, so the law iterates *)
Theorem op_not_shape_lines : forall s s', shape_lines s = true -> op_not s = Ok s' ->
  shape_lines s' = true.
Proof.
  intros s s' Hl H. destruct (op_not_perm s s' H) as [_ Hp].
  unfold shape_lines in *. rewrite forallb_forall in *. intros j Hj.
  apply (Permutation_in _ Hp) in Hj. apply in_map_iff in Hj. destruct Hj as (j0 & <- & Hj0).
  apply invert_all_lines, Hl, Hj0.
Qed.

Corollary moment_not_not : forall s s' s'' a b,
  shape_lines s = true -> (a + b <= 14)%nat -> op_not s = Ok s' -> op_not s' = Ok s'' ->
  moment s'' a b == moment s a b.
Proof.
  intros s s' s'' a b Hl Hab H1 H2.
  rewrite (moment_not s' s'' a b (op_not_shape_lines s s' Hl H1) Hab H2).
  rewrite (moment_not s s' a b Hl Hab H1). ring.
Qed.

(* in terms of the specification's formal integrals *)
Corollary moment_spec_not : forall s s' a b,
  shape_lines s = true -> (a + b <= 14)%nat -> op_not s = Ok s' ->
  moment_spec s' a b == - moment_spec s a b.
Proof.
  intros s s' a b Hl Hab H.
  rewrite <- !moment_polygon_exact by (exact Hab || exact Hl || exact (op_not_shape_lines s s' Hl H)).
  apply moment_not; assumption.
Qed.

(* ================================================================== *)
(* M2. the selections of boundary pieces                               *)
(* ================================================================== *)
Lemma In_combine_seq : forall {A} (l : list A) s i x,
  In (i, x) (combine (seq s (length l)) l) <-> (s <= i)%nat /\ nth_error l (i - s) = Some x.
Proof.
  intros A l. induction l as [|y l IH]; intros s i x; cbn [length seq combine In].
  - split; [contradiction|]. intros [_ H]. destruct (i - s)%nat; discriminate H.
  - rewrite IH. split.
    + intros [E|[Hle Hn]].
      * inversion E; subst. rewrite Nat.sub_diag. split; [lia|reflexivity].
      * split; [lia|]. replace (i - s)%nat with (S (i - S s)) by lia. exact Hn.
    + intros [Hle Hn]. destruct (Nat.eq_dec i s) as [->|Hne].
      * rewrite Nat.sub_diag in Hn. cbn [nth_error] in Hn. inversion Hn. left. reflexivity.
      * right. split; [lia|]. replace (i - s)%nat with (S (i - S s)) in Hn by lia. exact Hn.
Qed.

Lemma nth_error_Some_nth : forall {A} (l : list A) n x d,
  nth_error l n = Some x <-> (n < length l)%nat /\ nth n l d = x.
Proof.
  intros A l n x d. split.
  - intro H. split; [apply nth_error_Some; congruence|]. apply nth_error_nth, H.
  - intros [Hn <-]. apply nth_error_nth', Hn.
Qed.

(* the k-th segment of the i-th curve *)
Definition piece (js : list jordan) (i k : nat) : seg := nth k (nth i js []) [].
Definition valid_piece (js : list jordan) (i k : nat) : Prop :=
  (i < length js)%nat /\ (k < length (nth i js []))%nat.
Definition piece_mid (js : list jordan) (i k : nat) : point := evalr (piece js i k) Qhalf.

Theorem midpoints_one_shape_In : forall a b closed inside i k,
  In (i, k) (midpoints_one_shape a b closed inside) <->
  valid_piece (jordans a) i k /\
  contains_point b (piece_mid (jordans a) i k) closed = inside.
Proof.
  intros a b closed inside i k. unfold midpoints_one_shape, valid_piece, piece_mid, piece.
  set (js := jordans a). rewrite in_concat. split.
  - intros (l & Hl & Hin). apply in_map_iff in Hl. destruct Hl as ([i' j] & <- & Hij).
    apply In_combine_seq in Hij. destruct Hij as [_ Hij]. rewrite Nat.sub_0_r in Hij.
    apply (nth_error_Some_nth js i' j []) in Hij. destruct Hij as [Hi Hj].
    apply in_concat in Hin. destruct Hin as (l2 & Hl2 & Hin2).
    apply in_map_iff in Hl2. destruct Hl2 as ([k' s] & <- & Hks).
    apply In_combine_seq in Hks. destruct Hks as [_ Hks]. rewrite Nat.sub_0_r in Hks.
    apply (nth_error_Some_nth j k' s []) in Hks. destruct Hks as [Hk Hs].
    destruct (Bool.eqb _ inside) eqn:E; [|destruct Hin2].
    destruct Hin2 as [E2|[]]. inversion E2; subst i' k'. subst j s.
    apply Bool.eqb_prop in E. repeat split; assumption.
  - intros [[Hi Hk] Hc].
    exists (concat (map (fun ks : nat * seg =>
              let '(k, s) := ks in
              if Bool.eqb (contains_point b (evalr s Qhalf) closed) inside then [(i, k)] else [])
            (combine (seq 0 (length (nth i js []))) (nth i js [])))).
    split.
    + apply in_map_iff. exists (i, nth i js []). split; [reflexivity|].
      apply In_combine_seq. split; [lia|]. rewrite Nat.sub_0_r.
      apply (nth_error_Some_nth js i _ []). split; [exact Hi|reflexivity].
    + apply in_concat. exists [(i, k)]. split; [|left; reflexivity].
      apply in_map_iff. exists (k, nth k (nth i js []) []). split.
      * rewrite Hc, Bool.eqb_reflx. reflexivity.
      * apply In_combine_seq. split; [lia|]. rewrite Nat.sub_0_r.
        apply (nth_error_Some_nth _ k _ []). split; [exact Hk|reflexivity].
Qed.

(* the two instances used by the operators *)
Corollary union_selection_In : forall a b i k,
  In (i, k) (midpoints_one_shape a b true false) <->
  valid_piece (jordans a) i k /\ contains_point b (piece_mid (jordans a) i k) true = false.
Proof. intros. apply midpoints_one_shape_In. Qed.
Corollary inter_selection_In : forall a b i k,
  In (i, k) (midpoints_one_shape a b false true) <->
  valid_piece (jordans a) i k /\ contains_point b (piece_mid (jordans a) i k) false = true.
Proof. intros. apply midpoints_one_shape_In. Qed.

(* a piece whose midpoint is off the other shape's boundary is selected by
   exactly one of the union selection and the intersection selection *)
Theorem selection_partition : forall a b i k,
  valid_piece (jordans a) i k ->
  contains_point b (piece_mid (jordans a) i k) true
  = contains_point b (piece_mid (jordans a) i k) false ->
  (In (i, k) (midpoints_one_shape a b true false) /\
   ~ In (i, k) (midpoints_one_shape a b false true)) \/
  (~ In (i, k) (midpoints_one_shape a b true false) /\
   In (i, k) (midpoints_one_shape a b false true)).
Proof.
  intros a b i k Hv Hoff. rewrite union_selection_In, inter_selection_In.
  destruct (contains_point b (piece_mid (jordans a) i k) false) eqn:E.
  - right. rewrite Hoff. split; [intros [_ H]; discriminate H|split; [exact Hv|reflexivity]].
  - left. rewrite Hoff. split; [split; [exact Hv|reflexivity]|intros [_ H]; discriminate H].
Qed.

(* both shapes: the pieces of b are numbered after those of a *)
Theorem midpoints_shapes_In : forall a b closed inside i k,
  In (i, k) (midpoints_shapes a b closed inside) <->
  (valid_piece (jordans a) i k /\
   contains_point b (piece_mid (jordans a) i k) closed = inside) \/
  ((length (jordans a) <= i)%nat /\
   valid_piece (jordans b) (i - length (jordans a)) k /\
   contains_point a (piece_mid (jordans b) (i - length (jordans a)) k) closed = inside).
Proof.
  intros a b closed inside i k. unfold midpoints_shapes. rewrite in_app_iff.
  rewrite midpoints_one_shape_In. split.
  - intros [H|H]; [left; exact H|right].
    apply in_map_iff in H. destruct H as ([i' k'] & E & H). cbn [fst snd] in E.
    inversion E; subst i k. apply midpoints_one_shape_In in H.
    replace (length (jordans a) + i' - length (jordans a))%nat with i' by lia.
    split; [lia|exact H].
  - intros [H|(Hle & H)]; [left; exact H|right].
    apply in_map_iff. exists ((i - length (jordans a))%nat, k). cbn [fst snd]. split.
    + f_equal. lia.
    + apply midpoints_one_shape_In. exact H.
Qed.

(* pieces of the two operands, in the numbering of jas ++ jbs *)
Lemma piece_app_l : forall jas jbs i k, (i < length jas)%nat ->
  piece (jas ++ jbs) i k = piece jas i k.
Proof. intros. unfold piece. rewrite app_nth1 by assumption. reflexivity. Qed.
Lemma piece_app_r : forall jas jbs i k, (length jas <= i)%nat ->
  piece (jas ++ jbs) i k = piece jbs (i - length jas) k.
Proof. intros. unfold piece. rewrite app_nth2 by assumption. reflexivity. Qed.

(* which operand a piece index of jas ++ jbs belongs to, and its "other" shape *)
Definition other_has (a b : shape) (i k : nat) (closed : bool) : bool :=
  if (i <? length (jordans a))%nat
  then contains_point b (piece_mid (jordans a) i k) closed
  else contains_point a (piece_mid (jordans b) (i - length (jordans a)) k) closed.

Lemma valid_piece_app : forall jas jbs i k,
  valid_piece (jas ++ jbs) i k <->
  valid_piece jas i k \/ ((length jas <= i)%nat /\ valid_piece jbs (i - length jas) k).
Proof.
  intros jas jbs i k. unfold valid_piece. rewrite app_length.
  destruct (Nat.lt_ge_cases i (length jas)) as [H|H].
  - rewrite app_nth1 by exact H. split; [intros [_ Hk]; left; split; assumption|].
    intros [[_ Hk]|[Hc _]]; [split; [lia|exact Hk]|lia].
  - rewrite app_nth2 by exact H. split.
    + intros [Hi Hk]. right. split; [exact H|]. split; [lia|exact Hk].
    + intros [[Hc _]|[_ [Hi Hk]]]; [lia|]. split; [lia|exact Hk].
Qed.

Theorem midpoints_shapes_In' : forall a b closed inside i k,
  In (i, k) (midpoints_shapes a b closed inside) <->
  valid_piece (jordans a ++ jordans b) i k /\ other_has a b i k closed = inside.
Proof.
  intros a b closed inside i k. rewrite midpoints_shapes_In, valid_piece_app. unfold other_has.
  destruct (Nat.ltb_spec i (length (jordans a))) as [H|H].
  - split.
    + intros [[Hv Hc]|[Hle _]]; [|lia]. split; [left; exact Hv|exact Hc].
    + intros [[Hv|[Hle _]] Hc]; [|lia]. left. split; assumption.
  - split.
    + intros [[[Hi _] _]|(Hle & Hv & Hc)]; [lia|]. split; [right; split; assumption|exact Hc].
    + intros [[[Hi _]|[Hle Hv]] Hc]; [lia|]. right. split; [exact Hle|split; [exact Hv|exact Hc]].
Qed.

Theorem selection_partition_shapes : forall a b i k,
  valid_piece (jordans a ++ jordans b) i k ->
  other_has a b i k true = other_has a b i k false ->
  (In (i, k) (midpoints_shapes a b true false) /\
   ~ In (i, k) (midpoints_shapes a b false true)) \/
  (~ In (i, k) (midpoints_shapes a b true false) /\
   In (i, k) (midpoints_shapes a b false true)).
Proof.
  intros a b i k Hv Hoff. rewrite !midpoints_shapes_In'.
  destruct (other_has a b i k false) eqn:E.
  - right. rewrite Hoff. split; [intros [_ H]; discriminate H|split; [exact Hv|reflexivity]].
  - left. rewrite Hoff. split; [split; [exact Hv|reflexivity]|intros [_ H]; discriminate H].
Qed.

(* ------------------------------------------------------------------ *)
(* sums over the selections                                            *)
(* ------------------------------------------------------------------ *)
Lemma Qsum_map_concat_map : forall {X Y} (g : Y -> Q) (f : X -> list Y) L,
  Qsum (map g (concat (map f L))) == Qsum (map (fun x => Qsum (map g (f x))) L).
Proof.
  intros X Y g f L. induction L as [|x L IH]; cbn [map concat Qsum]; [reflexivity|].
  rewrite map_app, SplitClean.Qsum_app, IH. reflexivity.
Qed.

Lemma Qsum_indexed : forall {A} (l : list A) (F : nat * A -> Q) (f : A -> Q) s,
  (forall i x, In (i, x) (combine (seq s (length l)) l) -> F (i, x) == f x) ->
  Qsum (map F (combine (seq s (length l)) l)) == Qsum (map f l).
Proof.
  intros A l F f. induction l as [|y l IH]; intros s H; cbn [length seq combine map Qsum];
    [reflexivity|].
  rewrite (H s y) by (left; reflexivity). rewrite IH; [reflexivity|].
  intros i x Hin. apply H. right. exact Hin.
Qed.

(* every piece of a has its midpoint off the boundary of b: the closed and the
   open membership tests agree *)
Definition off_boundary (a b : shape) : Prop :=
  forall i k, valid_piece (jordans a) i k ->
    contains_point b (piece_mid (jordans a) i k) true
    = contains_point b (piece_mid (jordans a) i k) false.

(* sum over a selection = sum over all pieces of the indicator times the weight *)
Lemma selection_sum_as_indicator : forall a b closed inside (h : seg -> Q),
  Qsum (map (fun ik => h (piece (jordans a) (fst ik) (snd ik)))
            (midpoints_one_shape a b closed inside))
  == Qsum (map (fun j => Qsum (map (fun s =>
               if Bool.eqb (contains_point b (evalr s Qhalf) closed) inside then h s else 0) j))
            (jordans a)).
Proof.
  intros a b closed inside h. unfold midpoints_one_shape. set (js := jordans a).
  rewrite Qsum_map_concat_map. apply Qsum_indexed. intros i j Hij.
  apply In_combine_seq in Hij. destruct Hij as [_ Hij]. rewrite Nat.sub_0_r in Hij.
  apply (nth_error_Some_nth js i j []) in Hij. destruct Hij as [Hi Hj].
  rewrite Qsum_map_concat_map. apply Qsum_indexed. intros k s Hks.
  apply In_combine_seq in Hks. destruct Hks as [_ Hks]. rewrite Nat.sub_0_r in Hks.
  apply (nth_error_Some_nth j k s []) in Hks. destruct Hks as [Hk Hs].
  destruct (Bool.eqb _ inside); cbn [map Qsum fst snd]; [|reflexivity].
  unfold piece. rewrite Hj, Hs. ring.
Qed.

(* the union selection and the intersection selection of the pieces of a,
   together, weigh every piece of a exactly once *)
Theorem selection_sum_one : forall a b (h : seg -> Q), off_boundary a b ->
  Qsum (map (fun ik => h (piece (jordans a) (fst ik) (snd ik)))
            (midpoints_one_shape a b true false))
  + Qsum (map (fun ik => h (piece (jordans a) (fst ik) (snd ik)))
              (midpoints_one_shape a b false true))
  == Qsum (map (fun j => Qsum (map h j)) (jordans a)).
Proof.
  intros a b h Hoff. rewrite !selection_sum_as_indicator, <- Qsum_map_add.
  set (js := jordans a) in *.
  rewrite <- (Qsum_indexed js
      (fun ij => Qsum (map (fun s => if Bool.eqb (contains_point b (evalr s Qhalf) true) false
                                     then h s else 0) (snd ij))
               + Qsum (map (fun s => if Bool.eqb (contains_point b (evalr s Qhalf) false) true
                                     then h s else 0) (snd ij))) _ 0%nat)
    by (intros; reflexivity).
  apply Qsum_indexed. intros i j Hij. cbn [snd].
  apply In_combine_seq in Hij. destruct Hij as [_ Hij]. rewrite Nat.sub_0_r in Hij.
  apply (nth_error_Some_nth js i j []) in Hij. destruct Hij as [Hi Hj].
  rewrite <- Qsum_map_add.
  rewrite <- (Qsum_indexed j
      (fun ks => (if Bool.eqb (contains_point b (evalr (snd ks) Qhalf) true) false
                  then h (snd ks) else 0)
               + (if Bool.eqb (contains_point b (evalr (snd ks) Qhalf) false) true
                  then h (snd ks) else 0)) _ 0%nat)
    by (intros; reflexivity).
  apply Qsum_indexed. intros k s Hks. cbn [snd].
  apply In_combine_seq in Hks. destruct Hks as [_ Hks]. rewrite Nat.sub_0_r in Hks.
  apply (nth_error_Some_nth j k s []) in Hks. destruct Hks as [Hk Hs].
  assert (Hv : valid_piece js i k) by (split; [exact Hi|rewrite Hj; exact Hk]).
  specialize (Hoff i k Hv). unfold piece_mid, piece in Hoff. fold js in Hoff.
  rewrite Hj, Hs in Hoff. rewrite Hoff.
  destruct (contains_point b (evalr s Qhalf) false); cbn [Bool.eqb]; ring.
Qed.

Lemma midpoints_one_shape_lt : forall a b closed inside ik,
  In ik (midpoints_one_shape a b closed inside) -> (fst ik < length (jordans a))%nat.
Proof.
  intros a b closed inside [i k] H. apply midpoints_one_shape_In in H.
  destruct H as [[Hi _] _]. exact Hi.
Qed.

(* both operands, pieces numbered in jordans a ++ jordans b *)
Theorem selection_sum : forall a b (h : seg -> Q), off_boundary a b -> off_boundary b a ->
  Qsum (map (fun ik => h (piece (jordans a ++ jordans b) (fst ik) (snd ik)))
            (midpoints_shapes a b true false))
  + Qsum (map (fun ik => h (piece (jordans a ++ jordans b) (fst ik) (snd ik)))
              (midpoints_shapes a b false true))
  == Qsum (map (fun j => Qsum (map h j)) (jordans a ++ jordans b)).
Proof.
  intros a b h Hab Hba.
  assert (E : forall closed inside,
    Qsum (map (fun ik => h (piece (jordans a ++ jordans b) (fst ik) (snd ik)))
              (midpoints_shapes a b closed inside))
    == Qsum (map (fun ik => h (piece (jordans a) (fst ik) (snd ik)))
                 (midpoints_one_shape a b closed inside))
     + Qsum (map (fun ik => h (piece (jordans b) (fst ik) (snd ik)))
                 (midpoints_one_shape b a closed inside))).
  { intros closed inside. unfold midpoints_shapes.
    rewrite map_app, SplitClean.Qsum_app, map_map. apply Qplus_comp.
    - apply Qsum_map_ext. intros ik Hik.
      rewrite piece_app_l by (eapply midpoints_one_shape_lt; exact Hik). reflexivity.
    - apply Qsum_map_ext. intros ik Hik. cbn [fst snd].
      rewrite piece_app_r by lia.
      replace (length (jordans a) + fst ik - length (jordans a))%nat with (fst ik) by lia.
      reflexivity. }
  rewrite !E, map_app, SplitClean.Qsum_app.
  rewrite <- (selection_sum_one a b h Hab), <- (selection_sum_one b a h Hba). ring.
Qed.

(* ------------------------------------------------------------------ *)
(* no piece is selected twice                                          *)
(* ------------------------------------------------------------------ *)
Lemma NoDup_app_intro : forall {A} (l1 l2 : list A), NoDup l1 -> NoDup l2 ->
  (forall x, In x l1 -> ~ In x l2) -> NoDup (l1 ++ l2).
Proof.
  intros A l1 l2 H1 H2 Hd. induction H1 as [|x l1 Hx _ IH]; cbn [app]; [exact H2|].
  constructor.
  - rewrite in_app_iff. intros [H|H]; [exact (Hx H)|]. exact (Hd x (or_introl eq_refl) H).
  - apply IH. intros y Hy. apply Hd. right. exact Hy.
Qed.

Lemma NoDup_concat_seq : forall {A Y} (key : Y -> nat) (l : list A) (F : nat -> A -> list Y) s,
  (forall i x, NoDup (F i x)) -> (forall i x y, In y (F i x) -> key y = i) ->
  NoDup (concat (map (fun ix => F (fst ix) (snd ix)) (combine (seq s (length l)) l))).
Proof.
  intros A Y key l F. induction l as [|a l IH]; intros s HN HK; cbn [length seq combine map concat].
  - constructor.
  - cbn [fst snd]. apply NoDup_app_intro; [apply HN|apply IH; assumption|].
    intros y Hy Hin. apply HK in Hy.
    apply in_concat in Hin. destruct Hin as (l' & Hl' & Hin).
    apply in_map_iff in Hl'. destruct Hl' as ([i x] & <- & Hix). cbn [fst snd] in Hin.
    apply HK in Hin. apply In_combine_seq in Hix. destruct Hix as [Hle _]. lia.
Qed.

Theorem midpoints_one_shape_NoDup : forall a b closed inside,
  NoDup (midpoints_one_shape a b closed inside).
Proof.
  intros a b closed inside. unfold midpoints_one_shape.
  set (F := fun (i : nat) (j : jordan) =>
    concat (map (fun ks : nat * seg =>
              (fun (k : nat) (s : seg) =>
                 if Bool.eqb (contains_point b (evalr s Qhalf) closed) inside
                 then [(i, k)] else []) (fst ks) (snd ks))
            (combine (seq 0 (length j)) j))).
  rewrite (map_ext _ (fun ix => F (fst ix) (snd ix))).
  - apply (NoDup_concat_seq fst).
    + intros i j. unfold F.
      apply (NoDup_concat_seq snd j (fun (k : nat) (s : seg) =>
               if Bool.eqb (contains_point b (evalr s Qhalf) closed) inside
               then [(i, k)] else []) 0%nat).
      * intros k s. destruct (Bool.eqb _ inside); [repeat constructor; intros []|constructor].
      * intros k s y Hy. destruct (Bool.eqb _ inside); [|destruct Hy].
        destruct Hy as [<-|[]]. reflexivity.
    + intros i j y Hy. unfold F in Hy. apply in_concat in Hy. destruct Hy as (l' & Hl' & Hy).
      apply in_map_iff in Hl'. destruct Hl' as ([k s] & <- & _). cbn [fst snd] in Hy.
      destruct (Bool.eqb _ inside); [|destruct Hy]. destruct Hy as [<-|[]]. reflexivity.
  - intros [i j]. unfold F. cbn [fst snd]. f_equal. apply map_ext. intros [k s]. reflexivity.
Qed.

Theorem midpoints_shapes_NoDup : forall a b closed inside,
  NoDup (midpoints_shapes a b closed inside).
Proof.
  intros a b closed inside. unfold midpoints_shapes. apply NoDup_app_intro.
  - apply midpoints_one_shape_NoDup.
  - apply FinFun.Injective_map_NoDup; [|apply midpoints_one_shape_NoDup].
    intros [i k] [i' k'] E. cbn [fst snd] in E. inversion E. f_equal. lia.
  - intros ik Hik Hin. apply midpoints_one_shape_lt in Hik.
    apply in_map_iff in Hin. destruct Hin as (ik' & <- & _). cbn [fst] in Hik. lia.
Qed.

(* ================================================================== *)
(* M4. conservation through the assembly of the selected pieces        *)
(* ================================================================== *)
Definition path_segs (js : list jordan) (idx : list (nat * nat)) : list seg :=
  map (fun ik => piece js (fst ik) (snd ik)) idx.
(* consecutive pieces (cyclically) join exactly: from_segments re-points nothing *)
Definition exact_joins (segs : list seg) : Prop :=
  forall n, (n < length segs)%nat ->
    last_pt (nth n segs []) = first_pt (nth ((n + 1) mod length segs) segs []).

Lemma indexs_to_jordan_path_segs : forall js idx,
  indexs_to_jordan js idx = from_segments (path_segs js idx).
Proof. reflexivity. Qed.

Theorem indexs_to_jordan_exact : forall js idx,
  all_lines (path_segs js idx) = true -> exact_joins (path_segs js idx) ->
  indexs_to_jordan js idx = Ok (path_segs js idx).
Proof.
  intros js idx Hl Hj. rewrite indexs_to_jordan_path_segs.
  rewrite from_segments_exact; [rewrite set_segments_lines by exact Hl; reflexivity| |exact Hj].
  intros s Hs. unfold all_lines in Hl. rewrite forallb_forall in Hl.
  destruct (is_line_inv s (Hl s Hs)) as (A & B & ->). discriminate.
Qed.

Theorem indexs_to_jordan_conservation : forall js idx j ex ey,
  indexs_to_jordan js idx = Ok j ->
  all_lines (path_segs js idx) = true -> exact_joins (path_segs js idx) ->
  jordan_vertical j ex ey
  == Qsum (map (fun ik => vertical (piece js (fst ik) (snd ik)) ex ey) idx).
Proof.
  intros js idx j ex ey H Hl Hj. rewrite (indexs_to_jordan_exact js idx Hl Hj) in H.
  inversion H; subst j. unfold jordan_vertical, path_segs. rewrite Qred_correct, map_map.
  reflexivity.
Qed.

(* a valid piece of a family of polygons is a straight segment *)
Lemma valid_piece_line : forall js i k, forallb all_lines js = true ->
  valid_piece js i k -> is_line (piece js i k) = true.
Proof.
  intros js i k Hl [Hi Hk]. rewrite forallb_forall in Hl.
  assert (Hj : all_lines (nth i js []) = true) by (apply Hl, nth_In, Hi).
  unfold all_lines in Hj. rewrite forallb_forall in Hj. apply Hj. unfold piece. apply nth_In, Hk.
Qed.

Lemma path_segs_lines : forall js idx, forallb all_lines js = true ->
  (forall ik, In ik idx -> valid_piece js (fst ik) (snd ik)) ->
  all_lines (path_segs js idx) = true.
Proof.
  intros js idx Hl Hv. unfold all_lines, path_segs. apply forallb_forall. intros s Hs.
  apply in_map_iff in Hs. destruct Hs as (ik & <- & Hik). apply valid_piece_line; auto.
Qed.

(* a family of index paths uses every selected piece exactly once, and the
   consecutive pieces of every path join exactly *)
Definition faithful_paths (js : list jordan) (idx : list (nat * nat))
           (paths : list (list (nat * nat))) : Prop :=
  Permutation (concat paths) idx /\ forall p, In p paths -> exact_joins (path_segs js p).

Theorem paths_conservation : forall js idx paths new ex ey,
  forallb all_lines js = true ->
  (forall ik, In ik idx -> valid_piece js (fst ik) (snd ik)) ->
  faithful_paths js idx paths ->
  mapM (indexs_to_jordan js) paths = Ok new ->
  Qsum (map (fun j => jordan_vertical j ex ey) new)
  == Qsum (map (fun ik => vertical (piece js (fst ik) (snd ik)) ex ey) idx).
Proof.
  intros js idx paths new ex ey Hl Hv [Hp Hj] Hm.
  rewrite <- (Qsum_perm _ _ (Permutation_map _ Hp)).
  assert (Hv' : forall p, In p paths -> forall ik, In ik p -> valid_piece js (fst ik) (snd ik)).
  { intros p Hin ik Hik. apply Hv. apply (Permutation_in _ Hp). apply in_concat.
    exists p. split; assumption. }
  clear Hp Hv. apply mapM_Ok_Forall2 in Hm.
  induction Hm as [|p j paths new Hpj _ IH]; [reflexivity|].
  cbn [map Qsum concat]. rewrite map_app, SplitClean.Qsum_app. apply Qplus_comp.
  - apply (indexs_to_jordan_conservation js p j ex ey Hpj).
    + apply path_segs_lines; [exact Hl|]. apply Hv'. left. reflexivity.
    + apply Hj. left. reflexivity.
  - apply IH.
    + intros p' Hp'. apply Hj. right. exact Hp'.
    + intros p' Hp'. apply Hv'. right. exact Hp'.
Qed.

(* the assembled curves are polygons again *)
Theorem paths_all_lines : forall js idx paths new,
  forallb all_lines js = true ->
  (forall ik, In ik idx -> valid_piece js (fst ik) (snd ik)) ->
  faithful_paths js idx paths ->
  mapM (indexs_to_jordan js) paths = Ok new ->
  forallb all_lines new = true.
Proof.
  intros js idx paths new Hl Hv [Hp Hj] Hm.
  assert (Hv' : forall p, In p paths -> forall ik, In ik p -> valid_piece js (fst ik) (snd ik)).
  { intros p Hin ik Hik. apply Hv. apply (Permutation_in _ Hp). apply in_concat.
    exists p. split; assumption. }
  clear Hp Hv. apply mapM_Ok_Forall2 in Hm.
  induction Hm as [|p j paths new Hpj _ IH]; [reflexivity|].
  cbn [forallb]. apply andb_true_intro. split.
  - assert (L : all_lines (path_segs js p) = true)
      by (apply path_segs_lines; [exact Hl|]; apply Hv'; left; reflexivity).
    rewrite (indexs_to_jordan_exact js p L) in Hpj by (apply Hj; left; reflexivity).
    inversion Hpj; subst j. exact L.
  - apply IH.
    + intros p' Hp'. apply Hj. right. exact Hp'.
    + intros p' Hp'. apply Hv'. right. exact Hp'.
Qed.

(* ================================================================== *)
(* splitting the operands against each other changes no moment         *)
(* ================================================================== *)
Definition jrefines (j j' : jordan) : Prop :=
  all_lines j' = true /\
  forall ex ey, (ex + ey + 4 <= 19)%nat -> jordan_vertical j' ex ey == jordan_vertical j ex ey.

Lemma jrefines_refl : forall j, all_lines j = true -> jrefines j j.
Proof. intros j H. split; [exact H|]. intros. reflexivity. Qed.
Lemma jrefines_trans : forall j1 j2 j3, jrefines j1 j2 -> jrefines j2 j3 -> jrefines j1 j3.
Proof.
  intros j1 j2 j3 [_ H12] [L3 H23]. split; [exact L3|].
  intros ex ey Hb. rewrite (H23 ex ey Hb). apply H12, Hb.
Qed.
Lemma split_refines : forall j idx nodes j', all_lines j = true ->
  Jordan.split j idx nodes = Ok j' -> jrefines j j'.
Proof.
  intros j idx nodes j' Hl H. split; [exact (split_all_lines _ _ _ _ Hl H)|].
  intros ex ey Hb. exact (split_moment j idx nodes j' ex ey Hl Hb H).
Qed.

Lemma Forall2_refl_on : forall {A} (R : A -> A -> Prop) (P : A -> Prop) l,
  (forall x, P x -> R x x) -> Forall P l -> Forall2 R l l.
Proof. intros A R P l H F. induction F; constructor; auto. Qed.
Lemma Forall2_trans : forall {A} (R : A -> A -> Prop) l1 l2 l3,
  (forall x y z, R x y -> R y z -> R x z) ->
  Forall2 R l1 l2 -> Forall2 R l2 l3 -> Forall2 R l1 l3.
Proof.
  intros A R l1 l2 l3 HT F12. revert l3. induction F12; intros l3 F23; inversion F23; subst;
    constructor; eauto.
Qed.
Definition lines_all (js : list jordan) : Prop := Forall (fun j => all_lines j = true) js.
Lemma lines_all_iff : forall js, lines_all js <-> forallb all_lines js = true.
Proof. intro js. unfold lines_all. rewrite forallb_forall, Forall_forall. reflexivity. Qed.
Lemma Forall2_jrefines_lines : forall js js', Forall2 jrefines js js' -> lines_all js'.
Proof. intros js js' F. induction F; constructor; [apply H|assumption]. Qed.

Lemma split_two_jordans_refines : forall ja jb ja' jb',
  all_lines ja = true -> all_lines jb = true ->
  split_two_jordans ja jb = Ok (ja', jb') -> jrefines ja ja' /\ jrefines jb jb'.
Proof.
  intros ja jb ja' jb' Ha Hb H. unfold split_two_jordans in H.
  destruct (box_and _ _); [|inversion H; subst; split; apply jrefines_refl; assumption].
  destruct (jordan_and ja jb) as [inters| |]; cbn [bind] in H; try discriminate.
  destruct (Jordan.split ja _ _) as [xa| |] eqn:Ea; cbn [bind] in H; try discriminate.
  destruct (Jordan.split jb _ _) as [xb| |] eqn:Eb; cbn [bind] in H; try discriminate.
  inversion H; subst.
  split; [exact (split_refines _ _ _ _ Ha Ea)|exact (split_refines _ _ _ _ Hb Eb)].
Qed.

Lemma split_one_against_refines : forall jbs ja ja' jbs',
  all_lines ja = true -> lines_all jbs -> split_one_against ja jbs = Ok (ja', jbs') ->
  jrefines ja ja' /\ Forall2 jrefines jbs jbs'.
Proof.
  induction jbs as [|jb t IH]; intros ja ja' jbs' Ha Hb H; cbn [split_one_against] in H.
  - inversion H; subst. split; [apply jrefines_refl, Ha|constructor].
  - inversion Hb as [|? ? Hjb Ht]; subst.
    destruct (split_two_jordans ja jb) as [[xa xb]| |] eqn:E2; cbn [bind] in H; try discriminate.
    destruct (split_two_jordans_refines _ _ _ _ Ha Hjb E2) as [Hxa Hxb].
    destruct (split_one_against xa t) as [[ya t']| |] eqn:E1; cbn [bind] in H; try discriminate.
    destruct (IH _ _ _ (proj1 Hxa) Ht E1) as [Hya Ht'].
    inversion H; subst. split; [exact (jrefines_trans _ _ _ Hxa Hya)|constructor; assumption].
Qed.

Theorem split_all_refines : forall jas jbs jas' jbs',
  lines_all jas -> lines_all jbs -> split_all jas jbs = Ok (jas', jbs') ->
  Forall2 jrefines jas jas' /\ Forall2 jrefines jbs jbs'.
Proof.
  induction jas as [|ja t IH]; intros jbs jas' jbs' Ha Hb H; cbn [split_all] in H.
  - inversion H; subst. split; [constructor|].
    apply (Forall2_refl_on _ (fun j => all_lines j = true)); [apply jrefines_refl|exact Hb].
  - inversion Ha as [|? ? Hja Ht]; subst.
    destruct (split_one_against ja jbs) as [[xa xbs]| |] eqn:E1; cbn [bind] in H; try discriminate.
    destruct (split_one_against_refines _ _ _ _ Hja Hb E1) as [Hxa Hxbs].
    destruct (split_all t xbs) as [[t' ybs]| |] eqn:E2; cbn [bind] in H; try discriminate.
    destruct (IH _ _ _ Ht (Forall2_jrefines_lines _ _ Hxbs) E2) as [Ht' Hybs].
    inversion H; subst. split; [constructor; assumption|].
    exact (Forall2_trans _ _ _ _ jrefines_trans Hxbs Hybs).
Qed.

Lemma moment_list_refines : forall js js' a b, (a + b <= 14)%nat ->
  Forall2 jrefines js js' -> moment_list js' a b == moment_list js a b.
Proof.
  intros js js' a b Hab F. unfold moment_list. apply Qmult_comp; [|reflexivity].
  induction F as [|j j' js js' [_ Hj] _ IH]; [reflexivity|].
  cbn [map Qsum]. rewrite IH, (Hj (S a) b) by lia. reflexivity.
Qed.

(* with_jordans over a list of the right length stores exactly that list *)
Lemma comp_with_jordans : forall c js, (length (comp_jordans c) <= length js)%nat ->
  comp_jordans (fst (comp_with c js)) ++ snd (comp_with c js) = js /\
  length (comp_jordans (fst (comp_with c js))) = length (comp_jordans c).
Proof.
  intros [j|old] js H; cbn [comp_with comp_jordans fst snd length] in *.
  - destruct js as [|x js]; [cbn in H; lia|]. split; reflexivity.
  - split; [apply firstn_skipn|]. rewrite firstn_length. lia.
Qed.
Lemma comps_with_jordans : forall cs js,
  length js = length (concat (map comp_jordans cs)) ->
  concat (map comp_jordans (comps_with cs js)) = js.
Proof.
  induction cs as [|c cs IH]; intros js H; cbn [comps_with map concat] in *.
  - destruct js; [reflexivity|discriminate H].
  - rewrite app_length in H.
    destruct (comp_with_jordans c js ltac:(lia)) as [E L].
    destruct (comp_with c js) as [c' rest]. cbn [fst snd] in *. cbn [map concat].
    rewrite IH; [exact E|].
    rewrite <- E, app_length in H. lia.
Qed.
Theorem jordans_with_jordans : forall s js, length js = length (jordans s) ->
  jordans (with_jordans s js) = js.
Proof.
  intros [| |c|cs] js H; cbn [with_jordans jordans] in *.
  - destruct js; [reflexivity|discriminate H].
  - destruct js; [reflexivity|discriminate H].
  - destruct (comp_with_jordans c js ltac:(lia)) as [E L].
    rewrite <- E, app_length in H.
    destruct (snd (comp_with c js)); [|cbn [length] in H; lia].
    rewrite app_nil_r in E. exact E.
  - apply comps_with_jordans, H.
Qed.

Lemma Forall2_length' : forall {A B} (R : A -> B -> Prop) l m, Forall2 R l m -> length l = length m.
Proof. intros A B R l m F. induction F; cbn [length]; congruence. Qed.

(* what recombine does, exposed *)
Theorem recombine_inv : forall a b closed inside a' b' new,
  recombine a b closed inside = Ok (a', b', new) ->
  exists jas jbs, split_all (jordans a) (jordans b) = Ok (jas, jbs) /\
    a' = with_jordans a jas /\ b' = with_jordans b jbs /\
    follow_path (jas ++ jbs) (midpoints_shapes a' b' closed inside) = Ok new.
Proof.
  intros a b closed inside a' b' new H. unfold recombine in H.
  destruct (split_all _ _) as [[jas jbs]| |] eqn:Es; cbn [bind] in H; try discriminate.
  destruct (follow_path _ _) as [l| |] eqn:Ef; cbn [bind] in H; try discriminate.
  inversion H; subst. exists jas, jbs. repeat split; try reflexivity. exact Ef.
Qed.

(* the operands after the mutual splitting: same moments, still polygons,
   and their curve lists are the ones follow_path works on *)
Theorem recombine_operands : forall a b closed inside a' b' new,
  shape_lines a = true -> shape_lines b = true ->
  recombine a b closed inside = Ok (a', b', new) ->
  shape_lines a' = true /\ shape_lines b' = true /\
  follow_path (jordans a' ++ jordans b') (midpoints_shapes a' b' closed inside) = Ok new /\
  forall p q, (p + q <= 14)%nat ->
    moment a' p q == moment a p q /\ moment b' p q == moment b p q.
Proof.
  intros a b closed inside a' b' new Ha Hb H.
  destruct (recombine_inv _ _ _ _ _ _ _ H) as (jas & jbs & Es & Ea & Eb & Ef).
  apply lines_all_iff in Ha, Hb.
  destruct (split_all_refines _ _ _ _ Ha Hb Es) as [Fa Fb].
  assert (Ja : jordans a' = jas)
    by (subst a'; apply jordans_with_jordans; symmetry; exact (Forall2_length' _ _ _ Fa)).
  assert (Jb : jordans b' = jbs)
    by (subst b'; apply jordans_with_jordans; symmetry; exact (Forall2_length' _ _ _ Fb)).
  unfold shape_lines. rewrite Ja, Jb.
  split; [apply lines_all_iff, (Forall2_jrefines_lines _ _ Fa)|].
  split; [apply lines_all_iff, (Forall2_jrefines_lines _ _ Fb)|].
  split; [exact Ef|].
  intros p q Hpq. rewrite !moment_moment_list, Ja, Jb.
  split; apply moment_list_refines; assumption.
Qed.

(* the operands after the splitting do not depend on the operator *)
Theorem recombine_operands_same : forall a b c1 i1 c2 i2 a1 b1 n1 a2 b2 n2,
  recombine a b c1 i1 = Ok (a1, b1, n1) -> recombine a b c2 i2 = Ok (a2, b2, n2) ->
  a1 = a2 /\ b1 = b2.
Proof.
  intros a b c1 i1 c2 i2 a1 b1 n1 a2 b2 n2 H1 H2.
  destruct (recombine_inv _ _ _ _ _ _ _ H1) as (jas & jbs & Es & Ea & Eb & _).
  destruct (recombine_inv _ _ _ _ _ _ _ H2) as (jas' & jbs' & Es' & Ea' & Eb' & _).
  rewrite Es in Es'. inversion Es'; subst. split; reflexivity.
Qed.

(* ================================================================== *)
(* inclusion-exclusion, assembled                                      *)
(* ================================================================== *)
Theorem shape_from_jordans_moment : forall js s a b, shape_from_jordans js = Ok s ->
  moment s a b == moment_list js a b.
Proof.
  intros js s a b H. rewrite moment_moment_list.
  apply moment_list_perm, shape_from_jordans_perm, H.
Qed.
Theorem copy_shape_moment : forall s s' a b, copy_shape s = Ok s' ->
  moment s' a b == moment s a b.
Proof.
  intros s s' a b H. rewrite !moment_moment_list.
  apply moment_list_perm. apply (copy_shape_spec s s' H).
Qed.

Lemma moment_list_pieces : forall js a b,
  moment_list js a b
  == Qsum (map (fun j => Qsum (map (fun s => vertical s (S a) b) j)) js) / nQ (S a).
Proof.
  intros js a b. unfold moment_list. apply Qmult_comp; [|reflexivity].
  apply Qsum_map_ext. intros j _. unfold jordan_vertical. apply Qred_correct.
Qed.

(* the paths follow_path assembles *)
Definition follow_paths_of (js : list jordan) (starts : list (nat * nat))
  : res (list (list (nat * nat))) :=
  do paths <- mapM (fun st => pursue_path (S (total_segments js)) (fst st) (snd st) js []) starts;
  Ok (filter_rotations paths).
Lemma follow_path_paths : forall js starts,
  follow_path js starts = (do ps <- follow_paths_of js starts; mapM (indexs_to_jordan js) ps).
Proof.
  intros js starts. unfold follow_path, follow_paths_of.
  destruct (mapM _ starts); reflexivity.
Qed.
(* the geometric hypothesis on path following: every selected piece is
   traversed exactly once and consecutive pieces join exactly *)
Definition faithful_follow (js : list jordan) (idx : list (nat * nat)) : Prop :=
  forall ps, follow_paths_of js idx = Ok ps -> faithful_paths js idx ps.

Theorem follow_path_conservation : forall js idx new ex ey,
  forallb all_lines js = true ->
  (forall ik, In ik idx -> valid_piece js (fst ik) (snd ik)) ->
  faithful_follow js idx ->
  follow_path js idx = Ok new ->
  Qsum (map (fun j => jordan_vertical j ex ey) new)
  == Qsum (map (fun ik => vertical (piece js (fst ik) (snd ik)) ex ey) idx).
Proof.
  intros js idx new ex ey Hl Hv Hf H. rewrite follow_path_paths in H.
  apply bind_Ok in H. destruct H as (ps & Hps & Hm).
  exact (paths_conservation js idx ps new ex ey Hl Hv (Hf ps Hps) Hm).
Qed.

Lemma midpoints_shapes_valid : forall a b closed inside ik,
  In ik (midpoints_shapes a b closed inside) ->
  valid_piece (jordans a ++ jordans b) (fst ik) (snd ik).
Proof. intros a b closed inside [i k] H. apply midpoints_shapes_In' in H. apply H. Qed.

(* the pieces selected for the union and the pieces selected for the
   intersection carry, together, the boundary integrals of both operands *)
Theorem inclusion_exclusion_pieces : forall a b newU newI p q,
  shape_lines a = true -> shape_lines b = true ->
  off_boundary a b -> off_boundary b a ->
  faithful_follow (jordans a ++ jordans b) (midpoints_shapes a b true false) ->
  faithful_follow (jordans a ++ jordans b) (midpoints_shapes a b false true) ->
  follow_path (jordans a ++ jordans b) (midpoints_shapes a b true false) = Ok newU ->
  follow_path (jordans a ++ jordans b) (midpoints_shapes a b false true) = Ok newI ->
  moment_list newU p q + moment_list newI p q == moment a p q + moment b p q.
Proof.
  intros a b newU newI p q Ha Hb Oab Oba FU FI HU HI.
  assert (Hl : forallb all_lines (jordans a ++ jordans b) = true).
  { rewrite forallb_app. unfold shape_lines in Ha, Hb. rewrite Ha, Hb. reflexivity. }
  unfold moment_list at 1 2.
  rewrite (follow_path_conservation _ _ newU (S p) q Hl (midpoints_shapes_valid a b true false) FU HU).
  rewrite (follow_path_conservation _ _ newI (S p) q Hl (midpoints_shapes_valid a b false true) FI HI).
  setoid_replace
    (Qsum (map (fun ik => vertical (piece (jordans a ++ jordans b) (fst ik) (snd ik)) (S p) q)
               (midpoints_shapes a b true false)) / nQ (S p)
     + Qsum (map (fun ik => vertical (piece (jordans a ++ jordans b) (fst ik) (snd ik)) (S p) q)
                 (midpoints_shapes a b false true)) / nQ (S p))
    with ((Qsum (map (fun ik => vertical (piece (jordans a ++ jordans b) (fst ik) (snd ik)) (S p) q)
               (midpoints_shapes a b true false))
     + Qsum (map (fun ik => vertical (piece (jordans a ++ jordans b) (fst ik) (snd ik)) (S p) q)
                 (midpoints_shapes a b false true))) / nQ (S p))
    by (unfold Qdiv; ring).
  rewrite (selection_sum a b (fun s => vertical s (S p) q) Oab Oba).
  rewrite <- moment_list_pieces, moment_list_app, !moment_moment_list. reflexivity.
Qed.

Definition general_branch_faithful (a b : shape) : Prop :=
  forall a' b' newU newI,
    recombine a b true false = Ok (a', b', newU) ->
    recombine a b false true = Ok (a', b', newI) ->
    off_boundary a' b' /\ off_boundary b' a' /\
    faithful_follow (jordans a' ++ jordans b') (midpoints_shapes a' b' true false) /\
    faithful_follow (jordans a' ++ jordans b') (midpoints_shapes a' b' false true).

Theorem recombine_inclusion_exclusion : forall a b a' b' newU newI p q,
  shape_lines a = true -> shape_lines b = true -> (p + q <= 14)%nat ->
  recombine a b true false = Ok (a', b', newU) ->
  recombine a b false true = Ok (a', b', newI) ->
  off_boundary a' b' -> off_boundary b' a' ->
  faithful_follow (jordans a' ++ jordans b') (midpoints_shapes a' b' true false) ->
  faithful_follow (jordans a' ++ jordans b') (midpoints_shapes a' b' false true) ->
  moment_list newU p q + moment_list newI p q == moment a p q + moment b p q.
Proof.
  intros a b a' b' newU newI p q Ha Hb Hpq HU HI Oab Oba FU FI.
  destruct (recombine_operands _ _ _ _ _ _ _ Ha Hb HU) as (La & Lb & EU & Hm).
  destruct (recombine_operands _ _ _ _ _ _ _ Ha Hb HI) as (_ & _ & EI & _).
  destruct (Hm p q Hpq) as [Ma Mb]. rewrite <- Ma, <- Mb.
  exact (inclusion_exclusion_pieces a' b' newU newI p q La Lb Oab Oba FU FI EU EI).
Qed.

Lemma result_moment : forall (new : list jordan) dflt (a' b' a1 b1 s : shape),
  dflt = SWhole \/ dflt = SEmpty ->
  match new with
  | [] => Ok (a', b', dflt)
  | _ => do s <- shape_from_jordans new; Ok (a', b', s)
  end = Ok (a1, b1, s) ->
  a1 = a' /\ b1 = b' /\ forall p q, moment s p q == moment_list new p q.
Proof.
  intros new dflt a' b' a1 b1 s Hd H. destruct new as [|n0 nt].
  - inversion H; subst. repeat split. intros p q. rewrite moment_list_nil.
    destruct Hd as [->| ->]; [apply moment_whole|apply moment_empty].
  - apply bind_Ok in H. destruct H as (s0 & Hs & H). inversion H; subst.
    repeat split. intros p q. apply shape_from_jordans_moment, Hs.
Qed.

(* m(A|B) + m(A&B) = m(A) + m(B): unconditional on the Empty / Whole / nested
   branches; on the general branch, under the hypothesis that path following
   is faithful and no piece midpoint lies on the other operand's boundary *)
Theorem or_and_moments : forall a b a1 b1 u a2 b2 i p q,
  shape_lines a = true -> shape_lines b = true -> (p + q <= 14)%nat ->
  op_or a b = Ok (a1, b1, u) -> op_and a b = Ok (a2, b2, i) ->
  general_branch_faithful a b ->
  moment u p q + moment i p q == moment a p q + moment b p q.
Proof.
  intros a b a1 b1 u a2 b2 i p q Ha Hb Hpq HU HI G.
  destruct (shape_singleton_dec a) as [->|[->|[Na1 Na2]]].
  { rewrite op_or_empty_l in HU. rewrite op_and_empty_l in HI.
    apply bind_Ok in HU. destruct HU as (c & Hc & HU). inversion HU; inversion HI; subst.
    rewrite (copy_shape_moment _ _ p q Hc). ring. }
  { rewrite op_or_whole_l in HU. rewrite op_and_whole_l in HI.
    apply bind_Ok in HI. destruct HI as (c & Hc & HI). inversion HU; inversion HI; subst.
    rewrite (copy_shape_moment _ _ p q Hc). reflexivity. }
  destruct (shape_singleton_dec b) as [->|[->|[Nb1 Nb2]]].
  { rewrite op_or_empty_r in HU. rewrite op_and_empty_r in HI.
    apply bind_Ok in HU. destruct HU as (c & Hc & HU). inversion HU; inversion HI; subst.
    rewrite (copy_shape_moment _ _ p q Hc). reflexivity. }
  { rewrite op_or_whole_r in HU. rewrite op_and_whole_r in HI.
    apply bind_Ok in HI. destruct HI as (c & Hc & HI). inversion HU; inversion HI; subst.
    rewrite (copy_shape_moment _ _ p q Hc). ring. }
  rewrite op_or_general in HU by assumption. rewrite op_and_general in HI by assumption.
  unfold gen_branch in HU, HI.
  destruct (contains_shape a b) as [x| |]; cbn [bind] in HU, HI; try discriminate.
  destruct x.
  { apply bind_Ok in HU. destruct HU as (cu & Hcu & HU).
    apply bind_Ok in HI. destruct HI as (ci & Hci & HI). inversion HU; inversion HI; subst.
    rewrite (copy_shape_moment _ _ p q Hcu), (copy_shape_moment _ _ p q Hci). reflexivity. }
  destruct (contains_shape b a) as [y| |]; cbn [bind] in HU, HI; try discriminate.
  destruct y.
  { apply bind_Ok in HU. destruct HU as (cu & Hcu & HU).
    apply bind_Ok in HI. destruct HI as (ci & Hci & HI). inversion HU; inversion HI; subst.
    rewrite (copy_shape_moment _ _ p q Hcu), (copy_shape_moment _ _ p q Hci). ring. }
  apply bind_Ok in HU. destruct HU as ([[a' b'] newU] & RU & HU).
  apply bind_Ok in HI. destruct HI as ([[a'' b''] newI] & RI & HI).
  destruct (recombine_operands_same _ _ _ _ _ _ _ _ _ _ _ _ RU RI) as [<- <-].
  destruct (result_moment newU SWhole a' b' a1 b1 u (or_introl eq_refl) HU) as (_ & _ & MU).
  destruct (result_moment newI SEmpty a' b' a2 b2 i (or_intror eq_refl) HI) as (_ & _ & MI).
  rewrite MU, MI.
  destruct (G a' b' newU newI RU RI) as (Oab & Oba & FU & FI).
  exact (recombine_inclusion_exclusion a b a' b' newU newI p q Ha Hb Hpq RU RI Oab Oba FU FI).
Qed.

(* ================================================================== *)
(* executable checks of the hypotheses of the general branch           *)
(* ================================================================== *)
Definition off_boundary_b (a b : shape) : bool :=
  forallb (fun j => forallb (fun s =>
             Bool.eqb (contains_point b (evalr s Qhalf) true)
                      (contains_point b (evalr s Qhalf) false)) j) (jordans a).
Lemma off_boundary_b_sound : forall a b, off_boundary_b a b = true -> off_boundary a b.
Proof.
  intros a b H i k [Hi Hk]. unfold off_boundary_b in H. rewrite forallb_forall in H.
  specialize (H (nth i (jordans a) []) (nth_In _ _ Hi)). rewrite forallb_forall in H.
  specialize (H (nth k (nth i (jordans a) []) []) (nth_In _ _ Hk)).
  apply Bool.eqb_prop in H. exact H.
Qed.

(* Leibniz equality of rational points, decided on the representation *)
Definition Qeqb_l (x y : Q) : bool := Z.eqb (Qnum x) (Qnum y) && Pos.eqb (Qden x) (Qden y).
Lemma Qeqb_l_eq : forall x y, Qeqb_l x y = true -> x = y.
Proof.
  intros [xn xd] [yn yd] H. unfold Qeqb_l in H. cbn [Qnum Qden] in H.
  apply andb_prop in H. destruct H as [H1 H2].
  apply Z.eqb_eq in H1. apply Pos.eqb_eq in H2. subst. reflexivity.
Qed.
Definition pt_eqb_l (p q : point) : bool := Qeqb_l (fst p) (fst q) && Qeqb_l (snd p) (snd q).
Lemma pt_eqb_l_eq : forall p q, pt_eqb_l p q = true -> p = q.
Proof.
  intros [p1 p2] [q1 q2] H. unfold pt_eqb_l in H. cbn [fst snd] in H.
  apply andb_prop in H. destruct H as [H1 H2].
  apply Qeqb_l_eq in H1. apply Qeqb_l_eq in H2. subst. reflexivity.
Qed.

Definition exact_joins_b (segs : list seg) : bool :=
  forallb (fun n => pt_eqb_l (last_pt (nth n segs []))
                             (first_pt (nth ((n + 1) mod length segs) segs [])))
          (seq 0 (length segs)).
Lemma exact_joins_b_sound : forall segs, exact_joins_b segs = true -> exact_joins segs.
Proof.
  intros segs H n Hn. unfold exact_joins_b in H. rewrite forallb_forall in H.
  apply pt_eqb_l_eq. apply H. apply in_seq. lia.
Qed.

Fixpoint remove1 (x : nat * nat) (l : list (nat * nat)) : option (list (nat * nat)) :=
  match l with
  | [] => None
  | y :: t => if nn_eqb x y then Some t else option_map (cons y) (remove1 x t)
  end.
Lemma nn_eqb_eq : forall x y, nn_eqb x y = true -> x = y.
Proof.
  intros [x1 x2] [y1 y2] H. unfold nn_eqb in H. cbn [fst snd] in H.
  apply andb_prop in H. destruct H as [H1 H2].
  apply Nat.eqb_eq in H1. apply Nat.eqb_eq in H2. subst. reflexivity.
Qed.
Lemma remove1_perm : forall x l m, remove1 x l = Some m -> Permutation l (x :: m).
Proof.
  intros x l. induction l as [|y t IH]; intros m H; cbn [remove1] in H; [discriminate|].
  destruct (nn_eqb x y) eqn:E.
  - apply nn_eqb_eq in E. inversion H; subst. apply Permutation_refl.
  - destruct (remove1 x t) as [m'|]; [|discriminate]. cbn [option_map] in H. inversion H; subst.
    eapply perm_trans; [apply perm_skip, IH; reflexivity|apply perm_swap].
Qed.
Fixpoint perm_b (l m : list (nat * nat)) : bool :=
  match l with
  | [] => match m with [] => true | _ => false end
  | x :: t => match remove1 x m with Some m' => perm_b t m' | None => false end
  end.
Lemma perm_b_sound : forall l m, perm_b l m = true -> Permutation l m.
Proof.
  induction l as [|x t IH]; intros m H; cbn [perm_b] in H.
  - destruct m; [constructor|discriminate].
  - destruct (remove1 x m) as [m'|] eqn:E; [|discriminate].
    eapply perm_trans; [apply perm_skip, IH, H|]. apply Permutation_sym, remove1_perm, E.
Qed.

Definition faithful_paths_b (js : list jordan) (idx : list (nat * nat))
           (paths : list (list (nat * nat))) : bool :=
  perm_b (concat paths) idx && forallb (fun p => exact_joins_b (path_segs js p)) paths.
Lemma faithful_paths_b_sound : forall js idx paths,
  faithful_paths_b js idx paths = true -> faithful_paths js idx paths.
Proof.
  intros js idx paths H. unfold faithful_paths_b in H. apply andb_prop in H.
  destruct H as [H1 H2]. split; [apply perm_b_sound, H1|].
  intros p Hp. rewrite forallb_forall in H2. apply exact_joins_b_sound, H2, Hp.
Qed.

Definition faithful_follow_b (js : list jordan) (idx : list (nat * nat)) : bool :=
  match follow_paths_of js idx with
  | Ok ps => faithful_paths_b js idx ps
  | _ => true
  end.
Lemma faithful_follow_b_sound : forall js idx,
  faithful_follow_b js idx = true -> faithful_follow js idx.
Proof.
  intros js idx H ps Hps. unfold faithful_follow_b in H. rewrite Hps in H.
  apply faithful_paths_b_sound, H.
Qed.

Definition general_branch_faithful_b (a b : shape) : bool :=
  match recombine a b true false with
  | Ok (a', b', _) =>
      off_boundary_b a' b' && off_boundary_b b' a' &&
      faithful_follow_b (jordans a' ++ jordans b') (midpoints_shapes a' b' true false) &&
      faithful_follow_b (jordans a' ++ jordans b') (midpoints_shapes a' b' false true)
  | _ => true
  end.
Lemma general_branch_faithful_b_sound : forall a b,
  general_branch_faithful_b a b = true -> general_branch_faithful a b.
Proof.
  intros a b H a' b' newU newI HU _. unfold general_branch_faithful_b in H. rewrite HU in H.
  apply andb_prop in H. destruct H as [H H4]. apply andb_prop in H. destruct H as [H H3].
  apply andb_prop in H. destruct H as [H1 H2].
  split; [apply off_boundary_b_sound, H1|]. split; [apply off_boundary_b_sound, H2|].
  split; apply faithful_follow_b_sound; assumption.
Qed.

(* the checked form: whenever the executable check passes, the identity holds *)
Corollary or_and_moments_checked : forall a b a1 b1 u a2 b2 i p q,
  shape_lines a = true -> shape_lines b = true -> (p + q <= 14)%nat ->
  op_or a b = Ok (a1, b1, u) -> op_and a b = Ok (a2, b2, i) ->
  general_branch_faithful_b a b = true ->
  moment u p q + moment i p q == moment a p q + moment b p q.
Proof.
  intros a b a1 b1 u a2 b2 i p q Ha Hb Hpq HU HI G.
  exact (or_and_moments a b a1 b1 u a2 b2 i p q Ha Hb Hpq HU HI
           (general_branch_faithful_b_sound a b G)).
Qed.

(* ------------------------------------------------------------------ *)
(* non-vacuity: two overlapping squares go through the general branch  *)
(* ------------------------------------------------------------------ *)
Definition ex_sq (x0 y0 x1 y1 : Q) : jordan :=
  [ [(x0, y0); (x1, y0)]; [(x1, y0); (x1, y1)]; [(x1, y1); (x0, y1)]; [(x0, y1); (x0, y0)] ].
Definition exA : shape := SC (CS (ex_sq 0 0 2 2)).
Definition exB : shape := SC (CS (ex_sq 1 1 3 3)).
Example ex_general_branch :
  contains_shape exA exB = Ok false /\ contains_shape exB exA = Ok false /\
  shape_lines exA = true /\ shape_lines exB = true /\
  general_branch_faithful_b exA exB = true.
Proof. vm_compute. repeat split. Qed.
Example ex_or_and_moments : forall p q, (p + q <= 14)%nat ->
  exists a1 b1 u a2 b2 i,
    op_or exA exB = Ok (a1, b1, u) /\ op_and exA exB = Ok (a2, b2, i) /\
    moment u p q + moment i p q == moment exA p q + moment exB p q.
Proof.
  intros p q Hpq.
  destruct (op_or exA exB) as [[[a1 b1] u]| |] eqn:EU; [|exfalso; vm_compute in EU; discriminate EU..].
  destruct (op_and exA exB) as [[[a2 b2] i]| |] eqn:EI; [|exfalso; vm_compute in EI; discriminate EI..].
  exists a1, b1, u, a2, b2, i. split; [reflexivity|]. split; [reflexivity|].
  apply (or_and_moments_checked exA exB a1 b1 u a2 b2 i p q); try assumption;
    try (vm_compute; reflexivity).
Qed.
(* the numbers: areas 7 + 1 = 4 + 4, xy-moments 71/4 + 9/4 = 4 + 16 *)
Example ex_numbers :
  match op_or exA exB, op_and exA exB with
  | Ok (_, _, u), Ok (_, _, i) =>
      (moment u 0 0, moment i 0 0, moment u 1 1, moment i 1 1)
      = (7, 1, 71 # 4, 9 # 4)
  | _, _ => False
  end.
Proof. vm_compute. reflexivity. Qed.
(* splitting: the diagonal edge (0,0)-(4,2) cut at t = 1/4, moment x^2 y^3 dy *)
Example ex_split_numbers :
  vertical [(0, 0); (1, 1 # 2)] 2 3 + vertical [(1, 1 # 2); (4, 2)] 2 3
  == vertical [(0, 0); (4, 2)] 2 3.
Proof. apply (vertical_split_gen (0, 0) (4, 2) (1 # 4)); [lia|]. split; vm_compute; reflexivity. Qed.

Print Assumptions moment_not.
Print Assumptions moment_not_not.
Print Assumptions moment_spec_not.
Print Assumptions midpoints_one_shape_In.
Print Assumptions selection_partition.
Print Assumptions midpoints_shapes_In.
Print Assumptions selection_partition_shapes.
Print Assumptions selection_sum.
Print Assumptions pint01_affine.
Print Assumptions vertical_sub.
Print Assumptions vertical_split_gen.
Print Assumptions edge_moment_split.
Print Assumptions split_moment.
Print Assumptions split_moment_spec.
Print Assumptions split_all_refines.
Print Assumptions recombine_operands.
Print Assumptions indexs_to_jordan_conservation.
Print Assumptions paths_conservation.
Print Assumptions follow_path_conservation.
Print Assumptions inclusion_exclusion_pieces.
Print Assumptions recombine_inclusion_exclusion.
Print Assumptions or_and_moments.
Print Assumptions or_and_moments_checked.
Print Assumptions ex_or_and_moments.
Print Assumptions midpoints_shapes_NoDup.
