(* CrashFacts.v -- C11, crash safety: whatever prefix of the writes of a non-mutating operation
   has happened when an exception surfaces, every pre-existing curve denotes what it denoted;
   the in-place transformations validate their arguments before the first write. *)
From Coq Require Import List Arith Lia Bool QArith Lqa.
From SV Require Import Model.Heap Model.Crash Spec.Spec.
From SV Require Import Lemmas.Quadrature Lemmas.Lines Lemmas.Fuel Lemmas.Logic Lemmas.SplitClean
  Lemmas.Construct Lemmas.HeapFacts.
Import ListNotations.
Open Scope nat_scope.

(* ------------------------------------------------------------------ *)
(* 0. running write lists                                              *)
(* ------------------------------------------------------------------ *)
Lemma run_w_cons : forall w ws h, run_w (w :: ws) h = run_w ws (apply_w w h).
Proof. reflexivity. Qed.
Lemma run_w_nil : forall h, run_w [] h = h.
Proof. reflexivity. Qed.
Lemma run_w_app : forall a b h, run_w (a ++ b) h = run_w b (run_w a h).
Proof. intros. unfold run_w. apply fold_left_app. Qed.
Lemma prefix_w_0 : forall ws h, prefix_w 0 ws h = h.
Proof. reflexivity. Qed.
Lemma prefix_w_nil : forall k h, prefix_w k [] h = h.
Proof. intros [|k] h; reflexivity. Qed.
Lemma prefix_w_S : forall k w ws h, prefix_w (S k) (w :: ws) h = prefix_w k ws (apply_w w h).
Proof. reflexivity. Qed.
Lemma prefix_w_all : forall k ws h, length ws <= k -> prefix_w k ws h = run_w ws h.
Proof. intros k ws h H. unfold prefix_w. rewrite firstn_all2 by exact H. reflexivity. Qed.
Lemma prefix_w_app : forall k a b h,
  prefix_w k (a ++ b) h = prefix_w (k - length a) b (prefix_w k a h).
Proof. intros k a b h. unfold prefix_w. rewrite firstn_app, run_w_app. reflexivity. Qed.
Lemma prefix_w_app_le : forall k a b h, k <= length a -> prefix_w k (a ++ b) h = prefix_w k a h.
Proof.
  intros k a b h H. rewrite prefix_w_app. replace (k - length a) with 0 by lia. apply prefix_w_0.
Qed.
Lemma prefix_w_app_ge : forall k a b h, length a <= k ->
  prefix_w k (a ++ b) h = prefix_w (k - length a) b (run_w a h).
Proof. intros k a b h H. rewrite prefix_w_app, (prefix_w_all k a) by exact H. reflexivity. Qed.

(* ------------------------------------------------------------------ *)
(* 1. (b), (c): the traces are what Heap.v executes                    *)
(* ------------------------------------------------------------------ *)
Lemma split_trace_from_run : forall c groups i shift h,
  run_steps (split_steps c i shift groups) h = run_w (split_trace_from c i shift groups) h.
Proof.
  intros c groups. induction groups as [|g t IH]; intros i shift h; [reflexivity|].
  destruct g as [|p1 [|p2 ps]]; cbn [split_steps split_trace_from]; apply IH.
Qed.
Theorem split_trace_run : forall c groups h,
  run_steps (split_steps c 0 0 groups) h = run_w (split_trace c groups) h.
Proof. intros. apply split_trace_from_run. Qed.

Lemma fill_trace_run : forall cs h, run_w (map WFill cs) h = h_fill_all h cs.
Proof. induction cs as [|c cs IH]; intros h; [reflexivity|]. cbn [map]. rewrite run_w_cons. apply IH. Qed.

Lemma split_two_trace_run : forall h ca cb st, split_two_steps h ca cb = Ok st ->
  exists ws, split_two_trace h ca cb = Ok ws /\ forall h2, run_steps st h2 = run_w ws h2.
Proof.
  intros h ca cb st H. unfold split_two_steps in H. unfold split_two_trace, two_params.
  destruct (box_and (jordan_box (geom h ca)) (jordan_box (geom h cb))) as [bx|].
  2:{ inversion H; subst. exists []. split; reflexivity. }
  inv_bind H. rewrite Hv. cbn [bind]. inv_bind H. inv_bind H. inversion H; subst. clear H.
  cbn [map fst snd] in *. rewrite Hv0. cbn [bind]. rewrite Hv1. cbn [bind].
  eexists. split; [reflexivity|]. intros h2.
  rewrite run_steps_app, run_w_app, !split_trace_run. reflexivity.
Qed.

Lemma pairs_trace_run : forall pairs h h', h_split_all_pairs h pairs = Ok h' ->
  exists ws, pairs_trace h pairs = Ok ws /\ run_w ws h = h'.
Proof.
  induction pairs as [|[ca cb] t IH]; intros h h' H; cbn [h_split_all_pairs pairs_trace] in *.
  - inversion H; subst. exists []. split; reflexivity.
  - inv_bind H. destruct (split_two_trace_run _ _ _ _ Hv) as (st & E & R). rewrite E. cbn [bind].
    rewrite R in H. destruct (IH _ _ H) as (rest & E2 & R2). rewrite E2. cbn [bind].
    exists (st ++ rest). split; [reflexivity|]. rewrite run_w_app. exact R2.
Qed.

Lemma half_trace_run : forall h cx fa b nb ha nbx (s2 : bool) h1,
  op_not b = Ok nb -> alloc_shape h nb = (ha, nbx) -> shortcut BAnd (fa ha) nb = Ok s2 ->
  (if s2 then Ok ha else h_split_all_pairs ha (all_pairs cx (hcurves_of nbx))) = Ok h1 ->
  exists ws, half_trace h cx fa b = Ok ws /\ run_w ws h = h1.
Proof.
  intros h cx fa b nb ha nbx s2 h1 E1 E2 E3 E4. unfold half_trace.
  rewrite E1. cbn [bind]. rewrite E2, E3. cbn [bind].
  assert (exists t1, (if s2 then Ok [] else pairs_trace ha (all_pairs cx (hcurves_of nbx))) = Ok t1
                     /\ run_w t1 ha = h1) as (t1 & Et1 & Rt1).
  { destruct s2; [inversion E4; subst; exists []; split; reflexivity|].
    apply pairs_trace_run; exact E4. }
  rewrite Et1. cbn [bind]. exists (WAlloc nb :: t1). split; [reflexivity|].
  rewrite run_w_cons. cbn [apply_w]. rewrite E2. exact Rt1.
Qed.

(* (c): running the trace of an operator reproduces the heap h_binop ends in *)
Theorem binop_trace_run : forall o h x y h' z, h_binop o h x y = Ok (h', z) ->
  exists ws, binop_trace o h x y = Ok ws /\ run_w ws h = h'.
Proof.
  intros o h x y h' z H. unfold h_binop in H. unfold binop_trace.
  inv_bind H. rewrite Hv. cbn [bind]. inv_bind H. rewrite Hv0. cbn [bind]. inv_bind H.
  assert (exists w1, (if v0 then Ok [] else binop_mid_trace o h x y) = Ok w1 /\ run_w w1 h = v1)
    as (w1 & E1 & R1).
  { destruct v0.
    - inversion Hv1; subst. exists []. split; reflexivity.
    - destruct o; unfold binop_mid_trace.
      + apply pairs_trace_run; exact Hv1.
      + apply pairs_trace_run; exact Hv1.
      + inv_bind Hv1. destruct (alloc_shape h v0) as [ha nbx] eqn:Ea. inv_bind Hv1.
        eapply (half_trace_run h _ (fun _ => denot h x)); eassumption.
      + inv_bind Hv1. destruct (alloc_shape h v0) as [ha nbx] eqn:Ea. inv_bind Hv1.
        inv_bind Hv1.
        destruct (half_trace_run h (hcurves_of x) (fun _ => denot h x) _ _ _ _ _ _ Hv2 Ea Hv3 Hv4)
          as (t1 & Et1 & Rt1).
        rewrite Et1. cbn [bind]. rewrite Rt1.
        inv_bind Hv1. destruct (alloc_shape v3 v4) as [h3 nax] eqn:Ea2. inv_bind Hv1.
        destruct (half_trace_run v3 (hcurves_of y) (fun h3 => denot h3 y) _ _ _ _ _ _ Hv5 Ea2 Hv6 Hv1)
          as (t2 & Et2 & Rt2).
        rewrite Et2. cbn [bind]. exists (t1 ++ t2). split; [reflexivity|].
        rewrite run_w_app, Rt1. exact Rt2. }
  rewrite E1. cbn [bind]. eexists. split; [reflexivity|].
  rewrite !run_w_app, R1, fill_trace_run, run_w_cons. cbn [apply_w]. rewrite run_w_nil.
  inversion H as [Ha]. rewrite Ha. reflexivity.
Qed.

(* ------------------------------------------------------------------ *)
(* 2. points of a straight segment and of its subdivisions             *)
(* ------------------------------------------------------------------ *)
Section OnEdge.
Local Open Scope Q_scope.

Lemma between_iff : forall a b x, between a b x = true <-> (a <= x /\ x <= b) \/ (b <= x /\ x <= a).
Proof.
  intros a b x. unfold between. rewrite orb_true_iff, !andb_true_iff, !Qle_bool_iff. tauto.
Qed.

Lemma between_comp : forall a a' b b' x, a == a' -> b == b' -> between a b x = between a' b' x.
Proof.
  intros a a' b b' x Ha Hb. unfold between.
  rewrite (Qleb_comp _ _ Ha x x (Qeq_refl _)), (Qleb_comp x x (Qeq_refl _) _ _ Hb),
          (Qleb_comp _ _ Hb x x (Qeq_refl _)), (Qleb_comp x x (Qeq_refl _) _ _ Ha).
  reflexivity.
Qed.

Lemma on_edge_peq : forall a b a' b' p, peq a a' -> peq b b' -> on_edge a b p = on_edge a' b' p.
Proof.
  intros a b a' b' p Ha Hb. unfold on_edge.
  rewrite (Qeqb_comp _ _ (orient_peq a b p a' b' Ha Hb) 0 0 (Qeq_refl _)).
  destruct Ha as [Ha1 Ha2], Hb as [Hb1 Hb2].
  rewrite (between_comp _ _ _ _ (px p) Ha1 Hb1), (between_comp _ _ _ _ (py p) Ha2 Hb2).
  reflexivity.
Qed.

(* no division: a point of parameter s in [lo, hi] is on the edge pt(lo) - pt(hi) *)
Lemma on_edge_par_intro : forall a b lo hi s p, lo <= s -> s <= hi -> peq p (pt_at a b s) ->
  on_edge (pt_at a b lo) (pt_at a b hi) p = true.
Proof.
  intros [ax ay] [bx by_] lo hi s [p1 p2] H1 H2 [E1 E2].
  cbv [pt_at peq px py fst snd] in E1, E2.
  unfold on_edge. rewrite !andb_true_iff, Qeq_bool_iff, !between_iff.
  cbv [pt_at orient cross psub px py fst snd]. split; [split|].
  - rewrite E1, E2. ring.
  - rewrite E1. destruct (Qlt_le_dec bx ax); [right|left]; split; nra.
  - rewrite E2. destruct (Qlt_le_dec by_ ay); [right|left]; split; nra.
Qed.

(* a point on the edge has a parameter in [0, 1] *)
Lemma on_edge_elim : forall a b p, on_edge a b p = true ->
  exists t, 0 <= t /\ t <= 1 /\ peq p (pt_at a b t).
Proof.
  intros [ax ay] [bx by_] [p1 p2] H. unfold on_edge in H.
  rewrite !andb_true_iff, Qeq_bool_iff, !between_iff in H. destruct H as [[Ho Hx] Hy].
  cbv [orient cross psub px py fst snd] in Ho, Hx, Hy.
  destruct (Qeq_dec ax bx) as [Ex|Nx].
  - assert (p1 == ax) as P1 by (destruct Hx; lra).
    destruct (Qeq_dec ay by_) as [Ey|Ny].
    + assert (p2 == ay) as P2 by (destruct Hy; lra).
      exists 0. split; [lra|]. split; [lra|]. cbv [pt_at peq px py fst snd]. split; lra.
    + exists ((p2 - ay) / (by_ - ay)).
      assert (~ by_ - ay == 0) as Nd by lra.
      assert ((p2 - ay) / (by_ - ay) * (by_ - ay) == p2 - ay) as Et by (field; exact Nd).
      set (t := (p2 - ay) / (by_ - ay)) in *. clearbody t.
      split; [|split].
      * destruct (Qlt_le_dec by_ ay); destruct Hy; nra.
      * destruct (Qlt_le_dec by_ ay); destruct Hy; nra.
      * cbv [pt_at peq px py fst snd]. split; nra.
  - exists ((p1 - ax) / (bx - ax)).
    assert (~ bx - ax == 0) as Nd by lra.
    assert ((p1 - ax) / (bx - ax) * (bx - ax) == p1 - ax) as Et by (field; exact Nd).
    set (t := (p1 - ax) / (bx - ax)) in *. clearbody t.
    split; [|split].
    + destruct (Qlt_le_dec bx ax); destruct Hx; nra.
    + destruct (Qlt_le_dec bx ax); destruct Hx; nra.
    + cbv [pt_at peq px py fst snd]. split; [lra|].
      assert ((bx - ax) * (p2 - ay - t * (by_ - ay)) == 0) as Z by nra.
      apply Qmult_integral in Z. destruct Z as [Z|Z]; [contradiction|lra].
Qed.

Definition on_par (a b : point) (lo hi : Q) (p : point) : Prop :=
  exists s, lo <= s /\ s <= hi /\ peq p (pt_at a b s).

Lemma on_edge_par : forall a b lo hi p, lo <= hi ->
  (on_edge (pt_at a b lo) (pt_at a b hi) p = true <-> on_par a b lo hi p).
Proof.
  intros a b lo hi p Hle. split.
  - intros H. destruct (on_edge_elim _ _ _ H) as (t & T0 & T1 & E).
    exists (lo + t * (hi - lo)). split; [nra|]. split; [nra|].
    eapply peq_trans; [exact E | apply pt_at_pt_at].
  - intros (s & S0 & S1 & E). eapply on_edge_par_intro; eassumption.
Qed.

Lemma on_edge_split_par : forall a b u v w p, u <= v -> v <= w ->
  on_edge (pt_at a b u) (pt_at a b w) p =
  on_edge (pt_at a b u) (pt_at a b v) p || on_edge (pt_at a b v) (pt_at a b w) p.
Proof.
  intros a b u v w p H1 H2. apply eq_iff_eq_true.
  rewrite orb_true_iff, !on_edge_par by lra. split.
  - intros (s & S0 & S1 & E). destruct (Qlt_le_dec s v).
    + left. exists s. split; [lra|]. split; [lra|exact E].
    + right. exists s. split; [lra|]. split; [lra|exact E].
  - intros [(s & S0 & S1 & E)|(s & S0 & S1 & E)]; exists s; (split; [lra|]); (split; [lra|exact E]).
Qed.

Definition oe (p : point) (s : seg) : bool := on_edge (first_pt s) (last_pt s) p.

Lemma subdiv_from_on_edge : forall a b p u l ps, subdiv_from a b u l ps -> incr u l ->
  existsb (oe p) ps = on_edge (pt_at a b u) (pt_at a b 1) p.
Proof.
  intros a b p u l ps H. induction H; intros Hi.
  - cbn [existsb]. rewrite orb_false_r. destruct H as (_ & Hf & Hg). unfold oe.
    apply on_edge_peq; assumption.
  - cbn [incr] in Hi. destruct Hi as [Hi1 Hi2]. cbn [existsb]. rewrite (IHsubdiv_from Hi2).
    destruct H as (_ & Hf & Hg). unfold oe at 1. rewrite (on_edge_peq _ _ _ _ p Hf Hg).
    symmetry. apply on_edge_split_par; [lra|]. pose proof (incr_lt1 _ _ Hi2). lra.
Qed.

(* C1, point set: a point is on the segment iff it is on one of the pieces *)
Lemma subdiv_on_edge : forall p s ps, subdiv s ps -> existsb (oe p) ps = oe p s.
Proof.
  intros p s ps (a & b & ts & -> & Hi & H). rewrite (subdiv_from_on_edge _ _ p _ _ _ H Hi).
  unfold oe. cbn [first_pt last_pt hd last]. apply on_edge_peq; [apply pt_at_0 | apply pt_at_1].
Qed.
End OnEdge.

(* ------------------------------------------------------------------ *)
(* 3. the pieces as the curve holds them are again a subdivision       *)
(* ------------------------------------------------------------------ *)
(* gluev re-points the first / last points of the pieces to the values of the old objects,
   which are peq to what the pieces already have *)
Lemma gluev_subdiv_from : forall a b u l ps, subdiv_from a b u l ps -> forall fv lv,
  peq fv (pt_at a b u) -> peq lv (pt_at a b 1%Q) -> subdiv_from a b u l (gluev fv lv ps).
Proof.
  intros a b u l ps H. induction H as [u s Hp|u v l s ps Hp Hs IH]; intros fv lv Hf Hl.
  - destruct Hp as (Hlen & _ & _). destruct s as [|x [|y [|z s]]]; try discriminate Hlen.
    cbn [gluev tl removelast app]. constructor. split; [reflexivity|].
    cbn [first_pt last_pt hd last]. split; assumption.
  - destruct ps as [|s' ps']; [inversion Hs|].
    change (gluev fv lv (s :: s' :: ps')) with ((fv :: tl s) :: gluev (last_pt s) lv (s' :: ps')).
    destruct Hp as (Hlen & _ & Hg). constructor.
    + destruct s as [|x [|y [|z s]]]; try discriminate Hlen. cbn [tl]. split; [reflexivity|].
      cbn [first_pt last_pt hd last] in *. split; assumption.
    + apply IH; assumption.
Qed.

Lemma gluev_subdiv : forall s ps, subdiv s ps -> subdiv s (gluev (first_pt s) (last_pt s) ps).
Proof.
  intros s ps (a & b & ts & -> & Hi & H). exists a, b, ts. split; [reflexivity|]. split; [exact Hi|].
  cbn [first_pt last_pt hd last]. apply gluev_subdiv_from; [exact H | |]; apply peq_sym;
    [apply pt_at_0 | apply pt_at_1].
Qed.

Lemma subdiv_pieces_ok : forall s ps, subdiv s ps -> pieces_ok ps.
Proof.
  intros s ps (a & b & ts & _ & _ & H) x Hx. rewrite (subdiv_from_lines _ _ _ _ _ H x Hx). lia.
Qed.
Lemma subdiv_is_lines : forall s ps, subdiv s ps -> forallb is_line ps = true /\ is_line s = true.
Proof.
  intros s ps (a & b & ts & -> & _ & H). split; [|reflexivity]. apply forallb_forall. intros x Hx.
  unfold is_line. apply Nat.eqb_eq. eapply subdiv_from_lines; eassumption.
Qed.

(* ------------------------------------------------------------------ *)
(* 4. "denotes the same region": the observations of a curve           *)
(* ------------------------------------------------------------------ *)
(* same straightness, same winding number about every point, same signed area (hence same
   orientation), same point set *)
Definition jsame (j j' : jordan) : Prop :=
  all_lines j' = all_lines j /\
  (forall p, wn_lines j' p = wn_lines j p) /\
  (jordan_area j' == jordan_area j)%Q /\
  (forall p, on_boundary j' p = on_boundary j p).
Lemma jsame_refl : forall j, jsame j j.
Proof. intros j. split; [reflexivity|]. split; [reflexivity|]. split; reflexivity. Qed.
Lemma jsame_eq : forall j j', j' = j -> jsame j j'.
Proof. intros j j' ->. apply jsame_refl. Qed.
Lemma jsame_trans : forall j1 j2 j3, jsame j1 j2 -> jsame j2 j3 -> jsame j1 j3.
Proof.
  intros j1 j2 j3 (A1 & W1 & R1 & B1) (A2 & W2 & R2 & B2).
  split; [congruence|]. split; [intros p; rewrite W2; apply W1|].
  split; [rewrite R2; exact R1 | intros p; rewrite B2; apply B1].
Qed.

(* replacing one segment by a subdivision of it *)
Lemma replace_jsame : forall A B old ps, subdiv old ps -> jsame (A ++ old :: B) (A ++ ps ++ B).
Proof.
  intros A B old ps H. destruct (subdiv_is_lines _ _ H) as [L1 L2]. split; [|split; [|split]].
  - unfold all_lines. rewrite !forallb_app. cbn [forallb]. rewrite L1, L2. reflexivity.
  - intros p. unfold wn_lines. change (fun s => cr (first_pt s) (last_pt s) p) with (crs p).
    rewrite !map_app, !Zsum_app. cbn [map Zsum]. rewrite (subdiv_cr p _ _ H). lia.
  - unfold jordan_area, jordan_vertical. rewrite !Qred_correct, !map_app, !Qsum_app.
    cbn [map Qsum]. rewrite (subdiv_area _ _ H). ring.
  - intros p. unfold on_boundary. change (fun s => on_edge (first_pt s) (last_pt s) p) with (oe p).
    rewrite !existsb_app. cbn [existsb]. rewrite (subdiv_on_edge p _ _ H). reflexivity.
Qed.

(* the orientation test of region_simple only depends on the area *)
Lemma jsame_shoelace : forall j j', jsame j j' -> closed_chain j = true -> closed_chain j' = true ->
  all_lines j = true -> Qlt_bool 0 (shoelace2 j') = Qlt_bool 0 (shoelace2 j).
Proof.
  intros j j' (A & _ & R & _) C C' L. assert (all_lines j' = true) as L' by congruence.
  rewrite (area_shoelace j L C), (area_shoelace j' L' C') in R.
  unfold Qlt_bool. f_equal. apply Qleb_comp; [|reflexivity].
  assert (shoelace2 j' / 2 * 2 == shoelace2 j / 2 * 2)%Q as E by (rewrite R; reflexivity).
  field_simplify in E. lra.
Qed.
Theorem jsame_region : forall j j', jsame j j' -> closed_chain j = true -> closed_chain j' = true ->
  all_lines j = true -> forall p, region_simple j' p = region_simple j p.
Proof.
  intros j j' H C C' L p. unfold region_simple.
  rewrite (jsame_shoelace j j' H C C' L). destruct H as (_ & W & _ & B). rewrite B, W. reflexivity.
Qed.

(* ------------------------------------------------------------------ *)
(* 5. C1: a single split is a refinement                               *)
(* ------------------------------------------------------------------ *)
Lemma split_step_geom : forall h c i pieces,
  Inv h -> c < length (hcurves h) -> i < length (geom h c) ->
  subdiv (nth i (geom h c) []) pieces ->
  jsame (geom h c) (geom (h_split_segment h c i pieces) c).
Proof.
  intros h c i pieces HI Hc Hi Hsd.
  destruct (Nat.le_gt_cases (length pieces) 1) as [Hshort|Hlong].
  - rewrite h_split_segment_short by exact Hshort. apply jsame_refl.
  - rewrite h_split_segment_geom;
      [|exact HI|exact Hc|rewrite <- geom_length; exact Hi|eapply subdiv_pieces_ok; exact Hsd|lia].
    cbv zeta.
    pose proof (replace_jsame (firstn i (geom h c)) (skipn (S i) (geom h c)) _ _
                  (gluev_subdiv _ _ Hsd)) as R.
    rewrite <- (nth_split_list (geom h c) i [] Hi) in R. exact R.
Qed.

Theorem split_segment_safe : forall h c i pieces,
  Inv h -> c < length (hcurves h) -> i < length (geom h c) ->
  subdiv (nth i (geom h c) []) pieces ->
  let h' := h_split_segment h c i pieces in
  Inv h' /\ length (hcurves h') = length (hcurves h) /\
  (forall c', c' <> c -> c' < length (hcurves h) ->
     geom h' c' = geom h c' /\ cacheof h' c' = cacheof h c') /\
  all_lines (geom h' c) = all_lines (geom h c) /\
  closed_chain (geom h' c) = true /\
  (forall p, wn_lines (geom h' c) p = wn_lines (geom h c) p) /\
  (jordan_area (geom h' c) == jordan_area (geom h c))%Q /\
  (forall p, on_boundary (geom h' c) p = on_boundary (geom h c) p).
Proof.
  intros h c i pieces HI Hc Hi Hsd h'.
  assert (i < length (segsof h c)) as Hi' by (rewrite <- geom_length; exact Hi).
  destruct (h_split_segment_spec h c i pieces HI Hc Hi' (subdiv_pieces_ok _ _ Hsd))
    as (I1 & M1 & L1 & O1 & _).
  destruct (split_step_geom h c i pieces HI Hc Hi Hsd) as (A & W & R & B).
  split; [exact I1|]. split; [exact L1|]. split.
  - intros c' Hne Hc'. split; [|apply O1, Hne].
    apply (modifies_geom (eq c) h _ c' M1 HI); [congruence | exact Hc'].
  - split; [exact A|]. split; [apply (Inv_geom_jgood _ c I1)|]. split; [exact W|]. split; assumption.
Qed.

(* ------------------------------------------------------------------ *)
(* 6. safety of a heap w.r.t. an earlier heap; C3                      *)
(* ------------------------------------------------------------------ *)
(* h' is well formed and every curve below n of h is observationally what it was *)
Definition SafeN (n : nat) (h h' : heap) : Prop :=
  Inv h' /\ length (hcurves h) <= length (hcurves h') /\
  forall c, c < n -> c < length (hcurves h) -> jsame (geom h c) (geom h' c).
Lemma SafeN_refl : forall n h, Inv h -> SafeN n h h.
Proof. intros n h HI. split; [exact HI|]. split; [lia|]. intros; apply jsame_refl. Qed.
Lemma SafeN_trans : forall n h1 h2 h3, SafeN n h1 h2 -> SafeN n h2 h3 -> SafeN n h1 h3.
Proof.
  intros n h1 h2 h3 (_ & L1 & G1) (I2 & L2 & G2). split; [exact I2|]. split; [lia|].
  intros c Hn Hc. eapply jsame_trans; [apply G1; assumption | apply G2; [assumption|lia]].
Qed.
(* ... and only curve c was touched *)
Definition CP (n c : nat) (h h' : heap) : Prop :=
  SafeN n h h' /\ modifies (eq c) h h' /\ length (hcurves h') = length (hcurves h).
Lemma CP_refl : forall n c h, Inv h -> CP n c h h.
Proof. intros n c h HI. split; [apply SafeN_refl, HI|]. split; [apply modifies_refl | reflexivity]. Qed.
Lemma CP_trans : forall n c h1 h2 h3, CP n c h1 h2 -> CP n c h2 h3 -> CP n c h1 h3.
Proof.
  intros n c h1 h2 h3 (S1 & M1 & L1) (S2 & M2 & L2).
  split; [eapply SafeN_trans; eassumption|]. split; [eapply modifies_trans; eassumption | congruence].
Qed.

Lemma split_step_CP : forall n h c i pieces,
  Inv h -> c < length (hcurves h) -> i < length (geom h c) -> pieces_ok pieces ->
  (c < n -> subdiv (nth i (geom h c) []) pieces) ->
  CP n c h (h_split_segment h c i pieces).
Proof.
  intros n h c i pieces HI Hc Hi Hok Hsd.
  assert (i < length (segsof h c)) as Hi' by (rewrite <- geom_length; exact Hi).
  destruct (h_split_segment_spec h c i pieces HI Hc Hi' Hok) as (I1 & M1 & L1 & _ & _).
  split; [|split; assumption]. split; [exact I1|]. split; [lia|].
  intros c' Hn Hc'. destruct (Nat.eq_dec c' c) as [->|Hne].
  - apply split_step_geom; auto.
  - apply jsame_eq. apply (modifies_geom (eq c) h _ c' M1 HI); [congruence | exact Hc'].
Qed.

(* C3: fills and allocations do not change any existing geometry *)
Theorem fill_keeps_geom : forall h c c', geom (apply_w (WFill c) h) c' = geom h c'.
Proof. intros. cbn [apply_w]. apply h_fill_geom. Qed.
Theorem alloc_keeps_geom : forall h s c', Inv h -> segs_ok (jordans s) ->
  c' < length (hcurves h) ->
  geom (apply_w (WAlloc s) h) c' = geom h c' /\ cacheof (apply_w (WAlloc s) h) c' = cacheof h c'.
Proof.
  intros h s c' HI Hok Hc'. cbn [apply_w]. destruct (alloc_shape h s) as [h' x] eqn:E. cbn [fst].
  destruct (alloc_shape_spec _ _ _ _ HI Hok E) as (_ & _ & _ & _ & _ & _ & G & _).
  destruct (G c' Hc') as (G1 & _ & G3). split; assumption.
Qed.
Lemma fill_SafeN : forall n h c, Inv h -> SafeN n h (apply_w (WFill c) h).
Proof.
  intros n h c HI. cbn [apply_w]. split; [apply h_fill_Inv, HI|]. split; [rewrite h_fill_ncurves; lia|].
  intros c' _ _. apply jsame_eq, h_fill_geom.
Qed.
Lemma alloc_SafeN : forall n h s, Inv h -> segs_ok (jordans s) -> SafeN n h (apply_w (WAlloc s) h).
Proof.
  intros n h s HI Hok. pose proof (alloc_keeps_geom h s) as K. cbn [apply_w] in *.
  destruct (alloc_shape h s) as [h' x] eqn:E. cbn [fst] in *.
  destruct (alloc_shape_spec _ _ _ _ HI Hok E) as (I1 & _ & _ & L & _).
  split; [exact I1|]. split; [lia|]. intros c' _ Hc'. apply jsame_eq. apply K; assumption.
Qed.

(* every prefix of a write list is safe *)
Definition SafeTrace (n : nat) (ws : list wstep) (h : heap) : Prop :=
  forall k, SafeN n h (prefix_w k ws h).
Lemma SafeTrace_nil : forall n h, Inv h -> SafeTrace n [] h.
Proof. intros n h HI k. rewrite prefix_w_nil. apply SafeN_refl, HI. Qed.
Lemma SafeTrace_run : forall n ws h, SafeTrace n ws h -> SafeN n h (run_w ws h).
Proof. intros n ws h H. rewrite <- (prefix_w_all (length ws)) by lia. apply H. Qed.
Lemma SafeTrace_app : forall n a b h, SafeTrace n a h -> SafeTrace n b (run_w a h) ->
  SafeTrace n (a ++ b) h.
Proof.
  intros n a b h Ha Hb k. destruct (Nat.le_gt_cases k (length a)) as [Hle|Hgt].
  - rewrite prefix_w_app_le by exact Hle. apply Ha.
  - rewrite prefix_w_app_ge by lia. eapply SafeN_trans; [apply SafeTrace_run, Ha | apply Hb].
Qed.
Lemma SafeTrace_cons : forall n w ws h, Inv h -> SafeN n h (apply_w w h) ->
  SafeTrace n ws (apply_w w h) -> SafeTrace n (w :: ws) h.
Proof.
  intros n w ws h HI H1 H2 [|k]; [rewrite prefix_w_0; apply SafeN_refl, HI|].
  rewrite prefix_w_S. eapply SafeN_trans; [exact H1 | apply H2].
Qed.
Lemma SafeTrace_fills : forall n cs h, Inv h -> SafeTrace n (map WFill cs) h.
Proof.
  intros n cs. induction cs as [|c cs IH]; intros h HI; [apply SafeTrace_nil, HI|].
  cbn [map]. apply SafeTrace_cons; [exact HI | apply fill_SafeN, HI|].
  apply IH. cbn [apply_w]. apply h_fill_Inv, HI.
Qed.

(* ------------------------------------------------------------------ *)
(* 7. C2: every prefix of a curve split is a refinement                *)
(* ------------------------------------------------------------------ *)
(* what split_groups computes for a curve of straight segments: one subdivision per segment *)
Lemma split_groups_subdiv : forall j idx nodes gs, all_lines j = true ->
  split_groups j idx nodes = Ok gs -> Forall2 subdiv j gs.
Proof.
  intros j idx nodes gs Hl H. unfold split_groups in H.
  apply bind_Ok in H. destruct H as (_ & _ & H).
  apply bind_Ok in H. destruct H as (u1 & Hout & H). apply assert_Ok in Hout.
  apply bind_Ok in H. destruct H as (_ & _ & Hm).
  fold (split_pairs idx nodes) in Hm.
  set (pairs := split_pairs idx nodes) in *.
  assert (Hs : Sorted.StronglySorted (fun x y => pair_le x y = true) pairs).
  { apply split_pairs_SS. }
  assert (Hin : forall iu, In iu pairs -> (0 < snd iu /\ snd iu < 1)%Q).
  { intros [i u] Hiu. unfold pairs in Hiu.
    apply split_pairs_In in Hiu. destruct Hiu as [Hiu Hn].
    apply in_combine_r in Hiu. cbn [snd] in *.
    rewrite forallb_forall in Hout. specialize (Hout u Hiu).
    apply negb_true_iff in Hout. apply out01_false in Hout.
    apply near01_false; tauto. }
  apply mapM_Ok_Forall2 in Hm. clear Hout. revert Hl Hm. generalize 0%nat. revert gs.
  induction j as [|s j IH]; intros gs k Hl Hm; cbn [length seq combine] in Hm.
  - inversion Hm. constructor.
  - inversion Hm as [|x y l l' Hxy Hrest]; subst.
    cbn [all_lines forallb] in Hl. apply andb_prop in Hl. destruct Hl as [Hl1 Hl2].
    constructor; [|apply (IH l' (S k)); assumption].
    destruct (is_line_inv s Hl1) as (a & b & ->).
    eapply subdiv_ts_subdiv. apply (split_elem pairs Hs Hin k a b). exact Hxy.
Qed.

Lemma gluev_length : forall ps fv lv, length (gluev fv lv ps) = length ps.
Proof.
  induction ps as [|s t IH]; intros fv lv; [reflexivity|].
  destruct t as [|s' t']; [reflexivity|].
  change (gluev fv lv (s :: s' :: t')) with ((fv :: tl s) :: gluev (last_pt s) lv (s' :: t')).
  cbn [length]. f_equal. apply IH.
Qed.
Lemma firstn_len_app : forall {A} (a b : list A), firstn (length a) (a ++ b) = a.
Proof. intros A a b. induction a as [|x a IH]; [reflexivity|]. cbn. f_equal. exact IH. Qed.
Lemma skipn_S_len_app : forall {A} (a b : list A) x, skipn (S (length a)) (a ++ x :: b) = b.
Proof. intros A a b x. induction a as [|y a IH]; [reflexivity|]. exact IH. Qed.
Lemma nth_len_app : forall {A} (a b : list A) x d, nth (length a) (a ++ x :: b) d = x.
Proof. intros A a b x d. induction a as [|y a IH]; [reflexivity|]. exact IH. Qed.

Lemma split_trace_short : forall c i shift g t, length g <= 1 ->
  split_trace_from c i shift (g :: t) = split_trace_from c (S i) shift t.
Proof. intros c i shift [|p1 [|p2 ps]] t H; cbn [length] in H; try lia; reflexivity. Qed.
Lemma split_trace_long : forall c i shift g t, 2 <= length g ->
  split_trace_from c i shift (g :: t) =
  WSplit c (i + shift) g :: split_trace_from c (S i) (shift + (length g - 1)) t.
Proof. intros c i shift [|p1 [|p2 ps]] t H; cbn [length] in H; try lia; reflexivity. Qed.

(* the curve is `pre ++ rest`: `pre` are the segments already handled (split or not), `rest`
   the still original segments, one group of pieces for each.  Every step splits a segment of
   the CURRENT curve that is still an original, unsplit segment. *)
Lemma trace_from_CP : forall n c groups rest i shift h pre,
  Inv h -> c < length (hcurves h) -> geom h c = pre ++ rest -> length pre = i + shift ->
  length rest = length groups -> (forall g, In g groups -> pieces_ok g) ->
  (c < n -> Forall2 subdiv rest groups) ->
  forall k, CP n c h (prefix_w k (split_trace_from c i shift groups) h).
Proof.
  intros n c groups. induction groups as [|g t IH]; intros rest i shift h pre HI Hc HG Hpre Hlen Hok Hsd k.
  - cbn [split_trace_from]. rewrite prefix_w_nil. apply CP_refl, HI.
  - destruct rest as [|s rest']; [discriminate Hlen|]. cbn [length] in Hlen.
    assert (Hok' : forall g', In g' t -> pieces_ok g') by (intros; apply Hok; right; assumption).
    assert (Hsd' : c < n -> Forall2 subdiv rest' t)
      by (intros Hn; specialize (Hsd Hn); inversion Hsd; assumption).
    destruct (Nat.le_gt_cases (length g) 1) as [Hshort|Hlong].
    + rewrite split_trace_short by exact Hshort.
      apply (IH rest' (S i) shift h (pre ++ [s])); try assumption.
      * rewrite <- app_assoc. exact HG.
      * rewrite app_length. cbn [length]. lia.
      * lia.
    + rewrite split_trace_long by lia.
      destruct k as [|k]; [rewrite prefix_w_0; apply CP_refl, HI|].
      rewrite prefix_w_S. cbn [apply_w].
      assert (Hnth : nth (i + shift) (geom h c) [] = s) by (rewrite HG, <- Hpre; apply nth_len_app).
      assert (Hi : i + shift < length (geom h c)) by (rewrite HG, app_length; cbn [length]; lia).
      assert (Hg : pieces_ok g) by (apply Hok; left; reflexivity).
      assert (P1 : CP n c h (h_split_segment h c (i + shift) g)).
      { apply split_step_CP; try assumption. intros Hn. rewrite Hnth.
        specialize (Hsd Hn). inversion Hsd; assumption. }
      eapply CP_trans; [exact P1|].
      destruct P1 as ((I1 & _ & _) & _ & L1).
      apply (IH rest' (S i) (shift + (length g - 1)) _ (pre ++ gluev (first_pt s) (last_pt s) g));
        try assumption.
      * rewrite L1. exact Hc.
      * rewrite h_split_segment_geom;
          [|exact HI|exact Hc|rewrite <- geom_length; exact Hi|exact Hg|lia].
        cbv zeta. rewrite Hnth, HG, <- Hpre, firstn_len_app, skipn_S_len_app, <- app_assoc.
        reflexivity.
      * rewrite app_length, gluev_length. lia.
      * lia.
Qed.

Lemma split_groups_CP : forall n h c idx nodes groups,
  Inv h -> c < length (hcurves h) -> (c < n -> all_lines (geom h c) = true) ->
  split_groups (geom h c) idx nodes = Ok groups ->
  forall k, CP n c h (prefix_w k (split_trace c groups) h).
Proof.
  intros n h c idx nodes groups HI Hc Hl H k.
  destruct (split_groups_spec _ _ _ _ H) as [Len Ok_].
  destruct (Inv_geom_jgood h c HI) as [Sok _].
  apply (trace_from_CP n c groups (geom h c) 0 0 h []); try assumption; try reflexivity.
  - symmetry. exact Len.
  - apply Ok_, Sok.
  - intros Hn. eapply split_groups_subdiv; [apply Hl, Hn | exact H].
Qed.

(* C2 *)
Theorem split_prefix_safe : forall h c idx nodes groups k,
  Inv h -> c < length (hcurves h) -> all_lines (geom h c) = true ->
  split_groups (geom h c) idx nodes = Ok groups ->
  let h' := prefix_w k (split_trace c groups) h in
  Inv h' /\ length (hcurves h') = length (hcurves h) /\
  (forall c', c' <> c -> c' < length (hcurves h) -> geom h' c' = geom h c') /\
  all_lines (geom h' c) = true /\
  closed_chain (geom h' c) = true /\
  (forall p, wn_lines (geom h' c) p = wn_lines (geom h c) p) /\
  (jordan_area (geom h' c) == jordan_area (geom h c))%Q /\
  (forall p, on_boundary (geom h' c) p = on_boundary (geom h c) p).
Proof.
  intros h c idx nodes groups k HI Hc Hl H h'.
  destruct (split_groups_CP (S c) h c idx nodes groups HI Hc (fun _ => Hl) H k)
    as ((I1 & _ & G) & M1 & L1). fold h' in I1, G, M1, L1.
  destruct (G c ltac:(lia) Hc) as (A & W & R & B).
  split; [exact I1|]. split; [exact L1|]. split.
  - intros c' Hne Hc'. apply (modifies_geom (eq c) h _ c' M1 HI); [congruence | exact Hc'].
  - split; [congruence|]. split; [apply (Inv_geom_jgood _ c I1)|]. split; [exact W|]. split; assumption.
Qed.

(* ------------------------------------------------------------------ *)
(* 8. C4: every prefix of the writes of an operator is safe            *)
(* ------------------------------------------------------------------ *)
(* the state while an operator runs: n = number of curves when it was called; L = the operand
   curves: they exist since the call and consist of straight segments *)
Definition St (n : nat) (L : nat -> Prop) (h : heap) : Prop :=
  Inv h /\ n <= length (hcurves h) /\ forall c, L c -> c < n /\ all_lines (geom h c) = true.
Lemma St_step : forall n L h h', St n L h -> SafeN n h h' -> St n L h'.
Proof.
  intros n L h h' (HI & Hn & HL) (I1 & L1 & G1). split; [exact I1|]. split; [lia|].
  intros c Hc. destruct (HL c Hc) as [Hlt Hl]. split; [exact Hlt|].
  destruct (G1 c Hlt ltac:(lia)) as (A & _). congruence.
Qed.
(* a curve that may be split now: an operand, or an object allocated since the call *)
Definition okc (n : nat) (L : nat -> Prop) (h : heap) (c : nat) : Prop :=
  c < length (hcurves h) /\ (c < n -> L c).
Lemma okc_step : forall n L h h' c, okc n L h c -> SafeN n h h' -> okc n L h' c.
Proof. intros n L h h' c [H1 H2] (_ & L1 & _). split; [lia | exact H2]. Qed.
Definition pairs_ok (n : nat) (L : nat -> Prop) (h : heap) (pairs : list (nat * nat)) : Prop :=
  forall p, In p pairs -> fst p <> snd p /\ okc n L h (fst p) /\ okc n L h (snd p).

Lemma curve_trace_safe : forall n h c idx nodes groups,
  Inv h -> c < length (hcurves h) -> (c < n -> all_lines (geom h c) = true) ->
  split_groups (geom h c) idx nodes = Ok groups -> SafeTrace n (split_trace c groups) h.
Proof. intros n h c idx nodes groups HI Hc Hl H k. eapply split_groups_CP; eassumption. Qed.

Lemma okc_lines : forall n L h c, St n L h -> okc n L h c -> c < n -> all_lines (geom h c) = true.
Proof. intros n L h c (_ & _ & HL) [_ H] Hn. apply HL, H, Hn. Qed.

Lemma two_traces_safe : forall n L h ca cb ia na ga ib nb gb,
  St n L h -> ca <> cb -> okc n L h ca -> okc n L h cb ->
  split_groups (geom h ca) ia na = Ok ga -> split_groups (geom h cb) ib nb = Ok gb ->
  SafeTrace n (split_trace ca ga ++ split_trace cb gb) h.
Proof.
  intros n L h ca cb ia na ga ib nb gb HS Hne Ha Hb Ea Eb. pose proof HS as (HI & Hn & HL).
  destruct Ha as [Ha1 Ha2]. pose proof Hb as [Hb1 Hb2].
  assert (forall k, CP n ca h (prefix_w k (split_trace ca ga) h)) as P.
  { intros k. eapply split_groups_CP; try eassumption. intros Hlt. apply HL, Ha2, Hlt. }
  apply SafeTrace_app; [intros k; apply P|].
  pose proof (P (length (split_trace ca ga))) as Pfull. rewrite prefix_w_all in Pfull by lia.
  destruct Pfull as ((I1 & _ & _) & M1 & L1).
  assert (geom (run_w (split_trace ca ga) h) cb = geom h cb) as G
    by (apply (modifies_geom (eq ca) h _ cb M1 HI); [exact Hne | exact Hb1]).
  eapply curve_trace_safe; [exact I1 | rewrite L1; exact Hb1 | | rewrite G; exact Eb].
  intros Hlt. rewrite G. apply HL, Hb2, Hlt.
Qed.

Lemma split_two_ptrace_safe : forall n L h ca cb,
  St n L h -> ca <> cb -> okc n L h ca -> okc n L h cb ->
  SafeTrace n (fst (split_two_ptrace h ca cb)) h.
Proof.
  intros n L h ca cb HS Hne Ha Hb. pose proof HS as (HI & Hn & HL). unfold split_two_ptrace.
  destruct (two_params h ca cb) as [[[pa pb]|]| |]; try (apply SafeTrace_nil, HI).
  destruct (split_groups (geom h ca) (map fst pa) (map snd pa)) as [ga| |] eqn:Ea;
    try (apply SafeTrace_nil, HI).
  assert (SafeTrace n (split_trace ca ga) h) as Sa.
  { destruct Ha as [Ha1 Ha2]. eapply curve_trace_safe; try eassumption. intros Hlt. apply HL, Ha2, Hlt. }
  destruct (split_groups (geom h cb) (map fst pb) (map snd pb)) as [gb| |] eqn:Eb; cbn [fst];
    try exact Sa.
  eapply two_traces_safe; eassumption.
Qed.
Lemma split_two_trace_ptrace : forall h ca cb ws,
  split_two_trace h ca cb = Ok ws -> split_two_ptrace h ca cb = (ws, true).
Proof.
  intros h ca cb ws H. unfold split_two_trace in H. unfold split_two_ptrace.
  inv_bind H. rewrite Hv. destruct v as [[pa pb]|]; [|inversion H; reflexivity].
  inv_bind H. rewrite Hv0. inv_bind H. rewrite Hv1. inversion H. reflexivity.
Qed.

Lemma pairs_ptrace_safe : forall n L pairs h, St n L h -> pairs_ok n L h pairs ->
  SafeTrace n (fst (pairs_ptrace h pairs)) h.
Proof.
  intros n L pairs. induction pairs as [|[ca cb] t IH]; intros h HS Hp; cbn [pairs_ptrace].
  - apply SafeTrace_nil, HS.
  - destruct (Hp (ca, cb) ltac:(left; reflexivity)) as (Hne & Ha & Hb). cbn [fst snd] in *.
    pose proof (split_two_ptrace_safe n L h ca cb HS Hne Ha Hb) as S1.
    destruct (split_two_ptrace h ca cb) as [st ok]. cbn [fst] in S1.
    destruct ok; [|exact S1].
    pose proof (SafeTrace_run _ _ _ S1) as R1.
    assert (SafeTrace n (fst (pairs_ptrace (run_w st h) t)) (run_w st h)) as S2.
    { apply IH; [eapply St_step; eassumption|]. intros p Hin.
      destruct (Hp p ltac:(right; exact Hin)) as (N & A & B).
      split; [exact N|]. split; eapply okc_step; eassumption. }
    destruct (pairs_ptrace (run_w st h) t) as [rest ok']. cbn [fst] in *.
    apply SafeTrace_app; assumption.
Qed.
Lemma pairs_trace_ptrace : forall pairs h ws,
  pairs_trace h pairs = Ok ws -> pairs_ptrace h pairs = (ws, true).
Proof.
  induction pairs as [|[ca cb] t IH]; intros h ws H; cbn [pairs_trace pairs_ptrace] in *.
  - inversion H. reflexivity.
  - inv_bind H. rewrite (split_two_trace_ptrace _ _ _ _ Hv). inv_bind H.
    rewrite (IH _ _ Hv0). inversion H. reflexivity.
Qed.

Lemma alloc_stage : forall n L h s h' sx, St n L h -> segs_ok (jordans s) ->
  alloc_shape h s = (h', sx) ->
  SafeN n h h' /\ St n L h' /\
  (forall c, In c (hcurves_of sx) -> length (hcurves h) <= c < length (hcurves h')).
Proof.
  intros n L h s h' sx HS Hok E. pose proof HS as (HI & _).
  pose proof (alloc_SafeN n h s HI Hok) as S1. cbn [apply_w] in S1. rewrite E in S1. cbn [fst] in S1.
  split; [exact S1|]. split; [eapply St_step; eassumption|].
  destruct (alloc_shape_spec _ _ _ _ HI Hok E) as (_ & _ & _ & _ & R & _). exact R.
Qed.

Lemma half_pairs_ok : forall n L h cx fresh, St n L h ->
  (forall c, In c cx -> L c) -> (forall c, In c fresh -> n <= c < length (hcurves h)) ->
  pairs_ok n L h (all_pairs cx fresh).
Proof.
  intros n L h cx fresh (_ & Hn & HL) Hx Hf p Hp. apply in_all_pairs in Hp. destruct Hp as [P1 P2].
  destruct (HL _ (Hx _ P1)) as [Hlt _]. specialize (Hf _ P2). split; [lia|]. split.
  - split; [lia|]. intros _. apply Hx, P1.
  - split; [lia|]. intros; lia.
Qed.

Lemma half_ptrace_safe : forall n L h cx fa b, St n L h -> good (jordans b) ->
  (forall c, In c cx -> L c) -> SafeTrace n (fst (half_ptrace h cx fa b)) h.
Proof.
  intros n L h cx fa b HS Gb Hx. pose proof HS as (HI & Hn & _). unfold half_ptrace.
  destruct (op_not b) as [nb| |] eqn:En; try (apply SafeTrace_nil, HI).
  assert (segs_ok (jordans nb)) as Hok by (destruct (op_not_good _ _ En Gb) as [_ [K _]]; exact K).
  destruct (alloc_shape h nb) as [h' nbx] eqn:Ea.
  destruct (alloc_stage n L h nb h' nbx HS Hok Ea) as (S1 & HS' & Hfresh).
  assert (apply_w (WAlloc nb) h = h') as Eh by (cbn [apply_w]; rewrite Ea; reflexivity).
  assert (forall t, SafeTrace n t h' -> SafeTrace n (WAlloc nb :: t) h) as K.
  { intros t Ht. apply SafeTrace_cons; rewrite ?Eh; assumption. }
  destruct (shortcut BAnd (fa h') nb) as [s2| |]; cbn [fst];
    try (apply K, SafeTrace_nil, HS').
  assert (SafeTrace n (fst (opt_ptrace s2 h' (all_pairs cx (hcurves_of nbx)))) h') as S2.
  { unfold opt_ptrace. destruct s2; [apply SafeTrace_nil, HS'|].
    eapply pairs_ptrace_safe; [exact HS'|]. apply half_pairs_ok; try assumption.
    intros c Hc. specialize (Hfresh c Hc). lia. }
  destruct (opt_ptrace s2 h' (all_pairs cx (hcurves_of nbx))) as [t1 ok]. cbn [fst] in *.
  apply K, S2.
Qed.
Lemma half_trace_ptrace : forall h cx fa b ws,
  half_trace h cx fa b = Ok ws -> half_ptrace h cx fa b = (ws, true).
Proof.
  intros h cx fa b ws H. unfold half_trace in H. unfold half_ptrace.
  inv_bind H. rewrite Hv. destruct (alloc_shape h v) as [h' nbx]. inv_bind H. rewrite Hv0.
  inv_bind H. unfold opt_ptrace. destruct v0.
  - inversion Hv1; subst. inversion H. reflexivity.
  - rewrite (pairs_trace_ptrace _ _ _ Hv1). inversion H. reflexivity.
Qed.

Definition opL (x y : hshape) (c : nat) : Prop := In c (hcurves_of x) \/ In c (hcurves_of y).

Lemma mid_ptrace_safe : forall o h x y,
  St (length (hcurves h)) (opL x y) h ->
  (o = BOr \/ o = BAnd -> forall c, In c (hcurves_of x) -> ~ In c (hcurves_of y)) ->
  SafeTrace (length (hcurves h)) (fst (binop_mid_ptrace o h x y)) h.
Proof.
  intros o h x y HS Hd. set (n := length (hcurves h)) in *. pose proof HS as (HI & Hn & HL).
  assert (o = BOr \/ o = BAnd ->
          pairs_ok n (opL x y) h (all_pairs (hcurves_of x) (hcurves_of y))) as Hpo.
  { intros Ho p Hp. apply in_all_pairs in Hp. destruct Hp as [P1 P2].
    destruct (HL (fst p) (or_introl P1)) as [A1 _]. destruct (HL (snd p) (or_intror P2)) as [A2 _].
    split; [|split; (split; [assumption|intros _; unfold opL; auto])].
    intros E. apply (Hd Ho (fst p) P1). rewrite E. exact P2. }
  assert (forall h', Inv h' -> good (jordans (denot h' y)) /\ good (jordans (denot h' x))) as Gd
    by (intros h' I'; split; apply denot_good, I').
  destruct o; cbn [binop_mid_ptrace].
  - apply pairs_ptrace_safe with (L := opL x y); auto.
  - apply pairs_ptrace_safe with (L := opL x y); auto.
  - apply half_ptrace_safe with (L := opL x y); [exact HS | apply Gd, HI | intros c Hc; left; exact Hc].
  - pose proof (half_ptrace_safe n (opL x y) h (hcurves_of x) (fun _ => denot h x) (denot h y) HS
                  (proj1 (Gd h HI)) (fun c Hc => or_introl Hc)) as S1.
    destruct (half_ptrace h (hcurves_of x) (fun _ => denot h x) (denot h y)) as [t1 ok].
    cbn [fst] in S1. destruct ok; [|exact S1].
    pose proof (SafeTrace_run _ _ _ S1) as R1.
    pose proof (St_step _ _ _ _ HS R1) as HS2. pose proof HS2 as (I2 & _).
    pose proof (half_ptrace_safe n (opL x y) (run_w t1 h) (hcurves_of y) (fun h3 => denot h3 y)
                  (denot (run_w t1 h) x) HS2 (proj2 (Gd _ I2)) (fun c Hc => or_intror Hc)) as S2.
    destruct (half_ptrace (run_w t1 h) (hcurves_of y) (fun h3 => denot h3 y) (denot (run_w t1 h) x))
      as [t2 ok2]. cbn [fst] in *. apply SafeTrace_app; assumption.
Qed.

Lemma mid_trace_ptrace : forall o h x y ws,
  binop_mid_trace o h x y = Ok ws -> binop_mid_ptrace o h x y = (ws, true).
Proof.
  intros o h x y ws H. destruct o; cbn [binop_mid_trace binop_mid_ptrace] in *.
  - apply pairs_trace_ptrace, H.
  - apply pairs_trace_ptrace, H.
  - apply half_trace_ptrace, H.
  - inv_bind H. rewrite (half_trace_ptrace _ _ _ _ _ Hv). inv_bind H.
    rewrite (half_trace_ptrace _ _ _ _ _ Hv0). inversion H. reflexivity.
Qed.
Theorem binop_trace_ptrace : forall o h x y ws,
  binop_trace o h x y = Ok ws -> binop_ptrace o h x y = (ws, true).
Proof.
  intros o h x y ws H. unfold binop_trace in H. unfold binop_ptrace.
  inv_bind H. rewrite Hv. inv_bind H. rewrite Hv0. inv_bind H. destruct v0.
  - inversion Hv1; subst. inversion H. reflexivity.
  - rewrite (mid_trace_ptrace _ _ _ _ _ Hv1). inversion H. reflexivity.
Qed.

(* the hypotheses on the state an operator is called in (they hold in every reachable state
   whose operands are polygons: HInv of HeapFacts.v gives the first three) *)
Record call_ok (o : bop) (h : heap) (x y : hshape) : Prop := mk_call_ok {
  co_inv : Inv h;
  co_range : forall c, In c (hcurves_of x ++ hcurves_of y) -> c < length (hcurves h);
  co_lines : forall c, In c (hcurves_of x ++ hcurves_of y) -> all_lines (geom h c) = true;
  (* | and & split both operands against each other: two different shapes *)
  co_sep : o = BOr \/ o = BAnd -> forall c, In c (hcurves_of x) -> ~ In c (hcurves_of y) }.

Lemma call_ok_St : forall o h x y, call_ok o h x y -> St (length (hcurves h)) (opL x y) h.
Proof.
  intros o h x y [HI Hr Hl _]. split; [exact HI|]. split; [lia|].
  intros c Hc. assert (In c (hcurves_of x ++ hcurves_of y)) as Hin by (apply in_or_app; exact Hc).
  split; [apply Hr, Hin | apply Hl, Hin].
Qed.

(* C4 for the writes performed until an internal error or completion *)
Theorem binop_ptrace_safe : forall o h x y, call_ok o h x y ->
  SafeTrace (length (hcurves h)) (fst (binop_ptrace o h x y)) h.
Proof.
  intros o h x y Hok. pose proof (call_ok_St _ _ _ _ Hok) as HS. pose proof HS as (HI & _).
  set (n := length (hcurves h)) in *. unfold binop_ptrace.
  destruct (mv_op o (denot h x) (denot h y)) as [r| |] eqn:Er; try (apply SafeTrace_nil, HI).
  destruct (shortcut o (denot h x) (denot h y)) as [sc| |]; try (apply SafeTrace_nil, HI).
  assert (SafeTrace n (fst (if sc then ([], true) else binop_mid_ptrace o h x y)) h) as S1.
  { destruct sc; [apply SafeTrace_nil, HI|]. apply mid_ptrace_safe; [exact HS | apply (co_sep _ _ _ _ Hok)]. }
  destruct (if sc then ([], true) else binop_mid_ptrace o h x y) as [w1 ok]. cbn [fst] in S1.
  destruct ok; [|exact S1]. cbn [fst].
  pose proof (SafeTrace_run _ _ _ S1) as R1. pose proof R1 as (I1 & _).
  apply SafeTrace_app; [exact S1|]. apply SafeTrace_app; [apply SafeTrace_fills, I1|].
  assert (segs_ok (jordans r)) as Hr
    by (destruct (mv_op_good _ _ _ _ Er (denot_good h x HI) (denot_good h y HI)) as [K _]; exact K).
  rewrite fill_trace_run.
  assert (Inv (h_fill_all (run_w w1 h) (hcurves_of x ++ hcurves_of y))) as I2 by (apply h_fill_all_Inv, I1).
  apply SafeTrace_cons; [exact I2 | apply alloc_SafeN; assumption|].
  apply SafeTrace_nil. eapply (alloc_SafeN 0); eassumption.
Qed.

(* the statement, unfolded *)
Definition crash_safe_at (h h' : heap) : Prop :=
  Inv h' /\
  forall c, c < length (hcurves h) ->
    (forall p, wn_lines (geom h' c) p = wn_lines (geom h c) p) /\
    (jordan_area (geom h' c) == jordan_area (geom h c))%Q /\
    all_lines (geom h' c) = all_lines (geom h c) /\
    closed_chain (geom h' c) = true /\
    (forall p, on_boundary (geom h' c) p = on_boundary (geom h c) p).
Lemma SafeN_crash_safe : forall h h', SafeN (length (hcurves h)) h h' -> crash_safe_at h h'.
Proof.
  intros h h' (I1 & _ & G). split; [exact I1|]. intros c Hc.
  destruct (G c Hc Hc) as (A & W & R & B).
  split; [exact W|]. split; [exact R|]. split; [exact A|]. split; [apply (Inv_geom_jgood _ c I1) | exact B].
Qed.

(* C4: whatever prefix of the writes has happened when the exception surfaces, every
   pre-existing curve (operands included) has the same winding number about every point, the
   same area and orientation, the same point set *)
Theorem binop_crash_safe : forall o h x y ws, call_ok o h x y ->
  binop_trace o h x y = Ok ws ->
  forall k, crash_safe_at h (prefix_w k ws h).
Proof.
  intros o h x y ws Hok H k. apply SafeN_crash_safe.
  pose proof (binop_ptrace_safe o h x y Hok) as S. rewrite (binop_trace_ptrace _ _ _ _ _ H) in S.
  apply S.
Qed.
(* the same when the operator fails in the middle: the trace is what was written until then *)
Theorem binop_crash_safe_partial : forall o h x y, call_ok o h x y ->
  forall k, crash_safe_at h (prefix_w k (fst (binop_ptrace o h x y)) h).
Proof. intros o h x y Hok k. apply SafeN_crash_safe. apply binop_ptrace_safe, Hok. Qed.

(* hence every query about a pre-existing polygon is answered as before *)
Corollary crash_safe_region : forall h h' c, Inv h -> crash_safe_at h h' ->
  c < length (hcurves h) -> all_lines (geom h c) = true ->
  forall p, region_simple (geom h' c) p = region_simple (geom h c) p.
Proof.
  intros h h' c HI [I1 G] Hc Hl p. destruct (G c Hc) as (W & R & A & C & B).
  apply jsame_region; [|apply (Inv_geom_jgood _ c HI)|exact C|exact Hl].
  split; [exact A|]. split; [exact W|]. split; assumption.
Qed.
Corollary binop_crash_region : forall o h x y ws k c p, call_ok o h x y ->
  binop_trace o h x y = Ok ws -> In c (hcurves_of x ++ hcurves_of y) ->
  region_simple (geom (prefix_w k ws h) c) p = region_simple (geom h c) p.
Proof.
  intros o h x y ws k c p Hok H Hc.
  apply crash_safe_region; [apply (co_inv _ _ _ _ Hok) | eapply binop_crash_safe; eassumption| |].
  - apply (co_range _ _ _ _ Hok), Hc.
  - apply (co_lines _ _ _ _ Hok), Hc.
Qed.

(* the operands stay polygons, in the literal form of the property *)
Corollary binop_crash_operands : forall o h x y ws k c, call_ok o h x y ->
  binop_trace o h x y = Ok ws -> In c (hcurves_of x ++ hcurves_of y) ->
  let h' := prefix_w k ws h in
  Inv h' /\ all_lines (geom h' c) = true /\ closed_chain (geom h' c) = true /\
  (forall p, wn_lines (geom h' c) p = wn_lines (geom h c) p) /\
  (jordan_area (geom h' c) == jordan_area (geom h c))%Q /\
  jordan_pos (geom h' c) = jordan_pos (geom h c) /\
  (forall p, on_boundary (geom h' c) p = on_boundary (geom h c) p).
Proof.
  intros o h x y ws k c Hok H Hc h'.
  destruct (binop_crash_safe o h x y ws Hok H k) as [I1 G]. fold h' in I1, G.
  destruct (G c (co_range _ _ _ _ Hok c Hc)) as (W & R & A & C & B).
  split; [exact I1|]. split; [rewrite A; apply (co_lines _ _ _ _ Hok), Hc|]. split; [exact C|].
  split; [exact W|]. split; [exact R|]. split; [|exact B].
  unfold jordan_pos, Qlt_bool. f_equal. apply Qleb_comp; [exact R | reflexivity].
Qed.

(* the other non-mutating operations: ~ and copy allocate, queries fill caches *)
Theorem not_trace_run : forall h x h' z, h_not h x = Ok (h', z) ->
  exists ws, not_trace h x = Ok ws /\ run_w ws h = h'.
Proof.
  intros h x h' z H. unfold h_not in H. unfold not_trace. inv_bind H. rewrite Hv. cbn [bind].
  exists [WAlloc v]. split; [reflexivity|]. rewrite run_w_cons. cbn [apply_w]. rewrite run_w_nil.
  inversion H as [Ha]. rewrite Ha. reflexivity.
Qed.
Theorem copy_trace_run : forall h x h' z, h_copy h x = Ok (h', z) ->
  exists ws, copy_trace h x = Ok ws /\ run_w ws h = h'.
Proof.
  intros h x h' z H. unfold h_copy in H. unfold copy_trace. inv_bind H. rewrite Hv. cbn [bind].
  exists [WAlloc v]. split; [reflexivity|]. rewrite run_w_cons. cbn [apply_w]. rewrite run_w_nil.
  inversion H as [Ha]. rewrite Ha. reflexivity.
Qed.
Theorem contains_trace_run : forall h x p b,
  run_w (contains_trace x) h = fst (h_contains_point h x p b).
Proof. intros. unfold contains_trace. rewrite fill_trace_run. reflexivity. Qed.

Lemma alloc_trace_safe : forall h s, Inv h -> segs_ok (jordans s) ->
  forall k, crash_safe_at h (prefix_w k [WAlloc s] h).
Proof.
  intros h s HI Hok k. apply SafeN_crash_safe. revert k.
  change (SafeTrace (length (hcurves h)) [WAlloc s] h).
  apply SafeTrace_cons.
  - exact HI.
  - apply alloc_SafeN; assumption.
  - apply SafeTrace_nil. eapply (alloc_SafeN 0); eassumption.
Qed.
Theorem not_crash_safe : forall h x ws, Inv h -> not_trace h x = Ok ws ->
  forall k, crash_safe_at h (prefix_w k ws h).
Proof.
  intros h x ws HI H. unfold not_trace in H. inv_bind H. inversion H; subst.
  apply alloc_trace_safe; [exact HI|].
  destruct (op_not_good _ _ Hv (denot_good h x HI)) as [_ [K _]]. exact K.
Qed.
Theorem copy_crash_safe : forall h x ws, Inv h -> copy_trace h x = Ok ws ->
  forall k, crash_safe_at h (prefix_w k ws h).
Proof.
  intros h x ws HI H. unfold copy_trace in H. inv_bind H. inversion H; subst.
  apply alloc_trace_safe; [exact HI|].
  destruct (copy_shape_good _ _ Hv (denot_good h x HI)) as [_ [K _]]. exact K.
Qed.
Theorem contains_crash_safe : forall h x, Inv h ->
  forall k, crash_safe_at h (prefix_w k (contains_trace x) h).
Proof. intros h x HI k. apply SafeN_crash_safe. apply SafeTrace_fills, HI. Qed.

(* ------------------------------------------------------------------ *)
(* 9. C5: the in-place transformations validate before they mutate     *)
(* ------------------------------------------------------------------ *)
Lemma run_t_app : forall a b h, run_t (a ++ b) h = run_t b (run_t a h).
Proof. intros. unfold run_t. apply fold_left_app. Qed.
Lemma run_t_pts : forall f ls h,
  run_t (pts_steps f ls h) h = fold_left (fun h' l => set_pt h' l (f (pval h' l))) ls h.
Proof. intros f ls. induction ls as [|l t IH]; intros h; [reflexivity|]. cbn [pts_steps fold_left]. apply IH. Qed.
Lemma run_t_curve : forall f reset h c,
  run_t (curve_steps f reset h c) h =
  (if reset then reset_cache (map_curve_pts f h c) c else map_curve_pts f h c).
Proof.
  intros f reset h c. unfold curve_steps. rewrite run_t_app, run_t_pts. fold (map_curve_pts f h c).
  destruct reset; reflexivity.
Qed.
Lemma run_t_shape : forall f reset cs h,
  run_t (shape_steps f reset cs h) h =
  fold_left (fun h' c => if reset then reset_cache (map_curve_pts f h' c) c else map_curve_pts f h' c) cs h.
Proof.
  intros f reset cs. induction cs as [|c t IH]; intros h; [reflexivity|].
  cbn [shape_steps fold_left]. rewrite run_t_app, IH, run_t_curve. reflexivity.
Qed.

(* when validation succeeds, the emitted writes are exactly what the transformation does *)
Theorem t_move_steps_run : forall a b h x h', t_move a b h x = Ok h' ->
  run_t (t_move_steps a b h x) h = h'.
Proof.
  intros a b h x h' H. unfold t_move in H. unfold t_move_steps. inv_bind H. inv_bind H.
  rewrite Hv, Hv0. inversion H. rewrite run_t_shape. reflexivity.
Qed.
Theorem t_scale_steps_run : forall a b h x h', t_scale a b h x = Ok h' ->
  run_t (t_scale_steps a b h x) h = h'.
Proof.
  intros a b h x h' H. unfold t_scale in H. unfold t_scale_steps. inv_bind H. inv_bind H.
  rewrite Hv, Hv0. inversion H. rewrite run_t_shape. reflexivity.
Qed.
Theorem t_rotate_steps_run : forall c s h x h', t_rotate c s h x = Ok h' ->
  run_t (t_rotate_steps c s h x) h = h'.
Proof.
  intros c s h x h' H. unfold t_rotate in H. unfold t_rotate_steps. inv_bind H. inv_bind H.
  rewrite Hv, Hv0. inversion H. rewrite run_t_shape. reflexivity.
Qed.

(* a rejected argument: the call raises and NO write step has been emitted *)
Lemma num_of_fuel : forall a, num_of a <> NoFuel.
Proof. intros [] H; discriminate. Qed.
Theorem t_move_rejects : forall a b h x k, num_of a = Err k \/ num_of b = Err k ->
  t_move_steps a b h x = [] /\ exists k', t_move a b h x = Err k'.
Proof.
  intros a b h x k [E|E]; unfold t_move_steps, t_move.
  - rewrite E. split; [reflexivity | exists k; reflexivity].
  - rewrite E. pose proof (num_of_fuel a) as F.
    destruct (num_of a) as [q|k'|]; cbn [bind]; (split; [reflexivity|]); eauto. congruence.
Qed.
Lemma num_of_float_fuel : forall a, num_of_float a <> NoFuel.
Proof. intros [] H; discriminate. Qed.
Theorem t_scale_rejects : forall a b h x k, num_of_float a = Err k \/ num_of_float b = Err k ->
  t_scale_steps a b h x = [] /\ exists k', t_scale a b h x = Err k'.
Proof.
  intros a b h x k [E|E]; unfold t_scale_steps, t_scale.
  - rewrite E. split; [reflexivity | exists k; reflexivity].
  - rewrite E. pose proof (num_of_float_fuel a) as F.
    destruct (num_of_float a) as [q|k'|]; cbn [bind]; (split; [reflexivity|]); eauto. congruence.
Qed.
Theorem t_rotate_rejects : forall c s h x k, num_of_float c = Err k \/ num_of_float s = Err k ->
  t_rotate_steps c s h x = [] /\ exists k', t_rotate c s h x = Err k'.
Proof.
  intros c s h x k [E|E]; unfold t_rotate_steps, t_rotate.
  - rewrite E. split; [reflexivity | exists k; reflexivity].
  - rewrite E. pose proof (num_of_float_fuel c) as F.
    destruct (num_of_float c) as [q|k'|]; cbn [bind]; (split; [reflexivity|]); eauto. congruence.
Qed.
(* conversely a transformation that returns has validated both arguments *)
Theorem t_scale_ok_validated : forall a b h x h', t_scale a b h x = Ok h' ->
  exists qa qb, num_of_float a = Ok qa /\ num_of_float b = Ok qb /\ h' = h_scale qa qb h x.
Proof.
  intros a b h x h' H. unfold t_scale in H. inv_bind H. inv_bind H. inversion H. eauto.
Qed.

Example num_of_numstr : forall q, num_of (PNumStr q) = Err EType.
Proof. reflexivity. Qed.
Example num_of_str : num_of PStr = Err EType /\ num_of PNone = Err EType /\ num_of PList = Err EType.
Proof. repeat split. Qed.
Example num_of_float_str : num_of_float PStr = Err EValue /\ (forall q, num_of_float (PNumStr q) = Err EType)
  /\ num_of_float PNone = Err EType /\ num_of_float PList = Err EType.
Proof. repeat split. Qed.
Example num_of_accepts : forall q, num_of (PNum q) = Ok q /\ num_of (PBool true) = Ok 1%Q
  /\ num_of (PBool false) = Ok 0%Q.
Proof. repeat split. Qed.

(* ----- refutation witness for the UNREPAIRED scale ----- *)
(* a unit square with its first vertex at (1, 1) (at the origin the first write, x := 2 * 0,
   would not be visible) *)
Definition sq11 : jordan :=
  [[(1, 1); (2, 1)]; [(2, 1); (2, 2)]; [(2, 2); (1, 2)]; [(1, 2); (1, 1)]]%Q.
Example unrepaired_scale_refuted :
  let '(h, x) := h_new hempty (SC (CS sq11)) in
  (* old code: float("3") passes; x of the first vertex is written, then y *= "3" raises *)
  t_scale_unrepaired (PNum 2) (PNumStr 3) h x = ([CX 0 2%Q], Err EType) /\
  geom (run_c [CX 0 2%Q] h) 0 =
    [[(2, 1); (2, 1)]; [(2, 1); (2, 2)]; [(2, 2); (1, 2)]; [(1, 2); (2, 1)]]%Q /\
  geom (run_c [CX 0 2%Q] h) 0 <> geom h 0 /\
  (* repaired code: the same call raises the same error and writes nothing *)
  t_scale (PNum 2) (PNumStr 3) h x = Err EType /\
  t_scale_steps (PNum 2) (PNumStr 3) h x = [] /\
  (* ... and a valid call writes every vertex once and resets the cache *)
  t_scale_steps (PNum 2) (PNum 3) h x =
    [TPt 0%nat (2, 3); TPt 1%nat (4, 3); TPt 2%nat (4, 6); TPt 3%nat (2, 6); TReset 0%nat]%Q.
Proof. vm_compute. repeat split. intros H; discriminate H. Qed.

(* ------------------------------------------------------------------ *)
(* 10. non-vacuity                                                     *)
(* ------------------------------------------------------------------ *)
(* A = [0,2]^2 and B = [1,3]^2 *)
Definition ex_state : heap * hshape * hshape :=
  let '(h1, x) := h_new hempty sqA in let '(h2, y) := h_new h1 sqB in (h2, x, y).
Definition safe_check (h : heap) (ws : list wstep) (k : nat) : bool :=
  let h' := prefix_w k ws h in
  heap_wf h' &&
  Qeq_bool (jordan_area (geom h' 0)) 4 && Qeq_bool (jordan_area (geom h' 1)) 4 &&
  (wn_lines (geom h' 0) (1 # 2, 1 # 2)%Q =? 1)%Z && (wn_lines (geom h' 1) (5 # 2, 5 # 2)%Q =? 1)%Z &&
  (wn_lines (geom h' 0) (5 # 2, 5 # 2)%Q =? 0)%Z && all_lines (geom h' 0) && all_lines (geom h' 1).
Example crash_nonvacuous :
  let '(h, x, y) := ex_state in
  match binop_trace BOr h x y, binop_trace BXor h x y with
  | Ok ws, Ok wx =>
      (* 2 splits of A, 2 of B, 2 cache fills, 1 allocation *)
      count_kinds ws = (4, 2, 1) /\
      map (fun w => match w with WSplit c i p => (c, i, length p) | _ => (9, 9, 9) end) (firstn 4 ws)
        = [(0, 1, 2); (0, 3, 2); (1, 0, 2); (1, 4, 2)] /\
      forallb (safe_check h ws) (seq 0 (S (length ws))) = true /\
      (* ^ : 3 allocations (~B, ~A, result), 6 splits *)
      count_kinds wx = (6, 2, 3) /\
      forallb (safe_check h wx) (seq 0 (S (length wx))) = true /\
      binop_ptrace BOr h x y = (ws, true) /\
      (* the trace is what h_binop executes *)
      option_map fst (match h_binop BOr h x y with Ok r => Some r | _ => None end) = Some (run_w ws h)
  | _, _ => False
  end.
Proof. vm_compute. repeat split. Qed.

Example call_ok_nonvacuous :
  let '(h, x, y) := ex_state in call_ok BOr h x y /\ call_ok BXor h x y.
Proof.
  assert (forall o, call_ok o (fst (fst ex_state)) (snd (fst ex_state)) (snd ex_state)) as K.
  { intros o. split.
    - apply heap_wf_Inv. vm_compute. reflexivity.
    - intros c Hc. vm_compute in Hc. destruct Hc as [<-|[<-|[]]]; vm_compute; lia.
    - intros c Hc. vm_compute in Hc. destruct Hc as [<-|[<-|[]]]; vm_compute; reflexivity.
    - intros _ c Hc Hc'. vm_compute in Hc, Hc'. destruct Hc as [<-|[]]. destruct Hc' as [E|[]]. discriminate E. }
  split; apply K.
Qed.

Print Assumptions split_trace_run.
Print Assumptions binop_trace_run.
Print Assumptions split_segment_safe.
Print Assumptions split_prefix_safe.
Print Assumptions fill_keeps_geom.
Print Assumptions alloc_keeps_geom.
Print Assumptions binop_ptrace_safe.
Print Assumptions binop_crash_safe.
Print Assumptions binop_crash_safe_partial.
Print Assumptions binop_crash_region.
Print Assumptions binop_crash_operands.
Print Assumptions not_crash_safe.
Print Assumptions copy_crash_safe.
Print Assumptions contains_crash_safe.
Print Assumptions t_move_rejects.
Print Assumptions t_scale_rejects.
Print Assumptions t_rotate_rejects.
Print Assumptions t_scale_steps_run.
Print Assumptions unrepaired_scale_refuted.
Print Assumptions crash_nonvacuous.
Print Assumptions call_ok_nonvacuous.
