(* Winding.v -- facts about the signed-crossing winding number [cr]/[wn_lines],
   a triangle characterisation, and the containment theorem for polygonal shapes. *)
From Coq Require Import QArith Lqa Lia ZArith List Bool.
From SV Require Import Spec.Spec.
Import ListNotations.
Open Scope Q_scope.

(* ---------- boolean comparisons ---------- *)
Lemma Qle_bool_false a b : Qle_bool a b = false -> b < a.
Proof.
  intro H. destruct (Qlt_le_dec b a) as [L|L]; auto.
  apply Qle_bool_iff in L. congruence.
Qed.

Lemma Qle_bool_ext a b a' b' : (a <= b <-> a' <= b') -> Qle_bool a b = Qle_bool a' b'.
Proof.
  intro H. destruct (Qle_bool a b) eqn:E; destruct (Qle_bool a' b') eqn:E'; auto.
  - apply Qle_bool_iff in E. apply H in E. apply Qle_bool_iff in E. congruence.
  - apply Qle_bool_iff in E'. apply H in E'. apply Qle_bool_iff in E'. congruence.
Qed.

Ltac qb :=
  repeat match goal with
  | H : Qle_bool _ _ = true |- _ => apply Qle_bool_iff in H
  | H : Qle_bool _ _ = false |- _ => apply Qle_bool_false in H
  end.

Ltac dq :=
  repeat match goal with
  | |- context[Qle_bool ?a ?b] => destruct (Qle_bool a b) eqn:?
  end.

(* ---------- A. cr ---------- *)
Definition crq (xa xb xp o : Q) : Z :=
  if Qle_bool xa xp && Qlt_bool xp xb then (if Qlt_bool o 0 then (-1)%Z else 0%Z)
  else if Qle_bool xb xp && Qlt_bool xp xa then (if Qlt_bool 0 o then 1%Z else 0%Z)
  else 0%Z.

Lemma cr_crq a b p : cr a b p = crq (px a) (px b) (px p) (orient a b p).
Proof. reflexivity. Qed.

Lemma crq_ext xa xb xp o xa' xb' xp' o' :
  (xa <= xp <-> xa' <= xp') -> (xb <= xp <-> xb' <= xp') ->
  (0 <= o <-> 0 <= o') -> (o <= 0 <-> o' <= 0) ->
  crq xa xb xp o = crq xa' xb' xp' o'.
Proof.
  intros H1 H2 H3 H4. unfold crq, Qlt_bool.
  rewrite (Qle_bool_ext _ _ _ _ H1), (Qle_bool_ext _ _ _ _ H2),
          (Qle_bool_ext _ _ _ _ H3), (Qle_bool_ext _ _ _ _ H4).
  reflexivity.
Qed.

Lemma orient_expand a b p :
  orient a b p == (px b - px a) * (py p - py a) - (py b - py a) * (px p - px a).
Proof. unfold orient, cross, psub, px, py; cbn [fst snd]. ring. Qed.

Lemma orient_swap a b p : orient b a p == - orient a b p.
Proof. rewrite !orient_expand. ring. Qed.

Lemma cr_antisym a b p : cr b a p = (- cr a b p)%Z.
Proof.
  rewrite !cr_crq.
  rewrite (crq_ext (px b) (px a) (px p) (orient b a p) (px b) (px a) (px p) (- orient a b p))
    by (rewrite ?(orient_swap a b p); tauto).
  unfold crq, Qlt_bool.
  rewrite (Qle_bool_ext 0 (- orient a b p) (orient a b p) 0) by (split; intro; lra).
  rewrite (Qle_bool_ext (- orient a b p) 0 0 (orient a b p)) by (split; intro; lra).
  dq; reflexivity.
Qed.

Definition lerp_pt (a b : point) (t : Q) : point :=
  (px a + t * (px b - px a), py a + t * (py b - py a)).

Lemma cr_split a b t p : 0 < t -> t < 1 ->
  let m := (px a + t * (px b - px a), py a + t * (py b - py a)) in
  cr a b p = (cr a m p + cr m b p)%Z.
Proof.
  intros Ht0 Ht1 m.
  assert (O1 : orient a m p == t * orient a b p).
  { rewrite !orient_expand. unfold m, px, py; cbn [fst snd]. ring. }
  assert (O2 : orient m b p == (1 - t) * orient a b p).
  { rewrite !orient_expand. unfold m, px, py; cbn [fst snd]. ring. }
  rewrite !cr_crq.
  rewrite (crq_ext (px a) (px m) (px p) (orient a m p) (px a) (px m) (px p) (orient a b p)).
  2,3: tauto. 2,3: rewrite O1; split; intro; nra.
  rewrite (crq_ext (px m) (px b) (px p) (orient m b p) (px m) (px b) (px p) (orient a b p)).
  2,3: tauto. 2,3: rewrite O2; split; intro; nra.
  assert (Hm : px m == px a + t * (px b - px a)) by (unfold m, px; cbn [fst]; reflexivity).
  clear O1 O2. revert Hm.
  generalize (px m) (orient a b p) (px a) (px b) (px p).
  clear m. intros xm o xa xb xp Hm.
  unfold crq, Qlt_bool.
  dq; cbn [andb negb]; try reflexivity; exfalso; qb; try lra; nra.
Qed.

Lemma cr_translate a b p v : cr (padd a v) (padd b v) (padd p v) = cr a b p.
Proof.
  rewrite !cr_crq.
  assert (O : orient (padd a v) (padd b v) (padd p v) == orient a b p).
  { rewrite !orient_expand. unfold padd, px, py; cbn [fst snd]. ring. }
  apply crq_ext; rewrite ?O; try tauto;
    unfold padd, px; cbn [fst]; split; intro; lra.
Qed.

(* positive anisotropic scaling *)
Definition pscale2 (kx ky : Q) (p : point) : point := (kx * px p, ky * py p).

Lemma cr_scale2 kx ky a b p : 0 < kx -> 0 < ky ->
  cr (pscale2 kx ky a) (pscale2 kx ky b) (pscale2 kx ky p) = cr a b p.
Proof.
  intros Hx Hy. rewrite !cr_crq.
  assert (O : orient (pscale2 kx ky a) (pscale2 kx ky b) (pscale2 kx ky p)
              == (kx * ky) * orient a b p).
  { rewrite !orient_expand. unfold pscale2, px, py; cbn [fst snd]. ring. }
  assert (K : 0 < kx * ky) by nra.
  apply crq_ext; rewrite ?O.
  1,2: unfold pscale2, px; cbn [fst]; split; intro; nra.
  all: generalize dependent (kx * ky); intros; split; intro; nra.
Qed.

Lemma cr_scale k a b p : 0 < k ->
  cr (pscale k a) (pscale k b) (pscale k p) = cr a b p.
Proof. intro Hk. exact (cr_scale2 k k a b p Hk Hk). Qed.

Lemma orient_peq a a' b b' p p' : peq a a' -> peq b b' -> peq p p' ->
  orient a b p == orient a' b' p'.
Proof.
  intros [A1 A2] [B1 B2] [P1 P2]. rewrite !orient_expand.
  rewrite A1, A2, B1, B2, P1, P2. reflexivity.
Qed.

Lemma cr_peq a a' b b' p p' : peq a a' -> peq b b' -> peq p p' ->
  cr a b p = cr a' b' p'.
Proof.
  intros HA HB HP. rewrite !cr_crq.
  pose proof (orient_peq _ _ _ _ _ _ HA HB HP) as O.
  destruct HA as [A1 _], HB as [B1 _], HP as [P1 _].
  apply crq_ext; rewrite ?O, ?A1, ?B1, ?P1; tauto.
Qed.

Lemma cr_degenerate a p : cr a a p = 0%Z.
Proof.
  rewrite cr_crq. unfold crq, Qlt_bool.
  dq; cbn [andb negb]; try reflexivity; exfalso; qb; lra.
Qed.

(* ---------- A5. chains ---------- *)
Lemma Zsum_app l m : Zsum (l ++ m) = (Zsum l + Zsum m)%Z.
Proof. induction l; cbn [app Zsum]; lia. Qed.

Lemma Zsum_rev l : Zsum (rev l) = Zsum l.
Proof. induction l; cbn [rev Zsum]; rewrite ?Zsum_app; cbn [Zsum]; lia. Qed.

Lemma wn_lines_app j k p : wn_lines (j ++ k) p = (wn_lines j p + wn_lines k p)%Z.
Proof. unfold wn_lines. rewrite map_app, Zsum_app. reflexivity. Qed.

Lemma wn_lines_cons s j p :
  wn_lines (s :: j) p = (cr (first_pt s) (last_pt s) p + wn_lines j p)%Z.
Proof. reflexivity. Qed.

Lemma first_pt_map f (s : seg) : s <> [] -> first_pt (map f s) = f (first_pt s).
Proof. destruct s; [congruence | reflexivity]. Qed.

Lemma last_pt_map f (s : seg) : s <> [] -> last_pt (map f s) = f (last_pt s).
Proof.
  unfold last_pt. induction s as [|a s IH]; [congruence|]. intros _.
  destruct s as [|b s]; [reflexivity|].
  change (last (f a :: map f (b :: s)) pzero = f (last (a :: b :: s) pzero)).
  change (last (map f (b :: s)) pzero = f (last (b :: s) pzero)).
  apply IH. congruence.
Qed.

Lemma wn_lines_map f :
  (forall a b p, cr (f a) (f b) (f p) = cr a b p) ->
  forall j p, wn_lines (map (map f) j) (f p) = wn_lines j p.
Proof.
  intros Hf j p. induction j as [|s j IH]; [reflexivity|].
  cbn [map]. rewrite !wn_lines_cons, IH. f_equal.
  destruct s as [|a s].
  - cbn. rewrite !cr_degenerate. reflexivity.
  - rewrite first_pt_map, last_pt_map by congruence. apply Hf.
Qed.

Lemma wn_lines_translate v j p :
  wn_lines (map (map (fun q => padd q v)) j) (padd p v) = wn_lines j p.
Proof. apply (wn_lines_map (fun q => padd q v)). intros; apply cr_translate. Qed.

Lemma wn_lines_scale k j p : 0 < k ->
  wn_lines (map (map (pscale k)) j) (pscale k p) = wn_lines j p.
Proof. intro Hk. apply (wn_lines_map (pscale k)). intros; apply cr_scale; assumption. Qed.

Lemma wn_lines_scale2 kx ky j p : 0 < kx -> 0 < ky ->
  wn_lines (map (map (pscale2 kx ky)) j) (pscale2 kx ky p) = wn_lines j p.
Proof. intros Hx Hy. apply (wn_lines_map (pscale2 kx ky)). intros; apply cr_scale2; assumption. Qed.

Lemma is_line_inv s : is_line s = true -> exists a b, s = [a; b].
Proof.
  unfold is_line. destruct s as [|a [|b [|c s]]]; cbn; try discriminate.
  intros _. eauto.
Qed.

Lemma wn_lines_rev j p : all_lines j = true ->
  wn_lines (rev (map (@rev point) j)) p = (- wn_lines j p)%Z.
Proof.
  unfold all_lines. induction j as [|s j IH]; [reflexivity|].
  cbn [forallb map rev]. intro H. apply andb_true_iff in H. destruct H as [Hs Hj].
  rewrite wn_lines_app, IH, !wn_lines_cons by assumption.
  destruct (is_line_inv s Hs) as (a & b & ->).
  change (first_pt (rev [a; b])) with b. change (last_pt (rev [a; b])) with a.
  change (first_pt [a; b]) with a. change (last_pt [a; b]) with b.
  rewrite (cr_antisym a b p). unfold wn_lines at 2; cbn [map Zsum]. lia.
Qed.

Lemma wn_lines_rotl k j p : wn_lines (rotl k j) p = wn_lines j p.
Proof.
  unfold rotl. rewrite wn_lines_app.
  rewrite <- (firstn_skipn k j) at 3. rewrite wn_lines_app. lia.
Qed.

Lemma wn_lines_split_seg j1 j2 a b t p : 0 < t -> t < 1 ->
  let m := (px a + t * (px b - px a), py a + t * (py b - py a)) in
  wn_lines (j1 ++ [a; m] :: [m; b] :: j2) p = wn_lines (j1 ++ [a; b] :: j2) p.
Proof.
  intros H0 H1 m. rewrite !wn_lines_app, !wn_lines_cons.
  change (first_pt [a; m]) with a. change (last_pt [a; m]) with m.
  change (first_pt [m; b]) with m. change (last_pt [m; b]) with b.
  change (first_pt [a; b]) with a. change (last_pt [a; b]) with b.
  rewrite (cr_split a b t p H0 H1). fold m. lia.
Qed.

(* ---------- B. triangle ---------- *)
Lemma Qle_bool_true a b : a <= b -> Qle_bool a b = true.
Proof. intro; apply Qle_bool_iff; assumption. Qed.
Lemma Qle_bool_false' a b : b < a -> Qle_bool a b = false.
Proof.
  intro H. destruct (Qle_bool a b) eqn:E; auto. apply Qle_bool_iff in E. lra.
Qed.

Lemma tri_in_abs xa xb xc xp oab obc oca :
  0 < oab -> 0 < obc -> 0 < oca ->
  (xp - xa) * obc + (xp - xb) * oca + (xp - xc) * oab == 0 ->
  (xa == xp -> xb == xp -> oab == 0) ->
  (crq xa xb xp oab + crq xb xc xp obc + crq xc xa xp oca)%Z = 1%Z.
Proof.
  intros H1 H2 H3 J D. unfold crq, Qlt_bool.
  rewrite (Qle_bool_true 0 oab), (Qle_bool_true 0 obc), (Qle_bool_true 0 oca) by lra.
  rewrite (Qle_bool_false' oab 0), (Qle_bool_false' obc 0), (Qle_bool_false' oca 0) by lra.
  dq; cbn [andb negb]; try reflexivity; exfalso; qb.
  - assert (xa == xp) by nra. assert (xb == xp) by nra. lra.
  - nra.
Qed.

Definition triangle (a b c : point) : jordan := [[a; b]; [b; c]; [c; a]].

Lemma wn_triangle a b c p :
  wn_lines (triangle a b c) p = (cr a b p + cr b c p + cr c a p)%Z.
Proof. unfold triangle, wn_lines; cbn [map Zsum first_pt last_pt hd last]. lia. Qed.

Lemma orient_sum a b c p :
  orient a b p + orient b c p + orient c a p == orient a b c.
Proof. rewrite !orient_expand. ring. Qed.

Lemma orient_bary_x a b c p :
  (px p - px a) * orient b c p + (px p - px b) * orient c a p
  + (px p - px c) * orient a b p == 0.
Proof. rewrite !orient_expand. ring. Qed.

Lemma orient_vertical a b p : px a == px p -> px b == px p -> orient a b p == 0.
Proof. intros H1 H2. rewrite orient_expand, H1, H2. ring. Qed.

Theorem triangle_inside a b c p :
  0 < orient a b p -> 0 < orient b c p -> 0 < orient c a p ->
  wn_lines (triangle a b c) p = 1%Z.
Proof.
  intros H1 H2 H3. rewrite wn_triangle, !cr_crq.
  apply tri_in_abs; auto.
  - apply orient_bary_x.
  - apply orient_vertical.
Qed.

(* x-components of  cross(u,v) w + cross(v,w) u + cross(w,u) v = 0 *)
Lemma orient_id_a a b c p :
  orient a b c * (px p - px a)
  == orient c a p * (px b - px a) + orient a b p * (px c - px a).
Proof. rewrite !orient_expand. ring. Qed.
Lemma orient_id_b a b c p :
  orient a b c * (px p - px b)
  == orient a b p * (px c - px b) + orient b c p * (px a - px b).
Proof. rewrite !orient_expand. ring. Qed.
Lemma orient_id_c a b c p :
  orient a b c * (px p - px c)
  == orient b c p * (px a - px c) + orient c a p * (px b - px c).
Proof. rewrite !orient_expand. ring. Qed.

Lemma tri_out_abs xa xb xc xp oabc oab obc oca :
  0 < oabc -> oab < 0 ->
  oabc * (xp - xa) == oca * (xb - xa) + oab * (xc - xa) ->
  oabc * (xp - xb) == oab * (xc - xb) + obc * (xa - xb) ->
  oabc * (xp - xc) == obc * (xa - xc) + oca * (xb - xc) ->
  (crq xa xb xp oab + crq xb xc xp obc + crq xc xa xp oca)%Z = 0%Z.
Proof.
  intros H0 H1 I1 I2 I3. unfold crq, Qlt_bool.
  rewrite (Qle_bool_true oab 0), (Qle_bool_false' 0 oab) by lra.
  dq; cbn [andb negb]; try reflexivity; exfalso; qb; try lra.
  all: try nra.
  all: destruct (Qlt_le_dec xa xb); nra.
Qed.

Lemma orient_cycle a b c : orient b c a == orient a b c.
Proof. rewrite !orient_expand. ring. Qed.

Lemma triangle_outside_ab a b c p :
  0 < orient a b c -> orient a b p < 0 ->
  (cr a b p + cr b c p + cr c a p)%Z = 0%Z.
Proof.
  intros H0 H1. rewrite !cr_crq.
  apply (tri_out_abs _ _ _ _ (orient a b c)); auto.
  - apply orient_id_a.
  - apply orient_id_b.
  - apply orient_id_c.
Qed.

Theorem triangle_outside a b c p :
  0 < orient a b c ->
  orient a b p < 0 \/ orient b c p < 0 \/ orient c a p < 0 ->
  wn_lines (triangle a b c) p = 0%Z.
Proof.
  intros H0 H. rewrite wn_triangle. destruct H as [H|[H|H]].
  - apply triangle_outside_ab; assumption.
  - pose proof (triangle_outside_ab b c a p) as T.
    rewrite (orient_cycle a b c) in T. specialize (T H0 H). lia.
  - pose proof (triangle_outside_ab c a b p) as T.
    rewrite (orient_cycle b c a), (orient_cycle a b c) in T. specialize (T H0 H). lia.
Qed.

(* ---------- C. containment ---------- *)
(* (i) the code's chord sum on a straight segment is the single crossing *)
Lemma eval_line a b t :
  peq (eval [a; b] t) (px a + t * (px b - px a), py a + t * (py b - py a)).
Proof.
  unfold eval, canon, degree. cbn [length Nat.sub seq map map2].
  change (caract 1 0 0) with (-1)%Z. change (caract 1 1 0) with 1%Z.
  change (caract 1 0 1) with 1%Z. change (caract 1 1 1) with 0%Z.
  unfold horner, psum. cbn [fold_left fold_right].
  unfold peq, padd, pscale, pzero, px, py, inject_Z. cbn [fst snd].
  split; ring.
Qed.

Lemma peq_refl p : peq p p.
Proof. split; reflexivity. Qed.

Lemma eval_line_0 a b : peq (eval [a; b] 0) a.
Proof.
  destruct (eval_line a b 0) as [H1 H2]. split; [rewrite H1 | rewrite H2];
    unfold px, py; cbn [fst snd]; ring.
Qed.
Lemma eval_line_1 a b : peq (eval [a; b] 1) b.
Proof.
  destruct (eval_line a b 1) as [H1 H2]. split; [rewrite H1 | rewrite H2];
    unfold px, py; cbn [fst snd]; ring.
Qed.

Lemma chord_pts_line a b : chord_pts [a; b] = [eval [a; b] 0; eval [a; b] 1].
Proof.
  unfold chord_pts. change (closed_linspace (length [a; b])) with [0; 1]. reflexivity.
Qed.

Lemma seg_wn_line a b p : seg_wn [a; b] p = cr a b p.
Proof.
  unfold seg_wn. rewrite chord_pts_line. cbn [pairs_of map Zsum fst snd].
  rewrite (cr_peq _ a _ b p p (eval_line_0 a b) (eval_line_1 a b) (peq_refl p)). lia.
Qed.

Lemma all_lines_In j s : all_lines j = true -> In s j -> exists a b, s = [a; b].
Proof.
  unfold all_lines. intros H Hs. apply is_line_inv.
  rewrite forallb_forall in H. auto.
Qed.

Lemma seg_wn_sum_lines j p : all_lines j = true ->
  Zsum (map (fun s => seg_wn s p) j) = wn_lines j p.
Proof.
  intro H. unfold wn_lines. f_equal. apply map_ext_in. intros s Hs.
  destruct (all_lines_In j s H Hs) as (a & b & ->). apply seg_wn_line.
Qed.

(* (ii) tolerance test = exact test *)
Lemma existsb_ext_in {A} (f g : A -> bool) l :
  (forall x, In x l -> f x = g x) -> existsb f l = existsb g l.
Proof.
  induction l as [|x l IH]; [reflexivity|]. intro H. cbn [existsb].
  rewrite (H x (or_introl eq_refl)), IH; [reflexivity|].
  intros y Hy. apply H. right; assumption.
Qed.

Lemma on_seg_boundary j p : tol_exact j p ->
  existsb (fun s => on_seg s p) j = on_boundary j p.
Proof. intro H. unfold on_boundary. apply existsb_ext_in. exact H. Qed.

(* (iii) boxes *)
Lemma tol6_pos : 0 < tol6.
Proof. reflexivity. Qed.

Lemma box_contains_iff b p :
  box_contains b p = true <->
  (bxmin b - tol6 <= px p /\ bymin b - tol6 <= py p /\
   px p <= bxmax b + tol6 /\ py p <= bymax b + tol6).
Proof.
  unfold box_contains, Qlt_bool. rewrite !negb_involutive, !andb_true_iff, !Qle_bool_iff.
  tauto.
Qed.

Definition box_le (b1 b2 : box) : Prop :=
  bxmin b2 <= bxmin b1 /\ bymin b2 <= bymin b1 /\
  bxmax b1 <= bxmax b2 /\ bymax b1 <= bymax b2.

Lemma box_le_refl b : box_le b b.
Proof. unfold box_le; repeat split; lra. Qed.
Lemma box_le_trans a b c : box_le a b -> box_le b c -> box_le a c.
Proof. unfold box_le; intros (?&?&?&?) (?&?&?&?); repeat split; lra. Qed.

Lemma box_contains_mono b1 b2 p :
  box_le b1 b2 -> box_contains b1 p = true -> box_contains b2 p = true.
Proof.
  rewrite !box_contains_iff. unfold box_le.
  intros (?&?&?&?) (?&?&?&?). repeat split; lra.
Qed.

Lemma Qmin'_l a b : Qmin' a b <= a.
Proof. unfold Qmin'. destruct (Qle_bool a b) eqn:?; qb; lra. Qed.
Lemma Qmin'_r a b : Qmin' a b <= b.
Proof. unfold Qmin'. destruct (Qle_bool a b) eqn:?; qb; lra. Qed.
Lemma Qmax'_l a b : a <= Qmax' a b.
Proof. unfold Qmax'. destruct (Qle_bool a b) eqn:?; qb; lra. Qed.
Lemma Qmax'_r a b : b <= Qmax' a b.
Proof. unfold Qmax'. destruct (Qle_bool a b) eqn:?; qb; lra. Qed.

Lemma box_or_l a b : box_le a (box_or a b).
Proof.
  unfold box_le, box_or, bxmin, bymin, bxmax, bymax; cbn [fst snd].
  repeat split; auto using Qmin'_l, Qmax'_l.
Qed.
Lemma box_or_r a b : box_le b (box_or a b).
Proof.
  unfold box_le, box_or, bxmin, bymin, bxmax, bymax; cbn [fst snd].
  repeat split; auto using Qmin'_r, Qmax'_r.
Qed.

Lemma fold_box_le t : forall b0,
  box_le b0 (fold_left (fun b s' => box_or b (seg_box s')) t b0) /\
  forall s, In s t -> box_le (seg_box s) (fold_left (fun b s' => box_or b (seg_box s')) t b0).
Proof.
  induction t as [|s0 t IH]; intro b0; cbn [fold_left].
  - split; [apply box_le_refl | intros s []].
  - destruct (IH (box_or b0 (seg_box s0))) as [I1 I2]. split.
    + eapply box_le_trans; [apply box_or_l | exact I1].
    + intros s [<-|Hs].
      * eapply box_le_trans; [apply box_or_r | exact I1].
      * apply I2; assumption.
Qed.

Lemma jordan_box_le j s : In s j -> box_le (seg_box s) (jordan_box j).
Proof.
  destruct j as [|s0 t]; [intros []|]. unfold jordan_box.
  destruct (fold_box_le t (seg_box s0)) as [I1 I2].
  intros [<-|Hs]; [exact I1 | apply I2; assumption].
Qed.

Lemma between_iff a b x :
  between a b x = true <-> ((a <= x /\ x <= b) \/ (b <= x /\ x <= a)).
Proof.
  unfold between. rewrite orb_true_iff, !andb_true_iff, !Qle_bool_iff. tauto.
Qed.

Lemma on_edge_box a b p : on_edge a b p = true -> box_contains (seg_box [a; b]) p = true.
Proof.
  unfold on_edge. rewrite !andb_true_iff, !between_iff. intros [[_ Hx] Hy].
  apply box_contains_iff.
  change (seg_box [a; b]) with
    (Qmin' (px a) (px b), Qmin' (py a) (py b), Qmax' (px a) (px b), Qmax' (py a) (py b)).
  unfold bxmin, bymin, bxmax, bymax; cbn [fst snd].
  pose proof tol6_pos.
  pose proof (Qmin'_l (px a) (px b)). pose proof (Qmin'_r (px a) (px b)).
  pose proof (Qmin'_l (py a) (py b)). pose proof (Qmin'_r (py a) (py b)).
  pose proof (Qmax'_l (px a) (px b)). pose proof (Qmax'_r (px a) (px b)).
  pose proof (Qmax'_l (py a) (py b)). pose proof (Qmax'_r (py a) (py b)).
  repeat split; lra.
Qed.

Lemma on_boundary_box j p : all_lines j = true ->
  on_boundary j p = true -> box_contains (jordan_box j) p = true.
Proof.
  intros HL HB. unfold on_boundary in HB. apply existsb_exists in HB.
  destruct HB as (s & Hs & He).
  destruct (all_lines_In j s HL Hs) as (a & b & ->).
  apply (box_contains_mono (seg_box [a; b])).
  - apply jordan_box_le; assumption.
  - apply on_edge_box. exact He.
Qed.

Lemma jordan_wn2_lines j p : all_lines j = true -> tol_exact j p ->
  jordan_wn2 j p =
  if on_boundary j p then (if jordan_pos j then 1 else -1)%Z
  else (2 * wn_lines j p)%Z.
Proof.
  intros HL HT. unfold jordan_wn2.
  rewrite (on_seg_boundary j p HT), (seg_wn_sum_lines j p HL).
  destruct (on_boundary j p) eqn:B.
  - rewrite (on_boundary_box j p HL B). reflexivity.
  - rewrite andb_false_r. reflexivity.
Qed.

(* (iv) one curve *)
Lemma simple_has_point_spec j p b :
  all_lines j = true -> tol_exact j p ->
  jordan_pos j = Qlt_bool 0 (shoelace2 j) ->
  spec_contains (region_simple j p) b (simple_has_point j p b).
Proof.
  intros HL HT HP. unfold simple_has_point, region_simple.
  rewrite (jordan_wn2_lines j p HL HT), <- HP.
  destruct (on_boundary j p).
  - destruct (jordan_pos j), b; reflexivity.
  - destruct (jordan_pos j).
    + destruct (wn_lines j p =? 1)%Z eqn:E1.
      { apply Z.eqb_eq in E1. rewrite E1. destruct b; reflexivity. }
      destruct (wn_lines j p =? 0)%Z eqn:E0.
      { apply Z.eqb_eq in E0. rewrite E0. destruct b; reflexivity. }
      exact I.
    + destruct (wn_lines j p =? 0)%Z eqn:E0.
      { apply Z.eqb_eq in E0. rewrite E0. destruct b; reflexivity. }
      destruct (wn_lines j p =? -1)%Z eqn:E1.
      { apply Z.eqb_eq in E1. rewrite E1. destruct b; reflexivity. }
      exact I.
Qed.

(* (v) components and shapes *)
Lemma spec_and r1 r2 b a1 a2 :
  spec_contains r1 b a1 -> spec_contains r2 b a2 ->
  spec_contains (reg_and r1 r2) b (a1 && a2).
Proof.
  destruct r1, r2; cbn; intros; subst; auto;
    destruct b; auto; destruct a1; auto.
Qed.

Lemma spec_or r1 r2 b a1 a2 :
  spec_contains r1 b a1 -> spec_contains r2 b a2 ->
  spec_contains (reg_or r1 r2) b (a1 || a2).
Proof.
  destruct r1, r2; cbn; intros; subst; auto;
    destruct b; auto; destruct a1; auto.
Qed.

Definition jordan_ok (p : point) (j : jordan) : Prop :=
  all_lines j = true /\ tol_exact j p /\ jordan_pos j = Qlt_bool 0 (shoelace2 j).

Lemma comp_has_point_spec c p b :
  (forall j, In j (comp_jordans c) -> jordan_ok p j) ->
  spec_contains (region_comp c p) b (comp_has_point c p b).
Proof.
  destruct c as [j|js]; cbn [comp_jordans region_comp comp_has_point]; intro H.
  - destruct (H j (or_introl eq_refl)) as (H1 & H2 & H3).
    apply simple_has_point_spec; assumption.
  - induction js as [|j js IH]; cbn [fold_right forallb]; [reflexivity|].
    apply spec_and.
    + destruct (H j (or_introl eq_refl)) as (H1 & H2 & H3).
      apply simple_has_point_spec; assumption.
    + apply IH. intros j' Hj'. apply H. right; assumption.
Qed.

Theorem contains_point_spec S p b :
  shape_lines S = true ->
  (forall j, In j (jordans S) -> tol_exact j p) ->
  (forall j, In j (jordans S) -> jordan_pos j = Qlt_bool 0 (shoelace2 j)) ->
  spec_contains (region S p) b (contains_point S p b).
Proof.
  intros HL HT HP.
  assert (OK : forall j, In j (jordans S) -> jordan_ok p j).
  { intros j Hj. unfold shape_lines in HL. rewrite forallb_forall in HL.
    repeat split; auto. }
  clear HL HT HP.
  destruct S as [| |c|cs]; cbn [region contains_point jordans] in *.
  - reflexivity.
  - reflexivity.
  - apply comp_has_point_spec. exact OK.
  - induction cs as [|c cs IH]; cbn [fold_right existsb]; [reflexivity|].
    apply spec_or.
    + apply comp_has_point_spec. intros j Hj. apply OK.
      cbn [map concat]. apply in_or_app. left; assumption.
    + apply IH. intros j Hj. apply OK.
      cbn [map concat]. apply in_or_app. right; assumption.
Qed.

(* ---------- D. non-vacuity ---------- *)
Definition sq : jordan :=
  [[(0,0);(4,0)]; [(4,0);(4,4)]; [(4,4);(0,4)]; [(0,4);(0,0)]].
Definition p_in : point := (1, 1).
Definition p_bd : point := (4, 2).
Definition p_out : point := (5, 5).

Lemma sq_lines : shape_lines (SC (CS sq)) = true.
Proof. reflexivity. Qed.

Lemma sq_tol_exact p : In p [p_in; p_bd; p_out] -> tol_exact sq p.
Proof.
  intros Hp s Hs. unfold tol_exact_seg.
  cbn [In] in Hp. unfold sq in Hs. cbn [In] in Hs.
  repeat match goal with H : _ \/ _ |- _ => destruct H as [H|H] end;
    try contradiction; subst; vm_compute; reflexivity.
Qed.

Lemma sq_pos : jordan_pos sq = Qlt_bool 0 (shoelace2 sq).
Proof. vm_compute. reflexivity. Qed.

Example sq_regions :
  (region (SC (CS sq)) p_in, region (SC (CS sq)) p_bd, region (SC (CS sq)) p_out)
  = (RIn, RBdry, ROut).
Proof. vm_compute. reflexivity. Qed.

Example sq_contains :
  (contains_point (SC (CS sq)) p_in true, contains_point (SC (CS sq)) p_in false,
   contains_point (SC (CS sq)) p_bd true, contains_point (SC (CS sq)) p_bd false,
   contains_point (SC (CS sq)) p_out true, contains_point (SC (CS sq)) p_out false)
  = (true, true, true, false, false, false).
Proof. vm_compute. reflexivity. Qed.

Example sq_wn : (wn_lines sq p_in, wn_lines sq p_bd, wn_lines sq p_out) = (1, 0, 0)%Z.
Proof. vm_compute. reflexivity. Qed.

(* the hypotheses of the theorem are satisfiable, and its conclusion at the
   three points is the non-trivial one (In / Bdry / Out) *)
Example sq_spec_instance p b : In p [p_in; p_bd; p_out] ->
  spec_contains (region (SC (CS sq)) p) b (contains_point (SC (CS sq)) p b).
Proof.
  intro Hp. apply contains_point_spec.
  - exact sq_lines.
  - intros j [<-|[]]. apply sq_tol_exact; assumption.
  - intros j [<-|[]]. exact sq_pos.
Qed.

Print Assumptions cr_antisym.
Print Assumptions cr_split.
Print Assumptions cr_translate.
Print Assumptions cr_scale2.
Print Assumptions cr_peq.
Print Assumptions wn_lines_map.
Print Assumptions wn_lines_rev.
Print Assumptions wn_lines_rotl.
Print Assumptions wn_lines_split_seg.
Print Assumptions triangle_inside.
Print Assumptions triangle_outside.
Print Assumptions jordan_wn2_lines.
Print Assumptions simple_has_point_spec.
Print Assumptions sq_spec_instance.
Print Assumptions contains_point_spec.
