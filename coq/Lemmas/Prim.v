(* Lemmas/Prim.v -- primitive.py: what Primitive.square / triangle /
   regular_polygon / polygon / circle construct.
     P0  helpers: booleans, peq-congruence of the specification layer
     P1  square        P2  triangle      P3  regular_polygon(4)
     P4  polygon       P5  argument validation
     P6  circle: the arcs lie in a thin band around the true circle
     P7  circle: area contribution of one arc, total for ndivangle = 4
     P8  regular n-gon as an orbit of a rational rotation                *)
From Coq Require Import QArith Lqa Lia List.
From SV Require Import Model.Prim Spec.Spec.
From SV Require Import Lemmas.BezierFacts Lemmas.Quadrature Lemmas.Winding
                       Lemmas.Construct Lemmas.Equivariance.
Import ListNotations.
Open Scope Q_scope.

(* ------------------------------------------------------------------ *)
(* P0. helpers                                                         *)
(* ------------------------------------------------------------------ *)
Lemma Qlt_bool_iff : forall a b, Qlt_bool a b = true <-> a < b.
Proof.
  intros a b. unfold Qlt_bool. rewrite Bool.negb_true_iff. split; intro H.
  - apply Qnot_le_lt. intro L. apply Qle_bool_iff in L. congruence.
  - destruct (Qle_bool b a) eqn:E; [apply Qle_bool_iff in E; lra | reflexivity].
Qed.
Lemma Qlt_bool_false_iff : forall a b, Qlt_bool a b = false <-> b <= a.
Proof.
  intros a b. unfold Qlt_bool. rewrite Bool.negb_false_iff. apply Qle_bool_iff.
Qed.
Lemma Qle_bool_false_iff : forall a b, Qle_bool a b = false <-> b < a.
Proof.
  intros a b. split; intro H.
  - apply Qnot_le_lt. intro L. apply Qle_bool_iff in L. congruence.
  - destruct (Qle_bool a b) eqn:E; [apply Qle_bool_iff in E; lra | reflexivity].
Qed.
Lemma Qeq_bool_false_iff : forall a b, Qeq_bool a b = false <-> ~ a == b.
Proof.
  intros a b. split; intro H.
  - intro E. apply Qeq_bool_iff in E. congruence.
  - destruct (Qeq_bool a b) eqn:E; [apply Qeq_bool_iff in E; contradiction | reflexivity].
Qed.

(* coordinates of the model's normalising point maps *)
Lemma px_move_pt : forall v p, px (move_pt v p) == px p + px v.
Proof. intros [a b] [x y]. unfold move_pt, pred_, padd. cbn [px py fst snd]. apply Qred_correct. Qed.
Lemma py_move_pt : forall v p, py (move_pt v p) == py p + py v.
Proof. intros [a b] [x y]. unfold move_pt, pred_, padd. cbn [px py fst snd]. apply Qred_correct. Qed.
Lemma px_rot_pt : forall c s p, px (rot_pt c s p) == c * px p - s * py p.
Proof. intros c s [x y]. unfold rot_pt, pred_. cbn [px py fst snd]. apply Qred_correct. Qed.
Lemma py_rot_pt : forall c s p, py (rot_pt c s p) == s * px p + c * py p.
Proof. intros c s [x y]. unfold rot_pt, pred_. cbn [px py fst snd]. apply Qred_correct. Qed.

(* ---------- peq-congruence of the specification layer ---------- *)
Definition seg_peq (a b : seg) : Prop := Forall2 peq a b.
Definition jordan_peq (j k : jordan) : Prop := Forall2 seg_peq j k.

Lemma seg_peq_refl : forall a, seg_peq a a.
Proof. induction a; constructor; [apply peq_refl | assumption]. Qed.
Lemma jordan_peq_refl : forall j, jordan_peq j j.
Proof. induction j; constructor; [apply seg_peq_refl | assumption]. Qed.

Lemma first_pt_peq : forall a b, seg_peq a b -> peq (first_pt a) (first_pt b).
Proof. intros a b H. destruct H; [apply peq_refl | assumption]. Qed.
Lemma last_pt_peq : forall a b, seg_peq a b -> peq (last_pt a) (last_pt b).
Proof.
  intros a b H. unfold last_pt. induction H as [|x y l m Hxy Hlm IH]; [apply peq_refl|].
  destruct Hlm as [|x' y' l' m' Hx' Hl']; [exact Hxy|]. exact IH.
Qed.

Lemma between_comp : forall a a' b b' x x', a == a' -> b == b' -> x == x' ->
  between a b x = between a' b' x'.
Proof.
  intros a a' b b' x x' Ha Hb Hx. unfold between.
  rewrite (Qle_bool_comp a a' x x' Ha Hx), (Qle_bool_comp x x' b b' Hx Hb),
          (Qle_bool_comp b b' x x' Hb Hx), (Qle_bool_comp x x' a a' Hx Ha). reflexivity.
Qed.
Lemma on_edge_peq : forall a a' b b' p p', peq a a' -> peq b b' -> peq p p' ->
  on_edge a b p = on_edge a' b' p'.
Proof.
  intros a a' b b' p p' HA HB HP. unfold on_edge.
  rewrite (Qeq_bool_comp _ _ 0 0 (orient_peq _ _ _ _ _ _ HA HB HP) (Qeq_refl 0)).
  destruct HA as [A1 A2], HB as [B1 B2], HP as [P1 P2].
  rewrite (between_comp _ _ _ _ _ _ A1 B1 P1), (between_comp _ _ _ _ _ _ A2 B2 P2). reflexivity.
Qed.
Lemma on_boundary_peq : forall j k p q, jordan_peq j k -> peq p q ->
  on_boundary j p = on_boundary k q.
Proof.
  intros j k p q H HP. unfold on_boundary. induction H as [|s s' j k Hs Hjk IH]; [reflexivity|].
  cbn [existsb]. rewrite IH.
  rewrite (on_edge_peq _ _ _ _ _ _ (first_pt_peq _ _ Hs) (last_pt_peq _ _ Hs) HP). reflexivity.
Qed.
Lemma wn_lines_peq : forall j k p q, jordan_peq j k -> peq p q ->
  wn_lines j p = wn_lines k q.
Proof.
  intros j k p q H HP. unfold wn_lines. induction H as [|s s' j k Hs Hjk IH]; [reflexivity|].
  cbn [map Zsum]. rewrite IH.
  rewrite (cr_peq _ _ _ _ _ _ (first_pt_peq _ _ Hs) (last_pt_peq _ _ Hs) HP). reflexivity.
Qed.
Lemma cross_peq : forall a a' b b', peq a a' -> peq b b' -> cross a b == cross a' b'.
Proof. intros a a' b b' [A1 A2] [B1 B2]. unfold cross. rewrite A1, A2, B1, B2. reflexivity. Qed.
Lemma norm2_peq : forall a a', peq a a' -> norm2 a == norm2 a'.
Proof. intros a a' [A1 A2]. unfold norm2, inner. rewrite A1, A2. reflexivity. Qed.
Lemma shoelace2_peq : forall j k, jordan_peq j k -> shoelace2 j == shoelace2 k.
Proof.
  intros j k H. unfold shoelace2. induction H as [|s s' j k Hs Hjk IH]; [reflexivity|].
  cbn [map Qsum]. rewrite IH.
  rewrite (cross_peq _ _ _ _ (first_pt_peq _ _ Hs) (last_pt_peq _ _ Hs)). reflexivity.
Qed.
Theorem region_simple_peq : forall j k p q, jordan_peq j k -> peq p q ->
  region_simple j p = region_simple k q.
Proof.
  intros j k p q H HP. unfold region_simple.
  rewrite (on_boundary_peq j k p q H HP), (wn_lines_peq j k p q H HP).
  rewrite (Qlt_bool_comp 0 0 _ _ (Qeq_refl 0) (shoelace2_peq j k H)). reflexivity.
Qed.

(* ---------- a curve that is, up to ==, the image of a model curve U
   under p |-> k p + center ---------- *)
Definition simil (k : Q) (center : point) : point -> point := aff k 0 0 k center.

Lemma region_simil : forall k center (U J : jordan) p0 p, 0 < k ->
  jordan_peq J (map (map (simil k center)) U) -> peq p (simil k center p0) ->
  nonempty_segs U -> closed_chain U = true ->
  region_simple J p = region_simple U p0.
Proof.
  intros k center U J p0 p Hk HJ Hp Hne Hc.
  rewrite (region_simple_peq _ _ _ _ HJ Hp).
  apply (region_simple_diag k k center (simil k center) Hk Hk); try assumption.
  apply aff_map_aff.
Qed.
Lemma shoelace2_simil : forall k center (U J : jordan),
  jordan_peq J (map (map (simil k center)) U) ->
  nonempty_segs U -> closed_chain U = true ->
  shoelace2 J == k * k * shoelace2 U.
Proof.
  intros k center U J HJ Hne Hc. rewrite (shoelace2_peq _ _ HJ).
  rewrite (shoelace2_aff_map k 0 0 k center (simil k center) (aff_map_aff _ _ _ _ _) U Hne Hc).
  unfold adet. ring.
Qed.

(* ---------- far to the right of every vertex: outside ---------- *)
Lemma cr_far_right : forall a b p, px a < px p -> px b < px p -> cr a b p = 0%Z.
Proof.
  intros a b p Ha Hb. unfold cr.
  assert (Qlt_bool (px p) (px b) = false) as -> by (apply Qlt_bool_false_iff; lra).
  assert (Qlt_bool (px p) (px a) = false) as -> by (apply Qlt_bool_false_iff; lra).
  rewrite !Bool.andb_false_r. reflexivity.
Qed.
Lemma on_edge_far_right : forall a b p, px a < px p -> px b < px p -> on_edge a b p = false.
Proof.
  intros a b p Ha Hb. unfold on_edge, between.
  assert (Qle_bool (px p) (px b) = false) as -> by (apply Qle_bool_false_iff; lra).
  assert (Qle_bool (px p) (px a) = false) as -> by (apply Qle_bool_false_iff; lra).
  rewrite !Bool.andb_false_r. destruct (Qeq_bool (orient a b p) 0); reflexivity.
Qed.
Definition left_of (j : jordan) (p : point) : Prop :=
  forall s, In s j -> px (first_pt s) < px p /\ px (last_pt s) < px p.
Theorem region_far_right : forall j p, left_of j p ->
  region_simple j p = if Qlt_bool 0 (shoelace2 j) then ROut else RIn.
Proof.
  intros j p H. unfold region_simple.
  assert (on_boundary j p = false) as ->.
  { unfold on_boundary. induction j as [|s j IH]; [reflexivity|]. cbn [existsb].
    destruct (H s (or_introl eq_refl)) as [H1 H2]. rewrite (on_edge_far_right _ _ _ H1 H2).
    apply IH. intros s' Hs'. apply H. right; exact Hs'. }
  assert (wn_lines j p = 0%Z) as ->.
  { unfold wn_lines. induction j as [|s j IH]; [reflexivity|]. cbn [map Zsum].
    destruct (H s (or_introl eq_refl)) as [H1 H2]. rewrite (cr_far_right _ _ _ H1 H2).
    rewrite IH; [reflexivity|]. intros s' Hs'. apply H. right; exact Hs'. }
  destruct (Qlt_bool 0 (shoelace2 j)); reflexivity.
Qed.

(* ------------------------------------------------------------------ *)
(* P4. polygon                                                         *)
(* ------------------------------------------------------------------ *)
(* the closed chain of straight edges v0 v1, v1 v2, ..., v_{n-1} v0 *)
Definition poly_jordan (vs : list point) : jordan :=
  map edge_seg (pairs_of (vs ++ [hd pzero vs])).

Theorem prim_polygon_ok : forall vs, vs <> [] ->
  prim_polygon vs = Ok (SC (CS (poly_jordan vs))).
Proof. intros vs H. unfold prim_polygon. rewrite (from_vertices_ok vs H). reflexivity. Qed.

Theorem poly_jordan_spec : forall vs, vs <> [] ->
  vertices (poly_jordan vs) = vs /\ length (poly_jordan vs) = length vs /\
  all_lines (poly_jordan vs) = true /\ closed_chain (poly_jordan vs) = true /\
  from_segments (poly_jordan vs) = Ok (poly_jordan vs) /\
  jordan_area (poly_jordan vs) == shoelace2 (poly_jordan vs) / 2 /\
  jordan_pos (poly_jordan vs) = Qlt_bool 0 (shoelace2 (poly_jordan vs)).
Proof.
  intros vs H.
  destruct (constructors_agree vs (poly_jordan vs) H (from_vertices_ok vs H))
    as (Hs & _ & Hv & Hl & Hc & _ & Hp).
  destruct (from_vertices_spec vs (poly_jordan vs) H (from_vertices_ok vs H))
    as (_ & _ & Hlines & _).
  repeat split; try assumption. apply area_shoelace; assumption.
Qed.

(* P4 as stated on the result of the call: the given vertices in the given
   order, and the orientation is the sign of the shoelace sum *)
Theorem prim_polygon_spec : forall vs, vs <> [] ->
  exists j, prim_polygon vs = Ok (SC (CS j)) /\
    vertices j = vs /\ length j = length vs /\
    all_lines j = true /\ closed_chain j = true /\
    jordan_pos j = Qlt_bool 0 (shoelace2 j).
Proof.
  intros vs H. exists (poly_jordan vs).
  destruct (poly_jordan_spec vs H) as (Hv & Hl & Hlines & Hc & _ & _ & Hp).
  split; [apply prim_polygon_ok, H|]. repeat split; assumption.
Qed.

(* a counter-clockwise list is the bounded side, a clockwise list the
   unbounded side: far away points *)
Corollary prim_polygon_far : forall vs p, vs <> [] -> left_of (poly_jordan vs) p ->
  region_simple (poly_jordan vs) p = if jordan_pos (poly_jordan vs) then ROut else RIn.
Proof.
  intros vs p H HL. destruct (poly_jordan_spec vs H) as (_ & _ & _ & _ & _ & _ & Hp).
  rewrite Hp. apply region_far_right, HL.
Qed.

Lemma at_center_nonempty : forall center vs, vs <> [] -> at_center center vs <> [].
Proof. intros center [|v t] H; [congruence | discriminate]. Qed.

(* orientation and area of a polygon similar to a model polygon *)
Lemma simil_polygon_facts : forall k center U vs a, 0 < k -> vs <> [] ->
  jordan_peq (poly_jordan vs) (map (map (simil k center)) U) ->
  nonempty_segs U -> closed_chain U = true -> shoelace2 U == a -> 0 < a ->
  jordan_area (poly_jordan vs) == k * k * a / 2 /\ jordan_pos (poly_jordan vs) = true.
Proof.
  intros k center U vs a Hk Hvs HJ Hne Hc Ha Hpos.
  destruct (poly_jordan_spec vs Hvs) as (_ & _ & _ & _ & _ & Harea & Hp).
  pose proof (shoelace2_simil k center U _ HJ Hne Hc) as HS. rewrite Ha in HS.
  split.
  - rewrite Harea, HS. reflexivity.
  - rewrite Hp. apply Qlt_bool_iff. rewrite HS.
    apply Qmult_lt_0_compat; [apply Qmult_lt_0_compat|]; assumption.
Qed.

Ltac pt_eq_tac :=
  split; cbn [px py fst snd];
  rewrite ?px_move_pt, ?py_move_pt; unfold simil, aff; cbn [px py fst snd];
  try field; try lra.

(* ------------------------------------------------------------------ *)
(* P1. square                                                          *)
(* ------------------------------------------------------------------ *)
Definition unit_square : jordan :=
  [[(1#2, 1#2); (-(1#2), 1#2)]; [(-(1#2), 1#2); (-(1#2), -(1#2))];
   [(-(1#2), -(1#2)); (1#2, -(1#2))]; [(1#2, -(1#2)); (1#2, 1#2)]].
Definition square_jordan (side : Q) (center : point) : jordan :=
  poly_jordan (square_vertices side center).

Lemma poly_jordan3 : forall a b c, poly_jordan [a; b; c] = [[a; b]; [b; c]; [c; a]].
Proof. reflexivity. Qed.
Lemma poly_jordan4 : forall a b c d,
  poly_jordan [a; b; c; d] = [[a; b]; [b; c]; [c; d]; [d; a]].
Proof. reflexivity. Qed.

Ltac jordan_peq_tac :=
  repeat (constructor; [repeat (constructor; [pt_eq_tac|]); constructor|]); constructor.

Lemma square_jordan_simil : forall side center,
  jordan_peq (square_jordan side center) (map (map (simil side center)) unit_square).
Proof.
  intros side [cx cy]. unfold square_jordan, square_vertices, at_center. cbn [map].
  rewrite poly_jordan4. jordan_peq_tac.
Qed.



Lemma unit_square_facts :
  nonempty_segs unit_square /\ closed_chain unit_square = true /\
  shoelace2 unit_square == 2 /\ region_simple unit_square (0, 0) = RIn.
Proof.
  split; [apply all_lines_nonempty; reflexivity|].
  split; [vm_compute; reflexivity|]. split; vm_compute; reflexivity.
Qed.

Ltac left_of_tac :=
  let sg := fresh "sg" in let HI := fresh "HI" in
  intros sg HI; cbn [In] in HI;
  repeat (destruct HI as [<- | HI];
          [cbn [first_pt last_pt hd last]; rewrite !px_move_pt; cbn [px py fst snd];
           unfold Qdiv; change (/ 2) with (1 # 2); split; lra|]);

  contradiction.


Lemma square_left_of : forall side center p, 0 < side -> px center + side < px p ->
  left_of (square_jordan side center) p.
Proof.
  intros side [cx cy] p Hs Hp. unfold square_jordan, square_vertices, at_center. cbn [map].
  rewrite poly_jordan4. cbn [px fst] in Hp. left_of_tac.
Qed.


Lemma square_vertices_nonempty
 : forall side center, square_vertices side center <> [].
Proof. intros. apply at_center_nonempty. discriminate. Qed.

(* the documented vertices, in the documented order *)
Lemma square_vertices_doc : forall side center,
  Forall2 peq (square_vertices side center)
    [ (px center + side / 2, py center + side / 2);
      (px center - side / 2, py center + side / 2);
      (px center - side / 2, py center - side / 2);
      (px center + side / 2, py center - side / 2) ].
Proof.
  intros side [cx cy]. unfold square_vertices, at_center. cbn [map].
  repeat (constructor; [pt_eq_tac|]). constructor.
Qed.

Theorem square_spec : forall side center, 0 < side ->
  let j := square_jordan side center in
  prim_square (PNum side) center = Ok (SC (CS j)) /\
  vertices j = square_vertices side center /\
  length j = 4%nat /\ all_lines j = true /\ closed_chain j = true /\
  jordan_area j == side * side /\
  jordan_pos j = true /\
  region_simple j center = RIn /\
  (forall p, px center + side < px p -> region_simple j p = ROut).
Proof.
  intros side center Hs j.
  pose proof (square_vertices_nonempty side center) as Hne.
  destruct (poly_jordan_spec _ Hne) as (Hv & Hl & Hlines & Hc & _ & _ & Hp).
  destruct unit_square_facts as (Une & Uc & Ush & Uin).
  destruct (simil_polygon_facts side center unit_square _ 2 Hs Hne
              (square_jordan_simil side center) Une Uc Ush ltac:(lra)) as (Harea & Hpos).
  fold (square_jordan side center) in *. fold j in Hv, Hl, Hlines, Hc, Hp, Harea, Hpos.
  split.
  { unfold prim_square, valid_size.
    assert (Qlt_bool 0 side = true) as -> by (apply Qlt_bool_iff; exact Hs).
    apply prim_polygon_ok, Hne. }
  split; [exact Hv|]. split; [exact Hl|]. split; [exact Hlines|]. split; [exact Hc|].
  split; [rewrite Harea; field|]. split; [exact Hpos|]. split.
  - rewrite <- Uin.
    apply (region_simil side center unit_square j (0, 0) center Hs
             (square_jordan_simil side center)); try assumption.
    destruct center as [cx cy]. split; unfold simil, aff; cbn [px py fst snd]; ring.
  - intros p Hfar. unfold j.
    rewrite (region_far_right _ _ (square_left_of side center p Hs Hfar)).
    fold j. rewrite <- Hp, Hpos. reflexivity.
Qed.

(* ------------------------------------------------------------------ *)
(* P2. triangle                                                        *)
(* ------------------------------------------------------------------ *)
Definition unit_triangle : jordan :=
  [[(0, 0); (1, 0)]; [(1, 0); (0, 1)]; [(0, 1); (0, 0)]].
Definition triangle_jordan (side : Q) (center : point) : jordan :=
  poly_jordan (triangle_vertices side center).

Lemma triangle_jordan_simil : forall side center,
  jordan_peq (triangle_jordan side center) (map (map (simil side center)) unit_triangle).
Proof.
  intros side [cx cy]. unfold triangle_jordan, triangle_vertices, at_center. cbn [map].
  rewrite poly_jordan3. jordan_peq_tac.
Qed.

Lemma unit_triangle_facts :
  nonempty_segs unit_triangle /\ closed_chain unit_triangle = true /\
  shoelace2 unit_triangle == 1 /\ region_simple unit_triangle (1 # 4, 1 # 4) = RIn.
Proof.
  split; [apply all_lines_nonempty; reflexivity|].
  split; [vm_compute; reflexivity|]. split; vm_compute; reflexivity.
Qed.

Lemma triangle_left_of : forall side center p, 0 < side -> px center + side < px p ->
  left_of (triangle_jordan side center) p.
Proof.
  intros side [cx cy] p Hs Hp. unfold triangle_jordan, triangle_vertices, at_center. cbn [map].
  rewrite poly_jordan3. cbn [px fst] in Hp. left_of_tac.
Qed.

Lemma triangle_vertices_nonempty : forall side center, triangle_vertices side center <> [].
Proof. intros. apply at_center_nonempty. discriminate. Qed.

Lemma triangle_vertices_doc : forall side center,
  Forall2 peq (triangle_vertices side center)
    [ (px center, py center); (px center + side, py center); (px center, py center + side) ].
Proof.
  intros side [cx cy]. unfold triangle_vertices, at_center. cbn [map].
  repeat (constructor; [pt_eq_tac|]). constructor.
Qed.

Theorem triangle_spec : forall side center, 0 < side ->
  let j := triangle_jordan side center in
  prim_triangle (PNum side) center = Ok (SC (CS j)) /\
  vertices j = triangle_vertices side center /\
  length j = 3%nat /\ all_lines j = true /\ closed_chain j = true /\
  jordan_area j == side * side / 2 /\
  jordan_pos j = true /\
  region_simple j (padd center (side / 4, side / 4)) = RIn /\
  (forall p, px center + side < px p -> region_simple j p = ROut).
Proof.
  intros side center Hs j.
  pose proof (triangle_vertices_nonempty side center) as Hne.
  destruct (poly_jordan_spec _ Hne) as (Hv & Hl & Hlines & Hc & _ & _ & Hp).
  destruct unit_triangle_facts as (Une & Uc & Ush & Uin).
  destruct (simil_polygon_facts side center unit_triangle _ 1 Hs Hne
              (triangle_jordan_simil side center) Une Uc Ush ltac:(lra)) as (Harea & Hpos).
  fold (triangle_jordan side center) in *. fold j in Hv, Hl, Hlines, Hc, Hp, Harea, Hpos.
  split.
  { unfold prim_triangle, valid_size.
    assert (Qlt_bool 0 side = true) as -> by (apply Qlt_bool_iff; exact Hs).
    apply prim_polygon_ok, Hne. }
  split; [exact Hv|]. split; [exact Hl|]. split; [exact Hlines|]. split; [exact Hc|].
  split; [rewrite Harea; field|]. split; [exact Hpos|]. split.
  - rewrite <- Uin.
    apply (region_simil side center unit_triangle j (1 # 4, 1 # 4) _ Hs
             (triangle_jordan_simil side center)); try assumption.
    destruct center as [cx cy]. split; unfold simil, aff, padd; cbn [px py fst snd]; field.
  - intros p Hfar. unfold j.
    rewrite (region_far_right _ _ (triangle_left_of side center p Hs Hfar)).
    fold j. rewrite <- Hp, Hpos. reflexivity.
Qed.

(* ------------------------------------------------------------------ *)
(* P3. regular_polygon(4, r): the exact branch                         *)
(* ------------------------------------------------------------------ *)
Definition unit_diamond : jordan :=
  [[(1, 0); (0, 1)]; [(0, 1); (-(1), 0)]; [(-(1), 0); (0, -(1))]; [(0, -(1)); (1, 0)]].
Definition regular4_jordan (r : Q) (center : point) : jordan :=
  poly_jordan (regular4_vertices r center).

Lemma regular4_jordan_simil : forall r center,
  jordan_peq (regular4_jordan r center) (map (map (simil r center)) unit_diamond).
Proof.
  intros r [cx cy]. unfold regular4_jordan, regular4_vertices, at_center. cbn [map].
  rewrite poly_jordan4. jordan_peq_tac.
Qed.

Lemma unit_diamond_facts :
  nonempty_segs unit_diamond /\ closed_chain unit_diamond = true /\
  shoelace2 unit_diamond == 4 /\ region_simple unit_diamond (0, 0) = RIn.
Proof.
  split; [apply all_lines_nonempty; reflexivity|].
  split; [vm_compute; reflexivity|]. split; vm_compute; reflexivity.
Qed.

Lemma regular4_left_of : forall r center p, 0 < r -> px center + r < px p ->
  left_of (regular4_jordan r center) p.
Proof.
  intros r [cx cy] p Hs Hp. unfold regular4_jordan, regular4_vertices, at_center. cbn [map].
  rewrite poly_jordan4. cbn [px fst] in Hp. left_of_tac.
Qed.

Lemma regular4_vertices_nonempty : forall r center, regular4_vertices r center <> [].
Proof. intros. apply at_center_nonempty. discriminate. Qed.

Lemma regular4_vertices_doc : forall r center,
  Forall2 peq (regular4_vertices r center)
    [ (px center + r, py center); (px center, py center + r);
      (px center - r, py center); (px center, py center - r) ].
Proof.
  intros r [cx cy]. unfold regular4_vertices, at_center. cbn [map].
  repeat (constructor; [pt_eq_tac|]). constructor.
Qed.

Theorem regular4_spec : forall r center, 0 < r ->
  let j := regular4_jordan r center in
  prim_regular4 (PNum r) center = Ok (SC (CS j)) /\
  vertices j = regular4_vertices r center /\
  length j = 4%nat /\ all_lines j = true /\ closed_chain j = true /\
  jordan_area j == 2 * r * r /\
  jordan_pos j = true /\
  region_simple j center = RIn /\
  (forall p, px center + r < px p -> region_simple j p = ROut).
Proof.
  intros r center Hs j.
  pose proof (regular4_vertices_nonempty r center) as Hne.
  destruct (poly_jordan_spec _ Hne) as (Hv & Hl & Hlines & Hc & _ & _ & Hp).
  destruct unit_diamond_facts as (Une & Uc & Ush & Uin).
  destruct (simil_polygon_facts r center unit_diamond _ 4 Hs Hne
              (regular4_jordan_simil r center) Une Uc Ush ltac:(lra)) as (Harea & Hpos).
  fold (regular4_jordan r center) in *. fold j in Hv, Hl, Hlines, Hc, Hp, Harea, Hpos.
  split.
  { unfold prim_regular4, valid_size.
    assert (Qlt_bool 0 r = true) as -> by (apply Qlt_bool_iff; exact Hs).
    apply prim_polygon_ok, Hne. }
  split; [exact Hv|]. split; [exact Hl|]. split; [exact Hlines|]. split; [exact Hc|].
  split; [rewrite Harea; field|]. split; [exact Hpos|]. split.
  - rewrite <- Uin.
    apply (region_simil r center unit_diamond j (0, 0) center Hs
             (regular4_jordan_simil r center)); try assumption.
    destruct center as [cx cy]. split; unfold simil, aff; cbn [px py fst snd]; ring.
  - intros p Hfar. unfold j.
    rewrite (region_far_right _ _ (regular4_left_of r center p Hs Hfar)).
    fold j. rewrite <- Hp, Hpos. reflexivity.
Qed.

(* the code's own membership test agrees, wherever its 1e-6 boundary test
   answers the exact question (Spec.tol_exact) *)
Corollary polygon_contains_point : forall vs p b, vs <> [] ->
  tol_exact (poly_jordan vs) p ->
  spec_contains (region_simple (poly_jordan vs) p) b
                (contains_point (SC (CS (poly_jordan vs))) p b).
Proof.
  intros vs p b Hne HT.
  destruct (poly_jordan_spec vs Hne) as (_ & _ & Hlines & _ & _ & _ & Hp).
  apply (contains_point_spec (SC (CS (poly_jordan vs))) p b).
  - cbn. rewrite Hlines. reflexivity.
  - intros j [<-|[]]. exact HT.
  - intros j [<-|[]]. exact Hp.
Qed.
Corollary square_contains_center : forall side center b, 0 < side ->
  tol_exact (square_jordan side center) center ->
  contains_point (SC (CS (square_jordan side center))) center b = true.
Proof.
  intros side center b Hs HT.
  pose proof (polygon_contains_point _ center b (square_vertices_nonempty side center) HT) as H.
  destruct (square_spec side center Hs) as (_ & _ & _ & _ & _ & _ & _ & Hin & _).
  unfold square_jordan in Hin. rewrite Hin in H. exact H.
Qed.

(* ------------------------------------------------------------------ *)
(* P5. argument validation                                             *)
(* ------------------------------------------------------------------ *)
Theorem valid_size_some : forall a q,
  valid_size a = Some q <-> (a = PNum q /\ 0 < q) \/ (a = PBool true /\ q = 1).
Proof.
  intros a q. split.
  - destruct a as [x|x| | |[|]|]; cbn [valid_size]; try discriminate.
    + destruct (Qlt_bool 0 x) eqn:E; [|discriminate].
      intro H. inversion H; subst. left. split; [reflexivity | apply Qlt_bool_iff, E].
    + intro H. inversion H. right. split; reflexivity.
  - intros [[-> H] | [-> ->]]; cbn [valid_size]; [|reflexivity].
    apply Qlt_bool_iff in H. rewrite H. reflexivity.
Qed.
Theorem valid_size_none : forall a,
  valid_size a = None <-> (forall q, a = PNum q -> q <= 0) /\ a <> PBool true.
Proof.
  intros a. split.
  - destruct a as [x|x| | |[|]|]; cbn [valid_size]; try discriminate;
      try (intros _; split; [intros q Hq; discriminate Hq | discriminate]).
    destruct (Qlt_bool 0 x) eqn:E; [discriminate|]. intros _. split; [|discriminate].
    intros q Hq. inversion Hq; subst. apply Qlt_bool_false_iff, E.
  - intros [H1 H2]. destruct a as [x|x| | |[|]|]; cbn [valid_size]; try reflexivity.
    + assert (Qlt_bool 0 x = false) as -> by (apply Qlt_bool_false_iff, H1; reflexivity).
      reflexivity.
    + congruence.
Qed.
(* strings are rejected even when float() accepts them; True is accepted *)
Example valid_size_examples :
  valid_size (PNumStr 3) = None /\ valid_size PStr = None /\ valid_size PNone = None /\
  valid_size PList = None /\ valid_size (PBool false) = None /\ valid_size (PBool true) = Some 1 /\
  valid_size (PNum 0) = None /\ valid_size (PNum (-(1))) = None /\ valid_size (PNum (1 # 3)) = Some (1 # 3).
Proof. repeat split. Qed.

Section Validation.
Variable build : Q -> point -> list point.
Hypothesis build_nonempty : forall q center, build q center <> [].
Let prim (a : pyarg) (center : point) : res shape :=
  match valid_size a with
  | None => Err EValue
  | Some q => prim_polygon (build q center)
  end.
Lemma validation_generic : forall a center,
  (forall q, valid_size a = Some q -> prim a center = Ok (SC (CS (poly_jordan (build q center))))) /\
  (valid_size a = None -> prim a center = Err EValue) /\
  ((exists sh, prim a center = Ok sh) <-> valid_size a <> None) /\
  (forall k, prim a center = Err k -> k = EValue) /\
  prim a center <> NoFuel.
Proof.
  intros a center. unfold prim. destruct (valid_size a) as [q|].
  - rewrite (prim_polygon_ok _ (build_nonempty q center)). repeat split; try discriminate.
    + intros q' H. inversion H; subst. reflexivity.
    + intros _. eexists. reflexivity.
  - repeat split; try discriminate; try congruence;
      try (intros [sh H]; discriminate H); try (intros k H; inversion H; reflexivity).
Qed.
End Validation.


Theorem prim_square_validation : forall a center,
  (forall q, valid_size a = Some q -> prim_square a center = Ok (SC (CS (square_jordan q center)))) /\
  (valid_size a = None -> prim_square a center = Err EValue) /\
  ((exists sh, prim_square a center = Ok sh) <-> valid_size a <> None) /\
  (forall k, prim_square a center = Err k -> k = EValue) /\
  prim_square a center <> NoFuel.
Proof. exact (validation_generic square_vertices square_vertices_nonempty). Qed.
Theorem prim_triangle_validation : forall a center,
  (forall q, valid_size a = Some q -> prim_triangle a center = Ok (SC (CS (triangle_jordan q center)))) /\
  (valid_size a = None -> prim_triangle a center = Err EValue) /\
  ((exists sh, prim_triangle a center = Ok sh) <-> valid_size a <> None) /\
  (forall k, prim_triangle a center = Err k -> k = EValue) /\
  prim_triangle a center <> NoFuel.
Proof. exact (validation_generic triangle_vertices triangle_vertices_nonempty). Qed.
Theorem prim_regular4_validation : forall a center,
  (forall q, valid_size a = Some q -> prim_regular4 a center = Ok (SC (CS (regular4_jordan q center)))) /\
  (valid_size a = None -> prim_regular4 a center = Err EValue) /\
  ((exists sh, prim_regular4 a center = Ok sh) <-> valid_size a <> None) /\
  (forall k, prim_regular4 a center = Err k -> k = EValue) /\
  prim_regular4 a center <> NoFuel.
Proof. exact (validation_generic regular4_vertices regular4_vertices_nonempty). Qed.

(* True is an int: square(True) is the unit square *)
Example square_of_True : forall center,
  prim_square (PBool true) center = prim_square (PNum 1) center.
Proof. reflexivity. Qed.

(* regular_polygon / circle: n and the radius *)
Definition bad_args (nmin n : nat) (r : Q) : Prop := (n < nmin)%nat \/ r <= 0.
Lemma bad_args_bool : forall nmin n r,
  (n <? nmin)%nat || Qle_bool r 0 = true <-> bad_args nmin n r.
Proof.
  intros nmin n r. unfold bad_args. rewrite Bool.orb_true_iff, Nat.ltb_lt, Qle_bool_iff. tauto.
Qed.
Lemma bad_args_dec : forall nmin n r, bad_args nmin n r \/ ((nmin <= n)%nat /\ 0 < r).
Proof.
  intros nmin n r. unfold bad_args.
  destruct (Nat.ltb_spec n nmin); [left; left; assumption|].
  destruct (Qlt_le_dec 0 r); [right; split; assumption | left; right; assumption].
Qed.

Lemma regular_vertices_nonempty : forall n r c s center, (1 <= n)%nat ->
  regular_vertices n r c s center <> [].
Proof.
  intros n r c s center H. destruct n as [|n]; [lia|].
  unfold regular_vertices, at_center. cbn [seq map]. discriminate.
Qed.
Definition regular_jordan (n : nat) (r c s : Q) (center : point) : jordan :=
  poly_jordan (regular_vertices n r c s center).

Theorem prim_regular_validation : forall n r c s center,
  (bad_args 3 n r -> prim_regular n r c s center = Err EValue) /\
  ((3 <= n)%nat -> 0 < r ->
     prim_regular n r c s center = Ok (SC (CS (regular_jordan n r c s center)))) /\
  (prim_regular n r c s center = Err EValue <-> bad_args 3 n r) /\
  (forall k, prim_regular n r c s center = Err k -> k = EValue) /\
  prim_regular n r c s center <> NoFuel.
Proof.
  intros n r c s center.
  assert (A : bad_args 3 n r -> prim_regular n r c s center = Err EValue).
  { intro H. unfold prim_regular. apply bad_args_bool in H. rewrite H. reflexivity. }
  assert (B : (3 <= n)%nat -> 0 < r ->
     prim_regular n r c s center = Ok (SC (CS (regular_jordan n r c s center)))).
  { intros Hn Hr. unfold prim_regular.
    destruct ((n <? 3)%nat || Qle_bool r 0) eqn:E.
    - apply bad_args_bool in E. destruct E; [lia | lra].
    - apply prim_polygon_ok, regular_vertices_nonempty. lia. }
  split; [exact A|]. split; [exact B|].
  destruct (bad_args_dec 3 n r) as [H | [Hn Hr]].
  - rewrite (A H). repeat split; try discriminate; try tauto.
    intros k E. inversion E. reflexivity.
  - rewrite (B Hn Hr). repeat split; try discriminate.
    intros [H | H]; [lia | lra].
Qed.

(* ------------------------------------------------------------------ *)
(* P6. circle: every arc lies in a thin band around the true circle    *)
(* ------------------------------------------------------------------ *)
Lemma one_plus_sq_pos : forall h, 0 < 1 + h * h.
Proof. intro h. nra. Qed.
Lemma one_plus_sq_nz : forall h, ~ 1 + h * h == 0.
Proof. intros h H. pose proof (one_plus_sq_pos h). lra. Qed.

(* (c, s) is a point of the unit circle *)
Theorem circ_unit : forall h, circ_c h * circ_c h + circ_s h * circ_s h == 1.
Proof. intro h. unfold circ_c, circ_s. field. apply one_plus_sq_nz. Qed.
(* ndivangle >= 4, i.e. angle <= pi/2, is 0 < h <= 1: the rotation stays in the first quadrant *)
Lemma circ_quadrant : forall h, 0 < h -> h <= 1 -> 0 <= circ_c h /\ 0 < circ_s h.
Proof.
  intros h H0 H1. pose proof (one_plus_sq_pos h) as HD. unfold circ_c, circ_s, Qdiv. split.
  - apply Qmult_le_0_compat; [nra | apply Qlt_le_weak, Qinv_lt_0_compat, HD].
  - apply Qmult_lt_0_compat; [lra | apply Qinv_lt_0_compat, HD].
Qed.
Example circ_quarter_turn : circ_c 1 == 0 /\ circ_s 1 == 1.
Proof. split; reflexivity. Qed.

(* a quadratic segment, explicitly *)
Definition quad_pt (a m b : point) (t : Q) : point :=
  ((1 - t) * (1 - t) * px a + 2 * t * (1 - t) * px m + t * t * px b,
   (1 - t) * (1 - t) * py a + 2 * t * (1 - t) * py m + t * t * py b).
Lemma eval_quadratic : forall a m b t, peq (eval [a; m; b] t) (quad_pt a m b t).
Proof. intros [x0 y0] [x1 y1] [x2 y2] t. qcbv. split; ring. Qed.
Lemma quad_pt_peq : forall a a' m m' b b' t, peq a a' -> peq m m' -> peq b b' ->
  peq (quad_pt a m b t) (quad_pt a' m' b' t).
Proof.
  intros a a' m m' b b' t [A1 A2] [M1 M2] [B1 B2]. unfold quad_pt. split; cbn [px py fst snd].
  - rewrite A1, M1, B1. reflexivity.
  - rewrite A2, M2, B2. reflexivity.
Qed.
Lemma eval_quadratic_peq : forall a a' m m' b b' t, peq a a' -> peq m m' -> peq b b' ->
  peq (eval [a; m; b] t) (eval [a'; m'; b'] t).
Proof.
  intros. eapply peq_trans; [apply eval_quadratic|].
  eapply peq_trans; [|apply peq_sym, eval_quadratic]. apply quad_pt_peq; assumption.
Qed.

(* the band identity: |B(t)|^2 = r^2 (1 + 4 h^4 t^2 (1-t)^2 / (1 + h^2)) *)
Theorem circle_band_identity : forall r h t,
  norm2 (eval (circle_arc r h) t) ==
  r * r * (1 + 4 * (h * h * h * h) * (t * t) * ((1 - t) * (1 - t)) / (1 + h * h)).
Proof.
  intros r h t. unfold circle_arc. rewrite (norm2_peq _ _ (eval_quadratic _ _ _ t)).
  unfold norm2, inner, quad_pt, circ_c, circ_s. cbn [px py fst snd].
  field. apply one_plus_sq_nz.
Qed.

Lemma sq_nonneg : forall x : Q, 0 <= x * x.
Proof. intro x. nra. Qed.
Lemma tt_bound : forall t, 0 <= t -> t <= 1 -> 0 <= t * (1 - t) /\ t * (1 - t) <= 1 # 4.
Proof. intros t H0 H1. split; [nra|]. pose proof (sq_nonneg (2 * t - 1)). lra. Qed.

Definition band_hi (h : Q) : Q :=
 1 + h * h * h * h / (4 * (1 + h * h)).

Theorem circle_band : forall r h t, 0 <= t -> t <= 1 ->
  r * r <= norm2 (eval (circle_arc r h) t) /\
  norm2 (eval (circle_arc r h) t) <= r * r * band_hi h.
Proof.
  intros r h t H0 H1. rewrite circle_band_identity. unfold band_hi.
  pose proof (one_plus_sq_pos h) as HD.
  set (w := / (1 + h * h)).
  assert (Hw : 0 < w) by (apply Qinv_lt_0_compat, HD).
  set (K := h * h * h * h * w).
  assert (HK : 0 <= K).
  { unfold K. apply Qmult_le_0_compat; [|lra].
    setoid_replace (h * h * h * h) with ((h * h) * (h * h)) by ring. nra. }
  set (u := t * (1 - t)).
  destruct (tt_bound t H0 H1) as [Hu0 Hu1]. fold u in Hu0, Hu1.

  assert (E1 : r * r * (1 + 4 * (h * h * h * h) * (t * t) * ((1 - t) * (1 - t)) / (1 + h * h))
               == r * r + (r * r) * (K * (4 * (u * u)))).
  { unfold K, u, w. field. apply one_plus_sq_nz. }
  assert (E2 : r * r * (1 + h * h * h * h / (4 * (1 + h * h)))
               == r * r + (r * r) * (K * (1 # 4))).
  { unfold K, w. field. apply one_plus_sq_nz. }
  rewrite E1, E2.
  assert (Hr : 0 <= r * r) by nra.
  assert (Huu0 : 0 <= 4 * (u * u)) by nra.
  assert (Huu1 : 4 * (u * u) <= 1 # 4) by nra.
  assert (A : 0 <= K * (4 * (u * u))) by (apply Qmult_le_0_compat; assumption).
  assert (B : K * (4 * (u * u)) <= K * (1 # 4)).
  { rewrite !(Qmult_comm K). apply Qmult_le_compat_r; assumption. }
  split.
  - assert (0 <= r * r * (K * (4 * (u * u)))) by (apply Qmult_le_0_compat; assumption). lra.
  - assert (r * r * (K * (4 * (u * u))) <= r * r * (K * (1 # 4))).
    { rewrite !(Qmult_comm (r * r)). apply Qmult_le_compat_r; assumption. }
    lra.
Qed.
(* for ndivangle >= 4 (h <= 1) the relative excess of |B|^2 is at most 1/8,
   for the default ndivangle = 16 (h = tan(pi/16) < 1/5) below 1/2500 *)
Corollary band_hi_le : forall h, 0 <= h -> h <= 1 -> band_hi h <= 9 # 8.
Proof.
  intros h H0 H1. unfold band_hi.
  assert (h * h * h * h / (4 * (1 + h * h)) <= 1 # 8); [|lra].
  apply Qle_shift_div_r; [pose proof (one_plus_sq_pos h); lra|].
  assert (h * h <= 1) by nra. assert (0 <= h * h) by nra.
  setoid_replace (h * h * h * h) with ((h * h) * (h * h)) by ring. nra.
Qed.
Corollary band_hi_small : forall h, 0 <= h -> h <= 1 # 5 -> band_hi h <= 2501 # 2500.
Proof.
  intros h H0 H1. unfold band_hi.
  assert (h * h * h * h / (4 * (1 + h * h)) <= 1 # 2500); [|lra].
  apply Qle_shift_div_r; [pose proof (one_plus_sq_pos h); lra|].
  assert (h * h <= 1 # 25) by nra. assert (0 <= h * h) by nra.
  setoid_replace (h * h * h * h) with ((h * h) * (h * h)) by ring. nra.
Qed.

(* rotations *)
Lemma rot_pt_peq : forall c s p q, peq p q -> peq (rot_pt c s p) (rot_pt c s q).
Proof.
  intros c s p q [H1 H2]. split; rewrite ?px_rot_pt, ?py_rot_pt, H1, H2; reflexivity.
Qed.
Lemma rot_pt_n_peq : forall c s k p q, peq p q -> peq (rot_pt_n c s k p) (rot_pt_n c s k q).
Proof. intros c s k p q H. induction k; [exact H|]. cbn [rot_pt_n]. apply rot_pt_peq, IHk. Qed.
Lemma rot_pt_n_comm : forall c s k p, rot_pt_n c s k (rot_pt c s p) = rot_pt c s (rot_pt_n c s k p).
Proof. intros c s k p. induction k; [reflexivity|]. cbn [rot_pt_n]. rewrite IHk. reflexivity. Qed.
Lemma norm2_rot_pt : forall c s p, norm2 (rot_pt c s p) == (c * c + s * s) * norm2 p.
Proof.
  intros c s p. unfold norm2, inner. rewrite px_rot_pt, py_rot_pt. ring.
Qed.
Lemma norm2_rot_pt_n : forall c s k p, c * c + s * s == 1 ->
  norm2 (rot_pt_n c s k p) == norm2 p.
Proof.
  intros c s k p H. induction k; [reflexivity|]. cbn [rot_pt_n].
  rewrite norm2_rot_pt, H, IHk. ring.
Qed.
Lemma cross_rot_pt : forall c s p q,
  cross (rot_pt c s p) (rot_pt c s q) == (c * c + s * s) * cross p q.
Proof. intros c s p q. unfold cross. rewrite !px_rot_pt, !py_rot_pt. ring. Qed.

Lemma eval_rot_quadratic : forall c s a m b t,
  peq (eval [rot_pt c s a; rot_pt c s m; rot_pt c s b] t) (rot_pt c s (eval [a; m; b] t)).
Proof.
  intros c s a m b t.
  eapply peq_trans; [apply eval_quadratic|].
  eapply peq_trans; [|apply rot_pt_peq, peq_sym, eval_quadratic].
  split; rewrite ?px_rot_pt, ?py_rot_pt; unfold quad_pt; cbn [px py fst snd];
    rewrite ?px_rot_pt, ?py_rot_pt; ring.
Qed.
Lemma eval_rot_n_quadratic : forall c s k a m b t,
  peq (eval [rot_pt_n c s k a; rot_pt_n c s k m; rot_pt_n c s k b] t)
      (rot_pt_n c s k (eval [a; m; b] t)).
Proof.
  intros c s k a m b t. induction k; [apply peq_refl|]. cbn [rot_pt_n].
  eapply peq_trans; [apply eval_rot_quadratic|]. apply rot_pt_peq, IHk.
Qed.
Lemma eval_move_quadratic : forall v a m b t,
  peq (eval [move_pt v a; move_pt v m; move_pt v b] t) (move_pt v (eval [a; m; b] t)).
Proof.
  intros v a m b t.
  eapply peq_trans; [apply eval_quadratic|].
  destruct (eval_quadratic a m b t) as [E1 E2].
  split; rewrite ?px_move_pt, ?py_move_pt, ?E1, ?E2; unfold quad_pt; cbn [px py fst snd];
    rewrite ?px_move_pt, ?py_move_pt; ring.
Qed.
Lemma psub_peq : forall a a' b b', peq a a' -> peq b b' -> peq (psub a b) (psub a' b').
Proof.
  intros a a' b b' [A1 A2] [B1 B2]. unfold psub. split; cbn [px py fst snd];
    rewrite ?A1, ?A2, ?B1, ?B2; reflexivity.
Qed.
Lemma psub_move_pt : forall v p, peq (psub (move_pt v p) v) p.

Proof.
  intros v p. unfold psub. split; cbn [px py fst snd]; rewrite ?px_move_pt, ?py_move_pt; ring.
Qed.

(* arc k of the circle of radius r about `center`: arc 0 rotated k times, then moved *)
Definition circle_arc_k (r h : Q) (k : nat) (center : point) : seg :=
  map (move_pt center) (map (rot_pt_n (circ_c h) (circ_s h) k) (circle_arc r h)).

Theorem circle_arc_k_band : forall r h k center t, 0 <= t -> t <= 1 ->
  let d2 := norm2 (psub (eval (circle_arc_k r h k center) t) center) in
  r * r <= d2 /\ d2 <= r * r * band_hi h.
Proof.
  intros r h k center t H0 H1 d2.
  assert (E : d2 == norm2 (eval (circle_arc r h) t)).
  { unfold d2, circle_arc_k, circle_arc. cbn [map].
    set (c := circ_c h). set (s := circ_s h).
    assert (P : peq (psub (eval [move_pt center (rot_pt_n c s k (r, 0));
                                 move_pt center (rot_pt_n c s k (r, r * h));
                                 move_pt center (rot_pt_n c s k (r * c, r * s))] t) center)
                    (rot_pt_n c s k (eval [(r, 0); (r, r * h); (r * c, r * s)] t))).
    { set (Y := eval [rot_pt_n c s k (r, 0); rot_pt_n c s k (r, r * h);
                      rot_pt_n c s k (r * c, r * s)] t).
      apply (peq_trans _ (psub (move_pt center Y) center)).
      - apply psub_peq; [apply eval_move_quadratic | apply peq_refl].
      - apply (peq_trans _ Y); [apply psub_move_pt | apply eval_rot_n_quadratic]. }

    rewrite (norm2_peq _ _ P). apply norm2_rot_pt_n. apply circ_unit. }
  rewrite E. apply circle_band; assumption.
Qed.

(* ---------- the loop of the code ---------- *)
Section Loop.
Variables c s : Q.
Local Notation R := (rot_pt c s).
Local Notation Rn := (rot_pt_n c s).

Lemma circle_loop_SS : forall n st mi fi,
  circle_loop c s (S (S n)) st mi fi =
  [st; mi; R st] :: circle_loop c s (S n) (R st) (R mi) fi.
Proof. reflexivity. Qed.

Lemma circle_loop_length : forall n st mi fi, length (circle_loop c s n st mi fi) = n.
Proof.
  induction n as [|n IH]; intros st mi fi; [reflexivity|].
  destruct n as [|n]; [reflexivity|].
  rewrite circle_loop_SS. cbn [length]. rewrite IH. reflexivity.
Qed.

(* arc k, k < n - 1 *)
Lemma circle_loop_nth : forall n st mi fi k, (S k < n)%nat ->
  nth k (circle_loop c s n st mi fi) [] = [Rn k st; Rn k mi; Rn (S k) st].
Proof.
  induction n as [|n IH]; intros st mi fi k Hk; [lia|].
  destruct n as [|n]; [lia|]. rewrite circle_loop_SS.
  destruct k as [|k]; [reflexivity|].
  cbn [nth]. rewrite IH by lia. cbn [rot_pt_n]. rewrite !rot_pt_n_comm. reflexivity.
Qed.
(* the last arc ends at `first` *)
Lemma circle_loop_last : forall n st mi fi,
  nth n (circle_loop c s (S n) st mi fi) [] = [Rn n st; Rn n mi; fi].
Proof.
  induction n as [|n IH]; intros st mi fi; [reflexivity|].
  rewrite circle_loop_SS. cbn [nth]. rewrite IH. cbn [rot_pt_n].
  rewrite !rot_pt_n_comm. reflexivity.
Qed.
Lemma circle_loop_arc : forall n st mi fi k, (k < n)%nat ->
  nth k (circle_loop c s n st mi fi) [] =
  [Rn k st; Rn k mi; if (S k <? n)%nat then Rn (S k) st else fi].
Proof.
  intros n st mi fi k Hk. destruct (Nat.ltb_spec (S k) n) as [H | H].
  - apply circle_loop_nth, H.
  - assert (n = S k) as -> by lia. apply circle_loop_last.
Qed.

(* every junction is exact (the end point IS the next start point), so
   from_segments accepts the list and only degree-reduces *)
Lemma circle_loop_from_segments : forall n st mi,
  from_segments (circle_loop c s n st mi st) = Ok (set_segments (circle_loop c s n st mi st)).
Proof.
  intros n st mi. apply from_segments_exact.
  - intros sg Hin. destruct (In_nth _ _ [] Hin) as (k & Hk & <-).
    rewrite circle_loop_length in Hk. rewrite circle_loop_arc by exact Hk. discriminate.
  - rewrite circle_loop_length. intros i Hi.
    assert (Hm : ((i + 1) mod n < n)%nat) by (apply Nat.mod_upper_bound; lia).
    rewrite (circle_loop_arc n st mi st i Hi), (circle_loop_arc n st mi st _ Hm).
    cbn [last_pt last first_pt hd].
    destruct (Nat.ltb_spec (S i) n) as [H | H].
    + rewrite succ_mod_small by exact H. reflexivity.
    + rewrite succ_mod_wrap by lia. reflexivity.
Qed.
End Loop.

(* ---------- degree reduction leaves genuine quadratics alone ---------- *)
Definition dd2 (a m b : point) : point := psub (psub b m) (psub m a).
Lemma reducible_quadratic : forall a m b, reducible [a; m; b] = peqb (dd2 a m b) pzero.
Proof.
  intros a m b. unfold reducible, degree.
  cbn [length Nat.sub Nat.leb fwd_diff pairs_of map forallb fst snd andb]. apply Bool.andb_true_r.
Qed.
Lemma norm2_zero : forall p, peq p pzero -> norm2 p == 0.
Proof. intros p [H1 H2]. unfold norm2, inner. rewrite H1, H2. cbn. ring. Qed.
Lemma seg_clean_quadratic : forall a m b, ~ norm2 (dd2 a m b) == 0 ->
  seg_clean [a; m; b] = [a; m; b].
Proof.
  intros a m b H. unfold seg_clean. cbn [length seg_clean_fuel].
  rewrite reducible_quadratic.
  destruct (peqb (dd2 a m b) pzero) eqn:E; [|reflexivity].
  apply peqb_peq in E. apply norm2_zero in E. contradiction.
Qed.

Lemma norm2_dd2_rot : forall c s a m b,
  norm2 (dd2 (rot_pt c s a) (rot_pt c s m) (rot_pt c s b)) == (c * c + s * s) * norm2 (dd2 a m b).
Proof.
  intros c s a m b. unfold norm2, inner, dd2, psub. cbn [px py fst snd].
  rewrite !px_rot_pt, !py_rot_pt. ring.
Qed.
Lemma norm2_dd2_rot_n : forall c s k a m b, c * c + s * s == 1 ->
  norm2 (dd2 (rot_pt_n c s k a) (rot_pt_n c s k m) (rot_pt_n c s k b)) == norm2 (dd2 a m b).
Proof.
  intros c s k a m b H. induction k; [reflexivity|]. cbn [rot_pt_n].
  rewrite norm2_dd2_rot, H, IHk. ring.
Qed.
Definition lc2 (m a : point) : point := psub (pscale 2 m) a.
Lemma norm2_lc2_rot : forall c s m a,
  norm2 (lc2 (rot_pt c s m) (rot_pt c s a)) == (c * c + s * s) * norm2 (lc2 m a).
Proof.
  intros c s m a. unfold norm2, inner, lc2, psub, pscale. cbn [px py fst snd].
  rewrite !px_rot_pt, !py_rot_pt. ring.
Qed.
Lemma norm2_lc2_rot_n : forall c s k m a, c * c + s * s == 1 ->
  norm2 (lc2 (rot_pt_n c s k m) (rot_pt_n c s k a)) == norm2 (lc2 m a).
Proof.
  intros c s k m a H. induction k; [reflexivity|]. cbn [rot_pt_n].
  rewrite norm2_lc2_rot, H, IHk. ring.
Qed.
(* b - 2m + a = 0 forces |b| = |2m - a| *)
Lemma dd2_zero_norm : forall a m b, norm2 (dd2 a m b) == 0 -> norm2 b == norm2 (lc2 m a).
Proof.
  intros a m b H. unfold norm2, inner, dd2, lc2, psub, pscale in *. cbn [px py fst snd] in *.
  set (u := px b - px m - (px m - px a)) in *. set (v := py b - py m - (py m - py a)) in *.
  assert (Hu : u == 0) by nra. assert (Hv : v == 0) by nra.
  assert (px b == 2 * px m - px a) as -> by (unfold u in Hu; lra).
  assert (py b == 2 * py m - py a) as -> by (unfold v in Hv; lra).
  reflexivity.
Qed.

Lemma pow4_pos : forall h, ~ h == 0 -> 0 < h * h * h * h.
Proof.
  intros h H. assert (0 < h * h) by nra.
  setoid_replace (h * h * h * h) with ((h * h) * (h * h)) by ring. nra.
Qed.

Theorem circle_segs_irreducible : forall n r h sg, ~ r == 0 -> ~ h == 0 ->
  In sg (circle_segs n r h) -> seg_clean sg = sg.
Proof.
  intros n r h sg Hr Hh Hin. unfold circle_segs in Hin.
  destruct (In_nth _ _ [] Hin) as (k & Hk & <-).
  rewrite circle_loop_length in Hk. rewrite circle_loop_arc by exact Hk.
  set (c := circ_c h). set (s := circ_s h).
  pose proof (circ_unit h) as HU. fold c s in HU.
  assert (Hrr : 0 < r * r) by nra.
  apply seg_clean_quadratic.
  destruct (S k <? n)%nat.
  - cbn [rot_pt_n]. rewrite <- rot_pt_n_comm. rewrite (norm2_dd2_rot_n c s k _ _ _ HU).
    assert (E : norm2 (dd2 (r, 0) (r, r * h) (rot_pt c s (r, 0)))
                == 4 * (r * r) * (h * h * h * h) / (1 + h * h)).
    { unfold norm2, inner, dd2, psub. cbn [px py fst snd]. rewrite px_rot_pt, py_rot_pt.
      cbn [px py fst snd]. unfold c, s, circ_c, circ_s. field. apply one_plus_sq_nz. }
    rewrite E. intro Z.
    pose proof (pow4_pos h Hh) as H4. pose proof (one_plus_sq_pos h) as HD.
    assert (0 < 4 * (r * r) * (h * h * h * h) / (1 + h * h)); [|lra].
    apply Qlt_shift_div_l; [exact HD|]. nra.
  - intro Z. apply dd2_zero_norm in Z. rewrite (norm2_lc2_rot_n c s k _ _ HU) in Z.
    unfold norm2, inner, lc2, psub, pscale in Z. cbn [px py fst snd] in Z.
    assert (0 < h * h) by nra. nra.
Qed.
Corollary circle_segs_clean : forall n r h, ~ r == 0 -> ~ h == 0 ->
  set_segments (circle_segs n r h) = circle_segs n r h.
Proof.
  intros n r h Hr Hh. unfold set_segments.
  rewrite (map_ext_in _ (fun x => x)); [apply map_id|].
  intros sg Hin. apply (circle_segs_irreducible n r h sg Hr Hh Hin).
Qed.

(* ---------- what prim_circle returns ---------- *)
Definition circle_jordan (n : nat) (r h : Q) (center : point) : jordan :=
  map (map (move_pt center)) (circle_segs n r h).

Theorem prim_circle_validation : forall n r h center,
  (bad_args 4 n r -> prim_circle n r h center = Err EValue) /\
  ((4 <= n)%nat -> 0 < r ->
     prim_circle n r h center =
     Ok (SC (CS (map (map (move_pt center)) (set_segments (circle_segs n r h)))))) /\
  (prim_circle n r h center = Err EValue <-> bad_args 4 n r) /\
  (forall k, prim_circle n r h center = Err k -> k = EValue) /\
  prim_circle n r h center <> NoFuel.
Proof.
  intros n r h center.
  assert (A : bad_args 4 n r -> prim_circle n r h center = Err EValue).
  { intro H. unfold prim_circle. apply bad_args_bool in H. rewrite H. reflexivity. }
  assert (B : (4 <= n)%nat -> 0 < r ->
     prim_circle n r h center =
     Ok (SC (CS (map (map (move_pt center)) (set_segments (circle_segs n r h)))))).
  { intros Hn Hr. unfold prim_circle.
    destruct ((n <? 4)%nat || Qle_bool r 0) eqn:E.
    - apply bad_args_bool in E. destruct E; [lia | lra].
    - unfold circle_segs. rewrite circle_loop_from_segments. reflexivity. }
  split; [exact A|]. split; [exact B|].
  destruct (bad_args_dec 4 n r) as [H | [Hn Hr]].
  - rewrite (A H). repeat split; try discriminate; try tauto.
    intros k E. inversion E. reflexivity.
  - rewrite (B Hn Hr). repeat split; try discriminate.
    intros [H | H]; [lia | lra].
Qed.

(* for a genuine angle (h <> 0) the result is exactly the n quadratic arcs of the loop *)
Theorem prim_circle_ok : forall n r h center, (4 <= n)%nat -> 0 < r -> ~ h == 0 ->
  prim_circle n r h center = Ok (SC (CS (circle_jordan n r h center))) /\
  length (circle_jordan n r h center) = n /\
  (forall sg, In sg (circle_jordan n r h center) -> length sg = 3%nat).
Proof.
  intros n r h center Hn Hr Hh.
  destruct (prim_circle_validation n r h center) as (_ & B & _).
  split; [|split].
  - rewrite (B Hn Hr), circle_segs_clean; [reflexivity | lra | exact Hh].
  - unfold circle_jordan, circle_segs. rewrite map_length. apply circle_loop_length.
  - intros sg Hin. unfold circle_jordan in Hin. apply in_map_iff in Hin.
    destruct Hin as (sg0 & <- & Hin0). rewrite map_length. unfold circle_segs in Hin0.
    destruct (In_nth _ _ [] Hin0) as (k & Hk & <-).
    rewrite circle_loop_length in Hk. rewrite circle_loop_arc by exact Hk. reflexivity.
Qed.

(* arc k of the result is, up to ==, arc 0 rotated k times and moved *)
Lemma circle_jordan_nth : forall n r h center k, (k < n)%nat ->
  nth k (circle_jordan n r h center) [] =
  map (move_pt center)
    [rot_pt_n (circ_c h) (circ_s h) k (r, 0); rot_pt_n (circ_c h) (circ_s h) k (r, r * h);
     if (S k <? n)%nat then rot_pt_n (circ_c h) (circ_s h) (S k) (r, 0) else (r, 0)].
Proof.
  intros n r h center k Hk. unfold circle_jordan.
  change (@nil point) with (map (move_pt center) []) at 1. rewrite map_nth.
  unfold circle_segs. rewrite circle_loop_arc by exact Hk. reflexivity.
Qed.
Lemma move_pt_peq : forall v p q, peq p q -> peq (move_pt v p) (move_pt v q).
Proof. intros v p q [H1 H2]. split; rewrite ?px_move_pt, ?py_move_pt, ?H1, ?H2; reflexivity. Qed.


(* the closing hypothesis: n rotations bring (r, 0) back *)
Definition closes (n : nat) (r h : Q) : Prop :=
  peq (rot_pt_n (circ_c h) (circ_s h) n (r, 0)) (r, 0).

Theorem circle_jordan_arc : forall n r h center k, (k < n)%nat ->
  ((S k < n)%nat \/ closes n r h) ->
  seg_peq (nth k (circle_jordan n r h center) []) (circle_arc_k r h k center).
Proof.
  intros n r h center k Hk Hc. rewrite circle_jordan_nth by exact Hk.
  unfold circle_arc_k, circle_arc. cbn [map].
  set (c := circ_c h) in *. set (s := circ_s h) in *.
  assert (E : peq (rot_pt_n c s (S k) (r, 0)) (rot_pt_n c s k (r * c, r * s))).
  { cbn [rot_pt_n]. rewrite <- rot_pt_n_comm. apply rot_pt_n_peq.
    split; rewrite ?px_rot_pt, ?py_rot_pt; cbn [px py fst snd]; ring. }
  constructor; [apply peq_refl|]. constructor; [apply peq_refl|].
  constructor; [|constructor]. apply move_pt_peq.
  destruct (Nat.ltb_spec (S k) n) as [H | H]; [exact E|].
  destruct Hc as [Hc | Hc]; [lia|].
  assert (n = S k) as Hn by lia. unfold closes in Hc. fold c s in Hc. rewrite Hn in Hc.
  apply (peq_trans _ (rot_pt_n c s (S k) (r, 0))); [apply peq_sym, Hc | exact E].
Qed.

Lemma eval_seg_peq3 : forall a b t, length a = 3%nat -> seg_peq a b ->
  peq (eval a t) (eval b t).
Proof.
  intros a b t Hl H.
  destruct H as [|x x' ? ? Hx H]; [discriminate|].
  destruct H as [|y y' ? ? Hy H]; [discriminate|].
  destruct H as [|z z' ? ? Hz H]; [discriminate|].
  destruct H; [|discriminate]. apply eval_quadratic_peq; assumption.
Qed.

(* P6 on the value returned by prim_circle: every arc (the last one when the
   rotation closes up) stays in the band r^2 <= |B - center|^2 <= r^2 band_hi(h) *)
Theorem prim_circle_band : forall n r h center k t, (k < n)%nat ->
  ((S k < n)%nat \/ closes n r h) -> 0 <= t -> t <= 1 ->
  let d2 := norm2 (psub (eval (nth k (circle_jordan n r h center) []) t) center) in
  r * r <= d2 /\ d2 <= r * r * band_hi h.
Proof.
  intros n r h center k t Hk Hc H0 H1 d2.
  assert (E : d2 == norm2 (psub (eval (circle_arc_k r h k center) t) center)).
  { unfold d2. apply norm2_peq, psub_peq; [|apply peq_refl].
    apply eval_seg_peq3; [|apply circle_jordan_arc; assumption].
    rewrite circle_jordan_nth by exact Hk. reflexivity. }
  rewrite E. apply circle_arc_k_band; assumption.
Qed.

(* the junction points lie exactly on the circle *)
Theorem circle_arc_ends : forall r h k center,
  norm2 (psub (first_pt (circle_arc_k r h k center)) center) == r * r /\
  norm2 (psub (last_pt (circle_arc_k r h k center)) center) == r * r.
Proof.
  intros r h k center. unfold circle_arc_k, circle_arc. cbn [map first_pt last_pt hd last].
  rewrite !(norm2_peq _ _ (psub_move_pt _ _)).
  rewrite !(norm2_rot_pt_n _ _ _ _ (circ_unit h)).
  pose proof (circ_unit h) as HU. unfold norm2, inner. cbn [px py fst snd]. split; [ring|].
  setoid_replace (r * circ_c h * (r * circ_c h) + r * circ_s h * (r * circ_s h))
    with (r * r * (circ_c h * circ_c h + circ_s h * circ_s h)) by ring.
  rewrite HU. ring.
Qed.

(* ------------------------------------------------------------------ *)
(* P7. circle: area                                                    *)
(* ------------------------------------------------------------------ *)
(* the x dy integral of a quadratic segment: the 6-node open Newton-Cotes
   rule of the code is exact for the cubic integrand *)
Lemma eval_derivate_quadratic_y : forall a m b t,
  py (eval (derivate [a; m; b]) t) ==
  2 * (py m - py a) + t * (2 * (py a - 2 * py m + py b)).
Proof. intros [x0 y0] [x1 y1] [x2 y2] t. qcbv. ring. Qed.

Definition quad_X (a m b : point) : poly := [px a; 2 * (px m - px a); px a - 2 * px m + px b].
Definition quad_dY (a m b : point) : poly := [2 * (py m - py a); 2 * (py a - 2 * py m + py b)].

Lemma vertical_quadratic_quad : forall a m b,
  vertical [a; m; b] 1 0 ==
  quad (nc_w 6) (open_linspace 6) (peval (poly_mul (quad_X a m b) (quad_dY a m b))).
Proof.
  intros a m b. unfold vertical. rewrite Qred_correct.
  change (quad (nc_w 6) (open_linspace 6)
            (fun t => Qpow (px (eval [a; m; b] t)) 1 * Qpow (py (eval [a; m; b] t)) 0 *
                      py (eval (derivate [a; m; b]) t))
          == quad (nc_w 6) (open_linspace 6) (peval (poly_mul (quad_X a m b) (quad_dY a m b)))).
  apply quad_ext. intro t. rewrite peval_mul.
  destruct (eval_quadratic a m b t) as [E1 _]. cbn [Qpow].
  rewrite E1, eval_derivate_quadratic_y.
  unfold quad_pt, quad_X, quad_dY. cbn [peval px py fst snd]. ring.
Qed.

Theorem vertical_quadratic_area : forall a m b,
  vertical [a; m; b] 1 0 ==
  (cross a m + cross m b) / 3 + cross a b / 6 + (px b * py b - px a * py a) / 2.
Proof.
  intros a m b. rewrite vertical_quadratic_quad. unfold quad.
  rewrite nc_poly_exact;

    [| lia | cbv [quad_X quad_dY poly_mul poly_add poly_scale map length]; lia].
  cbv [quad_X quad_dY poly_mul poly_add poly_scale map pint01 pint01_from cross
       nQ Z.of_nat Pos.of_succ_nat Pos.succ inject_Z].
  field.
Qed.

(* the sector swept from the origin by a quadratic segment: rotation invariant *)
Definition qsector (a m b : point) : Q := (cross a m + cross m b) / 3 + cross a b / 6.
Lemma qsector_rot : forall c s a m b, c * c + s * s == 1 ->
  qsector (rot_pt c s a) (rot_pt c s m) (rot_pt c s b) == qsector a m b.
Proof.
  intros c s a m b H. unfold qsector. rewrite !cross_rot_pt, H. field.
Qed.

(* one arc of the circle: its x dy contribution and the sector it sweeps *)
Theorem circle_arc_vertical : forall r h,
  vertical (circle_arc r h) 1 0 ==
  2 * (r * r) * h * (3 + h * h + h * h * h * h) / (3 * ((1 + h * h) * (1 + h * h))).
Proof.
  intros r h. unfold circle_arc. rewrite vertical_quadratic_area.
  unfold cross, circ_c, circ_s. cbn [px py fst snd]. field. apply one_plus_sq_nz.
Qed.
Theorem circle_arc_sector : forall r h,
  qsector (r, 0) (r, r * h) (r * circ_c h, r * circ_s h) ==
  (r * r) * h * (3 + 2 * (h * h)) / (3 * (1 + h * h)).
Proof.
  intros r h. unfold qsector, cross, circ_c, circ_s. cbn [px py fst snd].
  field. apply one_plus_sq_nz.
Qed.
Corollary circle_arc_vertical_pos : forall r h, ~ r == 0 -> 0 < h ->
  0 < vertical (circle_arc r h) 1 0.
Proof.
  intros r h Hr Hh. rewrite circle_arc_vertical.
  pose proof (one_plus_sq_pos h) as HD.
  assert (0 < r * r) by nra. assert (0 <= h * h) by nra.
  assert (0 <= h * h * h * h) by (setoid_replace (h * h * h * h) with ((h * h) * (h * h)) by ring; nra).
  apply Qlt_shift_div_l; [nra|].
  assert (0 < r * r * h) by nra. nra.
Qed.
(* the sector is larger than the circular sector it replaces would be for the
   inscribed polygon: r^2 s / 2 (triangle 0, start, end) *)
Corollary circle_arc_sector_ge_triangle : forall r h, 0 <= h ->
  (r * r) * circ_s h / 2 <= qsector (r, 0) (r, r * h) (r * circ_c h, r * circ_s h).
Proof.
  intros r h Hh. rewrite circle_arc_sector. unfold circ_s.
  pose proof (one_plus_sq_pos h) as HD.
  assert (E : (r * r) * h * (3 + 2 * (h * h)) / (3 * (1 + h * h)) - r * r * (2 * h / (1 + h * h)) / 2
              == 2 * ((r * r) * (h * (h * h))) / (3 * (1 + h * h))).
  { field. apply one_plus_sq_nz. }
  assert (0 <= 2 * ((r * r) * (h * (h * h))) / (3 * (1 + h * h))); [|lra].
  apply Qle_shift_div_l; [lra|]. assert (0 <= r * r) by nra. assert (0 <= h * h) by nra.
  assert (0 <= h * (h * h)) by nra. nra.
Qed.

(* ndivangle = 4 (h = 1), symbolic radius and centre: area 10/3 r^2 (pi r^2 is 3.14.. r^2) *)
Theorem circle4_area : forall r center,
  jordan_area (circle_jordan 4 r 1 center) == (10 # 3) * (r * r).
Proof.
  intros r [cx cy]. unfold jordan_area, jordan_vertical. rewrite Qred_correct.
  unfold circle_jordan, circle_segs.
  rewrite !circle_loop_SS.
  change (circle_loop (circ_c 1) (circ_s 1) 1 ?a ?b ?c) with [[a; b; c]].
  cbn [map Qsum]. rewrite !vertical_quadratic_area. unfold cross.
  repeat rewrite ?px_move_pt, ?py_move_pt, ?px_rot_pt, ?py_rot_pt.
  assert (C : circ_c 1 == 0) by reflexivity. assert (S : circ_s 1 == 1) by reflexivity.
  rewrite !C, !S. cbn [px py fst snd]. field.
Qed.

Theorem prim_circle4 : forall r center, 0 < r ->
  let j := circle_jordan 4 r 1 center in
  prim_circle 4 r 1 center = Ok (SC (CS j)) /\ length j = 4%nat /\
  jordan_area j == (10 # 3) * (r * r) /\ jordan_pos j = true.
Proof.
  intros r center Hr j.
  destruct (prim_circle_ok 4 r 1 center (le_n 4) Hr ltac:(intro H; discriminate H)) as (H1 & H2 & _).
  split; [exact H1|]. split; [exact H2|]. split; [apply circle4_area|].
  unfold jordan_pos. apply Qlt_bool_iff. unfold j. rewrite circle4_area. nra.
Qed.

(* ------------------------------------------------------------------ *)
(* P8. the regular n-gon as the orbit of a rational rotation           *)
(* ------------------------------------------------------------------ *)
Lemma cross_rot_pt_n : forall c s k p q, c * c + s * s == 1 ->
  cross (rot_pt_n c s k p) (rot_pt_n c s k q) == cross p q.
Proof.
  intros c s k p q H. induction k; [reflexivity|]. cbn [rot_pt_n].
  rewrite cross_rot_pt, H, IHk. ring.
Qed.
(* q x Rq = s |q|^2 *)
Lemma cross_self_rot : forall c s q, cross q (rot_pt c s q) == s * norm2 q.
Proof. intros c s q. unfold cross, norm2, inner. rewrite px_rot_pt, py_rot_pt. ring. Qed.

Lemma regular_vertex_nth : forall n r c s center k, (k < n)%nat ->
  nth k (regular_vertices n r c s center) pzero = move_pt center (rot_pt_n c s k (r, 0)).
Proof.
  intros n r c s center k Hk. unfold regular_vertices, at_center. rewrite map_map.
  set (g := fun x => move_pt center (rot_pt_n c s x (r, 0))).
  rewrite (nth_indep _ pzero (g O)) by (rewrite map_length, seq_length; exact Hk).
  rewrite (map_nth g), seq_nth by exact Hk. reflexivity.

Qed.

(* consecutive vertices, seen from the centre: v_k x v_{k+1} = r^2 s *)
Theorem regular_consecutive_cross : forall n r c s center k, c * c + s * s == 1 ->
  (S k < n)%nat ->
  cross (psub (nth k (regular_vertices n r c s center) pzero) center)
        (psub (nth (S k) (regular_vertices n r c s center) pzero) center) == r * r * s.
Proof.
  intros n r c s center k H Hk. rewrite !regular_vertex_nth by lia.
  rewrite (cross_peq _ _ _ _ (psub_move_pt _ _) (psub_move_pt _ _)).
  cbn [rot_pt_n]. rewrite cross_self_rot, (norm2_rot_pt_n _ _ _ _ H).
  unfold norm2, inner. cbn [px py fst snd]. ring.
Qed.
(* and all vertices are at distance r from the centre *)
Theorem regular_vertex_radius : forall n r c s center k, c * c + s * s == 1 -> (k < n)%nat ->
  norm2 (psub (nth k (regular_vertices n r c s center) pzero) center) == r * r.
Proof.
  intros n r c s center k H Hk. rewrite regular_vertex_nth by exact Hk.
  rewrite (norm2_peq _ _ (psub_move_pt _ _)), (norm2_rot_pt_n _ _ _ _ H).
  unfold norm2, inner. cbn [px py fst snd]. ring.
Qed.

(* ---------- the shoelace sum of an orbit polygon ---------- *)
Definition crossp (ab : point * point) : Q := cross (fst ab) (snd ab).
Lemma shoelace2_poly_jordan : forall vs,
  shoelace2 (poly_jordan vs) = Qsum (map crossp (pairs_of (vs ++ [hd pzero vs]))).
Proof. intros vs. unfold shoelace2, poly_jordan. rewrite map_map. reflexivity. Qed.

Lemma pairs_of_cons2 : forall {A} (x y : A) l, pairs_of (x :: y :: l) = (x, y) :: pairs_of (y :: l).
Proof. reflexivity. Qed.

Lemma orbit_pairs_sum : forall (g : nat -> point) n a z,
  Qsum (map crossp (pairs_of (map g (seq a (S n)) ++ [z]))) ==
  Qsum (map (fun k => cross (g k) (g (S k))) (seq a n)) + cross (g (a + n)%nat) z.
Proof.
  intros g. induction n as [|n IH]; intros a z.
  - cbn [seq map app]. rewrite pairs_of_cons2. cbn [pairs_of map Qsum]. unfold crossp. cbn [fst snd].
    rewrite Nat.add_0_r. ring.
  - change (map g (seq a (S (S n))) ++ [z])
      with (g a :: g (S a) :: (map g (seq (S (S a)) n) ++ [z])).
    rewrite pairs_of_cons2.
    change (g (S a) :: (map g (seq (S (S a)) n) ++ [z])) with (map g (seq (S a) (S n)) ++ [z]).
    cbn [map Qsum]. rewrite IH.
    change (seq a (S n)) with (a :: seq (S a) n). cbn [map Qsum].
    replace (a + S n)%nat with (S a + n)%nat by lia. unfold crossp. cbn [fst snd]. ring.
Qed.

Lemma nQ_S : forall n, nQ (S n) == nQ n + 1.
Proof.
  intro n. unfold nQ. rewrite Nat2Z.inj_succ, <- Z.add_1_r, inject_Z_plus. reflexivity.
Qed.
Lemma Qsum_const : forall {A} (f : A -> Q) K l, (forall x, In x l -> f x == K) ->
  Qsum (map f l) == nQ (length l) * K.
Proof.
  intros A f K l H. induction l as [|x l IH].
  - cbn [map Qsum length]. change (nQ 0) with 0. ring.
  - cbn [map Qsum length]. rewrite nQ_S, IH, (H x (or_introl eq_refl)); [ring|].
    intros y Hy. apply H. right; exact Hy.
Qed.

Lemma pairs_of_map : forall {A B} (f : A -> B) l,
  pairs_of (map f l) = map (fun ab => (f (fst ab), f (snd ab))) (pairs_of l).
Proof.
  intros A B f l. induction l as [|a l IH]; [reflexivity|].
  destruct l as [|b l]; [reflexivity|].
  cbn [map] in *. rewrite !pairs_of_cons2. cbn [map fst snd]. rewrite IH. reflexivity.
Qed.
Lemma poly_jordan_map : forall (f : point -> point) vs, vs <> [] ->
  poly_jordan (map f vs) = map (map f) (poly_jordan vs).
Proof.
  intros f vs H. unfold poly_jordan. destruct vs as [|v t]; [congruence|].
  cbn [hd map]. change (f v :: map f t) with (map f (v :: t)).
  change [f v] with (map f [v]). rewrite <- map_app, pairs_of_map, !map_map. reflexivity.
Qed.

(* the orbit polygon before it is moved to the centre *)
Definition orbit_vertices (n : nat) (r c s : Q) : list point :=
  map (fun k => rot_pt_n c s k (r, 0)) (seq 0 n).
Lemma regular_jordan_move : forall n r c s center, (1 <= n)%nat ->
  regular_jordan n r c s center =
  map (map (move_pt center)) (poly_jordan (orbit_vertices n r c s)).
Proof.
  intros n r c s center Hn. unfold regular_jordan, regular_vertices, at_center.
  fold (orbit_vertices n r c s). apply poly_jordan_map.
  destruct n; [lia|]. discriminate.
Qed.

Theorem orbit_shoelace : forall n r c s, c * c + s * s == 1 ->
  shoelace2 (poly_jordan (orbit_vertices (S n) r c s)) ==
  nQ n * (r * r * s) + cross (rot_pt_n c s n (r, 0)) (r, 0).
Proof.
  intros n r c s H. rewrite shoelace2_poly_jordan. unfold orbit_vertices.
  change (hd pzero (map (fun k => rot_pt_n c s k (r, 0)) (seq 0 (S n)))) with (r, 0).
  rewrite (orbit_pairs_sum (fun k => rot_pt_n c s k (r, 0)) n 0 (r, 0)).
  rewrite (Qsum_const _ (r * r * s)).
  - rewrite seq_length. cbn [Nat.add]. reflexivity.
  - intros k _. cbn [rot_pt_n]. rewrite cross_self_rot, (norm2_rot_pt_n _ _ _ _ H).
    unfold norm2, inner. cbn [px py fst snd]. ring.
Qed.

(* the shoelace sum of the value returned by prim_regular, any centre *)
Theorem regular_shoelace : forall n r c s center, c * c + s * s == 1 ->
  shoelace2 (regular_jordan (S n) r c s center) ==
  nQ n * (r * r * s) + cross (rot_pt_n c s n (r, 0)) (r, 0).
Proof.
  intros n r c s center H. rewrite regular_jordan_move by lia.
  assert (Hne : orbit_vertices (S n) r c s <> []) by discriminate.
  destruct (poly_jordan_spec _ Hne) as (_ & _ & Hlines & Hc & _).
  rewrite (shoelace2_aff_map 1 0 0 1 center (move_pt center) (diag_move_pt center) _
             (all_lines_nonempty _ Hlines) Hc).
  rewrite orbit_shoelace by exact H. unfold adet. ring.
Qed.
(* when the rotation has order n the closing edge is like the others: n r^2 s *)
Corollary regular_shoelace_closed : forall n r c s center, c * c + s * s == 1 ->
  peq (rot_pt_n c s (S n) (r, 0)) (r, 0) ->
  shoelace2 (regular_jordan (S n) r c s center) == nQ (S n) * (r * r * s).
Proof.
  intros n r c s center H Hc. rewrite regular_shoelace by exact H.
  rewrite (cross_peq _ _ _ _ (peq_refl _) (peq_sym _ _ Hc)). cbn [rot_pt_n].
  rewrite cross_self_rot, (norm2_rot_pt_n _ _ _ _ H), nQ_S.
  unfold norm2, inner. cbn [px py fst snd]. ring.
Qed.

(* ---------- counter-clockwise for EVERY rational rotation with s > 0 ----------
   (no assumption that n rotations close up: the model polygon is the fan
   v_0 .. v_{n-1} closed by the edge v_{n-1} v_0; |sin(m t)| <= m sin t) *)
Section OrbitBound.
Variables c s r : Q.
Hypothesis HU : c * c + s * s == 1.
Hypothesis Hs : 0 < s.
Hypothesis Hr : 0 < r.

Lemma rot_c_strict : - (1) < c /\ c < 1.
Proof. split; nra. Qed.

Lemma bound_step : forall x y B, x * x + y * y == r * r -> - B <= y -> y <= B ->
  - (B + s * r) <= s * x + c * y /\ s * x + c * y <= B + s * r.
Proof.
  intros x y B Hxy H1 H2. destruct rot_c_strict as [C1 C2].
  assert (Hx1 : x <= r) by nra. assert (Hx2 : - r <= x) by nra.
  assert (Sx1 : s * x <= s * r) by nra. assert (Sx2 : - (s * r) <= s * x) by nra.
  destruct (Qlt_le_dec y 0) as [Hy | Hy].
  - assert (0 <= (1 + c) * (- y)) by (apply Qmult_le_0_compat; lra).
    assert (0 <= (1 - c) * (- y)) by (apply Qmult_le_0_compat; lra).
    split; lra.
  - assert (0 <= (1 + c) * y) by (apply Qmult_le_0_compat; lra).
    assert (0 <= (1 - c) * y) by (apply Qmult_le_0_compat; lra).
    split; lra.
Qed.
Lemma bound_step_strict : forall x y B, x * x + y * y == r * r -> - B <= y -> y <= B -> 0 < B ->
  s * x + c * y < B + s * r.
Proof.
  intros x y B Hxy H1 H2 HB. destruct rot_c_strict as [C1 C2].
  assert (Hx1 : x <= r) by nra. assert (Sx1 : s * x <= s * r) by nra.
  destruct (Qlt_le_dec y 0) as [Hy | Hy].
  - assert (0 < (1 + c) * (- y)) by (apply Qmult_lt_0_compat; lra). lra.
  - destruct (Qlt_le_dec 0 y) as [Hy' | Hy'].
    + assert (0 < (1 - c) * y) by (apply Qmult_lt_0_compat; lra). lra.
    + assert (y == 0) as Hy0 by lra. rewrite Hy0. lra.
Qed.

Lemma orbit_on_circle : forall m,
  px (rot_pt_n c s m (r, 0)) * px (rot_pt_n c s m (r, 0)) +
  py (rot_pt_n c s m (r, 0)) * py (rot_pt_n c s m (r, 0)) == r * r.
Proof.
  intro m. pose proof (norm2_rot_pt_n c s m (r, 0) HU) as H.
  unfold norm2, inner in H. rewrite H. cbn [px py fst snd]. ring.
Qed.

Lemma orbit_bound : forall m,
  - (nQ m * (s * r)) <= py (rot_pt_n c s m (r, 0)) /\
  py (rot_pt_n c s m (r, 0)) <= nQ m * (s * r).
Proof.
  induction m as [|m [IH1 IH2]].
  - cbn [rot_pt_n py snd]. change (nQ 0) with 0. split; lra.
  - cbn [rot_pt_n]. rewrite py_rot_pt, nQ_S.
    destruct (bound_step _ _ _ (orbit_on_circle m) IH1 IH2) as [B1 B2]. split; lra.
Qed.
Lemma orbit_bound_strict : forall m, (2 <= m)%nat ->
  py (rot_pt_n c s m (r, 0)) < nQ m * (s * r).
Proof.
  intros [|m] Hm; [lia|]. cbn [rot_pt_n]. rewrite py_rot_pt, nQ_S.
  destruct (orbit_bound m) as [IH1 IH2].
  assert (HB : 0 < nQ m * (s * r)).
  { clear IH1 IH2. destruct m as [|m]; [lia|]. rewrite nQ_S. pose proof (nQ_nonneg m).
    apply Qmult_lt_0_compat; [lra | apply Qmult_lt_0_compat; assumption]. }
  pose proof (bound_step_strict _ _ _ (orbit_on_circle m) IH1 IH2 HB). lra.
Qed.
End OrbitBound.

Theorem regular_ccw : forall n r c s center, c * c + s * s == 1 -> 0 < s -> 0 < r ->
  (3 <= n)%nat ->
  0 < shoelace2 (regular_jordan n r c s center) /\
  jordan_pos (regular_jordan n r c s center) = true.
Proof.
  intros n r c s center HU Hs Hr Hn.
  assert (P : 0 < shoelace2 (regular_jordan n r c s center)).
  { destruct n as [|n]; [lia|]. rewrite regular_shoelace by exact HU.
    pose proof (orbit_bound_strict c s r HU Hs Hr n ltac:(lia)) as HB.
    unfold cross. cbn [px py fst snd]. nra. }
  split; [exact P|].
  assert (Hne : regular_vertices n r c s center <> []) by (apply regular_vertices_nonempty; lia).
  destruct (poly_jordan_spec _ Hne) as (_ & _ & _ & _ & _ & _ & Hp).
  unfold regular_jordan. rewrite Hp. apply Qlt_bool_iff. exact P.
Qed.

(* the exact branch nsides = 4 is the orbit of the quarter turn (c, s) = (0, 1) *)
Theorem regular4_is_orbit : forall r center,
  Forall2 peq (regular_vertices 4 r 0 1 center) (regular4_vertices r center).
Proof.
  intros r center. unfold regular_vertices, regular4_vertices, at_center. cbn [seq map rot_pt_n].
  repeat (constructor; [apply move_pt_peq; split;
    repeat (rewrite ?px_rot_pt, ?py_rot_pt; cbn [px py fst snd]); ring|]).
  constructor.
Qed.

(* ------------------------------------------------------------------ *)
(* the quarter-turn circle closes up, for every radius                 *)
(* ------------------------------------------------------------------ *)
Lemma closes_quarter : forall r, closes 4 r 1.
Proof.
  intro r. unfold closes. cbn [rot_pt_n].
  assert (C : circ_c 1 == 0) by reflexivity. assert (S : circ_s 1 == 1) by reflexivity.
  split; repeat (rewrite ?px_rot_pt, ?py_rot_pt; cbn [px py fst snd]); rewrite ?C, ?S; ring.
Qed.
Lemma band_hi_1 : band_hi 1 == 9 # 8.
Proof. reflexivity. Qed.
(* circle(r, center, ndivangle = 4): all four arcs within r^2 <= d^2 <= 9/8 r^2 *)
Corollary prim_circle4_band : forall r center k t, (k < 4)%nat -> 0 <= t -> t <= 1 ->
  let d2 := norm2 (psub (eval (nth k (circle_jordan 4 r 1 center) []) t) center) in
  r * r <= d2 /\ d2 <= (9 # 8) * (r * r).
Proof.
  intros r center k t Hk H0 H1 d2.
  destruct (prim_circle_band 4 r 1 center k t Hk (or_intror (closes_quarter r)) H0 H1) as [A B].
  fold d2 in A, B. rewrite band_hi_1 in B. split; lra.
Qed.

(* ------------------------------------------------------------------ *)
(* Non-vacuity: concrete calls, computed by the kernel                 *)
(* ------------------------------------------------------------------ *)
Example ex_square :
  prim_square (PNum 2) (1, 1) =
  Ok (SC (CS [[(2, 2); (0, 2)]; [(0, 2); (0, 0)]; [(0, 0); (2, 0)]; [(2, 0); (2, 2)]])).
Proof. vm_compute. reflexivity. Qed.
Example ex_square_points :
  match prim_square (PNum 2) (1, 1) with
  | Ok sh => contains_point sh (1, 1) true = true /\ contains_point sh (1, 1) false = true /\
             contains_point sh (2, 1) true = true /\ contains_point sh (2, 1) false = false /\
             contains_point sh (4, 1) true = false /\ shape_area sh = 4
  | _ => False
  end.
Proof. vm_compute. repeat split. Qed.
Example ex_square_rejects :
  prim_square (PNumStr 3) (0, 0) = Err EValue /\ prim_square PNone (0, 0) = Err EValue /\
  prim_square (PNum 0) (0, 0) = Err EValue /\ prim_square (PBool false) (0, 0) = Err EValue /\
  prim_triangle PList (0, 0) = Err EValue /\ prim_regular4 PStr (0, 0) = Err EValue /\
  prim_regular 2 1 0 1 (0, 0) = Err EValue /\ prim_regular 5 (-(1)) (3 # 5) (4 # 5) (0, 0) = Err EValue /\
  prim_circle 3 1 1 (0, 0) = Err EValue /\ prim_circle 16 0 (1 # 5) (0, 0) = Err EValue.
Proof. vm_compute. repeat split. Qed.
Example ex_triangle :
  prim_triangle (PNum 3) (1, 1) = Ok (SC (CS [[(1, 1); (4, 1)]; [(4, 1); (1, 4)]; [(1, 4); (1, 1)]])).
Proof. vm_compute. reflexivity. Qed.
Example ex_regular4 :
  prim_regular4 (PNum 2) (1, 1) =
  Ok (SC (CS [[(3, 1); (1, 3)]; [(1, 3); (-(1), 1)]; [(-(1), 1); (1, -(1))]; [(1, -(1)); (3, 1)]])) /\
  prim_regular 4 2 0 1 (1, 1) = prim_regular4 (PNum 2) (1, 1).
Proof. vm_compute. split; reflexivity. Qed.
(* a pentagon-like orbit of the 3-4-5 rotation: not closed by the rotation, still CCW *)
Example ex_regular5 :
  match prim_regular 5 5 (3 # 5) (4 # 5) (0, 0) with
  | Ok (SC (CS j)) => vertices j = [(5, 0); (3, 4); (-(7 # 5), 24 # 5); (-(117 # 25), 44 # 25);
                                   (-(527 # 125), -(336 # 125))] /\ jordan_pos j = true
  | _ => False
  end.
Proof. vm_compute. split; reflexivity. Qed.

Example ex_circle :
  prim_circle 4 1 1 (0, 0) =
  Ok (SC (CS [[(1, 0); (1, 1); (0, 1)]; [(0, 1); (-(1), 1); (-(1), 0)];
              [(-(1), 0); (-(1), -(1)); (0, -(1))]; [(0, -(1)); (1, -(1)); (1, 0)]])).
Proof. vm_compute. reflexivity. Qed.
Example ex_circle_facts :
  match prim_circle 4 1 1 (0, 0) with
  | Ok (SC (CS j)) =>
      length j = 4%nat /\ map (@length point) j = [3; 3; 3; 3]%nat /\
      map first_pt j = [(1, 0); (0, 1); (-(1), 0); (0, -(1))] /\
      map last_pt j = [(0, 1); (-(1), 0); (0, -(1)); (1, 0)] /\
      jordan_area j = 10 # 3 /\ jordan_pos j = true
  | _ => False
  end.
Proof. vm_compute. repeat split. Qed.
Example ex_circle_points :
  match prim_circle 4 1 1 (0, 0) with
  | Ok sh => contains_point sh (0, 0) true = true /\ contains_point sh (2, 2) true = false
  | _ => False
  end.
Proof. vm_compute. repeat split. Qed.
(* six arcs of the 3-4-5 rotation (h = 1/2): accepted, six quadratic arcs, the
   last one closed by hand on (1, 0) as the code does *)
Example ex_circle6 :
  match prim_circle 6 1 (1 # 2) (0, 0) with
  | Ok (SC (CS j)) =>
      map (@length point) j = [3; 3; 3; 3; 3; 3]%nat /\
      first_pt (nth 1 j []) = (3 # 5, 4 # 5) /\ last_pt (nth 5 j []) = (1, 0)
  | _ => False
  end.
Proof. vm_compute. repeat split. Qed.

(* ------------------------------------------------------------------ *)
Print Assumptions region_simple_peq.
Print Assumptions region_far_right.
Print Assumptions square_spec.
Print Assumptions square_vertices_doc.
Print Assumptions square_contains_center.
Print Assumptions triangle_spec.
Print Assumptions triangle_vertices_doc.
Print Assumptions regular4_spec.
Print Assumptions regular4_vertices_doc.
Print Assumptions prim_polygon_spec.
Print Assumptions prim_polygon_far.
Print Assumptions valid_size_some.
Print Assumptions valid_size_none.
Print Assumptions prim_square_validation.
Print Assumptions prim_triangle_validation.
Print Assumptions prim_regular4_validation.
Print Assumptions prim_regular_validation.
Print Assumptions prim_circle_validation.
Print Assumptions prim_circle_ok.
Print Assumptions circ_unit.
Print Assumptions circle_band_identity.
Print Assumptions circle_band.
Print Assumptions circle_arc_k_band.
Print Assumptions circle_jordan_arc.
Print Assumptions prim_circle_band.
Print Assumptions prim_circle4_band.
Print Assumptions circle_arc_ends.
Print Assumptions vertical_quadratic_area.
Print Assumptions circle_arc_vertical.
Print Assumptions circle_arc_sector.
Print Assumptions circle_arc_vertical_pos.
Print Assumptions circle4_area.
Print Assumptions prim_circle4.
Print Assumptions regular_consecutive_cross.
Print Assumptions regular_vertex_radius.
Print Assumptions regular_shoelace.
Print Assumptions regular_shoelace_closed.
Print Assumptions regular_ccw.
Print Assumptions regular4_is_orbit.
Print Assumptions ex_square.
Print Assumptions ex_circle.
Print Assumptions ex_circle_facts.

(* why regular_shoelace keeps the closing edge apart: "n r^2 s" is false for a
   rotation that does not close up (5 steps of the 3-4-5 rotation) *)
Example regular_shoelace_needs_closure :
  ~ shoelace2 (regular_jordan 5 5 (3 # 5) (4 # 5) (0, 0)) == nQ 5 * (5 * 5 * (4 # 5)).
Proof. intro H. vm_compute in H. discriminate H. Qed.
Print Assumptions regular_shoelace_needs_closure.
