(* NoZero.v -- "no zero-length segment": when do the boolean operators keep every segment's
   two end points distinct, for straight boundaries.

   Z1  Jordan.split keeps nondeg                                        (unconditional)
   Z2  the re-split operands of | & - ^ and the complement are nondeg   (unconditional)
   Z3  every segment of a curve assembled by FollowPath is a re-pointed copy of a segment
       of the re-split operands: same first point, last point moved (from_segments) to the
       start of the next piece, a point that Point2D.__eq__ (1e-9) identifies with it
   Z4  hence the result of an operator is nondeg as soon as the end points of every segment
       of the re-split operands are distinguishable by Point2D.__eq__ (ssep / resplit_sep);
       the Empty / Whole / nested branches need nothing.

   The hypothesis of Z4 cannot be dropped: because of the re-pointing, a piece shorter than
   1e-9 can collapse.  Lemmas/NoZeroCex.v is a machine-checked instance (A | B = Ok, operands
   straight and nondeg, result containing the segment [(0,2);(0,2)]). *)
From Coq Require Import QArith Lqa Lia List Sorted Bool Permutation.
From SV Require Import Model.Shape Spec.Spec.
From SV Require Import Lemmas.BezierFacts Lemmas.Quadrature Lemmas.Lines Lemmas.SplitClean
                       Lemmas.Construct Lemmas.Measure.
Import ListNotations.
Open Scope Q_scope.

Definition nondeg (j : jordan) : Prop := forall s, In s j -> ~ peq (first_pt s) (last_pt s).

(* ================================================================== *)
(* Z1. split                                                           *)
(* ================================================================== *)
Lemma subdiv_nondeg : forall s ps, subdiv s ps -> ~ peq (first_pt s) (last_pt s) ->
  forall x, In x ps -> ~ peq (first_pt x) (last_pt x).
Proof.
  intros s ps (a & b & ts & -> & Hi & Hsd) Hab. cbn [first_pt last_pt hd last] in Hab.
  exact (subdiv_from_nondegenerate a b 0 ts ps Hab Hsd Hi).
Qed.

Lemma Forall2_subdiv_nondeg : forall j pieces, Forall2 subdiv j pieces -> nondeg j ->
  nondeg (concat pieces).
Proof.
  intros j pieces F. induction F as [|s ps j pieces Hsd _ IH]; intros Hn x Hx; [destruct Hx|].
  cbn [concat] in Hx. apply in_app_iff in Hx. destruct Hx as [Hx|Hx].
  - apply (subdiv_nondeg s ps Hsd); [apply Hn; left; reflexivity|exact Hx].
  - apply IH; [|exact Hx]. intros y Hy. apply Hn. right. exact Hy.
Qed.

Theorem split_nondeg : forall j idx nodes j',
  all_lines j = true -> Jordan.split j idx nodes = Ok j' -> nondeg j -> nondeg j'.
Proof.
  intros j idx nodes j' Hl H Hn.
  destruct (split_spec j idx nodes j' Hl H) as (pieces & -> & F).
  exact (Forall2_subdiv_nondeg j pieces F Hn).
Qed.

(* ================================================================== *)
(* Z2. the operands after the mutual splitting                         *)
(* ================================================================== *)
(* a straight-sided curve without zero-length segment *)
Definition LN (j : jordan) : Prop := all_lines j = true /\ nondeg j.

Lemma LN_nil : LN [].
Proof. split; [reflexivity|]. intros s []. Qed.

Lemma split_LN : forall j idx nodes j', LN j -> Jordan.split j idx nodes = Ok j' -> LN j'.
Proof.
  intros j idx nodes j' [Hl Hn] H.
  split; [exact (split_all_lines _ _ _ _ Hl H)|exact (split_nondeg _ _ _ _ Hl H Hn)].
Qed.

Lemma split_two_jordans_LN : forall ja jb ja' jb',
  LN ja -> LN jb -> split_two_jordans ja jb = Ok (ja', jb') -> LN ja' /\ LN jb'.
Proof.
  intros ja jb ja' jb' Ha Hb H. unfold split_two_jordans in H.
  destruct (box_and _ _); [|inversion H; subst; split; assumption].
  destruct (jordan_and ja jb) as [inters| |]; cbn [bind] in H; try discriminate.
  destruct (Jordan.split ja _ _) as [xa| |] eqn:Ea; cbn [bind] in H; try discriminate.
  destruct (Jordan.split jb _ _) as [xb| |] eqn:Eb; cbn [bind] in H; try discriminate.
  inversion H; subst.
  split; [exact (split_LN _ _ _ _ Ha Ea) | exact (split_LN _ _ _ _ Hb Eb)].
Qed.

Lemma split_one_against_LN : forall jbs ja ja' jbs',
  LN ja -> Forall LN jbs -> split_one_against ja jbs = Ok (ja', jbs') ->
  LN ja' /\ Forall LN jbs'.
Proof.
  induction jbs as [|jb t IH]; intros ja ja' jbs' Ha Hb H; cbn [split_one_against] in H.
  - inversion H; subst. split; [exact Ha | constructor].
  - inversion Hb as [|? ? Hjb Ht]; subst.
    destruct (split_two_jordans ja jb) as [[xa xb]| |] eqn:E2; cbn [bind] in H; try discriminate.
    destruct (split_two_jordans_LN _ _ _ _ Ha Hjb E2) as [Hxa Hxb].
    destruct (split_one_against xa t) as [[ya t']| |] eqn:E1; cbn [bind] in H; try discriminate.
    destruct (IH _ _ _ Hxa Ht E1) as [Hya Ht'].
    inversion H; subst. split; [exact Hya | constructor; assumption].
Qed.

Lemma split_all_LN : forall jas jbs jas' jbs',
  Forall LN jas -> Forall LN jbs -> split_all jas jbs = Ok (jas', jbs') ->
  Forall LN jas' /\ Forall LN jbs'.
Proof.
  induction jas as [|ja t IH]; intros jbs jas' jbs' Ha Hb H; cbn [split_all] in H.
  - inversion H; subst. split; [constructor | exact Hb].
  - inversion Ha as [|? ? Hja Ht]; subst.
    destruct (split_one_against ja jbs) as [[xa xbs]| |] eqn:E1; cbn [bind] in H; try discriminate.
    destruct (split_one_against_LN _ _ _ _ Hja Hb E1) as [Hxa Hxbs].
    destruct (split_all t xbs) as [[t' ybs]| |] eqn:E2; cbn [bind] in H; try discriminate.
    destruct (IH _ _ _ Ht Hxbs E2) as [Ht' Hybs].
    inversion H; subst. split; [constructor; assumption | exact Hybs].
Qed.

(* shape level *)
Definition snondeg (s : shape) : Prop := forall j, In j (jordans s) -> nondeg j.
Definition NZ (s : shape) : Prop := Forall LN (jordans s).

Lemma NZ_iff : forall s, NZ s <-> shape_lines s = true /\ snondeg s.
Proof.
  intro s. unfold NZ, shape_lines, snondeg, LN. rewrite Forall_forall, forallb_forall. split.
  - intro H. split; intros j Hj; apply (H j Hj).
  - intros [H1 H2] j Hj. split; [apply H1|apply H2]; exact Hj.
Qed.

Lemma NZ_perm : forall s js, Permutation (jordans s) js -> Forall LN js -> NZ s.
Proof. intros s js Hp H. unfold NZ. eapply Forall_perm; [apply Permutation_sym, Hp|exact H]. Qed.

Lemma NZ_empty : NZ SEmpty. Proof. constructor. Qed.
Lemma NZ_whole : NZ SWhole. Proof. constructor. Qed.

Lemma with_jordans_NZ : forall s js, Forall LN js -> NZ (with_jordans s js).
Proof.
  intros s js H. unfold NZ. apply Forall_forall. intros j Hj.
  destruct (with_jordans_in s js j Hj) as [Hin | ->]; [|apply LN_nil].
  rewrite Forall_forall in H. apply H, Hin.
Qed.

Theorem recombine_operands_NZ : forall a b closed inside a' b' new,
  NZ a -> NZ b -> recombine a b closed inside = Ok (a', b', new) -> NZ a' /\ NZ b'.
Proof.
  intros a b closed inside a' b' new Ha Hb H.
  destruct (recombine_inv _ _ _ _ _ _ _ H) as (jas & jbs & Es & -> & -> & _).
  destruct (split_all_LN _ _ _ _ Ha Hb Es) as [Hjas Hjbs].
  split; apply with_jordans_NZ; assumption.
Qed.

(* complement and copy *)
Lemma invert_LN : forall j, LN j -> LN (invert j).
Proof.
  intros j [Hl Hn]. split; [apply invert_all_lines, Hl|].
  rewrite (invert_lines j Hl). intros s Hs. apply in_rev in Hs.
  apply in_map_iff in Hs. destruct Hs as (s0 & <- & Hs0).
  rewrite hd_rev_last, last_rev_hd. intro E. apply (Hn s0 Hs0). apply peq_sym, E.
Qed.

Theorem op_not_NZ : forall s s', NZ s -> op_not s = Ok s' -> NZ s'.
Proof.
  intros s s' Hs H. destruct (op_not_perm s s' H) as [_ Hp].
  apply (NZ_perm _ _ Hp). apply Forall_forall. intros j Hj.
  apply in_map_iff in Hj. destruct Hj as (j0 & <- & Hj0). apply invert_LN.
  unfold NZ in Hs. rewrite Forall_forall in Hs. apply Hs, Hj0.
Qed.

Theorem copy_shape_NZ : forall s s', NZ s -> copy_shape s = Ok s' -> NZ s'.
Proof.
  intros s s' Hs H. destruct (copy_shape_spec s s' H) as (_ & _ & _ & Hp).
  exact (NZ_perm _ _ Hp Hs).
Qed.

Theorem shape_from_jordans_NZ : forall js s, Forall LN js -> shape_from_jordans js = Ok s -> NZ s.
Proof. intros js s Hjs H. exact (NZ_perm _ _ (shape_from_jordans_perm js s H) Hjs). Qed.

(* what the common branch of | and & returns *)
Lemma gen_branch_cases : forall a b ca cb closed inside dflt a' b' s,
  gen_branch a b ca cb closed inside dflt = Ok (a', b', s) ->
  (a' = a /\ b' = b /\ (copy_shape ca = Ok s \/ copy_shape cb = Ok s)) \/
  (exists new, recombine a b closed inside = Ok (a', b', new) /\
     ((new = [] /\ s = dflt) \/ shape_from_jordans new = Ok s)).
Proof.
  intros a b ca cb closed inside dflt a' b' s H. unfold gen_branch in H.
  destruct (contains_shape a b) as [x| |]; cbn [bind] in H; try discriminate.
  destruct x.
  { destruct (copy_shape ca) as [c| |] eqn:Ec; cbn [bind] in H; try discriminate.
    inversion H; subst. left. auto. }
  destruct (contains_shape b a) as [y| |]; cbn [bind] in H; try discriminate.
  destruct y.
  { destruct (copy_shape cb) as [c| |] eqn:Ec; cbn [bind] in H; try discriminate.
    inversion H; subst. left. auto. }
  destruct (recombine a b closed inside) as [[[xa xb] new]| |] eqn:Er; cbn [bind] in H;
    try discriminate.
  right. destruct new as [|n0 nt].
  - inversion H; subst. exists []. auto.
  - destruct (shape_from_jordans (n0 :: nt)) as [s0| |] eqn:Es; cbn [bind] in H; try discriminate.
    inversion H; subst. exists (n0 :: nt). auto.
Qed.

Lemma gen_branch_operands_NZ : forall a b ca cb closed inside dflt a' b' s,
  gen_branch a b ca cb closed inside dflt = Ok (a', b', s) -> NZ a -> NZ b -> NZ a' /\ NZ b'.
Proof.
  intros a b ca cb closed inside dflt a' b' s H Ha Hb.
  destruct (gen_branch_cases _ _ _ _ _ _ _ _ _ _ H) as [(-> & -> & _)|(new & Er & _)].
  - split; assumption.
  - exact (recombine_operands_NZ _ _ _ _ _ _ _ Ha Hb Er).
Qed.

Theorem op_or_operands_NZ : forall a b a' b' s, op_or a b = Ok (a', b', s) ->
  NZ a -> NZ b -> NZ a' /\ NZ b'.
Proof.
  intros a b a' b' s H Ha Hb.
  destruct (shape_singleton_dec a) as [-> | [-> | [Ha1 Ha2]]].
  - rewrite op_or_empty_l in H. destruct (copy_shape b); cbn [bind] in H; try discriminate.
    inversion H; subst. split; assumption.
  - rewrite op_or_whole_l in H. inversion H; subst. split; assumption.
  - destruct (shape_singleton_dec b) as [-> | [-> | [Hb1 Hb2]]].
    + rewrite op_or_empty_r in H. destruct (copy_shape a); cbn [bind] in H; try discriminate.
      inversion H; subst. split; assumption.
    + rewrite op_or_whole_r in H. inversion H; subst. split; assumption.
    + rewrite op_or_general in H by assumption. eapply gen_branch_operands_NZ; eassumption.
Qed.

Theorem op_and_operands_NZ : forall a b a' b' s, op_and a b = Ok (a', b', s) ->
  NZ a -> NZ b -> NZ a' /\ NZ b'.
Proof.
  intros a b a' b' s H Ha Hb.
  destruct (shape_singleton_dec a) as [-> | [-> | [Ha1 Ha2]]].
  - rewrite op_and_empty_l in H. inversion H; subst. split; assumption.
  - rewrite op_and_whole_l in H. destruct (copy_shape b); cbn [bind] in H; try discriminate.
    inversion H; subst. split; assumption.
  - destruct (shape_singleton_dec b) as [-> | [-> | [Hb1 Hb2]]].
    + rewrite op_and_empty_r in H. inversion H; subst. split; assumption.
    + rewrite op_and_whole_r in H. destruct (copy_shape a); cbn [bind] in H; try discriminate.
      inversion H; subst. split; assumption.
    + rewrite op_and_general in H by assumption. eapply gen_branch_operands_NZ; eassumption.
Qed.

(* what a - b does *)
Lemma op_sub_cases : forall a b a' s, op_sub a b = Ok (a', s) ->
  (a = SEmpty /\ a' = a /\ s = SEmpty) \/
  (a = SWhole /\ a' = a /\ op_not b = Ok s) \/
  (exists nb nb', op_not b = Ok nb /\ op_and a nb = Ok (a', nb', s)).
Proof.
  intros a b a' s H. destruct a as [| |c|cs]; cbn [op_sub] in H.
  - inversion H; subst. left. auto.
  - destruct (op_not b) as [nb| |] eqn:En; cbn [bind] in H; try discriminate.
    inversion H; subst. right. left. auto.
  - destruct (op_not b) as [nb| |] eqn:En; cbn [bind] in H; try discriminate.
    destruct (op_and (SC c) nb) as [[[xa xb] r]| |] eqn:Ea; cbn [bind] in H; try discriminate.
    inversion H; subst. right. right. exists nb, xb. auto.
  - destruct (op_not b) as [nb| |] eqn:En; cbn [bind] in H; try discriminate.
    destruct (op_and (SD cs) nb) as [[[xa xb] r]| |] eqn:Ea; cbn [bind] in H; try discriminate.
    inversion H; subst. right. right. exists nb, xb. auto.
Qed.

Theorem op_sub_operand_NZ : forall a b a' s, op_sub a b = Ok (a', s) ->
  NZ a -> NZ b -> NZ a'.
Proof.
  intros a b a' s H Ha Hb.
  destruct (op_sub_cases _ _ _ _ H) as [(_ & -> & _)|[(_ & -> & _)|(nb & nb' & En & Ea)]];
    try exact Ha.
  exact (proj1 (op_and_operands_NZ _ _ _ _ _ Ea Ha (op_not_NZ _ _ Hb En))).
Qed.

Lemma op_xor_cases : forall a b a' b' s, op_xor a b = Ok (a', b', s) ->
  exists d1 d2 x1 x2, op_sub a b = Ok (a', d1) /\ op_sub b a' = Ok (b', d2) /\
    op_or d1 d2 = Ok (x1, x2, s).
Proof.
  intros a b a' b' s H. unfold op_xor in H.
  destruct (op_sub a b) as [[a1 d1]| |] eqn:E1; cbn [bind] in H; try discriminate.
  destruct (op_sub b a1) as [[b1 d2]| |] eqn:E2; cbn [bind] in H; try discriminate.
  destruct (op_or d1 d2) as [[[x1 x2] s0]| |] eqn:E3; cbn [bind] in H; try discriminate.
  inversion H; subst. exists d1, d2, x1, x2. auto.
Qed.

Theorem op_xor_operands_NZ : forall a b a' b' s, op_xor a b = Ok (a', b', s) ->
  NZ a -> NZ b -> NZ a' /\ NZ b'.
Proof.
  intros a b a' b' s H Ha Hb.
  destruct (op_xor_cases _ _ _ _ _ H) as (d1 & d2 & x1 & x2 & E1 & E2 & _).
  pose proof (op_sub_operand_NZ _ _ _ _ E1 Ha Hb) as Ha'.
  split; [exact Ha'|exact (op_sub_operand_NZ _ _ _ _ E2 Hb Ha')].
Qed.

(* ================================================================== *)
(* Z3. the segments of an assembled curve                              *)
(* ================================================================== *)
(* r is the segment s with its end point moved to n, a point that
   Point2D.__eq__ identifies with the end point of s *)
Definition repointed (s r : seg) : Prop :=
  exists n, pt_eq (last_pt s) n = true /\ r = seg_clean (set_last n s).

Lemma juncs_In_fst : forall js c sn, In sn (juncs c js) -> In (fst sn) js.
Proof.
  intros js c sn H. rewrite <- (juncs_fst js c). apply in_map. exact H.
Qed.

Theorem from_segments_repointed : forall js j, from_segments js = Ok j ->
  forall r, In r j -> exists s, In s js /\ repointed s r.
Proof.
  intros js j H r Hr. rewrite from_segments_juncs in H. destruct js as [|s0 t].
  - inversion H; subst. destruct Hr.
  - assert (Hfst : forall sn, In sn (juncs (first_pt s0) (s0 :: t)) -> In (fst sn) (s0 :: t))
      by (intros sn; apply juncs_In_fst).
    generalize dependent (juncs (first_pt s0) (s0 :: t)). intros jl H Hfst.
    apply bind_Ok in H. destruct H as (u & Ht & H). apply assert_Ok in Ht.
    injection H as Ej. rewrite <- Ej in Hr. clear Ej.
    rewrite map_map in Hr. apply in_map_iff in Hr.
    destruct Hr as (sn & <- & Hsn). exists (fst sn).
    split; [exact (Hfst sn Hsn)|].
    exists (snd sn). split; [|reflexivity].
    rewrite forallb_forall in Ht. exact (Ht sn Hsn).
Qed.

Theorem follow_path_repointed : forall js starts new, follow_path js starts = Ok new ->
  forall j r, In j new -> In r j ->
  exists j0 s, In j0 js /\ In s j0 /\ repointed s r.
Proof.
  intros js starts new H j r Hj Hr. unfold follow_path in H.
  destruct (mapM _ starts) as [paths| |] eqn:Hp; cbn [bind] in H; try discriminate.
  destruct (mapM_ok_in _ _ _ H j Hj) as (idx & Hidx & Hfs).
  apply filter_rotations_incl in Hidx.
  destruct (mapM_ok_in _ _ _ Hp idx Hidx) as (st & _ & Hpp).
  assert (Hin : inrange js idx).
  { eapply pursue_path_inrange; [|exact Hpp]. intros i k []. }
  unfold indexs_to_jordan in Hfs.
  destruct (from_segments_repointed _ _ Hfs r Hr) as (s & Hs & Hrs).
  apply in_map_iff in Hs. destruct Hs as ([i k] & <- & Hik). cbn [fst snd] in *.
  destruct (Hin i k Hik) as [Hi Hk].
  exists (nth i js []), (nth k (nth i js []) []).
  split; [apply nth_In, Hi|]. split; [apply nth_In, Hk|exact Hrs].
Qed.

(* ================================================================== *)
(* Z4. the result                                                      *)
(* ================================================================== *)
(* the end points of s are distinguishable by Point2D.__eq__ *)
Definition sep_seg (s : seg) : Prop := pt_eq (first_pt s) (last_pt s) = false.
Definition ssep (s : shape) : Prop := forall j, In j (jordans s) -> forall x, In x j -> sep_seg x.

Lemma Qabs'_le : forall x t, Qabs' x <= t -> - t <= x /\ x <= t.
Proof.
  intros x t H. unfold Qabs' in H. destruct (Qle_bool 0 x) eqn:E.
  - apply Qle_bool_iff in E. split; lra.
  - apply Qle_bool_false in E. split; lra.
Qed.
Lemma Qabs'_lt : forall x t, t < Qabs' x -> x < - t \/ t < x.
Proof.
  intros x t H. unfold Qabs' in H. destruct (Qle_bool 0 x) eqn:E; [right; exact H|left; lra].
Qed.

Lemma pt_eq_true_le : forall p q, pt_eq p q = true ->
  Qabs' (px p - px q) <= tol9 /\ Qabs' (py p - py q) <= tol9.
Proof.
  intros p q H. split; apply Qnot_lt_le; intro K.
  - assert (F : pt_eq p q = false) by (apply pt_eq_false_iff; left; exact K). congruence.
  - assert (F : pt_eq p q = false) by (apply pt_eq_false_iff; right; exact K). congruence.
Qed.

(* the key step: re-pointing within 1e-9 cannot collapse a segment whose end points are
   more than 1e-9 apart *)
Lemma sep_repoint : forall f l n, pt_eq f l = false -> pt_eq l n = true -> ~ peq f n.
Proof.
  intros f l n Hfl Hln [Ex Ey]. apply pt_eq_false_iff in Hfl.
  apply pt_eq_true_le in Hln. destruct Hln as [Lx Ly].
  apply Qabs'_le in Lx, Ly.
  destruct Hfl as [K|K]; apply Qabs'_lt in K; destruct K as [K|K]; lra.
Qed.

Lemma repointed_line : forall s r, is_line s = true -> repointed s r ->
  is_line r = true /\ first_pt r = first_pt s /\ pt_eq (last_pt s) (last_pt r) = true.
Proof.
  intros s r Hl (n & Hn & ->). destruct (is_line_inv s Hl) as (a & b & ->).
  cbn [set_last removelast app]. rewrite Construct.seg_clean_line.
  cbn [first_pt last_pt hd last] in *. repeat split. exact Hn.
Qed.

Lemma repointed_nondeg : forall s r, is_line s = true -> sep_seg s -> repointed s r ->
  ~ peq (first_pt r) (last_pt r).
Proof.
  intros s r Hl Hs Hr. destruct (repointed_line s r Hl Hr) as (_ & Ef & El).
  rewrite Ef. exact (sep_repoint _ _ _ Hs El).
Qed.

Theorem follow_path_LN : forall js starts new,
  Forall (fun j => all_lines j = true) js ->
  (forall j, In j js -> forall s, In s j -> sep_seg s) ->
  follow_path js starts = Ok new -> Forall LN new.
Proof.
  intros js starts new Hl Hsep H. apply Forall_forall. intros j Hj.
  rewrite Forall_forall in Hl.
  assert (K : forall r, In r j -> is_line r = true /\ ~ peq (first_pt r) (last_pt r)).
  { intros r Hr.
    destruct (follow_path_repointed js starts new H j r Hj Hr) as (j0 & s & Hj0 & Hs & Hrs).
    assert (Ls : is_line s = true).
    { specialize (Hl j0 Hj0). unfold all_lines in Hl. rewrite forallb_forall in Hl. apply Hl, Hs. }
    split; [exact (proj1 (repointed_line s r Ls Hrs))|].
    exact (repointed_nondeg s r Ls (Hsep j0 Hj0 s Hs) Hrs). }
  split.
  - unfold all_lines. apply forallb_forall. intros r Hr. apply (K r Hr).
  - intros r Hr. apply (K r Hr).
Qed.

(* the curves FollowPath assembles from the re-split operands *)
Theorem recombine_result_LN : forall a b closed inside a' b' new,
  shape_lines a = true -> shape_lines b = true ->
  recombine a b closed inside = Ok (a', b', new) ->
  ssep a' -> ssep b' -> Forall LN new.
Proof.
  intros a b closed inside a' b' new Ha Hb H Sa Sb.
  destruct (recombine_operands _ _ _ _ _ _ _ Ha Hb H) as (La & Lb & Ef & _).
  apply (follow_path_LN _ _ _) with (3 := Ef).
  - apply Forall_forall. intros j Hj. unfold shape_lines in La, Lb.
    rewrite forallb_forall in La, Lb. apply in_app_iff in Hj. destruct Hj; auto.
  - intros j Hj. apply in_app_iff in Hj. destruct Hj as [Hj|Hj]; [apply Sa|apply Sb]; exact Hj.
Qed.

(* the hypothesis, in the form that does not depend on the branch taken: whenever the
   operands are split against each other, no piece has end points that Point2D.__eq__
   confuses.  (The re-split operands do not depend on closed / inside:
   recombine_operands_same.) *)
Definition resplit_sep (a b : shape) : Prop :=
  forall closed inside a' b' new, recombine a b closed inside = Ok (a', b', new) ->
    ssep a' /\ ssep b'.

Lemma gen_branch_result_NZ : forall a b ca cb closed inside dflt a' b' s,
  gen_branch a b ca cb closed inside dflt = Ok (a', b', s) ->
  NZ a -> NZ b -> NZ ca -> NZ cb -> NZ dflt ->
  (forall new, recombine a b closed inside = Ok (a', b', new) -> ssep a' /\ ssep b') ->
  NZ s.
Proof.
  intros a b ca cb closed inside dflt a' b' s H Ha Hb Hca Hcb Hd Hsep.
  destruct (gen_branch_cases _ _ _ _ _ _ _ _ _ _ H) as [(_ & _ & [Ec|Ec])|(new & Er & Hs)].
  - exact (copy_shape_NZ _ _ Hca Ec).
  - exact (copy_shape_NZ _ _ Hcb Ec).
  - destruct Hs as [[_ ->]|Es]; [exact Hd|].
    destruct (Hsep new Er) as [Sa Sb].
    apply NZ_iff in Ha, Hb.
    exact (shape_from_jordans_NZ _ _
             (recombine_result_LN _ _ _ _ _ _ _ (proj1 Ha) (proj1 Hb) Er Sa Sb) Es).
Qed.

(* | and &, hypothesis on the returned operands (on the Empty / Whole / nested branches the
   hypothesis is not used) or in the branch-independent form *)
Lemma op_or_result_gen : forall a b a' b' s, op_or a b = Ok (a', b', s) ->
  NZ a -> NZ b ->
  (forall new, recombine a b true false = Ok (a', b', new) -> ssep a' /\ ssep b') -> NZ s.
Proof.
  intros a b a' b' s H Ha Hb Hsep.
  destruct (shape_singleton_dec a) as [-> | [-> | [Ha1 Ha2]]].
  - rewrite op_or_empty_l in H.
    destruct (copy_shape b) as [c| |] eqn:Ec; cbn [bind] in H; try discriminate.
    inversion H; subst. exact (copy_shape_NZ _ _ Hb Ec).
  - rewrite op_or_whole_l in H. inversion H; subst. exact NZ_whole.
  - destruct (shape_singleton_dec b) as [-> | [-> | [Hb1 Hb2]]].
    + rewrite op_or_empty_r in H.
      destruct (copy_shape a) as [c| |] eqn:Ec; cbn [bind] in H; try discriminate.
      inversion H; subst. exact (copy_shape_NZ _ _ Ha Ec).
    + rewrite op_or_whole_r in H. inversion H; subst. exact NZ_whole.
    + rewrite op_or_general in H by assumption.
      exact (gen_branch_result_NZ _ _ _ _ _ _ _ _ _ _ H Ha Hb Ha Hb NZ_whole Hsep).
Qed.

Lemma op_and_result_gen : forall a b a' b' s, op_and a b = Ok (a', b', s) ->
  NZ a -> NZ b ->
  (forall new, recombine a b false true = Ok (a', b', new) -> ssep a' /\ ssep b') -> NZ s.
Proof.
  intros a b a' b' s H Ha Hb Hsep.
  destruct (shape_singleton_dec a) as [-> | [-> | [Ha1 Ha2]]].
  - rewrite op_and_empty_l in H. inversion H; subst. exact NZ_empty.
  - rewrite op_and_whole_l in H.
    destruct (copy_shape b) as [c| |] eqn:Ec; cbn [bind] in H; try discriminate.
    inversion H; subst. exact (copy_shape_NZ _ _ Hb Ec).
  - destruct (shape_singleton_dec b) as [-> | [-> | [Hb1 Hb2]]].
    + rewrite op_and_empty_r in H. inversion H; subst. exact NZ_empty.
    + rewrite op_and_whole_r in H.
      destruct (copy_shape a) as [c| |] eqn:Ec; cbn [bind] in H; try discriminate.
      inversion H; subst. exact (copy_shape_NZ _ _ Ha Ec).
    + rewrite op_and_general in H by assumption.
      exact (gen_branch_result_NZ _ _ _ _ _ _ _ _ _ _ H Ha Hb Hb Ha NZ_empty Hsep).
Qed.

Lemma op_sub_result_gen : forall a b a' s, op_sub a b = Ok (a', s) ->
  NZ a -> NZ b ->
  (forall nb, op_not b = Ok nb -> resplit_sep a nb) -> NZ s.
Proof.
  intros a b a' s H Ha Hb Hsep.
  destruct (op_sub_cases _ _ _ _ H) as [(_ & _ & ->)|[(_ & _ & En)|(nb & nb' & En & Ea)]].
  - exact NZ_empty.
  - exact (op_not_NZ _ _ Hb En).
  - apply (op_and_result_gen _ _ _ _ _ Ea Ha (op_not_NZ _ _ Hb En)).
    intros new Er. exact (Hsep nb En _ _ _ _ _ Er).
Qed.

(* ------------------------------------------------------------------ *)
(* the statements, with the plain hypotheses                           *)
(* ------------------------------------------------------------------ *)
(* operands: unconditional *)
Theorem op_or_operands_nondeg : forall a b a' b' s, op_or a b = Ok (a', b', s) ->
  shape_lines a = true -> shape_lines b = true -> snondeg a -> snondeg b ->
  (shape_lines a' = true /\ snondeg a') /\ (shape_lines b' = true /\ snondeg b').
Proof.
  intros a b a' b' s H La Lb Na Nb. rewrite <- !NZ_iff.
  apply (op_or_operands_NZ _ _ _ _ _ H); apply NZ_iff; auto.
Qed.

Theorem op_and_operands_nondeg : forall a b a' b' s, op_and a b = Ok (a', b', s) ->
  shape_lines a = true -> shape_lines b = true -> snondeg a -> snondeg b ->
  (shape_lines a' = true /\ snondeg a') /\ (shape_lines b' = true /\ snondeg b').
Proof.
  intros a b a' b' s H La Lb Na Nb. rewrite <- !NZ_iff.
  apply (op_and_operands_NZ _ _ _ _ _ H); apply NZ_iff; auto.
Qed.

Theorem op_sub_operand_nondeg : forall a b a' s, op_sub a b = Ok (a', s) ->
  shape_lines a = true -> shape_lines b = true -> snondeg a -> snondeg b ->
  shape_lines a' = true /\ snondeg a'.
Proof.
  intros a b a' s H La Lb Na Nb. rewrite <- NZ_iff.
  apply (op_sub_operand_NZ _ _ _ _ H); apply NZ_iff; auto.
Qed.

Theorem op_xor_operands_nondeg : forall a b a' b' s, op_xor a b = Ok (a', b', s) ->
  shape_lines a = true -> shape_lines b = true -> snondeg a -> snondeg b ->
  (shape_lines a' = true /\ snondeg a') /\ (shape_lines b' = true /\ snondeg b').
Proof.
  intros a b a' b' s H La Lb Na Nb. rewrite <- !NZ_iff.
  apply (op_xor_operands_NZ _ _ _ _ _ H); apply NZ_iff; auto.
Qed.

(* complement: unconditional *)
Theorem op_not_nondeg : forall s s', op_not s = Ok s' ->
  shape_lines s = true -> snondeg s -> shape_lines s' = true /\ snondeg s'.
Proof.
  intros s s' H L N. rewrite <- NZ_iff. apply (op_not_NZ s s'); [apply NZ_iff; auto|exact H].
Qed.

(* results *)
Theorem op_or_result_nondeg : forall a b a' b' s, op_or a b = Ok (a', b', s) ->
  shape_lines a = true -> shape_lines b = true -> snondeg a -> snondeg b ->
  ssep a' -> ssep b' -> shape_lines s = true /\ snondeg s.
Proof.
  intros a b a' b' s H La Lb Na Nb Sa Sb. rewrite <- NZ_iff.
  apply (op_or_result_gen _ _ _ _ _ H); try (apply NZ_iff; auto). intros; auto.
Qed.

Theorem op_and_result_nondeg : forall a b a' b' s, op_and a b = Ok (a', b', s) ->
  shape_lines a = true -> shape_lines b = true -> snondeg a -> snondeg b ->
  ssep a' -> ssep b' -> shape_lines s = true /\ snondeg s.
Proof.
  intros a b a' b' s H La Lb Na Nb Sa Sb. rewrite <- NZ_iff.
  apply (op_and_result_gen _ _ _ _ _ H); try (apply NZ_iff; auto). intros; auto.
Qed.

Theorem op_or_result_nondeg' : forall a b a' b' s, op_or a b = Ok (a', b', s) ->
  shape_lines a = true -> shape_lines b = true -> snondeg a -> snondeg b ->
  resplit_sep a b -> shape_lines s = true /\ snondeg s.
Proof.
  intros a b a' b' s H La Lb Na Nb Hs. rewrite <- NZ_iff.
  apply (op_or_result_gen _ _ _ _ _ H); try (apply NZ_iff; auto).
  intros new Er. exact (Hs _ _ _ _ _ Er).
Qed.

Theorem op_and_result_nondeg' : forall a b a' b' s, op_and a b = Ok (a', b', s) ->
  shape_lines a = true -> shape_lines b = true -> snondeg a -> snondeg b ->
  resplit_sep a b -> shape_lines s = true /\ snondeg s.
Proof.
  intros a b a' b' s H La Lb Na Nb Hs. rewrite <- NZ_iff.
  apply (op_and_result_gen _ _ _ _ _ H); try (apply NZ_iff; auto).
  intros new Er. exact (Hs _ _ _ _ _ Er).
Qed.

(* a - b = a & ~b: the second operand of the inner & is the (fresh) complement of b *)
Theorem op_sub_result_nondeg : forall a b a' s, op_sub a b = Ok (a', s) ->
  shape_lines a = true -> shape_lines b = true -> snondeg a -> snondeg b ->
  (forall nb, op_not b = Ok nb -> resplit_sep a nb) ->
  shape_lines s = true /\ snondeg s.
Proof.
  intros a b a' s H La Lb Na Nb Hs. rewrite <- NZ_iff.
  apply (op_sub_result_gen _ _ _ _ H); try (apply NZ_iff; auto). exact Hs.
Qed.

(* a ^ b = (a - b) | (b - a1): one hypothesis for each of the three inner recombinations *)
Theorem op_xor_result_nondeg : forall a b a' b' s, op_xor a b = Ok (a', b', s) ->
  shape_lines a = true -> shape_lines b = true -> snondeg a -> snondeg b ->
  (forall nb, op_not b = Ok nb -> resplit_sep a nb) ->
  (forall na, op_not a' = Ok na -> resplit_sep b na) ->
  (forall d1 d2, op_sub a b = Ok (a', d1) -> op_sub b a' = Ok (b', d2) -> resplit_sep d1 d2) ->
  shape_lines s = true /\ snondeg s.
Proof.
  intros a b a' b' s H La Lb Na Nb H1 H2 H3. rewrite <- NZ_iff.
  assert (Ha : NZ a) by (apply NZ_iff; auto). assert (Hb : NZ b) by (apply NZ_iff; auto).
  destruct (op_xor_cases _ _ _ _ _ H) as (d1 & d2 & x1 & x2 & E1 & E2 & E3).
  pose proof (op_sub_operand_NZ _ _ _ _ E1 Ha Hb) as Ha'.
  pose proof (op_sub_result_gen _ _ _ _ E1 Ha Hb H1) as Hd1.
  pose proof (op_sub_result_gen _ _ _ _ E2 Hb Ha' H2) as Hd2.
  apply (op_or_result_gen _ _ _ _ _ E3 Hd1 Hd2).
  intros new Er. exact (H3 d1 d2 E1 E2 _ _ _ _ _ Er).
Qed.

(* sep is stronger than nondeg: Point2D.__eq__ identifies equal points *)
Lemma sep_seg_nondeg : forall s, sep_seg s -> ~ peq (first_pt s) (last_pt s).
Proof.
  intros s H. apply (sep_repoint _ _ _ H). apply pt_eq_refl.
Qed.

Print Assumptions split_nondeg.
Print Assumptions op_or_operands_nondeg.
Print Assumptions op_and_operands_nondeg.
Print Assumptions op_sub_operand_nondeg.
Print Assumptions op_xor_operands_nondeg.
Print Assumptions op_not_nondeg.
Print Assumptions follow_path_repointed.
Print Assumptions recombine_result_LN.
Print Assumptions op_or_result_nondeg.
Print Assumptions op_and_result_nondeg.
Print Assumptions op_or_result_nondeg'.
Print Assumptions op_and_result_nondeg'.
Print Assumptions op_sub_result_nondeg.
Print Assumptions op_xor_result_nondeg.
